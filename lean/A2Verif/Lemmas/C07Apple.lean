import A2Verif.Model.AddrMap
/-!
# C07, parts 1 and 2: skew tables; address maps of the Apple 5.25 inch 16-sector kind
(DO, PO, NIB/WOZ1/WOZ2; 2MG delegates to a wrapped DO or NIB).
Every theorem is `decide +kernel` over the complete finite range of the GENERATED tables.
-/
namespace A2Verif.C07
open A2Verif.Gen A2Verif.Model.AddrMap
open A2Verif.Gen.C07 (LayoutName)
open A2Verif.Model.AddrMap.Out (ok err panic)

/-! ## 1. skew tables -/

/-- C07 "sector-order conversions agree": `DOS_LSEC_TO_DOS_PSEC` and `DOS_PSEC_TO_DOS_LSEC` are
mutually inverse permutations of `Fin 16`. -/
theorem dos_skew_inverse :
    Skew.DOS_LSEC_TO_DOS_PSEC.length = 16 ∧ Skew.DOS_PSEC_TO_DOS_LSEC.length = 16 ∧
    ∀ i : Fin 16,
      (idx Skew.DOS_LSEC_TO_DOS_PSEC i.val >>= idx Skew.DOS_PSEC_TO_DOS_LSEC) = ok i.val ∧
      (idx Skew.DOS_PSEC_TO_DOS_LSEC i.val >>= idx Skew.DOS_LSEC_TO_DOS_PSEC) = ok i.val := by
  decide +kernel

example : idx Skew.DOS_LSEC_TO_DOS_PSEC 1 = ok 13 ∧ idx Skew.DOS_PSEC_TO_DOS_LSEC 13 = ok 1 := by decide

/-- `ts_from_prodos_block` (block → two logical sectors) and `prodos_block_from_ts` (logical sector →
block, byte offset) are mutually inverse on a 35-track 16-sector disk. -/
theorem prodos_block_maps_inverse :
    (∀ b : Fin 280, ∀ j : Fin 2,
      (do let ts ← tsFromProdosBlock b.val .dos33
          match ts[j.val]? with
          | some (t, l) => prodosBlockFromTs t l
          | none => panic) = ok (b.val, 256 * j.val)) ∧
    (∀ t : Fin 35, ∀ l : Fin 16,
      (do let (b, o) ← prodosBlockFromTs t.val l.val
          let ts ← tsFromProdosBlock b .dos33
          match ts[o / 256]? with
          | some tl => ok (tl, decide (b < 280), o % 256)
          | none => panic) = ok ((t.val, l.val), true, 0)) := by
  decide +kernel

/-- CP/M on Apple disks, 128-byte records: the physical-sector table used by the nibble containers
is the composition of the logical-sector table used by DO with the DOS skew, and the offset table
is "second half for odd records". -/
theorem cpm_tables_consistent :
    Skew.CPM_LSEC_TO_DOS_LSEC.length = 32 ∧ Skew.CPM_LSEC_TO_DOS_PSEC.length = 32 ∧
    Skew.CPM_LSEC_TO_DOS_OFFSET.length = 32 ∧
    ∀ i : Fin 32,
      idx Skew.CPM_LSEC_TO_DOS_PSEC i.val = (idx Skew.CPM_LSEC_TO_DOS_LSEC i.val >>= idx Skew.DOS_LSEC_TO_DOS_PSEC) ∧
      idx Skew.CPM_LSEC_TO_DOS_OFFSET i.val = ok (128 * (i.val % 2)) ∧
      idx Skew.CPM_LSEC_TO_DOS_PSEC (2 * (i.val / 2)) = idx Skew.CPM_LSEC_TO_DOS_PSEC (2 * (i.val / 2) + 1) := by
  decide +kernel

/-- every (DOS sector, half) of a track is hit by exactly one of the 32 CP/M records -/
theorem cpm_records_cover_track :
    ∀ l : Fin 16, ∀ h : Fin 2,
      ((List.range 32).filter fun i =>
        idx Skew.CPM_LSEC_TO_DOS_LSEC i = ok l.val ∧ idx Skew.CPM_LSEC_TO_DOS_OFFSET i = ok (128 * h.val)).length = 1 := by
  decide +kernel

/-! ## 2. Apple 5.25 inch, 16 sectors: DO, PO, NIB/WOZ1/WOZ2 (2MG delegates to DO or NIB) -/

/-- `doNormOfFlat` is the inverse of "where `DO::read_sector(t,0,p)` finds half `h`": it is the
normal-form (track, physical sector, half) of a flat DO offset. -/
theorem do_offset_norm_inverse :
    (∀ t : Fin 35, ∀ u : Fin 32,
      (doNormOfFlat (4096 * t.val + 128 * u.val) >>= doOffsetOf) = ok (4096 * t.val + 128 * u.val)) ∧
    (∀ t : Fin 35, ∀ p : Fin 16, ∀ h : Fin 2,
      (doOffsetOf (t.val, p.val, h.val) >>= doNormOfFlat) = ok (t.val, p.val, h.val)) := by
  decide +kernel

/-- same for PO, where the physical sector of a flat offset is given by the ProDOS interleave
(`prodos_block_from_ts` one way, `ts_from_prodos_block` the other way) -/
theorem po_offset_norm_inverse :
    (∀ t : Fin 35, ∀ u : Fin 32,
      (poNormOfFlat (4096 * t.val + 128 * u.val) >>= poOffsetOf) = ok (4096 * t.val + 128 * u.val)) ∧
    (∀ t : Fin 35, ∀ p : Fin 16, ∀ h : Fin 2,
      (poOffsetOf (t.val, p.val, h.val) >>= poNormOfFlat) = ok (t.val, p.val, h.val)) := by
  decide +kernel

/-- C07, ProDOS/Pascal blocks: for every block `b < 280` the 128-byte units located in a DO image,
a PO image and a nibble image (NIB, WOZ1, WOZ2) are the same physical (track, sector, half)
addresses in the same order. -/
theorem prodos_block_same_place :
    ∀ b : Fin 280,
      (nibNorm (.po b.val)).isOk = true ∧
      doNorm (.po b.val) = nibNorm (.po b.val) ∧
      poNorm (.po b.val) = nibNorm (.po b.val) := by
  decide +kernel

example : nibNorm (.po 1) = ok [(0, 4, 0), (0, 4, 1), (0, 6, 0), (0, 6, 1)] := by decide +kernel

/-- C07, DOS 3.3 sectors: for every `[t,s]` DO and the nibble containers address the same physical
sector; PO refuses the address (and `mkdsk` refuses DOS 3.3 on PO). -/
theorem dos_sector_same_place :
    ∀ t : Fin 35, ∀ s : Fin 16,
      (nibNorm (.dos t.val s.val)).isOk = true ∧
      doNorm (.dos t.val s.val) = nibNorm (.dos t.val s.val) ∧
      poPieces 280 (.dos t.val s.val) = err := by
  decide +kernel

/-- (bsh, off, dsm) of the Apple CP/M disk parameter block, from the generated `dpb.rs` table -/
def appleDpb : Nat × Nat × Nat :=
  match C07.cpmDpb.find? (fun d => d.1 = .A2_DOS33) with
  | some (_, _, bsh, dsm, off) => (bsh, off, dsm)
  | none => (0, 0, 0)

/-- C07, CP/M blocks on Apple disks: every block of the Apple DPB is located at the same physical
(track, sector, half) units, in the same order, by DO (128-byte records through the logical-sector
table) and by the nibble containers (256-byte sectors through the physical-sector table). -/
theorem cpm_block_same_place :
    appleDpb.2.2 + 1 = 128 ∧
    ∀ b : Fin 128,
      (nibNorm (.cpm b.val appleDpb.1 appleDpb.2.1)).isOk = true ∧
      doNorm (.cpm b.val appleDpb.1 appleDpb.2.1) = nibNorm (.cpm b.val appleDpb.1 appleDpb.2.1) := by
  decide +kernel

example : nibNorm (.cpm 0 3 3) = ok [(3,0,0),(3,0,1),(3,3,0),(3,3,1),(3,6,0),(3,6,1),(3,9,0),(3,9,1)] := by
  decide +kernel

/-- physical sector addressing of the nibble containers is the identity on (track, sector) -/
theorem woz_sector_identity :
    ∀ t : Fin 35, ∀ p : Fin 16, wozSector 35 .dos33 t.val 0 p.val = ok (t.val, p.val) := by
  decide +kernel


/-- normal-form address (track, physical sector, half) exists on a 35-track 16-sector disk -/
def Valid525 (a : NAddr) : Prop := a.1 < 35 ∧ a.2.1 < 16 ∧ a.2.2 < 2

/-- the same as a Boolean -/
def validB (a : NAddr) : Bool := decide (a.1 < 35 ∧ a.2.1 < 16 ∧ a.2.2 < 2)

def allValid (o : Out (List NAddr)) : Bool :=
  match o with
  | ok as => as.all validB
  | _ => false

/-- every in-range block is located at addresses that exist on the disk -/
theorem norm_addresses_valid :
    (∀ b : Fin 280, allValid (nibNorm (.po b.val)) = true) ∧
    (∀ t : Fin 35, ∀ s : Fin 16, allValid (nibNorm (.dos t.val s.val)) = true) ∧
    (∀ b : Fin 128, allValid (nibNorm (.cpm b.val appleDpb.1 appleDpb.2.1)) = true) := by
  decide +kernel

end A2Verif.C07
