import A2Verif.Lemmas.FsFatQuery
/-!
# `writeback_fat_buffer` (the flush `get_img()` performs): every FAT copy receives the buffer, nothing else changes
-/
namespace A2Verif.FsFat
open A2Verif A2Verif.Fs.Fat

/-- what `wbLoop` writes for the pair `(s, off)` -/
def wbUnit (f : Array Nat) (ulen off : Nat) : Bytes := quantize (f.extract off (off + ulen)).toList ulen

theorem wbLoop_spec (f : Array Nat) : ∀ (l : List (Nat × Nat)) (d : Disk), d.bpb.spt ≠ 0 → d.bpb.heads ≠ 0 →
    (∀ x ∈ l, x.1 / d.bpb.spt < d.raw.units.size / d.bpb.spt ∧ x.1 < d.raw.units.size ∧ x.2 ≤ f.size) →
    (∀ x ∈ l, ∀ y ∈ l, x.1 = y.1 → x.2 = y.2) →
    ∃ r', wbLoop f l d = (.ok (), { d with raw := r' }) ∧ r'.units.size = d.raw.units.size ∧ r'.unitLen = d.raw.unitLen ∧
      (∀ u, (∀ x ∈ l, x.1 ≠ u) → r'.units[u]? = d.raw.units[u]?) ∧
      (∀ x ∈ l, r'.units[x.1]? = some (wbUnit f d.raw.unitLen x.2)) := by
  intro l
  induction l with
  | nil =>
    intro d _ _ _ _
    exact ⟨d.raw, rfl, rfl, rfl, fun _ _ => rfl, fun x hx => by cases hx⟩
  | cons a t ih =>
    intro d hspt hheads hin hcons
    obtain ⟨s, off⟩ := a
    obtain ⟨h1, h2, h3⟩ := hin (s, off) (by simp)
    have hchs : getChs d s = .ok s := by
      unfold getChs Raw.count
      simp [hspt, hheads]
      exact h1
    let d1 : Disk := { d with raw := { d.raw with units := d.raw.units.setIfInBounds s (wbUnit f d.raw.unitLen off) } }
    have hstep : wbLoop f ((s, off) :: t) d = wbLoop f t d1 := by
      rw [wbLoop]
      have : ¬ (off > f.size) := by omega
      simp only [M_bind_apply, M.get, M.lift, hchs, this, if_false, imgWriteSector, h2, if_true, M.setRaw]
      rfl
    have hsz1 : d1.raw.units.size = d.raw.units.size := by simp [d1]
    obtain ⟨r', e1, e2, e3, e4, e5⟩ := ih d1 hspt hheads
      (fun x hx => by
        have := hin x (by simp [hx])
        rw [hsz1]; exact this)
      (fun x hx y hy => hcons x (by simp [hx]) y (by simp [hy]))
    refine ⟨r', by rw [hstep, e1], by rw [e2, hsz1], e3, ?_, ?_⟩
    · intro u hu
      rw [e4 u (fun x hx => hu x (by simp [hx]))]
      have : s ≠ u := hu (s, off) (by simp)
      simp [d1, Array.getElem?_setIfInBounds, this]
    · intro x hx
      rcases List.mem_cons.mp hx with hx | hx
      · subst hx
        by_cases hmem : ∃ y ∈ t, y.1 = s
        · obtain ⟨y, hy, hys⟩ := hmem
          have := e5 y hy
          rw [hys] at this
          have hoff : y.2 = off := (hcons y (by simp [hy]) (s, off) (by simp) hys)
          rw [hoff] at this
          exact this
        · have hne : ∀ y ∈ t, y.1 ≠ s := fun y hy hc => hmem ⟨y, hy, hc⟩
          rw [e4 s hne]
          simp [d1, Array.getElem?_setIfInBounds, h2]
      · exact e5 x hx

/-- the pairs `writeback_fat_buffer` runs over -/
def wbPairs (b : Bpb) : List (Nat × Nat) :=
  (List.range b.nfat).flatMap (fun k => (List.range b.fatSecs).map (fun j => (b.resSecs + k * b.fatSecs + j, j * b.secSize)))

theorem mem_wbPairs {b : Bpb} {x : Nat × Nat} : x ∈ wbPairs b ↔ ∃ k j, k < b.nfat ∧ j < b.fatSecs ∧ x = (b.rsvd + k * b.fatSecs + j, j * b.secSize) := by
  unfold wbPairs Bpb.resSecs
  simp only [List.mem_flatMap, List.mem_map, List.mem_range]
  constructor
  · rintro ⟨k, hk, j, hj, rfl⟩; exact ⟨k, j, hk, hj, rfl⟩
  · rintro ⟨k, j, hk, hj, rfl⟩; exact ⟨k, hk, j, hj, rfl⟩

/-- **the flush**: with a buffer of the right size, every FAT copy on the image becomes the buffer and no other unit
changes; `Geo` is kept and `Coh` is established -/
theorem flush_spec {d : Disk} {f : Array Nat} (g : Geo d) (hf : d.fat = some f) (hs : f.size = d.bpb.fatSecs * 512) (hb : BytesOk f) :
    ∃ r', flush d = (.ok (), { d with raw := r' }) ∧ Geo { d with raw := r' } ∧ Coh { d with raw := r' } f ∧
      (∀ u, (u < d.bpb.rsvd ∨ d.bpb.rootBeg ≤ u) → r'.units[u]? = d.raw.units[u]?) := by
  have hfs := fatSecs_eq g
  have hlt : ∀ k j, k < d.bpb.nfat → j < d.bpb.fatSecs → d.bpb.rsvd + k * d.bpb.fatSecs + j < d.bpb.rootBeg := by
    intro k j hk hj
    unfold Bpb.rootBeg
    have h2 : (k + 1) * d.bpb.fatSecs ≤ d.bpb.nfat * d.bpb.fatSecs := Nat.mul_le_mul_right _ hk
    rw [Nat.add_mul] at h2
    omega
  have hroot : d.bpb.rootBeg ≤ d.bpb.firstDataSec := by unfold Bpb.firstDataSec Bpb.rootBeg; omega
  have hfit := g.fits
  obtain ⟨r', e1, e2, e3, e4, e5⟩ := wbLoop_spec f (wbPairs d.bpb) d g.spt g.heads
    (by
      intro x hx
      obtain ⟨k, j, hk, hj, rfl⟩ := mem_wbPairs.mp hx
      have := hlt k j hk hj
      refine ⟨g.chs _ (by omega), by omega, ?_⟩
      show j * d.bpb.secSize ≤ f.size
      rw [hs]; unfold Bpb.secSize; rw [g.bps]
      exact Nat.mul_le_mul_right 512 (Nat.le_of_lt hj))
    (by
      intro x hx y hy hxy
      obtain ⟨k, j, hk, hj, rfl⟩ := mem_wbPairs.mp hx
      obtain ⟨k', j', hk', hj', rfl⟩ := mem_wbPairs.mp hy
      simp only at hxy ⊢
      -- the sector number determines (k, j)
      have : j = j' := by
        have a1 : (d.bpb.rsvd + k * d.bpb.fatSecs + j - d.bpb.rsvd) % d.bpb.fatSecs = j := by
          have : d.bpb.rsvd + k * d.bpb.fatSecs + j - d.bpb.rsvd = j + k * d.bpb.fatSecs := by omega
          rw [this, Nat.add_mul_mod_self_right, Nat.mod_eq_of_lt hj]
        have a2 : (d.bpb.rsvd + k' * d.bpb.fatSecs + j' - d.bpb.rsvd) % d.bpb.fatSecs = j' := by
          have : d.bpb.rsvd + k' * d.bpb.fatSecs + j' - d.bpb.rsvd = j' + k' * d.bpb.fatSecs := by omega
          rw [this, Nat.add_mul_mod_self_right, Nat.mod_eq_of_lt hj']
        rw [hxy] at a1
        omega
      rw [this])
  have hunit : ∀ j, j < d.bpb.fatSecs → wbUnit f d.raw.unitLen (j * d.bpb.secSize) = fatSector f j := by
    intro j hj
    unfold wbUnit Bpb.secSize
    rw [g.ulen, g.bps, fatSector_eq]
    unfold quantize
    rw [if_pos (fatSector_len hs hj)]
  have hflush : flush d = (.ok (), { d with raw := r' }) := by
    unfold flush writebackFatBuffer
    rw [M_bind_apply]
    simp only [M.get]
    generalize ((Except.ok (), ({ d with raw := r' } : Disk)) : R Unit × Disk) = res at e1 ⊢
    simp only [hf]
    exact e1
  have hother : ∀ u, (u < d.bpb.rsvd ∨ d.bpb.rootBeg ≤ u) → r'.units[u]? = d.raw.units[u]? := by
    intro u hu
    apply e4
    intro x hx
    obtain ⟨k, j, hk, hj, rfl⟩ := mem_wbPairs.mp hx
    have := hlt k j hk hj
    simp only
    omega
  have hcopies : ∀ k j, k < d.bpb.nfat → j < d.bpb.fatSecs → r'.units[d.bpb.rsvd + k * d.bpb.fatSecs + j]? = some (fatSector f j) := by
    intro k j hk hj
    have := e5 (d.bpb.rsvd + k * d.bpb.fatSecs + j, j * d.bpb.secSize) (mem_wbPairs.mpr ⟨k, j, hk, hj, rfl⟩)
    rw [hunit j hj] at this
    exact this
  refine ⟨r', hflush, ?_, ?_, hother⟩
  · obtain ⟨s0, hs0, hb0⟩ := g.boot
    have hr := g.rsvd
    refine { boot := ⟨s0, ?_, hb0⟩, ulen := by rw [← g.ulen]; exact e3, usz := ?_, bps := g.bps, spc := g.spc, nfat := g.nfat,
             fat16 := g.fat16, spt := g.spt, heads := g.heads, typ := g.typ, ftyp := g.ftyp, rsvd := g.rsvd,
             fits := by rw [show ({ d with raw := r' } : Disk).raw.units.size = r'.units.size from rfl, e2]; exact g.fits,
             chs := by rw [show ({ d with raw := r' } : Disk).raw.units.size = r'.units.size from rfl, e2]; exact g.chs }
    · show r'.units[0]? = some s0
      rw [hother 0 (Or.inl (by omega))]; exact hs0
    · intro i hi
      have hi' : i < d.raw.units.size := by rw [← e2]; exact hi
      have hget : r'.units[i]? = some (r'.units[i]) := Array.getElem?_eq_getElem hi
      by_cases hfat : d.bpb.rsvd ≤ i ∧ i < d.bpb.rootBeg
      · -- a FAT sector
        have hfs0 : 0 < d.bpb.fatSecs := by rw [hfs]; exact Nat.pos_of_ne_zero g.fat16
        have hk : (i - d.bpb.rsvd) / d.bpb.fatSecs < d.bpb.nfat := by
          rw [Nat.div_lt_iff_lt_mul hfs0]
          unfold Bpb.rootBeg at hfat
          omega
        have hj : (i - d.bpb.rsvd) % d.bpb.fatSecs < d.bpb.fatSecs := Nat.mod_lt _ hfs0
        have hi2 : d.bpb.rsvd + (i - d.bpb.rsvd) / d.bpb.fatSecs * d.bpb.fatSecs + (i - d.bpb.rsvd) % d.bpb.fatSecs = i := by
          have := Nat.div_add_mod' (i - d.bpb.rsvd) d.bpb.fatSecs
          omega
        have := hcopies _ _ hk hj
        rw [hi2, hget] at this
        injection this with this
        show (r'.units[i]).length = 512
        rw [this]
        exact fatSector_len hs hj
      · have : r'.units[i]? = d.raw.units[i]? := hother i (by omega)
        rw [hget, Array.getElem?_eq_getElem hi'] at this
        injection this with this
        show (r'.units[i]).length = 512
        rw [this]; exact g.usz i hi'
  · exact { isOpen := hf, size := hs, bytes := hb, copies := hcopies }

end A2Verif.FsFat
