import A2Verif.Model.C09Meta
/-!
Lemmas for the metadata interface: hex text ↔ bytes, space padded buffers, the field store.
-/
namespace A2Verif.Lemmas.C09Meta
open A2Verif.Model.C09Meta A2Verif.Model

theorem hex_pair (a b x y : Nat) (ha : hexVal a = some x) (hb : hexVal b = some y) :
    hexDigit ((16 * x + y) / 16) = lowerC a ∧ hexDigit ((16 * x + y) % 16) = lowerC b := by
  simp only [hexVal] at ha hb
  have hx : x < 16 ∧ hexDigit x = lowerC a := by
    simp only [hexDigit, lowerC]
    split at ha
    · cases ha; constructor <;> (try split) <;> (try split) <;> omega
    · split at ha
      · cases ha; constructor <;> (try split) <;> (try split) <;> omega
      · split at ha
        · cases ha; constructor <;> (try split) <;> (try split) <;> omega
        · cases ha
  have hy : y < 16 ∧ hexDigit y = lowerC b := by
    simp only [hexDigit, lowerC]
    split at hb
    · cases hb; constructor <;> (try split) <;> (try split) <;> omega
    · split at hb
      · cases hb; constructor <;> (try split) <;> (try split) <;> omega
      · split at hb
        · cases hb; constructor <;> (try split) <;> (try split) <;> omega
        · cases hb
  have h1 : (16 * x + y) / 16 = x := by omega
  have h2 : (16 * x + y) % 16 = y := by omega
  rw [h1, h2]
  exact ⟨hx.2, hy.2⟩

/-- what `get_metadata` prints for the decoded bytes is the lower-case spelling of the accepted hex text -/
theorem encode_decodePairs : ∀ (v bs : List Nat), decodePairs v = some bs → encodeHex bs = v.map lowerC
  | [], bs, h => by simp [decodePairs] at h; subst h; rfl
  | [_], bs, h => by simp [decodePairs] at h
  | a :: b :: r, bs, h => by
    simp only [decodePairs] at h
    cases hx : hexVal a with
    | none => simp [hx] at h
    | some x =>
      cases hy : hexVal b with
      | none => simp [hx, hy] at h
      | some y =>
        cases ht : decodePairs r with
        | none => simp [hx, hy, ht] at h
        | some t =>
          simp only [hx, hy, ht, Option.some.injEq] at h
          subst h
          have ih := encode_decodePairs r t ht
          have hp := hex_pair a b x y hx hy
          simp only [encodeHex, List.map_cons, hp.1, hp.2, ih]

theorem encode_decodeHex (n : Nat) (v bs : List Nat) (h : decodeHex n v = some bs) : encodeHex bs = v.map lowerC := by
  simp only [decodeHex] at h
  cases hd : decodePairs v with
  | none => simp [hd] at h
  | some cs =>
    simp only [hd] at h
    by_cases hl : cs.length = n
    · rw [if_pos hl] at h; cases h; exact encode_decodePairs v _ hd
    · rw [if_neg hl] at h; cases h

theorem dropWhile_replicate (p : Nat → Bool) (a : Nat) (m : Nat) (l : List Nat) (hp : p a = true) :
    (List.replicate m a ++ l).dropWhile p = l.dropWhile p := by
  induction m with
  | zero => rfl
  | succ m ih => simp [List.replicate_succ, List.dropWhile_cons, hp, ih]

/-- the space padding of a fixed-width text field is invisible in `get_metadata` -/
theorem trimEnd_padded (v : List Nat) (m : Nat) : trimEnd (v ++ List.replicate m 0x20) = trimEnd v := by
  simp only [trimEnd, List.reverse_append, List.reverse_replicate]
  rw [dropWhile_replicate isSpace 0x20 m v.reverse (by decide)]

/-- **what is stored renders as what the caller may expect** — per kind of field -/
theorem accept_render (k : Kind) (v raw : List Nat) (hpad : ∀ n pad, k = .buf n pad → pad = 0x20)
    (h : accept k v = some raw) : render k raw = expected k v := by
  cases k with
  | hex n => exact encode_decodeHex n v raw h
  | hexOneOf n allowed =>
    simp only [accept] at h
    split at h
    · exact encode_decodeHex n v raw h
    · cases h
  | hardware =>
    simp only [accept] at h
    split at h
    · cases h
    · cases hd : decodeHex 2 v with
      | none => simp [hd] at h
      | some bs =>
        simp only [hd] at h
        match bs, h with
        | [lo, hi], h =>
          by_cases hv : lo + 256 * hi < 512
          · simp only [if_pos hv] at h; cases h; exact encode_decodeHex 2 v [lo, hi] hd
          · simp only [if_neg hv] at h; cases h
        | [], h => simp at h
        | [_], h => simp at h
        | _ :: _ :: _ :: _, h => simp at h
  | text => simp only [accept, Option.some.injEq] at h; subst h; rfl
  | buf n pad =>
    have hp := hpad n pad rfl
    subst hp
    simp only [accept, setUtf8] at h
    split at h
    · cases h; exact trimEnd_padded v _
    · cases h
  | readOnly => simp [accept] at h
  | td0Notes =>
    simp only [accept, C09Td0.putNotes] at h
    split at h
    · cases h
    · cases h; rfl
  | imdComment =>
    simp only [accept] at h
    split at h
    · cases h
    · cases h; rfl

theorem lookup_store_same (st : State) (p : List String) (raw : List Nat) : lookup (store st p raw) p = some raw := by
  simp [lookup, store, List.find?_cons]

theorem lookup_store_other (st : State) (p q : List String) (raw : List Nat) (hne : q ≠ p) :
    lookup (store st p raw) q = lookup st q := by
  have h1 : (p == q) = false := by
    simp only [beq_eq_false_iff_ne, ne_eq]; exact fun h => hne h.symm
  simp only [lookup, store, List.find?_cons, h1]
  congr 1
  induction st with
  | nil => rfl
  | cons e r ih =>
    simp only [List.filter_cons]
    by_cases he : e.1 == p
    · have : (e.1 == q) = false := by
        simp only [beq_iff_eq] at he
        simp only [beq_eq_false_iff_ne, ne_eq, he]; exact fun h => hne h.symm
      simp [he, List.find?_cons, this, ih]
    · simp [he, List.find?_cons, ih]

end A2Verif.Lemmas.C09Meta
