import A2Verif.Lemmas.FsCpmPutLoop6
/-!
# `put` is accepted when it fits (C04, acceptance): counting free blocks and free directory entries

`get_available_block` and `get_available_extent` are first-fit searches; they succeed as long as something is free.  Here:
how the number of free blocks / free entries changes when the write loops set a pointer or store an entry.
-/
namespace A2Verif.FsCpm
open A2Verif.Fs.Cpm
open A2Verif.Read.Cpm (Dpb fileKey extNum entryPtrs pathOf slots)

/-! ## counting in lists -/

theorem filter_length_mono {α : Type} {p q : α → Bool} : ∀ {l : List α}, (∀ b ∈ l, p b = true → q b = true) →
    (l.filter p).length ≤ (l.filter q).length
  | [], _ => Nat.le_refl _
  | a :: l, h => by
    have ih := filter_length_mono (l := l) (fun b hb => h b (List.mem_cons_of_mem _ hb))
    by_cases cp : p a = true
    · rw [List.filter_cons_of_pos cp, List.filter_cons_of_pos (h a List.mem_cons_self cp), List.length_cons, List.length_cons]
      omega
    · rw [List.filter_cons_of_neg cp]
      by_cases cq : q a = true
      · rw [List.filter_cons_of_pos cq, List.length_cons]; omega
      · rw [List.filter_cons_of_neg cq]; exact ih

/-- removing one element from what a predicate accepts (on a list without repetitions) lowers the count by at most one -/
theorem filter_length_but_one {p q : Nat → Bool} (i : Nat) : ∀ {l : List Nat}, l.Nodup →
    (∀ b ∈ l, p b = true → b ≠ i → q b = true) → (l.filter p).length ≤ (l.filter q).length + 1
  | [], _, _ => Nat.zero_le _
  | a :: l, nd, h => by
    rw [List.nodup_cons] at nd
    by_cases ca : a = i
    · have hm : (l.filter p).length ≤ (l.filter q).length :=
        filter_length_mono (fun b hb hp => h b (List.mem_cons_of_mem _ hb) hp (fun e => nd.1 (ca ▸ e ▸ hb)))
      have h1 : ((a :: l).filter p).length ≤ (l.filter p).length + 1 := by
        by_cases cp : p a = true
        · rw [List.filter_cons_of_pos cp, List.length_cons]; omega
        · rw [List.filter_cons_of_neg cp]; omega
      have h2 : (l.filter q).length ≤ ((a :: l).filter q).length := by
        by_cases cq : q a = true
        · rw [List.filter_cons_of_pos cq, List.length_cons]; omega
        · rw [List.filter_cons_of_neg cq]; omega
      omega
    · have ih := filter_length_but_one i nd.2 (fun b hb => h b (List.mem_cons_of_mem _ hb))
      by_cases cp : p a = true
      · rw [List.filter_cons_of_pos cp, List.filter_cons_of_pos (h a List.mem_cons_self cp ca), List.length_cons, List.length_cons]
        omega
      · rw [List.filter_cons_of_neg cp]
        by_cases cq : q a = true
        · rw [List.filter_cons_of_pos cq, List.length_cons]; omega
        · rw [List.filter_cons_of_neg cq]; exact ih

theorem filter_set_le {α : Type} (p : α → Bool) : ∀ (l : List α) (i : Nat) (e : α),
    (l.filter p).length ≤ ((l.set i e).filter p).length + 1
  | [], _, _ => Nat.zero_le _
  | a :: l, 0, e => by
    rw [List.set_cons_zero]
    by_cases cp : p a = true
    · rw [List.filter_cons_of_pos cp, List.length_cons]
      by_cases ce : p e = true
      · rw [List.filter_cons_of_pos ce, List.length_cons]; omega
      · rw [List.filter_cons_of_neg ce]; omega
    · rw [List.filter_cons_of_neg cp]
      by_cases ce : p e = true
      · rw [List.filter_cons_of_pos ce, List.length_cons]; omega
      · rw [List.filter_cons_of_neg ce]; omega
  | a :: l, i + 1, e => by
    rw [List.set_cons_succ]
    have ih := filter_set_le p l i e
    by_cases cp : p a = true
    · rw [List.filter_cons_of_pos cp, List.filter_cons_of_pos cp, List.length_cons, List.length_cons]; omega
    · rw [List.filter_cons_of_neg cp, List.filter_cons_of_neg cp]; exact ih

theorem filter_set_le0 {α : Type} (p : α → Bool) : ∀ (l : List α) (i : Nat) (e a : α), l[i]? = some a → p a = false →
    (l.filter p).length ≤ ((l.set i e).filter p).length
  | [], _, _, _, h, _ => by cases h
  | b :: l, 0, e, a, h, hp => by
    simp only [List.getElem?_cons_zero, Option.some.injEq] at h
    subst h
    rw [List.set_cons_zero, List.filter_cons_of_neg (by simp [hp])]
    by_cases ce : p e = true
    · rw [List.filter_cons_of_pos ce, List.length_cons]; omega
    · rw [List.filter_cons_of_neg ce]; omega
  | b :: l, i + 1, e, a, h, hp => by
    rw [List.set_cons_succ]
    have ih := filter_set_le0 p l i e a (by simpa using h) hp
    by_cases cp : p b = true
    · rw [List.filter_cons_of_pos cp, List.filter_cons_of_pos cp, List.length_cons, List.length_cons]; omega
    · rw [List.filter_cons_of_neg cp, List.filter_cons_of_neg cp]; exact ih

/-! ## free blocks -/

/-- the blocks `get_available_block` would hand out -/
def freeBlocks (d : Dpb) (dir : Dir) : List Nat :=
  (List.range (userBlocks d)).filter (fun b => !isReserved d b && !(usedPtrs d dir).contains b)

theorem getAvailableBlock_some {d : Dpb} {dir : Dir} (h : 0 < (freeBlocks d dir).length) : ∃ b, getAvailableBlock d dir = some b := by
  unfold getAvailableBlock
  simp only []
  cases hf : (List.range (userBlocks d)).find? (fun b => !isReserved d b && !(usedPtrs d dir).contains b) with
  | some b => exact ⟨b, rfl⟩
  | none =>
    exfalso
    rw [List.find?_eq_none] at hf
    have : freeBlocks d dir = [] := by
      unfold freeBlocks
      rw [List.filter_eq_nil_iff]
      exact hf
    rw [this] at h
    exact Nat.lt_irrefl _ h

theorem usedPtrs_set_sub {d : Dpb} {dir : Dir} {i : Nat} {e' : Bytes} {b : Nat} (h : b ∈ usedPtrs d (dir.set i e')) :
    b ∈ usedPtrs d dir ∨ (isExtent e' = true ∧ b ∈ Ext.blockList d e') := by
  unfold usedPtrs at h ⊢
  rw [List.mem_flatMap] at h
  obtain ⟨e, he, hb⟩ := h
  rcases List.mem_or_eq_of_mem_set he with he | he
  · exact Or.inl (List.mem_flatMap.2 ⟨e, he, hb⟩)
  · subst he
    by_cases c : isExtent e = true
    · rw [if_pos c] at hb; exact Or.inr ⟨c, hb⟩
    · rw [if_neg c] at hb; cases hb

/-- one more block referenced: at most one free block less -/
theorem freeBlocks_step {d : Dpb} {dir dir' : Dir} (b : Nat)
    (h : ∀ b', b' ∈ usedPtrs d dir' → b' ∈ usedPtrs d dir ∨ b' = b ∨ isReserved d b' = true) :
    (freeBlocks d dir).length ≤ (freeBlocks d dir').length + 1 := by
  unfold freeBlocks
  apply filter_length_but_one b List.nodup_range
  intro b' _ hp hne
  simp only [Bool.and_eq_true, Bool.not_eq_true', List.contains_eq_mem, decide_eq_false_iff_not] at hp ⊢
  refine ⟨hp.1, fun hm => ?_⟩
  rcases h b' hm with h1 | h1 | h1
  · exact hp.2 h1
  · exact hne h1
  · rw [hp.1] at h1; cases h1

theorem freeBlocks_mono {d : Dpb} {dir dir' : Dir}
    (h : ∀ b', b' ∈ usedPtrs d dir' → b' ∈ usedPtrs d dir ∨ isReserved d b' = true) :
    (freeBlocks d dir).length ≤ (freeBlocks d dir').length := by
  unfold freeBlocks
  apply filter_length_mono
  intro b' _ hp
  simp only [Bool.and_eq_true, Bool.not_eq_true', List.contains_eq_mem, decide_eq_false_iff_not] at hp ⊢
  refine ⟨hp.1, fun hm => ?_⟩
  rcases h b' hm with h1 | h1
  · exact hp.2 h1
  · rw [hp.1] at h1; cases h1

/-! ## free directory entries -/

theorem getAvailableExtent_some {d : Dpb} {dir : Dir} (hl : dir.length = dirEntries d) (h : 0 < numFreeExtents dir) :
    ∃ idx, getAvailableExtent d dir = some idx := by
  unfold getAvailableExtent
  cases hf : (List.range (dirEntries d)).find? (fun i => match dir[i]? with
      | some e => isExtentFree e
      | none => false) with
  | some idx => exact ⟨idx, rfl⟩
  | none =>
    exfalso
    rw [List.find?_eq_none] at hf
    unfold numFreeExtents at h
    obtain ⟨e, he⟩ := List.exists_mem_of_length_pos h
    rw [List.mem_filter] at he
    obtain ⟨j, hj, ej⟩ := List.mem_iff_getElem.1 he.1
    have := hf j (List.mem_range.2 (by rw [← hl]; exact hj))
    rw [List.getElem?_eq_getElem hj, ej] at this
    exact this he.2

theorem extent_not_free {e : Bytes} (h : isExtent e = true) : isExtentFree e = false := by
  cases hf : isExtentFree e with
  | false => rfl
  | true => rw [free_not_extent hf] at h; cases h

/-! ## the pointers of the entry the loop stores -/

/-- the pointers of an entry with one slot set -/
theorem ptrs_after_set {d : Dpb} {fx fx' : Bytes} {k0 b b' : Nat} (hl' : fx'.length = 32)
    (hptr : ∀ k, k < slots d → (entryPtrs d fx').getD k 0 = if k = k0 then b else (entryPtrs d fx).getD k 0)
    (hm : b' ∈ Ext.blockList d fx') : b' = b ∨ ∃ k, k < slots d ∧ (entryPtrs d fx).getD k 0 = b' := by
  rw [blockList_eq hl'] at hm
  obtain ⟨k, hk⟩ := List.mem_iff_getElem?.1 hm
  obtain ⟨hk1, hk2⟩ := entryPtrs_getElem? d fx' hk
  rw [hptr k hk1] at hk2
  by_cases ck : k = k0
  · rw [if_pos ck] at hk2; exact Or.inl hk2.symm
  · rw [if_neg ck] at hk2; exact Or.inr ⟨k, hk1, hk2⟩

/-- the closed entry keeps the status byte and the pointers -/
theorem closed_same {fx : Bytes} (he : fx.length = 32) (n xb : Nat) (v3 : Bool) :
    (Ext.setEof (Ext.setDataPtr fx n) xb v3).length = 32 ∧
    ∀ i, (i < 12 ∨ 16 ≤ i) → (Ext.setEof (Ext.setDataPtr fx n) xb v3).getD i 0 = fx.getD i 0 := by
  have l1 := setDataPtr_length (i := n) he
  refine ⟨setEof_length l1, fun i hi => ?_⟩
  rw [setEof_getD l1, if_neg (by omega), if_neg (by omega), setDataPtr_getD he, if_neg (by omega), if_neg (by omega)]

theorem usedPtrs_close {d : Dpb} {dir : Dir} {ptr : Nat} {fx y : Bytes} (hdir : dir[ptr]? = some fx) (hx : isExtent fx = true)
    (hl : fx.length = 32) (hy : y.length = 32) (hsame : ∀ i, 16 ≤ i → y.getD i 0 = fx.getD i 0) {b : Nat}
    (h : b ∈ usedPtrs d (dir.set ptr y)) : b ∈ usedPtrs d dir := by
  rcases usedPtrs_set_sub h with h1 | ⟨_, h2⟩
  · exact h1
  · rw [blockList_eq hy, entryPtrs_congr hsame] at h2
    unfold usedPtrs
    rw [List.mem_flatMap]
    refine ⟨fx, List.mem_of_getElem? hdir, ?_⟩
    rw [if_pos hx, blockList_eq hl]
    exact h2

/-! ## how many chunks the indices `a ..< a+n` hold -/

def need (f : FImg) (a n : Nat) : Nat := ((List.range' a n).filter (fun g => (f.chunks.lookup g).isSome)).length

theorem need_zero (f : FImg) (a : Nat) : need f a 0 = 0 := rfl

theorem need_succ_none {f : FImg} {a n : Nat} (h : f.chunks.lookup a = none) : need f a (n + 1) = need f (a + 1) n := by
  unfold need
  rw [List.range'_succ, List.filter_cons_of_neg (by rw [h]; simp)]

theorem need_succ_some {f : FImg} {a n : Nat} {c : Bytes} (h : f.chunks.lookup a = some c) :
    need f a (n + 1) = need f (a + 1) n + 1 := by
  unfold need
  rw [List.range'_succ, List.filter_cons_of_pos (by rw [h]; simp), List.length_cons]

theorem need_add (f : FImg) (a m n : Nat) : need f a (m + n) = need f a m + need f (a + m) n := by
  unfold need
  rw [← List.range'_append_1, List.filter_append, List.length_append]

theorem need_pos {f : FImg} {a n g : Nat} {c : Bytes} (h1 : a ≤ g) (h2 : g < a + n) (hg : f.chunks.lookup g = some c) : 0 < need f a n := by
  unfold need
  apply List.length_pos_of_mem (a := g)
  rw [List.mem_filter, List.mem_range'_1]
  exact ⟨⟨h1, h2⟩, by rw [hg]; rfl⟩

theorem need_pos_ex {f : FImg} {a n : Nat} (h : 0 < need f a n) : ∃ g c, a ≤ g ∧ g < a + n ∧ f.chunks.lookup g = some c := by
  unfold need at h
  obtain ⟨g, hg⟩ := List.exists_mem_of_length_pos h
  rw [List.mem_filter, List.mem_range'_1] at hg
  cases hc : f.chunks.lookup g with
  | none => rw [hc] at hg; cases hg.2
  | some c => exact ⟨g, c, hg.1.1, hg.1.2, hc⟩

theorem nodup_subset_length : ∀ {l m : List Nat}, l.Nodup → (∀ a ∈ l, a ∈ m) → l.length ≤ m.length
  | [], _, _, _ => Nat.zero_le _
  | a :: l, m, nd, h => by
    rw [List.nodup_cons] at nd
    have ham : a ∈ m := h a List.mem_cons_self
    have ih := nodup_subset_length (l := l) (m := m.erase a) nd.2 (fun b hb => by
      have hne : b ≠ a := fun e => nd.1 (e ▸ hb)
      exact (List.mem_erase_of_ne hne).2 (h b (List.mem_cons_of_mem _ hb)))
    rw [List.length_erase_of_mem ham] at ih
    have : 0 < m.length := List.length_pos_of_mem ham
    rw [List.length_cons]
    omega

/-- no more indices hold a chunk than there are chunks -/
theorem need_le (f : FImg) (a n : Nat) : need f a n ≤ f.chunks.length := by
  unfold need
  have h1 : ((List.range' a n).filter (fun g => (f.chunks.lookup g).isSome)).Nodup := List.filter_sublist.nodup List.nodup_range'
  have := nodup_subset_length (m := f.chunks.map (·.1)) h1 (by
    intro g hg
    rw [List.mem_filter] at hg
    cases hc : f.chunks.lookup g with
    | none => rw [hc] at hg; cases hg.2
    | some c => exact List.mem_map.2 ⟨(g, c), lookup_mem hc, rfl⟩)
  rw [List.length_map] at this
  exact this

/-- physical extents `x ..< x+n` that hold a chunk (`S` slots each) -/
def extNeed (f : FImg) (S x n : Nat) : Nat := ((List.range' x n).filter (fun x' => decide (0 < need f (x' * S) S))).length

theorem extNeed_succ_pos {f : FImg} {S x n : Nat} (h : 0 < need f (x * S) S) : extNeed f S x (n + 1) = extNeed f S (x + 1) n + 1 := by
  unfold extNeed
  rw [List.range'_succ, List.filter_cons_of_pos (by simpa using h), List.length_cons]

theorem extNeed_succ_zero {f : FImg} {S x n : Nat} (h : need f (x * S) S = 0) : extNeed f S x (n + 1) = extNeed f S (x + 1) n := by
  unfold extNeed
  rw [List.range'_succ, List.filter_cons_of_neg (by simp [h])]

end A2Verif.FsCpm
