import A2Verif.Lemmas.FsProdosDir
/-!
# Directory blocks as a2kit writes them back, byte by byte

Every directory write of the model has the same shape: the first 511 bytes of the block (`to_bytes` of the directory
structure) with one field patched, written through `quantize` (byte 511 becomes 0).  `patched blk off new` is that block;
`getD_patched` gives each of its bytes; the entries (`entryAt`), links and header fields of the patched block follow.
-/
namespace A2Verif.FsProdos
open A2Verif.Fs.Prodos
open A2Verif.Read.Prodos (entryAt)

/-- block `blk` with `new` written at `off` of its first 511 bytes, as `write_block` stores it -/
def patched (blk : Bytes) (off : Nat) (new : Bytes) : Bytes := quantize ((splice (blk.take dirLen) off new).take blockSize)

theorem blockWithEntry_eq (blk : Bytes) (idx : Nat) (e : Bytes) : blockWithEntry blk idx e = patched blk (Dir.entryOff idx) (e.take entryLen) := rfl
theorem blockEntryDeleted_eq (blk : Bytes) (idx : Nat) : blockEntryDeleted blk idx = patched blk (Dir.entryOff idx) [0] := rfl
theorem keyBlockInc_eq (kblk : Bytes) : keyBlockInc kblk = patched kblk 37 (u16le (le16 (kblk.take dirLen) 37 + 1)) := rfl
theorem keyBlockDec_eq (kblk : Bytes) : keyBlockDec kblk = patched kblk 37 (u16le (le16 (kblk.take dirLen) 37 - 1)) := rfl

theorem patched_length (blk : Bytes) (off : Nat) (new : Bytes) : (patched blk off new).length = 512 := by
  unfold patched quantize blockSize
  simp only [List.length_append, List.length_take, List.length_replicate]
  omega

theorem splice_length (e new : Bytes) (off : Nat) (h : off + new.length ≤ e.length) : (splice e off new).length = e.length := by
  unfold splice
  simp only [List.length_append, List.length_take, List.length_drop]
  omega

/-- **every byte of a patched block** -/
theorem getD_patched (blk new : Bytes) (off j : Nat) (hlen : blk.length = 512) (hfit : off + new.length ≤ 511) :
    (patched blk off new).getD j 0 =
      if off ≤ j ∧ j < off + new.length then new.getD (j - off) 0 else if j < 511 then blk.getD j 0 else 0 := by
  have hl1 : (blk.take dirLen).length = 511 := by simp [hlen, dirLen]
  have hsl : (splice (blk.take dirLen) off new).length = 511 := by rw [splice_length _ _ _ (by omega), hl1]
  by_cases hj : j < 511
  · unfold patched
    rw [getD_quantize_take _ j (by omega) (by unfold blockSize; omega)]
    by_cases hin : off ≤ j ∧ j < off + new.length
    · rw [if_pos hin, getD_splice_inside _ _ _ j hin.1 hin.2 (by omega)]
    · rw [if_neg hin, if_pos hj, getD_splice_outside _ _ _ j (by omega) (by omega)]
      simp only [List.getD_eq_getElem?_getD]
      rw [List.getElem?_take_of_lt (by unfold dirLen; omega)]
  · rw [if_neg (by omega), if_neg hj]
    unfold patched quantize
    simp only [List.getD_eq_getElem?_getD]
    rw [List.take_of_length_le (by rw [List.length_take, hsl]; unfold blockSize; omega),
      List.take_of_length_le (by rw [hsl]; unfold blockSize; omega)]
    rw [List.getElem?_append_right (by omega), hsl]
    by_cases hj2 : j = 511
    · subst hj2; simp [blockSize]
    · rw [List.getElem?_eq_none (by simp [blockSize]; omega)]; rfl

theorem list_eq_of_getD (a b : Bytes) (hl : a.length = b.length) (h : ∀ j, j < a.length → a.getD j 0 = b.getD j 0) : a = b := by
  apply List.ext_getElem hl
  intro j h1 h2
  have := h j h1
  simp only [List.getD_eq_getElem?_getD] at this
  rw [List.getElem?_eq_getElem h1, List.getElem?_eq_getElem h2] at this
  simpa using this

theorem entryAt_getD (blk : Bytes) (k j : Nat) (hj : j < 39) : (entryAt blk k 39).getD j 0 = blk.getD (4 + k * 39 + j) 0 := by
  unfold entryAt; exact getD_slice blk _ _ j hj

theorem entryAt_length (blk : Bytes) (k : Nat) (h : 4 + k * 39 + 39 ≤ blk.length) : (entryAt blk k 39).length = 39 := by
  unfold entryAt slice; simp; omega

/-- an entry that does not overlap the patch is unchanged -/
theorem entryAt_patched_other (blk new : Bytes) (off k : Nat) (hlen : blk.length = 512) (hfit : off + new.length ≤ 511) (hk : k < 13)
    (hdis : 4 + k * 39 + 39 ≤ off ∨ off + new.length ≤ 4 + k * 39) :
    entryAt (patched blk off new) k 39 = entryAt blk k 39 := by
  unfold entryAt
  apply slice_congr _ _ _ _ (by rw [patched_length, hlen])
  intro j hj1 hj2
  rw [getD_patched blk new off j hlen hfit, if_neg (by omega), if_pos (by omega)]

/-- the entry the patch covers exactly is the patch -/
theorem entryAt_patched_self (blk new : Bytes) (k : Nat) (hlen : blk.length = 512) (hnew : new.length = 39) (hk : k < 13) :
    entryAt (patched blk (4 + k * 39) new) k 39 = new := by
  apply list_eq_of_getD _ _ (by rw [entryAt_length _ _ (by rw [patched_length]; omega), hnew])
  intro j hj
  rw [entryAt_length _ _ (by rw [patched_length]; omega)] at hj
  rw [entryAt_getD _ _ _ hj, getD_patched blk new _ _ hlen (by omega), if_pos (by omega)]
  congr 1; omega

/-- a patch of the first byte of an entry: the other 38 bytes stay -/
theorem entryAt_patched_first (blk : Bytes) (k v j : Nat) (hlen : blk.length = 512) (hk : k < 13) (hj : j < 39) :
    (entryAt (patched blk (4 + k * 39) [v]) k 39).getD j 0 = if j = 0 then v else (entryAt blk k 39).getD j 0 := by
  rw [entryAt_getD _ _ _ hj, getD_patched blk [v] _ _ hlen (by simp; omega)]
  by_cases h0 : j = 0
  · subst h0; simp
  · rw [if_neg (by simp; omega), if_pos (by omega), if_neg h0, entryAt_getD _ _ _ hj]

theorem entryOff_eq' (idx : Nat) (h : 1 ≤ idx) : Dir.entryOff idx = 4 + (idx - 1) * 39 := by
  unfold Dir.entryOff entryLen; rw [Nat.mul_comm]

/-- bytes outside the patch and below 511 -/
theorem getD_patched_out (blk new : Bytes) (off j : Nat) (hlen : blk.length = 512) (hfit : off + new.length ≤ 511)
    (hout : j < off ∨ off + new.length ≤ j) (hj : j < 511) : (patched blk off new).getD j 0 = blk.getD j 0 := by
  rw [getD_patched blk new off j hlen hfit, if_neg (by omega), if_pos hj]

theorem le16_patched_out (blk new : Bytes) (off p : Nat) (hlen : blk.length = 512) (hfit : off + new.length ≤ 511)
    (hout : p + 1 < off ∨ off + new.length ≤ p) (hp : p + 1 < 511) : le16 (patched blk off new) p = le16 blk p := by
  unfold le16
  rw [getD_patched_out blk new off p hlen hfit (by omega) (by omega),
    getD_patched_out blk new off (p + 1) hlen hfit (by omega) hp]

theorem le16_u16le (v : Nat) (h : v < 65536) : le16 (u16le v) 0 = v := by
  unfold le16 u16le
  simp
  omega

/-- the field a two-byte patch writes -/
theorem le16_patched_self (blk : Bytes) (off v : Nat) (hlen : blk.length = 512) (hfit : off + 2 ≤ 511) (hv : v < 65536) :
    le16 (patched blk off (u16le v)) off = v := by
  have hl : (u16le v).length = 2 := rfl
  unfold le16
  rw [getD_patched blk _ off off hlen (by rw [hl]; omega), if_pos (by rw [hl]; omega),
    getD_patched blk _ off (off + 1) hlen (by rw [hl]; omega), if_pos (by rw [hl]; omega)]
  have e1 : off - off = 0 := by omega
  have e2 : off + 1 - off = 1 := by omega
  rw [e1, e2]
  exact le16_u16le v hv

/-- all bytes of a patched block are bytes when the block's and the patch's are -/
theorem patched_bytes (blk new : Bytes) (off : Nat) (hlen : blk.length = 512) (hfit : off + new.length ≤ 511)
    (hb : ∀ x ∈ blk, x < 256) (hn : ∀ x ∈ new, x < 256) : ∀ x ∈ patched blk off new, x < 256 := by
  intro x hx
  obtain ⟨j, hj, rfl⟩ := List.getElem_of_mem hx
  have hg : (patched blk off new).getD j 0 = (patched blk off new)[j] := by
    simp only [List.getD_eq_getElem?_getD]; rw [List.getElem?_eq_getElem hj]; rfl
  rw [← hg, getD_patched blk new off j hlen hfit]
  split
  · next h =>
    have hjn : j - off < new.length := by omega
    simp only [List.getD_eq_getElem?_getD]
    rw [List.getElem?_eq_getElem hjn]
    exact hn _ (List.getElem_mem hjn)
  · split
    · next h =>
      have hjb : j < blk.length := by omega
      simp only [List.getD_eq_getElem?_getD]
      rw [List.getElem?_eq_getElem hjb]
      exact hb _ (List.getElem_mem hjb)
    · omega

end A2Verif.FsProdos
