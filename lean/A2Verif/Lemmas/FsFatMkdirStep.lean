import A2Verif.Lemmas.FsFatMkdir
import A2Verif.Lemmas.FsFatSubDelStep
/-!
# Refinement of `create` (mkdir) of a root-level directory

`mkdir_step_core`: `create(p)` as observed (run, then flush) is refused without a change, or re-establishes `Inv` and inserts
exactly one record into the reading — a directory under `absPath p` owning one previously free cluster, with nothing
below it — and the new directory is a well-formed first-level directory (`SubDirOk`).
-/
namespace A2Verif.FsFat
open A2Verif A2Verif.Fs.Fat A2Verif.Read.Fat A2Verif.Read.FatT
open A2Verif.FsDos (inserted wfB_insert)

/-- the abstract side of an accepted mkdir -/
theorem stepOk_mkdir_inserted {P : FsParams} {v : Vol} {F1 F2 : List FileRec} {g : FileRec} {free' : List Nat}
    (hv : v.files = F1 ++ F2) (hw : v.wfB = true) (hgn : g.owned.Nodup) (hgf : ∀ x ∈ g.owned, x ∈ v.freeUnits)
    (hnd : free'.Nodup) (hfree : ∀ x, x ∈ free' ↔ x ∈ v.freeUnits ∧ x ∉ g.owned) (hp : g.path ∉ v.paths)
    (hc : (g.chunks.map (·.1)).Pairwise (· < ·)) (hd : g.isDir = true) :
    stepOk P v (.mkdir g.path) true (inserted v F1 F2 g free') = true := by
  have hw' := wfB_insert hv hw hgn hgf hnd hfree hp hc
  have h1 : v.lookup g.path = none := not_mem_paths_iff.1 hp
  have h2 : (inserted v F1 F2 g free').lookup g.path = some g :=
    FsDos.lookup_mid (v := inserted v F1 F2 g free') rfl (wfB_paths_nodup hw')
  have nd := wfB_paths_nodup hw
  have hwo : without (inserted v F1 F2 g free').files [g.path] = v.files := by
    show without (F1 ++ g :: F2) [g.path] = v.files
    rw [hv]
    unfold without
    rw [List.filter_append, List.filter_cons]
    unfold Vol.paths at hp
    rw [hv, List.map_append, List.mem_append, not_or] at hp
    have e1 : F1.filter (fun f => !([g.path] : List Bytes).contains f.path) = F1 := by
      rw [List.filter_eq_self]
      intro f hf
      have : f.path ≠ g.path := fun e => hp.1 (e ▸ List.mem_map_of_mem hf)
      simpa using this
    have e2 : F2.filter (fun f => !([g.path] : List Bytes).contains f.path) = F2 := by
      rw [List.filter_eq_self]
      intro f hf
      have : f.path ≠ g.path := fun e => hp.2 (e ▸ List.mem_map_of_mem hf)
      simpa using this
    rw [e1, e2]
    simp
  have h3 : sameFiles v.files (without (inserted v F1 F2 g free').files [g.path]) = true := by
    rw [hwo]; exact FsDos.sameFiles_refl nd
  have hown : g.owned.all (fun u => v.freeUnits.contains u) = true := by
    rw [List.all_eq_true]; intro u hu; simpa using hgf u hu
  simp [stepOk, stepConds, hw', h1, h2, h3, hd, hown]
  exact hgf

theorem rename_spec {e q : Bytes} (he : e.length = 32) (hq : (stringToFileName q).length = 11) :
    (Entry.rename e q).length = 32 ∧ (Entry.rename e q).take 11 = stringToFileName q ∧
      ∀ i, 11 ≤ i → (Entry.rename e q).getD i 0 = e.getD i 0 := by
  refine ⟨?_, ?_, ?_⟩
  · unfold Entry.rename
    rw [splice_length (by omega)]
    exact he
  · unfold Entry.rename splice
    simp only [List.take_zero, List.nil_append]
    rw [List.take_append_of_le_length (by omega), List.take_of_length_le (by omega)]
  · intro i hi
    unfold Entry.rename
    exact splice_out (by omega) (Or.inr (by omega))

theorem entryType_dir {e : Bytes} (h0 : e.getD 0 0 ≠ 0) (h5 : e.getD 0 0 ≠ 0xE5) (ha : e.getD 11 0 = 16) : entryType e = .directory := by
  unfold entryType
  simp only
  rw [if_neg h5, if_neg h0, ha]
  decide

/-- **`create` (mkdir) of a root-level directory as observed (run, then flush)** -/
theorem mkdir_step_core {d : Disk} (inv : Inv d) {p : Bytes} {now : Stamp} (a : RootArg p) (hs : StampOk now) (hname : absPath p ≠ [])
    {res : R Unit} {d' : Disk} (h : runFlush (mkdir p now) d = (res, d')) :
    (∃ er, res = .error er ∧ d' = d) ∨
    (res = .ok () ∧ Inv d' ∧ ∃ f' E1 e' E2 nc F1 F2 free', SubDirOk d' p f' E1 e' E2 [nc] ∧ (volOf d).files = F1 ++ F2 ∧
      nc ∈ (volOf d).freeUnits ∧ free'.Nodup ∧ (∀ x, x ∈ free' ↔ x ∈ (volOf d).freeUnits ∧ x ∉ [nc]) ∧
      absPath p ∉ (volOf d).paths ∧ entPath [] e' = absPath p ∧
      volOf d' = inserted (volOf d) F1 F2 (dirRecOf e' [nc]) free') := by
  obtain ⟨f, c⟩ := inv.coh
  have g := inv.geo
  obtain ⟨hread, hwf, hnl⟩ := inv_reads_well_formed inv
  unfold runFlush at h
  rcases mkdir_run g c a hs with ⟨er, hrun⟩ |
    ⟨B, X, E1, e0, E2, files, nc, r1, f1, np, hE, hE1, he0, hb, hl, hcr, hcf, gd1, w1, hfs1, hlast, hoth, hfr1, hdat1, hrun⟩
  · rw [hrun] at h
    simp only [flush_noop g c] at h
    injection h with h1 h2
    exact Or.inl ⟨er, h1.symm, h2.symm⟩
  right
  rw [readT_eq g c, readFrom_iff] at hread
  obtain ⟨R, hR, hv⟩ := hread
  obtain ⟨hA, hlen, _⟩ := rootEntries_spec g
  have ⟨hc2, hcu⟩ := clusInRng_bounds hcr
  have hnc : nc < 65536 := by
    have := (wok_of g c).small
    omega
  -- the new entry
  have hn1 : (stringToFileName [46]).length = 11 := by decide
  obtain ⟨dd1, _, dd3, dd4⟩ := dot_spec hn1 hnc hs
  have hq11 : (stringToFileName (upper p)).length = 11 := by
    rw [stringToFileName_parts np]
    simp [padTo_length]
  obtain ⟨q1, q2, q3⟩ := rename_spec (e := dotEntry nc now) (q := upper p) dd1 hq11
  generalize he' : Entry.rename (dotEntry nc now) (upper p) = e' at q1 q2 q3 hrun
  have hattr : e'.getD 11 0 = 16 := by rw [q3 11 (by omega)]; exact dd3
  have hle16 : le16 e' 26 = nc := by
    unfold le16 at dd4 ⊢
    rw [q3 26 (by omega), q3 (26 + 1) (by omega)]
    exact dd4
  obtain ⟨n1, n2, n3, n4, n5, n6, n7, n8⟩ := fresh_name np q2
  rw [upper_idem] at n3
  have hk : keyOf p = trimEnd B ++ [46] ++ trimEnd X := n3
  have hentName : entName e' = absPath p := by rw [n2, absPath_of_parts hk n5]
  have hisdir : (e'.getD 11 0 / 16) % 2 = 1 := by rw [hattr]
  have hshown' : shown e' := ⟨⟨n6, q1⟩, n7, by rw [hattr]; omega, by rw [hattr], n8⟩
  have hgood' : NameGood e' :=
    ⟨trimEnd B, trimEnd X, n1, n2, n4, n5, (fun _ => by rw [hentName]; exact hname), (fresh_noSlash np).1, (fresh_noSlash np).2⟩
  have hpath' : entPath [] e' = absPath p := by
    unfold entPath
    simp only [List.isEmpty_nil, if_true]
    exact hentName
  -- the states
  have hlow1 : ∀ u, u < d.bpb.firstDataSec → r1.units[u]? = d.raw.units[u]? := by
    intro u hu
    apply hfr1
    rw [List.mem_range'_1]
    unfold Bpb.firstClusterSec
    omega
  have hroot1 : rootBuf ({ d with raw := r1, fat := some f1 } : Disk) = rootBuf d :=
    rootBuf_congr_lt rfl (fun u _ hu => hlow1 u hu)
  have hidx : E1.length < (dirOfBytes (rootBuf d)).length := by rw [hE]; simp
  have hidx1 : E1.length < (dirOfBytes (rootBuf ({ d with raw := r1, fat := some f1 } : Disk))).length := by rw [hroot1]; exact hidx
  have g2 := rootWrite_geo gd1 hidx1 q1
  have hsz1 : f1.size = (rootWrite ({ d with raw := r1, fat := some f1 } : Disk) E1.length e').bpb.fatSecs * 512 := by
    rw [hfs1, c.size]; rfl
  obtain ⟨r3, m1, g3, c3, m4⟩ := flush_spec g2 (f := f1) rfl hsz1 w1.bytes
  rw [hrun] at h
  simp only [] at h
  rw [m1] at h
  injection h with h1 h2
  generalize hd3 : ({ rootWrite ({ d with raw := r1, fat := some f1 } : Disk) E1.length e' with raw := r3 } : Disk) = d3 at g3 c3 h2
  subst h2
  have hbpb3 : d3.bpb = d.bpb := by rw [← hd3]; rfl
  have hraw3 : d3.raw = r3 := by rw [← hd3]
  have hlf3 : d3.labelFiles = false := by rw [← hd3]; exact inv.lf
  have hroot3 : rootBuf d3 = rootBuf (rootWrite ({ d with raw := r1, fat := some f1 } : Disk) E1.length e') :=
    rootBuf_congr (by rw [hbpb3]; rfl) (fun u hu => by rw [hraw3]; exact m4 u (Or.inr hu))
  have hE3 : dirOfBytes (rootBuf d3) = E1 ++ e' :: E2 := by
    rw [hroot3, rootWrite_entries gd1 hidx1 q1, hroot1, hE, set_mid]
  have hrf : d.bpb.rootBeg ≤ d.bpb.firstDataSec := by unfold Bpb.rootBeg Bpb.firstDataSec; omega
  have hdata3 : ∀ u, d.bpb.firstDataSec ≤ u → d3.raw.units[u]? = r1.units[u]? := by
    intro u hu
    rw [hraw3, m4 u (Or.inr (by show d.bpb.rootBeg ≤ u; omega))]
    apply rootWrite_units
    show u ≠ d.bpb.rootBeg + E1.length / 16
    unfold Bpb.firstDataSec at hu
    unfold Bpb.rootBeg
    omega
  have hdata3' : ∀ u, d.bpb.firstDataSec ≤ u → u ∉ List.range' (d.bpb.firstClusterSec nc) d.bpb.spc →
      d3.raw.units[u]? = d.raw.units[u]? := fun u hu hn' => by rw [hdata3 u hu]; exact hfr1 u hn'
  -- the reading before, split at the slot
  have hE1live : ∀ x ∈ E1, live x := fun x hx => live_of_type (hA x (by rw [hE]; simp [hx])) (hE1 x hx).2
  have hE1end : ∀ x ∈ E1, entryType x ≠ .freeAndNoMore := fun x hx => (hE1 x hx).2
  have he0l : e0.length = 32 := hA e0 (by rw [hE]; simp)
  have htail := inv.tail
  rw [hE] at htail
  have hskip := act_skip_slot he0l htail he0
  rw [dirEnts_skip' hE hE1live hskip] at hR
  obtain ⟨R1, R2, r1', r2', rR⟩ := mapM_append_inv _ _ _ _ hR
  subst rR
  have hfilesv : (volOf d).files = R1.flatten ++ R2.flatten := by rw [hv]; simp [mkVol]
  have hwf' : (mkVol d.bpb f (R1.flatten ++ R2.flatten)).wfB = true := by
    rw [hv] at hwf
    simpa using hwf
  have hkeep : ∀ (D : List Bytes) (RR : List (List FileRec)), D.mapM (rd d f) = .ok RR →
      (∀ y ∈ RR, ∀ x ∈ y.flatMap (·.owned), x ∈ (R1.flatten ++ R2.flatten).flatMap (·.owned)) → D.mapM (rd d3 f1) = .ok RR := by
    intro D RR hD hsub
    apply mapM_congr_ok _ _ _ _ hD
    intro e y _ hy hye
    unfold rd at hye ⊢
    rw [hbpb3]
    apply rdEnt_congr_owned hye
    intro z hz
    obtain ⟨hz2, _, hznf⟩ := owned_nonfree hwf' (hsub y hy z hz)
    have hzne : z ≠ nc := by
      intro e
      rw [e, hcf] at hznf
      cases hznf
    exact ⟨hoth z hzne, clusterData_same g hz2 hc2 hzne hdata3'⟩
  have hR1' := hkeep _ _ r1' (by
    intro y hy x hx
    simp only [List.mem_flatMap] at hx ⊢
    obtain ⟨rec, hrec, hxr⟩ := hx
    exact ⟨rec, List.mem_append_left _ (List.mem_flatten.mpr ⟨y, hy, hrec⟩), hxr⟩)
  have hR2' := hkeep _ _ r2' (by
    intro y hy x hx
    simp only [List.mem_flatMap] at hx ⊢
    obtain ⟨rec, hrec, hxr⟩ := hx
    exact ⟨rec, List.mem_append_right _ (List.mem_flatten.mpr ⟨y, hy, hrec⟩), hxr⟩)
  -- the new directory
  have hchain3 : IsChain f1 (hiOf d3.bpb) (le16 e' 26) [nc] := by
    rw [hle16, hbpb3]
    apply IsChain.last hc2 (by unfold hiOf; unfold firstDataCluster at hcu; omega)
    rw [hlast]; omega
  obtain ⟨_, hAll, hLen⟩ := createSubdir_spec g (upper p) hnc hs
  have hQ : ((newDirEntries d.bpb nc now).flatten).length = d.bpb.spc * 512 := by
    rw [flatten_length_of hAll, hLen]; unfold epcOf; omega
  have hcd3 : chainData d3 [nc] = (newDirEntries d.bpb nc now).flatten := by
    unfold chainData blockData
    simp only [List.map_cons, List.map_nil, List.flatten_cons, List.flatten_nil, List.append_nil]
    rw [hbpb3]
    have : (List.range d.bpb.spc).map (fun i => d3.raw.units.getD (d.bpb.firstClusterSec nc + i) []) =
        (List.range d.bpb.spc).map (fun j => (((newDirEntries d.bpb nc now).flatten).drop (j * 512)).take 512) := by
      apply List.map_congr_left
      intro i hi
      have hi' := List.mem_range.mp hi
      rw [Array.getD_eq_getD_getElem?, hdata3 _ (by unfold Bpb.firstClusterSec; omega), hdat1 i hi']
      rfl
    rw [this]
    exact flatten_chunks _ _ hQ
  have hsubE : dirOfBytes (chainData d3 [nc]) = newDirEntries d.bpb nc now := by
    rw [hcd3, dirOfBytes_flatten hAll]
  obtain ⟨hnoents, hdirok⟩ := newDir_ents (b := d.bpb) hnc hs
  have hsub3 : readDirT d3.raw (rbpb d3.bpb) f1 false (hiOf d3.bpb) 32 (chainData d3 [nc]) (entPath [] e') = .ok [] := by
    rw [sub_iff]
    refine ⟨[], ?_, rfl⟩
    rw [dirEnts_eq, hsubE, hnoents]
    rfl
  have hrd3 : rd d3 f1 e' = .ok [dirRecOf e' [nc]] := by
    rw [rd_dir g3 hisdir hchain3 (by simp), hsub3]
  have hread3 : readT d3.raw = .ok (mkVol d.bpb f1 (R1.flatten ++ dirRecOf e' [nc] :: R2.flatten)) := by
    rw [readT_eq g3 c3, root_join hE3 hE1live hshown' hR1' hrd3 hR2', hbpb3]
    simp
  -- the abstract facts
  have hfreeU : (volOf d).freeUnits = freeUnitsOf d.bpb f := by rw [hv]; rfl
  have hgf : nc ∈ (volOf d).freeUnits := by
    rw [hfreeU, mem_freeUnitsOf]
    unfold firstDataCluster at hcu
    exact ⟨⟨hc2, hcu⟩, (isFree12_iff f nc).mp hcf⟩
  have hfree' : ∀ x, x ∈ freeUnitsOf d.bpb f1 ↔ x ∈ (volOf d).freeUnits ∧ x ∉ [nc] := by
    intro x
    rw [hfreeU, mem_freeUnitsOf, mem_freeUnitsOf]
    constructor
    · rintro ⟨hr, h0⟩
      have hx : x ≠ nc := by
        intro e
        rw [e, hlast] at h0
        cases h0
      exact ⟨⟨hr, by rw [← hoth x hx]; exact h0⟩, by simpa using hx⟩
    · rintro ⟨⟨hr, h0⟩, hx⟩
      have hx' : x ≠ nc := by simpa using hx
      exact ⟨hr, by rw [hoth x hx']; exact h0⟩
  have hb' : buildFiles false (dirOfBytes (rootBuf d)) = .ok files := by rw [← inv.lf]; exact hb
  have hpn : absPath p ∉ (volOf d).paths := not_mem_paths_iff.2 (not_listed inv a hk n4 n5 hb' hl)
  have hvol3 : volOf d3 = inserted (volOf d) R1.flatten R2.flatten (dirRecOf e' [nc]) (freeUnitsOf d.bpb f1) := by
    rw [volOf_of_read hread3, hv]
    rfl
  have hp' : (dirRecOf e' [nc]).path ∉ (volOf d).paths := by
    show entPath [] e' ∉ _
    rw [hpath']; exact hpn
  have hwf3 := wfB_insert (g := dirRecOf e' [nc]) hfilesv hwf (by simp [dirRecOf]) (by intro x hx; simp [dirRecOf] at hx; rw [hx]; exact hgf)
    (freeUnitsOf_nodup d.bpb f1) hfree' hp' (by simp [dirRecOf])
  have hnl3 := noLeak_inserted (g := dirRecOf e' [nc]) hfilesv hnl hfree'
  rw [← hvol3] at hwf3 hnl3
  have hread3' : readT d3.raw = .ok (volOf d3) := by rw [volOf_of_read hread3]; exact hread3
  refine ⟨h1.symm, ?_, f1, E1, e', E2, nc, R1.flatten, R2.flatten, freeUnitsOf d.bpb f1, ?_, hfilesv, hgf, freeUnitsOf_nodup d.bpb f1,
    hfree', hpn, hpath', hvol3⟩
  · refine { lf := hlf3, geo := g3, coh := ⟨f1, c3⟩, root := ?_, tail := ?_, read := ⟨_, hread3', hwf3, hnl3⟩ }
    · intro x hx hx0 hx5 hxl
      rw [hE3] at hx
      have hxo : x ∈ dirOfBytes (rootBuf d) ∨ x = e' := by
        rw [hE]
        simp only [List.mem_append, List.mem_cons] at hx ⊢
        rcases hx with h | h | h
        · exact Or.inl (Or.inl h)
        · exact Or.inr h
        · exact Or.inl (Or.inr (Or.inr h))
      cases hxo with
      | inl hx' => exact inv.root x hx' hx0 hx5 hxl
      | inr hx' =>
        subst hx'
        exact ⟨by rw [hattr]; omega, n8, hgood'⟩
    · rw [hE3]
      exact tailZero_replace htail hE1end n6
  · have htyp : entryType e' = .directory := entryType_dir n6 n7 hattr
    refine { wok := wok_of g3 c3, hE := hE3, hE1 := hE1end, inmap := ⟨by rw [htyp]; simp, by rw [htyp]; simp, fun hc => by rw [htyp] at hc; cases hc.1⟩,
             key := ⟨trimEnd B, trimEnd X, n1, hk⟩, isdir := hisdir, chain := hchain3, nodup := by simp, ents := ?_ }
    rw [hsubE]
    exact hdirok

end A2Verif.FsFat
