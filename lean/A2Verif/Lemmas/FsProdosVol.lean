import A2Verif.Lemmas.FsPascalAbs
/-!
# Abstract volumes whose record list changes in the middle

The reader lists the records of a ProDOS directory in slot order, so a stored file appears *between* other records and a
deleted one disappears from the middle.  Here: well-formedness (C03), leak freedom (C04) and the step conditions of the
abstract specification when one record is erased, replaced or inserted at a position of the list.  Independent of the
file system.
-/
namespace A2Verif

theorem noLeak_iff {v : Vol} : v.noLeak = true ↔
    ∀ u, v.lo ≤ u → u < v.hi → u ∈ v.allOwned ∨ u ∈ v.sys ∨ u ∈ v.freeUnits := by
  unfold Vol.noLeak Vol.range
  simp only [List.all_eq_true, List.mem_map, List.mem_range, Bool.or_eq_true, List.contains_eq_mem, decide_eq_true_eq]
  constructor
  · intro h u h1 h2
    have := h u ⟨u - v.lo, by omega, by omega⟩
    rcases this with (a | b) | c
    · exact Or.inl a
    · exact Or.inr (Or.inl b)
    · exact Or.inr (Or.inr c)
  · rintro h u ⟨k, hk, rfl⟩
    rcases h (k + v.lo) (by omega) (by omega) with a | b | c
    · exact Or.inl (Or.inl a)
    · exact Or.inl (Or.inr b)
    · exact Or.inr c

theorem allOwned_split (FA FB : List FileRec) (f : FileRec) :
    (FA ++ f :: FB).flatMap (·.owned) = FA.flatMap (·.owned) ++ f.owned ++ FB.flatMap (·.owned) := by
  rw [List.flatMap_append, List.flatMap_cons, List.append_assoc]

theorem eraseIdx_mid {α : Type} (A B : List α) (x : α) : (A ++ x :: B).eraseIdx A.length = A ++ B := by
  rw [List.eraseIdx_append_of_length_le (Nat.le_refl _), Nat.sub_self, List.eraseIdx_cons_zero]

theorem getElem_mid {α : Type} (A B : List α) (x : α) (h : A.length < (A ++ x :: B).length) : (A ++ x :: B)[A.length] = x := by
  rw [List.getElem_append_right (Nat.le_refl _)]
  simp

theorem set_mid {α : Type} (A B : List α) (x y : α) : (A ++ x :: B).set A.length y = A ++ y :: B := by
  rw [List.set_append_right _ _ (Nat.le_refl _), Nat.sub_self, List.set_cons_zero]

/-- **a record is erased**: its blocks become free, everything else stays -/
theorem vol_erase {P : FsParams} {v v' : Vol} {FA FB : List FileRec} {f : FileRec}
    (hw : v.wfB = true) (hn : v.noLeak = true)
    (hfiles : v.files = FA ++ f :: FB) (hfiles' : v'.files = FA ++ FB)
    (hlo : v'.lo = v.lo) (hhi : v'.hi = v.hi) (hsys : v'.sys = v.sys)
    (hfnd : v'.freeUnits.Nodup) (hfree : ∀ u, u ∈ v'.freeUnits ↔ (u ∈ v.freeUnits ∨ u ∈ f.owned))
    (hlocked : f.locked = false) :
    v'.wfB = true ∧ v'.noLeak = true ∧ stepOk P v (.delete f.path) true v' = true := by
  obtain ⟨w1, w2, w3, w4, w5, w6, w7⟩ := wfB_iff.1 hw
  have hao : v.allOwned = FA.flatMap (·.owned) ++ f.owned ++ FB.flatMap (·.owned) := by
    unfold Vol.allOwned; rw [hfiles, allOwned_split]
  have hao' : v'.allOwned = FA.flatMap (·.owned) ++ FB.flatMap (·.owned) := by
    unfold Vol.allOwned; rw [hfiles', List.flatMap_append]
  have hsub : ∀ u, u ∈ v'.allOwned → u ∈ v.allOwned := by
    intro u hu; rw [hao'] at hu; rw [hao]
    simp only [List.mem_append] at hu ⊢
    rcases hu with a | b
    · exact Or.inl (Or.inl a)
    · exact Or.inr b
  have hdisj : ∀ u, u ∈ f.owned → u ∉ v'.allOwned ∧ u ∉ v.sys := by
    intro u hu
    rw [hao, List.nodup_append] at w2
    obtain ⟨w2a, _, w2c⟩ := w2
    rw [List.nodup_append] at w2a
    obtain ⟨w2aa, w2ab, w2ac⟩ := w2a
    rw [List.nodup_append] at w2aa
    refine ⟨?_, ?_⟩
    · rw [hao']; intro hm
      rcases List.mem_append.mp hm with a | b
      · exact w2aa.2.2 u a u hu rfl
      · exact w2ac u (List.mem_append_right _ hu) u b rfl
    · intro hs
      exact w2c u (List.mem_append_left _ (List.mem_append_right _ hu)) u hs rfl
  have hwf' : v'.wfB = true := by
    rw [wfB_iff]
    refine ⟨?_, ?_, ?_, ?_, ⟨hfnd, ?_⟩, ?_, ?_⟩
    · intro u hu; rw [hlo, hhi]; exact w1 u (hsub u hu)
    · rw [hsys]
      refine List.Nodup.sublist ?_ w2
      rw [hao, hao']
      apply List.Sublist.append_right
      rw [List.append_assoc]
      exact List.Sublist.append_left (List.sublist_append_right _ _) _
    · intro u hu hf
      rcases (hfree u).mp hf with a | b
      · exact w3 u (hsub u hu) a
      · exact (hdisj u b).1 hu
    · intro u hu hf
      rw [hsys] at hu
      rcases (hfree u).mp hf with a | b
      · exact w4 u hu a
      · exact (hdisj u b).2 hu
    · intro u hu
      rw [hlo, hhi]
      rcases (hfree u).mp hu with a | b
      · exact w5.2 u a
      · exact w1 u (by rw [hao]; simp [b])
    · rw [hfiles'] ; rw [hfiles] at w6
      refine List.Nodup.sublist ?_ w6
      rw [List.map_append, List.map_append]
      exact List.Sublist.append_left (List.sublist_cons_self _ _) _
    · intro g hg
      rw [hfiles'] at hg
      apply w7 g
      rw [hfiles]
      rcases List.mem_append.mp hg with a | b
      · exact List.mem_append_left _ a
      · exact List.mem_append_right _ (List.mem_cons_of_mem _ b)
  refine ⟨hwf', ?_, ?_⟩
  · rw [noLeak_iff]
    intro u h1 h2
    rw [hlo] at h1; rw [hhi] at h2
    rcases (noLeak_iff.mp hn) u h1 h2 with a | b | c
    · rw [hao] at a
      simp only [List.mem_append] at a
      rcases a with (a | a) | a
      · exact Or.inl (by rw [hao']; exact List.mem_append_left _ a)
      · exact Or.inr (Or.inr ((hfree u).mpr (Or.inr a)))
      · exact Or.inl (by rw [hao']; exact List.mem_append_right _ a)
    · exact Or.inr (Or.inl (by rw [hsys]; exact b))
    · exact Or.inr (Or.inr ((hfree u).mpr (Or.inl c)))
  · have hi : FA.length < v.files.length := by rw [hfiles]; simp
    have hget : v.files[FA.length] = f := by
      have := getElem_mid FA FB f (by simp)
      simp only [hfiles]; exact this
    apply stepOk_delete_of hw hwf' hi (by rw [hget]) (by rw [hget]; exact hlocked)
    rw [hfiles', hfiles, eraseIdx_mid]

/-- **a record is replaced** by one with the same blocks and chunks (rename, lock, unlock, retype): well-formedness and
leak freedom carry over when the new path is the old one or fresh -/
theorem vol_replace_wf {v v' : Vol} {FA FB : List FileRec} {f g : FileRec}
    (hw : v.wfB = true) (hn : v.noLeak = true)
    (hfiles : v.files = FA ++ f :: FB) (hfiles' : v'.files = FA ++ g :: FB)
    (hlo : v'.lo = v.lo) (hhi : v'.hi = v.hi) (hsys : v'.sys = v.sys) (hfree : v'.freeUnits = v.freeUnits)
    (ho : g.owned = f.owned) (hc : g.chunks = f.chunks)
    (hpath : g.path = f.path ∨ g.path ∉ v.paths) :
    v'.wfB = true ∧ v'.noLeak = true := by
  obtain ⟨w1, w2, w3, w4, w5, w6, w7⟩ := wfB_iff.1 hw
  have hao : v'.allOwned = v.allOwned := by
    unfold Vol.allOwned; rw [hfiles, hfiles', allOwned_split, allOwned_split, ho]
  refine ⟨?_, ?_⟩
  · rw [wfB_iff, hao, hlo, hhi, hsys, hfree]
    refine ⟨w1, w2, w3, w4, w5, ?_, ?_⟩
    · rw [hfiles'] ; rw [hfiles] at w6
      rw [List.map_append, List.map_cons] at w6 ⊢
      rw [List.nodup_append, List.nodup_cons] at w6 ⊢
      obtain ⟨a, ⟨b1, b2⟩, c⟩ := w6
      rcases hpath with hp | hp
      · rw [hp]; exact ⟨a, ⟨b1, b2⟩, c⟩
      · have hnot : ∀ q, q ∈ v.paths → g.path ≠ q := fun q hq e => hp (e ▸ hq)
        refine ⟨a, ⟨?_, b2⟩, ?_⟩
        · intro hm
          exact hp (by unfold Vol.paths; rw [hfiles, List.map_append, List.map_cons]; simp [hm])
        · intro x hx y hy
          rcases List.mem_cons.mp hy with rfl | hy'
          · intro e
            exact hp (by unfold Vol.paths; rw [hfiles, List.map_append, List.map_cons, ← e]; simp [hx])
          · exact c x hx y (List.mem_cons_of_mem _ hy')
    · intro x hx
      rw [hfiles'] at hx
      rcases List.mem_append.mp hx with a | b
      · exact w7 x (by rw [hfiles]; exact List.mem_append_left _ a)
      · rcases List.mem_cons.mp b with rfl | b'
        · rw [hc]; exact w7 f (by rw [hfiles]; simp)
        · exact w7 x (by rw [hfiles]; exact List.mem_append_right _ (List.mem_cons_of_mem _ b'))
  · rw [noLeak_iff, hao, hlo, hhi, hsys, hfree]
    exact noLeak_iff.mp hn

/-- **a record is inserted**: its blocks were free and are pairwise different, its path is fresh -/
theorem vol_insert {v v' : Vol} {FA FB : List FileRec} {g : FileRec}
    (hw : v.wfB = true) (hn : v.noLeak = true)
    (hfiles : v.files = FA ++ FB) (hfiles' : v'.files = FA ++ g :: FB)
    (hlo : v'.lo = v.lo) (hhi : v'.hi = v.hi) (hsys : v'.sys = v.sys)
    (hfnd : v'.freeUnits.Nodup) (hfree : ∀ u, u ∈ v'.freeUnits ↔ (u ∈ v.freeUnits ∧ u ∉ g.owned))
    (hgo : ∀ u ∈ g.owned, u ∈ v.freeUnits) (hgnd : g.owned.Nodup)
    (hgp : g.path ∉ v.paths) (hgc : (g.chunks.map (·.1)).Pairwise (· < ·)) :
    v'.wfB = true ∧ v'.noLeak = true := by
  obtain ⟨w1, w2, w3, w4, w5, w6, w7⟩ := wfB_iff.1 hw
  have hao : v.allOwned = FA.flatMap (·.owned) ++ FB.flatMap (·.owned) := by
    unfold Vol.allOwned; rw [hfiles, List.flatMap_append]
  have hao' : v'.allOwned = FA.flatMap (·.owned) ++ g.owned ++ FB.flatMap (·.owned) := by
    unfold Vol.allOwned; rw [hfiles', allOwned_split]
  have hmem' : ∀ u, u ∈ v'.allOwned ↔ (u ∈ v.allOwned ∨ u ∈ g.owned) := by
    intro u; rw [hao, hao']; simp only [List.mem_append]
    constructor
    · rintro ((a | a) | a)
      · exact Or.inl (Or.inl a)
      · exact Or.inr a
      · exact Or.inl (Or.inr a)
    · rintro ((a | a) | a)
      · exact Or.inl (Or.inl a)
      · exact Or.inr a
      · exact Or.inl (Or.inr a)
  have hgfresh : ∀ u ∈ g.owned, u ∉ v.allOwned ∧ u ∉ v.sys :=
    fun u hu => ⟨fun h => w3 u h (hgo u hu), fun h => w4 u h (hgo u hu)⟩
  refine ⟨?_, ?_⟩
  · rw [wfB_iff]
    refine ⟨?_, ?_, ?_, ?_, ⟨hfnd, ?_⟩, ?_, ?_⟩
    · intro u hu; rw [hlo, hhi]
      rcases (hmem' u).mp hu with a | a
      · exact w1 u a
      · exact w5.2 u (hgo u a)
    · rw [hsys, hao']
      rw [hao] at w2
      rw [List.nodup_append] at w2 ⊢
      obtain ⟨w2a, w2b, w2c⟩ := w2
      rw [List.nodup_append] at w2a
      refine ⟨?_, w2b, ?_⟩
      · rw [List.nodup_append]
        refine ⟨?_, w2a.2.1, ?_⟩
        · rw [List.nodup_append]
          refine ⟨w2a.1, hgnd, ?_⟩
          intro a ha b hb e
          exact (hgfresh b hb).1 (by rw [hao, ← e]; exact List.mem_append_left _ ha)
        · intro a ha b hb e
          rcases List.mem_append.mp ha with a1 | a1
          · exact w2a.2.2 a a1 b hb e
          · exact (hgfresh a a1).1 (by rw [hao, e]; exact List.mem_append_right _ hb)
      · intro a ha b hb e
        rcases List.mem_append.mp ha with a1 | a1
        · rcases List.mem_append.mp a1 with a2 | a2
          · exact w2c a (List.mem_append_left _ a2) b hb e
          · exact (hgfresh a a2).2 (e ▸ hb)
        · exact w2c a (List.mem_append_right _ a1) b hb e
    · intro u hu hf
      obtain ⟨f1, f2⟩ := (hfree u).mp hf
      rcases (hmem' u).mp hu with a | a
      · exact w3 u a f1
      · exact f2 a
    · intro u hu hf
      rw [hsys] at hu
      exact w4 u hu ((hfree u).mp hf).1
    · intro u hu
      rw [hlo, hhi]
      exact w5.2 u ((hfree u).mp hu).1
    · rw [hfiles']; rw [hfiles] at w6
      rw [List.map_append] at w6
      rw [List.map_append, List.map_cons, List.nodup_append, List.nodup_cons]
      rw [List.nodup_append] at w6
      have hp1 : g.path ∉ FA.map (·.path) := fun h => hgp (by unfold Vol.paths; rw [hfiles, List.map_append]; exact List.mem_append_left _ h)
      have hp2 : g.path ∉ FB.map (·.path) := fun h => hgp (by unfold Vol.paths; rw [hfiles, List.map_append]; exact List.mem_append_right _ h)
      refine ⟨w6.1, ⟨hp2, w6.2.1⟩, ?_⟩
      intro a ha b hb e
      rcases List.mem_cons.mp hb with rfl | hb'
      · exact hp1 (e ▸ ha)
      · exact w6.2.2 a ha b hb' e
    · intro x hx
      rw [hfiles'] at hx
      rcases List.mem_append.mp hx with a | b
      · exact w7 x (by rw [hfiles]; exact List.mem_append_left _ a)
      · rcases List.mem_cons.mp b with rfl | b'
        · exact hgc
        · exact w7 x (by rw [hfiles]; exact List.mem_append_right _ b')
  · rw [noLeak_iff]
    intro u h1 h2
    rw [hlo] at h1; rw [hhi] at h2
    rcases (noLeak_iff.mp hn) u h1 h2 with a | b | c
    · exact Or.inl ((hmem' u).mpr (Or.inl a))
    · exact Or.inr (Or.inl (by rw [hsys]; exact b))
    · by_cases hg : u ∈ g.owned
      · exact Or.inl ((hmem' u).mpr (Or.inr hg))
      · exact Or.inr (Or.inr ((hfree u).mpr ⟨c, hg⟩))

/-- **put as an insertion**: a new file record appears (anywhere in the listing) under a fresh path, all other records are
identical -/
theorem stepOk_put_mid {P : FsParams} {pre post : Vol} {p : Bytes} {cs : List (Nat × Bytes)} {eof ty aux : Nat}
    {FA FB : List FileRec} {g : FileRec}
    (hwpre : pre.wfB = true) (hw : post.wfB = true) (hp : p ∉ pre.paths)
    (hpre : pre.files = FA ++ FB) (hpost : post.files = FA ++ g :: FB) (hfp : g.path = p)
    (hc : chunksMatch cs g.chunks = true) (hd : g.isDir = false) (he : g.eof = P.eofRule eof)
    (ht : P.keepsType = true → g.ftype = ty) (ha : P.keepsAux = true → g.aux = aux)
    (hfree : ∀ u ∈ g.owned, u ∈ pre.freeUnits) :
    stepOk P pre (.put p cs eof ty aux) true post = true := by
  have nd := wfB_paths_nodup hwpre
  have hnone : pre.lookup p = none := lookup_none_of_not_mem hp
  have hne : ∀ f ∈ FA ++ FB, (f.path == p) = false := by
    intro f hf
    have : f.path ≠ p := fun e => hp (by rw [← e]; unfold Vol.paths; rw [hpre]; exact List.mem_map_of_mem hf)
    simpa using this
  have hlook : post.lookup p = some g := by
    unfold Vol.lookup
    rw [hpost, List.find?_append]
    have : FA.find? (·.path == p) = none := by
      rw [List.find?_eq_none]; intro f hf; rw [hne f (List.mem_append_left _ hf)]; simp
    rw [this, Option.none_or, List.find?_cons]
    simp [hfp]
  have hwo : without post.files [p] = pre.files := by
    unfold without
    rw [hpost, hpre, List.filter_append, List.filter_cons]
    have hg : (!([p].contains g.path)) = false := by simp [hfp]
    rw [hg]
    have hfa : FA.filter (fun f => !([p].contains f.path)) = FA := by
      rw [List.filter_eq_self]; intro f hf
      have := hne f (List.mem_append_left _ hf)
      simp only [List.contains_cons, List.contains_nil, Bool.or_false, Bool.not_eq_true']
      exact this
    have hfb : FB.filter (fun f => !([p].contains f.path)) = FB := by
      rw [List.filter_eq_self]; intro f hf
      have := hne f (List.mem_append_right _ hf)
      simp only [List.contains_cons, List.contains_nil, Bool.or_false, Bool.not_eq_true']
      exact this
    rw [hfa, hfb]
    rfl
  simp only [stepOk, stepConds, List.all_cons, List.all_nil, Bool.and_true, Bool.and_eq_true]
  refine ⟨hw, by rw [hnone]; rfl, by rw [hlook]; rfl, by rw [hlook]; simp [hc, hd], by rw [hlook]; simp [he], ?_, ?_, ?_⟩
  · rw [hlook]
    simp only [Bool.and_eq_true, Bool.or_eq_true, Bool.not_eq_true', beq_iff_eq]
    constructor
    · cases hk : P.keepsType with
      | false => exact Or.inl rfl
      | true => exact Or.inr (ht hk)
    · cases hk : P.keepsAux with
      | false => exact Or.inl rfl
      | true => exact Or.inr (ha hk)
  · rw [hlook]
    simp only [List.all_eq_true, List.contains_eq_mem, decide_eq_true_eq]
    exact hfree
  · rw [hwo]
    exact sameFiles_self nd

/-- **mkdir as an insertion**: the record of a new directory appears (anywhere in the listing) under a fresh path, all other
records are identical -/
theorem stepOk_mkdir_mid {P : FsParams} {pre post : Vol} {p : Bytes} {FA FB : List FileRec} {g : FileRec}
    (hwpre : pre.wfB = true) (hw : post.wfB = true) (hp : p ∉ pre.paths)
    (hpre : pre.files = FA ++ FB) (hpost : post.files = FA ++ g :: FB) (hfp : g.path = p)
    (hd : g.isDir = true) (hfree : ∀ u ∈ g.owned, u ∈ pre.freeUnits) :
    stepOk P pre (.mkdir p) true post = true := by
  have nd := wfB_paths_nodup hwpre
  have hnone : pre.lookup p = none := lookup_none_of_not_mem hp
  have hne : ∀ f ∈ FA ++ FB, (f.path == p) = false := by
    intro f hf
    have : f.path ≠ p := fun e => hp (by rw [← e]; unfold Vol.paths; rw [hpre]; exact List.mem_map_of_mem hf)
    simpa using this
  have hlook : post.lookup p = some g := by
    unfold Vol.lookup
    rw [hpost, List.find?_append]
    have : FA.find? (·.path == p) = none := by
      rw [List.find?_eq_none]; intro f hf; rw [hne f (List.mem_append_left _ hf)]; simp
    rw [this, Option.none_or, List.find?_cons]
    simp [hfp]
  have hwo : without post.files [p] = pre.files := by
    unfold without
    rw [hpost, hpre, List.filter_append, List.filter_cons]
    have hg : (!([p].contains g.path)) = false := by simp [hfp]
    rw [hg]
    have hfa : FA.filter (fun f => !([p].contains f.path)) = FA := by
      rw [List.filter_eq_self]; intro f hf
      have := hne f (List.mem_append_left _ hf)
      simp only [List.contains_cons, List.contains_nil, Bool.or_false, Bool.not_eq_true']
      exact this
    have hfb : FB.filter (fun f => !([p].contains f.path)) = FB := by
      rw [List.filter_eq_self]; intro f hf
      have := hne f (List.mem_append_right _ hf)
      simp only [List.contains_cons, List.contains_nil, Bool.or_false, Bool.not_eq_true']
      exact this
    rw [hfa, hfb]
    rfl
  simp only [stepOk, stepConds, List.all_cons, List.all_nil, Bool.and_true, Bool.and_eq_true]
  refine ⟨hw, by rw [hnone]; rfl, ?_, ?_⟩
  · rw [hlook]
    simp only [Bool.and_eq_true, List.all_eq_true, List.contains_eq_mem, decide_eq_true_eq]
    exact ⟨hd, hfree⟩
  · rw [hwo]
    exact sameFiles_self nd

end A2Verif
