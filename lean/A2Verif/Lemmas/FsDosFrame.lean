import A2Verif.Lemmas.FsDosRead
/-!
# Frame lemmas for the DOS reader: what a reading depends on

Chains and walks depend on the image only through the sectors they visit; `All2` splitting; the file list of a
layout splits where the live-entry list splits; names and paths.  Core Lean only.
-/
set_option linter.unusedSimpArgs false
namespace A2Verif.FsDos
open A2Verif.Read.Dos3x

/-! ## `All2` -/

theorem All2.length_eq {α β : Type} {R : α → β → Prop} {l1 : List α} {l2 : List β} (h : All2 R l1 l2) : l1.length = l2.length := by
  induction h with
  | nil => rfl
  | cons _ _ ih => simp [ih]

theorem All2.split {α β : Type} {R : α → β → Prop} : ∀ {L1 : List α} {a : α} {L2 : List α} {l2 : List β},
    All2 R (L1 ++ a :: L2) l2 → ∃ T1 b T2, l2 = T1 ++ b :: T2 ∧ All2 R L1 T1 ∧ R a b ∧ All2 R L2 T2 := by
  intro L1
  induction L1 with
  | nil =>
    intro a L2 l2 h
    cases h with
    | cons hab hr => exact ⟨[], _, _, rfl, All2.nil, hab, hr⟩
  | cons x L1 ih =>
    intro a L2 l2 h
    cases h with
    | cons hxb hr =>
      obtain ⟨T1, b, T2, rfl, h1, h2, h3⟩ := ih hr
      exact ⟨_ :: T1, b, T2, rfl, All2.cons hxb h1, h2, h3⟩

theorem All2.append {α β : Type} {R : α → β → Prop} {L1 L2 : List α} {T1 T2 : List β}
    (h1 : All2 R L1 T1) (h2 : All2 R L2 T2) : All2 R (L1 ++ L2) (T1 ++ T2) := by
  induction h1 with
  | nil => exact h2
  | cons hab _ ih => exact All2.cons hab ih

theorem All2.imp {α β : Type} {R S : α → β → Prop} {l1 : List α} {l2 : List β} (h : All2 R l1 l2)
    (hi : ∀ a b, a ∈ l1 → b ∈ l2 → R a b → S a b) : All2 S l1 l2 := by
  induction h with
  | nil => exact All2.nil
  | cons hab _ ih =>
    exact All2.cons (hi _ _ List.mem_cons_self List.mem_cons_self hab)
      (ih (fun a b ha hb => hi a b (List.mem_cons_of_mem _ ha) (List.mem_cons_of_mem _ hb)))

/-! ## congruence of chains and walks -/

theorem CatChain.congr {r r' : Raw} {c : Nat} (hsz : r'.units.size = r.units.size) : ∀ {cat : List Nat} {t s : Nat},
    (∀ u ∈ cat, (sec r' u).getD 1 0 = (sec r u).getD 1 0 ∧ (sec r' u).getD 2 0 = (sec r u).getD 2 0) →
    CatChain r c t s cat → CatChain r' c t s cat := by
  intro cat
  induction cat with
  | nil => intro t s _ h; exact h
  | cons u rest ih =>
    intro t s hag h
    obtain ⟨h0, ht, hs, hu, hlt, hrest⟩ := h
    have := hag u List.mem_cons_self
    refine ⟨h0, ht, hs, hu, by rw [hsz]; exact hlt, ?_⟩
    rw [this.1, this.2]
    exact ih (fun x hx => hag x (List.mem_cons_of_mem _ hx)) hrest

theorem PairsOk.congr {r r' : Raw} {c : Nat} {b : Bytes} (hsz : r'.units.size = r.units.size) (h : PairsOk r c b) : PairsOk r' c b := by
  intro k hk h0
  rw [hsz]; exact h k hk h0

theorem TsChain.congr {r r' : Raw} {c : Nat} (hsz : r'.units.size = r.units.size) : ∀ {tsl : List Nat} {t s : Nat},
    (∀ u ∈ tsl, sec r' u = sec r u) → TsChain r c t s tsl → TsChain r' c t s tsl := by
  intro tsl
  induction tsl with
  | nil => intro t s _ h; exact h
  | cons u rest ih =>
    intro t s hag h
    have hu := hag u List.mem_cons_self
    cases rest with
    | nil =>
      obtain ⟨⟨ht, hs, he, hlt, hp⟩, h1, h2⟩ := h
      refine ⟨⟨ht, hs, he, by rw [hsz]; exact hlt, ?_⟩, by rw [hu]; exact h1, by rw [hu]; exact h2⟩
      rw [hu]; exact hp.congr hsz
    | cons u' rest' =>
      obtain ⟨⟨ht, hs, he, hlt, hp⟩, h1, hrest⟩ := h
      refine ⟨⟨ht, hs, he, by rw [hsz]; exact hlt, ?_⟩, by rw [hu]; exact h1, ?_⟩
      · rw [hu]; exact hp.congr hsz
      · rw [hu]; exact ih (fun x hx => hag x (List.mem_cons_of_mem _ hx)) hrest

theorem filterMap_congr' {α β : Type} {f g : α → Option β} : ∀ {l : List α}, (∀ x ∈ l, f x = g x) → l.filterMap f = l.filterMap g := by
  intro l
  induction l with
  | nil => intro _; rfl
  | cons a l ih =>
    intro h
    rw [List.filterMap_cons, List.filterMap_cons, h a List.mem_cons_self, ih (fun x hx => h x (List.mem_cons_of_mem _ hx))]

theorem hereOf_congr {r r' : Raw} {c : Nat} {b : Bytes} {base : Nat}
    (h : ∀ x ∈ hereOf r c b base, sec r' x.2.2 = sec r x.2.2) : hereOf r' c b base = hereOf r c b base := by
  unfold hereOf at h ⊢
  apply filterMap_congr'
  intro k hk
  by_cases h0 : pairT b k = 0
  · simp [h0]
  · simp only [h0, if_false]
    have := h (base + k, sec r (pairT b k * c + pairS b k), pairT b k * c + pairS b k)
      (List.mem_filterMap.2 ⟨k, hk, by simp [h0]⟩)
    simp only at this
    rw [this]

theorem walkOf_congr {r r' : Raw} {c : Nat} : ∀ {tsl : List Nat} {base : Nat},
    (∀ u ∈ tsl, sec r' u = sec r u) → (∀ x ∈ walkOf r c base tsl, sec r' x.2.2 = sec r x.2.2) →
    walkOf r' c base tsl = walkOf r c base tsl := by
  intro tsl
  induction tsl with
  | nil => intro _ _ _; rfl
  | cons u rest ih =>
    intro base hag hd
    simp only [walkOf] at hd ⊢
    rw [hag u List.mem_cons_self, hereOf_congr (fun x hx => hd x (List.mem_append_left _ hx)),
      ih (fun x hx => hag x (List.mem_cons_of_mem _ hx)) (fun x hx => hd x (List.mem_append_right _ hx))]

/-- a record is unchanged when the image changes outside the units it owns -/
theorem recOf_congr {r r' : Raw} {c : Nat} {e : Bytes} {tsl : List Nat}
    (h : ∀ u ∈ (recOf r c e tsl).owned, sec r' u = sec r u) : recOf r' c e tsl = recOf r c e tsl := by
  have hw : walkOf r' c 0 tsl = walkOf r c 0 tsl := by
    apply walkOf_congr
    · intro u hu; exact h u (List.mem_append_left _ hu)
    · intro x hx; exact h x.2.2 (List.mem_append_right _ (List.mem_map_of_mem hx))
  unfold recOf
  rw [hw]

theorem FileChain.congr {r r' : Raw} {c : Nat} {e : Bytes} {tsl : List Nat} (hsz : r'.units.size = r.units.size)
    (h : ∀ u ∈ tsl, sec r' u = sec r u) (hc : FileChain r c e tsl) : FileChain r' c e tsl :=
  ⟨TsChain.congr hsz h hc.1, hc.2.1, hc.2.2⟩

/-! ## splitting the file list -/

theorem filesOf_append {r : Raw} {c : Nat} {L1 L2 : List Bytes} {T1 T2 : List (List Nat)} (h : L1.length = T1.length) :
    filesOf r c (L1 ++ L2) (T1 ++ T2) = filesOf r c L1 T1 ++ filesOf r c L2 T2 := by
  unfold filesOf
  exact List.zipWith_append h

theorem filesOf_cons {r : Raw} {c : Nat} {e : Bytes} {t : List Nat} {L : List Bytes} {T : List (List Nat)} :
    filesOf r c (e :: L) (t :: T) = recOf r c e t :: filesOf r c L T := rfl

theorem mem_filesOf {r : Raw} {c : Nat} {R : Bytes → List Nat → Prop} {L : List Bytes} {T : List (List Nat)} (h : All2 R L T) {f : FileRec}
    (hf : f ∈ filesOf r c L T) : ∃ e t, e ∈ L ∧ t ∈ T ∧ R e t ∧ f = recOf r c e t := by
  induction h with
  | nil => simp [filesOf] at hf
  | @cons e t L T hab _ ih =>
    rw [filesOf_cons] at hf
    rcases List.mem_cons.1 hf with rfl | hf
    · exact ⟨e, t, List.mem_cons_self, List.mem_cons_self, hab, rfl⟩
    · obtain ⟨e', t', he, ht, hr, rfl⟩ := ih hf
      exact ⟨e', t', List.mem_cons_of_mem _ he, List.mem_cons_of_mem _ ht, hr, rfl⟩

/-- the file list and the chains survive an image change outside all owned units -/
theorem filesOf_congr {r r' : Raw} {c : Nat} (hsz : r'.units.size = r.units.size) {L : List Bytes} {T : List (List Nat)}
    (h : All2 (FileChain r c) L T) (hag : ∀ f ∈ filesOf r c L T, ∀ u ∈ f.owned, sec r' u = sec r u) :
    filesOf r' c L T = filesOf r c L T ∧ All2 (FileChain r' c) L T := by
  induction h with
  | nil => exact ⟨rfl, All2.nil⟩
  | @cons e t L T hab _ ih =>
    rw [filesOf_cons] at hag
    have h1 := hag _ List.mem_cons_self
    have ih' := ih (fun f hf => hag f (List.mem_cons_of_mem _ hf))
    refine ⟨by rw [filesOf_cons, filesOf_cons, recOf_congr h1, ih'.1], All2.cons ?_ ih'.2⟩
    exact hab.congr hsz (fun u hu => h1 u (List.mem_append_left _ hu))

/-! ## names and paths -/

/-- the path the reader derives from a 30-byte catalog name -/
def pathOfName (nm : Bytes) : Bytes := (trimName nm).map (· % 128)

theorem dropWhile_append_replicate (l : List Nat) :
    ∃ k, l = List.replicate k 0xA0 ++ l.dropWhile (· == 0xA0) := by
  induction l with
  | nil => exact ⟨0, by simp⟩
  | cons x xs ih =>
    by_cases hx : x = 0xA0
    · obtain ⟨k, h⟩ := ih
      refine ⟨k + 1, ?_⟩
      subst hx
      rw [List.dropWhile_cons_of_pos (by simp), List.replicate_succ, List.cons_append, ← h]
    · refine ⟨0, ?_⟩
      rw [List.dropWhile_cons_of_neg (by simpa using hx)]
      simp

/-- a name is its trimmed form followed by negative blanks -/
theorem trimName_pad (n : Bytes) : ∃ k, n = trimName n ++ List.replicate k 0xA0 := by
  obtain ⟨k, h⟩ := dropWhile_append_replicate n.reverse
  refine ⟨k, ?_⟩
  unfold trimName
  have := congrArg List.reverse h
  rw [List.reverse_reverse, List.reverse_append, List.reverse_replicate] at this
  exact this

theorem mod128_inj {a b : Bytes} (ha : ∀ x ∈ a, 128 ≤ x ∧ x < 256) (hb : ∀ x ∈ b, 128 ≤ x ∧ x < 256)
    (h : a.map (· % 128) = b.map (· % 128)) : a = b := by
  induction a generalizing b with
  | nil => cases b with
    | nil => rfl
    | cons y ys => simp at h
  | cons x xs ih =>
    cases b with
    | nil => simp at h
    | cons y ys =>
      simp only [List.map_cons, List.cons.injEq] at h
      have hx := ha x List.mem_cons_self
      have hy := hb y List.mem_cons_self
      have : x = y := by omega
      rw [this, ih (fun z hz => ha z (List.mem_cons_of_mem _ hz)) (fun z hz => hb z (List.mem_cons_of_mem _ hz)) h.2]

/-- names of the same length made of bytes with bit 7 are determined by their path -/
theorem pathOfName_inj {n1 n2 : Bytes} (hl : n1.length = n2.length) (h1 : ∀ x ∈ n1, 128 ≤ x ∧ x < 256) (h2 : ∀ x ∈ n2, 128 ≤ x ∧ x < 256)
    (h : pathOfName n1 = pathOfName n2) : n1 = n2 := by
  obtain ⟨k1, e1⟩ := trimName_pad n1
  obtain ⟨k2, e2⟩ := trimName_pad n2
  have ht : trimName n1 = trimName n2 := by
    apply mod128_inj _ _ h
    · intro x hx; exact h1 x (by rw [e1]; exact List.mem_append_left _ hx)
    · intro x hx; exact h2 x (by rw [e2]; exact List.mem_append_left _ hx)
  have hk : k1 = k2 := by
    have l1 := congrArg List.length e1
    have l2 := congrArg List.length e2
    simp only [List.length_append, List.length_replicate] at l1 l2
    rw [ht] at l1
    omega
  rw [e1, e2, ht, hk]

end A2Verif.FsDos
