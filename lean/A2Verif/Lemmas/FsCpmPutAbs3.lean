import A2Verif.Lemmas.FsCpmPutAbs2
/-!
# Successful `put`: from the run of `put` to the context of the abstract half; the invariant afterwards
-/
namespace A2Verif.FsCpm
open A2Verif.Fs.Cpm
open A2Verif.Read.Cpm (Dpb fileKey extNum entryPtrs pathOf slots)

/-- a successful `put` yields the context the abstract half works in -/
theorem put_ctx {d : Dpb} {r r' : Raw} {f : FImg} {now : Bytes} (h : Inv d r) (hr : ResvOk d) (hd : DpbPut d)
    (ha : PutArgsOk d f) (hop : put d r f now = (.ok (), r')) :
    ∃ (user : Nat) (name : Bytes) (sr : Raw) (dir2 : Dir) (base ext : Bytes),
      splitUserFilename f.fullPath = .ok (user, name) ∧ isNameValid name = true ∧ NameParts name base ext ∧
      canonKey f.fullPath = decDigits user ++ [58] ++ (upper base ++ [46] ++ upper ext) ∧
      PutCtx d r r' sr f user (stringToFileName name).1 (stringToFileName name).2 dir2 := by
  obtain ⟨user, name, files, sr, dir2, hsplit, hvalid, hb, hg, pf, hsave⟩ := put_facts h hr hd ha hop
  have hsh : Shape d sr := ⟨by rw [pf.frame.1, h.shape.size], pf.frame.2.1⟩
  obtain ⟨r2, e1, hs', hother, hdir⟩ := saveDirectory_spec (dir := dir2) hsh h.dpb (by rw [pf.keeps.1, dirOf_length]) pf.len
  rw [hsave] at e1
  cases e1
  obtain ⟨hu, hcanon⟩ := split_ok hsplit
  obtain ⟨base, ext, np, hck⟩ := canonKey_ok hu hsplit hvalid hcanon
  have hfresh := fresh_of_getFile_none h hb hg hu np hck
  have hokB : ∀ c ∈ upper base, okChar c = true := by
    intro c hc
    unfold upper at hc
    rw [List.mem_map] at hc
    obtain ⟨c0, hc0, rfl⟩ := hc
    exact (charOk_facts (np.ok c0 (List.mem_append_left _ hc0))).1
  have hokE : ∀ c ∈ upper ext, okChar c = true := by
    intro c hc
    unfold upper at hc
    rw [List.mem_map] at hc
    obtain ⟨c0, hc0, rfl⟩ := hc
    exact (charOk_facts (np.ok c0 (List.mem_append_right _ hc0))).1
  have hm : ∀ (B : Bytes) (n : Nat), (∀ c ∈ B, okChar c = true) → (padTo n B).map (· % 128) = padTo n B := by
    intro B n hB
    apply map_mod_fix
    intro c hc
    unfold padTo at hc
    rcases List.mem_append.1 hc with hc | hc
    · have := okChar_lt c (hB c (List.mem_of_mem_take hc)); omega
    · rw [List.eq_of_mem_replicate hc]
  have hlb : (upper base).length ≤ 8 := by unfold upper; rw [List.length_map]; exact np.lb
  have hlx : (upper ext).length ≤ 3 := by unfold upper; rw [List.length_map]; exact np.le
  have hcn : cleanField ((stringToFileName name).1.map (· % 128)) = true := by
    rw [np.s2fn]; simp only []; rw [hm _ _ hokB]; exact clean_pad hokB hlb
  have hct : cleanField ((stringToFileName name).2.map (· % 128)) = true := by
    rw [np.s2fn]; simp only []; rw [hm _ _ hokE]; exact clean_pad hokE hlx
  exact ⟨user, name, sr, dir2, base, ext, hsplit, hvalid, np, hck, ⟨pf, hs', hother, hdir, hfresh, hu, hcn, hct⟩⟩

/-- **`Inv` holds after every successful `put`** of an image satisfying `PutArgsOk` -/
theorem put_success_inv' {d : Dpb} {r r' : Raw} {f : FImg} {now : Bytes} (h : Inv d r) (hr : ResvOk d) (hd : DpbPut d)
    (ha : PutArgsOk d f) (hop : put d r f now = (.ok (), r')) : Inv d r' := by
  obtain ⟨user, name, sr, dir2, base, ext, _, _, _, _, c⟩ := put_ctx h hr hd ha hop
  exact put_inv h hr ha c

end A2Verif.FsCpm
