import A2Verif.Model.Fs.Fat
import A2Verif.Model.Read.Fat
/-!
# The 12-bit FAT entry algebra of the concrete FAT model (`bios/fat.rs::get_cluster/set_cluster`)

`rd12`/`wr12` are the two functions on the byte level (a buffer seen as `Nat → Nat`); `getCluster 12`/`setCluster 12`
are these on the `Array` buffer when the entry lies inside it, and `Err.panic` otherwise.  The facts proved:
an entry reads back what was written (`% 4096`), **writing one entry leaves every other entry as it was** (the
nibble shared with the neighbour is preserved — the classic FAT12 packing mistake is excluded), bytes stay bytes,
the buffer keeps its size, and the model's `getCluster` is the independent reader's `fatEntry`.
-/
namespace A2Verif.FsFat
open A2Verif A2Verif.Fs.Fat

/-! ## on functions `Nat → Nat` -/

def rd12 (f : Nat → Nat) (n : Nat) : Nat :=
  let w := f (n + n / 2) + 256 * f (n + n / 2 + 1)
  if n % 2 = 1 then w / 16 else w % 4096

def v16 (f : Nat → Nat) (n v : Nat) : Nat :=
  let w := f (n + n / 2) + 256 * f (n + n / 2 + 1)
  if n % 2 = 1 then (v % 65536 * 16) % 65536 + w % 16 else v % 4096 + w / 4096 * 4096

def wr12 (f : Nat → Nat) (n v : Nat) : Nat → Nat := fun i =>
  if i = n + n / 2 + 1 then v16 f n v / 256 else if i = n + n / 2 then v16 f n v % 256 else f i

theorem rd_wr_same (f : Nat → Nat) (n v : Nat) (_h0 : f (n + n / 2) < 256) (_h1 : f (n + n / 2 + 1) < 256) :
    rd12 (wr12 f n v) n = v % 4096 := by
  unfold rd12 wr12 v16
  have : ¬ (n + n / 2 = n + n / 2 + 1) := by omega
  simp only [this, if_false, if_true]
  split <;> omega

theorem rd_wr_other (f : Nat → Nat) (n m v : Nat) (hne : m ≠ n) (hb : ∀ i, f i < 256) :
    rd12 (wr12 f n v) m = rd12 f m := by
  unfold rd12 wr12 v16
  simp only []
  generalize hon : n + n / 2 = on
  generalize hom : m + m / 2 = om
  have c0 : om ≠ on := by omega
  by_cases c1 : om = on + 1
  · subst c1
    have h0 := hb on
    have h1 := hb (on + 1)
    have h2 := hb (on + 1 + 1)
    have e1 : ¬ (on + 1 + 1 = on + 1) := by omega
    have e2 : ¬ (on + 1 + 1 = on) := by omega
    simp only [e1, e2, if_true, if_false]
    split <;> split <;> omega
  · by_cases c2 : om + 1 = on
    · subst c2
      have h0 := hb om
      have h1 := hb (om + 1)
      have h2 := hb (om + 1 + 1)
      have e1 : ¬ (om = om + 1 + 1) := by omega
      have e2 : ¬ (om = om + 1) := by omega
      have e3 : ¬ (om + 1 = om + 1 + 1) := by omega
      simp only [e1, e2, e3, if_true, if_false]
      split <;> split <;> omega
    · have e1 : ¬ (om + 1 = on + 1) := by omega
      have e2 : ¬ (om + 1 = on) := by omega
      simp only [c0, c1, e1, e2, if_false]

theorem wr_lt (f : Nat → Nat) (n v : Nat) (hb : ∀ i, f i < 256) : ∀ i, wr12 f n v i < 256 := by
  intro i
  have h0 := hb (n + n / 2)
  have h1 := hb (n + n / 2 + 1)
  have hi := hb i
  unfold wr12 v16
  simp only []
  split
  · split <;> omega
  · split
    · split <;> omega
    · exact hi

theorem rd12_lt (f : Nat → Nat) (n : Nat) (hb : ∀ i, f i < 256) : rd12 f n < 4096 := by
  have h0 := hb (n + n / 2)
  have h1 := hb (n + n / 2 + 1)
  unfold rd12
  simp only []
  split <;> omega

/-! ## on the buffer -/

/-- the buffer as a function (0 beyond its end) -/
def fn (buf : Array Nat) : Nat → Nat := fun i => buf.getD i 0

/-- every element is a byte -/
def BytesOk (buf : Array Nat) : Prop := ∀ i, fn buf i < 256

theorem fn_of_lt {buf : Array Nat} {i : Nat} (h : i < buf.size) : fn buf i = buf[i] := by
  simp [fn, Array.getD, h]

theorem fn_of_ge {buf : Array Nat} {i : Nat} (h : buf.size ≤ i) : fn buf i = 0 := by
  simp [fn, Array.getD]; omega

/-- entry `n` lies inside the buffer -/
def InBuf (buf : Array Nat) (n : Nat) : Prop := n + n / 2 + 1 < buf.size

instance (buf : Array Nat) (n : Nat) : Decidable (InBuf buf n) := by unfold InBuf; infer_instance

theorem getCluster12_eq {buf : Array Nat} {n : Nat} (h : InBuf buf n) : getCluster 12 buf n = .ok (rd12 (fn buf) n) := by
  unfold InBuf at h
  have h0 : n + n / 2 < buf.size := by omega
  unfold getCluster rd12
  simp [Array.getElem?_eq_getElem h, Array.getElem?_eq_getElem h0, fn_of_lt h, fn_of_lt h0]

theorem getCluster12_err {buf : Array Nat} {n : Nat} (h : ¬ InBuf buf n) : getCluster 12 buf n = .error .panic := by
  unfold InBuf at h
  unfold getCluster
  simp only [if_true]
  by_cases h0 : n + n / 2 < buf.size
  · have : buf[n + n / 2 + 1]? = none := by simp; omega
    simp [this, Array.getElem?_eq_getElem h0]
  · have : buf[n + n / 2]? = none := by simp; omega
    simp [this]

theorem setCluster12_err {buf : Array Nat} {n v : Nat} (h : ¬ InBuf buf n) : setCluster 12 buf n v = .error .panic := by
  unfold InBuf at h
  unfold setCluster
  simp only [if_true]
  by_cases h0 : n + n / 2 < buf.size
  · have : buf[n + n / 2 + 1]? = none := by simp; omega
    simp [this, Array.getElem?_eq_getElem h0]
  · have : buf[n + n / 2]? = none := by simp; omega
    simp [this]

/-- `set_cluster` inside the buffer: the new buffer has the same size and is `wr12` of the old one -/
theorem setCluster12_spec {buf : Array Nat} {n v : Nat} (h : InBuf buf n) :
    ∃ buf', setCluster 12 buf n v = .ok buf' ∧ buf'.size = buf.size ∧ fn buf' = wr12 (fn buf) n v := by
  unfold InBuf at h
  have h0 : n + n / 2 < buf.size := by omega
  refine ⟨(buf.setIfInBounds (n + n / 2) (v16 (fn buf) n v % 256)).setIfInBounds (n + n / 2 + 1) (v16 (fn buf) n v / 256), ?_, by simp, ?_⟩
  · unfold setCluster v16
    simp [Array.getElem?_eq_getElem h, Array.getElem?_eq_getElem h0, fn_of_lt h, fn_of_lt h0]
  · funext i
    unfold wr12
    by_cases hi : i < buf.size
    · simp only [fn, Array.getD_eq_getD_getElem?, Array.getElem?_setIfInBounds, Array.size_setIfInBounds]
      by_cases e1 : i = n + n / 2 + 1
      · subst e1; simp [h]
      · by_cases e2 : i = n + n / 2
        · subst e2; simp [h0]
        · have e1' : ¬ (n + n / 2 + 1 = i) := fun e => e1 e.symm
          have e2' : ¬ (n + n / 2 = i) := fun e => e2 e.symm
          simp [e1, e2, e1', e2']
    · have e1 : ¬ (i = n + n / 2 + 1) := by omega
      have e2 : ¬ (i = n + n / 2) := by omega
      have : ((buf.setIfInBounds (n + n / 2) (v16 (fn buf) n v % 256)).setIfInBounds (n + n / 2 + 1) (v16 (fn buf) n v / 256)).size ≤ i := by
        simp; omega
      rw [fn_of_ge this]
      simp only [e1, e2, if_false]
      exact (fn_of_ge (by omega)).symm

theorem setCluster12_ok {buf buf' : Array Nat} {n v : Nat} (h : setCluster 12 buf n v = .ok buf') :
    InBuf buf n ∧ buf'.size = buf.size ∧ fn buf' = wr12 (fn buf) n v := by
  by_cases hi : InBuf buf n
  · obtain ⟨b, e, hs, hf⟩ := setCluster12_spec (v := v) hi
    rw [e] at h
    injection h with h
    subst h
    exact ⟨hi, hs, hf⟩
  · rw [setCluster12_err hi] at h
    cases h

theorem inBuf_of_size {a b : Array Nat} {n : Nat} (hs : b.size = a.size) (h : InBuf a n) : InBuf b n := by
  unfold InBuf at *; omega

/-- an entry reads back what was written -/
theorem getCluster_setCluster_same {buf buf' : Array Nat} {n v : Nat} (hb : BytesOk buf)
    (h : setCluster 12 buf n v = .ok buf') : getCluster 12 buf' n = .ok (v % 4096) := by
  obtain ⟨hi, hs, hf⟩ := setCluster12_ok h
  rw [getCluster12_eq (inBuf_of_size hs hi), hf, rd_wr_same _ _ _ (hb _) (hb _)]

/-- **writing entry `n` leaves entry `m ≠ n` as it was** (also whether it can be read at all) -/
theorem getCluster_setCluster_other {buf buf' : Array Nat} {n m v : Nat} (hb : BytesOk buf) (hne : m ≠ n)
    (h : setCluster 12 buf n v = .ok buf') : getCluster 12 buf' m = getCluster 12 buf m := by
  obtain ⟨_, hs, hf⟩ := setCluster12_ok h
  by_cases hm : InBuf buf m
  · rw [getCluster12_eq hm, getCluster12_eq (inBuf_of_size hs hm), hf, rd_wr_other _ _ _ _ hne hb]
  · have hm' : ¬ InBuf buf' m := fun x => hm (inBuf_of_size hs.symm x)
    rw [getCluster12_err hm, getCluster12_err hm']

theorem bytesOk_setCluster {buf buf' : Array Nat} {n v : Nat} (hb : BytesOk buf)
    (h : setCluster 12 buf n v = .ok buf') : BytesOk buf' := by
  obtain ⟨_, _, hf⟩ := setCluster12_ok h
  intro i
  rw [hf]
  exact wr_lt _ _ _ hb i

/-- the model's `get_cluster` is the independent reader's `fatEntry` -/
theorem rd12_eq_reader (buf : Array Nat) (n : Nat) : rd12 (fn buf) n = Read.Fat.fatEntry buf false n := by
  simp only [rd12, Read.Fat.fatEntry, fn, Bool.false_eq_true, if_false]
  by_cases h : n % 2 = 1
  · simp [h]
  · have h' : n % 2 = 0 := by omega
    simp [h']

end A2Verif.FsFat
