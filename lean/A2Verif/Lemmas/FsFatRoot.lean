import A2Verif.Lemmas.FsFatRead
import A2Verif.Lemmas.FsFatList
/-!
# The model on the root directory: reading it, looking a name up, writing an entry back, flushing

For a state with `Geo`: `get_root_dir` yields `dirOfBytes (rootBuf d)` and leaves the state alone; a successful lookup
in `build_files`' map names an entry `E1 ++ e :: E2` before which no end mark lies; `goto_path` of a root-level name is
that lookup; the write-back of a root entry replaces that entry in `rootBuf`; with `Coh` the flush writes what is
already there.
-/
namespace A2Verif.FsFat
open A2Verif A2Verif.Fs.Fat

/-! ## reading sectors -/

theorem getChs_ok {d : Disk} (g : Geo d) {s : Nat} (h : s < d.bpb.totSec) : getChs d s = .ok s := by
  have h1 := g.spt; have h2 := g.heads; have h3 := g.chs s h
  unfold getChs Raw.count
  simp [h1, h2]
  omega

theorem readSector_ok {d : Disk} (g : Geo d) {s : Nat} (h : s < d.bpb.totSec) :
    readSector s d = (.ok (d.raw.units.getD s []), d) := by
  have hs : s < d.raw.units.size := by have := g.fits; omega
  unfold readSector
  simp only [M_bind_apply, M.get, M.lift, getChs_ok g h, imgReadSector, Array.getElem?_eq_getElem hs]
  simp [Array.getD, hs]

theorem readSectors_ok {d : Disk} (g : Geo d) : ∀ (ss : List Nat), (∀ s ∈ ss, s < d.bpb.totSec) →
    readSectors ss d = (.ok (ss.map (fun s => d.raw.units.getD s [])).flatten, d) := by
  intro ss
  induction ss with
  | nil => intro _; rfl
  | cons s t ih =>
    intro h
    unfold readSectors
    simp only [M_bind_apply, readSector_ok g (h s (by simp)), ih (fun x hx => h x (by simp [hx])), M_pure_apply,
      List.map_cons, List.flatten_cons]

theorem range'_eq_map (s n : Nat) : List.range' s n = (List.range n).map (fun k => s + k) := by
  rw [List.range_eq_range']
  simp [List.map_add_range']

theorem getRootDir_eq {d : Disk} (g : Geo d) : getRootDir d = (.ok (dirOfBytes (rootBuf d)), d) := by
  unfold getRootDir
  simp only [M_bind_apply, M.get]
  rw [readSectors_ok g]
  · simp only [M_pure_apply]
    unfold rootBuf
    rw [range'_eq_map, List.map_map]
    rfl
  · intro s hs
    have := g.fits
    simp [List.mem_range'_1] at hs
    unfold Bpb.firstDataSec at this
    unfold Bpb.rootBeg at hs
    omega

/-! ## the map of `build_files` -/

/-- the entry takes part in `build_files`' map -/
def inMap (lf : Bool) (e : Bytes) : Prop :=
  entryType e ≠ .free ∧ entryType e ≠ .freeAndNoMore ∧ ¬ (entryType e = .volumeLabel ∧ lf = false)

theorem lookup_append_single {k key : Bytes} {fi fi0 : FInfo} {acc : List (Bytes × FInfo)}
    (h : (acc ++ [(key, fi0)]).lookup k = some fi) : acc.lookup k = some fi ∨ (k = key ∧ fi = fi0) := by
  induction acc with
  | nil =>
    simp only [List.nil_append, List.lookup] at h
    by_cases e : k == key
    · simp only [e] at h
      injection h with h
      exact Or.inr ⟨by simpa using e, h.symm⟩
    · simp [e] at h
  | cons a t ih =>
    obtain ⟨ka, va⟩ := a
    simp only [List.cons_append, List.lookup] at h ⊢
    by_cases e : k == ka
    · simp only [e] at h ⊢; exact Or.inl h
    · simp only [e] at h ⊢; exact ih h

/-- the `FileInfo` `add_file` makes of entry `e` at index `i` -/
def infoOf (e : Bytes) (i : Nat) : FInfo :=
  { idx := i, readOnly := (Entry.attr e &&& READ_ONLY) > 0, volumeId := (Entry.attr e &&& VOLUME_ID) > 0,
    directory := (Entry.attr e &&& DIRECTORY) > 0, eof := Entry.fileSize e, cluster1 := some (Entry.cluster1Low e) }

theorem buildLoop_lookup (lf : Bool) : ∀ (E : List Bytes) (i bad : Nat) (acc files : List (Bytes × FInfo)),
    buildLoop lf E i bad acc = .ok files → ∀ (k : Bytes) (fi : FInfo), files.lookup k = some fi →
    acc.lookup k = some fi ∨
    ∃ E1 e E2 nm ty, E = E1 ++ e :: E2 ∧ fi.idx = i + E1.length ∧ (∀ x ∈ E1, entryType x ≠ .freeAndNoMore) ∧ inMap lf e ∧
      fileNameToSplit e = some (nm, ty) ∧ k = nm ++ [46] ++ ty ∧ fi = infoOf e fi.idx := by
  intro E
  induction E with
  | nil =>
    intro i bad acc files h k fi hk
    simp only [buildLoop] at h
    injection h with h
    subst h
    exact Or.inl hk
  | cons e es ih =>
    intro i bad acc files h k fi hk
    have shift : ∀ {acc' : List (Bytes × FInfo)}, (entryType e ≠ .freeAndNoMore) →
        (acc'.lookup k = some fi ∨ ∃ E1 e' E2 nm ty, es = E1 ++ e' :: E2 ∧ fi.idx = i + 1 + E1.length ∧
          (∀ x ∈ E1, entryType x ≠ .freeAndNoMore) ∧ inMap lf e' ∧ fileNameToSplit e' = some (nm, ty) ∧ k = nm ++ [46] ++ ty ∧ fi = infoOf e' fi.idx) →
        (acc'.lookup k = some fi ∨ ∃ E1 e' E2 nm ty, e :: es = E1 ++ e' :: E2 ∧ fi.idx = i + E1.length ∧
          (∀ x ∈ E1, entryType x ≠ .freeAndNoMore) ∧ inMap lf e' ∧ fileNameToSplit e' = some (nm, ty) ∧ k = nm ++ [46] ++ ty ∧ fi = infoOf e' fi.idx) := by
      intro acc' hne hor
      cases hor with
      | inl h => exact Or.inl h
      | inr h =>
        obtain ⟨E1, e', E2, nm, ty, h1, h2, h3, h4, h5, h6, h7⟩ := h
        refine Or.inr ⟨e :: E1, e', E2, nm, ty, by rw [h1]; rfl, by simp; omega, ?_, h4, h5, h6, h7⟩
        intro x hx
        cases hx with
        | head => exact hne
        | tail _ hx => exact h3 x hx
    have generic : ∀ (t : EntryType), entryType e = t → t ≠ .free → t ≠ .freeAndNoMore →
        (if (decide (t = EntryType.volumeLabel) && !lf) = true then buildLoop lf es (i + 1) bad acc
          else if bad > 2 then Except.error Err.syntax
          else match fileNameToSplit e with
            | none => Except.error Err.unmodelled
            | some (name, typ) =>
              let key := name ++ [46] ++ typ
              if (acc.lookup key).isSome = true then Except.error Err.duplicateFile
              else
                let a := Entry.attr e
                let fi : FInfo := { idx := i, readOnly := (a &&& READ_ONLY) > 0, volumeId := (a &&& VOLUME_ID) > 0,
                                    directory := (a &&& DIRECTORY) > 0, eof := Entry.fileSize e, cluster1 := some (Entry.cluster1Low e) }
                buildLoop lf es (i + 1) (if isNameValid key then bad else bad + 1) (acc ++ [(key, fi)])) = .ok files →
        (acc.lookup k = some fi ∨ ∃ E1 e' E2 nm ty, e :: es = E1 ++ e' :: E2 ∧ fi.idx = i + E1.length ∧
          (∀ x ∈ E1, entryType x ≠ .freeAndNoMore) ∧ inMap lf e' ∧ fileNameToSplit e' = some (nm, ty) ∧ k = nm ++ [46] ++ ty ∧ fi = infoOf e' fi.idx) := by
      intro t ht hnf hnn h
      by_cases hskip : (decide (t = EntryType.volumeLabel) && !lf) = true
      · simp only [hskip, if_true] at h
        exact shift (by rw [ht]; exact hnn) (ih _ _ _ _ h k fi hk)
      · simp only [hskip, Bool.false_eq_true, if_false] at h
        by_cases hb : bad > 2
        · simp only [hb, if_true] at h; cases h
        · simp only [hb, if_false] at h
          cases hn : fileNameToSplit e with
          | none => simp only [hn] at h; cases h
          | some nt =>
            obtain ⟨nm, ty⟩ := nt
            simp only [hn] at h
            by_cases hd : (acc.lookup (nm ++ [46] ++ ty)).isSome = true
            · simp only [hd, if_true] at h; cases h
            · simp only [hd, Bool.false_eq_true, if_false] at h
              have := ih _ _ _ _ h k fi hk
              cases this with
              | inl hl =>
                cases lookup_append_single hl with
                | inl h0 => exact Or.inl h0
                | inr h0 =>
                  refine Or.inr ⟨[], e, es, nm, ty, rfl, by rw [h0.2]; simp, by simp, ?_, hn, h0.1, by rw [h0.2]; rfl⟩
                  refine ⟨by rw [ht]; exact hnf, by rw [ht]; exact hnn, ?_⟩
                  intro hc
                  apply hskip
                  rw [ht] at hc
                  simp [hc.1, hc.2]
              | inr hr => exact shift (by rw [ht]; exact hnn) (Or.inr hr)
    unfold buildLoop at h
    cases ht : entryType e with
    | free =>
      simp only [ht] at h
      exact shift (by rw [ht]; simp) (ih _ _ _ _ h k fi hk)
    | freeAndNoMore =>
      simp only [ht] at h
      injection h with h
      subst h
      exact Or.inl hk
    | file => simp only [ht] at h; exact generic _ ht (by simp) (by simp) h
    | directory => simp only [ht] at h; exact generic _ ht (by simp) (by simp) h
    | volumeLabel => simp only [ht] at h; exact generic _ ht (by simp) (by simp) h
    | longName => simp only [ht] at h; exact generic _ ht (by simp) (by simp) h

/-! ## a root-level name (any case: `normalize_path` converts every node to upper case) -/

structure RootArg (p : Bytes) : Prop where
  ne : p ≠ []
  noSlash : 47 ∉ p
  noStar : 42 ∉ p
  noQ : 63 ∉ p
  len : p.length ≤ 62

/-- the key under which `get_file` looks the name up (after `normalize_path` made it upper case) -/
def keyOf (p : Bytes) : Bytes := lookupKey (upper p)

theorem splitOn_not_mem (sep : Nat) : ∀ (l : Bytes), sep ∉ l → splitOn sep l = [l] := by
  intro l
  induction l with
  | nil => intro _; rfl
  | cons c cs ih =>
    intro h
    have hc : c ≠ sep := fun e => h (by simp [e])
    have hcs : sep ∉ cs := fun e => h (by simp [e])
    rw [splitOn, ih hcs]
    simp [hc]

theorem upperByte_idem (c : Nat) : upperByte (upperByte c) = upperByte c := by
  unfold upperByte
  by_cases h : 97 ≤ c ∧ c ≤ 122
  · have h' : ¬ (97 ≤ c - 32 ∧ c - 32 ≤ 122) := by omega
    simp only [h, and_self, if_true]
    rw [if_neg h']
  · simp [h]

/-- `to_uppercase` neither creates nor removes a byte that is not a letter -/
theorem upperByte_eq_iff {c k : Nat} (h1 : ¬ (65 ≤ k ∧ k ≤ 90)) (h2 : ¬ (97 ≤ k ∧ k ≤ 122)) : upperByte c = k ↔ c = k := by
  unfold upperByte
  split <;> omega

theorem upper_idem (l : Bytes) : upper (upper l) = upper l := by
  unfold upper
  rw [List.map_map]
  apply List.map_congr_left
  intro c _
  exact upperByte_idem c

theorem mem_upper_iff {k : Nat} (h1 : ¬ (65 ≤ k ∧ k ≤ 90)) (h2 : ¬ (97 ≤ k ∧ k ≤ 122)) (l : Bytes) : k ∈ upper l ↔ k ∈ l := by
  unfold upper
  rw [List.mem_map]
  constructor
  · rintro ⟨c, hc, e⟩
    rw [(upperByte_eq_iff h1 h2).mp e] at hc
    exact hc
  · intro h
    exact ⟨k, h, (upperByte_eq_iff h1 h2).mpr rfl⟩

theorem upper_length (l : Bytes) : (upper l).length = l.length := by simp [upper]

theorem isAsciiSpace_upperByte (c : Nat) : isAsciiSpace (upperByte c) = isAsciiSpace c := by
  unfold isAsciiSpace upperByte
  split
  · rename_i h
    have a1 : (c - 32 == 32) = false := by simp; omega
    have a2 : (c == 32) = false := by simp; omega
    have a3 : (decide (9 ≤ c - 32) && decide (c - 32 ≤ 13)) = false := by simp; omega
    have a4 : (decide (9 ≤ c) && decide (c ≤ 13)) = false := by simp; omega
    rw [a1, a2, a3, a4]
  · rfl

theorem trimEnd_upper (s : Bytes) : trimEnd (upper s) = upper (trimEnd s) := by
  unfold trimEnd upper
  have hf : (isAsciiSpace ∘ upperByte) = isAsciiSpace := by
    funext c
    exact isAsciiSpace_upperByte c
  rw [← List.map_reverse, List.dropWhile_map, ← List.map_reverse, hf]

theorem splitOnce_upper : ∀ (l : Bytes), splitOnce 46 (upper l) =
    (match splitOnce 46 l with | some (a, b) => some (upper a, upper b) | none => none) := by
  intro l
  induction l with
  | nil => rfl
  | cons c cs ih =>
    have hu : upper (c :: cs) = upperByte c :: upper cs := rfl
    rw [hu, splitOnce, splitOnce]
    by_cases hc : c = 46
    · subst hc
      have : upperByte 46 = 46 := by decide
      simp [this, upper]
    · have hc' : ¬ (upperByte c = 46) := fun e => hc ((upperByte_eq_iff (by omega) (by omega)).mp e)
      rw [if_neg hc, if_neg hc', ih]
      cases splitOnce 46 cs with
      | none => rfl
      | some ab => obtain ⟨a, b⟩ := ab; rfl

theorem upper_append (a b : Bytes) : upper (a ++ b) = upper a ++ upper b := by simp [upper]

theorem lookupKey_upper (l : Bytes) : lookupKey (upper l) = upper (lookupKey l) := by
  unfold lookupKey
  rw [splitOnce_upper]
  cases splitOnce 46 l with
  | none =>
    simp only [trimEnd_upper, upper_append]
    rfl
  | some ab =>
    obtain ⟨a, b⟩ := ab
    simp only [trimEnd_upper, upper_append]
    rfl

theorem upper_keyOf (p : Bytes) : upper (keyOf p) = keyOf p := by
  unfold keyOf
  rw [← lookupKey_upper, upper_idem]

theorem normalizePath_root {p : Bytes} (a : RootArg p) : normalizePath p = .ok [upper p] := by
  obtain ⟨c, cs, rfl⟩ : ∃ c cs, p = c :: cs := by
    cases p with
    | nil => exact absurd rfl a.ne
    | cons c cs => exact ⟨c, cs, rfl⟩
  have hc : c ≠ 47 := fun e => a.noSlash (by simp [e])
  have hl := a.len
  have hsp : splitOn 47 (47 :: c :: cs) = [[], c :: cs] := by
    rw [splitOn, splitOn_not_mem 47 (c :: cs) a.noSlash]
    simp
  have h1 : (c :: cs).isEmpty = false := rfl
  have h2 : ((c :: cs).head? ≠ some 47) := by simp [hc]
  have h3 : ¬ ((47 :: c :: cs).length > 63) := by simp at hl ⊢; omega
  unfold normalizePath
  simp only [h1, Bool.false_eq_true, if_false]
  rw [if_pos h2, if_neg h3, hsp]
  simp [List.zipIdx, upper]

theorem mem_trimEnd {s : Bytes} {c : Nat} (h : c ∈ trimEnd s) : c ∈ s := by
  unfold trimEnd at h
  have h1 : c ∈ s.reverse.dropWhile isAsciiSpace := by simpa using h
  have h2 := (List.dropWhile_sublist isAsciiSpace).subset h1
  simpa using h2

/-- `get_file` of an upper-case name: one lookup -/
theorem getFile_root (p : Bytes) (files : List (Bytes × FInfo)) : getFile (upper p) files = files.lookup (keyOf p) := by
  unfold getFile
  have : lookupKey (upper p) = keyOf p := rfl
  simp only [this, upper_keyOf]
  cases files.lookup (keyOf p) <;> rfl

/-- `goto_path` of a root-level name: the root is read, the map built, the key looked up; the state is untouched -/
theorem gotoPath_root {d : Disk} (g : Geo d) {p : Bytes} (a : RootArg p) :
    gotoPath p d = (match buildFiles d.labelFiles (dirOfBytes (rootBuf d)) with
      | .error e => .error e
      | .ok files => match files.lookup (keyOf p) with
        | none => .error .fileNotFound
        | some fi => .ok (some FInfo.root, fi), d) := by
  unfold gotoPath
  simp only [M_bind_apply, getRootDir_eq g, M.lift, normalizePath_root a]
  have hne : ¬ ([upper p] = [[]]) := by
    intro e
    injection e with e
    have := congrArg List.length e
    rw [upper_length] at this
    exact a.ne (List.length_eq_zero_iff.mp this)
  simp only [hne, if_false, M_bind_apply, buildFilesM]
  cases hb : buildFiles d.labelFiles (dirOfBytes (rootBuf d)) with
  | error e => rfl
  | ok files =>
    simp only []
    unfold gotoLoop
    have hw : ((upper p).contains 42 || (upper p).contains 63) = false := by
      have h1 := a.noStar; have h2 := a.noQ
      have h1' : 42 ∉ upper p := fun h => h1 ((mem_upper_iff (by omega) (by omega) p).mp h)
      have h2' : 63 ∉ upper p := fun h => h2 ((mem_upper_iff (by omega) (by omega) p).mp h)
      simp [h1', h2']
    simp only [List.isEmpty_nil, hw, Bool.and_false, Bool.false_eq_true, if_false, getFile_root]
    cases files.lookup (keyOf p) with
    | none => rfl
    | some fi => simp [M_pure_apply]

/-! ## the root directory as a list of entries, sector by sector -/

theorem setIfInBounds_same {α : Type} {a : Array α} {i : Nat} {v : α} (h : a[i]? = some v) : a.setIfInBounds i v = a := by
  apply Array.ext
  · simp
  · intro j h1 h2
    rw [Array.getElem_setIfInBounds]
    split
    · rename_i e
      subst e
      rw [Array.getElem?_eq_getElem h2] at h
      injection h with h
      exact h.symm
    · rfl

/-- the sectors of the root directory -/
def rootSecsOf (d : Disk) : List Bytes := (List.range d.bpb.rootDirSecs).map (fun k => d.raw.units.getD (d.bpb.rootBeg + k) [])

theorem rootSec_inImg {d : Disk} (g : Geo d) {k : Nat} (hk : k < d.bpb.rootDirSecs) :
    d.bpb.rootBeg + k < d.bpb.totSec ∧ d.bpb.rootBeg + k < d.raw.units.size := by
  have := g.fits
  unfold Bpb.firstDataSec at this
  unfold Bpb.rootBeg
  omega

theorem rootSecsOf_allLen {d : Disk} (g : Geo d) : AllLen 512 (rootSecsOf d) := by
  intro x hx
  unfold rootSecsOf at hx
  obtain ⟨k, hk, rfl⟩ := List.mem_map.mp hx
  have hk' : k < d.bpb.rootDirSecs := by simpa using hk
  have hs := (rootSec_inImg g hk').2
  simp only [Array.getD, hs, dite_true]
  exact g.usz _ hs

theorem rootBuf_len {d : Disk} (g : Geo d) : (rootBuf d).length = 512 * d.bpb.rootDirSecs := by
  have : rootBuf d = (rootSecsOf d).flatten := rfl
  rw [this, flatten_length_of (rootSecsOf_allLen g)]
  simp [rootSecsOf]

/-- the entry list of the root: all entries are 32 bytes, 16 per sector, and they make up the buffer -/
theorem rootEntries_spec {d : Disk} (g : Geo d) :
    AllLen 32 (dirOfBytes (rootBuf d)) ∧ (dirOfBytes (rootBuf d)).length = 16 * d.bpb.rootDirSecs ∧
      (dirOfBytes (rootBuf d)).flatten = rootBuf d := by
  have hl := rootBuf_len g
  obtain ⟨h1, h2, h3⟩ := dirOfBytes_spec (buf := rootBuf d) (by rw [hl]; omega)
  refine ⟨h1, ?_, h3⟩
  rw [h2, hl]; omega

/-- the state after `writeback_directory_entry` of root entry `idx` -/
def rootSector (d : Disk) (idx : Nat) (e' : Bytes) : Bytes :=
  quantize ((((dirOfBytes (rootBuf d)).set idx e').drop (idx / 16 * 16)).take 16).flatten d.raw.unitLen

def rootWrite (d : Disk) (idx : Nat) (e' : Bytes) : Disk :=
  { d with raw := { d.raw with units := d.raw.units.setIfInBounds (d.bpb.rootBeg + idx / 16) (rootSector d idx e') } }

theorem rootGeo_of {d : Disk} (g : Geo d) {idx : Nat} (hi : idx < (dirOfBytes (rootBuf d)).length) :
    RootGeo d idx (dirOfBytes (rootBuf d)).length := by
  have hl := (rootEntries_spec g).2.1
  have hk : idx / 16 < d.bpb.rootDirSecs := by omega
  have ⟨h1, h2⟩ := rootSec_inImg g hk
  exact { bps := g.bps, spt := g.spt, heads := g.heads, hidx := hi, whole := by omega, chs := g.chs _ h1, inImg := h2 }

theorem writebackRoot_eq {d : Disk} (g : Geo d) {idx : Nat} (hi : idx < (dirOfBytes (rootBuf d)).length) (e' : Bytes) :
    writebackDirectoryEntry none idx (dirOfBytes (rootBuf d)) e' d = (.ok (), rootWrite d idx e') := by
  have rg := rootGeo_of g hi
  have hset : dirSet (dirOfBytes (rootBuf d)) idx e' = .ok ((dirOfBytes (rootBuf d)).set idx e') := by simp [dirSet, hi]
  have hraw : rawEntries ((dirOfBytes (rootBuf d)).set idx e') ((d.bpb.rootBeg + idx / 16 - d.bpb.rootBeg) * 16) 16 =
      .ok ((((dirOfBytes (rootBuf d)).set idx e').drop (idx / 16 * 16)).take 16).flatten := by
    have e : d.bpb.rootBeg + idx / 16 - d.bpb.rootBeg = idx / 16 := by omega
    have := rg.whole
    simp [rawEntries, e, this]
  have hchs : getChs d (d.bpb.rootBeg + idx / 16) = .ok (d.bpb.rootBeg + idx / 16) := by
    have h1 := rg.spt; have h2 := rg.heads; have h3 := rg.chs
    unfold getChs Raw.count
    simp [h1, h2]
    omega
  have hin := rg.inImg
  have hbps : d.bpb.secSize / entrySize = 16 := by simp [Bpb.secSize, g.bps, entrySize]
  have h16 : ¬ (16 = 0) := by omega
  unfold writebackDirectoryEntry
  simp only [M_bind_apply, M.get, M.lift, hset, hbps]
  simp only [h16, if_false, M_bind_apply, M.lift, hraw]
  unfold writeSector
  simp only [M_bind_apply, M.get, M.lift, hchs, imgWriteSector, hin, if_true, M.setRaw]
  rfl

theorem writebackRoot_any {d : Disk} (g : Geo d) {idx : Nat} {dir : Directory} (hi : idx < dir.length)
    (hw : idx / 16 * 16 + 16 ≤ dir.length) (hs : idx / 16 < d.bpb.rootDirSecs) (e' : Bytes) :
    writebackDirectoryEntry none idx dir e' d = (.ok (), { d with raw := { d.raw with units :=
      (d.raw.units.setIfInBounds (d.bpb.rootBeg + idx / 16)
        (quantize (((dir.set idx e').drop (idx / 16 * 16)).take 16).flatten d.raw.unitLen)) } }) := by
  obtain ⟨hin1, hin⟩ := rootSec_inImg g hs
  have hset : dirSet dir idx e' = .ok (dir.set idx e') := by simp [dirSet, hi]
  have hraw : rawEntries (dir.set idx e') ((d.bpb.rootBeg + idx / 16 - d.bpb.rootBeg) * 16) 16 =
      .ok (((dir.set idx e').drop (idx / 16 * 16)).take 16).flatten := by
    have e : d.bpb.rootBeg + idx / 16 - d.bpb.rootBeg = idx / 16 := by omega
    simp [rawEntries, e, hw]
  have hchs : getChs d (d.bpb.rootBeg + idx / 16) = .ok (d.bpb.rootBeg + idx / 16) := getChs_ok g hin1
  have hbps : d.bpb.secSize / entrySize = 16 := by simp [Bpb.secSize, g.bps, entrySize]
  have h16 : ¬ (16 = 0) := by omega
  unfold writebackDirectoryEntry
  simp only [M_bind_apply, M.get, M.lift, hset, hbps]
  simp only [h16, if_false, M_bind_apply, M.lift, hraw]
  unfold writeSector
  simp only [M_bind_apply, M.get, M.lift, hchs, imgWriteSector, hin, if_true, M.setRaw]

/-- sector `k` of the root directory is the `k`-th group of 16 entries -/
theorem rootSec_eq_group {d : Disk} (g : Geo d) {k : Nat} (hk : k < d.bpb.rootDirSecs) :
    d.raw.units.getD (d.bpb.rootBeg + k) [] = (((dirOfBytes (rootBuf d)).drop (16 * k)).take 16).flatten := by
  obtain ⟨h1, h2, h3⟩ := rootEntries_spec g
  rw [flatten_window _ _ _ h1, h3]
  have hS : rootBuf d = (rootSecsOf d).flatten := rfl
  have hw := flatten_window (rootSecsOf d) k 1 (rootSecsOf_allLen g)
  have e1 : 32 * (16 * k) = 512 * k := by omega
  have e2 : 32 * 16 = 512 * 1 := by omega
  rw [e1, e2, hS, ← hw]
  have hlen : (rootSecsOf d).length = d.bpb.rootDirSecs := by simp [rootSecsOf]
  have : (rootSecsOf d).drop k = (rootSecsOf d)[k]'(by omega) :: (rootSecsOf d).drop (k + 1) := by
    rw [List.drop_eq_getElem_cons]
  rw [this]
  simp [rootSecsOf]

theorem rootSector_len {d : Disk} (g : Geo d) {idx : Nat} (hi : idx < (dirOfBytes (rootBuf d)).length) {e' : Bytes} (he : e'.length = 32) :
    rootSector d idx e' = ((((dirOfBytes (rootBuf d)).set idx e').drop (idx / 16 * 16)).take 16).flatten ∧
      (rootSector d idx e').length = 512 := by
  obtain ⟨h1, h2, _⟩ := rootEntries_spec g
  have hA : AllLen 32 (((dirOfBytes (rootBuf d)).set idx e').drop (idx / 16 * 16) |>.take 16) := by
    intro x hx
    exact (h1.set idx he) x (List.mem_of_mem_drop (List.mem_of_mem_take hx))
  have hl : ((((dirOfBytes (rootBuf d)).set idx e').drop (idx / 16 * 16)).take 16).flatten.length = 512 := by
    rw [flatten_length_of hA]
    simp
    omega
  unfold rootSector quantize
  rw [g.ulen, if_pos hl]
  exact ⟨rfl, hl⟩

/-- **the write-back of a root entry replaces exactly that entry** -/
theorem rootWrite_entries {d : Disk} (g : Geo d) {idx : Nat} (hi : idx < (dirOfBytes (rootBuf d)).length) {e' : Bytes} (he : e'.length = 32) :
    dirOfBytes (rootBuf (rootWrite d idx e')) = (dirOfBytes (rootBuf d)).set idx e' := by
  obtain ⟨h1, h2, _⟩ := rootEntries_spec g
  have hE' : AllLen 32 ((dirOfBytes (rootBuf d)).set idx e') := h1.set idx he
  have hsec := (rootSector_len g hi he).1
  have hbuf : rootBuf (rootWrite d idx e') = ((dirOfBytes (rootBuf d)).set idx e').flatten := by
    rw [← flatten_groups d.bpb.rootDirSecs _ (by simp [h2])]
    show ((List.range d.bpb.rootDirSecs).map (fun k => (rootWrite d idx e').raw.units.getD (d.bpb.rootBeg + k) [])).flatten = _
    congr 1
    apply List.map_congr_left
    intro k hk
    have hk' : k < d.bpb.rootDirSecs := List.mem_range.mp hk
    have hs := (rootSec_inImg g hk').2
    simp only [rootWrite, Array.getD_eq_getD_getElem?, Array.getElem?_setIfInBounds]
    by_cases hkj : k = idx / 16
    · subst hkj
      have hs' := (rootSec_inImg g (by omega : idx / 16 < d.bpb.rootDirSecs)).2
      simp only [if_true, hs', Option.getD_some]
      rw [hsec, Nat.mul_comm]
    · have hne : ¬ (d.bpb.rootBeg + idx / 16 = d.bpb.rootBeg + k) := by omega
      simp only [hne, if_false]
      have hgrp := rootSec_eq_group g hk'
      rw [Array.getD_eq_getD_getElem?] at hgrp
      rw [hgrp, window_set_other _ idx (16 * k) 16 e' (by omega)]
  rw [hbuf, dirOfBytes_flatten hE']

theorem rootWrite_units {d : Disk} (idx : Nat) (e' : Bytes) {u : Nat} (h : u ≠ d.bpb.rootBeg + idx / 16) :
    (rootWrite d idx e').raw.units[u]? = d.raw.units[u]? := by
  simp only [rootWrite, Array.getElem?_setIfInBounds]
  have : ¬ (d.bpb.rootBeg + idx / 16 = u) := fun e => h e.symm
  simp [this]

theorem rootWrite_geo {d : Disk} (g : Geo d) {idx : Nat} (hi : idx < (dirOfBytes (rootBuf d)).length) {e' : Bytes} (he : e'.length = 32) :
    Geo (rootWrite d idx e') := by
  have hl := (rootEntries_spec g).2.1
  have hsl := (rootSector_len g hi he).2
  obtain ⟨s0, hs0, hb⟩ := g.boot
  have hr := g.rsvd
  refine { boot := ⟨s0, ?_, hb⟩, ulen := g.ulen, usz := ?_, bps := g.bps, spc := g.spc, nfat := g.nfat, fat16 := g.fat16, spt := g.spt,
           heads := g.heads, typ := g.typ, ftyp := g.ftyp, rsvd := g.rsvd, fits := ?_, chs := ?_ }
  · rw [rootWrite_units idx e' (by unfold Bpb.rootBeg; omega)]; exact hs0
  · intro i h
    have hsz : (rootWrite d idx e').raw.units.size = d.raw.units.size := by simp [rootWrite]
    have hi' : i < d.raw.units.size := by rw [hsz] at h; exact h
    have hget : (rootWrite d idx e').raw.units[i]? = some ((rootWrite d idx e').raw.units[i]) := Array.getElem?_eq_getElem h
    by_cases hc : i = d.bpb.rootBeg + idx / 16
    · have : (rootWrite d idx e').raw.units[i]? = some (rootSector d idx e') := by
        simp only [rootWrite, Array.getElem?_setIfInBounds]
        simp [hc.symm, hi']
      rw [hget] at this
      injection this with this
      rw [this]; exact hsl
    · rw [rootWrite_units idx e' hc, Array.getElem?_eq_getElem hi'] at hget
      injection hget with hget
      rw [← hget]; exact g.usz i hi'
  · simpa [rootWrite] using g.fits
  · simpa [rootWrite] using g.chs

theorem rootWrite_coh {d : Disk} {f : Array Nat} (c : Coh d f) (idx : Nat) (e' : Bytes) : Coh (rootWrite d idx e') f := by
  refine { isOpen := c.isOpen, size := c.size, bytes := c.bytes, copies := ?_ }
  intro k j (hk : k < d.bpb.nfat) (hj : j < d.bpb.fatSecs)
  have hlt : d.bpb.rsvd + k * d.bpb.fatSecs + j < d.bpb.rootBeg := by
    unfold Bpb.rootBeg
    have : (k + 1) * d.bpb.fatSecs ≤ d.bpb.nfat * d.bpb.fatSecs := Nat.mul_le_mul_right _ hk
    rw [Nat.add_mul] at this
    omega
  show (rootWrite d idx e').raw.units[d.bpb.rsvd + k * d.bpb.fatSecs + j]? = _
  rw [rootWrite_units idx e' (by omega)]
  exact c.copies k j hk hj

/-- the reading function of the written state is that of the old state -/
theorem rootWrite_readFrom {d : Disk} {f : Array Nat} (g : Geo d) {idx : Nat} (hi : idx < (dirOfBytes (rootBuf d)).length) (e' : Bytes) (buf : Bytes) :
    readFrom (rootWrite d idx e') f buf = readFrom d f buf := by
  have hl := (rootEntries_spec g).2.1
  unfold readFrom
  have hcd : Read.Fat.clusterData (rootWrite d idx e').raw (rbpb d.bpb) = Read.Fat.clusterData d.raw (rbpb d.bpb) := by
    apply clusterData_congr
    intro i hi'
    rw [firstData_eq g] at hi'
    apply rootWrite_units
    unfold Bpb.firstDataSec at hi'
    unfold Bpb.rootBeg
    omega
  have : (rootWrite d idx e').bpb = d.bpb := rfl
  rw [this, readDirT_congr hcd]

/-! ## the flush of a coherent state changes nothing -/

theorem fatSector_eq (f : Array Nat) (j : Nat) : (f.extract (j * 512) (j * 512 + 512)).toList = fatSector f j := by
  rw [Array.toList_extract, List.extract_eq_take_drop]
  unfold fatSector
  congr 1
  omega

theorem fatSector_len {f : Array Nat} {n j : Nat} (hs : f.size = n * 512) (hj : j < n) : (fatSector f j).length = 512 := by
  unfold fatSector
  simp
  have : (j + 1) * 512 ≤ n * 512 := Nat.mul_le_mul_right 512 hj
  rw [Nat.add_mul] at this
  omega

theorem wbLoop_noop {d : Disk} {f : Array Nat} (g : Geo d) (c : Coh d f) : ∀ (l : List (Nat × Nat)),
    (∀ x ∈ l, ∃ k j, k < d.bpb.nfat ∧ j < d.bpb.fatSecs ∧ x = (d.bpb.rsvd + k * d.bpb.fatSecs + j, j * 512)) →
    wbLoop f l d = (.ok (), d) := by
  intro l
  induction l with
  | nil => intro _; rfl
  | cons x t ih =>
    intro h
    obtain ⟨k, j, hk, hj, rfl⟩ := h x (by simp)
    have hcopy := c.copies k j hk hj
    have hlt : d.bpb.rsvd + k * d.bpb.fatSecs + j < d.bpb.totSec := by
      have := g.fits
      unfold Bpb.firstDataSec at this
      have h2 : (k + 1) * d.bpb.fatSecs ≤ d.bpb.nfat * d.bpb.fatSecs := Nat.mul_le_mul_right _ hk
      rw [Nat.add_mul] at h2
      omega
    have hin : d.bpb.rsvd + k * d.bpb.fatSecs + j < d.raw.units.size := by have := g.fits; omega
    have hoff : ¬ (j * 512 > f.size) := by
      rw [c.size]
      have : j * 512 ≤ d.bpb.fatSecs * 512 := Nat.mul_le_mul_right 512 (Nat.le_of_lt hj)
      omega
    have hq : quantize (f.extract (j * 512) (j * 512 + d.raw.unitLen)).toList d.raw.unitLen = fatSector f j := by
      rw [g.ulen, fatSector_eq]
      unfold quantize
      rw [if_pos (fatSector_len c.size hj)]
    unfold wbLoop
    simp only [M_bind_apply, M.get, M.lift, getChs_ok g hlt, hoff, if_false, imgWriteSector, hin, if_true, hq, M.setRaw]
    rw [setIfInBounds_same hcopy]
    exact ih (fun y hy => h y (by simp [hy]))

theorem flush_noop {d : Disk} {f : Array Nat} (g : Geo d) (c : Coh d f) : flush d = (.ok (), d) := by
  unfold flush writebackFatBuffer
  simp only [M_bind_apply, M.get, c.isOpen]
  apply wbLoop_noop g c
  intro x hx
  simp only [List.mem_flatMap, List.mem_map, List.mem_range] at hx
  obtain ⟨k, hk, j, hj, rfl⟩ := hx
  exact ⟨k, j, hk, hj, by simp [Bpb.resSecs, Bpb.secSize, g.bps]⟩

end A2Verif.FsFat
