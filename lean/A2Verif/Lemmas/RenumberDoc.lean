import A2Verif.Lemmas.RenumberRows
/-!
Part 9 (C16): documents whose last line is not terminated, and the CRLF wrapper of `apply_edits`.
-/
namespace A2Verif.Lemmas.Renumber
open A2Verif.Model.Renumber

/-- `d` is the LF text of the rows `ls` (no `\r`, no `\n` inside a row); `t`: the text ends with `\n`.
Without a final `\n` the last row is not empty (otherwise `str::lines` would not see it). -/
def IsDoc (d : List Nat) (ls : List (List Nat)) (t : Bool) : Prop :=
  (∀ l ∈ ls, NoNl l) ∧
    (if t then d = joinT ls else d ++ [10] = joinT ls ∧ ∃ pre last, ls = pre ++ [last] ∧ last ≠ [])

theorem splitLines_noNl (l : List Nat) (h : NoNl l) (hne : l ≠ []) : splitLines l = [l] := by
  induction l with
  | nil => exact absurd rfl hne
  | cons c cs ih =>
    have hc := h c (by simp)
    rw [splitLines_cons_of_ne c cs hc.1 hc.2]
    cases cs with
    | nil => simp [splitLines]
    | cons c' cs' =>
      rw [ih (fun d hd => h d (by simp [hd])) (by simp)]

theorem splitLines_joinT_append (pre : List (List Nat)) (rest : List Nat) (h : ∀ l ∈ pre, NoNl l) :
    splitLines (joinT pre ++ rest) = pre ++ splitLines rest := by
  induction pre with
  | nil => simp [joinT]
  | cons l ls ih =>
    have : joinT (l :: ls) ++ rest = l ++ 10 :: (joinT ls ++ rest) := by simp [joinT]
    rw [this, splitLines_line l _ (h l (by simp)), ih (fun l' hl' => h l' (by simp [hl']))]
    rfl

theorem joinT_append (a b : List (List Nat)) : joinT (a ++ b) = joinT a ++ joinT b := by simp [joinT]

theorem splitLines_isDoc {d : List Nat} {ls : List (List Nat)} {t : Bool} (h : IsDoc d ls t) :
    splitLines d = ls := by
  obtain ⟨hn, h2⟩ := h
  cases t with
  | true => simp only [↓reduceIte] at h2; rw [h2]; exact splitLines_joinT ls hn
  | false =>
    simp only [Bool.false_eq_true, ↓reduceIte] at h2
    obtain ⟨hd, pre, last, rfl, hne⟩ := h2
    have : d = joinT pre ++ last := by
      have : d ++ [10] = (joinT pre ++ last) ++ [10] := by rw [hd, joinT_append]; simp [joinT]
      exact List.append_cancel_right this
    rw [this, splitLines_joinT_append pre last (fun l hl => hn l (by simp [hl])),
      splitLines_noNl last (hn last (by simp)) hne]

theorem crlfToLf_noNl (new : List Nat) (hnew : NoNl new) : crlfToLf new = new := by
  induction new with
  | nil => rfl
  | cons c cs ih =>
    have hc := hnew c (by simp)
    rw [crlfToLf.eq_3 c cs (fun _ h' _ => hc.2 h'), ih (fun d hd => hnew d (by simp [hd]))]

/-- `replace_range` on any text whose `lines()` are `ls`, for a range on row `r` -/
theorem replaceRange_lines (d : List Nat) (ls : List (List Nat)) (hs : splitLines d = ls) (r s e : Nat)
    (new : List Nat) (hr : r < ls.length) (hnew : NoNl new) :
    replaceRange d ⟨⟨r, s⟩, ⟨r, e⟩⟩ new =
      if (joinT (ls.take r)).length + s ≤ (joinT (ls.take r)).length + e ∧
          (joinT (ls.take r)).length + e ≤ d.length then
        .ok (d.take ((joinT (ls.take r)).length + s) ++ new ++ d.drop ((joinT (ls.take r)).length + e))
      else .panic := by
  unfold replaceRange
  simp only [hs, crlfToLf_noNl new hnew]
  rw [scan_row ⟨⟨r, s⟩, ⟨r, e⟩⟩ ls 0 0 0 r (by simp) (by simp) hr]
  simp only [Nat.zero_add, Bool.and_self, ↓reduceIte]

theorem joinT_length_split (ls : List (List Nat)) (r : Nat) (l : List Nat) (hr : ls[r]? = some l) :
    (joinT ls).length = (joinT (ls.take r)).length + (l.length + 1 + (joinT (ls.drop (r + 1))).length) := by
  have hsplit : ls = ls.take r ++ l :: ls.drop (r + 1) := by
    obtain ⟨_, hl⟩ := List.getElem?_eq_some_iff.mp hr
    rw [← hl]; simp
  conv => lhs; rw [hsplit]
  simp [joinT]; omega

theorem replace1_ne_nil (l : List Nat) (x : E1) (h : x.new ≠ []) : replace1 l x ≠ [] := by
  simp [replace1, h]

/-- one valid edit with a non-empty replacement keeps the document shape -/
theorem isDoc_step {d : List Nat} {ls : List (List Nat)} {t : Bool} (hd : IsDoc d ls t) {ed : Edit}
    (hon : EditOn ls ed) (hne : ed.new ≠ []) :
    ∃ d', replaceRange d ⟨⟨ed.rng.s.line, ed.rng.s.ch⟩, ⟨ed.rng.s.line, ed.rng.e.ch⟩⟩ ed.new = .ok d' ∧
      IsDoc d' (rowsStep ls ed) t := by
  obtain ⟨hline, hn, l, hl, hse, hel⟩ := hon
  have hnl := hd.1
  have hrs : rowsStep ls ed = ls.set ed.rng.s.line (replace1 l ⟨ed.rng.s.ch, ed.rng.e.ch, ed.new⟩) := by
    unfold rowsStep; rw [hl]; rfl
  have hnl' : ∀ l' ∈ rowsStep ls ed, NoNl l' := noNl_rowsStep ls hnl ed hn
  have hJ := replaceRange_row ls hnl ed.rng.s.line ed.rng.s.ch ed.rng.e.ch ed.new hn l hl hse hel
  cases t with
  | true =>
    have h2 : d = joinT ls := by simpa [IsDoc] using hd.2
    subst h2
    exact ⟨_, hJ, hnl', by simp [hrs]⟩
  | false =>
    obtain ⟨hdJ, pre, last, hls, hlast⟩ : d ++ [10] = joinT ls ∧ ∃ pre last, ls = pre ++ [last] ∧ last ≠ [] := by
      simpa [IsDoc] using hd.2
    have hrl : ed.rng.s.line < ls.length := by
      rcases Nat.lt_or_ge ed.rng.s.line ls.length with h' | h'
      · exact h'
      · rw [List.getElem?_eq_none h'] at hl; cases hl
    -- the same computation on `d` and on `d ++ [10] = joinT ls`
    have hlen := joinT_length_split ls _ l hl
    have hdl : d.length + 1 = (joinT ls).length := by rw [← hdJ]; simp
    have fJ := replaceRange_lines (joinT ls) ls (splitLines_joinT ls hnl) ed.rng.s.line ed.rng.s.ch ed.rng.e.ch
      ed.new hrl hn
    have fd := replaceRange_lines d ls (splitLines_isDoc hd) ed.rng.s.line ed.rng.s.ch ed.rng.e.ch ed.new hrl hn
    generalize hP : (joinT (ls.take ed.rng.s.line)).length = P at *
    rw [if_pos (by omega)] at fJ fd
    rw [hJ] at fJ
    injection fJ with fJ
    refine ⟨_, fd, hnl', ?_⟩
    simp only [Bool.false_eq_true, ↓reduceIte]
    constructor
    · rw [hrs, fJ, ← hdJ]
      rw [List.take_append_of_le_length (by omega), List.drop_append_of_le_length (by omega)]
      simp
    · rw [hrs, hls]
      have hx : replace1 l ⟨ed.rng.s.ch, ed.rng.e.ch, ed.new⟩ ≠ [] := replace1_ne_nil _ _ hne
      rw [List.set_append]
      split
      · exact ⟨_, last, rfl, hlast⟩
      · rename_i hge
        have : ed.rng.s.line - pre.length = 0 := by
          rw [hls] at hrl; simp at hrl; omega
        rw [this]
        exact ⟨pre, _, rfl, hx⟩

/-- the loop of `apply_edits` on a document (with or without final newline) -/
theorem applyLoop_doc {d : List Nat} {ls : List (List Nat)} {t : Bool} (hd : IsDoc d ls t) (es : List Edit)
    (hv : ValidSeq ls es) (hne : ∀ ed ∈ es, ed.new ≠ []) :
    ∃ d', applyLoop 0 es d = .ok d' ∧ IsDoc d' (es.foldl rowsStep ls) t ∧
      (es.foldl rowsStep ls).length = ls.length := by
  induction hv generalizing d with
  | nil ls => exact ⟨d, rfl, hd, rfl⟩
  | @cons ls ed es hon _ ih =>
    obtain ⟨d1, h1, hd1⟩ := isDoc_step hd hon (hne ed (by simp))
    obtain ⟨d', h2, hd', hlen⟩ := ih hd1 (fun x hx => hne x (List.mem_cons_of_mem _ hx))
    refine ⟨d', ?_, hd', ?_⟩
    · simp only [applyLoop, Nat.not_lt_zero, or_self, ↓reduceIte, Nat.sub_zero, hon.1, h1, Res.bind]
      exact h2
    · simp only [List.foldl_cons]
      rw [hlen]; unfold rowsStep; rw [List.length_set]

/-! the CRLF wrapper -/

def NoCR (d : List Nat) : Prop := ∀ c ∈ d, c ≠ 13

theorem mem_joinT {c : Nat} {ls : List (List Nat)} (h : c ∈ joinT ls) : c = 10 ∨ ∃ l ∈ ls, c ∈ l := by
  simp only [joinT, List.mem_flatMap, List.mem_append, List.mem_singleton] at h
  obtain ⟨l, hl, hc | hc⟩ := h
  · exact Or.inr ⟨l, hl, hc⟩
  · exact Or.inl hc

theorem noCR_isDoc {d : List Nat} {ls : List (List Nat)} {t : Bool} (h : IsDoc d ls t) : NoCR d := by
  have key : ∀ c ∈ joinT ls, c ≠ 13 := by
    intro c hc
    rcases mem_joinT hc with rfl | ⟨l, hl, hcl⟩
    · decide
    · exact (h.1 l hl c hcl).2
  cases t with
  | true => have : d = joinT ls := by simpa [IsDoc] using h.2
            subst this; exact key
  | false =>
    have h2 : d ++ [10] = joinT ls := by
      have := h.2; simp only [Bool.false_eq_true, ↓reduceIte] at this; exact this.1
    intro c hc
    exact key c (by rw [← h2]; simp [hc])

theorem crlfToLf_noCR (d : List Nat) (h : NoCR d) : crlfToLf d = d := by
  induction d with
  | nil => rfl
  | cons c cs ih =>
    rw [crlfToLf.eq_3 c cs (fun _ h' _ => h c (by simp) h'), ih (fun x hx => h x (by simp [hx]))]

theorem crlfToLf_lfToCrlf (d : List Nat) (h : NoCR d) : crlfToLf (lfToCrlf d) = d := by
  induction d with
  | nil => rfl
  | cons c cs ih =>
    have ih' := ih (fun x hx => h x (by simp [hx]))
    unfold lfToCrlf
    split
    · rename_i hc; subst hc
      rw [crlfToLf.eq_2, ih']
    · rw [crlfToLf.eq_3 c _ (fun _ h' _ => h c (by simp) h'), ih']

theorem countCrlf_noCR (d : List Nat) (h : NoCR d) : countCrlf d = 0 := by
  induction d with
  | nil => rfl
  | cons c cs ih =>
    rw [countCrlf.eq_3 c cs (fun _ h' _ => h c (by simp) h'), ih (fun x hx => h x (by simp [hx]))]

theorem counts_lfToCrlf (d : List Nat) (h : NoCR d) :
    countCrlf (lfToCrlf d) = countLf d ∧ countLf (lfToCrlf d) = countLf d := by
  induction d with
  | nil => exact ⟨rfl, rfl⟩
  | cons c cs ih =>
    obtain ⟨i1, i2⟩ := ih (fun x hx => h x (by simp [hx]))
    unfold lfToCrlf
    split
    · rename_i hc; subst hc
      rw [countCrlf.eq_2]
      simp only [countLf, i1, i2]
      constructor <;> simp <;> omega
    · rename_i hc
      rw [countCrlf.eq_3 c _ (fun _ h' _ => h c (by simp) h')]
      simp only [countLf, hc, ↓reduceIte, i1, i2]
      simp

theorem countLf_append (a b : List Nat) : countLf (a ++ b) = countLf a + countLf b := by
  induction a with
  | nil => simp [countLf]
  | cons c cs ih => simp only [List.cons_append, countLf, ih]; omega

theorem countLf_noNl (l : List Nat) (h : NoNl l) : countLf l = 0 := by
  induction l with
  | nil => rfl
  | cons c cs ih =>
    simp only [countLf, (h c (by simp)).1, ↓reduceIte, ih (fun x hx => h x (by simp [hx]))]

theorem countLf_joinT (ls : List (List Nat)) (h : ∀ l ∈ ls, NoNl l) : countLf (joinT ls) = ls.length := by
  induction ls with
  | nil => rfl
  | cons l ls ih =>
    have : joinT (l :: ls) = l ++ ([10] ++ joinT ls) := by simp [joinT]
    rw [this, countLf_append, countLf_append, countLf_noNl l (h l (by simp)),
      ih (fun l' hl' => h l' (by simp [hl'])) ]
    simp [countLf]; omega

theorem countLf_isDoc {d : List Nat} {ls : List (List Nat)} {t : Bool} (h : IsDoc d ls t) :
    countLf d + (if t then 0 else 1) = ls.length := by
  have hj := countLf_joinT ls h.1
  cases t with
  | true => have : d = joinT ls := by simpa [IsDoc] using h.2
            subst this; simpa using hj
  | false =>
    have h2 : d ++ [10] = joinT ls := by
      have := h.2; simp only [Bool.false_eq_true, ↓reduceIte] at this; exact this.1
    rw [← h2, countLf_append] at hj
    simpa [countLf] using hj

theorem lfToCrlf_of_countLf_zero (x : List Nat) (h : countLf x = 0) : lfToCrlf x = x := by
  induction x with
  | nil => rfl
  | cons c cs ih =>
    simp only [countLf] at h
    have hc : ¬ c = 10 := by intro hc; simp [hc] at h
    simp only [hc, ↓reduceIte, Nat.zero_add] at h
    simp only [lfToCrlf, hc, ↓reduceIte, ih h]

/-- **`apply_edits` on a document.**  `src` is the LF document `d` of rows `ls`, or its CRLF form.  If the
edits, in the order `apply_edits` applies them, are a `ValidSeq` with non-empty replacements, the result is the
document of the row-wise edited rows, with the same line separator and the same final-newline state. -/
theorem applyEdits_doc {d : List Nat} {ls : List (List Nat)} {t : Bool} (hd : IsDoc d ls t) (crlf : Bool)
    (es : List Edit) (hv : ValidSeq ls (sortDesc es)) (hne : ∀ ed ∈ sortDesc es, ed.new ≠ []) :
    ∃ d', applyEdits (if crlf then lfToCrlf d else d) es 0 = .ok (if crlf then lfToCrlf d' else d') ∧
      IsDoc d' ((sortDesc es).foldl rowsStep ls) t ∧
      ((sortDesc es).foldl rowsStep ls).length = ls.length := by
  obtain ⟨d', hloop, hd', hlen⟩ := applyLoop_doc hd (sortDesc es) hv hne
  refine ⟨d', ?_, hd', hlen⟩
  have hcr := noCR_isDoc hd
  unfold applyEdits
  cases crlf with
  | true =>
    simp only [↓reduceIte, crlfToLf_lfToCrlf d hcr, hloop, Res.bind]
    have := counts_lfToCrlf d hcr
    simp [this.1, this.2]
  | false =>
    simp only [Bool.false_eq_true, ↓reduceIte, crlfToLf_noCR d hcr, hloop, Res.bind, countCrlf_noCR d hcr]
    by_cases h0 : countLf d = 0
    · have c1 := countLf_isDoc hd
      have c2 := countLf_isDoc hd'
      have : countLf d' = 0 := by omega
      simp [h0, lfToCrlf_of_countLf_zero d' this]
    · have : (0 == countLf d) = false := by simp; omega
      simp [this]

end A2Verif.Lemmas.Renumber
