import A2Verif.Lemmas.FsCpmPutAbs3
/-!
# Successful `put` refines the abstract `put`: the reading of the new file, `stepOk`

From the context `PutCtx` (the characterisation of the saved directory, `FsCpmPutSpec.PutFacts`): every old file reads as
before (its entries, its data blocks and its password entry are untouched), the listing gains exactly one record, and that
record is the stored file: path `canon fullPath`, the stored chunks at their indices (zero-padded to the block size), the
length `eofRule eof`, blocks taken from the free ones.
-/
namespace A2Verif.FsCpm
open A2Verif.Fs.Cpm
open A2Verif.Read.Cpm (Dpb fileKey extNum entryPtrs pathOf slots trimR)

/-! ## small facts -/

theorem lastOf_max : ∀ (es : List Bytes) (e : Bytes), e ∈ es → extNum e ≤ extNum (lastOf es) := by
  have key : ∀ (l : List Bytes) (b : Bytes),
      extNum b ≤ extNum (List.foldl (fun best e => if extNum e ≥ extNum best then e else best) b l) ∧
      ∀ e ∈ l, extNum e ≤ extNum (List.foldl (fun best e => if extNum e ≥ extNum best then e else best) b l) := by
    intro l
    induction l with
    | nil => intro b; exact ⟨Nat.le_refl _, fun e he => by cases he⟩
    | cons x xs ih =>
      intro b
      rw [List.foldl_cons]
      by_cases cx : extNum x ≥ extNum b
      · rw [if_pos cx]
        obtain ⟨i1, i2⟩ := ih x
        refine ⟨by omega, fun e he => ?_⟩
        rcases List.mem_cons.1 he with rfl | he
        · exact i1
        · exact i2 e he
      · rw [if_neg cx]
        obtain ⟨i1, i2⟩ := ih b
        refine ⟨i1, fun e he => ?_⟩
        rcases List.mem_cons.1 he with rfl | he
        · omega
        · exact i2 e he
  intro es e he
  cases es with
  | nil => cases he
  | cons e0 rest => exact (key (e0 :: rest) e0).2 e he

theorem lookup_of_mem {α : Type} {l : List (Nat × α)} (nd : (l.map (·.1)).Nodup) {k : Nat} {v : α} (h : (k, v) ∈ l) :
    l.lookup k = some v := by
  obtain ⟨v', hv'⟩ := mem_lookup h
  have hm := lookup_mem hv'
  have : (k, v') = (k, v) := nodup_map_inj (g := fun (x : Nat × α) => x.1) nd hm h rfl
  rw [hv']; cases this; rfl

theorem prefix_quantize {bs : Nat} {c : Bytes} (h : c.length ≤ bs) : c <+: quantize bs c := by
  unfold quantize
  rw [List.take_of_length_le h]
  exact List.prefix_append _ _

theorem mem_nzPtrs {d : Dpb} {e : Bytes} {p k : Nat} : (p, k) ∈ nzPtrs d e ↔ (entryPtrs d e)[k]? = some p ∧ p ≠ 0 := by
  unfold nzPtrs
  rw [List.mem_filter, List.mem_zipIdx_iff_getElem?]
  simp

/-- the path the reader shows for an entry carrying the header of the file `put` stored -/
theorem hdr_path {x name base ext e : Bytes} {u : Nat} (hu : u < 16) (np : NameParts name base ext)
    (hck : canonKey x = decDigits u ++ [58] ++ (upper base ++ [46] ++ upper ext))
    (hh : Hdr u (stringToFileName name).1 (stringToFileName name).2 e) : pathOf e = canon x := by
  have hokB : ∀ c ∈ upper base, okChar c = true := by
    intro c hc
    unfold upper at hc
    rw [List.mem_map] at hc
    obtain ⟨c0, hc0, rfl⟩ := hc
    exact (charOk_facts (np.ok c0 (List.mem_append_left _ hc0))).1
  have hokE : ∀ c ∈ upper ext, okChar c = true := by
    intro c hc
    unfold upper at hc
    rw [List.mem_map] at hc
    obtain ⟨c0, hc0, rfl⟩ := hc
    exact (charOk_facts (np.ok c0 (List.mem_append_right _ hc0))).1
  have hm : ∀ (B : Bytes) (n : Nat), (∀ c ∈ B, okChar c = true) → (padTo n B).map (· % 128) = padTo n B := by
    intro B n hB
    apply map_mod_fix
    intro c hc
    unfold padTo at hc
    rcases List.mem_append.1 hc with hc | hc
    · have := okChar_lt c (hB c (List.mem_of_mem_take hc)); omega
    · rw [List.eq_of_mem_replicate hc]
  have hlb : (upper base).length ≤ 8 := by unfold upper; rw [List.length_map]; exact np.lb
  have hlx : (upper ext).length ≤ 3 := by unfold upper; rw [List.length_map]; exact np.le
  have p1 : padTo 8 (upper base) = upper base ++ List.replicate (8 - (upper base).length) 32 := by
    unfold padTo; rw [List.take_of_length_le hlb]
  have p2 : padTo 3 (upper ext) = upper ext ++ List.replicate (3 - (upper ext).length) 32 := by
    unfold padTo; rw [List.take_of_length_le hlx]
  have hn := hh.name
  have ht := hh.typ
  rw [np.s2fn] at hn ht
  simp only [] at hn ht
  rw [hm _ _ hokB, p1] at hn
  rw [hm _ _ hokE, p2] at ht
  unfold canon
  rw [pathOf_eq (by rw [hh.user]; exact hu), hh.user, hn, ht, hck, pathOfKeyStr_key hu, trimR_pad hokB, trimR_pad hokE]

/-! ## the old files -/

variable {d : Dpb} {r r' sr : Raw} {f : FImg} {user : Nat} {base typ : Bytes} {dir2 : Dir}

/-- a block an old file entry points to holds what it held -/
theorem old_unit (h : Inv d r) (c : PutCtx d r r' sr f user base typ dir2) {e : Bytes} (he : e ∈ fents d r) {p : Nat}
    (hp : p ∈ ownedE d e) : r'.units[p]? = r.units[p]? := by
  rw [c.other p (owned_not_dir h he hp)]
  exact c.pf.frame.2.2 p (Or.inr (owned_sub_used h he hp))

/-- a block `put` allocated holds what the write loop put there -/
theorem new_unit (h : Inv d r) (hr : ResvOk d) (c : PutCtx d r r' sr f user base typ dir2) {p : Nat}
    (hp : NewPtr d (dirOf d r) p) : r'.units[p]? = sr.units[p]? := by
  apply c.other
  have h1 := newPtr_not_dir hr hp
  rw [h.dpb.prefix_, List.mem_range] at h1
  have := h.dpb.cover
  omega

/-- the password entries are untouched -/
theorem pw_same (c : PutCtx d r r' sr f user base typ dir2) {first : Bytes} (h0 : first.getD 0 0 < 16) :
    pwOf dir2 first = pwOf (dirOf d r) first := by
  unfold pwOf
  apply any_pos _ _ _ c.pf.keeps.1
  intro j a b ha hb
  have far : ∀ e : Bytes, (e.getD 0 0 < 16 ∨ 32 ≤ e.getD 0 0) → ¬ (e.getD 0 0 = first.getD 0 0 + 16) := by
    intro e he; omega
  by_cases ca : isExtent a = true
  · by_cases cb : isExtent b = true
    · have := c.pf.keeps.2 j b hb cb
      rw [ha] at this; cases this; rfl
    · have cb' : isExtent b = false := by simpa using cb
      obtain ⟨h32, _⟩ := c.pf.new j b a hb cb' ha ca
      have a1 := far a (Or.inl ((isExtent_iff a).1 ca))
      have b1 := far b (Or.inr h32)
      simp only [a1, b1, false_and, decide_false]
  · have ca' : isExtent a = false := by simpa using ca
    rcases c.pf.other j b a hb ha ca' with rfl | ⟨h1, h2⟩
    · rfl
    · have a1 := far a (Or.inr h2)
      have b1 := far b (Or.inr h1)
      simp only [a1, b1, false_and, decide_false]

/-- every old file reads as before -/
theorem rec_same (h : Inv d r) (c : PutCtx d r r' sr f user base typ dir2) {k : List Nat} (hk : k ∈ keys d r)
    (hne : k ≠ newKey user base typ) : recOf r' d (dirOf d r') (esOf d r' k) = recOf r d (dirOf d r) (esOf d r k) := by
  rw [esOf_same c hne, c.dir']
  apply recOf_congr
  · intro e he p hp
    exact old_unit h c (mem_esOf.1 he).1 hp
  · apply pw_same c
    obtain ⟨e, rest, hes, hm, _⟩ := esOf_head hk
    rw [hes]
    exact (mem_fents.1 hm).2

/-- the listing afterwards: the new record and the old ones -/
theorem files_mem (h : Inv d r) (ha : PutArgsOk d f) (c : PutCtx d r r' sr f user base typ dir2) (g : FileRec) :
    g ∈ (volOf d r').files ↔ g = recOf r' d (dirOf d r') (esOf d r' (newKey user base typ)) ∨ g ∈ (volOf d r).files := by
  show g ∈ filesOf d r' ↔ _ ∨ g ∈ filesOf d r
  unfold filesOf
  simp only [List.mem_map]
  constructor
  · rintro ⟨k, hk, rfl⟩
    by_cases ck : k = newKey user base typ
    · subst ck; exact Or.inl rfl
    · rcases (mem_keys' c ha).1 hk with h1 | hk'
      · exact absurd h1 ck
      · exact Or.inr ⟨k, hk', (rec_same h c hk' ck).symm⟩
  · rintro (rfl | ⟨k, hk, rfl⟩)
    · exact ⟨_, (mem_keys' c ha).2 (Or.inl rfl), rfl⟩
    · have ck : k ≠ newKey user base typ := fun e => c.fresh (e ▸ hk)
      exact ⟨k, (mem_keys' c ha).2 (Or.inr hk), rec_same h c hk ck⟩

/-! ## the new file -/

theorem esK_mem (c : PutCtx d r r' sr f user base typ dir2) {j : Nat} {e : Bytes} (hj : dir2[j]? = some e) (hx : isExtent e = true)
    (hh : Hdr user base typ e) : e ∈ esOf d r' (newKey user base typ) :=
  mem_esOf.2 ⟨(mem_fents' c).2 ⟨j, hj, hx⟩, hdr_key hh⟩

theorem esK_ne_nil (ha : PutArgsOk d f) (c : PutCtx d r r' sr f user base typ dir2) : esOf d r' (newKey user base typ) ≠ [] := by
  obtain ⟨e, rest, hes, _, _⟩ := esOf_head ((mem_keys' c ha).2 (Or.inl rfl))
  rw [hes]; exact List.cons_ne_nil _ _

/-- the entry that holds chunk `g` -/
theorem chunk_entry (c : PutCtx d r r' sr f user base typ dir2) {g : Nat} {cd : Bytes} (hg : f.chunks.lookup g = some cd) :
    ∃ e, e ∈ esOf d r' (newKey user base typ) ∧ XEnt d (dirOf d r) sr f (g / slots d) e := by
  obtain ⟨j, e0, e, q1, q2, q3, q4, q5⟩ := c.pf.cover g cd hg
  obtain ⟨_, hh, x, hx⟩ := c.pf.new j e0 e q1 q2 q3 q4
  have : x = g / slots d := by rw [← hx.phys, q5]
  subst this
  exact ⟨e, esK_mem c q3 q4 hh, hx⟩

/-- the chunks of the new record are the stored ones, zero-padded -/
theorem new_chunks (h : Inv d r) (h' : Inv d r') (hr : ResvOk d) (ha : PutArgsOk d f) (c : PutCtx d r r' sr f user base typ dir2) :
    chunksMatch (putChunks f) (recOf r' d (dirOf d r') (esOf d r' (newKey user base typ))).chunks = true := by
  have hS : 0 < slots d := by rcases slots_cases d with hs | hs <;> omega
  have hkeyK : newKey user base typ ∈ keys d r' := (mem_keys' c ha).2 (Or.inl rfl)
  apply chunksMatch_of_sorted
  · exact sorted_lt_of_nodup _ ha.2.1
  · exact sorted_lt_of_nodup _ (chunk_idx_nodup (dupFree_nodup (h'.good _ hkeyK).1))
  · intro g cd hm
    have hm' : (g, cd) ∈ f.chunks := by
      unfold putChunks at hm
      exact List.mem_mergeSort.1 hm
    have hl := lookup_of_mem ha.2.1 hm'
    obtain ⟨e, he, hx⟩ := chunk_entry c hl
    have hk : g % slots d < slots d := Nat.mod_lt _ hS
    have hidx : g / slots d * slots d + g % slots d = g := Nat.div_add_mod' g (slots d)
    rcases hx.ptr _ hk with ⟨hnone, _⟩ | ⟨cd', h1, h2, h3, h4⟩
    · rw [hidx, hl] at hnone; cases hnone
    · rw [hidx, hl] at h1
      cases h1
      refine ⟨quantize (blockSize d) cd, ?_, prefix_quantize (ha.2.2.1 _ hm')⟩
      show (g, quantize (blockSize d) cd) ∈ (recOf r' d (dirOf d r') (esOf d r' (newKey user base typ))).chunks
      unfold recOf recWith
      simp only []
      rw [List.mem_mergeSort, List.mem_flatMap]
      refine ⟨e, he, ?_⟩
      unfold chunksE
      rw [List.mem_map]
      refine ⟨((entryPtrs d e).getD (g % slots d) 0, g % slots d), mem_nzPtrs.2 ⟨entryPtrs_getElem?_of d e hk, h2⟩, ?_⟩
      simp only []
      rw [hx.phys, hidx]
      unfold blkOf
      rw [new_unit h hr c h3, h4]
      rfl
  · intro g b hm
    have hm' : (g, b) ∈ (esOf d r' (newKey user base typ)).flatMap (chunksE r' d) := by
      unfold recOf recWith at hm
      simp only [] at hm
      exact List.mem_mergeSort.1 hm
    rw [List.mem_flatMap] at hm'
    obtain ⟨e, he, hce⟩ := hm'
    obtain ⟨j, e0, _, _, _, _, _, x, hx⟩ := esK_new c he
    unfold chunksE at hce
    rw [List.mem_map] at hce
    obtain ⟨⟨p, k⟩, hpk, heq⟩ := hce
    obtain ⟨hk, hp0⟩ := mem_nzPtrs.1 hpk
    obtain ⟨_, cdat, hl, _⟩ := xent_ptr_new hx hk hp0
    simp only [Prod.mk.injEq] at heq
    rw [hx.phys] at heq
    refine ⟨cdat, ?_⟩
    unfold putChunks
    rw [List.mem_mergeSort, ← heq.1]
    exact lookup_mem hl

/-- the length of the new record is the stored length as the file system rounds it -/
theorem new_eof (hd : DpbPut d) (ha : PutArgsOk d f) (c : PutCtx d r r' sr f user base typ dir2) :
    (recOf r' d (dirOf d r') (esOf d r' (newKey user base typ))).eof = (cpmParams d).eofRule f.eof := by
  show eofOf (lastOf (esOf d r' (newKey user base typ))) = _
  have hne := esK_ne_nil ha c
  have hlm := lastOf_mem _ hne
  obtain ⟨j, e0, _, _, _, _, _, x, hx⟩ := esK_new c hlm
  obtain ⟨hpos, ⟨cd, hcd⟩, _⟩ := end_spec ha.1
  obtain ⟨e, he, hxe⟩ := chunk_entry c hcd
  have hmax := lastOf_max _ e he
  have h1 : (f.end_ - 1) / slots d ≤ x := by
    rw [← hx.phys, ← hxe.phys]
    exact Nat.div_le_div_right hmax
  have h2 := hx.lt
  apply hx.last
  unfold putMaxX at h2 ⊢
  rw [hd.2.1] at h2 ⊢
  rcases slots_cases d with hs | hs <;> rw [hs] at h1 h2 ⊢ <;> (split at h2 <;> split <;> omega)

/-- the blocks of the new record were free -/
theorem new_owned (h : Inv d r) (hr : ResvOk d) (c : PutCtx d r r' sr f user base typ dir2) :
    ∀ u ∈ (recOf r' d (dirOf d r') (esOf d r' (newKey user base typ))).owned, u ∈ (volOf d r).freeUnits := by
  intro u hu
  have hu' : u ∈ (esOf d r' (newKey user base typ)).flatMap (ownedE d) := hu
  rw [List.mem_flatMap] at hu'
  obtain ⟨e, he, hue⟩ := hu'
  obtain ⟨j, e0, _, _, _, _, _, x, hx⟩ := esK_new c he
  obtain ⟨k, hk, hp0⟩ := mem_ownedE' hue
  obtain ⟨hnew, _⟩ := xent_ptr_new hx hk hp0
  show u ∈ (mkVol d (filesOf d r)).freeUnits
  rw [mem_mkVol_free]
  refine ⟨hnew.1, ?_, newPtr_not_dir hr hnew⟩
  intro hm
  have hm' := (owned_perm d r).subset hm
  rw [List.mem_flatMap] at hm'
  obtain ⟨e1, he1, hp1⟩ := hm'
  exact hnew.2.2 (owned_sub_used h he1 hp1)

/-- the path of the new record is not in the old listing -/
theorem new_path_fresh (h : Inv d r) (h' : Inv d r') (ha : PutArgsOk d f) (c : PutCtx d r r' sr f user base typ dir2) :
    (recOf r' d (dirOf d r') (esOf d r' (newKey user base typ))).path ∉ (volOf d r).paths := by
  intro hm
  have hm' : pathOf ((esOf d r' (newKey user base typ)).headD []) ∈ (filesOf d r).map (·.path) := hm
  unfold filesOf at hm'
  rw [List.map_map, List.mem_map] at hm'
  obtain ⟨k, hk, hp⟩ := hm'
  have hp' : pathOf ((esOf d r k).headD []) = pathOf ((esOf d r' (newKey user base typ)).headD []) := hp
  obtain ⟨e0, r0, hes0, hm0, hkey0⟩ := esOf_head hk
  obtain ⟨e1, r1, hes1, hm1, hkey1⟩ := esOf_head ((mem_keys' c ha).2 (Or.inl rfl))
  rw [hes0, hes1] at hp'
  simp only [List.headD_cons] at hp'
  have hl := dirOf_entry_length h.shape h.dpb
  have hl' := dirOf_entry_length h'.shape h'.dpb
  have := pathOf_inj (mem_fents.1 hm0).2 (mem_fents.1 hm1).2 (hl _ (mem_fents.1 hm0).1) (hl' _ (mem_fents.1 hm1).1)
    (h.clean _ hm0) (h'.clean _ hm1) hp'
  apply c.fresh
  rw [← hkey1, ← this, hkey0]
  exact hk

/-- **a successful `put` refines the abstract `put`** (in the context of the abstract half): `P` is the path the reader shows for
an entry with the header of the stored file -/
theorem put_core (h : Inv d r) (hr : ResvOk d) (hd : DpbPut d) (ha : PutArgsOk d f) (c : PutCtx d r r' sr f user base typ dir2)
    {P : Bytes} (hpath : ∀ e, Hdr user base typ e → pathOf e = P) :
    Inv d r' ∧ stepOk (cpmParams d) (volOf d r) (.put P (putChunks f) f.eof 0 0) true (volOf d r') = true := by
  have h' := put_inv h hr ha c
  refine ⟨h', ?_⟩
  have hP : (recOf r' d (dirOf d r') (esOf d r' (newKey user base typ))).path = P := by
    obtain ⟨e1, r1, hes1, hm1, hkey1⟩ := esOf_head ((mem_keys' c ha).2 (Or.inl rfl))
    have hmem : e1 ∈ esOf d r' (newKey user base typ) := by rw [hes1]; exact List.mem_cons_self
    obtain ⟨_, _, _, _, _, _, hh, _⟩ := esK_new c hmem
    show pathOf ((esOf d r' (newKey user base typ)).headD []) = P
    rw [hes1]
    exact hpath e1 hh
  rw [← hP]
  exact put_stepOk rfl rfl (volOf_wf h) (volOf_wf h') (files_mem h ha c) (new_path_fresh h h' ha c) (new_chunks h h' hr ha c) rfl
    (new_eof hd ha c) (new_owned h hr c)

/-- **a successful `put` refines the abstract `put`**: the invariant holds afterwards and the step from the reading before to
the reading after is an abstract `put` of the stored chunks (ascending index) under the canonical path -/
theorem put_success_refines {now : Bytes} (h : Inv d r) (hr : ResvOk d) (hd : DpbPut d) (ha : PutArgsOk d f)
    (hop : put d r f now = (.ok (), r')) :
    Inv d r' ∧ stepOk (cpmParams d) (volOf d r) (.put (canon f.fullPath) (putChunks f) f.eof 0 0) true (volOf d r') = true := by
  obtain ⟨user, name, sr, dir2, base, ext, _, _, np, hck, c⟩ := put_ctx h hr hd ha hop
  exact put_core h hr hd ha c (fun e hh => hdr_path c.hu np hck hh)

end A2Verif.FsCpm
