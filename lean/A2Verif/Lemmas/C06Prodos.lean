import A2Verif.Lemmas.C06Bytes
import A2Verif.Lemmas.FsProdosFree
import A2Verif.Lemmas.FsFatInv
/-!
# C06, ProDOS: what `get_img()` writes is what `open_bitmap_buffer` reads again

The ProDOS object keeps the volume bitmap in memory (`maybe_bitmap`, with the block numbers in `bitmap_blocks`):
`allocate_block`/`deallocate_block` change only the buffer, `get_img()` writes it back block by block
(`writeback_bitmap_buffer`: the first `zap_block` of a bitmap block drops the buffer).  After `save`/`load` the
buffer is closed, `bitmap_blocks` is empty, and the buffer is re-opened from the block the volume header points to.

`Coh d` (object-level coherence): 512-byte blocks, `total_blocks` = size of the image, and an open buffer sits where
the volume header says: `bitmap_blocks = bptr ..< bptr + bitmap_block_count` with `bptr` read from block 2, these blocks
exist, block 2 is not among them, and the buffer has their size.  `flush_open`: the flushed image; `reopen`: the closed
twin re-opens to **exactly the buffer that was saved**.
-/
namespace A2Verif.Reload.Prodos
open A2Verif.Fs.Prodos A2Verif.FsProdos

/-- the bitmap pointer of the volume directory header (bytes 0x27, 0x28 of block 2) -/
def bptrOf (r : Raw) : Nat := le16 (unitAt r volKeyBlock) (4 + 35)

structure Coh (d : Disk) : Prop where
  shaped : Shaped 512 d.raw
  total : d.total = d.raw.units.size
  key : volKeyBlock < d.raw.units.size
  buf : ∀ b, d.bitmap = some b →
    d.bitmapBlocks = List.range' (bptrOf d.raw) (d.bmCount) ∧ b.size = d.bmCount * 512 ∧
    bptrOf d.raw + d.bmCount ≤ d.raw.units.size ∧
    (volKeyBlock < bptrOf d.raw ∨ bptrOf d.raw + d.bmCount ≤ volKeyBlock)

theorem quantize_length (x : Bytes) : (quantize x).length = 512 := by
  unfold quantize
  simp only [List.length_append, List.length_take, List.length_replicate, blockSize]
  omega

/-- the image after the blocks `is` have received their part of `data` (block `i` gets `data[(i-first)·512 ..]`) -/
def wbRaw (r : Raw) (data : Bytes) (first : Nat) : List Nat → Raw
  | [] => r
  | i :: is => wbRaw { r with units := r.units.setIfInBounds i (quantize (blockSlice data ((i - first) * blockSize))) } data first is

theorem wbRaw_size (data : Bytes) (first : Nat) : ∀ (is : List Nat) (r : Raw),
    (wbRaw r data first is).units.size = r.units.size ∧ (wbRaw r data first is).unitLen = r.unitLen := by
  intro is
  induction is with
  | nil => intro r; exact ⟨rfl, rfl⟩
  | cons i is ih =>
    intro r
    unfold wbRaw
    have := ih { r with units := r.units.setIfInBounds i (quantize (blockSlice data ((i - first) * blockSize))) }
    simpa using this

theorem wbRaw_other (data : Bytes) (first : Nat) : ∀ (is : List Nat) (r : Raw) (u : Nat), u ∉ is →
    (wbRaw r data first is).units[u]? = r.units[u]? := by
  intro is
  induction is with
  | nil => intro r u _; rfl
  | cons i is ih =>
    intro r u hu
    unfold wbRaw
    rw [ih _ u (fun h => hu (List.mem_cons_of_mem _ h))]
    have : ¬ i = u := fun e => hu (by rw [e]; exact List.mem_cons_self)
    simp only [Array.getElem?_setIfInBounds, if_neg this]

theorem wbRaw_mem (data : Bytes) (first : Nat) : ∀ (is : List Nat) (r : Raw) (u : Nat), is.Nodup → u ∈ is → u < r.units.size →
    (wbRaw r data first is).units[u]? = some (quantize (blockSlice data ((u - first) * blockSize))) := by
  intro is
  induction is with
  | nil => intro r u _ hu; cases hu
  | cons i is ih =>
    intro r u hnd hu hlt
    unfold wbRaw
    rw [List.nodup_cons] at hnd
    cases List.mem_cons.1 hu with
    | inl h =>
      subst h
      rw [wbRaw_other data first is _ u hnd.1]
      simp [hlt]
    | inr h => exact ih _ u hnd.2 h (by simpa using hlt)

theorem wbRaw_shaped (data : Bytes) (first : Nat) : ∀ (is : List Nat) (r : Raw), Shaped 512 r → Shaped 512 (wbRaw r data first is) := by
  intro is
  induction is with
  | nil => intro r h; exact h
  | cons i is ih =>
    intro r h
    unfold wbRaw
    exact ih _ (h.setIfInBounds i (quantize_length _))

/-- the loop of `writeback_bitmap_buffer` over blocks that all are bitmap blocks and exist -/
theorem forEach_zap (data : Bytes) (first : Nat) : ∀ (is : List Nat) (d : Disk), is ≠ [] →
    (∀ i ∈ is, d.bitmapBlocks.contains i = true ∧ i < d.raw.units.size ∧ (i - first) * blockSize ≤ data.length) →
    forEach (fun i => zapBlock data i ((i - first) * blockSize)) is d =
      (.ok (), { d with raw := wbRaw d.raw data first is, bitmap := none }) := by
  intro is
  induction is with
  | nil => intro d h; exact absurd rfl h
  | cons i is ih =>
    intro d _ h
    obtain ⟨h1, h2, h3⟩ := h i List.mem_cons_self
    have hz : zapBlock data i ((i - first) * blockSize) d =
        (.ok (), { d with bitmap := none, raw := { d.raw with units := d.raw.units.setIfInBounds i (quantize (blockSlice data ((i - first) * blockSize))) } }) := by
      unfold zapBlock
      rw [if_neg (by omega)]
      simp only [h1, if_true, imgWrite, h2]
    unfold forEach
    unfold M.bind
    rw [hz]
    simp only
    cases is with
    | nil => rfl
    | cons j rest =>
      rw [ih _ (by simp) (fun k hk => by
        obtain ⟨a, b, c⟩ := h k (List.mem_cons_of_mem _ hk)
        exact ⟨a, by simpa using b, c⟩)]
      rfl

theorem count_pos {d : Disk} (h : Coh d) : 0 < d.bmCount := by
  have h1 := h.total; have h2 := h.key
  unfold Disk.bmCount bitmapBlockCount volKeyBlock at *
  split <;> omega

/-- the image `get_img()` hands out when the buffer `b` is open -/
def flushedRaw (d : Disk) (b : Array Nat) : Raw :=
  wbRaw d.raw b.toList (bptrOf d.raw) (List.range' (bptrOf d.raw) (d.bmCount))

/-- `get_img()` on a coherent object with open buffer -/
theorem flush_open {d : Disk} {b : Array Nat} (h : Coh d) (hb : d.bitmap = some b) :
    d.flush = (.ok (), { d with raw := flushedRaw d b, bitmap := none }) := by
  obtain ⟨hl, hs, hin, _⟩ := h.buf b hb
  have hc := count_pos h
  have hne : List.range' (bptrOf d.raw) (d.bmCount) ≠ [] := by
    intro e
    have := congrArg List.length e
    simp at this; omega
  have hcons : d.bitmapBlocks = bptrOf d.raw :: List.range' (bptrOf d.raw + 1) (d.bmCount - 1) := by
    rw [hl]
    obtain ⟨n, hn⟩ : ∃ n, d.bmCount = n + 1 := ⟨d.bmCount - 1, by omega⟩
    rw [hn]; rfl
  have hwb : writeback d = (.ok (), { d with raw := flushedRaw d b, bitmap := none }) := by
    unfold flushedRaw writeback
    show M.bind M.get _ d = _
    unfold M.bind
    simp only [M.get, hb]
    have key : ∀ (bb tl : List Nat), bb = bptrOf d.raw :: tl →
        (match bb with
          | [] => (pure () : M Unit)
          | first :: _ => forEach (fun i => zapBlock b.toList i ((i - first) * blockSize)) (List.range' first (d.bmCount))) d =
        forEach (fun i => zapBlock b.toList i ((i - bptrOf d.raw) * blockSize)) (List.range' (bptrOf d.raw) (d.bmCount)) d := by
      intro bb tl e; subst e; rfl
    refine Eq.trans (key _ _ hcons) ?_
    apply forEach_zap _ _ _ _ hne
    intro i hi
    rw [List.mem_range'_1] at hi
    refine ⟨by rw [hl]; simp [List.mem_range'_1]; omega, by omega, ?_⟩
    rw [Array.length_toList, hs]
    unfold blockSize
    have : i - bptrOf d.raw < d.bmCount := by omega
    exact Nat.mul_le_mul_right 512 (Nat.le_of_lt this)
  unfold Disk.flush
  rw [hwb]

/-- the bytes `get_img()` puts into bitmap block `bptr + k` -/
theorem chunk_eq {b : Array Nat} {n k : Nat} (hs : b.size = n * 512) (hk : k < n) :
    quantize (blockSlice b.toList (k * blockSize)) = (b.toList.drop (k * 512)).take 512 := by
  unfold quantize blockSlice blockSize
  have hl : ((b.toList.drop (k * 512)).take 512).length = 512 := by
    simp only [List.length_take, List.length_drop, Array.length_toList, hs]
    have : (k + 1) * 512 ≤ n * 512 := Nat.mul_le_mul_right 512 hk
    rw [Nat.add_mul] at this
    omega
  rw [List.take_of_length_le (by omega), hl]
  simp

/-- bitmap block `bptr + j` of the flushed image is part `j` of the buffer -/
theorem unitAt_flushed {d : Disk} {b : Array Nat} (h : Coh d) (hb : d.bitmap = some b) {j : Nat} (hj : j < d.bmCount) :
    (flushedRaw d b).units[bptrOf d.raw + j]? = some ((b.toList.drop (j * 512)).take 512) := by
  obtain ⟨_, hs, hin, _⟩ := h.buf b hb
  unfold flushedRaw
  rw [wbRaw_mem b.toList (bptrOf d.raw) (List.range' (bptrOf d.raw) (d.bmCount)) d.raw (bptrOf d.raw + j)
    (List.nodup_range' (step := 1)) (by rw [List.mem_range'_1]; omega) (by omega)]
  have : bptrOf d.raw + j - bptrOf d.raw = j := by omega
  rw [this, chunk_eq hs hj]

/-- **the closed twin re-opens to the saved buffer** -/
theorem bufOf_flushed {d : Disk} {b : Array Nat} (h : Coh d) (hb : d.bitmap = some b) :
    bufOf (flushedRaw d b) (bptrOf d.raw) (d.bmCount) = b := by
  obtain ⟨_, hs, hin, _⟩ := h.buf b hb
  unfold bufOf
  rw [List.range'_eq_map_range, List.map_map]
  have e : (List.range (d.bmCount)).map (unitAt (flushedRaw d b) ∘ fun x => bptrOf d.raw + x) =
      (List.range (d.bmCount)).map (fun j => (b.toList.drop (j * 512)).take 512) := by
    apply List.map_congr_left
    intro j hj
    have hj' : j < d.bmCount := by simpa using hj
    simp only [Function.comp, unitAt, unitAt_flushed h hb hj', Option.getD_some]
  rw [e, A2Verif.FsFat.flatten_chunks _ _ (by rw [Array.length_toList]; exact hs)]

end A2Verif.Reload.Prodos
