import A2Verif.Model.Fs.Prodos
import A2Verif.Model.Read.Prodos
/-!
# The volume bitmap of the concrete ProDOS model: bit algebra, counting, first fit

`freeB buf i` is the meaning of the buffer: block `i` is marked free.  `allocate`/`deallocate` change exactly
that bit; `countFreeFrom` counts the marked blocks; `firstFreeFrom` returns the least marked block (first
fit is complete); the test the model uses (`b &&& (1 <<< (7 - i % 8)) > 0`) is the test the independent reader
uses (`b / 2 ^ (7 - i % 8) % 2 = 1`).
-/
namespace A2Verif.FsProdos
open A2Verif.Fs.Prodos

/-! ## one byte -/

/-- `1 << (7 - k)` for a bit position `k < 8` -/
def maskOf (k : Nat) : Nat :=
  match k with
  | 0 => 128 | 1 => 64 | 2 => 32 | 3 => 16 | 4 => 8 | 5 => 4 | 6 => 2 | _ => 1

theorem bitMask_eq_maskOf (i : Nat) : bitMask i = maskOf (i % 8) := rfl

theorem byte_clear_self : ∀ b : Fin 256, ∀ k : Fin 8,
    ((b.val &&& (maskOf k.val ^^^ 255)) &&& maskOf k.val) = 0 := by decide +kernel

theorem byte_set_self : ∀ b : Fin 256, ∀ k : Fin 8,
    ((b.val ||| maskOf k.val) &&& maskOf k.val) > 0 := by decide +kernel

theorem byte_clear_other : ∀ b : Fin 256, ∀ k j : Fin 8, k ≠ j →
    ((b.val &&& (maskOf k.val ^^^ 255)) &&& maskOf j.val) = (b.val &&& maskOf j.val) := by decide +kernel

theorem byte_set_other : ∀ b : Fin 256, ∀ k j : Fin 8, k ≠ j →
    ((b.val ||| maskOf k.val) &&& maskOf j.val) = (b.val &&& maskOf j.val) := by decide +kernel

theorem byte_clear_lt : ∀ b : Fin 256, ∀ k : Fin 8, (b.val &&& (maskOf k.val ^^^ 255)) < 256 := by decide +kernel
theorem byte_set_lt : ∀ b : Fin 256, ∀ k : Fin 8, (b.val ||| maskOf k.val) < 256 := by decide +kernel

/-- the model's test is the independent reader's test -/
theorem byte_test_eq : ∀ b : Fin 256, ∀ k : Fin 8,
    (decide ((b.val &&& maskOf k.val) > 0)) = ((b.val / 2 ^ (7 - k.val)) % 2 == 1) := by decide +kernel


/-! ## lifted to `bitFree` / `bitMask` -/

theorem mod8_lt (i : Nat) : i % 8 < 8 := Nat.mod_lt _ (by decide)

theorem bitFree_congr (x y j : Nat) (h : x &&& bitMask j = y &&& bitMask j) : bitFree x j = bitFree y j := by
  unfold bitFree; rw [h]

theorem bitFree_clear_self (b i : Nat) (hb : b < 256) : bitFree (b &&& (bitMask i ^^^ 255)) i = false := by
  have h : (b &&& (bitMask i ^^^ 255)) &&& bitMask i = 0 := byte_clear_self ⟨b, hb⟩ ⟨i % 8, mod8_lt i⟩
  unfold bitFree; rw [h]; rfl

theorem bitFree_set_self (b i : Nat) (hb : b < 256) : bitFree (b ||| bitMask i) i = true := by
  have h : (b ||| bitMask i) &&& bitMask i > 0 := byte_set_self ⟨b, hb⟩ ⟨i % 8, mod8_lt i⟩
  unfold bitFree; exact decide_eq_true h

theorem bitFree_clear_other (b i j : Nat) (hb : b < 256) (hij : i % 8 ≠ j % 8) :
    bitFree (b &&& (bitMask i ^^^ 255)) j = bitFree b j :=
  bitFree_congr _ _ _ (byte_clear_other ⟨b, hb⟩ ⟨i % 8, mod8_lt i⟩ ⟨j % 8, mod8_lt j⟩ (by intro h; exact hij (Fin.mk.inj h)))

theorem bitFree_set_other (b i j : Nat) (hb : b < 256) (hij : i % 8 ≠ j % 8) :
    bitFree (b ||| bitMask i) j = bitFree b j :=
  bitFree_congr _ _ _ (byte_set_other ⟨b, hb⟩ ⟨i % 8, mod8_lt i⟩ ⟨j % 8, mod8_lt j⟩ (by intro h; exact hij (Fin.mk.inj h)))

/-- the model's test of a bit is the independent reader's -/
theorem bitFree_eq_reader (b i : Nat) (hb : b < 256) : bitFree b i = ((b / 2 ^ (7 - i % 8)) % 2 == 1) :=
  byte_test_eq ⟨b, hb⟩ ⟨i % 8, mod8_lt i⟩

/-! ## the buffer -/

/-- block `i` is marked free in the buffer -/
def freeB (buf : Array Nat) (i : Nat) : Bool :=
  match buf[i / 8]? with
  | some b => bitFree b i
  | none => false

/-- all entries of the buffer are bytes -/
def BytesOk (buf : Array Nat) : Prop := ∀ (k b : Nat), buf[k]? = some b → b < 256

/-- the buffer after `allocate_block(i)` -/
def clearBit (buf : Array Nat) (i : Nat) : Array Nat :=
  match buf[i / 8]? with
  | some b => buf.setIfInBounds (i / 8) (b &&& (bitMask i ^^^ 255))
  | none => buf

/-- the buffer after `deallocate_block(i)` -/
def setBit (buf : Array Nat) (i : Nat) : Array Nat :=
  match buf[i / 8]? with
  | some b => buf.setIfInBounds (i / 8) (b ||| bitMask i)
  | none => buf

theorem isFreeIn_eq (buf : Array Nat) (i : Nat) (h : i / 8 < buf.size) : isFreeIn buf i = .ok (freeB buf i) := by
  unfold isFreeIn freeB
  rw [Array.getElem?_eq_getElem h]

theorem freeB_clearBit (buf : Array Nat) (i j : Nat) (hok : BytesOk buf) (hi : i / 8 < buf.size) :
    freeB (clearBit buf i) j = (if j = i then false else freeB buf j) := by
  have hbe : buf[i / 8]? = some buf[i / 8] := Array.getElem?_eq_getElem hi
  generalize buf[i / 8] = b at hbe
  have hb : b < 256 := hok _ _ hbe
  unfold clearBit; rw [hbe]; simp only
  unfold freeB; rw [Array.getElem?_setIfInBounds]
  by_cases hq : i / 8 = j / 8
  · rw [if_pos hq, if_pos hi]; simp only
    by_cases hji : j = i
    · subst hji; rw [bitFree_clear_self _ _ hb]; simp
    · have hm : i % 8 ≠ j % 8 := by omega
      rw [bitFree_clear_other _ _ _ hb hm, if_neg hji, ← hq, hbe]
  · rw [if_neg hq]
    have hji : j ≠ i := by intro h; subst h; exact hq rfl
    rw [if_neg hji]

theorem freeB_setBit (buf : Array Nat) (i j : Nat) (hok : BytesOk buf) (hi : i / 8 < buf.size) :
    freeB (setBit buf i) j = (if j = i then true else freeB buf j) := by
  have hbe : buf[i / 8]? = some buf[i / 8] := Array.getElem?_eq_getElem hi
  generalize buf[i / 8] = b at hbe
  have hb : b < 256 := hok _ _ hbe
  unfold setBit; rw [hbe]; simp only
  unfold freeB; rw [Array.getElem?_setIfInBounds]
  by_cases hq : i / 8 = j / 8
  · rw [if_pos hq, if_pos hi]; simp only
    by_cases hji : j = i
    · subst hji; rw [bitFree_set_self _ _ hb]; simp
    · have hm : i % 8 ≠ j % 8 := by omega
      rw [bitFree_set_other _ _ _ hb hm, if_neg hji, ← hq, hbe]
  · rw [if_neg hq]
    have hji : j ≠ i := by intro h; subst h; exact hq rfl
    rw [if_neg hji]

theorem bytesOk_clearBit (buf : Array Nat) (i : Nat) (hok : BytesOk buf) : BytesOk (clearBit buf i) := by
  unfold clearBit
  split
  · next b hb =>
    intro k c hk
    rw [Array.getElem?_setIfInBounds] at hk
    split at hk
    · split at hk
      · cases hk; exact byte_clear_lt ⟨b, hok _ _ hb⟩ ⟨i % 8, mod8_lt i⟩
      · cases hk
    · exact hok _ _ hk
  · exact hok

theorem bytesOk_setBit (buf : Array Nat) (i : Nat) (hok : BytesOk buf) : BytesOk (setBit buf i) := by
  unfold setBit
  split
  · next b hb =>
    intro k c hk
    rw [Array.getElem?_setIfInBounds] at hk
    split at hk
    · split at hk
      · cases hk; exact byte_set_lt ⟨b, hok _ _ hb⟩ ⟨i % 8, mod8_lt i⟩
      · cases hk
    · exact hok _ _ hk
  · exact hok

theorem size_clearBit (buf : Array Nat) (i : Nat) : (clearBit buf i).size = buf.size := by
  unfold clearBit; split <;> simp

theorem size_setBit (buf : Array Nat) (i : Nat) : (setBit buf i).size = buf.size := by
  unfold setBit; split <;> simp

/-! ## counting and first fit -/

/-- `countFreeFrom` counts the blocks marked free among `i, …, i+n-1` -/
theorem countFreeFrom_eq (buf : Array Nat) : ∀ (n i acc : Nat), i + n ≤ 8 * buf.size →
    countFreeFrom buf n i acc = .ok (acc + ((List.range' i n).filter (freeB buf)).length)
  | 0, i, acc, _ => by simp [countFreeFrom]
  | n + 1, i, acc, h => by
    have hi : i / 8 < buf.size := by omega
    rw [countFreeFrom, isFreeIn_eq buf i hi]
    simp only
    rw [countFreeFrom_eq buf n (i + 1) _ (by omega), List.range'_succ, List.filter_cons]
    by_cases hf : freeB buf i = true
    · simp [hf]; omega
    · simp [hf]

/-- `firstFreeFrom` returns the least block marked free among `i, …, i+n-1` (as `u16`), `none` iff there is none:
first fit is sound and complete -/
theorem firstFreeFrom_eq (buf : Array Nat) : ∀ (n i : Nat), i + n ≤ 8 * buf.size →
    firstFreeFrom buf n i = .ok (((List.range' i n).find? (freeB buf)).map (· % 65536))
  | 0, i, _ => by simp [firstFreeFrom]
  | n + 1, i, h => by
    have hi : i / 8 < buf.size := by omega
    rw [firstFreeFrom, isFreeIn_eq buf i hi]
    simp only
    rw [List.range'_succ, List.find?_cons]
    by_cases hf : freeB buf i = true
    · simp [hf]
    · have hf' : freeB buf i = false := by simpa using hf
      simp only [hf', Bool.false_eq_true, ↓reduceIte]
      exact firstFreeFrom_eq buf n (i + 1) (by omega)

end A2Verif.FsProdos
