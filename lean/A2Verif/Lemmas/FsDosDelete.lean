import A2Verif.Lemmas.FsDosRefine
/-!
# `delete` on a working state that satisfies the invariant

`deallocate_sector` sets exactly one bitmap bit (`FreedBy`); the T/S list loop of `delete` (`freeLoop`) frees
exactly the units the file's record owns; rewriting the entry (`track := 255`, `name[29] := track`) removes exactly
that record from the reading.  Core Lean only.
-/
set_option linter.unusedSimpArgs false
namespace A2Verif.Fs.Dos3x
open A2Verif.FsDos A2Verif.Read.Dos3x

/-! ## the VTOC buffer alone -/

structure VOk (v : Bytes) (c : Nat) : Prop where
  hc : c = 13 ∨ c = 16
  vlen : v.length = 196
  vlt : ∀ x ∈ v, x < 256
  vTracks : Vtoc.tracks v = 35
  vSpt : Vtoc.sectors v = c
  vBps : Vtoc.bytesPerSector v = 256
  vPairs : Vtoc.maxPairs v = 122

theorem WOk.vok {w : W} (h : WOk w) : VOk w.v w.c := ⟨h.hc, h.vlen, h.vlt, h.vTracks, h.vSpt, h.vBps, h.vPairs⟩

theorem WOk.setV {w : W} (h : WOk w) {v' : Bytes} (hv : VOk v' w.c) : WOk { w with v := v' } :=
  ⟨h.hc, h.size, hv.vlen, hv.vlt, hv.vTracks, hv.vSpt, hv.vBps, hv.vPairs, h.ulen⟩

/-- `v'` is `v` with exactly the sectors of `S` marked free (and nothing else changed below the bitmap) -/
structure FreedBy (v v' : Bytes) (c : Nat) (S : List Nat) : Prop where
  ok : VOk v' c
  low : ∀ i, i < 0x38 → v'.getD i 0 = v.getD i 0
  bits : ∀ t s, t < 35 → s < c → bitFree v' c t s = (bitFree v c t s || decide (t * c + s ∈ S))

theorem FreedBy.refl {v : Bytes} {c : Nat} (h : VOk v c) : FreedBy v v c [] :=
  ⟨h, fun _ _ => rfl, fun _ _ _ _ => by simp⟩

theorem FreedBy.trans {v v1 v2 : Bytes} {c : Nat} {S1 S2 : List Nat} (h1 : FreedBy v v1 c S1) (h2 : FreedBy v1 v2 c S2) :
    FreedBy v v2 c (S1 ++ S2) :=
  ⟨h2.ok, fun i hi => by rw [h2.low i hi, h1.low i hi], fun t s ht hs => by
    rw [h2.bits t s ht hs, h1.bits t s ht hs, Bool.or_assoc]
    congr 1
    simp [List.mem_append]⟩

theorem FreedBy.congr {v v' : Bytes} {c : Nat} {S S' : List Nat} (h : FreedBy v v' c S) (hs : ∀ x, x ∈ S ↔ x ∈ S') :
    FreedBy v v' c S' :=
  ⟨h.ok, h.low, fun t s ht hs' => by rw [h.bits t s ht hs']; congr 1; simp [hs]⟩

/-- the buffer after `deallocate_sector(t, s)` -/
def dealloc' (v : Bytes) (c t s : Nat) : Bytes := saveTrackMap v t (mapVal v t ||| (1 <<< (s + 32 - c)))

theorem unit_inj {c t s t' s' : Nat} (hs : s < c) (hs' : s' < c) (h : t' * c + s' = t * c + s) : t' = t ∧ s' = s := by
  have a := div_mod_unit (t := t) hs
  have b := div_mod_unit (t := t') hs'
  rw [h] at b
  exact ⟨by rw [← b.1, a.1], by rw [← b.2, a.2]⟩

theorem dealloc_freed {v : Bytes} {c t s : Nat} (h : VOk v c) (ht : t < 35) (hs : s < c) :
    FreedBy v (dealloc' v c t s) c [t * c + s] := by
  have hc32 : c ≤ 16 := by rcases h.hc with e | e <;> omega
  have hm := mapVal_lt h.vlt t
  have hlow : ∀ i, i < 0x38 → (dealloc' v c t s).getD i 0 = v.getD i 0 :=
    fun i hi => getD_saveTrackMap_low h.vlen ht hi
  refine ⟨⟨h.hc, saveTrackMap_length h.vlen ht, saveTrackMap_lt h.vlt, ?_, ?_, ?_, ?_⟩, hlow, ?_⟩
  · unfold Vtoc.tracks; rw [hlow _ (by decide)]; exact h.vTracks
  · unfold Vtoc.sectors; rw [hlow _ (by decide)]; exact h.vSpt
  · unfold Vtoc.bytesPerSector le16; rw [hlow _ (by decide), hlow _ (by decide)]; exact h.vBps
  · unfold Vtoc.maxPairs; rw [hlow _ (by decide)]; exact h.vPairs
  · intro t' s' ht' hs'
    unfold bitFree dealloc'
    by_cases hte : t' = t
    · subst hte
      rw [mapVal_save_same h.vlen ht' (set_lt hm (by omega)), testBit_set]
      congr 1
      by_cases hse : s' = s
      · subst hse; simp
      · have : ¬ (s' + 32 - c = s + 32 - c) := by omega
        have h2 : ¬ (t' * c + s' = t' * c + s) := by omega
        simp [this, h2, hse]
    · rw [mapVal_save_other h.vlen ht hte]
      have : ¬ (t' * c + s' = t * c + s) := fun e => hte (unit_inj hs hs' e).1
      simp [this]


/-! ## the loops of `delete` -/

def W.withV (w : W) (v' : Bytes) : W := { w with v := v' }

theorem deallocM_ok {w : W} (h : WOk w) {t s : Nat} (ht : t < 35) (hs : s < w.c) :
    deallocM t s w = (.ok (), w.withV (dealloc' w.v w.c t s)) := by
  unfold deallocM M.modV
  simp only [deallocate_eq h.vSpt h.hc ht hs]
  rfl

/-- the data units a T/S list sector points to -/
def pairUnits (c : Nat) (b : Bytes) (ks : List Nat) : List Nat :=
  ks.filterMap (fun k => if pairT b k = 0 then none else some (pairT b k * c + pairS b k))

theorem freePairs_spec {r : Raw} {b : Bytes} : ∀ (ks : List Nat) {w : W}, WOk w → PairsOk r w.c b → (∀ k ∈ ks, k < 122) →
    ∃ v', freePairs b ks w = (.ok (), w.withV v') ∧ FreedBy w.v v' w.c (pairUnits w.c b ks) := by
  intro ks
  induction ks with
  | nil => intro w h _ _; exact ⟨w.v, rfl, FreedBy.refl h.vok⟩
  | cons k ks ih =>
    intro w h hp hk
    have hk1 := hk k List.mem_cons_self
    rw [freePairs]
    simp only [M.bind_apply]
    by_cases h0 : pairT b k = 0
    · have hcond : ¬ (Tsl.pairTrack b k > 0 ∧ Tsl.pairTrack b k < 255) := by
        show ¬ (pairT b k > 0 ∧ _); omega
      simp only [hcond, if_false, M.pure_apply]
      obtain ⟨v', hr, hf⟩ := ih h hp (fun x hx => hk x (List.mem_cons_of_mem _ hx))
      refine ⟨v', hr, ?_⟩
      unfold pairUnits at hf ⊢
      rw [List.filterMap_cons]
      simp only [h0, if_true]
      exact hf
    · obtain ⟨h1, h2, _⟩ := hp k hk1 h0
      have hcond : Tsl.pairTrack b k > 0 ∧ Tsl.pairTrack b k < 255 := by
        show pairT b k > 0 ∧ pairT b k < 255; omega
      have hd := deallocM_ok h (t := pairT b k) (s := pairS b k) h1 h2
      have hd' : deallocM (Tsl.pairTrack b k) (Tsl.pairSector b k) w = (.ok (), w.withV (dealloc' w.v w.c (pairT b k) (pairS b k))) := hd
      simp only [hcond, and_self, if_true, M.bind_apply, hd']
      have hfr := dealloc_freed h.vok h1 h2
      have hok1 : WOk (w.withV (dealloc' w.v w.c (pairT b k) (pairS b k))) := h.setV hfr.ok
      obtain ⟨v', hr, hf⟩ := ih hok1 hp (fun x hx => hk x (List.mem_cons_of_mem _ hx))
      refine ⟨v', hr, ?_⟩
      have := hfr.trans hf
      unfold pairUnits at this ⊢
      rw [List.filterMap_cons]
      simp only [h0, if_false]
      exact this

theorem withV_sec {w : W} (v' : Bytes) {u : Nat} (hu : u ≠ vtocTrack * w.c) : sec (w.withV v').img u = sec w.img u := by
  rw [W.sec_img, W.sec_img]
  have : (w.withV v').c = w.c := rfl
  rw [this, if_neg (fun h => hu h.1), if_neg (fun h => hu h.1)]
  rfl

/-- the units `freeLoop` frees: per T/S list sector its data units, then the sector itself -/
def chainUnits (r : Raw) (c : Nat) : List Nat → List Nat
  | [] => []
  | u :: rest => pairUnits c (sec r u) (List.range 122) ++ [u] ++ chainUnits r c rest

theorem freeLoop_spec {r : Raw} : ∀ (tsl : List Nat) {w : W} (fuel t s : Nat) (buf : Bytes), WOk w →
    TsChain r w.c t s tsl → (∀ u ∈ tsl, u ≠ vtocTrack * w.c ∧ sec w.img u = sec r u) → tsl.length ≤ fuel → buf.length = 256 →
    ∃ v', freeLoop 122 fuel t s buf w = (.ok true, w.withV v') ∧ FreedBy w.v v' w.c (chainUnits r w.c tsl) := by
  intro tsl
  induction tsl with
  | nil => intro w fuel t s buf _ h; exact absurd h (by simp [TsChain])
  | cons u rest ih =>
    intro w fuel t s buf h hch hag hf hb
    cases fuel with
    | zero => simp at hf
    | succ n =>
      have hnode : TsNode r w.c t s u := by
        cases rest with
        | nil => exact hch.1
        | cons u' rest' => exact hch.1
      obtain ⟨ht, hs, hu, _, hp⟩ := hnode
      obtain ⟨hne, hsec⟩ := hag u List.mem_cons_self
      have hult : u < w.raw.units.size := by rw [h.size, hu]; exact unit_lt ht hs
      have hbl : (sec r u).length = 256 := by rw [← hsec]; exact sec_img_length h hult
      rw [freeLoop]
      simp only [M.bind_apply, readSectorM_ok h ht hs hb, ← hu, hsec]
      have hfs : fullSector (sec r u) = .ok () := by unfold fullSector sectorSize; rw [if_neg (by omega)]
      simp only [M.lift_apply, hfs]
      obtain ⟨v1, hr1, hf1⟩ := freePairs_spec (r := r) (b := sec r u) (List.range 122) h hp (fun k hk => List.mem_range.1 hk)
      rw [hr1]
      simp only
      have hok1 : WOk (w.withV v1) := h.setV hf1.ok
      have hd := deallocM_ok hok1 (t := t) (s := s) ht hs
      rw [hd]
      simp only
      have hf2 := dealloc_freed hf1.ok ht hs
      have hc1 : (w.withV v1).c = w.c := rfl
      have hv1 : (w.withV v1).v = v1 := rfl
      simp only [hc1, hv1]
      have hf12 := hf1.trans hf2
      rw [← hu] at hf12
      have hww : (w.withV v1).withV (dealloc' v1 w.c t s) = w.withV (dealloc' v1 w.c t s) := rfl
      rw [hww]
      cases rest with
      | nil =>
        obtain ⟨_, hnt, hns⟩ := hch
        simp only [Tsl.nextTrack, Tsl.nextSector, hnt, hns, and_self, if_true, M.pure_apply]
        refine ⟨_, rfl, ?_⟩
        simp only [chainUnits, List.append_nil]
        exact hf12
      | cons u' rest' =>
        obtain ⟨_, hnt, hrest⟩ := hch
        have hcond : ¬ (Tsl.nextTrack (sec r u) = 0 ∧ Tsl.nextSector (sec r u) = 0) := fun e => hnt e.1
        simp only [hcond, if_false]
        have hok2 : WOk (w.withV (dealloc' v1 w.c t s)) := h.setV hf2.ok
        obtain ⟨v', hr, hf'⟩ := ih (w := w.withV (dealloc' v1 w.c t s)) n _ _ (sec r u) hok2 hrest
          (fun x hx => by
            obtain ⟨a, b⟩ := hag x (List.mem_cons_of_mem _ hx)
            exact ⟨a, by rw [withV_sec _ a]; exact b⟩)
          (by simpa using hf) hbl
        refine ⟨v', hr, ?_⟩
        have := hf12.trans hf'
        simp only [chainUnits]
        exact this


/-! ## the freed units are the units the record owns -/

theorem hereOf_units (r : Raw) (c : Nat) (b : Bytes) (base : Nat) :
    (hereOf r c b base).map (·.2.2) = pairUnits c b (List.range 122) := by
  unfold hereOf pairUnits
  rw [List.map_filterMap]
  apply filterMap_congr'
  intro k _
  by_cases h : pairT b k = 0 <;> simp [h]

theorem mem_chainUnits {r : Raw} {c : Nat} : ∀ (tsl : List Nat) (base x : Nat),
    x ∈ chainUnits r c tsl ↔ x ∈ tsl ∨ x ∈ (walkOf r c base tsl).map (·.2.2) := by
  intro tsl
  induction tsl with
  | nil => intro base x; simp [chainUnits, walkOf]
  | cons u rest ih =>
    intro base x
    simp only [chainUnits, walkOf, List.map_append, List.mem_append, List.mem_cons, List.mem_nil_iff, or_false,
      hereOf_units, ih (base + 122) x]
    constructor
    · rintro ((h | h) | h | h)
      · exact Or.inr (Or.inl h)
      · exact Or.inl (Or.inl h)
      · exact Or.inl (Or.inr h)
      · exact Or.inr (Or.inr h)
    · rintro ((h | h) | h | h)
      · exact Or.inl (Or.inr h)
      · exact Or.inr (Or.inl h)
      · exact Or.inl (Or.inl h)
      · exact Or.inr (Or.inr h)

theorem mem_chainUnits_owned {r : Raw} {c : Nat} {e : Bytes} {tsl : List Nat} (x : Nat) :
    x ∈ chainUnits r c tsl ↔ x ∈ (recOf r c e tsl).owned := by
  rw [mem_chainUnits tsl 0 x]
  show _ ↔ x ∈ tsl ++ (walkOf r c 0 tsl).map (·.2.2)
  rw [List.mem_append]

/-- a T/S chain is determined by its start pointer -/
theorem TsChain.unique {r : Raw} {c : Nat} : ∀ {l1 l2 : List Nat} {t s : Nat}, TsChain r c t s l1 → TsChain r c t s l2 → l1 = l2 := by
  intro l1
  induction l1 with
  | nil => intro l2 t s h; exact absurd h (by simp [TsChain])
  | cons u rest ih =>
    intro l2 t s h1 h2
    cases l2 with
    | nil => exact absurd h2 (by simp [TsChain])
    | cons u2 rest2 =>
      have n1 : TsNode r c t s u := by cases rest <;> exact h1.1
      have n2 : TsNode r c t s u2 := by cases rest2 <;> exact h2.1
      have hu : u = u2 := by rw [n1.2.2.1, n2.2.2.1]
      subst hu
      cases rest with
      | nil =>
        cases rest2 with
        | nil => rfl
        | cons a b => exact absurd h1.2.1 h2.2.1
      | cons a b =>
        cases rest2 with
        | nil => exact absurd h2.2.1 h1.2.1
        | cons a2 b2 => rw [ih h1.2.2 h2.2.2]

theorem All2.mem_left {α β : Type} {R : α → β → Prop} {l1 : List α} {l2 : List β} (h : All2 R l1 l2) {a : α} (ha : a ∈ l1) :
    ∃ b ∈ l2, R a b := by
  induction h with
  | nil => cases ha
  | @cons a' b' l1 l2 hab _ ih =>
    rcases List.mem_cons.1 ha with rfl | ha
    · exact ⟨b', List.mem_cons_self, hab⟩
    · obtain ⟨b, hb, hr⟩ := ih ha
      exact ⟨b, List.mem_cons_of_mem _ hb, hr⟩


/-! ## removing one catalog entry -/

theorem owned_ne_vtoc {r : Raw} {c : Nat} {sb : List Nat} {L : Lay} (hw : (volOf r c sb L).wfB = true) :
    ∀ f ∈ (volOf r c sb L).files, vtocTrack * c ∉ f.owned := by
  obtain ⟨_, h2, _⟩ := wfB_iff.1 hw
  intro f hf hm
  have h1 : vtocTrack * c ∈ (volOf r c sb L).allOwned := List.mem_flatMap.2 ⟨f, hf, hm⟩
  have h3 : vtocTrack * c ∈ (volOf r c sb L).sys := by simp [volOf, fixedOf, vt_eq]
  exact (List.nodup_append.1 h2).2.2 _ h1 _ h3 rfl

theorem mem_freeOf {r : Raw} {c x : Nat} : x ∈ freeOf r c ↔ x < 35 * c ∧ sectorFree (vtocOf r c) (geo c) (x / c) (x % c) = true := by
  unfold freeOf; rw [List.mem_filter, List.mem_range]

theorem delete_entry {w : W} {sb : List Nat} {L : Lay} (hi : WInv w sb L) {u k : Nat} {v' dir' e' : Bytes} {t0 : List Nat}
    (hu : u ∈ L.cat) (hk : k < 7) (hlive : isLive (entryAt (sec w.img u) k) = true)
    (hch0 : FileChain w.img w.c (entryAt (sec w.img u) k) t0)
    (hfr : FreedBy w.v v' w.c (chainUnits w.img w.c t0))
    (hdl : dir'.length = 256) (hd1 : dir'.getD 1 0 = (sec w.img u).getD 1 0) (hd2 : dir'.getD 2 0 = (sec w.img u).getD 2 0)
    (hde : entsOfSec dir' = (entsOfSec (sec w.img u)).take k ++ e' :: (entsOfSec (sec w.img u)).drop (k + 1))
    (hdead : isLive e' = false) :
    ∃ T1 T2 F1 F2, L.tsls = T1 ++ t0 :: T2 ∧
      WInv ((w.withV v').wrote (u / w.c) (u % w.c) dir' v') sb { cat := L.cat, tsls := T1 ++ T2 } ∧
      (volOf w.img w.c sb L).files = F1 ++ recOf w.img w.c (entryAt (sec w.img u) k) t0 :: F2 ∧
      (freeOf ((w.withV v').wrote (u / w.c) (u % w.c) dir' v').img w.c).Nodup ∧
      (∀ x, x ∈ freeOf ((w.withV v').wrote (u / w.c) (u % w.c) dir' v').img w.c ↔
        x ∈ (volOf w.img w.c sb L).freeUnits ∨ x ∈ (recOf w.img w.c (entryAt (sec w.img u) k) t0).owned) ∧
      volOf ((w.withV v').wrote (u / w.c) (u % w.c) dir' v').img w.c sb { cat := L.cat, tsls := T1 ++ T2 } =
        removed (volOf w.img w.c sb L) F1 F2 (freeOf ((w.withV v').wrote (u / w.c) (u % w.c) dir' v').img w.c) := by
  have hok := hi.ok
  have hd := hi.desc
  obtain ⟨t', s', ht', hs', hue, hult⟩ := catChain_mem hd.cat u hu
  rw [W.img_size] at hult
  have hdm := div_mod_unit (t := t') hs'
  rw [← hue] at hdm
  rw [hdm.1, hdm.2]
  obtain ⟨hne17, hown⟩ := cat_unit_facts hi.wf hu
  have hown17 := owned_ne_vtoc hi.wf
  have hnev : ¬ (t' = vtocTrack ∧ s' = 0) := fun e => hne17 (by rw [hue]; exact (unit_idx hs').2 e)
  have hok1 : WOk (w.withV v') := hok.setV hfr.ok
  generalize hw' : (w.withV v').wrote t' s' dir' v' = w'
  have hc1 : (w.withV v').c = w.c := rfl
  have hok' : WOk w' := by rw [← hw']; exact wrote_ok hok1 ht' (by rw [hc1]; exact hs') hdl
  have hc' : w'.c = w.c := by rw [← hw']; rfl
  have hv' : w'.v = v' := by rw [← hw']; rfl
  have hsecO : ∀ x, x ≠ u → x ≠ vtocTrack * w.c → sec w'.img x = sec w.img x := by
    intro x hx1 hx2
    rw [← hw']
    have := sec_wrote hok1 (t := t') (s := s') ht' (by rw [hc1]; exact hs') hnev dir' x
    rw [hc1, ← hue] at this
    have hvv : (w.withV v').v = v' := rfl
    rw [hvv] at this
    rw [this, if_neg hx1, withV_sec v' hx2]
  have hsecU : sec w'.img u = dir' := by
    rw [← hw']
    have := sec_wrote hok1 (t := t') (s := s') ht' (by rw [hc1]; exact hs') hnev dir' u
    rw [hc1, ← hue] at this
    have hvv : (w.withV v').v = v' := rfl
    rw [hvv] at this
    rw [this, if_pos rfl]
  have hsz : w'.img.units.size = w.img.units.size := by rw [W.img_size, W.img_size, ← hw']; simp [W.wrote, W.withV]
  have hvt : vtocOf w'.img w.c = quantize v' := by have := vtocOf_img hok'; rw [hc', hv'] at this; exact this
  have hgv : ∀ i, i < 0x38 → (vtocOf w'.img w.c).getD i 0 = (vtocOf w.img w.c).getD i 0 := by
    intro i hi'
    rw [hvt, getD_quantize (by rw [hfr.ok.vlen]; omega) (by rw [hfr.ok.vlen]; omega), hfr.low i hi', getD_vtocOf hok (by omega)]
  -- the catalog chain
  obtain ⟨C1, C2, hcat⟩ := List.append_of_mem hu
  have hnd := hd.catNodup
  rw [hcat] at hnd
  have hC1 : u ∉ C1 := fun hm => (List.nodup_append.1 hnd).2.2 u hm u List.mem_cons_self rfl
  have hC2 : u ∉ C2 := (List.nodup_cons.1 (List.nodup_append.1 hnd).2.1).1
  have hcat17 : ∀ x ∈ L.cat, x ≠ vtocTrack * w.c := fun x hx => (cat_unit_facts hi.wf hx).1
  have hcatch : CatChain w'.img w.c ((vtocOf w.img w.c).getD 1 0) ((vtocOf w.img w.c).getD 2 0) L.cat := by
    apply CatChain.congr hsz _ hd.cat
    intro x hx
    by_cases hxu : x = u
    · subst hxu; rw [hsecU]; exact ⟨hd1, hd2⟩
    · rw [hsecO x hxu (hcat17 x hx)]; exact ⟨rfl, rfl⟩
  have hE1 : entsOf w'.img C1 = entsOf w.img C1 := entsOf_congr (fun x hx => hsecO x (fun (e : x = u) => hC1 (e ▸ hx))
    (hcat17 x (by rw [hcat]; exact List.mem_append_left _ hx)))
  have hE2 : entsOf w'.img C2 = entsOf w.img C2 := entsOf_congr (fun x hx => hsecO x (fun (e : x = u) => hC2 (e ▸ hx))
    (hcat17 x (by rw [hcat]; exact List.mem_append_right _ (List.mem_cons_of_mem _ hx))))
  have hbl : (sec w.img u).length = 256 := sec_img_length hok hult
  generalize hA : entsOf w.img C1 ++ (entsOfSec (sec w.img u)).take k = A
  generalize hB : (entsOfSec (sec w.img u)).drop (k + 1) ++ entsOf w.img C2 = B
  have hents : entsOf w.img L.cat = A ++ entryAt (sec w.img u) k :: B := by
    rw [hcat, entsOf_append, entsOf_cons, entsOfSec_split (b := sec w.img u) (nm := List.replicate 30 0) hbl hk (by simp), ← hA, ← hB]
    simp [List.append_assoc]
  have hents' : entsOf w'.img L.cat = A ++ e' :: B := by
    rw [hcat, entsOf_append, entsOf_cons, hE1, hE2, hsecU, hde, ← hA, ← hB]
    simp [List.append_assoc]
  have hlv : liveOf w.img L.cat = A.filter isLive ++ entryAt (sec w.img u) k :: B.filter isLive := by
    unfold liveOf; rw [hents, List.filter_append, List.filter_cons, if_pos hlive]
  have hlv' : liveOf w'.img L.cat = A.filter isLive ++ B.filter isLive := by
    unfold liveOf; rw [hents', List.filter_append, List.filter_cons, if_neg (by rw [hdead]; simp)]
  -- the files
  have hfiles := hd.files
  rw [hlv] at hfiles
  obtain ⟨T1, t, T2, hT, hA2, hce, hB2⟩ := hfiles.split
  have htt : t = t0 := TsChain.unique hce.1 hch0.1
  subst htt
  have hlen1 := hA2.length_eq
  have hvf : (volOf w.img w.c sb L).files =
      filesOf w.img w.c (A.filter isLive) T1 ++ recOf w.img w.c (entryAt (sec w.img u) k) t :: filesOf w.img w.c (B.filter isLive) T2 := by
    show filesOf w.img w.c (liveOf w.img L.cat) L.tsls = _
    rw [hlv, hT, filesOf_append hlen1, filesOf_cons]
  have hagree : ∀ f ∈ (volOf w.img w.c sb L).files, ∀ x ∈ f.owned, sec w'.img x = sec w.img x := by
    intro f hf x hx
    exact hsecO x (fun (e : x = u) => hown f hf (e ▸ hx)) (fun (e : x = vtocTrack * w.c) => hown17 f hf (e ▸ hx))
  have hF1 := filesOf_congr hsz hA2 (fun f hf => hagree f (by rw [hvf]; exact List.mem_append_left _ hf))
  have hF2 := filesOf_congr hsz hB2 (fun f hf => hagree f (by rw [hvf]; exact List.mem_append_right _ (List.mem_cons_of_mem _ hf)))
  have hvf' : filesOf w'.img w.c (liveOf w'.img L.cat) (T1 ++ T2) =
      filesOf w.img w.c (A.filter isLive) T1 ++ filesOf w.img w.c (B.filter isLive) T2 := by
    rw [hlv', filesOf_append hlen1, hF1.1, hF2.1]
  -- the free list
  have hfo : ∀ x ∈ (recOf w.img w.c (entryAt (sec w.img u) k) t).owned, x < 35 * w.c := by
    intro x hx
    have := (wfB_iff.1 hi.wf).1 x (List.mem_flatMap.2 ⟨_, by rw [hvf]; simp, hx⟩)
    exact this.2
  have hc0 : 0 < w.c := by rcases hok.hc with e | e <;> omega
  have hfree : ∀ x, x ∈ freeOf w'.img w.c ↔ x ∈ (volOf w.img w.c sb L).freeUnits ∨ x ∈ (recOf w.img w.c (entryAt (sec w.img u) k) t).owned := by
    intro x
    show _ ↔ x ∈ freeOf w.img w.c ∨ _
    rw [mem_freeOf, mem_freeOf, hvt, vtocOf_img hok, sectorFree_eq, sectorFree_eq]
    by_cases hx : x < 35 * w.c
    · have hxt : x / w.c < 35 := (Nat.div_lt_iff_lt_mul hc0).2 hx
      have hxs : x % w.c < w.c := Nat.mod_lt _ hc0
      rw [mapVal_quantize hfr.ok.vlen hxt, mapVal_quantize hok.vlen hxt]
      have hb := hfr.bits (x / w.c) (x % w.c) hxt hxs
      unfold bitFree at hb
      rw [hb]
      have hxe : x / w.c * w.c + x % w.c = x := by rw [Nat.mul_comm]; exact Nat.div_add_mod x w.c
      rw [hxe]
      simp only [hx, true_and, Bool.or_eq_true, decide_eq_true_eq, mem_chainUnits_owned (e := entryAt (sec w.img u) k)]
    · constructor
      · intro h; exact absurd h.1 hx
      · rintro (h | h)
        · exact absurd h.1 hx
        · exact absurd (hfo x h) hx
  have hfnd : (freeOf w'.img w.c).Nodup := (List.filter_sublist (l := List.range (35 * w.c))).nodup List.nodup_range
  have hvol : volOf w'.img w.c sb { cat := L.cat, tsls := T1 ++ T2 } = removed (volOf w.img w.c sb L)
      (filesOf w.img w.c (A.filter isLive) T1) (filesOf w.img w.c (B.filter isLive) T2) (freeOf w'.img w.c) := by
    unfold volOf removed
    simp only [hvf', hgv 6 (by decide)]
    rfl
  refine ⟨T1, T2, _, _, hT, ⟨hok', ?_, ?_, ?_, hi.catNe, by rw [hc']; exact hi.cover,
    by rw [hv']; unfold Vtoc.track1; rw [hfr.low 1 (by decide)]; exact hi.track1,
    by rw [hv']; unfold Vtoc.lastTrack; rw [hfr.low 0x30 (by decide)]; exact hi.lastTrack⟩, hvf, hfnd, hfree, hvol⟩
  · rw [hc']
    refine ⟨hd.hc, by rw [hsz]; exact hd.size, by rw [hgv _ (by decide)]; exact hd.vTracks, by rw [hgv _ (by decide)]; exact hd.vSpt,
      by rw [hgv _ (by decide)]; exact hd.vPairs, by rw [hgv _ (by decide), hgv _ (by decide)]; exact hcatch, hd.catNodup, hd.catLen, ?_⟩
    show All2 (FileChain w'.img w.c) (liveOf w'.img L.cat) (T1 ++ T2)
    rw [hlv']
    exact All2.append hF1.2 hF2.2
  · rw [hc', hvol]
    exact wfB_remove hvf hi.wf hfnd hfree
  · intro e he
    have he' : e ∈ liveOf w'.img L.cat := he
    rw [hlv'] at he'
    apply hi.names e
    rw [hlv]
    rcases List.mem_append.1 he' with h | h
    · exact List.mem_append_left _ h
    · exact List.mem_append_right _ (List.mem_cons_of_mem _ h)


/-! ## the sector `delete` writes -/

def delSector (b : Bytes) (k : Nat) : Bytes :=
  splice (splice b (entryOff k + 3 + 29) [Dir.tslTrack b k]) (entryOff k) [255]

theorem entsOfSec_update {b b' : Bytes} {k : Nat} (hk : k < 7)
    (hoth : ∀ j, j < 7 → j ≠ k → entryAt b' j = entryAt b j) :
    entsOfSec b' = (entsOfSec b).take k ++ entryAt b' k :: (entsOfSec b).drop (k + 1) := by
  apply List.ext_getElem?
  intro i
  rw [entsOfSec_eq, entsOfSec_eq]
  by_cases hi : i < 7
  · rw [List.getElem?_map, List.getElem?_range hi]
    by_cases hik : i < k
    · rw [List.getElem?_append_left (by simp; omega), List.getElem?_take, if_pos hik, List.getElem?_map, List.getElem?_range hi]
      simp only [Option.map_some]
      rw [hoth i hi (by omega)]
    · by_cases hik2 : i = k
      · subst hik2
        rw [List.getElem?_append_right (by simp; omega)]
        simp [Nat.min_eq_left (Nat.le_of_lt hk)]
      · rw [List.getElem?_append_right (by simp; omega)]
        have hl : (((List.range 7).map (entryAt b)).take k).length = k := by simp; omega
        rw [hl]
        have : i - k = (i - k - 1) + 1 := by omega
        rw [this, List.getElem?_cons_succ, List.getElem?_drop, List.getElem?_map]
        have e2 : k + 1 + (i - k - 1) = i := by omega
        rw [e2, List.getElem?_range hi]
        simp only [Option.map_some]
        rw [hoth i hi hik2]
  · rw [List.getElem?_eq_none (by simp; omega), List.getElem?_eq_none (by simp; omega)]

section delsec
variable {b : Bytes} {k : Nat} (hb : b.length = 256) (hk : k < 7)
include hb hk

theorem delSector_length : (delSector b k).length = 256 := by
  unfold delSector entryOff
  rw [splice_length (by rw [splice_length (by simp; omega)]; simp; omega), splice_length (by simp; omega), hb]

theorem delSector_getD_low {i : Nat} (hi : i < entryOff k) : (delSector b k).getD i 0 = b.getD i 0 := by
  unfold delSector entryOff at *
  have h1 : (splice b (11 + 35 * k + 3 + 29) [Dir.tslTrack b k]).length = 256 := by rw [splice_length (by simp; omega), hb]
  rw [getD_splice_other (e := splice b (11 + 35 * k + 3 + 29) [Dir.tslTrack b k]) (new := [255]) (by simp; omega) (by omega),
    getD_splice_other (e := b) (new := [Dir.tslTrack b k]) (by simp; omega) (by omega)]

theorem delSector_entry_other {j : Nat} (hj : j < 7) (hne : j ≠ k) : entryAt (delSector b k) j = entryAt b j := by
  unfold entryAt delSector entryOff
  have h1 : (splice b (11 + 35 * k + 3 + 29) [Dir.tslTrack b k]).length = 256 := by rw [splice_length (by simp; omega), hb]
  rw [slice_splice_other (by simp; omega) (by simp; rcases Nat.lt_or_gt_of_ne hne with h | h <;> omega),
    slice_splice_other (by simp; omega) (by simp; rcases Nat.lt_or_gt_of_ne hne with h | h <;> omega)]

theorem delSector_dead : isLive (entryAt (delSector b k) k) = false := by
  unfold isLive entryAt delSector entryOff
  have h1 : (splice b (11 + 35 * k + 3 + 29) [Dir.tslTrack b k]).length = 256 := by rw [splice_length (by simp; omega), hb]
  rw [getD_slice (by omega)]
  have := getD_splice_in (e := splice b (11 + 35 * k + 3 + 29) [Dir.tslTrack b k]) (new := [255]) (off := 11 + 35 * k) (j := 0)
    (by simp; omega) (by simp)
  rw [this]
  simp

end delsec

theorem dir_tslSector_eq (b : Bytes) (k : Nat) : Dir.tslSector b k = (entryAt b k).getD 1 0 := by
  unfold Dir.tslSector entryAt entryOff
  rw [getD_slice (by omega)]

theorem filesOf_mem_left {r : Raw} {c : Nat} {R : Bytes → List Nat → Prop} {L : List Bytes} {T : List (List Nat)} (h : All2 R L T)
    {e : Bytes} (he : e ∈ L) : ∃ t, R e t ∧ recOf r c e t ∈ filesOf r c L T := by
  induction h with
  | nil => cases he
  | @cons e' t' L T hab _ ih =>
    rw [filesOf_cons]
    rcases List.mem_cons.1 he with rfl | he
    · exact ⟨t', hab, List.mem_cons_self⟩
    · obtain ⟨t, hr, hm⟩ := ih he
      exact ⟨t, hr, List.mem_cons_of_mem _ hm⟩

theorem freeLoop_spec' {r : Raw} {mp : Nat} (hmp : mp = 122) (tsl : List Nat) {w : W} (fuel t s : Nat) (buf : Bytes) (h : WOk w)
    (hch : TsChain r w.c t s tsl) (hag : ∀ u ∈ tsl, u ≠ vtocTrack * w.c ∧ sec w.img u = sec r u) (hf : tsl.length ≤ fuel) (hb : buf.length = 256) :
    ∃ v', freeLoop mp fuel t s buf w = (.ok true, w.withV v') ∧ FreedBy w.v v' w.c (chainUnits r w.c tsl) := by
  subst hmp
  exact freeLoop_spec tsl fuel t s buf h hch hag hf hb

/-! ## `deleteM` -/

theorem deleteM_eval {w : W} {sb : List Nat} {L : Lay} (hi : WInv w sb L) {name fname : Bytes}
    (hfn : stringToFileName name = .ok fname) :
    deleteM name w =
      match findIn w.img w.c fname L.cat with
      | none => (.error .fileNotFound, w)
      | some (dt, ds, dir, k) =>
        if Dir.fileType dir k > 127 then (.error .writeProtected, w)
        else match freeLoop (Vtoc.maxPairs w.v) maxTslistReps (Dir.tslTrack dir k) (Dir.tslSector dir k) dir w with
          | (.ok true, w1) => writeSectorM (delSector dir k) dt ds w1
          | (.ok false, w1) => (.error .endOfData, w1)
          | (.error e, w1) => (.error e, w1) := by
  unfold deleteM
  simp only [M.bind_apply, M.getV_apply, M.lift_apply, hfn, findEntry_ok hi]
  cases hf : findIn w.img w.c fname L.cat with
  | none => rfl
  | some res =>
    obtain ⟨dt, ds, dir, k⟩ := res
    simp only
    by_cases hlk : Dir.fileType dir k > 127
    · simp only [hlk, if_true, M.bind_apply, M.fail_apply]
    · simp only [hlk, if_false, M.bind_apply, M.pure_apply]
      generalize freeLoop (Vtoc.maxPairs w.v) maxTslistReps (Dir.tslTrack dir k) (Dir.tslSector dir k) dir w = out
      obtain ⟨res, w1⟩ := out
      cases res with
      | error e => rfl
      | ok bb => cases bb <;> rfl

/-- `delete` refines the specification -/
theorem deleteM_refines {P : FsParams} {w : W} {sb : List Nat} {L : Lay} (hi : WInv w sb L) {name fname : Bytes}
    (hfn : stringToFileName name = .ok fname) :
    ∃ res w' L', deleteM name w = (res, w') ∧ WInv w' sb L' ∧ w'.c = w.c ∧
      StepL P (volOf w.img w.c sb L) (.delete (pathOfName fname)) (isOk res) (volOf w'.img w.c sb L') True := by
  rw [deleteM_eval hi hfn]
  cases hf : findIn w.img w.c fname L.cat with
  | none => exact ⟨_, _, L, rfl, hi, rfl, StepL.refused_same hi.wf _ _⟩
  | some res =>
    obtain ⟨dt, ds, dir, k⟩ := res
    simp only
    by_cases hlk : Dir.fileType dir k > 127
    · rw [if_pos hlk]; exact ⟨_, _, L, rfl, hi, rfl, StepL.refused_same hi.wf _ _⟩
    · rw [if_neg hlk]
      obtain ⟨u, hu, hdt, hds, hdir, hm⟩ := findIn_some hf
      obtain ⟨hk, hname, hlive⟩ := matchEntry_some hm
      subst hdir
      obtain ⟨t', s', ht', hs', hue, hult⟩ := catChain_mem hi.desc.cat u hu
      rw [W.img_size] at hult
      have hdm := div_mod_unit (t := t') hs'
      rw [← hue] at hdm
      have hbl : (sec w.img u).length = 256 := sec_img_length hi.ok hult
      obtain ⟨hne17, hown⟩ := cat_unit_facts hi.wf hu
      have hnev : ¬ (t' = vtocTrack ∧ s' = 0) := fun e => hne17 (by rw [hue]; exact (unit_idx hs').2 e)
      -- the file's chain
      have hel : entryAt (sec w.img u) k ∈ liveOf w.img L.cat := mem_liveOf.2 ⟨u, hu, k, hk, rfl, hlive⟩
      obtain ⟨t0, hch0, hfm⟩ := filesOf_mem_left (r := w.img) (c := w.c) hi.desc.files hel
      have hfm' : recOf w.img w.c (entryAt (sec w.img u) k) t0 ∈ (volOf w.img w.c sb L).files := hfm
      have h17 := owned_ne_vtoc hi.wf _ hfm'
      obtain ⟨v', hfl, hfr⟩ := freeLoop_spec' (r := w.img) hi.ok.vPairs t0 (w := w) maxTslistReps (Dir.tslTrack (sec w.img u) k)
        (Dir.tslSector (sec w.img u) k) (sec w.img u) hi.ok (by rw [dir_tslTrack_eq, dir_tslSector_eq]; exact hch0.1)
        (fun x hx => ⟨fun e => h17 (e ▸ List.mem_append_left _ hx), rfl⟩) hch0.2.1 hbl
      rw [hfl]
      simp only
      -- the catalog sector
      have hok1 : WOk (w.withV v') := hi.ok.setV hfr.ok
      have hused : bitFree (w.withV v').v (w.withV v').c t' s' = false := by
        show bitFree v' w.c t' s' = false
        rw [hfr.bits t' s' ht' hs', cat_used hi ht' hs' (hue ▸ hu)]
        have : ¬ (t' * w.c + s' ∈ chainUnits w.img w.c t0) := by
          rw [← hue, mem_chainUnits_owned (e := entryAt (sec w.img u) k)]
          exact hown _ hfm'
        simp [this]
      have hwr := writeSectorM_used hok1 (t := t') (s := s') (data := delSector (sec w.img u) k) ht' hs' hnev
        (delSector_length hbl hk) hused
      rw [hdt, hds, hdm.1, hdm.2, hwr]
      obtain ⟨T1, T2, F1, F2, hT, hinv, hfiles, hfnd, hfree, hvol⟩ := delete_entry hi hu hk hlive hch0 hfr
        (delSector_length hbl hk) (delSector_getD_low hbl hk (by unfold entryOff; omega))
        (delSector_getD_low hbl hk (by unfold entryOff; omega))
        (entsOfSec_update hk (fun j hj hne => delSector_entry_other hbl hk hj hne)) (delSector_dead hbl hk)
      rw [hdm.1, hdm.2] at hinv hfnd hfree hvol
      have hvv : (w.withV v').v = v' := rfl
      rw [hvv]
      refine ⟨_, _, _, rfl, hinv, rfl, ?_⟩
      rw [hvol]
      have hp : (recOf w.img w.c (entryAt (sec w.img u) k) t0).path = pathOfName fname := by
        show pathOfName (slice (entryAt (sec w.img u) k) 3 30) = _; rw [hname]
      rw [← hp]
      refine ⟨?_, fun _ => noLeak_removed hfiles hfree⟩
      apply stepOk_delete_removed hfiles hi.wf hfnd hfree
      show decide ((entryAt (sec w.img u) k).getD 2 0 ≥ 128) = false
      rw [← dir_fileType_eq]
      simp only [decide_eq_false_iff_not]
      omega

end A2Verif.Fs.Dos3x
