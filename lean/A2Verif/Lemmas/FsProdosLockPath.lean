import A2Verif.Lemmas.FsProdosFind
/-!
# `lock(path)` / `unlock(path)` for a file of the volume directory refine the abstract operations

The unconditional form of `lock_refines` / `unlock_refines` for paths of one component: what the search finds is what the
reader lists (`find_root_reaches`), so the abstract operation is `lock` / `unlock` of the canonical (upper-cased) name.
-/
namespace A2Verif.FsProdos
open A2Verif.Fs.Prodos
open A2Verif.Read.Prodos (entryAt)
open A2Verif.Read.ProdosT

/-- what the theorems assume about the blocks of the volume directory chain: none is a cached bitmap block, the buffer
covers them, each is a full block of bytes whose last byte is zero (as every directory block a2kit writes) -/
def ChainOk (d : Disk) (buf : Array Nat) (ch : List Nat) : Prop :=
  ∀ b ∈ ch, d.bitmapBlocks.contains b = false ∧ b / 8 < buf.size ∧
    ∀ blk, d.raw.units[b]? = some blk → blk.length = 512 ∧ blk.getD 511 0 = 0 ∧ ∀ k, blk.getD k 0 < 256

theorem mem_sys_of_chain (v : Vol) (ch : List Nat) (nbm bm : Nat) (hs : v.sys = [0, 1] ++ ch ++ (List.range nbm).map (· + bm))
    (b : Nat) (hb : b ∈ ch) : b ∈ v.sys := by
  rw [hs]; simp [hb]

/-- **`lock(path)` of a file of the volume directory refines the abstract `lock` of its canonical name.** -/
theorem lock_path_refines (d d' : Disk) (buf : Array Nat) (path vn nm kb : Bytes) (v : Vol)
    (hkb : d.raw.units[2]? = some kb) (h2nb : d.bitmapBlocks.contains 2 = false)
    (hnodes : normalizePath (volName (slice kb 4 entryLen)) path = .ok [vn, nm])
    (hopen : d.bitmap = some buf)
    (hread : Read.ProdosT.read d.raw = .ok v) (hwf : v.wfB = true)
    (hgeo : kb.getD 35 0 = 39 ∧ kb.getD 36 0 = 13)
    (hch : ∀ fsL ch, readTree d.raw v.hi = .ok (fsL, ch) → ChainOk d buf ch)
    (hrun : lock path d = (.ok (), d')) :
    ∃ v', Read.ProdosT.read d'.raw = .ok v' ∧ v'.wfB = true ∧
      stepOk { eofRule := id, keepsType := true, keepsAux := true, hasLock := true } v (.lock (upper nm)) true v' = true := by
  obtain ⟨keyBlk, fsL, ch, freeU, hk2, _, _, hbmr, htree, _, hv⟩ := read_inv d.raw v hread
  have hkk : keyBlk = kb := by rw [hkb] at hk2; exact (Option.some.inj hk2).symm
  subst hkk
  have hhi : v.hi = le16 keyBlk 41 := by rw [hv]
  rw [← hhi] at htree
  have hcok := hch fsL ch htree
  -- the search
  unfold lock at hrun
  simp only [bind_def] at hrun
  obtain ⟨loc, d1, hfind, hmodify⟩ := bind_split _ _ d d' () hrun
  obtain ⟨hd1, blk, f, hblk, hidx, hmem, hst, hfl, _, hbase⟩ :=
    find_root_reaches d d1 path vn nm loc keyBlk v.hi fsL ch hkb h2nb hnodes hfind htree (fun b hb => (hcok b hb).1) hgeo
  rw [hd1] at hfind hmodify
  obtain ⟨hnb, hcov, hblkok⟩ := hcok loc.block hmem
  obtain ⟨hlen, h511, hbytes⟩ := hblkok blk hblk
  -- the block of the entry is a system block: no record owns it, it is no bitmap block
  have hsys : loc.block ∈ v.sys := by rw [hv]; simp [hmem]
  have hnd := (wfB_iff.1 hwf).2.1
  have hBown : loc.block ∉ v.allOwned := by
    intro ho
    rw [List.nodup_append] at hnd
    exact hnd.2.2 _ ho _ hsys rfl
  have hbm : ∀ kb', d.raw.units[2]? = some kb' → loc.block < le16 kb' 39 ∨ le16 kb' 39 + (le16 kb' 41 + 4095) / 4096 ≤ loc.block := by
    intro kb' hk'
    have : kb' = keyBlk := by rw [hkb] at hk'; exact (Option.some.inj hk').symm
    subst this
    rcases Nat.lt_or_ge loc.block (le16 kb' 39) with hlt | hge
    · exact Or.inl hlt
    · rcases Nat.lt_or_ge loc.block (le16 kb' 39 + (le16 kb' 41 + 4095) / 4096) with hlt2 | hge2
      · exfalso
        -- then it would occur twice in `sys`
        have hs : v.sys = [0, 1] ++ ch ++ (List.range ((le16 kb' 41 + 4095) / 4096)).map (· + le16 kb' 39) := by rw [hv]
        have hin : loc.block ∈ (List.range ((le16 kb' 41 + 4095) / 4096)).map (· + le16 kb' 39) := by
          rw [List.mem_map]; exact ⟨loc.block - le16 kb' 39, List.mem_range.mpr (by omega), by omega⟩
        have hsn : v.sys.Nodup := (List.nodup_append.mp hnd).2.1
        rw [hs, List.nodup_append] at hsn
        exact hsn.2.2 _ (by simp [hmem]) _ hin rfl
      · exact Or.inr hge2
  have hfile : (entryAt blk (loc.idx - 1) 39).getD 0 0 / 16 ≠ 0xD := by omega
  have habyte : Ent.access (slice (blk.take dirLen) (Dir.entryOff loc.idx) entryLen) < 256 := by
    unfold Ent.access
    rw [getD_slice _ _ _ _ (by unfold entryLen; omega)]
    simp only [List.getD_eq_getElem?_getD]
    have hrng := idxOk_range loc blk hidx
    rw [List.getElem?_take_of_lt (by unfold dirLen Dir.entryOff entryLen; omega)]
    have := hbytes (Dir.entryOff loc.idx + 30)
    simpa [List.getD_eq_getElem?_getD] using this
  obtain ⟨d'', v', hlock, hr', hwf', hstep⟩ := lock_refines d buf path loc blk v hfind hnb hblk hlen h511 hidx hopen hcov habyte
    hread hwf (fun kb' hk' => by rw [hkb] at hk'; rw [← Option.some.inj hk']; exact hgeo) hBown hfile hbm
    (fun fsL' ch' ht' => by
      rw [htree] at ht'
      have : fsL' = fsL := by injection ht' with h; injection h with h1 _; exact h1.symm
      subst this
      exact ⟨(f, (loc.block, loc.idx)), hfl, rfl⟩)
  have hdd : d'' = d' := by
    unfold lock at hlock
    simp only [bind_def] at hlock
    rw [bind_ok _ _ d d _ hfind] at hlock
    rw [hmodify] at hlock
    injection hlock with _ h2; exact h2.symm
  subst hdd
  rw [hbase] at hstep
  exact ⟨v', hr', hwf', hstep⟩

/-- **`unlock(path)` of a file of the volume directory refines the abstract `unlock` of its canonical name.** -/
theorem unlock_path_refines (d d' : Disk) (buf : Array Nat) (path vn nm kb : Bytes) (v : Vol)
    (hkb : d.raw.units[2]? = some kb) (h2nb : d.bitmapBlocks.contains 2 = false)
    (hnodes : normalizePath (volName (slice kb 4 entryLen)) path = .ok [vn, nm])
    (hopen : d.bitmap = some buf)
    (hread : Read.ProdosT.read d.raw = .ok v) (hwf : v.wfB = true)
    (hgeo : kb.getD 35 0 = 39 ∧ kb.getD 36 0 = 13)
    (hch : ∀ fsL ch, readTree d.raw v.hi = .ok (fsL, ch) → ChainOk d buf ch)
    (hrun : unlock path d = (.ok (), d')) :
    ∃ v', Read.ProdosT.read d'.raw = .ok v' ∧ v'.wfB = true ∧
      stepOk { eofRule := id, keepsType := true, keepsAux := true, hasLock := true } v (.unlock (upper nm)) true v' = true := by
  obtain ⟨keyBlk, fsL, ch, freeU, hk2, _, _, hbmr, htree, _, hv⟩ := read_inv d.raw v hread
  have hkk : keyBlk = kb := by rw [hkb] at hk2; exact (Option.some.inj hk2).symm
  subst hkk
  have hhi : v.hi = le16 keyBlk 41 := by rw [hv]
  rw [← hhi] at htree
  have hcok := hch fsL ch htree
  -- the search
  unfold unlock at hrun
  simp only [bind_def] at hrun
  obtain ⟨loc, d1, hfind, hmodify⟩ := bind_split _ _ d d' () hrun
  obtain ⟨hd1, blk, f, hblk, hidx, hmem, hst, hfl, _, hbase⟩ :=
    find_root_reaches d d1 path vn nm loc keyBlk v.hi fsL ch hkb h2nb hnodes hfind htree (fun b hb => (hcok b hb).1) hgeo
  rw [hd1] at hfind hmodify
  obtain ⟨hnb, hcov, hblkok⟩ := hcok loc.block hmem
  obtain ⟨hlen, h511, hbytes⟩ := hblkok blk hblk
  -- the block of the entry is a system block: no record owns it, it is no bitmap block
  have hsys : loc.block ∈ v.sys := by rw [hv]; simp [hmem]
  have hnd := (wfB_iff.1 hwf).2.1
  have hBown : loc.block ∉ v.allOwned := by
    intro ho
    rw [List.nodup_append] at hnd
    exact hnd.2.2 _ ho _ hsys rfl
  have hbm : ∀ kb', d.raw.units[2]? = some kb' → loc.block < le16 kb' 39 ∨ le16 kb' 39 + (le16 kb' 41 + 4095) / 4096 ≤ loc.block := by
    intro kb' hk'
    have : kb' = keyBlk := by rw [hkb] at hk'; exact (Option.some.inj hk').symm
    subst this
    rcases Nat.lt_or_ge loc.block (le16 kb' 39) with hlt | hge
    · exact Or.inl hlt
    · rcases Nat.lt_or_ge loc.block (le16 kb' 39 + (le16 kb' 41 + 4095) / 4096) with hlt2 | hge2
      · exfalso
        -- then it would occur twice in `sys`
        have hs : v.sys = [0, 1] ++ ch ++ (List.range ((le16 kb' 41 + 4095) / 4096)).map (· + le16 kb' 39) := by rw [hv]
        have hin : loc.block ∈ (List.range ((le16 kb' 41 + 4095) / 4096)).map (· + le16 kb' 39) := by
          rw [List.mem_map]; exact ⟨loc.block - le16 kb' 39, List.mem_range.mpr (by omega), by omega⟩
        have hsn : v.sys.Nodup := (List.nodup_append.mp hnd).2.1
        rw [hs, List.nodup_append] at hsn
        exact hsn.2.2 _ (by simp [hmem]) _ hin rfl
      · exact Or.inr hge2
  have hfile : (entryAt blk (loc.idx - 1) 39).getD 0 0 / 16 ≠ 0xD := by omega
  have habyte : Ent.access (slice (blk.take dirLen) (Dir.entryOff loc.idx) entryLen) < 256 := by
    unfold Ent.access
    rw [getD_slice _ _ _ _ (by unfold entryLen; omega)]
    simp only [List.getD_eq_getElem?_getD]
    have hrng := idxOk_range loc blk hidx
    rw [List.getElem?_take_of_lt (by unfold dirLen Dir.entryOff entryLen; omega)]
    have := hbytes (Dir.entryOff loc.idx + 30)
    simpa [List.getD_eq_getElem?_getD] using this
  obtain ⟨d'', v', hlock, hr', hwf', hstep⟩ := unlock_refines d buf path loc blk v hfind hnb hblk hlen h511 hidx hopen hcov habyte
    hread hwf (fun kb' hk' => by rw [hkb] at hk'; rw [← Option.some.inj hk']; exact hgeo) hBown hfile hbm
    (fun fsL' ch' ht' => by
      rw [htree] at ht'
      have : fsL' = fsL := by injection ht' with h; injection h with h1 _; exact h1.symm
      subst this
      exact ⟨(f, (loc.block, loc.idx)), hfl, rfl⟩)
  have hdd : d'' = d' := by
    unfold unlock at hlock
    simp only [bind_def] at hlock
    rw [bind_ok _ _ d d _ hfind] at hlock
    rw [hmodify] at hlock
    injection hlock with _ h2; exact h2.symm
  subst hdd
  rw [hbase] at hstep
  exact ⟨v', hr', hwf', hstep⟩

end A2Verif.FsProdos
