import A2Verif.Lemmas.RenumberPerm
import A2Verif.Lemmas.RenumberDoc
import A2Verif.Lemmas.RenumberSel
/-!
Part 12 (C16): from `labelsOK` to the hypotheses of the text lemmas.
-/
namespace A2Verif.Lemmas.Renumber
open A2Verif.Model.Renumber

/-! geometry of a label that satisfies `labelOK` -/

theorem labelOK_geom {lines : List (List Nat)} {nl : Nat × Label} (h : labelOK lines nl = true) :
    ∃ l, lines[nl.2.rng.s.line]? = some l ∧ nl.2.rng.e.line = nl.2.rng.s.line ∧
      nl.2.rng.s.ch < nl.2.rng.e.ch ∧ nl.2.rng.e.ch ≤ l.length := by
  unfold labelOK at h
  split at h
  · cases h
  · rename_i t hs
    unfold sliceOf at hs
    split at hs
    · cases hs
    · rename_i l hl
      split at hs
      · rename_i hc
        injection hs with hs
        refine ⟨l, hl, hc.1.symm, ?_, hc.2.2⟩
        simp only [Bool.and_eq_true, Bool.not_eq_eq_eq_not, Bool.not_true] at h
        have hne : t ≠ [] := by
          intro ht
          rw [ht] at h
          simp at h
        have hlen : t.length ≤ nl.2.rng.e.ch - nl.2.rng.s.ch := by
          rw [← hs]; exact List.length_take_le _ _
        have : 0 < t.length := List.length_pos_iff.mpr hne
        omega
      · cases hs

/-! the new text of a label -/

theorem digitsAux_mem (fuel n : Nat) (acc : List Nat) (h : ∀ c ∈ acc, 48 ≤ c ∧ c ≤ 57) :
    ∀ c ∈ digitsAux fuel n acc, 48 ≤ c ∧ c ≤ 57 := by
  induction fuel generalizing n acc with
  | zero => simpa [digitsAux] using h
  | succ f ih =>
    unfold digitsAux
    split
    · intro c hc
      rcases List.mem_cons.mp hc with rfl | hc
      · omega
      · exact h c hc
    · apply ih
      intro c hc
      rcases List.mem_cons.mp hc with rfl | hc
      · omega
      · exact h c hc

theorem digitsAux_ne_nil (fuel n : Nat) (acc : List Nat) (h : fuel ≠ 0 ∨ acc ≠ []) :
    digitsAux fuel n acc ≠ [] := by
  induction fuel generalizing n acc with
  | zero =>
    rcases h with h | h
    · exact absurd rfl h
    · simpa [digitsAux] using h
  | succ f ih =>
    unfold digitsAux
    split
    · simp
    · exact ih _ _ (Or.inr (by simp))

theorem applyMapping_new (n : Nat) (lab : Label) :
    NoNl (applyMapping n lab).new ∧ (applyMapping n lab).new ≠ [] := by
  have hd : ∀ c ∈ digits n, 48 ≤ c ∧ c ≤ 57 := digitsAux_mem _ _ [] (by intro c hc; cases hc)
  have hne : digits n ≠ [] := digitsAux_ne_nil _ _ [] (Or.inl (by omega))
  constructor
  · intro c hc
    simp only [applyMapping, List.mem_append, List.mem_replicate, SP] at hc
    rcases hc with (⟨_, rfl⟩ | hc) | ⟨_, rfl⟩
    · decide
    · have := hd c hc; omega
    · decide
  · simp [applyMapping, hne]

theorem editOf_new {mapping : List (Nat × Nat)} {keep : Label → Bool} {x : Nat × Label} {e : Edit}
    (h : editOf mapping keep x = some e) : NoNl e.new ∧ e.new ≠ [] := by
  unfold editOf at h
  split at h
  · split at h
    · injection h with h; rw [← h]; exact applyMapping_new _ _
    · cases h
  · cases h

/-! the edit list is pairwise disjoint -/

theorem mem_ungroup_group {xs : List (Nat × Label)} {x : Nat × Label} : x ∈ ungroup (group xs) ↔ x ∈ xs :=
  (ungroup_group_perm xs).mem_iff

theorem pairwise_ungroup_group {xs : List (Nat × Label)} (h : xs.Pairwise DisjX) :
    (ungroup (group xs)).Pairwise DisjX :=
  ((ungroup_group_perm xs).pairwise_iff (fun h => disjX_symm h)).mpr h

/-- the no-move edit list as a function of the gathered labels -/
theorem noMove_edits_eq (mapping : List (Nat × Nat)) (sel : Range) (defs refs : List (Nat × Label)) :
    primEdits mapping (selGroup sel defs) ++ secEdits mapping (selGroup sel refs) (fun _ => true) ++
      secEdits mapping (group refs) (fun item => item.rng.s.line < sel.s.line || item.rng.e.line > sel.e.line) =
    (firsts (selGroup sel defs)).filterMap (editOf mapping (fun _ => true)) ++
      (ungroup (selGroup sel refs)).filterMap (editOf mapping (fun _ => true)) ++
      (ungroup (group refs)).filterMap
        (editOf mapping (fun item => item.rng.s.line < sel.s.line || item.rng.e.line > sel.e.line)) := by
  rw [primEdits_eq, secEdits_eq, secEdits_eq]

theorem edits_pairwise (mapping : List (Nat × Nat)) (sel : Range) (defs refs : List (Nat × Label))
    (hp : (defs ++ refs).Pairwise DisjX) (hrow : ∀ x ∈ refs, x.2.rng.e.line = x.2.rng.s.line) :
    (primEdits mapping (selGroup sel defs) ++ secEdits mapping (selGroup sel refs) (fun _ => true) ++
      secEdits mapping (group refs)
        (fun item => item.rng.s.line < sel.s.line || item.rng.e.line > sel.e.line)).Pairwise DisjE := by
  rw [noMove_edits_eq]
  obtain ⟨hpd, hpr, hcross⟩ := List.pairwise_append.mp hp
  have htri := pairwise_trichotomy hpr
  -- membership facts
  have m1 : ∀ x ∈ firsts (selGroup sel defs), x ∈ defs := by
    intro x hx
    have := (firsts_sublist _).subset hx
    unfold selGroup at this
    exact (List.mem_filter.mp (mem_ungroup_group.mp this)).1
  have m2 : ∀ x ∈ ungroup (selGroup sel refs), x ∈ refs ∧ inSel sel x.2 = true := by
    intro x hx
    unfold selGroup at hx
    exact List.mem_filter.mp (mem_ungroup_group.mp hx)
  have m3 : ∀ x ∈ ungroup (group refs), x ∈ refs := fun x hx => mem_ungroup_group.mp hx
  -- pairwise inside each part
  have p1 : (firsts (selGroup sel defs)).Pairwise DisjX := by
    refine List.Pairwise.sublist (firsts_sublist _) ?_
    unfold selGroup
    exact pairwise_ungroup_group (hpd.filter _)
  have p2 : (ungroup (selGroup sel refs)).Pairwise DisjX := by
    unfold selGroup
    exact pairwise_ungroup_group (hpr.filter _)
  have p3 : (ungroup (group refs)).Pairwise DisjX := pairwise_ungroup_group hpr
  have lift : ∀ (k : Label → Bool) (l : List (Nat × Label)), l.Pairwise DisjX →
      (l.filterMap (editOf mapping k)).Pairwise DisjE := by
    intro k l hl
    exact List.Pairwise.filterMap (R := DisjX) (S := DisjE) (editOf mapping k)
      (fun a a' haa b hb b' hb' => disjE_of_disjX haa hb hb') hl
  refine List.pairwise_append.mpr ⟨List.pairwise_append.mpr ⟨lift _ _ p1, lift _ _ p2, ?_⟩, lift _ _ p3, ?_⟩
  · intro a ha b hb
    obtain ⟨x, hx, hxa⟩ := List.mem_filterMap.mp ha
    obtain ⟨y, hy, hyb⟩ := List.mem_filterMap.mp hb
    exact disjE_of_disjX (hcross x (m1 x hx) y (m2 y hy).1) hxa hyb
  · intro a ha b hb
    obtain ⟨z, hz, hzb⟩ := List.mem_filterMap.mp hb
    rcases List.mem_append.mp ha with ha | ha
    · obtain ⟨x, hx, hxa⟩ := List.mem_filterMap.mp ha
      exact disjE_of_disjX (hcross x (m1 x hx) z (m3 z hz)) hxa hzb
    · obtain ⟨y, hy, hya⟩ := List.mem_filterMap.mp ha
      have hyin := (m2 y hy).2
      -- z is kept only if it lies outside the selected rows, y lies inside: they differ
      have hzout : (decide (z.2.rng.s.line < sel.s.line) || decide (z.2.rng.e.line > sel.e.line)) = true := by
        unfold editOf at hzb
        split at hzb
        · split at hzb
          · rename_i hk; exact hk
          · cases hzb
        · cases hzb
      have hne : y ≠ z := by
        intro hyz
        subst hyz
        have := hrow y (m2 y hy).1
        simp only [inSel, Bool.and_eq_true, decide_eq_true_eq] at hyin
        simp only [Bool.or_eq_true, decide_eq_true_eq] at hzout
        omega
      rcases htri y (m2 y hy).1 z (m3 z hz) with h | h | h
      · exact absurd h hne
      · exact disjE_of_disjX h hya hzb
      · exact disjE_of_disjX (disjX_symm h) hya hzb

/-! `apply_edits` on a pairwise disjoint list of single-row edits -/

theorem disjE_symm {a b : Edit} (h : DisjE a b) : DisjE b a := by
  unfold DisjE at *; omega

/-- **`apply_edits` = simultaneous substitution, row by row.**  `es` (in any order) are valid single-row edits
of the rows `ls` with non-empty ranges and non-empty new texts, pairwise disjoint.  Then `apply_edits` succeeds,
the result is a document with the same separator, the same final-newline state and the same number of rows, and
row `r` is `substAsc 0 row as` where `as` is an ascending disjoint `Chain` consisting of exactly the edits
addressed to row `r`. -/
theorem applyEdits_disjoint {d : List Nat} {ls : List (List Nat)} {t : Bool} (hd : IsDoc d ls t) (crlf : Bool)
    (es : List Edit)
    (hfit : ∀ ed ∈ es, EditOn ls ed ∧ ed.rng.s.ch < ed.rng.e.ch ∧ ed.new ≠ [])
    (hdis : es.Pairwise DisjE) :
    ∃ d' ls', applyEdits (if crlf then lfToCrlf d else d) es 0 = .ok (if crlf then lfToCrlf d' else d') ∧
      IsDoc d' ls' t ∧ ls'.length = ls.length ∧
      ∀ r l, ls[r]? = some l → ∃ as, Chain 0 l.length as ∧ ls'[r]? = some (substAsc 0 l as) ∧
        ∀ x, x ∈ as ↔ ∃ ed ∈ es, ed.rng.s.line = r ∧ x = toE1 ed := by
  have hperm := sortDesc_perm es
  have hmem : ∀ ed, ed ∈ sortDesc es ↔ ed ∈ es := fun ed => hperm.mem_iff
  have hfits : Fits ls (sortDesc es) := fun ed hed => (hfit ed ((hmem ed).mp hed)).1
  have hdis' : (sortDesc es).Pairwise DisjE := (hperm.pairwise_iff (fun h => disjE_symm h)).mpr hdis
  have hbefore : (sortDesc es).Pairwise Before := by
    refine List.Pairwise.imp_of_mem ?_ ((sortDesc_sorted es).and hdis')
    intro a b ha hb hab
    have h1 := (hfit a ((hmem a).mp ha)).2.1
    obtain ⟨hge, hdj⟩ := hab
    unfold EditGe at hge
    unfold DisjE at hdj
    unfold Before
    omega
  have hv := validSeq_of_fits (sortDesc es) ls hfits hbefore
  obtain ⟨d', happ, hd', hlen⟩ := applyEdits_doc hd crlf es hv
    (fun ed hed => (hfit ed ((hmem ed).mp hed)).2.2)
  refine ⟨d', _, happ, hd', hlen, ?_⟩
  intro r l hl
  let ds := ((sortDesc es).filter (fun ed => ed.rng.s.line == r)).map toE1
  have hrowf := foldl_rowsStep_getElem? (sortDesc es) ls r
  rw [hl] at hrowf
  have hp : ds.Pairwise (fun a b => b.e ≤ a.s) := by
    show (List.map toE1 _).Pairwise _
    rw [List.pairwise_map]
    refine List.Pairwise.imp_of_mem ?_ (hbefore.filter _)
    intro a b ha hb hab
    have ra := (List.mem_filter.mp ha).2
    have rb := (List.mem_filter.mp hb).2
    simp only [beq_iff_eq] at ra rb
    unfold Before at hab
    simp only [toE1]
    omega
  have hr : ∀ x ∈ ds, x.s ≤ x.e ∧ x.e ≤ l.length := by
    intro x hx
    obtain ⟨ed, hed, rfl⟩ := List.mem_map.mp hx
    obtain ⟨hin, hrow⟩ := List.mem_filter.mp hed
    simp only [beq_iff_eq] at hrow
    obtain ⟨⟨_, _, l', hl', h1, h2⟩, _, _⟩ := hfit ed ((hmem ed).mp hin)
    rw [hrow, hl] at hl'
    injection hl' with hl'
    subst hl'
    exact ⟨h1, h2⟩
  obtain ⟨hc, heq⟩ := foldl_replace1_eq_subst l ds hp hr
  refine ⟨ds.reverse, hc, ?_, ?_⟩
  · rw [hrowf]; simp only [Option.map_some]; rw [← heq]
  · intro x
    simp only [List.mem_reverse]
    constructor
    · intro hx
      obtain ⟨ed, hed, rfl⟩ := List.mem_map.mp hx
      obtain ⟨hin, hrow⟩ := List.mem_filter.mp hed
      simp only [beq_iff_eq] at hrow
      exact ⟨ed, (hmem ed).mp hin, hrow, rfl⟩
    · rintro ⟨ed, hed, hrow, rfl⟩
      exact List.mem_map.mpr ⟨ed, List.mem_filter.mpr ⟨(hmem ed).mpr hed, by simpa using hrow⟩, rfl⟩

/-! small facts needed by the final theorem -/

theorem vals_ne_nil_insertGrouped (k : Nat) (v : Label) (m : List (Nat × List Label))
    (h : ∀ x ∈ m, x.2 ≠ []) : ∀ x ∈ insertGrouped k v m, x.2 ≠ [] := by
  induction m with
  | nil => intro x hx; simp [insertGrouped] at hx; rw [hx]; simp
  | cons y ys ih =>
    obtain ⟨k0, vs0⟩ := y
    intro x hx
    unfold insertGrouped at hx
    split at hx
    · rcases List.mem_cons.mp hx with rfl | hx
      · simp
      · exact h x hx
    · split at hx
      · rcases List.mem_cons.mp hx with rfl | hx
        · simp
        · exact h x (List.mem_cons_of_mem _ hx)
      · rcases List.mem_cons.mp hx with rfl | hx
        · exact h _ (by simp)
        · exact ih (fun z hz => h z (List.mem_cons_of_mem _ hz)) x hx

theorem group_vals_ne_nil (xs : List (Nat × Label)) : ∀ x ∈ group xs, x.2 ≠ [] := by
  unfold group
  suffices ∀ m : List (Nat × List Label), (∀ x ∈ m, x.2 ≠ []) →
      ∀ x ∈ xs.foldl (fun m kv => insertGrouped kv.1 kv.2 m) m, x.2 ≠ [] from
    this [] (by intro x hx; cases hx)
  induction xs with
  | nil => intro m h; exact h
  | cons y ys ih => intro m h; exact ih _ (vals_ne_nil_insertGrouped _ _ _ h)

theorem splitLines_lfToCrlf (d : List Nat) (h : NoCR d) : splitLines (lfToCrlf d) = splitLines d := by
  induction d with
  | nil => rfl
  | cons c cs ih =>
    have ih' := ih (fun x hx => h x (by simp [hx]))
    unfold lfToCrlf
    split
    · rename_i hc; subst hc
      rw [splitLines.eq_2, splitLines_lf, ih']
    · rename_i hc
      have h13 := h c (by simp)
      rw [splitLines_cons_of_ne c _ hc h13, splitLines_cons_of_ne c _ hc h13, ih']

/-- the selection `renumber` passes, after `build_edits` has normalised it -/
theorem normSel_rows {lines : List (List Nat)} {ep : Pos} {l0 ln : Nat} {sel : Range} (hle : l0 ≤ ln)
    (h : normSel lines ep (some ⟨⟨l0, 0⟩, ⟨ln + 1, 0⟩⟩) = .ok sel) : sel.s.line = l0 ∧ sel.e.line = ln := by
  unfold normSel at h
  simp only [Nat.add_sub_cancel, true_and] at h
  rw [if_pos (by omega)] at h
  split at h
  · injection h with h; rw [← h]; exact ⟨rfl, rfl⟩
  · cases h

end A2Verif.Lemmas.Renumber
