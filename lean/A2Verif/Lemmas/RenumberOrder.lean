import A2Verif.Lemmas.RenumberSort
/-!
Part 15 (C16): the order of `apply_edits` including the tie-break (third key component = position in the edit
list), and how a sorted list splits along a predicate.
-/
namespace A2Verif.Lemmas.Renumber
open A2Verif.Model.Renumber

/-- what is known when `apply_edits es` applies `a` before `b`: `a` does not start before `b`, and if both start
at the same position then `a` stands later in the edit list than `b` (the `BTreeMap` key is
`(line, character, idx)`, iterated in reverse) -/
def AppliedBefore (es : List Edit) (a b : Edit) : Prop :=
  EditGe a b ∧ (EditGe b a → ∃ i j : Nat, j < i ∧ es[i]? = some a ∧ es[j]? = some b)

theorem mem_keyed {es : List Edit} {x : KE} (h : x ∈ keyed es) :
    es[x.1.2.2]? = some x.2 ∧ x.1.1 = x.2.rng.s.line ∧ x.1.2.1 = x.2.rng.s.ch := by
  unfold keyed at h
  obtain ⟨y, hy, rfl⟩ := List.mem_map.mp h
  exact ⟨List.mem_zipIdx_iff_getElem?.mp hy, rfl, rfl⟩

theorem keyed_idx_nodup (es : List Edit) : ((keyed es).map (fun x => x.1.2.2)).Nodup := by
  unfold keyed
  rw [List.map_map]
  have : ((fun x : KE => x.1.2.2) ∘ fun x : Edit × Nat => ((x.1.rng.s.line, x.1.rng.s.ch, x.2), x.1)) = Prod.snd := by
    funext x; rfl
  rw [this, List.zipIdx_map_snd]
  exact List.nodup_range' 1

/-- the order in which `apply_edits` applies the edits -/
theorem sortDesc_order (es : List Edit) : (sortDesc es).Pairwise (AppliedBefore es) := by
  unfold sortDesc
  rw [List.pairwise_reverse, List.pairwise_map]
  have hperm := sortKeys_perm (keyed es)
  have hnd : (sortKeys (keyed es)).Pairwise (fun a b => a.1.2.2 ≠ b.1.2.2) := by
    have := (hperm.map (fun x : KE => x.1.2.2)).nodup_iff.mpr (keyed_idx_nodup es)
    unfold List.Nodup at this
    rw [List.pairwise_map] at this
    exact this
  refine List.Pairwise.imp_of_mem ?_ ((sortKeys_sorted (keyed es)).and hnd)
  intro a b ha hb hab
  obtain ⟨ga, la, ca⟩ := mem_keyed (hperm.mem_iff.mp ha)
  obtain ⟨gb, lb, cb⟩ := mem_keyed (hperm.mem_iff.mp hb)
  obtain ⟨hle, hne⟩ := hab
  rw [keyLe_iff] at hle
  unfold AppliedBefore EditGe
  refine ⟨by omega, ?_⟩
  intro hge
  exact ⟨b.1.2.2, a.1.2.2, by omega, gb, ga⟩

/-- a list in which no element outside `p` may precede an element of `p` splits into its `p` part followed
by the rest -/
theorem filter_split {α : Type} (R : α → α → Prop) (p : α → Bool) (l : List α) (hl : l.Pairwise R)
    (hp : ∀ a ∈ l, ∀ b ∈ l, p a = true → p b = false → ¬ R b a) :
    l = l.filter p ++ l.filter (fun x => !p x) := by
  induction l with
  | nil => rfl
  | cons x xs ih =>
    have hl' := List.pairwise_cons.mp hl
    have ih' := ih hl'.2 (fun a ha b hb => hp a (List.mem_cons_of_mem _ ha) b (List.mem_cons_of_mem _ hb))
    cases hx : p x with
    | true =>
      simp only [List.filter_cons, hx, ↓reduceIte, Bool.not_true, Bool.false_eq_true, List.cons_append]
      rw [← ih']
    | false =>
      have hall : ∀ y ∈ xs, p y = false := by
        intro y hy
        cases hy' : p y with
        | false => rfl
        | true => exact absurd (hl'.1 y hy) (hp y (List.mem_cons_of_mem _ hy) x (by simp) hy' hx)
      have e1 : xs.filter p = [] := List.filter_eq_nil_iff.mpr (fun a ha => by simp [hall a ha])
      have e2 : xs.filter (fun x => !p x) = xs := List.filter_eq_self.mpr (fun a ha => by simp [hall a ha])
      simp [hx, e1, e2]

theorem applyLoop_append (row : Nat) (A B : List Edit) (d : List Nat) :
    applyLoop row (A ++ B) d = (applyLoop row A d).bind (applyLoop row B) := by
  induction A generalizing d with
  | nil => rfl
  | cons e es ih =>
    simp only [List.cons_append, applyLoop]
    split
    · rfl
    · cases replaceRange d _ e.new with
      | ok d' => simp only [Res.bind]; exact ih d'
      | err => rfl
      | panic => rfl

end A2Verif.Lemmas.Renumber
