import A2Verif.Lemmas.FsPascalFind
import A2Verif.Lemmas.FsPascalAbs
/-!
# Refinement of the directory-only operations: `delete`, `rename`, `retype`

For each operation of the concrete model: the invariant is preserved and the transition between the
abstract volumes denoted by the image before and after is one the abstract specification allows
(`stepOk`).  Core Lean only.
-/
namespace A2Verif.Fs.Pascal

/-- the parameters of the abstract specification for Pascal (as in `Drv/Fs.lean`) -/
def pascalParams : FsParams := { eofRule := id, keepsType := true, keepsAux := false, hasLock := false }

def okB {α : Type} : R α → Bool
  | .ok _ => true
  | .error _ => false

/-! ## saving a directory that satisfies the invariant -/

theorem fileOf_congr {r r' : Raw} {e : Bytes} (h : ∀ i, le16 e 0 ≤ i → r'.units[i]? = r.units[i]?) :
    fileOf r' e = fileOf r e := by
  unfold fileOf
  congr 1
  apply List.map_congr_left
  intro i _
  rw [h _ (by omega)]

theorem save_result {r : Raw} (h : Inv r) {h' : Bytes} {es' : List Bytes}
    (hinv : InvD r.units.size h' es') (hend : le16 h' 2 = dirEnd r) :
    ∃ r', saveDirectory r { header := h', entries := es' } = (.ok (), r') ∧ Inv r' ∧ hdr r' = h' ∧ allEntries r' = es' ∧
      r'.units.size = r.units.size ∧ ∀ i, dirEnd r ≤ i → r'.units[i]? = r.units[i]? := by
  have d := h.d
  have hsz : dirEnd r ≤ r.units.size := by have := d.dirEnd_total; have := d.total_size; unfold dirEnd; omega
  obtain ⟨r', h1, h2, h3, h4, h5, h6, h7⟩ := saveDirectory_spec (d := { header := h', entries := es' }) h.blocks d.dirEnd_gt hsz
    hinv.hlen hend (by
      show es'.length = (allEntries r).length
      rw [hinv.count, d.count, hend]; rfl) hinv.elen
  refine ⟨r', h1, ⟨blocks512B_iff.2 h3, ?_⟩, h5, h7, h2, fun i hi => h4 i (Or.inr hi)⟩
  rw [h2, h5, h7]
  exact hinv

/-! ## list facts for `delete` -/

theorem shiftDown_cons (x : Bytes) (xs : List Bytes) :
    shiftDown (x :: xs) = xs ++ [zeroBeginEnd ((x :: xs).getLast (List.cons_ne_nil _ _))] := by
  induction xs generalizing x with
  | nil => rfl
  | cons y ys ih =>
    show y :: shiftDown (y :: ys) = _
    rw [ih y]
    simp

theorem zeroBeginEnd_props {e : Bytes} (hl : e.length = 26) :
    le16 (zeroBeginEnd e) 0 = 0 ∧ (zeroBeginEnd e).length = 26 := by
  have l1 : (splice e 0 [0, 0]).length = 26 := by rw [splice_length (by rw [hl]; decide), hl]
  constructor
  · unfold zeroBeginEnd
    rw [le16_splice_other (by rw [l1]; decide) (Or.inl (Nat.le_refl _))]
    unfold le16
    rw [getD_splice (by rw [hl]; decide), getD_splice (by rw [hl]; decide)]
    simp
  · unfold zeroBeginEnd
    rw [splice_length (by rw [l1]; decide), l1]

theorem deleteEntries_eq {es : List Bytes} {idx : Nat} (hi : idx < es.length) (hl : ∀ e ∈ es, e.length = 26) :
    ∃ z, deleteEntries es idx = es.eraseIdx idx ++ [z] ∧ le16 z 0 = 0 ∧ z.length = 26 := by
  unfold deleteEntries
  rw [List.drop_eq_getElem_cons hi, shiftDown_cons, List.eraseIdx_eq_take_drop_succ, ← List.append_assoc]
  have hmem : (es[idx] :: List.drop (idx + 1) es).getLast (List.cons_ne_nil _ _) ∈ es := by
    have := List.getLast_mem (List.cons_ne_nil es[idx] (List.drop (idx + 1) es))
    have hsub : ∀ x ∈ es[idx] :: List.drop (idx + 1) es, x ∈ es := by
      intro x hx
      rw [← List.drop_eq_getElem_cons hi] at hx
      exact List.mem_of_mem_drop hx
    exact hsub _ this
  obtain ⟨a, b⟩ := zeroBeginEnd_props (hl _ hmem)
  exact ⟨_, rfl, a, b⟩

theorem take_pred_eraseIdx {α : Type} {l : List α} {i n : Nat} (hi : i < n) (hn : n ≤ l.length) :
    (l.eraseIdx i).take (n - 1) = (l.take n).eraseIdx i := by
  rw [List.eraseIdx_eq_take_drop_succ, List.eraseIdx_eq_take_drop_succ, List.take_take, Nat.min_eq_left (by omega),
    List.take_append, List.length_take, Nat.min_eq_left (by omega), List.take_take, Nat.min_eq_right (by omega),
    List.drop_take]
  congr 2
  omega

theorem drop_pred_eraseIdx {α : Type} {l : List α} {i n : Nat} (hi : i < n) (hn : n ≤ l.length) :
    (l.eraseIdx i).drop (n - 1) = l.drop n := by
  rw [List.eraseIdx_eq_take_drop_succ, List.drop_append, List.length_take, Nat.min_eq_left (by omega),
    List.drop_of_length_le (by rw [List.length_take]; omega), List.nil_append, List.drop_drop]
  congr 1
  omega

/-! ## the header after `num_files` is rewritten -/

theorem hdr_setNumFiles {h : Bytes} (hl : h.length = 26) {v : Nat} (hv : v < 65536) :
    (splice h 16 (u16le v)).length = 26 ∧ le16 (splice h 16 (u16le v)) 0 = le16 h 0 ∧
    le16 (splice h 16 (u16le v)) 2 = le16 h 2 ∧ le16 (splice h 16 (u16le v)) 14 = le16 h 14 ∧
    (splice h 16 (u16le v)).getD 6 0 = h.getD 6 0 ∧ le16 (splice h 16 (u16le v)) 16 = v := by
  have hb : 16 + (u16le v).length ≤ h.length := by rw [hl]; show 16 + 2 ≤ 26; decide
  exact ⟨by rw [splice_length hb, hl], le16_splice_other hb (Or.inl (by decide)), le16_splice_other hb (Or.inl (by decide)),
    le16_splice_other hb (Or.inl (by decide)), getD_splice_other hb (Or.inl (by decide)),
    le16_splice_same (by rw [hl]; decide) hv⟩

theorem InvD.nf_small {size : Nat} {h : Bytes} {es : List Bytes} (d : InvD size h es) : es.length ≤ 353 := by
  have := d.count; have := d.dirEnd_le; omega

/-- the invariant survives `delete`'s directory update -/
theorem InvD_delete {size : Nat} {h : Bytes} {es : List Bytes} (d : InvD size h es) {idx : Nat} (hi : idx < le16 h 16) :
    InvD size (splice h 16 (u16le (le16 h 16 - 1))) (deleteEntries es idx) := by
  have hsmall := d.nf_small
  have hnf := d.nf_le
  obtain ⟨a1, a2, a3, a4, a5, a6⟩ := hdr_setNumFiles d.hlen (v := le16 h 16 - 1) (by omega)
  obtain ⟨z, hz, hz0, hzl⟩ := deleteEntries_eq (idx := idx) (by omega) d.elen
  have hel : (es.eraseIdx idx).length = es.length - 1 := List.length_eraseIdx_of_lt (by omega)
  have htake : (deleteEntries es idx).take (le16 h 16 - 1) = (es.take (le16 h 16)).eraseIdx idx := by
    rw [hz, List.take_append_of_le_length (by rw [hel]; omega), take_pred_eraseIdx hi hnf]
  have hdrop : (deleteEntries es idx).drop (le16 h 16 - 1) = es.drop (le16 h 16) ++ [z] := by
    rw [hz, List.drop_append_of_le_length (by rw [hel]; omega), drop_pred_eraseIdx hi hnf]
  have hsub : ((es.take (le16 h 16)).eraseIdx idx).Sublist (es.take (le16 h 16)) := List.eraseIdx_sublist _ _
  refine { hlen := a1, beg0 := by rw [a2]; exact d.beg0, dirEnd_gt := by rw [a3]; exact d.dirEnd_gt,
           dirEnd_le := by rw [a3]; exact d.dirEnd_le, dirEnd_total := by rw [a3, a4]; exact d.dirEnd_total,
           total_size := by rw [a4]; exact d.total_size, total_u16 := by rw [a4]; exact d.total_u16,
           volName := by rw [a5]; exact d.volName, count := ?_, elen := ?_, nf_le := ?_, live := ?_, apart := ?_,
           names := ?_, dead := ?_ }
  · rw [a3, hz, List.length_append, hel, ← d.count]; simp; omega
  · intro e he
    rw [hz, List.mem_append] at he
    rcases he with he | he
    · exact d.elen e ((List.eraseIdx_sublist es idx).subset he)
    · simp only [List.mem_singleton] at he; subst he; exact hzl
  · rw [a6, hz, List.length_append, hel]; simp; omega
  · rw [a6, a3, a4, htake]
    intro e he
    exact d.live e (hsub.subset he)
  · rw [a6, htake]
    exact d.apart.sublist hsub
  · rw [a6, htake]
    exact d.names.sublist (hsub.map _)
  · rw [a6, hdrop]
    intro e he
    rw [List.mem_append] at he
    rcases he with he | he
    · exact d.dead e he
    · simp only [List.mem_singleton] at he; subst he; exact hz0

theorem deleteEntries_take {size : Nat} {h : Bytes} {es : List Bytes} (d : InvD size h es) {idx : Nat} (hi : idx < le16 h 16) :
    (deleteEntries es idx).take (le16 h 16 - 1) = (es.take (le16 h 16)).eraseIdx idx := by
  have hnf := d.nf_le
  obtain ⟨z, hz, _, _⟩ := deleteEntries_eq (idx := idx) (by omega) d.elen
  have hel : (es.eraseIdx idx).length = es.length - 1 := List.length_eraseIdx_of_lt (by omega)
  rw [hz, List.take_append_of_le_length (by rw [hel]; omega), take_pred_eraseIdx hi hnf]

theorem map_eraseIdx {α β : Type} (f : α → β) (l : List α) (i : Nat) : (l.eraseIdx i).map f = (l.map f).eraseIdx i := by
  rw [List.eraseIdx_eq_take_drop_succ, List.eraseIdx_eq_take_drop_succ, List.map_append, List.map_take, List.map_drop]

theorem liveEntries_length {r : Raw} (h : Inv r) : (liveEntries r).length = numFiles r := by
  unfold liveEntries
  rw [List.length_take]
  exact Nat.min_eq_left h.d.nf_le

theorem files_frame {r r2 : Raw} {l : List Bytes} (hl : ∀ e ∈ l, dirEnd r ≤ le16 e 0)
    (hfr : ∀ i, dirEnd r ≤ i → r2.units[i]? = r.units[i]?) : l.map (fileOf r2) = l.map (fileOf r) := by
  apply List.map_congr_left
  intro e he
  exact fileOf_congr (fun i hi => hfr i (by have := hl e he; omega))

theorem live_beg_ge {r : Raw} (h : Inv r) : ∀ e ∈ liveEntries r, dirEnd r ≤ le16 e 0 :=
  fun e he => (h.d.live e he).beg_ge

theorem volOf_files (r : Raw) : (volOf r).files = (liveEntries r).map (fileOf r) := rfl

theorem volOf_files_length (r : Raw) : (volOf r).files.length = (liveEntries r).length := by
  rw [volOf_files, List.length_map]

theorem volOf_file_get {r : Raw} {idx : Nat} (hi : idx < (volOf r).files.length) (hi2 : idx < (liveEntries r).length) :
    (volOf r).files[idx] = fileOf r ((liveEntries r)[idx]) := by
  rw [List.getElem_of_eq (volOf_files r) hi, List.getElem_map]

/-! ## `delete` -/

/-- **delete refines the abstract specification** -/
theorem delete_refines {r : Raw} (h : Inv r) {name : Bytes} {res : R Unit} {r' : Raw}
    (hop : delete r name = (res, r')) :
    Inv r' ∧ stepOk pascalParams (volOf r) (.delete (upper name)) (okB res) (volOf r') = true := by
  have d := h.d
  by_cases hm : upper name ∈ (volOf r).paths
  · obtain ⟨idx, hi, hp⟩ := mem_paths_iff_slot.1 hm
    have hget := getFileEntry_some h hi hp
    have hidx : idx < le16 (hdr r) 16 := by rw [liveEntries_length h] at hi; exact hi
    have hnfs := d.nf_small
    have hnfle := d.nf_le
    obtain ⟨a1, a2, a3, a4, a5, a6⟩ := hdr_setNumFiles d.hlen (v := le16 (hdr r) 16 - 1) (by omega)
    obtain ⟨r2, hs, hinv2, hh2, he2, hsz2, hfr⟩ := save_result h (InvD_delete d hidx) a3
    have hdel : delete r name = (.ok (), r2) := by
      unfold delete
      rw [hget]
      exact hs
    rw [hdel] at hop
    cases hop
    refine ⟨hinv2, ?_⟩
    have hlive2 : liveEntries r' = (liveEntries r).eraseIdx idx := by
      unfold liveEntries numFiles
      rw [he2, hh2, a6]
      exact deleteEntries_take d hidx
    have hfiles2 : (volOf r').files = (volOf r).files.eraseIdx idx := by
      show (liveEntries r').map (fileOf r') = ((liveEntries r).map (fileOf r)).eraseIdx idx
      rw [hlive2, ← map_eraseIdx]
      apply files_frame _ hfr
      intro e he
      exact live_beg_ge h e ((List.eraseIdx_sublist _ _).subset he)
    have hi' : idx < (volOf r).files.length := by rw [volOf_files_length]; exact hi
    apply stepOk_delete_of (volOf_wf h) (volOf_wf hinv2) hi' _ _ hfiles2
    · rw [volOf_file_get hi' hi]
      exact hp
    · rw [volOf_file_get hi' hi]
      rfl
  · have hget := getFileEntry_none h hm
    have hdel : delete r name = (.error .noFile, r) := by
      unfold delete
      rw [hget]
    rw [hdel] at hop
    cases hop
    exact ⟨h, stepOk_refused_same (volOf_wf h) _⟩

/-! ## replacing one directory slot (`modify`: rename, retype) -/

theorem nodup_set {α : Type} {l : List α} {i : Nat} {a : α} (hi : i < l.length) (nd : l.Nodup)
    (ha : a ∉ l.eraseIdx i) : (l.set i a).Nodup := by
  rw [List.set_eq_take_append_cons_drop, if_pos hi]
  rw [List.eraseIdx_eq_take_drop_succ, List.mem_append, not_or] at ha
  have hl : l = l.take i ++ (l[i] :: l.drop (i + 1)) := by
    rw [← List.drop_eq_getElem_cons hi, List.take_append_drop]
  rw [hl, List.nodup_append] at nd
  obtain ⟨n1, n2, n3⟩ := nd
  rw [List.nodup_cons] at n2
  rw [List.nodup_append]
  refine ⟨n1, List.nodup_cons.2 ⟨ha.2, n2.2⟩, ?_⟩
  intro x hx y hy
  rcases List.mem_cons.1 hy with rfl | hy
  · intro e; subst e; exact ha.1 hx
  · exact n3 x hx y (List.mem_cons_of_mem _ hy)

theorem pairwise_set_same {l : List Bytes} {i : Nat} {e' : Bytes} (hi : i < l.length) (pw : l.Pairwise Apart)
    (h0 : le16 e' 0 = le16 l[i] 0) (h2 : le16 e' 2 = le16 l[i] 2) : (l.set i e').Pairwise Apart := by
  have key : ∀ (m : List Bytes), m.Pairwise Apart ↔
      (m.map (fun e => (le16 e 0, le16 e 2))).Pairwise (fun a b => a.2 ≤ b.1 ∨ b.2 ≤ a.1) := by
    intro m; rw [List.pairwise_map]; rfl
  rw [key, List.map_set]
  have : (le16 e' 0, le16 e' 2) = (l.map (fun e => (le16 e 0, le16 e 2)))[i]'(by simpa using hi) := by
    rw [List.getElem_map, h0, h2]
  rw [this, List.set_getElem_self, ← key]
  exact pw

/-- the invariant survives replacing a live slot by an entry with the same block range and a valid name
that no other slot has -/
theorem InvD_setEntry {size : Nat} {h : Bytes} {es : List Bytes} (d : InvD size h es) {idx : Nat} (hi : idx < le16 h 16)
    {e' : Bytes} (hlen : e'.length = 26)
    (h0 : le16 e' 0 = le16 (es[idx]'(by have := d.nf_le; omega)) 0)
    (h2 : le16 e' 2 = le16 (es[idx]'(by have := d.nf_le; omega)) 2)
    (h22 : le16 e' 22 = le16 (es[idx]'(by have := d.nf_le; omega)) 22)
    (hnl : 1 ≤ e'.getD 6 0 ∧ e'.getD 6 0 ≤ 15) (hch : (entryPath e').all validChar = true)
    (hfresh : entryPath e' ∉ ((es.take (le16 h 16)).eraseIdx idx).map entryPath) :
    InvD size h (es.set idx e') := by
  have hnf := d.nf_le
  have hil : idx < es.length := by omega
  have hit : idx < (es.take (le16 h 16)).length := by rw [List.length_take]; omega
  have hget : (es.take (le16 h 16))[idx] = es[idx] := List.getElem_take
  have hok0 : EntryOk (le16 h 2) (le16 h 14) es[idx] := d.live _ (by rw [← hget]; exact List.getElem_mem hit)
  have hok : EntryOk (le16 h 2) (le16 h 14) e' :=
    { beg_ge := by rw [h0]; exact hok0.beg_ge, beg_lt := by rw [h0, h2]; exact hok0.beg_lt,
      end_le := by rw [h2]; exact hok0.end_le, nl_pos := hnl.1, nl_le := hnl.2, chars := hch,
      rem_le := by rw [h22, h2, h0]; exact hok0.rem_le }
  refine { hlen := d.hlen, beg0 := d.beg0, dirEnd_gt := d.dirEnd_gt, dirEnd_le := d.dirEnd_le, dirEnd_total := d.dirEnd_total,
           total_size := d.total_size, total_u16 := d.total_u16, volName := d.volName,
           count := by rw [List.length_set]; exact d.count, elen := ?_, nf_le := by rw [List.length_set]; exact hnf,
           live := ?_, apart := ?_, names := ?_, dead := ?_ }
  · intro e he
    rcases List.mem_or_eq_of_mem_set he with he | rfl
    · exact d.elen e he
    · exact hlen
  · rw [List.take_set]
    intro e he
    rcases List.mem_or_eq_of_mem_set he with he | rfl
    · exact d.live e he
    · exact hok
  · rw [List.take_set]
    exact pairwise_set_same hit d.apart (by rw [hget]; exact h0) (by rw [hget]; exact h2)
  · rw [List.take_set, List.map_set]
    apply nodup_set (by simpa using hit) d.names
    rw [← map_eraseIdx]
    exact hfresh
  · rw [List.drop_set_of_lt hi]
    exact d.dead

/-- saving the directory with live slot `idx` replaced: the abstract file list has record `idx` replaced -/
theorem setEntry_result {r : Raw} (h : Inv r) {idx : Nat} (hi : idx < (liveEntries r).length) {e' : Bytes}
    (hlen : e'.length = 26)
    (h0 : le16 e' 0 = le16 (liveEntries r)[idx] 0) (h2 : le16 e' 2 = le16 (liveEntries r)[idx] 2)
    (h22 : le16 e' 22 = le16 (liveEntries r)[idx] 22)
    (hnl : 1 ≤ e'.getD 6 0 ∧ e'.getD 6 0 ≤ 15) (hch : (entryPath e').all validChar = true)
    (hfresh : entryPath e' ∉ ((liveEntries r).eraseIdx idx).map entryPath) :
    ∃ r2, saveDirectory r { header := hdr r, entries := (allEntries r).set idx e' } = (.ok (), r2) ∧ Inv r2 ∧
      (volOf r2).files = (volOf r).files.set idx (fileOf r e') := by
  have d := h.d
  have hidx : idx < le16 (hdr r) 16 := by rw [liveEntries_length h] at hi; exact hi
  have hget : (liveEntries r)[idx] = (allEntries r)[idx]'(by have := d.nf_le; omega) := List.getElem_take
  have dinv := InvD_setEntry d hidx hlen (by rw [← hget]; exact h0) (by rw [← hget]; exact h2) (by rw [← hget]; exact h22)
    hnl hch hfresh
  obtain ⟨r2, hs, hinv2, hh2, he2, hsz2, hfr⟩ := save_result h dinv rfl
  refine ⟨r2, hs, hinv2, ?_⟩
  have hlive2 : liveEntries r2 = (liveEntries r).set idx e' := by
    unfold liveEntries numFiles
    rw [he2, hh2, List.take_set]
  rw [volOf_files, volOf_files, hlive2, ← List.map_set]
  apply files_frame _ hfr
  intro e he
  rcases List.mem_or_eq_of_mem_set he with he | rfl
  · exact live_beg_ge h e he
  · rw [h0]; exact live_beg_ge h _ (List.getElem_mem hi)

/-! ## `retype` -/

theorem getD_of_lt {l : List Bytes} {i : Nat} (h : i < l.length) : l.getD i [] = l[i] := by
  simp [List.getD_eq_getElem?_getD, List.getElem?_eq_getElem h]

theorem live_getElem {r : Raw} (h : Inv r) {idx : Nat} (hi : idx < (liveEntries r).length) :
    ∃ (hi2 : idx < (allEntries r).length), (liveEntries r)[idx] = (allEntries r)[idx] ∧
      (allEntries r).getD idx [] = (liveEntries r)[idx] := by
  have hidx : idx < le16 (hdr r) 16 := by rw [liveEntries_length h] at hi; exact hi
  have hi2 : idx < (allEntries r).length := by have := h.d.nf_le; omega
  have e1 : (liveEntries r)[idx] = (allEntries r)[idx] := List.getElem_take
  exact ⟨hi2, e1, by rw [getD_of_lt hi2, e1]⟩

theorem live_entry_length {r : Raw} (h : Inv r) {idx : Nat} (hi : idx < (liveEntries r).length) :
    ((liveEntries r)[idx]).length = 26 :=
  h.d.elen _ (List.mem_of_mem_take (List.getElem_mem hi))

/-- the old name of slot `idx` does not occur in the other slots -/
theorem old_path_fresh {r : Raw} (h : Inv r) {idx : Nat} (hi : idx < (liveEntries r).length) :
    entryPath (liveEntries r)[idx] ∉ ((liveEntries r).eraseIdx idx).map entryPath := by
  have nd : ((liveEntries r).map entryPath).Nodup := h.d.names
  rw [map_eraseIdx]
  have hl : idx < ((liveEntries r).map entryPath).length := by simpa using hi
  have : entryPath (liveEntries r)[idx] = ((liveEntries r).map entryPath)[idx] := by rw [List.getElem_map]
  rw [this]
  generalize (liveEntries r).map entryPath = l at nd hl
  intro hmem
  rw [List.eraseIdx_eq_take_drop_succ, List.mem_append] at hmem
  have hsplit : l = l.take idx ++ (l[idx] :: l.drop (idx + 1)) := by
    rw [← List.drop_eq_getElem_cons hl, List.take_append_drop]
  rw [hsplit, List.nodup_append] at nd
  obtain ⟨_, n2, n3⟩ := nd
  rcases hmem with hm | hm
  · exact n3 _ hm _ List.mem_cons_self rfl
  · exact (List.nodup_cons.1 n2).1 hm

/-- **retype refines the abstract specification** -/
theorem retype_refines {r : Raw} (h : Inv r) {name : Bytes} {ty : Option Nat} {res : R Unit} {r' : Raw}
    (hop : retype r name ty = (res, r')) :
    Inv r' ∧ stepOk pascalParams (volOf r) (.retype (upper name)) (okB res) (volOf r') = true := by
  unfold retype at hop
  have refused : ∀ e, modify r name none (some ty) = (.error e, r) →
      Inv r' ∧ stepOk pascalParams (volOf r) (.retype (upper name)) (okB res) (volOf r') = true := by
    intro e he
    rw [he] at hop
    cases hop
    exact ⟨h, stepOk_refused_same (volOf_wf h) _⟩
  by_cases hv : isNameValid name false = true
  case neg => exact refused .badFormat (by unfold modify; simp [hv])
  by_cases hm : upper name ∈ (volOf r).paths
  case neg => exact refused .noFile (by unfold modify; rw [getFileEntry_none h hm]; simp [hv])
  obtain ⟨idx, hi, hp⟩ := mem_paths_iff_slot.1 hm
  have hget := getFileEntry_some h hi hp
  obtain ⟨hi2, hg1, hg2⟩ := live_getElem h hi
  cases ty with
  | none => exact refused .badMode (by unfold modify; rw [hget]; simp [hv])
  | some t =>
    have hl := live_entry_length h hi
    have hb : 4 + (u16le t).length ≤ ((liveEntries r)[idx]).length := by rw [hl]; show 4 + 2 ≤ 26; decide
    have hok := h.d.live _ (List.getElem_mem hi)
    have hpath : entryPath (splice (liveEntries r)[idx] 4 (u16le t)) = entryPath (liveEntries r)[idx] := by
      unfold entryPath
      rw [getD_splice_other hb (Or.inr (by show 4 + 2 ≤ 6; decide)), slice_splice_other hb (Or.inr (by show 4 + 2 ≤ 7; decide))]
    obtain ⟨r2, hs, hinv2, hfiles⟩ := setEntry_result h hi (e' := splice (liveEntries r)[idx] 4 (u16le t))
      (by rw [splice_length hb, hl])
      (le16_splice_other hb (Or.inl (by decide))) (le16_splice_other hb (Or.inl (by decide)))
      (le16_splice_other hb (Or.inr (by show 4 + 2 ≤ 22; decide)))
      (by rw [getD_splice_other hb (Or.inr (by show 4 + 2 ≤ 6; decide))]; exact ⟨hok.nl_pos, hok.nl_le⟩)
      (by rw [hpath]; exact hok.chars)
      (by rw [hpath]; exact old_path_fresh h hi)
    have hmod : modify r name none (some (some t)) = (.ok (), r2) := by
      unfold modify
      rw [hget]
      simp only [hv, Bool.not_true, Bool.false_eq_true, if_false, hg2]
      exact hs
    rw [hmod] at hop
    cases hop
    refine ⟨hinv2, ?_⟩
    have hi' : idx < (volOf r).files.length := by rw [volOf_files_length]; exact hi
    apply stepOk_retype_of (volOf_wf h) (volOf_wf hinv2) hi' _ hfiles
    · show entryPath (splice (liveEntries r)[idx] 4 (u16le t)) = upper name
      rw [hpath]; exact hp
    · rw [volOf_file_get hi' hi]
      unfold fileOf
      simp only [le16_splice_other hb (Or.inl (by decide : 0 + 2 ≤ 4)), le16_splice_other hb (Or.inl (by decide : 2 + 2 ≤ 4)),
        le16_splice_other hb (Or.inr (by show 4 + 2 ≤ 22; decide))]
      exact ⟨trivial, trivial, trivial, trivial⟩
    · rw [volOf_file_get hi' hi]
      exact hp

/-! ## `rename` -/

theorem stringToFileName_length {n : Bytes} (h : n.length ≤ 15) : (stringToFileName n).length = 15 := by
  unfold stringToFileName
  rw [List.length_append, upper_length, List.length_replicate]; omega

/-- the slot after `entry.name = string_to_file_name(new); entry.name_len = new.len()` -/
def renamedEntry (e0 new : Bytes) : Bytes := splice (splice e0 7 (stringToFileName new)) 6 [new.length % 256]

theorem renamedEntry_props {e0 new : Bytes} (hl : e0.length = 26) (h1 : 1 ≤ new.length) (h15 : new.length ≤ 15) :
    (renamedEntry e0 new).length = 26 ∧ le16 (renamedEntry e0 new) 0 = le16 e0 0 ∧ le16 (renamedEntry e0 new) 2 = le16 e0 2 ∧
    le16 (renamedEntry e0 new) 4 = le16 e0 4 ∧ le16 (renamedEntry e0 new) 22 = le16 e0 22 ∧
    (renamedEntry e0 new).getD 6 0 = new.length ∧ entryPath (renamedEntry e0 new) = upper new := by
  have hn := stringToFileName_length h15
  have hb1 : 7 + (stringToFileName new).length ≤ e0.length := by rw [hn, hl]; decide
  have hx : (splice e0 7 (stringToFileName new)).length = 26 := by rw [splice_length hb1, hl]
  have hb2 : 6 + [new.length % 256].length ≤ (splice e0 7 (stringToFileName new)).length := by rw [hx]; show 6 + 1 ≤ 26; decide
  have hmod : new.length % 256 = new.length := Nat.mod_eq_of_lt (by omega)
  have h6 : (renamedEntry e0 new).getD 6 0 = new.length := by
    unfold renamedEntry; rw [getD_splice_same (by rw [hx]; decide), hmod]
  unfold renamedEntry at h6 ⊢
  refine ⟨by rw [splice_length hb2, hx], ?_, ?_, ?_, ?_, h6, ?_⟩
  · rw [le16_splice_other hb2 (Or.inl (by decide)), le16_splice_other hb1 (Or.inl (by decide))]
  · rw [le16_splice_other hb2 (Or.inl (by decide)), le16_splice_other hb1 (Or.inl (by decide))]
  · rw [le16_splice_other hb2 (Or.inl (by decide)), le16_splice_other hb1 (Or.inl (by decide))]
  · rw [le16_splice_other hb2 (Or.inr (by show 6 + 1 ≤ 22; decide)), le16_splice_other hb1 (Or.inr (by rw [hn]; decide))]
  · unfold entryPath
    rw [h6, slice_splice_other hb2 (Or.inr (by show 6 + 1 ≤ 7; decide)), slice_splice_prefix hb1 (by rw [hn]; exact h15)]
    unfold stringToFileName
    rw [List.take_append_of_le_length (by rw [upper_length]; exact Nat.le_refl _), List.take_of_length_le (by rw [upper_length]; exact Nat.le_refl _)]

/-- **rename refines the abstract specification** -/
theorem rename_refines {r : Raw} (h : Inv r) {old new : Bytes} {res : R Unit} {r' : Raw}
    (hop : rename r old new = (res, r')) :
    Inv r' ∧ stepOk pascalParams (volOf r) (.rename (upper old) (upper new)) (okB res) (volOf r') = true := by
  have refused : ∀ e, rename r old new = (.error e, r) →
      Inv r' ∧ stepOk pascalParams (volOf r) (.rename (upper old) (upper new)) (okB res) (volOf r') = true := by
    intro e he
    rw [he] at hop
    cases hop
    exact ⟨h, stepOk_refused_same (volOf_wf h) _⟩
  by_cases hvn : isNameValid new false = true
  case neg => exact refused .badFormat (by unfold rename; simp [hvn])
  by_cases hmn : upper new ∈ (volOf r).paths
  case pos =>
    obtain ⟨j, hj, hpj⟩ := mem_paths_iff_slot.1 hmn
    exact refused .duplicate (by unfold rename; rw [getFileEntry_some h hj hpj]; simp [hvn])
  have hren : rename r old new = modify r old (some new) none := by
    unfold rename; rw [getFileEntry_none h hmn]; simp [hvn]
  by_cases hv : isNameValid old false = true
  case neg => exact refused .badFormat (by rw [hren]; unfold modify; simp [hv])
  by_cases hm : upper old ∈ (volOf r).paths
  case neg => exact refused .noFile (by rw [hren]; unfold modify; rw [getFileEntry_none h hm]; simp [hv])
  obtain ⟨idx, hi, hp⟩ := mem_paths_iff_slot.1 hm
  have hget := getFileEntry_some h hi hp
  obtain ⟨hi2, hg1, hg2⟩ := live_getElem h hi
  have hl := live_entry_length h hi
  obtain ⟨hvalid, hn1, hn15⟩ := upper_valid hvn
  obtain ⟨p1, p2, p3, p4, p5, p6, p7⟩ := renamedEntry_props (e0 := (liveEntries r)[idx]) (new := new) hl hn1 hn15
  obtain ⟨r2, hs, hinv2, hfiles⟩ := setEntry_result h hi (e' := renamedEntry (liveEntries r)[idx] new) p1 p2 p3 p5
    (by rw [p6]; exact ⟨hn1, hn15⟩) (by rw [p7]; exact hvalid)
    (by
      rw [p7]
      intro hmem
      apply hmn
      unfold Vol.paths
      rw [paths_volOf]
      obtain ⟨e, he, hee⟩ := List.mem_map.1 hmem
      exact List.mem_map.2 ⟨e, (List.eraseIdx_sublist _ _).subset he, hee⟩)
  have hmod : rename r old new = (.ok (), r2) := by
    rw [hren]
    unfold modify
    rw [hget]
    simp only [hv, hvn, Bool.not_true, Bool.false_eq_true, if_false, hg2]
    exact hs
  rw [hmod] at hop
  cases hop
  refine ⟨hinv2, ?_⟩
  have hi' : idx < (volOf r).files.length := by rw [volOf_files_length]; exact hi
  apply stepOk_rename_of (volOf_wf h) (volOf_wf hinv2) hi' _ _ hmn hfiles
  · exact p7
  · rw [volOf_file_get hi' hi]
    unfold fileOf
    simp only [p2, p3, p5]
    exact ⟨trivial, trivial, trivial, trivial, trivial⟩
  · rw [volOf_file_get hi' hi]
    exact hp
  · rw [volOf_file_get hi' hi]
    rfl

end A2Verif.Fs.Pascal
