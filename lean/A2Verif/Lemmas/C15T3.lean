import A2Verif.Lemmas.C15Table
/-! `decide +kernel` over the whole opcode table for processor `.p65816` (repaired code) -/
namespace A2Verif.C15
open A2Verif.Dasm A2Verif.Asm

set_option maxRecDepth 100000 in
theorem table_3 : ∀ (op : Fin 256) (isM8 m8 x8 brk b1nz small : Bool),
    (!isM8) = true → rowCheck Quirks.fixed .p65816 isM8 m8 x8 brk op.val b1nz small true = true := by
  decide +kernel

end A2Verif.C15
