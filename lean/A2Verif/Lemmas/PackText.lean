import A2Verif.Model.PackText
import A2Verif.Lemmas.Packing
/-! Helper lemmas for C13 part 2: DOS / ProDOS / CP/M / FAT text converters, hex escapes. -/
namespace A2Verif.Packing

/-- printable ASCII -/
def Printable (b : Nat) : Prop := 0x20 ≤ b ∧ b ≤ 0x7e

/-- a text made of printable-ASCII characters and newlines -/
def TextOk (t : Bytes) : Prop := ∀ b ∈ t, b = 0x0a ∨ Printable b

theorem TextOk.cons {b : Nat} {t : Bytes} (h : TextOk (b :: t)) : (b = 0x0a ∨ Printable b) ∧ TextOk t :=
  ⟨h b (List.mem_cons_self ..), fun x hx => h x (List.mem_cons_of_mem _ hx)⟩

/-! ### generic -/

theorem beforeFirst_append (sep : Nat) (xs ys : Bytes) (h : sep ∉ xs) :
    beforeFirst sep (xs ++ sep :: ys) = xs := by
  induction xs with
  | nil => simp [beforeFirst]
  | cons x xs ih =>
    have hx : x ≠ sep := fun e => h (e ▸ List.mem_cons_self ..)
    have hxs : sep ∉ xs := fun m => h (List.mem_cons_of_mem _ m)
    simp [beforeFirst, hx, ih hxs]

theorem beforeFirst_none (sep : Nat) (xs : Bytes) (h : sep ∉ xs) : beforeFirst sep xs = xs := by
  induction xs with
  | nil => rfl
  | cons x xs ih =>
    have hx : x ≠ sep := fun e => h (e ▸ List.mem_cons_self ..)
    have hxs : sep ∉ xs := fun m => h (List.mem_cons_of_mem _ m)
    simp [beforeFirst, hx, ih hxs]

theorem isTerminated_snoc (pre : Bytes) (x : Nat) : isTerminated (pre ++ [x]) [x] = true := by
  unfold isTerminated
  simp

theorem terminate_snoc (pre : Bytes) (x : Nat) : terminate (pre ++ [x]) [x] = pre ++ [x] := by
  unfold terminate
  rw [isTerminated_snoc]; rfl

theorem terminate_nil (b : Bytes) : terminate b [] = b := by
  unfold terminate isTerminated; simp

/-! ### DOS 3.x -/

def dosEnc (b : Nat) : Nat := if b = 0x0a then 0x8d else b + 0x80

theorem dosFromLoop_ok (t : Bytes) (h : TextOk t) : dosFromLoop t = some (t.map dosEnc) := by
  induction t with
  | nil => rfl
  | cons b r ih =>
    obtain ⟨hb, hr⟩ := h.cons
    unfold dosFromLoop
    rcases hb with hb | hb
    · subst hb
      simp [ih hr, dosEnc]
    · obtain ⟨h1, h2⟩ := hb
      have n1 : b ≠ 0x0d := by omega
      have n2 : b ≠ 0x0a := by omega
      have n3 : b < 128 := by omega
      simp [ih hr, dosEnc, n1, n2, n3]

theorem dosToUtf8_enc (t : Bytes) (h : TextOk t) : dosToUtf8 (t.map dosEnc) = t := by
  induction t with
  | nil => rfl
  | cons b r ih =>
    obtain ⟨hb, hr⟩ := h.cons
    have ih' := ih hr
    unfold dosToUtf8 at ih' ⊢
    simp only [List.map_cons, List.map_map] at ih' ⊢
    rw [ih']
    congr 1
    rcases hb with hb | hb
    · subst hb; simp [dosEnc]
    · obtain ⟨h1, h2⟩ := hb
      have n2 : b ≠ 0x0a := by omega
      simp only [Function.comp, dosEnc, n2, if_false]
      have : ¬ (b + 128 = 141) := by omega
      simp only [this, if_false]
      have : b + 128 > 127 := by omega
      simp [this]

theorem dosEnc_ne_zero (t : Bytes) : 0 ∉ t.map dosEnc := by
  intro h
  obtain ⟨b, _, hb⟩ := List.mem_map.mp h
  unfold dosEnc at hb
  split at hb <;> omega

/-! ### ProDOS -/

def prodosEnc (b : Nat) : Nat := if b = 0x0a then 0x0d else b

theorem prodosFromLoop_ok (t : Bytes) (h : TextOk t) : prodosFromLoop t = some (t.map prodosEnc) := by
  induction t with
  | nil => rfl
  | cons b r ih =>
    obtain ⟨hb, hr⟩ := h.cons
    unfold prodosFromLoop
    rcases hb with hb | hb
    · subst hb
      simp [ih hr, prodosEnc]
    · obtain ⟨h1, h2⟩ := hb
      have n1 : b ≠ 0x0d := by omega
      have n2 : b ≠ 0x0a := by omega
      have n3 : b < 128 := by omega
      simp [ih hr, prodosEnc, n1, n2, n3]

theorem prodosToUtf8_enc (t : Bytes) (h : TextOk t) : prodosToUtf8 (t.map prodosEnc) = t := by
  induction t with
  | nil => rfl
  | cons b r ih =>
    obtain ⟨hb, hr⟩ := h.cons
    have ih' := ih hr
    unfold prodosToUtf8 at ih' ⊢
    simp only [List.map_cons, List.map_map] at ih' ⊢
    rw [ih']
    congr 1
    rcases hb with hb | hb
    · subst hb; simp [prodosEnc]
    · obtain ⟨h1, h2⟩ := hb
      have n1 : b ≠ 0x0d := by omega
      have n2 : b ≠ 0x0a := by omega
      have n3 : b < 128 := by omega
      simp [Function.comp, prodosEnc, n1, n2, n3]

theorem prodosEnc_ne_zero (t : Bytes) (h : TextOk t) : 0 ∉ t.map prodosEnc := by
  intro hm
  obtain ⟨b, hb, he⟩ := List.mem_map.mp hm
  unfold prodosEnc at he
  rcases h b hb with h1 | ⟨h1, h2⟩
  · subst h1; simp at he
  · split at he <;> omega

/-! ### CP/M, FAT -/

def cpmEnc (b : Nat) : Bytes := if b = 0x0a then [0x0d, 0x0a] else [b]

theorem cpmFromLoop_ok (t : Bytes) (h : TextOk t) : cpmFromLoop t = some (t.flatMap cpmEnc) := by
  induction t with
  | nil => rfl
  | cons b r ih =>
    obtain ⟨hb, hr⟩ := h.cons
    unfold cpmFromLoop
    rcases hb with hb | hb
    · subst hb
      simp [ih hr, cpmEnc]
    · obtain ⟨h1, h2⟩ := hb
      have n1 : b ≠ 0x0d := by omega
      have n2 : b ≠ 0x0a := by omega
      have n3 : b < 128 := by omega
      simp [ih hr, cpmEnc, n1, n2, n3]

theorem cpmToUtf8_enc (t : Bytes) (h : TextOk t) : cpmToUtf8 (t.flatMap cpmEnc) = t := by
  induction t with
  | nil => rfl
  | cons b r ih =>
    obtain ⟨hb, hr⟩ := h.cons
    rw [List.flatMap_cons]
    rcases hb with hb | hb
    · subst hb
      simp [cpmEnc, cpmToUtf8, ih hr]
    · obtain ⟨h1, h2⟩ := hb
      have n1 : b ≠ 0x0d := by omega
      have n2 : b ≠ 0x0a := by omega
      have n3 : ¬ b > 127 := by omega
      have n4 : b ≠ 0x1a := by omega
      simp [cpmEnc, cpmToUtf8, ih hr, n1, n2, n3, n4]

theorem cpmEnc_no_ctrlz (t : Bytes) (h : TextOk t) : 0x1a ∉ t.flatMap cpmEnc := by
  intro hm
  obtain ⟨b, hb, he⟩ := List.mem_flatMap.mp hm
  unfold cpmEnc at he
  rcases h b hb with h1 | ⟨h1, h2⟩
  · subst h1; simp at he
  · split at he
    · simp at he
    · simp at he; omega

/-! ### hex escapes -/

theorem hexDig_hexUp : ∀ n, n < 16 → hexDig (hexUp n) = some n := by decide

theorem escapeByte_plain (x : Nat) (h1 : 0x20 ≤ x) (h2 : x ≤ 0x7e) (h3 : x ≠ 0x5c) :
    escapeByte true true false x = [x] := by
  simp [escapeByte, h1, h2, h3]

theorem escapeByte_hex (x : Nat) (h : ¬ (0x20 ≤ x ∧ x ≤ 0x7e ∧ x ≠ 0x5c)) :
    escapeByte true true false x = [0x5c, 0x78, hexUp (x / 16), hexUp (x % 16)] := by
  simp only [escapeByte]
  rw [if_neg]
  intro h'
  refine h ⟨h'.1, h'.2.1, fun e => h'.2.2 ⟨?_, ?_⟩⟩
  · trivial
  · simpa using e

/-- what a byte of the escaped string decodes to, when the byte was emitted as a plain character -/
theorem parseEscaped_plain_step (inv caps : Bool) (fuel c : Nat) (rest : Bytes) (hc : c ≠ 0x5c) :
    parseEscapedLoop inv caps (fuel+1) (c :: rest) = plainChar inv caps c :: parseEscapedLoop inv caps fuel rest := by
  simp [parseEscapedLoop, hc]

theorem parseEscaped_hex_step (inv caps : Bool) (fuel b : Nat) (rest : Bytes) (hb : b < 256) :
    parseEscapedLoop inv caps (fuel+1) (0x5c :: 0x78 :: hexUp (b / 16) :: hexUp (b % 16) :: rest)
      = b :: parseEscapedLoop inv caps fuel rest := by
  have h1 : hexDig (hexUp (b / 16)) = some (b / 16) := hexDig_hexUp _ (by omega)
  have h2 : hexDig (hexUp (b % 16)) = some (b % 16) := hexDig_hexUp _ (by omega)
  simp only [parseEscapedLoop, if_true, h1, h2]
  congr 1
  omega

/-- `parseEscapedLoop` does not depend on the fuel once it covers the string -/
theorem parseEscaped_fuel (inv caps : Bool) : ∀ (s : Bytes) (f1 f2 : Nat), s.length ≤ f1 → s.length ≤ f2 →
    parseEscapedLoop inv caps f1 s = parseEscapedLoop inv caps f2 s := by
  intro s
  induction hs : s.length using Nat.strongRecOn generalizing s with
  | _ n ih =>
    intro f1 f2 h1 h2
    subst hs
    cases s with
    | nil => cases f1 <;> cases f2 <;> simp [parseEscapedLoop]
    | cons c rest =>
      cases f1 with
      | zero => simp at h1
      | succ f1 =>
        cases f2 with
        | zero => simp at h2
        | succ f2 =>
          simp only [List.length_cons] at h1 h2 ih
          have hrest := ih rest.length (by omega) rest rfl f1 f2 (by omega) (by omega)
          rcases rest with _ | ⟨x, _ | ⟨h, _ | ⟨l, rest'⟩⟩⟩
          · simp only [parseEscapedLoop] at hrest ⊢; split <;> simp [hrest]
          · simp only [parseEscapedLoop] at hrest ⊢ <;> split <;> rw [hrest]
          · simp only [parseEscapedLoop] at hrest ⊢ <;> split <;> rw [hrest]
          · have hr' := ih rest'.length (by simp; omega) rest' rfl f1 f2 (by simp at h1; omega) (by simp at h2; omega)
            simp only [parseEscapedLoop]
            split
            · split
              · split
                · rw [hr']
                · rw [hrest]
              · rw [hrest]
            · rw [hrest]

end A2Verif.Packing
