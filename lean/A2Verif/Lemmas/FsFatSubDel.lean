import A2Verif.Lemmas.FsFatSubRun
/-!
# `delete` of a file in a first-level sub-directory

`delete_sub_run`: the run of `delete("D/X")` when `D` is a well-formed first-level directory: refused without a change
(unreadable map, `X` not found, read-only), or — for an entry without the directory attribute — the entry is erased in its own
cluster of `D` (`writebackSub_spec`) and the chain from its first cluster is de-allocated.
-/
namespace A2Verif.FsFat
open A2Verif A2Verif.Fs.Fat A2Verif.Read.Fat A2Verif.Read.FatT

theorem subEntries_spec {d : Disk} (g : Geo d) {f : Array Nat} {c1 : Nat} {cl : List Nat} (h : IsChain f (hiOf d.bpb) c1 cl) :
    AllLen 32 (subEntries d cl) ∧ (subEntries d cl).length = cl.length * epcOf d.bpb := by
  obtain ⟨h1, h2, _, _⟩ := chainDir_spec g (isChain_inRng h)
  exact ⟨h1, h2⟩

/-- **the run of `delete("D/X")`** -/
theorem delete_sub_run {d : Disk} (g : Geo d) (hlf : d.labelFiles = false) {D X : Bytes} (a : SubArg D X) {f : Array Nat}
    {E1 E2 : List Bytes} {eD : Bytes} {cl : List Nat} (sd : SubDirOk d D f E1 eD E2 cl) :
    (∃ er, delete (subPath D X) d = (.error er, d)) ∨
    ∃ S1 x S2 nm ty, subEntries d cl = S1 ++ x :: S2 ∧ (∀ y ∈ S1, entryType y ≠ .freeAndNoMore) ∧ inMap false x ∧
      fileNameToSplit x = some (nm, ty) ∧ keyOf X = nm ++ [46] ++ ty ∧ x.getD 11 0 % 2 = 0 ∧
      ((x.getD 11 0 / 16) % 2 = 0 →
        ∃ r' c, delete (subPath D X) d = deallocateChain (le16 x 26) { d with raw := r' } ∧
          r'.units.size = d.raw.units.size ∧ r'.unitLen = d.raw.unitLen ∧ c ∈ cl ∧
          (∀ u, u ∉ List.range' (d.bpb.firstClusterSec c) d.bpb.spc → r'.units[u]? = d.raw.units[u]?) ∧
          subEntries { d with raw := r' } cl = (subEntries d cl).set S1.length (Entry.erase x) ∧
          Geo { d with raw := r' }) := by
  have w := sd.wok
  unfold delete
  rw [M_bind_apply, gotoPath_sub g hlf a sd]
  cases hb : buildFiles false (dirOfBytes (rootBuf d)) with
  | error er => exact Or.inl ⟨er, rfl⟩
  | ok filesR =>
    simp only []
    cases hbd : buildFiles false (subEntries d cl) with
    | error er => exact Or.inl ⟨er, rfl⟩
    | ok filesD =>
      simp only []
      cases hl : filesD.lookup (keyOf X) with
      | none => exact Or.inl ⟨_, rfl⟩
      | some fi =>
        simp only []
        have hbl := buildLoop_lookup false _ 0 0 [] filesD hbd (keyOf X) fi hl
        cases hbl with
        | inl h => simp [List.lookup] at h
        | inr h =>
          obtain ⟨S1, x, S2, nm, ty, hS, hidx, hS1, hin, hn, hk, hfi⟩ := h
          have hidx' : fi.idx = S1.length := by omega
          rw [hidx'] at hfi
          subst hfi
          have hw : (infoOf x S1.length).wildcard = false := rfl
          simp only [hw, Bool.false_eq_true, if_false]
          by_cases hro : (infoOf x S1.length).readOnly = true
          · left
            simp only [hro, if_true]
            exact ⟨_, rfl⟩
          · right
            have hro' : x.getD 11 0 % 2 = 0 := by
              have : ¬ (Entry.attr x &&& READ_ONLY > 0) := by simpa [infoOf] using hro
              unfold READ_ONLY Entry.attr at this
              rw [and1] at this
              omega
            refine ⟨S1, x, S2, nm, ty, hS, hS1, hin, hn, hk, hro', ?_⟩
            intro hb4
            have hdir : (infoOf x S1.length).directory = false := by
              have : ¬ (Entry.attr x &&& DIRECTORY > 0) := by
                unfold DIRECTORY Entry.attr
                rw [and16]; omega
              simpa [infoOf] using this
            have hlen : S1.length < (subEntries d cl).length := by rw [hS]; simp
            have hent : dirEntry (subEntries d cl) S1.length = .ok x := by
              unfold dirEntry
              rw [hS]
              simp
            have hxl : x.length = 32 := (subEntries_spec g sd.chain).1 x (by rw [hS]; simp)
            have hE5 : (Entry.erase x).length = 32 := by
              unfold Entry.erase
              rw [splice_length (by simp; omega)]
              exact hxl
            obtain ⟨r', c, hwb, hsz, hul, hc, hfr, hnew, hg1⟩ := writebackSub_spec g w sd.chain sd.nodup (idx := S1.length) hlen hE5
            refine ⟨r', c, ?_, hsz, hul, List.mem_of_getElem? hc, hfr, hnew, hg1⟩
            have hi : (infoOf x S1.length).idx = S1.length := rfl
            have hc1 : (infoOf x S1.length).cluster1 = some (le16 x 26) := rfl
            have hpc : (infoOf eD E1.length).cluster1 = some (le16 eD 26) := rfl
            have hse : dirOfBytes (chainData d cl) = subEntries d cl := rfl
            simp only [hro, Bool.false_eq_true, if_false, hdir, M_bind_apply, M_pure_apply, hpc,
              getDirectory_chain g w sd.chain sd.nodup, hse, M.lift, hi, hent, hc1]
            rw [hse] at hwb
            rw [hwb]

end A2Verif.FsFat
