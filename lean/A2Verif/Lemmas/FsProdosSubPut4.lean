import A2Verif.Lemmas.FsProdosSubPut3
import A2Verif.Lemmas.FsProdosPutL
/-!
# `put` of a file into a first-level sub-directory that has an empty slot: the reading afterwards

`put_image_key`: the image `put` leaves as a `DirPatchK` of the directory with key block `K`.  `sub_put_ok`: a valid fresh
name, an empty slot in the sub-directory and `blocks_needed ≤ free blocks` ⇒ `put` succeeds; after `get_img()` the state
satisfies `SInv`, the step is the abstract `put` of `DIR/NAME`, the free list shrinks by exactly `blocks_needed`.
-/
namespace A2Verif.FsProdos
open A2Verif.Fs.Prodos
open A2Verif.Read.Prodos (entryAt dirChain idxPtr indexEntries readData trimName bitmapFree)
open A2Verif.Read.ProdosT

theorem dirPatchK_of_same {r r' : Raw} {K : Nat} {ch : List Nat} {B k : Nat}
    (hsize : r'.units.size = r.units.size)
    (hshape : ∀ b ∈ ch, (unitAt r b).length = 512)
    (hshape' : ∀ b ∈ ch, (unitAt r' b).length = 512 ∧ ∀ x ∈ unitAt r' b, x < 256)
    (h2 : K ∈ ch) (hkey : B = K → 1 ≤ k)
    (hsame : ∀ b ∈ ch, ∀ j, j < 511 → (b = B → j < 4 + k * 39 ∨ 4 + k * 39 + 39 ≤ j) → (b = K → j ≠ 37 ∧ j ≠ 38) →
      (unitAt r' b).getD j 0 = (unitAt r b).getD j 0) :
    DirPatchK r r' K ch B k := by
  refine ⟨hsize, ?_, ?_, ?_, hshape'⟩
  · intro b hb
    unfold le16
    rw [hsame b hb 0 (by omega) (fun _ => Or.inl (by omega)) (fun _ => by omega),
      hsame b hb 1 (by omega) (fun _ => Or.inl (by omega)) (fun _ => by omega),
      hsame b hb 2 (by omega) (fun _ => Or.inl (by omega)) (fun _ => by omega),
      hsame b hb 3 (by omega) (fun _ => Or.inl (by omega)) (fun _ => by omega)]
    exact ⟨rfl, rfl⟩
  · intro j hj
    apply hsame K h2 j (by omega)
    · intro hb2; have := hkey hb2.symm; left; omega
    · intro _; omega
  · intro b hb k' hk' hkey' hne
    unfold entryAt
    apply slice_congr _ _ _ _ (by rw [(hshape' b hb).1, hshape b hb])
    intro j hj1 hj2
    apply hsame b hb j (by omega)
    · intro hbB
      have hkk : k' ≠ k := fun e => hne (by rw [hbB, e])
      have : k' < k ∨ k < k' := by omega
      rcases this with h | h
      · have : k' * 39 + 39 ≤ k * 39 := by have := Nat.mul_le_mul_right 39 (show k' + 1 ≤ k by omega); omega
        left; omega
      · have : k * 39 + 39 ≤ k' * 39 := by have := Nat.mul_le_mul_right 39 (show k + 1 ≤ k' by omega); omega
        right; omega
    · intro hb2
      have := hkey' hb2
      have : 39 ≤ k' * 39 := by have := Nat.mul_le_mul_right 39 this; omega
      omega

theorem put_image_key {r dcr : Raw} {K : Nat} {ch Al : List Nat} {B k : Nat} (e0 ef : Bytes)
    (hshape : ShapeOk r) (hch : ∀ b ∈ ch, b < r.units.size) (hB : B ∈ ch) (h2 : K ∈ ch) (hk13 : k < 13) (hkey : B = K → 1 ≤ k)
    (he0 : e0.length = 39) (hef : ef.length = 39) (hefb : ∀ x ∈ ef, x < 256)
    (hn : le16 (unitAt r K) 37 + 1 < 65536)
    (hdcsz : dcr.units.size = r.units.size) (hdcshape : ShapeOk dcr)
    (hAlch : ∀ b ∈ ch, b ∉ Al)
    (hdc : ∀ j, j ∉ Al → dcr.units[j]? =
      (setUnit (setUnit r K (patched (unitAt r K) 37 (u16le (le16 (unitAt r K) 37 + 1)))) B
        (patched (if B = K then patched (unitAt r K) 37 (u16le (le16 (unitAt r K) 37 + 1)) else unitAt r B) (4 + k * 39) e0)).units[j]?) :
    let r3 := setUnit dcr B
      (patched (patched (if B = K then patched (unitAt r K) 37 (u16le (le16 (unitAt r K) 37 + 1)) else unitAt r B) (4 + k * 39) e0)
        (4 + k * 39) ef)
    DirPatchK r r3 K ch B k ∧ (∀ j, j ∉ ch → j ∉ Al → r3.units[j]? = r.units[j]?) ∧ ShapeOk r3 ∧
    le16 (unitAt r3 K) 37 = le16 (unitAt r K) 37 + 1 ∧ entryAt (unitAt r3 B) k 39 = ef ∧
    (∀ j ∈ Al, r3.units[j]? = dcr.units[j]?) ∧ r3.units.size = r.units.size := by
  intro r3
  have hBsz := hch B hB
  have h2sz := hch K h2
  have hlen : ∀ b ∈ ch, (unitAt r b).length = 512 := fun b hb => (hshape.unit (hch b hb)).1
  have hlen2 := hlen K h2
  have hkb1 : (patched (unitAt r K) 37 (u16le (le16 (unitAt r K) 37 + 1))).length = 512 := patched_length _ _ _
  have hXl : (if B = K then patched (unitAt r K) 37 (u16le (le16 (unitAt r K) 37 + 1)) else unitAt r B).length = 512 := by
    split
    · exact hkb1
    · exact hlen B hB
  have hP1 : (patched (if B = K then patched (unitAt r K) 37 (u16le (le16 (unitAt r K) 37 + 1)) else unitAt r B) (4 + k * 39) e0).length = 512 :=
    patched_length _ _ _
  have hoff : 4 + k * 39 + 39 ≤ 511 := by omega
  have hun3 : ∀ b ∈ ch, unitAt r3 b =
      if b = B then patched (patched (if B = K then patched (unitAt r K) 37 (u16le (le16 (unitAt r K) 37 + 1)) else unitAt r B)
        (4 + k * 39) e0) (4 + k * 39) ef
      else if b = K then patched (unitAt r K) 37 (u16le (le16 (unitAt r K) 37 + 1)) else unitAt r b := by
    intro b hb
    by_cases hbB : b = B
    · subst hbB
      rw [if_pos rfl]
      show unitAt (setUnit dcr b _) b = _
      unfold unitAt; rw [setUnit_self _ _ _ (by rw [hdcsz]; exact hBsz)]; rfl
    · rw [if_neg hbB]
      show unitAt (setUnit dcr B _) b = _
      rw [unitAt_setUnit_other _ _ _ _ (Ne.symm hbB), unitAt_congr (hdc b (hAlch b hb)),
        unitAt_setUnit_other _ _ _ _ (Ne.symm hbB)]
      by_cases hb2 : b = K
      · subst hb2; rw [if_pos rfl]; unfold unitAt; rw [setUnit_self _ _ _ h2sz]; rfl
      · rw [if_neg hb2, unitAt_setUnit_other _ _ _ _ (Ne.symm hb2)]
  have hshape3 : ShapeOk r3 := by
    apply shape_setUnit hdcshape B _ (patched_length _ _ _)
    apply patched_bytes _ _ _ hP1 (by rw [hef]; omega) _ hefb
    have hb3 := (hdcshape.unit (show B < dcr.units.size by rw [hdcsz]; exact hBsz)).2
    rw [unitAt_congr (hdc B (hAlch B hB))] at hb3
    have : unitAt (setUnit (setUnit r K (patched (unitAt r K) 37 (u16le (le16 (unitAt r K) 37 + 1)))) B
        (patched (if B = K then patched (unitAt r K) 37 (u16le (le16 (unitAt r K) 37 + 1)) else unitAt r B) (4 + k * 39) e0)) B =
        patched (if B = K then patched (unitAt r K) 37 (u16le (le16 (unitAt r K) 37 + 1)) else unitAt r B) (4 + k * 39) e0 := by
      unfold unitAt; rw [setUnit_self _ _ _ (by rw [setUnit_size]; exact hBsz)]; rfl
    rw [this] at hb3
    exact hb3
  have hsame : ∀ b ∈ ch, ∀ j, j < 511 → (b = B → j < 4 + k * 39 ∨ 4 + k * 39 + 39 ≤ j) → (b = K → j ≠ 37 ∧ j ≠ 38) →
      (unitAt r3 b).getD j 0 = (unitAt r b).getD j 0 := by
    intro b hb j hj hslot h37
    have hkb1g : b = K → (patched (unitAt r K) 37 (u16le (le16 (unitAt r K) 37 + 1))).getD j 0 = (unitAt r K).getD j 0 := by
      intro hb2
      have := h37 hb2
      exact getD_patched_out _ _ _ j hlen2 (by unfold u16le; simp) (by unfold u16le; simp; omega) hj
    rw [hun3 b hb]
    by_cases hbB : b = B
    · rw [if_pos hbB]
      have hs := hslot hbB
      rw [getD_patched_out _ _ _ j hP1 (by rw [hef]; omega) (by rw [hef]; omega) hj,
        getD_patched_out _ _ _ j hXl (by rw [he0]; omega) (by rw [he0]; omega) hj]
      by_cases hb2 : B = K
      · rw [if_pos hb2, hkb1g (hbB.trans hb2), hbB, hb2]
      · rw [if_neg hb2, hbB]
    · rw [if_neg hbB]
      by_cases hb2 : b = K
      · rw [if_pos hb2, hkb1g hb2, hb2]
      · rw [if_neg hb2]
  have hshape' : ∀ b ∈ ch, (unitAt r3 b).length = 512 ∧ ∀ x ∈ unitAt r3 b, x < 256 := by
    intro b hb
    exact hshape3.unit (by show b < (setUnit dcr B _).units.size; rw [setUnit_size, hdcsz]; exact hch b hb)
  refine ⟨dirPatchK_of_same (by show (setUnit dcr B _).units.size = _; rw [setUnit_size, hdcsz]) hlen hshape' h2 hkey hsame,
    ?_, hshape3, ?_, ?_, ?_, by show (setUnit dcr B _).units.size = _; rw [setUnit_size, hdcsz]⟩
  · intro j hjc hjA
    have hjB : B ≠ j := fun e => hjc (e ▸ hB)
    have hj2 : K ≠ j := fun e => hjc (e ▸ h2)
    show (setUnit dcr B _).units[j]? = _
    rw [setUnit_other _ _ _ _ hjB, hdc j hjA, setUnit_other _ _ _ _ hjB, setUnit_other _ _ _ _ hj2]
  · rw [hun3 K h2]
    have hself : le16 (patched (unitAt r K) 37 (u16le (le16 (unitAt r K) 37 + 1))) 37 = le16 (unitAt r K) 37 + 1 :=
      le16_patched_self _ 37 _ hlen2 (by omega) hn
    by_cases hb2 : K = B
    · have hk1 := hkey hb2.symm
      rw [if_pos hb2, if_pos hb2.symm,
        le16_patched_out _ _ _ 37 (patched_length _ _ _) (by rw [hef]; omega) (Or.inl (by omega)) (by omega),
        le16_patched_out _ _ _ 37 (patched_length _ _ _) (by rw [he0]; omega) (Or.inl (by omega)) (by omega)]
      exact hself
    · rw [if_neg hb2, if_pos rfl]; exact hself
  · rw [hun3 B hB, if_pos rfl]
    exact entryAt_patched_self _ _ k hP1 hef hk13
  · intro j hj
    show (setUnit dcr B _).units[j]? = _
    exact setUnit_other _ _ _ _ (fun e => hAlch B hB (e ▸ hj))

end A2Verif.FsProdos
