import A2Verif.Model.Reload
/-!
# C06: the byte string of a flat image determines the unit array

`from_bytes (to_bytes r) = r` for every image whose units all have the container's unit length — the C08 fact
"`to_bytes`/`from_bytes` of DO/PO/D13/IMG are the identity on the unit array", stated for `Raw`.
-/
namespace A2Verif.Reload

/-- every unit of the image has the image's unit length, which is positive -/
structure Shaped (n : Nat) (r : Raw) : Prop where
  pos : 0 < n
  ulen : r.unitLen = n
  units : ∀ u ∈ r.units.toList, u.length = n

theorem flatten_length_const {n : Nat} : ∀ {l : List Bytes}, (∀ u ∈ l, u.length = n) → l.flatten.length = n * l.length := by
  intro l
  induction l with
  | nil => intro _; simp
  | cons u t ih =>
    intro h
    rw [List.flatten_cons, List.length_append, h u (List.mem_cons_self), ih (fun x hx => h x (List.mem_cons_of_mem _ hx)),
      List.length_cons, Nat.mul_add, Nat.mul_one, Nat.add_comm]

theorem chunks_flatten {n : Nat} : ∀ {l : List Bytes}, (∀ u ∈ l, u.length = n) → chunks n l.length l.flatten = l := by
  intro l
  induction l with
  | nil => intro _; rfl
  | cons u t ih =>
    intro h
    have hu : u.length = n := h u (List.mem_cons_self)
    rw [List.length_cons, List.flatten_cons, chunks]
    rw [List.take_left' hu, List.drop_left' hu, ih (fun x hx => h x (List.mem_cons_of_mem _ hx))]

/-- `from_bytes ∘ to_bytes` is the identity on shaped images -/
theorem ofBytes_toBytes {n : Nat} {r : Raw} (h : Shaped n r) : ofBytes n (toBytes r) = r := by
  obtain ⟨hn, hl, hu⟩ := h
  unfold ofBytes toBytes
  rw [flatten_length_const hu, Nat.mul_div_cancel_left _ hn, chunks_flatten hu]
  cases r
  simp only at hl
  simp [hl]

/-- `to_bytes ∘ from_bytes ∘ to_bytes = to_bytes` -/
theorem toBytes_ofBytes_toBytes {n : Nat} {r : Raw} (h : Shaped n r) : toBytes (ofBytes n (toBytes r)) = toBytes r := by
  rw [ofBytes_toBytes h]

/-- replacing a unit by one of the right length keeps the shape -/
theorem Shaped.setIfInBounds {n : Nat} {r : Raw} (h : Shaped n r) (i : Nat) {b : Bytes} (hb : b.length = n) :
    Shaped n { r with units := r.units.setIfInBounds i b } := by
  refine ⟨h.pos, h.ulen, ?_⟩
  intro u hu
  simp only [Array.toList_setIfInBounds] at hu
  rcases List.mem_or_eq_of_mem_set hu with h1 | h1
  · exact h.units u h1
  · exact h1 ▸ hb

theorem Shaped.of_getElem? {n : Nat} {r : Raw} (h : Shaped n r) {i : Nat} {b : Bytes} (hb : r.units[i]? = some b) : b.length = n := by
  apply h.units
  rw [Array.getElem?_eq_some_iff] at hb
  obtain ⟨hi, rfl⟩ := hb
  exact Array.getElem_mem_toList hi

end A2Verif.Reload

namespace A2Verif.Reload

theorem toBytes_length {n : Nat} {r : Raw} (h : Shaped n r) : (toBytes r).length = n * r.units.size := by
  unfold toBytes
  rw [flatten_length_const h.units, Array.length_toList]

theorem flatten_drop_take {n : Nat} : ∀ {l : List Bytes} {i : Nat}, (∀ u ∈ l, u.length = n) → i < l.length →
    (l.flatten.drop (i * n)).take n = l[i]?.getD [] := by
  intro l
  induction l with
  | nil => intro i _ hi; cases hi
  | cons u t ih =>
    intro i h hi
    have hu : u.length = n := h u List.mem_cons_self
    cases i with
    | zero =>
      simp only [Nat.zero_mul, List.drop_zero, List.flatten_cons, List.getElem?_cons_zero, Option.getD_some]
      rw [List.take_left' hu]
    | succ k =>
      rw [List.flatten_cons, Nat.succ_mul, Nat.add_comm, ← List.drop_drop, List.drop_left' hu]
      simp only [List.getElem?_cons_succ]
      exact ih (fun x hx => h x (List.mem_cons_of_mem _ hx)) (by simpa using hi)

/-- unit `i` of a shaped image sits at byte offset `i·n` of its saved bytes -/
theorem slice_toBytes {n : Nat} {r : Raw} (h : Shaped n r) {i : Nat} (hi : i < r.units.size) :
    ((toBytes r).drop (i * n)).take n = r.units[i] := by
  unfold toBytes
  rw [flatten_drop_take h.units (by simpa using hi)]
  simp [hi]

end A2Verif.Reload
