import A2Verif.Lemmas.C06Bytes
import A2Verif.Lemmas.FsFatFlush
import A2Verif.Lemmas.FsFatQuery
/-!
# C06, FAT: an object with an open FAT buffer and its saved-and-reloaded twin cannot be told apart

The FAT object keeps the file allocation table in memory (`maybe_fat`): it is opened on first use from the first FAT
copy, *repaired* against the backup copies, changed only in memory, and written to every copy by `get_img()`.  After
`save`/`load` the buffer is closed and is re-opened at the next operation that needs it.

`Sim P d d'` (for fixed parameters `P` = BPB, FAT type, variant bit): both objects have parameters `P`, both images
satisfy the static facts `Geo`, they agree on every sector outside the FAT region, the original has the buffer `f`
open, and the twin either has the same buffer open or has it closed **with every FAT copy on its image holding `f`**.
`open_twin`: re-opening then yields exactly `f` — all copies agree, so the repair against the backups is the identity
(`repairLoop_self`, `setCluster12_self`).  Every primitive of the model respects `Sim`, hence every operation (`Resp`).
FAT12 only (as `Geo`).
-/
namespace A2Verif.Reload.Fat
open A2Verif.Fs.Fat A2Verif.FsFat

/-- the parameters `from_img` fixes: BPB foundation, FAT type, the model's variant bit -/
structure Par where
  bpb : Bpb
  typ : Nat
  lf : Bool

def Par.of (d : Disk) : Par := ⟨d.bpb, d.typ, d.labelFiles⟩

/-- an object with parameters `P` and nothing else (used to show that code following `M.get` reads parameters only) -/
def Par.disk0 (P : Par) : Disk := { raw := ⟨0, #[]⟩, bpb := P.bpb, typ := P.typ, fat := none, labelFiles := P.lf }

@[simp] theorem Par.disk0_bpb (P : Par) : P.disk0.bpb = P.bpb := rfl
@[simp] theorem Par.disk0_typ (P : Par) : P.disk0.typ = P.typ := rfl
@[simp] theorem Par.disk0_lf (P : Par) : P.disk0.labelFiles = P.lf := rfl

theorem Par.bpb_of {d : Disk} {P : Par} (h : Par.of d = P) : d.bpb = P.bpb := congrArg Par.bpb h
theorem Par.typ_of {d : Disk} {P : Par} (h : Par.of d = P) : d.typ = P.typ := congrArg Par.typ h
theorem Par.lf_of {d : Disk} {P : Par} (h : Par.of d = P) : d.labelFiles = P.lf := congrArg Par.lf h

/-- a buffer of the right size made of bytes -/
def BufOk (b : Bpb) (f : Array Nat) : Prop := f.size = b.fatSecs * 512 ∧ BytesOk f

/-- every FAT copy on the image holds `f` -/
def FatOn (d : Disk) (f : Array Nat) : Prop :=
  ∀ k j, k < d.bpb.nfat → j < d.bpb.fatSecs → d.raw.units[d.bpb.rsvd + k * d.bpb.fatSecs + j]? = some (fatSector f j)

structure Sim (P : Par) (d d' : Disk) : Prop where
  par : Par.of d = P
  par' : Par.of d' = P
  size : d'.raw.units.size = d.raw.units.size
  off : ∀ u, (u < P.bpb.rsvd ∨ P.bpb.rootBeg ≤ u) → d'.raw.units[u]? = d.raw.units[u]?
  geo : Geo d
  geo' : Geo d'
  buf : ∃ f, d.fat = some f ∧ BufOk P.bpb f ∧ (d'.fat = some f ∨ (d'.fat = none ∧ FatOn d' f))

/-- an operation of the model that cannot tell related objects apart and keeps them related -/
structure Resp (P : Par) {α : Type} (m : M α) : Prop where
  out : ∀ d d', Sim P d d' → (m d').1 = (m d).1 ∧ Sim P (m d).2 (m d').2

/-! ## closure -/

theorem M_pure_bind {α β : Type} (a : α) (k : α → M β) : ((pure a : M α) >>= k) = k a := by
  funext d; rfl

theorem Resp.pure {P : Par} {α : Type} (a : α) : Resp P (pure a : M α) := ⟨fun _ _ h => ⟨rfl, h⟩⟩
theorem Resp.pure' {P : Par} {α : Type} (a : α) : Resp P (M.pure a : M α) := ⟨fun _ _ h => ⟨rfl, h⟩⟩
theorem Resp.fail {P : Par} {α : Type} (e : Err) : Resp P (M.fail e : M α) := ⟨fun _ _ h => ⟨rfl, h⟩⟩
theorem Resp.lift {P : Par} {α : Type} (x : R α) : Resp P (M.lift x) := ⟨fun _ _ h => ⟨rfl, h⟩⟩

theorem Resp.bind {P : Par} {α β : Type} {m : M α} {f : α → M β} (hm : Resp P m) (hf : ∀ a, Resp P (f a)) : Resp P (m >>= f) := by
  constructor
  intro d d' h
  obtain ⟨e1, s1⟩ := hm.out d d' h
  simp only [M_bind_apply]
  rcases hw : m d with ⟨x, d1⟩
  rcases hw' : m d' with ⟨x', d1'⟩
  rw [hw, hw'] at e1 s1
  simp only at e1 s1
  subst e1
  cases x' with
  | error e => exact ⟨rfl, s1⟩
  | ok a => exact (hf a).out d1 d1' s1

theorem Resp.ite {P : Par} {α : Type} {c : Prop} [Decidable c] {a b : M α} (ha : Resp P a) (hb : Resp P b) :
    Resp P (if c then a else b) := by
  split <;> assumption

/-- code following `M.get` that reads only the parameters of the object -/
theorem Resp.get_bind {P : Par} {β : Type} {f : Disk → M β} (h : ∀ d, Par.of d = P → f d = f P.disk0)
    (hg : Resp P (f P.disk0)) : Resp P (M.get >>= f) := by
  constructor
  intro d d' hs
  have e1 : (M.get >>= f) d = f P.disk0 d := by
    show (match M.get d with | (.ok a, d1) => f a d1 | (.error e, d1) => (.error e, d1)) = _
    simp only [M.get, h d hs.par]
  have e2 : (M.get >>= f) d' = f P.disk0 d' := by
    show (match M.get d' with | (.ok a, d1) => f a d1 | (.error e, d1) => (.error e, d1)) = _
    simp only [M.get, h d' hs.par']
  rw [e1, e2]
  exact hg.out d d' hs

/-- `if let Ok(..) = …` -/
theorem Resp.tryM {P : Par} {α : Type} {m : M α} (hm : Resp P m) : Resp P (tryM m) := by
  constructor
  intro d d' h
  obtain ⟨e1, s1⟩ := hm.out d d' h
  unfold Fs.Fat.tryM
  rcases hw : m d with ⟨x, d1⟩
  rcases hw' : m d' with ⟨x', d1'⟩
  rw [hw, hw'] at e1 s1
  simp only at e1 s1
  subst e1
  cases x' with
  | error e => exact ⟨rfl, s1⟩
  | ok a => exact ⟨rfl, s1⟩

theorem Resp.buildFilesM {P : Par} (dir : Directory) : Resp P (buildFilesM dir) := by
  constructor
  intro d d' h
  unfold Fs.Fat.buildFilesM
  refine ⟨?_, h⟩
  show buildFiles d'.labelFiles dir = buildFiles d.labelFiles dir
  rw [Par.lf_of h.par, Par.lf_of h.par']

/-! ## facts about related objects -/

theorem Sim.bpb {P : Par} {d d' : Disk} (h : Sim P d d') : d.bpb = P.bpb := Par.bpb_of h.par
theorem Sim.bpb' {P : Par} {d d' : Disk} (h : Sim P d d') : d'.bpb = P.bpb := Par.bpb_of h.par'

/-- a FAT sector lies before the root directory -/
theorem fat_lt_root {b : Bpb} {k j : Nat} (hk : k < b.nfat) (hj : j < b.fatSecs) : b.rsvd + k * b.fatSecs + j < b.rootBeg := by
  unfold Bpb.rootBeg
  have h2 : (k + 1) * b.fatSecs ≤ b.nfat * b.fatSecs := Nat.mul_le_mul_right _ hk
  rw [Nat.add_mul] at h2
  omega

theorem getChs_sim {P : Par} {d d' : Disk} (h : Sim P d d') (s : Nat) : getChs d' s = getChs d s := by
  unfold getChs Raw.count
  rw [h.bpb, h.bpb', h.size]

theorem getChs_ok {d : Disk} (g : Geo d) {s : Nat} (hs : s < d.bpb.totSec) : getChs d s = .ok s := by
  unfold getChs Raw.count
  rw [if_neg (by have := g.spt; have := g.heads; omega), if_neg (by have := g.chs s hs; omega)]

theorem readSector_apply (lsec : Nat) (d : Disk) :
    readSector lsec d = (match getChs d lsec with | .ok s => imgReadSector d.raw s | .error e => .error e, d) := by
  unfold readSector
  simp only [M_bind_apply, M.get, M.lift]
  cases getChs d lsec <;> rfl

theorem Resp.readSector {P : Par} {lsec : Nat} (hl : lsec < P.bpb.rsvd ∨ P.bpb.rootBeg ≤ lsec) : Resp P (readSector lsec) := by
  constructor
  intro d d' h
  rw [readSector_apply, readSector_apply, getChs_sim h]
  refine ⟨?_, h⟩
  simp only
  cases hc : getChs d lsec with
  | error e => rfl
  | ok s =>
    have : s = lsec := by
      unfold getChs at hc
      split at hc
      · cases hc
      · split at hc
        · cases hc
        · cases hc; rfl
    subst this
    simp only [imgReadSector, h.off s hl]

theorem Resp.readSectors {P : Par} : ∀ (l : List Nat), (∀ s ∈ l, s < P.bpb.rsvd ∨ P.bpb.rootBeg ≤ s) → Resp P (readSectors l) := by
  intro l
  induction l with
  | nil => intro _; unfold Fs.Fat.readSectors; exact Resp.pure _
  | cons s ss ih =>
    intro h
    unfold Fs.Fat.readSectors
    exact Resp.bind (Resp.readSector (h s (List.mem_cons_self))) (fun b =>
      Resp.bind (ih (fun x hx => h x (List.mem_cons_of_mem _ hx))) (fun rest => Resp.pure _))


/-! ## writes -/

theorem quantize_length (d : Bytes) (q : Nat) : (quantize d q).length = q := by
  unfold quantize
  split
  · assumption
  · simp only [List.length_append, List.length_take, List.length_replicate]; omega

/-- `Geo` survives a change of the image that keeps size, unit length, sector 0 and the sector length -/
theorem geo_write {d : Disk} (g : Geo d) {r' : Raw} (hsz : r'.units.size = d.raw.units.size) (hul : r'.unitLen = d.raw.unitLen)
    (h0 : r'.units[0]? = d.raw.units[0]?) (hlen : ∀ i (h : i < r'.units.size), r'.units[i].length = 512) :
    Geo { d with raw := r' } := by
  obtain ⟨s0, hs0, hb0⟩ := g.boot
  exact { boot := ⟨s0, by show r'.units[0]? = some s0; rw [h0]; exact hs0, hb0⟩, ulen := by show r'.unitLen = 512; rw [hul]; exact g.ulen,
          usz := hlen, bps := g.bps, spc := g.spc, nfat := g.nfat, fat16 := g.fat16, spt := g.spt, heads := g.heads, typ := g.typ,
          ftyp := g.ftyp, rsvd := g.rsvd,
          fits := by show _ ∧ d.bpb.totSec ≤ r'.units.size; rw [hsz]; exact g.fits,
          chs := by show ∀ s, s < d.bpb.totSec → s / d.bpb.spt < r'.units.size / d.bpb.spt; rw [hsz]; exact g.chs }

/-- the same image change applied to related objects, outside sector 0 and the FAT region, keeps them related -/
theorem sim_write {P : Par} {d d' : Disk} (h : Sim P d d') {r r' : Raw}
    (hsz : r.units.size = d.raw.units.size) (hsz' : r'.units.size = d'.raw.units.size)
    (hul : r.unitLen = d.raw.unitLen) (hul' : r'.unitLen = d'.raw.unitLen)
    (hlen : ∀ i (hi : i < r.units.size), r.units[i].length = 512) (hlen' : ∀ i (hi : i < r'.units.size), r'.units[i].length = 512)
    (hkeep : ∀ u, u < P.bpb.rootBeg → r.units[u]? = d.raw.units[u]?) (hkeep' : ∀ u, u < P.bpb.rootBeg → r'.units[u]? = d'.raw.units[u]?)
    (hsame : ∀ u, (u < P.bpb.rsvd ∨ P.bpb.rootBeg ≤ u) → r'.units[u]? = r.units[u]?) :
    Sim P { d with raw := r } { d' with raw := r' } := by
  have hr0 : 0 < P.bpb.rootBeg := by
    have := h.geo.rsvd; rw [h.bpb] at this; unfold Bpb.rootBeg; omega
  refine ⟨h.par, h.par', by show r'.units.size = r.units.size; rw [hsz, hsz', h.size], hsame,
    geo_write h.geo hsz hul (hkeep 0 hr0) hlen, geo_write h.geo' hsz' hul' (hkeep' 0 hr0) hlen', ?_⟩
  obtain ⟨f, hf, hb, ht⟩ := h.buf
  refine ⟨f, hf, hb, ?_⟩
  cases ht with
  | inl h1 => exact Or.inl h1
  | inr h1 =>
    refine Or.inr ⟨h1.1, ?_⟩
    intro k j hk hj
    have := h1.2 k j hk hj
    show r'.units[d'.bpb.rsvd + k * d'.bpb.fatSecs + j]? = _
    rw [hkeep' _ (by have := fat_lt_root hk hj; rw [h.bpb'] at this ⊢; exact this)]
    exact this

theorem writeSector_apply (lsec : Nat) (dat : Bytes) (d : Disk) :
    writeSector lsec dat d = (match getChs d lsec with
      | .error e => (.error e, d)
      | .ok s => match imgWriteSector d.raw s dat with
        | .error e => (.error e, d)
        | .ok r => (.ok (), { d with raw := r })) := by
  unfold writeSector
  simp only [M_bind_apply, M.get, M.lift]
  cases getChs d lsec with
  | error e => rfl
  | ok s =>
    simp only
    cases imgWriteSector d.raw s dat <;> rfl

theorem getChs_val {d : Disk} {lsec s : Nat} (hc : getChs d lsec = .ok s) : s = lsec := by
  unfold getChs at hc
  split at hc
  · cases hc
  · split at hc
    · cases hc
    · cases hc; rfl

theorem Resp.writeSector {P : Par} {lsec : Nat} (hl : P.bpb.rootBeg ≤ lsec) (dat : Bytes) : Resp P (writeSector lsec dat) := by
  constructor
  intro d d' h
  rw [writeSector_apply, writeSector_apply, getChs_sim h]
  cases hc : getChs d lsec with
  | error e => exact ⟨rfl, h⟩
  | ok s =>
    have := getChs_val hc
    subst this
    simp only
    unfold imgWriteSector
    rw [h.size]
    by_cases hi : s < d.raw.units.size
    · simp only [if_pos hi]
      have hu : d.raw.unitLen = 512 := h.geo.ulen
      have hu' : d'.raw.unitLen = 512 := h.geo'.ulen
      refine ⟨trivial, sim_write h (by simp) (by simp) rfl rfl ?_ ?_ ?_ ?_ ?_⟩
      · intro i hi2
        simp only [Array.size_setIfInBounds] at hi2
        simp only [Array.getElem_setIfInBounds, hi2]
        split
        · rw [quantize_length, hu]
        · exact h.geo.usz i hi2
      · intro i hi2
        simp only [Array.size_setIfInBounds] at hi2
        simp only [Array.getElem_setIfInBounds, hi2]
        split
        · rw [quantize_length, hu']
        · exact h.geo'.usz i hi2
      · intro u hu2
        simp only [Array.getElem?_setIfInBounds, if_neg (show ¬ s = u by omega)]
      · intro u hu2
        simp only [Array.getElem?_setIfInBounds, if_neg (show ¬ s = u by omega)]
      · intro u hu2
        simp only [Array.getElem?_setIfInBounds, h.size, hu, hu']
        split
        · rfl
        · exact h.off u hu2
    · simp only [if_neg hi]; exact ⟨trivial, h⟩


/-! ## cluster access -/

theorem imgReadBlock_congr {r r' : Raw} : ∀ (secs : List Nat), (∀ s ∈ secs, r'.units[s]? = r.units[s]?) →
    imgReadBlock r' secs = imgReadBlock r secs := by
  intro secs
  induction secs with
  | nil => intro _; rfl
  | cons s ss ih =>
    intro h
    unfold imgReadBlock
    rw [h s (List.mem_cons_self), ih (fun x hx => h x (List.mem_cons_of_mem _ hx))]

/-- the sectors of a data cluster lie behind the root directory -/
theorem clusSecs_ge {b : Bpb} {c : Nat} {secs : List Nat} (h : clusSecs b c = .ok secs) : ∀ s ∈ secs, b.rootBeg ≤ s := by
  unfold clusSecs at h
  split at h
  · cases h
  · cases h
    intro s hs
    rw [List.mem_range'_1] at hs
    unfold Bpb.firstClusterSec Bpb.firstDataSec at hs
    unfold Bpb.rootBeg
    omega

theorem readBlock_apply (c : Nat) (d : Disk) :
    readBlock c d = (match clusSecs d.bpb c with
      | .error e => (.error e, d)
      | .ok secs => match imgReadBlock d.raw secs with
        | .error e => (.error e, d)
        | .ok buf => if buf.length < d.bpb.blockSize then (.error .panic, d) else (.ok (takeN buf d.bpb.blockSize), d)) := by
  unfold readBlock
  simp only [M_bind_apply, M.get, M.lift]
  cases clusSecs d.bpb c with
  | error e => rfl
  | ok secs =>
    simp only
    cases imgReadBlock d.raw secs with
    | error e => rfl
    | ok buf =>
      simp only
      split <;> rfl

theorem Resp.readBlock {P : Par} (c : Nat) : Resp P (readBlock c) := by
  constructor
  intro d d' h
  rw [readBlock_apply, readBlock_apply, h.bpb, h.bpb']
  cases hc : clusSecs P.bpb c with
  | error e => exact ⟨rfl, h⟩
  | ok secs =>
    simp only
    rw [imgReadBlock_congr (r := d.raw) (r' := d'.raw) secs (fun s hs => h.off s (Or.inr (clusSecs_ge hc s hs)))]
    cases imgReadBlock d.raw secs with
    | error e => exact ⟨rfl, h⟩
    | ok buf =>
      simp only
      split
      · exact ⟨rfl, h⟩
      · exact ⟨rfl, h⟩

theorem writeSecs_sim : ∀ (secs : List Nat) (A : Nat → Prop) (dat : Bytes) (r r' : Raw), r'.unitLen = r.unitLen →
    r'.units.size = r.units.size → (∀ u, A u → r'.units[u]? = r.units[u]?) →
    ∀ u, (A u ∨ u ∈ secs) → (writeSecs r' secs dat).units[u]? = (writeSecs r secs dat).units[u]? := by
  intro secs
  induction secs with
  | nil =>
    intro A dat r r' _ _ h u hu
    cases hu with
    | inl h1 => exact h u h1
    | inr h1 => cases h1
  | cons s ss ih =>
    intro A dat r r' hul hsz h u hu
    unfold writeSecs
    rw [hul]
    refine ih (fun u => A u ∨ u = s) _ _ _ ?_ ?_ ?_ u ?_
    · rfl
    · simp [hsz]
    · intro v hv
      simp only [Array.getElem?_setIfInBounds, hsz]
      cases hv with
      | inl h1 => split; rfl; exact h v h1
      | inr h1 => subst h1; simp
    · cases hu with
      | inl h1 => exact Or.inl (Or.inl h1)
      | inr h1 =>
        cases List.mem_cons.1 h1 with
        | inl h2 => exact Or.inl (Or.inr h2)
        | inr h2 => exact Or.inr h2

theorem writeSecs_len : ∀ (secs : List Nat) (dat : Bytes) (r : Raw), dat.length = secs.length * r.unitLen →
    (∀ i (hi : i < r.units.size), r.units[i].length = r.unitLen) →
    ∀ i (hi : i < (writeSecs r secs dat).units.size), (writeSecs r secs dat).units[i].length = r.unitLen := by
  intro secs
  induction secs with
  | nil => intro dat r _ h i hi; exact h i hi
  | cons s ss ih =>
    intro dat r hd h i hi
    unfold writeSecs at hi ⊢
    simp only [List.length_cons, Nat.add_mul, Nat.one_mul] at hd
    apply ih (dat.drop r.unitLen) { r with units := r.units.setIfInBounds s (dat.take r.unitLen) }
    · simp only [List.length_drop]; omega
    · intro j hj
      simp only [Array.size_setIfInBounds] at hj
      simp only [Array.getElem_setIfInBounds, hj]
      split
      · simp only [List.length_take]; omega
      · exact h j hj

theorem zapBlock_apply (data : Bytes) (c : Nat) (d : Disk) :
    zapBlock data c d = (match clusSecs d.bpb c with
      | .error e => (.error e, d)
      | .ok secs => match imgWriteBlock d.raw secs (takeN data d.bpb.blockSize) with
        | .error e => (.error e, d)
        | .ok r => (.ok (), { d with raw := r })) := by
  unfold zapBlock
  simp only [M_bind_apply, M.get, M.lift]
  cases clusSecs d.bpb c with
  | error e => rfl
  | ok secs =>
    simp only
    cases imgWriteBlock d.raw secs (takeN data d.bpb.blockSize) <;> rfl

theorem Resp.zapBlock {P : Par} (data : Bytes) (c : Nat) : Resp P (zapBlock data c) := by
  constructor
  intro d d' h
  have e : d'.bpb = d.bpb := by rw [h.bpb, h.bpb']
  rw [zapBlock_apply, zapBlock_apply]
  cases hc : clusSecs d.bpb c with
  | error e1 =>
    have hc' : clusSecs d'.bpb c = .error e1 := by rw [e]; exact hc
    simp only [hc']
    exact ⟨trivial, h⟩
  | ok secs =>
    have hc' : clusSecs d'.bpb c = .ok secs := by rw [e]; exact hc
    simp only [hc']
    unfold imgWriteBlock
    rw [h.size]
    have hu : d.raw.unitLen = 512 := h.geo.ulen
    have hu' : d'.raw.unitLen = 512 := h.geo'.ulen
    by_cases hall : (secs.all fun s => decide (s < d.raw.units.size)) = true
    · simp only [if_pos hall]
      have hge : ∀ s ∈ secs, P.bpb.rootBeg ≤ s := by rw [h.bpb] at hc; exact clusSecs_ge hc
      refine ⟨trivial, sim_write h (writeSecs_size _ _ _).1 (writeSecs_size _ _ _).1 (writeSecs_size _ _ _).2 (writeSecs_size _ _ _).2
        ?_ ?_ ?_ ?_ ?_⟩
      · intro i hi
        rw [writeSecs_len secs _ d.raw (quantize_length _ _) (fun j hj => by rw [hu]; exact h.geo.usz j hj) i hi, hu]
      · intro i hi
        rw [writeSecs_len secs _ d'.raw (quantize_length _ _) (fun j hj => by rw [hu']; exact h.geo'.usz j hj) i hi, hu']
      · intro u hu2
        exact writeSecs_other _ _ _ u (fun hm => by have := hge u hm; omega)
      · intro u hu2
        exact writeSecs_other _ _ _ u (fun hm => by have := hge u hm; omega)
      · intro u hu2
        rw [e, hu, hu']
        exact writeSecs_sim secs (fun u => u < P.bpb.rsvd ∨ P.bpb.rootBeg ≤ u)
          _ d.raw d'.raw (by rw [hu, hu']) h.size h.off u (Or.inl hu2)
    · simp only [if_neg hall]; exact ⟨trivial, h⟩


/-! ## re-opening the buffer of a saved image gives back the buffer -/

theorem v16_self (g : Nat → Nat) (n : Nat) (h0 : g (n + n / 2) < 256) (h1 : g (n + n / 2 + 1) < 256) :
    v16 g n (rd12 g n) = g (n + n / 2) + 256 * g (n + n / 2 + 1) := by
  unfold v16 rd12
  simp only
  split <;> omega

theorem wr12_self (g : Nat → Nat) (n : Nat) (h0 : g (n + n / 2) < 256) (h1 : g (n + n / 2 + 1) < 256) :
    wr12 g n (rd12 g n) = g := by
  funext i
  unfold wr12
  rw [v16_self g n h0 h1]
  split
  · next h => subst h; omega
  · split
    · next h => subst h; omega
    · rfl

/-- writing back the entry just read changes nothing (the buffer consists of bytes) -/
theorem setCluster12_self {f : Array Nat} {n : Nat} (hi : InBuf f n) (hb : BytesOk f) :
    setCluster 12 f n (rd12 (fn f) n) = .ok f := by
  obtain ⟨f', e, hs, hf⟩ := setCluster12_spec (v := rd12 (fn f) n) hi
  rw [e]
  congr 1
  rw [wr12_self _ _ (hb _) (hb _)] at hf
  apply Array.ext hs
  intro i h1 h2
  have := congrFun hf i
  rw [fn_of_lt h1, fn_of_lt h2] at this
  exact this

/-- `repair` of a buffer against an identical backup is the identity -/
theorem repairLoop_self {f : Array Nat} (hb : BytesOk f) (ce : Nat) : ∀ (l : List Nat), (∀ n ∈ l, InBuf f n) →
    repairLoop 12 f ce l f = .ok f := by
  intro l
  induction l with
  | nil => intro _; rfl
  | cons n ns ih =>
    intro h
    have hi := h n (List.mem_cons_self)
    unfold repairLoop
    simp only [isDamaged, getCluster12_eq hi, Except.map, bind, Except.bind, ite_self, setCluster12_self hi hb]
    exact ih (fun x hx => h x (List.mem_cons_of_mem _ hx))

theorem readSectors_ok {d : Disk} (g : Geo d) : ∀ (l : List Nat), (∀ s ∈ l, s < d.bpb.totSec) →
    readSectors l d = (.ok (l.map (fun s => d.raw.units.getD s [])).flatten, d) := by
  intro l
  induction l with
  | nil => intro _; rfl
  | cons s ss ih =>
    intro h
    have hs := h s (List.mem_cons_self)
    have hsz : s < d.raw.units.size := by have := g.fits; omega
    unfold Fs.Fat.readSectors
    simp only [M_bind_apply, readSector_apply, getChs_ok g hs, imgReadSector, Array.getElem?_eq_getElem hsz,
      ih (fun x hx => h x (List.mem_cons_of_mem _ hx)), M_pure_apply, List.map_cons, List.flatten_cons]
    simp [Array.getD, hsz]

theorem geo_setFat {d : Disk} (g : Geo d) (x : Option (Array Nat)) : Geo { d with fat := x } :=
  { boot := g.boot, ulen := g.ulen, usz := g.usz, bps := g.bps, spc := g.spc, nfat := g.nfat, fat16 := g.fat16, spt := g.spt,
    heads := g.heads, typ := g.typ, ftyp := g.ftyp, rsvd := g.rsvd, fits := g.fits, chs := g.chs }

/-- one FAT copy of an image on which every copy holds `f`, read sector by sector -/
theorem fat_copy {d : Disk} {f : Array Nat} (g : Geo d) (hon : FatOn d f) (hb : BufOk d.bpb f) {k : Nat} (hk : k < d.bpb.nfat) :
    readSectors (List.range' (d.bpb.resSecs + k * d.bpb.fatSecs) d.bpb.fatSecs) d = (.ok f.toList, d) := by
  rw [readSectors_ok g]
  · congr 2
    rw [List.range'_eq_map_range, List.map_map]
    have : ((fun s => d.raw.units.getD s []) ∘ fun x => d.bpb.resSecs + k * d.bpb.fatSecs + x) =
        fun j => d.raw.units.getD (d.bpb.rsvd + k * d.bpb.fatSecs + j) [] := rfl
    rw [this]
    have e : (List.range d.bpb.fatSecs).map (fun j => d.raw.units.getD (d.bpb.rsvd + k * d.bpb.fatSecs + j) []) =
        (List.range d.bpb.fatSecs).map (fun j => (f.toList.drop (j * 512)).take 512) := by
      apply List.map_congr_left
      intro j hj
      have hj' : j < d.bpb.fatSecs := by simpa using hj
      have := hon k j hk hj'
      simp only [Array.getD_eq_getD_getElem?, this, Option.getD_some]
      rfl
    rw [e]
    exact flatten_chunks _ _ (by rw [Array.length_toList]; exact hb.1)
  · intro s hs
    rw [List.mem_range'_1] at hs
    unfold Bpb.resSecs at hs
    have hj : s - (d.bpb.rsvd + k * d.bpb.fatSecs) < d.bpb.fatSecs := by omega
    have h1 := fat_lt_root (b := d.bpb) hk hj
    have h2 := g.fits.1
    have h3 : d.bpb.rootBeg ≤ d.bpb.firstDataSec := by unfold Bpb.firstDataSec Bpb.rootBeg; omega
    omega

theorem backupLoop_self {d : Disk} {f : Array Nat} (g : Geo d) (hon : FatOn d f) (hb : BufOk d.bpb f)
    (hin : ∀ n ∈ List.range' firstDataCluster d.bpb.clusterCountUsable, InBuf f n) :
    ∀ (ks : List Nat), (∀ k ∈ ks, k < d.bpb.nfat) → backupLoop ks f d = (.ok f, d) := by
  intro ks
  induction ks with
  | nil => intro _; rfl
  | cons k ks ih =>
    intro h
    unfold Fs.Fat.backupLoop
    simp only [M_bind_apply, M.get, fat_copy g hon hb (h k (List.mem_cons_self)), M.lift, g.typ, Array.toArray_toList,
      repairLoop_self hb.2 _ _ hin]
    exact ih (fun x hx => h x (List.mem_cons_of_mem _ hx))

/-- **the closed twin opens to the saved buffer** -/
theorem open_twin {d : Disk} {f : Array Nat} (g : Geo d) (hc : d.fat = none) (hon : FatOn d f) (hb : BufOk d.bpb f) :
    getFatBuffer d = (.ok f, { d with fat := some f }) := by
  have hin : ∀ n ∈ List.range' firstDataCluster d.bpb.clusterCountUsable, InBuf f n := by
    intro n hn
    rw [List.mem_range'_1] at hn
    have w := wok_of (d := { d with fat := some f }) (f := f) (geo_setFat g _)
      { isOpen := rfl, size := hb.1, bytes := hb.2, copies := hon }
    exact w.inbuf n hn.2
  have h0 : 0 < d.bpb.nfat := Nat.pos_of_ne_zero g.nfat
  have e1 := fat_copy g hon hb h0
  simp only [Nat.zero_mul, Nat.add_zero] at e1
  have e2 := backupLoop_self g hon hb hin (List.range' 1 (d.bpb.nfat - 1)) (by
    intro k hk; rw [List.mem_range'_1] at hk; omega)
  unfold getFatBuffer
  simp only [hc]
  unfold openFatBuffer
  simp only [M_bind_apply, M.get, hc, e1, Array.toArray_toList, e2, M.setFat]


/-! ## the buffer in related objects -/

theorem getFatBuffer_sim {P : Par} {d d' : Disk} (h : Sim P d d') :
    ∃ f d'', getFatBuffer d = (.ok f, d) ∧ getFatBuffer d' = (.ok f, d'') ∧ Sim P d d'' ∧ BufOk P.bpb f ∧ d''.fat = some f := by
  obtain ⟨f, hf, hb, ht⟩ := h.buf
  cases ht with
  | inl h1 => exact ⟨f, d', getFatBuffer_open hf, getFatBuffer_open h1, h, hb, h1⟩
  | inr h1 =>
    refine ⟨f, { d' with fat := some f }, getFatBuffer_open hf, open_twin h.geo' h1.1 h1.2 (by rw [h.bpb']; exact hb), ?_, hb, rfl⟩
    exact ⟨h.par, h.par', h.size, h.off, h.geo, geo_setFat h.geo' _, ⟨f, hf, hb, Or.inl rfl⟩⟩

/-- code that receives the buffer may rely on its being well-formed -/
theorem Resp.withFat {P : Par} {β : Type} {k : Array Nat → M β} (hk : ∀ f, BufOk P.bpb f → Resp P (k f)) :
    Resp P (getFatBuffer >>= k) := by
  constructor
  intro d d' h
  obtain ⟨f, d'', e1, e2, hs, hb, _⟩ := getFatBuffer_sim h
  simp only [M_bind_apply, e1, e2]
  exact (hk f hb).out d d'' hs

theorem Resp.getFatBuffer {P : Par} : Resp P getFatBuffer := by
  constructor
  intro d d' h
  obtain ⟨f, d'', e1, e2, hs, _, _⟩ := getFatBuffer_sim h
  rw [e1, e2]
  exact ⟨rfl, hs⟩

theorem Resp.isBlockFree {P : Par} (c : Nat) : Resp P (isBlockFree c) := by
  constructor
  intro d d' h
  obtain ⟨f, d'', e1, e2, hs, _, _⟩ := getFatBuffer_sim h
  unfold Fs.Fat.isBlockFree
  simp only [e1, e2]
  refine ⟨?_, hs⟩
  rw [Par.typ_of hs.par, Par.typ_of hs.par']

theorem Resp.setFat {P : Par} {f : Array Nat} (hb : BufOk P.bpb f) : Resp P (M.setFat f) := by
  constructor
  intro d d' h
  unfold M.setFat
  exact ⟨rfl, ⟨h.par, h.par', h.size, h.off, geo_setFat h.geo _, geo_setFat h.geo' _, ⟨f, rfl, hb, Or.inl rfl⟩⟩⟩

/-- a pure step whose result is known to satisfy `Q` -/
theorem Resp.lift_bind {P : Par} {α β : Type} {x : R α} {k : α → M β} (Q : α → Prop) (hx : ∀ a, x = .ok a → Q a)
    (hk : ∀ a, Q a → Resp P (k a)) : Resp P (M.lift x >>= k) := by
  constructor
  intro d d' h
  simp only [M_bind_apply, M.lift]
  cases hxe : x with
  | error e => exact ⟨rfl, h⟩
  | ok a => exact (hk a (hx a hxe)).out d d' h

/-- inside a related pair the FAT type is 12 -/
theorem Resp.of_typ12 {P : Par} {α : Type} {m : M α} (h : P.typ = 12 → Resp P m) : Resp P m := by
  constructor
  intro d d' hs
  have : P.typ = 12 := by rw [← Par.typ_of hs.par]; exact hs.geo.typ
  exact (h this).out d d' hs

theorem bufOk_setCluster {b : Bpb} {f f' : Array Nat} {n v : Nat} (hb : BufOk b f) (h : setCluster 12 f n v = .ok f') : BufOk b f' := by
  obtain ⟨_, hs, _⟩ := setCluster12_ok h
  exact ⟨by rw [hs]; exact hb.1, bytesOk_setCluster hb.2 h⟩

end A2Verif.Reload.Fat
