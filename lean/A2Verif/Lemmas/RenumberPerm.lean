import A2Verif.Lemmas.RenumberSort
/-!
Part 11 (C16): the edit list of `build_edits` is a filter-map of (a permutation of) the gathered labels; hence
pairwise disjoint labels give pairwise disjoint edits.
-/
namespace A2Verif.Lemmas.Renumber
open A2Verif.Model.Renumber

/-- the gathered pairs recorded in a grouped map -/
def ungroup (m : List (Nat × List Label)) : List (Nat × Label) :=
  m.flatMap (fun kv => kv.2.map (fun v => (kv.1, v)))

/-- the first label of every key -/
def firsts (m : List (Nat × List Label)) : List (Nat × Label) :=
  m.filterMap (fun kv => kv.2.head?.map (fun v => (kv.1, v)))

theorem ungroup_insertGrouped_perm (k : Nat) (v : Label) (m : List (Nat × List Label)) :
    (ungroup (insertGrouped k v m)).Perm ((k, v) :: ungroup m) := by
  induction m with
  | nil => simp [ungroup, insertGrouped]
  | cons y ys ih =>
    obtain ⟨k0, vs0⟩ := y
    unfold insertGrouped
    split
    · simp [ungroup]
    · split
      · rename_i _ heq
        subst heq
        simp only [ungroup, List.flatMap_cons, List.map_append, List.map_cons, List.map_nil, List.append_assoc,
          List.singleton_append]
        exact List.perm_middle
      · have : ungroup ((k0, vs0) :: insertGrouped k v ys) = vs0.map (fun v => (k0, v)) ++ ungroup (insertGrouped k v ys) := by
          simp [ungroup]
        rw [this]
        have h2 : ungroup ((k0, vs0) :: ys) = vs0.map (fun v => (k0, v)) ++ ungroup ys := by simp [ungroup]
        rw [h2]
        exact ((List.Perm.refl _).append ih).trans List.perm_middle

theorem ungroup_group_perm (xs : List (Nat × Label)) : (ungroup (group xs)).Perm xs := by
  unfold group
  suffices ∀ m, (ungroup (xs.foldl (fun m kv => insertGrouped kv.1 kv.2 m) m)).Perm (xs ++ ungroup m) by
    simpa [ungroup] using this []
  induction xs with
  | nil => intro m; exact List.Perm.refl _
  | cons x xs ih =>
    intro m
    simp only [List.foldl_cons, List.cons_append]
    refine (ih _).trans ?_
    exact ((List.Perm.refl xs).append (ungroup_insertGrouped_perm x.1 x.2 m)).trans List.perm_middle

theorem firsts_sublist (m : List (Nat × List Label)) : (firsts m).Sublist (ungroup m) := by
  induction m with
  | nil => exact List.Sublist.refl _
  | cons y ys ih =>
    obtain ⟨k, vs⟩ := y
    cases vs with
    | nil =>
      have h1 : firsts ((k, []) :: ys) = firsts ys := rfl
      have h2 : ungroup ((k, []) :: ys) = ungroup ys := by simp [ungroup]
      rw [h1, h2]; exact ih
    | cons v vs =>
      have h1 : firsts ((k, v :: vs) :: ys) = (k, v) :: firsts ys := by simp [firsts]
      have h2 : ungroup ((k, v :: vs) :: ys) = (k, v) :: (vs.map (fun v => (k, v)) ++ ungroup ys) := by
        simp [ungroup]
      rw [h1, h2]
      exact List.Sublist.cons_cons _ (ih.trans (List.sublist_append_right _ _))

/-- the edit a gathered pair gives rise to -/
def editOf (mapping : List (Nat × Nat)) (keep : Label → Bool) (x : Nat × Label) : Option Edit :=
  match lookup mapping x.1 with
  | some n => if keep x.2 then some (applyMapping n x.2) else none
  | none => none

theorem secEdits_single (mapping : List (Nat × Nat)) (keep : Label → Bool) (s : Nat) (info : List Label) :
    secEdits mapping [(s, info)] keep = (info.map (fun v => (s, v))).filterMap (editOf mapping keep) := by
  induction info with
  | nil => simp [secEdits]
  | cons v vs ih =>
    have h0 : secEdits mapping [(s, v :: vs)] keep =
        secEdits mapping [(s, [v])] keep ++ secEdits mapping [(s, vs)] keep := by simp [secEdits]
    have h1 : secEdits mapping [(s, [v])] keep = (editOf mapping keep (s, v)).toList := by
      simp only [secEdits, editOf, List.flatMap_cons, List.flatMap_nil, List.append_nil]
      cases lookup mapping s with
      | none => rfl
      | some n => cases keep v <;> rfl
    rw [h0, ih, h1]
    simp only [List.map_cons, List.filterMap_cons]
    cases editOf mapping keep (s, v) <;> rfl

theorem secEdits_eq (mapping : List (Nat × Nat)) (secs : List (Nat × List Label)) (keep : Label → Bool) :
    secEdits mapping secs keep = (ungroup secs).filterMap (editOf mapping keep) := by
  induction secs with
  | nil => rfl
  | cons y ys ih =>
    obtain ⟨s, info⟩ := y
    have h1 : secEdits mapping ((s, info) :: ys) keep =
        secEdits mapping [(s, info)] keep ++ secEdits mapping ys keep := by simp [secEdits]
    have h2 : ungroup ((s, info) :: ys) = info.map (fun v => (s, v)) ++ ungroup ys := by simp [ungroup]
    rw [h1, h2, List.filterMap_append, ih, secEdits_single]

theorem primEdits_eq (mapping : List (Nat × Nat)) (m : List (Nat × List Label)) :
    primEdits mapping m = (firsts m).filterMap (editOf mapping (fun _ => true)) := by
  induction m with
  | nil => rfl
  | cons y ys ih =>
    obtain ⟨p, info⟩ := y
    have h1 : primEdits mapping ((p, info) :: ys) = primEdits mapping [(p, info)] ++ primEdits mapping ys := by
      simp [primEdits]
    have h2 : firsts ((p, info) :: ys) = firsts [(p, info)] ++ firsts ys := by
      show firsts ([(p, info)] ++ ys) = _
      unfold firsts; rw [List.filterMap_append]
    rw [h1, h2, List.filterMap_append, ih]
    congr 1
    cases info with
    | nil =>
      have : firsts [(p, ([] : List Label))] = [] := rfl
      rw [this]
      simp only [primEdits, List.flatMap_cons, List.flatMap_nil, List.append_nil]
      cases lookup mapping p <;> rfl
    | cons i0 rest =>
      have : firsts [(p, i0 :: rest)] = [(p, i0)] := rfl
      rw [this]
      simp only [primEdits, List.flatMap_cons, List.flatMap_nil, List.append_nil]
      cases h : lookup mapping p <;> simp [editOf, h]

/-- two labels do not overlap -/
def DisjX (x y : Nat × Label) : Prop := disjointL x.2 y.2 = true

/-- two edits do not overlap -/
def DisjE (a b : Edit) : Prop :=
  a.rng.s.line ≠ b.rng.s.line ∨ a.rng.e.ch ≤ b.rng.s.ch ∨ b.rng.e.ch ≤ a.rng.s.ch

theorem disjX_symm {x y : Nat × Label} (h : DisjX x y) : DisjX y x := by
  unfold DisjX disjointL at *
  simp only [Bool.or_eq_true, bne_iff_ne, ne_eq, decide_eq_true_eq] at h ⊢
  omega

theorem editOf_rng {mapping : List (Nat × Nat)} {keep : Label → Bool} {x : Nat × Label} {e : Edit}
    (h : editOf mapping keep x = some e) : e.rng = x.2.rng := by
  unfold editOf at h
  split at h
  · split at h
    · injection h with h; rw [← h]; rfl
    · cases h
  · cases h

theorem disjE_of_disjX {mapping : List (Nat × Nat)} {k1 k2 : Label → Bool} {x y : Nat × Label} {a b : Edit}
    (h : DisjX x y) (ha : editOf mapping k1 x = some a) (hb : editOf mapping k2 y = some b) : DisjE a b := by
  unfold DisjE
  rw [editOf_rng ha, editOf_rng hb]
  unfold DisjX disjointL at h
  simp only [Bool.or_eq_true, bne_iff_ne, ne_eq, decide_eq_true_eq] at h
  omega

theorem pairwiseB_iff {α : Type} (r : α → α → Bool) (l : List α) :
    pairwiseB r l = true ↔ l.Pairwise (fun a b => r a b = true) := by
  induction l with
  | nil => simp [pairwiseB]
  | cons x xs ih => simp [pairwiseB, ih, List.all_eq_true]

theorem pairwise_trichotomy {α : Type} {R : α → α → Prop} {l : List α} (h : l.Pairwise R) :
    ∀ a ∈ l, ∀ b ∈ l, a = b ∨ R a b ∨ R b a := by
  induction l with
  | nil => intro a ha; cases ha
  | cons x xs ih =>
    have h' := List.pairwise_cons.mp h
    intro a ha b hb
    rcases List.mem_cons.mp ha with ha1 | ha1 <;> rcases List.mem_cons.mp hb with hb1 | hb1
    · exact Or.inl (ha1.trans hb1.symm)
    · exact Or.inr (Or.inl (ha1 ▸ h'.1 b hb1))
    · exact Or.inr (Or.inr (hb1 ▸ h'.1 a ha1))
    · exact ih h'.2 a ha1 b hb1

end A2Verif.Lemmas.Renumber
