import A2Verif.Lemmas.TrackGOps
import A2Verif.Lemmas.TrackOps
/-!
`GFmt`: the state of a formatted track between two operations (16 sectors 6&2 or 13 sectors 5&3, written or
never written sectors, head anywhere in a data area / gap at a cell boundary — or, right after `format`,
inside the zero bits in front of a sync byte), with the absolute position of the head.  `read_sector` and
`write_sector` on it: result, new state, distance travelled.
-/
namespace A2Verif.Model.Track
open Head A2Verif.Model.Nibble

/-- the disk bytes `encode_sector` puts between data prolog and epilog -/
def encNibs (f : Fmt) (dat : List Nat) : List Nat := if f.six then enc62 dat else enc53 dat

/-! ## bit lengths -/

theorem blen_plain (bs : List Nat) : blen (plain bs) = 8 * bs.length := by
  rw [blen, stream_plain, bytesBits_length]

theorem blen_replicate (c : Cell) (k : Nat) : blen (List.replicate k c) = k * (c.1 + 8) := by
  induction k with
  | zero => simp [blen_nil]
  | succ k ih => rw [List.replicate_succ, blen_cons, ih, Nat.succ_mul]; omega

theorem blen_syncCells (f : Fmt) (k : Nat) : blen (syncCells f (k + 1)) = 8 + k * (f.z + 8) := by
  simp only [syncCells, blen_cons, blen_replicate] <;> omega

theorem blen_fieldCells (f : Fmt) (nibs : List Nat) : blen (fieldCells f nibs) = 10 * f.z + 128 + 8 * nibs.length := by
  simp only [fieldCells, blen_append, blen_cons, blen_plain, blen_syncCells, List.length_append, List.length_cons,
    List.length_nil, epi]
  omega

theorem blen_blank (f : Fmt) : blen (blankCells f) = 10 * f.z + 3416 := by
  simp only [blankCells, blen_append, blen_cons, blen_plain, blen_syncCells, List.length_replicate]
  omega

theorem blen_gfield (f : Fmt) (fld : Option (List Nat)) (hg : GoodFld f fld) :
    blen (gfield f fld) = 10 * f.z + 128 + 8 * f.dataNibs := by
  cases fld with
  | none =>
    have h6 : f.six = false := hg
    simp [gfield, blen_blank, Fmt.dataNibs, h6]
  | some nibs => simp [gfield, blen_fieldCells, hg.2]

theorem length_gfield (f : Fmt) (fld : Option (List Nat)) (hg : GoodFld f fld) :
    (gfield f fld).length = 16 + f.dataNibs := by
  cases fld with
  | none =>
    have h6 : f.six = false := hg
    simp [gfield, blank_length, Fmt.dataNibs, h6]
  | some nibs =>
    simp only [gfield, fieldCells, syncCells, plain, List.length_append, List.length_cons, List.length_map,
      List.length_replicate, hg.2, epi, List.length_nil]
    omega

/-! ## the data field write -/

theorem St.posAt {n t X q} (h : St n t X q) : PosAt t n q := by
  have := StK.posAt h; simpa using this

/-- **Data field write**, 6&2 or 5&3, over a data field or a never written data area of the same bit
length: exactly those bits are replaced, the pointer moves by that many bits. -/
theorem encodeSector_st (n : Nat) (f : Fmt) (hs : 8 ≤ f.syncBits) (t : Trk) (old : List Cell) (dat : List Nat)
    (rest : List Cell) (q : Nat) (hlen : blen old = blen (fieldCells f (encNibs f dat)))
    (h : St n t (old ++ rest) q) :
    St n (encodeSector f dat t) (rest ++ fieldCells f (encNibs f dat)) (q + blen old) := by
  have hW : encodeSector f dat t = writeBits ((List.replicate 10 (syncOne f.syncBits)).flatten ++
      bytesBits (datPro ++ encNibs f dat ++ epi)) t := by
    simp only [encodeSector, writeSync_eq, writeBytes_eq, encNibs]
    rw [bytesBits_append, bytesBits_append, writeBits_append, writeBits_append, writeBits_append]
  have hb := h.bits
  rw [stream_append] at hb
  have hl : (stream old).length = ((List.replicate 10 (syncOne f.syncBits)).flatten ++
      bytesBits (datPro ++ encNibs f dat ++ epi)).length := by
    rw [← stream_fieldCells f hs]; exact hlen
  have hbits := writeBits_bits _ t (stream old) (stream rest) hb hl
  have hpos := writeBits_posAt ((List.replicate 10 (syncOne f.syncBits)).flatten ++
      bytesBits (datPro ++ encNibs f dat ++ epi)) t n q h.posAt
  rw [hW]
  refine St.mk' ?_ ?_ h.2.2.1 ?_
  · rw [hbits, stream_append, stream_fieldCells f hs]
  · have := h.2.1
    rw [blen_append] at this ⊢
    omega
  · rw [hpos.2.2, ← hl]; rfl

/-! ## the encoded nibbles are clean -/

theorem enc53_clean (d : List Nat) : ∀ v ∈ enc53 d, CleanNib v := by
  intro v hv'
  obtain ⟨x, _, rfl⟩ := List.mem_map.1 hv'
  have hx : x &&& 0x1f < 32 := Nat.lt_succ_of_le Nat.and_le_right
  obtain ⟨a, b, _, d, _⟩ := A2Verif.Model.Nibble.tbl53_range ⟨x &&& 0x1f, hx⟩
  simp only at a b d
  exact ⟨by unfold encByte53; omega, b, d⟩

theorem goodFld_enc (f : Fmt) (dat : List Nat) : GoodFld f (some (encNibs f dat)) := by
  constructor
  · intro v hv
    unfold encNibs at hv
    split at hv
    · exact enc62_clean dat v hv
    · exact enc53_clean dat v hv
  · unfold encNibs Fmt.dataNibs
    split
    · simp [enc62, pre62, length_chain]
    · simp [enc53, pre53, length_chain]

/-! ## the state of a track between operations -/

structure GFmt (n : Nat) (f : Fmt) (vol trk : Nat) (t : Trk) (cur : GSec) (others : List GSec)
    (pre fpart : List Cell) (q k : Nat) : Prop where
  split : fpart ++ pre = FG f cur
  st : StK n t (ahead f vol trk cur others pre fpart) q k
  slack : SlackOk k (ahead f vol trk cur others pre fpart)
  good : ∀ s ∈ cur :: others, GoodG f s
  nodup : ((cur :: others).map (·.id)).Nodup
  len : others.length < 32

/-- the target of a search relative to the sector the head is in; `l1` = the sectors passed on the way,
`rest` = the other sectors in track order behind the target -/
def Seek (cur tgt : GSec) (others rest l1 : List GSec) : Prop :=
  (∃ l2, others = l1 ++ tgt :: l2 ∧ rest = l2 ++ cur :: l1) ∨ (tgt = cur ∧ rest = others ∧ l1 = others)

theorem seek_perm {cur tgt : GSec} {others rest l1 : List GSec} (h : Seek cur tgt others rest l1) :
    List.Perm (cur :: others) (tgt :: rest) := by
  rcases h with ⟨l2, ho, hr⟩ | ⟨hc, hr, _⟩
  · subst ho; subst hr
    exact List.perm_append_comm (l₁ := cur :: l1) (l₂ := tgt :: l2)
  · subst hc; rw [hr]

theorem GFmt.pre_eq {n f vol trk t cur others pre fpart q k} (h : GFmt n f vol trk t cur others pre fpart q k) :
    pre = (FG f cur).drop fpart.length := by rw [← h.split]; simp

theorem GFmt.pre_quiet {n f vol trk t cur others pre fpart q k} (h : GFmt n f vol trk t cur others pre fpart q k) :
    Quiet f pre := by
  rw [h.pre_eq]; exact quiet_FG_drop f cur (h.good cur (by simp)).2.1 _

theorem GFmt.pre_len {n f vol trk t cur others pre fpart q k} (h : GFmt n f vol trk t cur others pre fpart q k) :
    pre.length + 3 ≤ f.maxTries := by
  have := congrArg List.length h.split
  simp only [List.length_append] at this
  have := (h.good cur (by simp)).2.2
  omega

/-- **The sector search on a formatted track**, from wherever the previous operation (or the formatter)
left the head: it stops behind the address field of the target; the pointer has moved over `pre`, the
sectors in between and that address field. -/
theorem findSector_gfmt {n : Nat} {f : Fmt} {vol trk : Nat} {t : Trk} {cur : GSec} {others : List GSec}
    {pre fpart : List Cell} {q k : Nat} (hv : vol < 256) (ht : trk < 256)
    (hF : GFmt n f vol trk t cur others pre fpart q k) (tgt : GSec) (rest l1 : List GSec)
    (hs : Seek cur tgt others rest l1) :
    ∃ t1 : Trk, findSector f trk tgt.id t = (.ok (), t1) ∧
      St n t1 (FG f tgt ++ gsecsCells f vol trk rest ++ addrCells f vol trk tgt.id)
        (q + blen (pre ++ gsecsCells f vol trk l1 ++ addrCells f vol trk tgt.id)) := by
  have hperm := seek_perm hs
  have hgt : GoodG f tgt := hF.good tgt ((hperm.mem_iff).2 (by simp))
  rcases hs with ⟨l2, ho, hr⟩ | ⟨hc, hr, hl⟩
  · subst ho; subst hr
    have hne : ∀ s ∈ l1, GoodG f s ∧ s.id ≠ tgt.id := by
      intro s hs
      refine ⟨hF.good s (by simp [hs]), ?_⟩
      intro he
      have hnd := hF.nodup
      simp only [List.map_cons, List.map_append, List.nodup_cons, List.nodup_append] at hnd
      exact hnd.2.2.2 s.id (List.mem_map.2 ⟨s, hs, rfl⟩) tgt.id (by simp) he
    have hX : ahead f vol trk cur (l1 ++ tgt :: l2) pre fpart =
        pre ++ gsecsCells f vol trk l1 ++ addrCells f vol trk tgt.id ++
          (FG f tgt ++ gsecsCells f vol trk l2 ++ addrCells f vol trk cur.id ++ fpart) := by
      simp [ahead, gsecsCells_append, gsecsCells_cons, gsecCells]
    obtain ⟨t1, h1, h2⟩ := findSectorLoop_skip_st n f vol trk tgt.id hv ht hgt.1 l1 32 t pre
      (FG f tgt ++ gsecsCells f vol trk l2 ++ addrCells f vol trk cur.id ++ fpart) q k
      hF.pre_quiet hF.pre_len hne (by have := hF.len; simp at this; omega)
      (by rw [← hX]; exact hF.st) (by rw [← hX]; exact hF.slack)
    refine ⟨t1, h1, h2.cast ?_ rfl⟩
    simp [gsecsCells_append, gsecsCells_cons, gsecCells, ← hF.split]
  · subst hc; subst hr; subst hl
    have hne : ∀ s ∈ l1, GoodG f s ∧ s.id ≠ tgt.id := by
      intro s hs
      refine ⟨hF.good s (by simp [hs]), ?_⟩
      intro he
      have hnd := hF.nodup
      simp only [List.map_cons, List.nodup_cons] at hnd
      exact hnd.1 (by rw [← he]; exact List.mem_map.2 ⟨s, hs, rfl⟩)
    obtain ⟨t1, h1, h2⟩ := findSectorLoop_skip_st n f vol trk tgt.id hv ht hgt.1 l1 32 t pre fpart q k
      hF.pre_quiet hF.pre_len hne hF.len (by simpa [ahead] using hF.st) (by simpa [ahead] using hF.slack)
    refine ⟨t1, h1, h2.cast ?_ rfl⟩
    simp [← hF.split]

theorem FG_take (f : Fmt) (s : GSec) (c : Nat) (hc : c ≤ (gfield f s.fld).length) :
    (FG f s).take c = (gfield f s.fld).take c := by
  unfold FG; rw [List.take_append_of_le_length hc]

theorem FG_drop (f : Fmt) (s : GSec) (c : Nat) (hc : c ≤ (gfield f s.fld).length) :
    (FG f s).drop c = (gfield f s.fld).drop c ++ syncCells f s.gap := by
  unfold FG; rw [List.drop_append_of_le_length hc]

theorem readStop_le (f : Fmt) (fld : Option (List Nat)) (hg : GoodFld f fld) : readStop fld ≤ (gfield f fld).length := by
  rw [length_gfield f fld hg]
  have : 343 ≤ f.dataNibs := by unfold Fmt.dataNibs; split <;> omega
  cases fld with
  | none => simp only [readStop]; omega
  | some nibs => simp only [readStop, hg.2]; omega

/-- the state after an operation that stopped `c` cells into the data area + gap of `tgt` -/
theorem gfmt_of_parts {n : Nat} {f : Fmt} {vol trk : Nat} {t : Trk} {cur : GSec} {others : List GSec}
    {pre fpart : List Cell} {q k : Nat} (hF : GFmt n f vol trk t cur others pre fpart q k)
    (tgt tgt' : GSec) (rest l1 : List GSec) (hs : Seek cur tgt others rest l1) (hid : tgt'.id = tgt.id)
    (hg' : GoodG f tgt') (t' : Trk) (c q' : Nat)
    (hst : St n t' ((FG f tgt').drop c ++ gsecsCells f vol trk rest ++ addrCells f vol trk tgt'.id ++ (FG f tgt').take c) q') :
    GFmt n f vol trk t' tgt' rest ((FG f tgt').drop c) ((FG f tgt').take c) q' 0 := by
  have hperm := seek_perm hs
  refine ⟨List.take_append_drop _ _, hst, slackOk_zero _, ?_, ?_, ?_⟩
  · intro s hs
    simp only [List.mem_cons] at hs
    rcases hs with h | h
    · subst h; exact hg'
    · exact hF.good s ((hperm.mem_iff).2 (by simp [h]))
  · have h1 : ((tgt :: rest).map (·.id)).Nodup := ((hperm.map _).nodup_iff).1 hF.nodup
    simpa [hid] using h1
  · have := hperm.length_eq
    have := hF.len
    simp only [List.length_cons] at *
    omega

/-- **Reading a sector of a formatted track**: the result is the decoding of the nibbles that sector holds
(256 zeros if it was never written); no bit of the track changes (`GFmt` again, same sectors); the pointer
has moved over exactly the cells passed. -/
theorem readSector_gfmt {n : Nat} {f : Fmt} {vol trk : Nat} {t : Trk} {cur : GSec} {others : List GSec}
    {pre fpart : List Cell} {q k : Nat} (hv : vol < 256) (ht : trk < 256)
    (hF : GFmt n f vol trk t cur others pre fpart q k) (tgt : GSec) (rest l1 : List GSec)
    (hs : Seek cur tgt others rest l1) :
    ∃ t' : Trk, readSector f trk tgt.id t = (gdecRes f tgt.fld, t') ∧
      GFmt n f vol trk t' tgt rest ((FG f tgt).drop (readStop tgt.fld)) ((FG f tgt).take (readStop tgt.fld))
        (q + blen (pre ++ gsecsCells f vol trk l1 ++ addrCells f vol trk tgt.id ++ (FG f tgt).take (readStop tgt.fld))) 0 := by
  obtain ⟨t1, h1, h2⟩ := findSector_gfmt hv ht hF tgt rest l1 hs
  have hgt : GoodG f tgt := hF.good tgt (((seek_perm hs).mem_iff).2 (by simp))
  have hle := readStop_le f tgt.fld hgt.2.1
  have hm : 362 ≤ f.maxTries := by
    have := hgt.2.2
    simp only [FG, List.length_append, length_gfield f tgt.fld hgt.2.1] at this
    have : 343 ≤ f.dataNibs := by unfold Fmt.dataNibs; split <;> omega
    omega
  have key : ∃ t' : Trk, decodeSector f t1 = (gdecRes f tgt.fld, t') ∧
      St n t' ((gfield f tgt.fld).drop (readStop tgt.fld) ++ (syncCells f tgt.gap ++ gsecsCells f vol trk rest ++
        addrCells f vol trk tgt.id) ++ (gfield f tgt.fld).take (readStop tgt.fld))
        (q + blen (pre ++ gsecsCells f vol trk l1 ++ addrCells f vol trk tgt.id) + blen ((gfield f tgt.fld).take (readStop tgt.fld))) := by
    cases hfl : tgt.fld with
    | none =>
      obtain ⟨d1, d2⟩ := decodeSector_blank_st n f t1
        (syncCells f tgt.gap ++ gsecsCells f vol trk rest ++ addrCells f vol trk tgt.id) _ (by omega)
        (h2.cast (by simp [FG, hfl, gfield]) rfl)
      exact ⟨(decodeSector f t1).2, Prod.ext d1 rfl, by simpa [gfield, readStop] using d2⟩
    | some nibs =>
      have hg := hgt.2.1
      rw [hfl] at hg
      obtain ⟨d1, d2⟩ := decodeSector_st n f t1 nibs
        (syncCells f tgt.gap ++ gsecsCells f vol trk rest ++ addrCells f vol trk tgt.id) _ hg.1 hg.2 (by omega)
        (h2.cast (by simp [FG, hfl, gfield]) rfl)
      exact ⟨(decodeSector f t1).2, Prod.ext d1 rfl, by simpa [gfield, readStop] using d2⟩
  obtain ⟨t', hd, hst⟩ := key
  refine ⟨t', by simp only [readSector, h1]; exact hd, ?_⟩
  apply gfmt_of_parts hF tgt tgt rest l1 hs rfl hgt
  refine hst.cast ?_ ?_
  · rw [FG_take f tgt _ hle, FG_drop f tgt _ hle]; simp
  · rw [FG_take f tgt _ hle]; simp only [blen_append]; omega

/-- **Writing a sector of a formatted track** (6&2 or 5&3, over a data field or a never written data area):
it succeeds; the cells of that sector's data area now are the data field of the encoding of `dat`; every
other cell of the track is as before (same other sectors, same address fields); `GFmt` again. -/
theorem writeSector_gfmt {n : Nat} {f : Fmt} {vol trk : Nat} {t : Trk} {cur : GSec} {others : List GSec}
    {pre fpart : List Cell} {q k : Nat} (hsb : 8 ≤ f.syncBits) (hv : vol < 256) (ht : trk < 256)
    (hF : GFmt n f vol trk t cur others pre fpart q k) (tgt : GSec) (rest l1 : List GSec)
    (hs : Seek cur tgt others rest l1) (dat : List Nat) :
    ∃ t' : Trk, writeSector f dat trk tgt.id t = (.ok (), t') ∧
      GFmt n f vol trk t' { tgt with fld := some (encNibs f dat) } rest
        (syncCells f tgt.gap) (fieldCells f (encNibs f dat))
        (q + blen (pre ++ gsecsCells f vol trk l1 ++ addrCells f vol trk tgt.id ++ gfield f tgt.fld)) 0 := by
  obtain ⟨t1, h1, h2⟩ := findSector_gfmt hv ht hF tgt rest l1 hs
  have hgt : GoodG f tgt := hF.good tgt (((seek_perm hs).mem_iff).2 (by simp))
  have hge := goodFld_enc f dat
  have hbl : blen (gfield f tgt.fld) = blen (fieldCells f (encNibs f dat)) := by
    rw [blen_gfield f tgt.fld hgt.2.1]
    have := blen_gfield f (some (encNibs f dat)) hge
    simpa [gfield] using this.symm
  have e := encodeSector_st n f hsb t1 (gfield f tgt.fld) dat
    (syncCells f tgt.gap ++ gsecsCells f vol trk rest ++ addrCells f vol trk tgt.id) _ hbl
    (h2.cast (by simp [FG]) rfl)
  have hg' : GoodG f { tgt with fld := some (encNibs f dat) } := by
    refine ⟨hgt.1, hge, ?_⟩
    have := hgt.2.2
    simp only [FG, List.length_append, length_gfield f tgt.fld hgt.2.1] at this
    simp only [FG, List.length_append, length_gfield f _ hge]
    exact this
  have hlenF : (gfield f (some (encNibs f dat))).length ≤ (gfield f (some (encNibs f dat))).length := Nat.le_refl _
  refine ⟨encodeSector f dat t1, by simp only [writeSector, h1], ?_⟩
  have hp := gfmt_of_parts hF tgt { tgt with fld := some (encNibs f dat) } rest l1 hs rfl hg' (encodeSector f dat t1)
    (gfield f (some (encNibs f dat))).length
    (q + blen (pre ++ gsecsCells f vol trk l1 ++ addrCells f vol trk tgt.id ++ gfield f tgt.fld))
    (by
      rw [FG_take f _ _ hlenF, FG_drop f _ _ hlenF]
      refine e.cast ?_ ?_
      · simp [gfield]
      · simp only [blen_append]; omega)
  rw [FG_take f _ _ hlenF, FG_drop f _ _ hlenF] at hp
  simpa [gfield] using hp

/-- **A sector id that is not on the track is refused** by `read_sector` and `write_sector` (the write
changes nothing: `find_sector` fails before `encode_sector`). -/
theorem sector_missing_gfmt {n : Nat} {f : Fmt} {vol trk : Nat} {t : Trk} {cur : GSec} {others : List GSec}
    {pre fpart : List Cell} {q k : Nat} (hv : vol < 256) (ht : trk < 256)
    (hF : GFmt n f vol trk t cur others pre fpart q k) (sec : Nat) (hne : ∀ s ∈ cur :: others, s.id ≠ sec) :
    (∃ t', readSector f trk sec t = (.error .sectorNotFound, t')) ∧
    (∀ dat, ∃ t', writeSector f dat trk sec t = (.error .sectorNotFound, t')) := by
  obtain ⟨t', ht'⟩ := findSectorLoop_miss n f vol trk sec hv ht 32 t cur others pre fpart q k hF.split hF.st hF.slack
    (fun s hs => ⟨hF.good s hs, hne s hs⟩)
  have hf : findSector f trk sec t = (.error .sectorNotFound, t') := ht'
  exact ⟨⟨t', by simp only [readSector, hf]⟩, fun dat => ⟨t', by simp only [writeSector, hf]⟩⟩

end A2Verif.Model.Track
