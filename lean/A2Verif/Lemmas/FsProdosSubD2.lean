import A2Verif.Lemmas.FsProdosSubD1
import A2Verif.Lemmas.FsProdosDelM
/-!
# `delete` of a file of a directory other than the volume directory: the model's trace

`delete_trace_key`: `find_file` leads to slot `(B, k + 1)` of the directory with key block `K ≠ 2`; the destroy bit is set.
The operation succeeds: the file's blocks are freed, the slot is zeroed, the directory's file count is lowered.
-/
namespace A2Verif.FsProdos
open A2Verif.Fs.Prodos
open A2Verif.Read.Prodos (entryAt dirChain trimName)
open A2Verif.Read.ProdosT

theorem delete_trace_key {d : Disk} {bm cnt K : Nat} {sch : List Nat} (c : KeyCtx d bm cnt K sch) (hK2 : 2 ∉ sch) (path : Bytes)
    (B k : Nat) (hB : B ∈ sch) (hk13 : k < 13) (hkey : B = K → 1 ≤ k)
    (hfind : findFile path d = (.ok { block := B, idx := k + 1 }, d))
    (hacc : Ent.access (entryAt (unitAt d.raw B) k 39) &&& 0x80 ≠ 0)
    (hst : (entryAt (unitAt d.raw B) k 39).getD 0 0 / 16 = 1 ∨ (entryAt (unitAt d.raw B) k 39).getD 0 0 / 16 = 2 ∨
      (entryAt (unitAt d.raw B) k 39).getD 0 0 / 16 = 3)
    (hnd : (ownedOfEntry d.raw (entryAt (unitAt d.raw B) k 39)).Nodup)
    (hall : ∀ y ∈ ownedOfEntry d.raw (entryAt (unitAt d.raw B) k 39),
      y ∉ bmRange bm cnt ∧ y ≠ 2 ∧ y < d.raw.units.size ∧ y / 8 < (effBuf d bm cnt).size ∧ y ∉ sch)
    (hok : BytesOk (effBuf d bm cnt)) (hcovch : ∀ b ∈ sch, b / 8 < (effBuf d bm cnt).size)
    (hcount : le16 (unitAt d.raw K) 37 ≠ 0)
    (hlen : ∀ b ∈ sch, (unitAt d.raw b).length = 512) :
    ∃ d3 raw1 buf1, delete path repaired d = (.ok (), d3) ∧
      raw1.units.size = d.raw.units.size ∧
      (∀ j, j ∉ ownedOfEntry d.raw (entryAt (unitAt d.raw B) k 39) → raw1.units[j]? = d.raw.units[j]?) ∧ SwapOnly d.raw raw1 ∧
      buf1.size = (effBuf d bm cnt).size ∧ BytesOk buf1 ∧
      (∀ j, freeB buf1 j = ((ownedOfEntry d.raw (entryAt (unitAt d.raw B) k 39)).contains j || freeB (effBuf d bm cnt) j)) ∧
      Next d d3 bm cnt (delImageK raw1 B (k + 1) K) (clearBit (clearBit buf1 B) K) := by
  have hex := c.chain.exists
  have hBsz : B < d.raw.units.size := hex B hB
  have hBnb : B ∉ bmRange bm cnt := c.nb B hB
  obtain ⟨rest, hch⟩ := c.head
  have hKch : K ∈ sch := c.mem
  have hB2 : B ≠ 2 := fun e => hK2 (e ▸ hB)
  have hKne2 : K ≠ 2 := fun e => hK2 (e ▸ hKch)
  -- 2 the entry
  have hread : readEntry { block := B, idx := k + 1 } d = (.ok (entryAt (unitAt d.raw B) k 39), d) :=
    readEntry_key c B k hB hk13 hkey
  -- 4 the blocks
  obtain ⟨d1, raw1, buf1, hd1, n1, hsz1, hoth1, hswap1, hs1, hok1, hf1⟩ :=
    deallocFile_next c.st (entryAt (unitAt d.raw B) k 39) hst hnd (fun y hy => by
      obtain ⟨a, b, e, f, _⟩ := hall y hy; exact ⟨a, b, e, f⟩) hok
  have hnotch : ∀ b ∈ sch, b ∉ ownedOfEntry d.raw (entryAt (unitAt d.raw B) k 39) :=
    fun b hb hm => (hall b hm).2.2.2.2 hb
  have hu1 : ∀ b ∈ sch, unitAt raw1 b = unitAt d.raw b := by
    intro b hb; unfold unitAt; rw [hoth1 b (hnotch b hb)]
  -- 5–7 the slot
  have hB1 : d1.raw.units[B]? = some (unitAt d.raw B) := by
    rw [n1.raw, hoth1 B (hnotch B hB)]; exact units_get_unitAt _ _ hBsz
  have hoff : Dir.entryOff (k + 1) = 4 + k * 39 := by rw [entryOff_eq' _ (by omega)]; simp
  obtain ⟨d2, hd2, n2⟩ := writeBlock_next n1.st (splice ((unitAt d.raw B).take dirLen) (Dir.entryOff (k + 1)) [0]) B hBnb
    (by rw [n1.raw, hsz1]; exact hBsz) (by rw [n1.eff, hs1]; exact hcovch B hB) (fun h => absurd h hB2)
  have hr2 : d2.raw = setUnit raw1 B (patched (unitAt raw1 B) (Dir.entryOff (k + 1)) [0]) := by
    rw [n2.raw, n1.raw, hu1 B hB]; rfl
  have hsz2 : d2.raw.units.size = d.raw.units.size := by rw [hr2, setUnit_size, hsz1]
  have hu2 : ∀ b ∈ sch, unitAt d2.raw b = if b = B then patched (unitAt d.raw B) (Dir.entryOff (k + 1)) [0] else unitAt d.raw b := by
    intro b hb
    rw [hr2]
    by_cases hbB : b = B
    · subst hbB
      rw [if_pos rfl]
      unfold unitAt
      rw [setUnit_self _ _ _ (by rw [hsz1]; exact hBsz)]
      simp only [Option.getD_some]
      have := hu1 b hb
      unfold unitAt at this
      rw [this]
    · rw [if_neg hbB, unitAt_setUnit_other _ _ _ _ (fun e => hbB e.symm), hu1 b hb]
  have hlinks2 : ∀ b ∈ sch, le16 (unitAt d2.raw b) 0 = le16 (unitAt d.raw b) 0 := by
    intro b hb
    rw [hu2 b hb]
    split
    · next hbB => subst hbB; rw [hoff, le16_patched_out _ _ _ 0 (hlen b hb) (by simp; omega) (Or.inl (by omega)) (by omega)]
    · rfl
  -- 8 the key directory
  have hne : sch ≠ [] := by rw [hch]; simp
  obtain ⟨iB, hiB, hgetB⟩ := mem_index hB
  have hkd := keyDirLoop_chain d2 bm cnt n2.st sch hne (prevOk_congr d.raw d2.raw sch 0 hlinks2 c.prev)
    (fun x hx => by rw [hsz2]; exact hex x hx) c.chain.ne_zero c.nb iB 100 hiB (by have := c.len; omega)
  have hhead : sch.head hne = K := by simp [hch]
  rw [hgetB, hhead] at hkd
  -- the kind of the key block
  have hK0 : le16 (unitAt d2.raw K) 0 = 0 := by
    rw [hlinks2 K hKch]
    have := c.prev; rw [hch] at this; exact this.1
  have hk2 : kindOf K (unitAt d2.raw K) = DKind.subKey := by
    unfold le16 at hK0
    simp only [Nat.zero_add] at hK0
    unfold kindOf
    rw [if_neg (by unfold volKeyBlock; exact hKne2)]
    have h1 : (unitAt d2.raw K).getD 0 0 = 0 := by omega
    have h2 : (unitAt d2.raw K).getD 1 0 = 0 := by omega
    simp only [List.getD_eq_getElem?_getD] at h1 h2
    simp [h1, h2]
  -- 9 the count
  have hlen2 : (unitAt d2.raw K).length = 512 := by
    rw [hu2 K hKch]; split
    · exact patched_length _ _ _
    · exact hlen K hKch
  have hcnt2 : le16 ((unitAt d2.raw K).take dirLen) 37 = le16 (unitAt d.raw K) 37 := by
    rw [le16_take _ dirLen 37 (by unfold dirLen; omega), hu2 K hKch]
    split
    · next hb2 =>
      have hk1 := hkey hb2.symm
      rw [← hb2, hoff, le16_patched_out _ _ _ 37 (hlen K hKch) (by simp; omega) (Or.inl (by omega)) (by omega)]
    · rfl
  have hdec := decFileCount_ok DKind.subKey ((unitAt d2.raw K).take dirLen) (by decide) (by
    show le16 ((unitAt d2.raw K).take dirLen) 37 ≠ 0
    rw [hcnt2]; exact hcount)
  -- 10 the second write
  obtain ⟨d3, hd3, n3⟩ := writeBlock_next n2.st (splice ((unitAt d2.raw K).take dirLen) (4 + 33)
      (u16le (le16 ((unitAt d2.raw K).take dirLen) (4 + 33) - 1))) K (c.nb K hKch)
    (by rw [hsz2]; exact hex K hKch) (by rw [n2.eff, size_clearBit, n1.eff, hs1]; exact hcovch K hKch) (fun h => absurd h hKne2)
  refine ⟨d3, raw1, buf1, ?_, hsz1, hoth1, hswap1, hs1, hok1, hf1, ?_⟩
  · unfold delete
    simp only [bind_def]
    rw [bind_ok _ _ d d _ (attempt_ok _ d d _ hfind)]
    try simp only []
    rw [bind_ok _ _ d d _ hread]
    try simp only []
    rw [if_neg hacc, bind_ok _ _ d d1 _ hd1]
    try simp only []
    rw [bind_ok _ _ d1 d1 _ (getDirectory_st n1.st B (unitAt d.raw B) hBnb hB1)]
    have hge : Dir.getEntry { kind := kindOf B (unitAt d.raw B), bytes := (unitAt d.raw B).take dirLen } (k + 1) =
        some (entryAt (unitAt d.raw B) k 39) := by
      apply getEntry_std _ _ k hk13
      intro hne'
      by_cases hb : B = K
      · exact hkey hb
      · exact absurd ((c.kinds B hB).2 hb) hne'
    have hidx : Dir.idxOk { kind := kindOf B (unitAt d.raw B), bytes := (unitAt d.raw B).take dirLen } (k + 1) = true := by
      unfold Dir.getEntry at hge
      split at hge
      · assumption
      · cases hge
    have hdel : Dir.deleteEntry { kind := kindOf B (unitAt d.raw B), bytes := (unitAt d.raw B).take dirLen } (k + 1) =
        some { kind := kindOf B (unitAt d.raw B), bytes := splice ((unitAt d.raw B).take dirLen) (Dir.entryOff (k + 1)) [0] } := by
      unfold Dir.deleteEntry; rw [if_pos hidx]
    rw [hdel, bind_ok _ _ d1 d1 _ (ofOption_some _ d1)]
    try simp only []
    rw [bind_ok _ _ d1 d2 _ hd2]
    unfold getKeyDirectory
    rw [bind_ok _ _ d2 d2 _ hkd]
    simp only [hk2]
    rw [hdec, bind_ok _ _ d2 d2 _ (ofOption_some _ d2)]
    try simp only []
    exact hd3
  · have n := (n1.trans n2).trans n3
    rw [n2.eff, n1.eff] at n
    have hr3 : setUnit d2.raw K (quantize ((splice ((unitAt d2.raw K).take dirLen) (4 + 33)
        (u16le (le16 ((unitAt d2.raw K).take dirLen) (4 + 33) - 1))).take blockSize)) = delImageK raw1 B (k + 1) K := by
      unfold delImageK
      simp only []
      rw [← hr2]
      rfl
    rw [hr3] at n
    exact n

end A2Verif.FsProdos
