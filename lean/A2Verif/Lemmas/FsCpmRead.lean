import A2Verif.Model.Fs.Cpm
import A2Verif.Lemmas.VolSpec
/-!
# The independent CP/M reader, factored

`Read.Cpm.read` is one `do` block.  For the refinement proof it is split — by definitional unfolding only — into
the part that finds the directory entries and the per-file part `fileOf`, whose dependence on the image is made
explicit (`fileOf_congr`): the entries with the file's key, the data blocks they point to, and whether a password
entry of the file exists.
-/
namespace A2Verif.FsCpm
open A2Verif.Read.Cpm

/-- the record the reader builds for the file with key `k` (the body of the `mapM` in `Read.Cpm.read`) -/
def fileOf (r : Raw) (d : Dpb) (ents fents : List Bytes) (k : List Nat) : Except String FileRec := do
    let total := d.dsm + 1
    let es := fents.filter (fun e => fileKey e == k)
    let lxPer := d.exm + 1
    -- two entries of one file must not describe the same physical extent
    let phys := es.map (fun e => extNum e / lxPer)
    if phys.eraseDups.length ≠ phys.length then throw "duplicate-extent-number"
    let mut cs : List (Nat × Bytes) := []
    let mut own : List Nat := []
    for e in es do
      let x := extNum e / lxPer
      for (p, j) in (entryPtrs d e).zipIdx do
        if p ≠ 0 then
          if p ≥ total then throw "block-pointer-out-of-range"
          let data ← r.unit p "data-block"
          cs := cs ++ [(x * slots d + j, data)]
          own := own ++ [p]
    let last := es.foldl (fun (best : Bytes) e => if extNum e ≥ extNum best then e else best) (es.headD [])
    let rc := last.getD 15 0
    let s1 := last.getD 13 0
    let eof := extNum last * 16384 + (if rc = 0 then 0 else (min rc 128 - 1) * 128 + (if s1 = 0 then 128 else s1))
    let first := es.headD []
    let ro := first.getD 9 0 ≥ 128
    -- CP/M 3 password entry of this file: user + 16, same name and type
    let pw := ents.any (fun e => e.getD 0 0 = first.getD 0 0 + 16 ∧ (slice e 1 11).map (· % 128) == (slice first 1 11).map (· % 128))
    let sorted := cs.mergeSort (fun a b => a.1 ≤ b.1)
    pure ({ path := pathOf first, ftype := 0, access := (if ro then 1 else 0) + (if pw then 2 else 0), locked := ro, eof := eof,
            chunks := sorted, owned := own, aux := es.length } : FileRec)

/-- the reader's directory entries from the concatenated directory blocks -/
def entsOfBuf (d : Dpb) (buf : Bytes) : List Bytes := (List.range (d.drm + 1)).map (fun k => slice buf (32 * k) 32)

def fentsOf (ents : List Bytes) : List Bytes := ents.filter (fun e => e.getD 0 0 < 16)
def keysOf (fents : List Bytes) : List (List Nat) := (fents.map fileKey).eraseDups

/-- the volume the reader assembles from the files it found -/
def mkVol (d : Dpb) (files : List FileRec) : Vol :=
  let total := d.dsm + 1
  let dblks := dirBlocks d
  let used := files.flatMap (·.owned) ++ dblks
  { lo := 0, hi := total, sys := dblks, files := files, freeUnits := (List.range total).filter (fun u => !used.contains u) }

theorem read_unfold (r : Raw) (d : Dpb) : read r d = (do
    let total := d.dsm + 1
    if total > r.count then throw "dsm-exceeds-image"
    let raws ← (dirBlocks d).mapM (fun b => r.unit b "directory-block")
    let buf := raws.flatten
    if buf.length < 32 * (d.drm + 1) then throw "directory-shorter-than-drm"
    let ents := entsOfBuf d buf
    let fents := fentsOf ents
    let files ← (keysOf fents).mapM (fileOf r d ents fents)
    pure (mkVol d files)) := rfl

/-- the reader as nested case distinctions -/
theorem read_eq (r : Raw) (d : Dpb) : read r d =
    if d.dsm + 1 > r.count then .error "dsm-exceeds-image" else
    match (dirBlocks d).mapM (fun b => r.unit b "directory-block") with
    | .error e => .error e
    | .ok raws =>
      if raws.flatten.length < 32 * (d.drm + 1) then .error "directory-shorter-than-drm" else
      match (keysOf (fentsOf (entsOfBuf d raws.flatten))).mapM
          (fileOf r d (entsOfBuf d raws.flatten) (fentsOf (entsOfBuf d raws.flatten))) with
      | .error e => .error e
      | .ok files => .ok (mkVol d files) := by
  rw [read_unfold]
  by_cases c1 : d.dsm + 1 > r.count
  · simp only [c1, ↓reduceIte, bind, Except.bind, throw, throwThe, MonadExceptOf.throw]
  · simp only [c1, ↓reduceIte, bind, Except.bind, pure, Except.pure]
    cases hm : (dirBlocks d).mapM (fun b => r.unit b "directory-block") with
    | error e => rfl
    | ok raws =>
      by_cases c2 : raws.flatten.length < 32 * (d.drm + 1)
      · simp only [c2, ↓reduceIte, throw, throwThe, MonadExceptOf.throw]
      · simp only [c2, ↓reduceIte]
        cases (keysOf (fentsOf (entsOfBuf d raws.flatten))).mapM
          (fileOf r d (entsOfBuf d raws.flatten) (fentsOf (entsOfBuf d raws.flatten))) <;> rfl

/-! ## the assembled volume -/

theorem mem_vrange {lo hi u : Nat} : u ∈ Vol.range lo hi ↔ lo ≤ u ∧ u < hi := by
  unfold Vol.range
  simp only [List.mem_map, List.mem_range]
  constructor
  · rintro ⟨k, hk, rfl⟩; omega
  · rintro ⟨h1, h2⟩; exact ⟨u - lo, by omega, by omega⟩

theorem mkVol_allOwned (d : Dpb) (files : List FileRec) : (mkVol d files).allOwned = files.flatMap (·.owned) := rfl

theorem mem_mkVol_free {d : Dpb} {files : List FileRec} {u : Nat} :
    u ∈ (mkVol d files).freeUnits ↔ u < d.dsm + 1 ∧ u ∉ files.flatMap (·.owned) ∧ u ∉ dirBlocks d := by
  show u ∈ (List.range (d.dsm + 1)).filter (fun u => !(files.flatMap (·.owned) ++ dirBlocks d).contains u) ↔ _
  simp only [List.mem_filter, List.mem_range, Bool.not_eq_true', List.contains_eq_mem, decide_eq_false_iff_not,
    List.mem_append, not_or]

/-- free units are computed as the complement: nothing leaks (C04), whatever the files are -/
theorem mkVol_noLeak (d : Dpb) (files : List FileRec) : (mkVol d files).noLeak = true := by
  unfold Vol.noLeak
  rw [List.all_eq_true]
  intro u hu
  have hu' := (mem_vrange.1 hu).2
  by_cases h1 : u ∈ (mkVol d files).allOwned
  · simp [h1]
  · by_cases h2 : u ∈ (mkVol d files).sys
    · simp [h2]
    · have : u ∈ (mkVol d files).freeUnits := mem_mkVol_free.2 ⟨hu', h1, h2⟩
      simp [this]

/-- well-formedness of the assembled volume reduces to four conditions on the files -/
theorem mkVol_wf_iff {d : Dpb} {files : List FileRec} : (mkVol d files).wfB = true ↔
    (∀ u ∈ files.flatMap (·.owned), u < d.dsm + 1) ∧
    (files.flatMap (·.owned) ++ dirBlocks d).Nodup ∧
    (files.map (·.path)).Nodup ∧
    (∀ f ∈ files, (f.chunks.map (·.1)).Pairwise (· < ·)) := by
  rw [wfB_iff]
  constructor
  · rintro ⟨a, b, _, _, _, e, f⟩
    exact ⟨fun u hu => (a u hu).2, b, e, f⟩
  · rintro ⟨a, b, e, f⟩
    refine ⟨fun u hu => ⟨Nat.zero_le _, a u hu⟩, b, ?_, ?_, ⟨?_, ?_⟩, e, f⟩
    · intro u hu hf; exact (mem_mkVol_free.1 hf).2.1 hu
    · intro u hu hf; exact (mem_mkVol_free.1 hf).2.2 hu
    · exact List.filter_sublist.nodup List.nodup_range
    · intro u hf; exact ⟨Nat.zero_le _, (mem_mkVol_free.1 hf).1⟩

/-- what a successful reading is -/
theorem read_ok {r : Raw} {d : Dpb} {v : Vol} (h : read r d = .ok v) :
    d.dsm + 1 ≤ r.count ∧ ∃ raws, (dirBlocks d).mapM (fun b => r.unit b "directory-block") = .ok raws ∧
      32 * (d.drm + 1) ≤ raws.flatten.length ∧
      ∃ files, (keysOf (fentsOf (entsOfBuf d raws.flatten))).mapM
          (fileOf r d (entsOfBuf d raws.flatten) (fentsOf (entsOfBuf d raws.flatten))) = .ok files ∧ v = mkVol d files := by
  rw [read_eq] at h
  by_cases c1 : d.dsm + 1 > r.count
  · rw [if_pos c1] at h; cases h
  · rw [if_neg c1] at h
    refine ⟨by omega, ?_⟩
    cases hm : (dirBlocks d).mapM (fun b => r.unit b "directory-block") with
    | error e => rw [hm] at h; cases h
    | ok raws =>
      rw [hm] at h
      simp only at h
      by_cases c2 : raws.flatten.length < 32 * (d.drm + 1)
      · rw [if_pos c2] at h; cases h
      · rw [if_neg c2] at h
        refine ⟨raws, rfl, by omega, ?_⟩
        cases hf : (keysOf (fentsOf (entsOfBuf d raws.flatten))).mapM
            (fileOf r d (entsOfBuf d raws.flatten) (fentsOf (entsOfBuf d raws.flatten))) with
        | error e => rw [hf] at h; cases h
        | ok files =>
          rw [hf] at h
          exact ⟨files, rfl, (Except.ok.inj h).symm⟩

/-- a successful reading never leaks -/
theorem read_noLeak {r : Raw} {d : Dpb} {v : Vol} (h : read r d = .ok v) : v.noLeak = true := by
  obtain ⟨_, _, _, _, files, _, rfl⟩ := read_ok h
  exact mkVol_noLeak d files

end A2Verif.FsCpm
