import A2Verif.Props.C08Track
import A2Verif.Lemmas.C07Laws
/-!
# C07 store laws of the nibble containers NIB, WOZ1, WOZ2 (5.25 inch, 16 sectors 6&2 and 13 sectors 5&3)

Instantiated from `A2Verif.C08Track.image_read`, `image_write`, `image_invalid_refused`, `create_holds`: the state is
the whole image of `Model/TrackImg.lean` (byte buffer with all bit tracks, TMAP, TRKS, carried head position), `rd` /
`wr` ARE the model's `readSector` / `writeSector`, and the invariant is "`Holds` some content map" — established by
`create` and re-established by every valid or refused operation.
-/
namespace A2Verif.C07All
open A2Verif.Model.Track A2Verif.Model.TrackImg A2Verif.C08Track

def optOf : IRes (List Nat) → Option (List Nat)
  | .ok d => some d
  | _ => none

def okOf : IRes Unit → Bool
  | .ok _ => true
  | _ => false

/-- physical sectors of a 35-track 5.25 inch disk: head 0, sector ids of the format -/
def validNib (six : Bool) (a : CHS) : Bool :=
  decide (a.1 < 35) && decide (a.2.1 = 0) && decide (a.2.2 ∈ secIds six)

theorem validNib_iff (six : Bool) (c h s : Nat) : validNib six (c, h, s) = true ↔ c < 35 ∧ h = 0 ∧ s ∈ secIds six := by
  simp [validNib, and_assoc]

theorem quant_eq_pad (d : List Nat) : quant d = pad d 256 := by
  simp only [quant, pad, List.take_append, List.take_replicate]
  congr 2
  omega

/-- a NIB / WOZ1 / WOZ2 image as a sector store: the model's own `readSector` / `writeSector` -/
def nibStore (kind : ImgKind) (six : Bool) (vol : Nat) : SecStore where
  St := TrackImg
  Inv := fun img => ∃ m, Holds img kind six vol m ∧ ∀ t s, (m t s).length = 256
  valid := validNib six
  unit := fun _ => 256
  rd := fun img a => (optOf (A2Verif.Model.TrackImg.readSector Trk img a.1 a.2.1 a.2.2).1,
                      (A2Verif.Model.TrackImg.readSector Trk img a.1 a.2.1 a.2.2).2)
  wr := fun img a d => (okOf (A2Verif.Model.TrackImg.writeSector Trk img a.1 a.2.1 a.2.2 d).1,
                        (A2Verif.Model.TrackImg.writeSector Trk img a.1 a.2.1 a.2.2 d).2)

theorem nib_rd_holds (kind : ImgKind) (six : Bool) (vol : Nat) (img : TrackImg) (m : Nat → Nat → List Nat)
    (h : Holds img kind six vol m) (b : CHS) (hb : validNib six b = true) :
    ∃ img', (nibStore kind six vol).rd img b = (some (m b.1 b.2.2), img') ∧ Holds img' kind six vol m := by
  obtain ⟨c, hd, s⟩ := b
  obtain ⟨hc, hh, hs⟩ := (validNib_iff six c hd s).1 hb
  subst hh
  obtain ⟨img', hr, _, hH⟩ := image_read img kind six vol m h c s hc hs
  exact ⟨img', by simp [nibStore, hr, optOf], hH⟩

theorem nib_laws (kind : ImgKind) (six : Bool) (vol : Nat) : SecLaws (nibStore kind six vol) where
  rd_valid := by
    intro img a ⟨m, hH, hl⟩ hv
    obtain ⟨img', hr, hH'⟩ := nib_rd_holds kind six vol img m hH a hv
    refine ⟨_, img', hr, hl _ _, ⟨m, hH', hl⟩, ?_⟩
    intro b hb
    obtain ⟨_, r1, _⟩ := nib_rd_holds kind six vol img' m hH' b hb
    obtain ⟨_, r2, _⟩ := nib_rd_holds kind six vol img m hH b hb
    rw [r1, r2]
  wr_valid := by
    intro img a d hbd ⟨m, hH, hl⟩ hv
    obtain ⟨c, hd, s⟩ := a
    obtain ⟨hc, hh, hs⟩ := (validNib_iff six c hd s).1 hv
    subst hh
    obtain ⟨img', hw, _, _, hH'⟩ := image_write img kind six vol m hH c s hc hs d hbd
    have hl' : ∀ t x, (if t = c ∧ x = s then quant d else m t x).length = 256 := by
      intro t x
      split
      · exact (quant_props d hbd).1
      · exact hl t x
    refine ⟨img', by simp [nibStore, hw, okOf], ⟨_, hH', hl'⟩, ?_, ?_⟩
    · obtain ⟨_, r1, _⟩ := nib_rd_holds kind six vol img' _ hH' (c, 0, s) hv
      rw [r1]
      simp [quant_eq_pad, nibStore]
    · intro b hb hne
      obtain ⟨_, r1, _⟩ := nib_rd_holds kind six vol img' _ hH' b hb
      obtain ⟨_, r2, _⟩ := nib_rd_holds kind six vol img m hH b hb
      rw [r1, r2]
      obtain ⟨c', hd', s'⟩ := b
      obtain ⟨_, hh', _⟩ := (validNib_iff six c' hd' s').1 hb
      subst hh'
      have : ¬ (c' = c ∧ s' = s) := by
        rintro ⟨h1, h2⟩; subst h1; subst h2; exact hne rfl
      simp [this]
  refused := by
    intro img a d ⟨m, hH, hl⟩ hv
    obtain ⟨c, hd, s⟩ := a
    have hbad : 1 ≤ hd ∨ 35 ≤ c ∨ 255 < s ∨ (c < 35 ∧ s ∉ secIds six) := by
      by_cases h1 : hd = 0
      · by_cases h2 : c < 35
        · refine Or.inr (Or.inr (Or.inr ⟨h2, ?_⟩))
          intro hs
          have := (validNib_iff six c hd s).2 ⟨h2, h1, hs⟩
          have hv' : validNib six (c, hd, s) = false := hv
          rw [hv'] at this
          cases this
        · exact Or.inr (Or.inl (by omega))
      · exact Or.inl (by omega)
    obtain ⟨⟨r, hr, hre⟩, ⟨w, hw, hwe⟩⟩ := image_invalid_refused img kind six vol m hH c hd s d hbad
    refine ⟨⟨img, ?_, ⟨m, hH, hl⟩, fun _ _ => rfl⟩, ⟨img, ?_, ⟨m, hH, hl⟩, fun _ _ => rfl⟩⟩
    · rcases hre with h | h <;> subst h <;> simp [nibStore, hr, optOf]
    · rcases hwe with h | h <;> subst h <;> simp [nibStore, hw, okOf]

/-- `Nib::create` / `Woz1::create` / `Woz2::create` (any volume number): the image satisfies the invariant and
every sector reads as 256 zeros -/
theorem nib_create_shows (kind : ImgKind) (six : Bool) (vol : Nat) (hv : vol < 256) :
    Shows (nibStore kind six vol) (create Trk kind six vol) (zeros fun _ => 256) := by
  have hH := create_holds kind six vol hv
  refine ⟨⟨_, hH, fun _ _ => List.length_replicate⟩, ?_⟩
  intro a ha
  obtain ⟨_, r, _⟩ := nib_rd_holds kind six vol _ _ hH a ha
  rw [r]
  rfl

end A2Verif.C07All
