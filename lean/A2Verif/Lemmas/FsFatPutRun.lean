import A2Verif.Lemmas.FsFatReadNew
import A2Verif.Lemmas.FsFatEntryNew
/-!
# The run of `put` of a root-level file in the concrete FAT model

`prepareToWrite_root`: `prepare_to_write` of a root-level path reads the root, builds the map, looks the (upper-case) name
up and returns the first free slot; the state is untouched.  `put_run`: `put` is refused without any change of the state
(wrong file system, chunk length, label/directory attribute, file image with a hole, an oversized chunk or a length beyond
its chunks, invalid name, unreadable directory, duplicate, directory full, metadata vectors too short, not enough free
clusters), or runs the cluster loop and writes the finished entry back into the slot.
-/
namespace A2Verif.FsFat
open A2Verif A2Verif.Fs.Fat A2Verif.Read.Fat A2Verif.Read.FatT

theorem splitPath_root {p : Bytes} (a : RootArg p) : splitPath p = .ok ([], upper p) := by
  have hne : upper p ≠ [] := by
    intro e
    have := congrArg List.length e
    rw [upper_length] at this
    exact a.ne (List.length_eq_zero_iff.mp this)
  unfold splitPath
  simp only [normalizePath_root a, bind, Except.bind, List.length_singleton]
  have h1 : ¬ (1 = 0) := by omega
  have h2 : (([upper p].getLast?.getD []).isEmpty) = false := by
    simp only [List.getLast?_singleton, Option.getD_some]
    cases h : upper p with
    | nil => exact absurd h hne
    | cons _ _ => rfl
  simp [h2, hne]

theorem normalizePath_nil : normalizePath [] = .ok [[]] := by rfl

theorem gotoPath_nil {d : Disk} (g : Geo d) : gotoPath [] d = (.ok (none, FInfo.root), d) := by
  unfold gotoPath
  simp only [M_bind_apply, getRootDir_eq g, M.lift, normalizePath_nil, if_true, M_pure_apply]

/-- `prepare_to_write` of a root-level path -/
theorem prepareToWrite_root {d : Disk} (g : Geo d) {p : Bytes} (a : RootArg p) :
    prepareToWrite p d = (if !isNameValid (upper p) then .error .syntax else
      match buildFiles d.labelFiles (dirOfBytes (rootBuf d)) with
      | .error e => .error e
      | .ok files => match files.lookup (keyOf p) with
        | some _ => .error .duplicateFile
        | none => match firstFreeEntry (dirOfBytes (rootBuf d)) 0 with
          | some i => .ok (upper p, none, i, dirOfBytes (rootBuf d))
          | none => .error .directoryFull, d) := by
  unfold prepareToWrite
  simp only [M_bind_apply, M.lift, splitPath_root a]
  by_cases hv : isNameValid (upper p) = true
  · simp only [hv, Bool.not_true, Bool.false_eq_true, if_false, M_bind_apply, tryM, gotoPath_nil g, FInfo.root, getDirectory,
      getRootDir_eq g, buildFilesM]
    cases hb : buildFiles d.labelFiles (dirOfBytes (rootBuf d)) with
    | error e => rfl
    | ok files =>
      simp only [getFile_root]
      cases hl : files.lookup (keyOf p) with
      | some fi => rfl
      | none =>
        simp only [getAvailableEntry]
        cases hf : firstFreeEntry (dirOfBytes (rootBuf d)) 0 with
        | none => rfl
        | some i => rfl
  · have hv' : isNameValid (upper p) = false := by simpa using hv
    simp only [hv', Bool.not_false, if_true, M_fail_apply]

theorem rootBuf_congr_lt {d d' : Disk} (hb : d'.bpb = d.bpb)
    (h : ∀ u, d.bpb.rootBeg ≤ u → u < d.bpb.firstDataSec → d'.raw.units[u]? = d.raw.units[u]?) : rootBuf d' = rootBuf d := by
  unfold rootBuf
  rw [hb]
  congr 1
  apply List.map_congr_left
  intro k hk
  have hk' : k < d.bpb.rootDirSecs := List.mem_range.mp hk
  simp only [Array.getD_eq_getD_getElem?]
  rw [h _ (by omega) (by unfold Bpb.firstDataSec Bpb.rootBeg; omega)]

/-- the state after the cluster loop still has `Geo`, and its root directory is the old one -/
theorem geo_of_wrOut {d d' : Disk} {f f' : Array Nat} {chunks : List (Nat × Bytes)} {entry entry' : Bytes} {prev s n : Nat} {cl : List Nat}
    (g : Geo d) (o : WrOut chunks d f entry prev s n entry' d' f' cl) :
    Geo d' ∧ rootBuf d' = rootBuf d ∧ (∀ u, u < d.bpb.firstDataSec → d'.raw.units[u]? = d.raw.units[u]?) := by
  have hlow : ∀ u, u < d.bpb.firstDataSec → d'.raw.units[u]? = d.raw.units[u]? := by
    intro u hu
    apply o.units
    intro c hc hm
    rw [List.mem_range'_1] at hm
    unfold Bpb.firstClusterSec at hm
    omega
  obtain ⟨s0, hs0, hb⟩ := g.boot
  have hfit := g.fits
  refine ⟨{ boot := ⟨s0, ?_, by rw [o.bpb]; exact hb⟩, ulen := o.ulen, usz := ?_, bps := by rw [o.bpb]; exact g.bps,
            spc := by rw [o.bpb]; exact g.spc, nfat := by rw [o.bpb]; exact g.nfat, fat16 := by rw [o.bpb]; exact g.fat16,
            spt := by rw [o.bpb]; exact g.spt, heads := by rw [o.bpb]; exact g.heads, typ := by rw [o.typ]; exact g.typ,
            ftyp := by rw [o.bpb]; exact g.ftyp, rsvd := by rw [o.bpb]; exact g.rsvd,
            fits := by rw [o.bpb, o.usz]; exact g.fits, chs := by rw [o.bpb, o.usz]; exact g.chs }, ?_, hlow⟩
  · rw [hlow 0 (by have := g.rsvd; unfold Bpb.firstDataSec; omega)]; exact hs0
  · intro i hi
    have hi' : i < d.raw.units.size := by rw [← o.usz]; exact hi
    have hget : d'.raw.units[i]? = some (d'.raw.units[i]) := Array.getElem?_eq_getElem hi
    by_cases hcl : ∃ c ∈ cl, i ∈ List.range' (d.bpb.firstClusterSec c) d.bpb.spc
    · obtain ⟨c, hc, hm⟩ := hcl
      obtain ⟨j, hj⟩ := List.mem_iff_getElem?.mp hc
      rw [List.mem_range'_1] at hm
      have := o.data j c hj (i - d.bpb.firstClusterSec c) (by omega)
      have e : d.bpb.firstClusterSec c + (i - d.bpb.firstClusterSec c) = i := by omega
      rw [e, hget] at this
      injection this with this
      rw [this]
      simp only [List.length_take, List.length_drop, quantize_length]
      have : (i - d.bpb.firstClusterSec c + 1) * 512 ≤ d.bpb.spc * 512 := Nat.mul_le_mul_right _ (by omega)
      rw [Nat.add_mul] at this
      omega
    · have : d'.raw.units[i]? = d.raw.units[i]? := o.units i (fun c hc hm => hcl ⟨c, hc, hm⟩)
      rw [hget, Array.getElem?_eq_getElem hi'] at this
      injection this with this
      rw [this]; exact g.usz i hi'
  · exact rootBuf_congr_lt o.bpb (fun u _ hu => hlow u hu)

theorem hiOf_le {d : Disk} (g : Geo d) : hiOf d.bpb ≤ 0xFF7 := by
  have h1 := abstract_lt g
  have h2 := (usable_le (b := d.bpb)).1
  unfold Bpb.clusterCountAbstract at h1
  unfold hiOf
  omega

/-- the metadata vectors of the file image are long enough for `fimg_to_metadata` -/
def MetaOk (fi : FImg) : Prop := 4 ≤ fi.eof.length ∧ 1 ≤ fi.access.length ∧ 5 ≤ fi.created.length ∧ 4 ≤ fi.modified.length

/-- the write-back of entry `idx` from a directory buffer that agrees with the root directory except at `idx` -/
theorem writebackRoot_set {d : Disk} (g : Geo d) {idx : Nat} (hi : idx < (dirOfBytes (rootBuf d)).length) (e0 e' : Bytes) :
    writebackDirectoryEntry none idx ((dirOfBytes (rootBuf d)).set idx e0) e' d = (.ok (), rootWrite d idx e') := by
  obtain ⟨_, hlen, _⟩ := rootEntries_spec g
  rw [writebackRoot_any g (by simpa using hi) (by simp; omega) (by omega)]
  unfold rootWrite rootSector
  rw [List.set_set]

/-- **the run of `put` of a root-level file**: refused without any change of the state, or the cluster loop runs and the finished entry is written into the first free slot of the root directory -/
theorem put_run {d : Disk} {f : Array Nat} (g : Geo d) (c : Coh d f) {fi : FImg} {now : Stamp} (a : RootArg fi.fullPath)
    (hs : StampOk now) :
    (∃ er, put fi now d = (.error er, d)) ∨
    ∃ B X E1 e0 E2 files e1 entry1 d1 f1 cl,
      NameParts (upper fi.fullPath) B X ∧ dirOfBytes (rootBuf d) = E1 ++ e0 :: E2 ∧
      (∀ x ∈ E1, entryType x ≠ .free ∧ entryType x ≠ .freeAndNoMore) ∧ (entryType e0 = .free ∨ entryType e0 = .freeAndNoMore) ∧
      buildFiles d.labelFiles (dirOfBytes (rootBuf d)) = .ok files ∧ files.lookup (keyOf fi.fullPath) = none ∧
      fi.dirOrLabel = false ∧ fi.storable = true ∧ MetaOk fi ∧ fi.chunkLen = d.bpb.blockSize ∧
      fimgToMetadata (entryCreate (stringToFileName (upper fi.fullPath)) 0 now) fi = .ok e1 ∧ e1.length = 32 ∧
      WrOut fi.chunks d f e1 0 0 fi.end entry1 d1 f1 cl ∧
      put fi now d = (.ok (Entry.fileSize (Entry.setAttr entry1 ARCHIVE)), rootWrite d1 E1.length (Entry.setAttr entry1 ARCHIVE)) := by
  have w := wok_of g c
  unfold put
  by_cases hfs0 : ¬ (fi.fsOk = true)
  · left
    have : fi.fsOk = false := by simpa using hfs0
    simp only [this, Bool.not_false, if_true, M_fail_apply]
    exact ⟨_, rfl⟩
  have hfs : fi.fsOk = true := Classical.not_not.mp hfs0
  simp only [hfs, Bool.not_true, Bool.false_eq_true, if_false, M_bind_apply, M.get]
  by_cases hcl : fi.chunkLen ≠ d.bpb.blockSize
  · left
    rw [if_pos hcl]
    exact ⟨_, rfl⟩
  rw [if_neg hcl]
  have hcl' : fi.chunkLen = d.bpb.blockSize := by simpa using hcl
  by_cases hacc : fi.dirOrLabel = true
  · left
    simp only [hacc, if_true, M_fail_apply]
    exact ⟨_, rfl⟩
  have hacc' : fi.dirOrLabel = false := by simpa using hacc
  simp only [hacc', Bool.false_eq_true, if_false]
  by_cases hst0 : ¬ (fi.storable = true)
  · left
    have : fi.storable = false := by simpa using hst0
    simp only [this, Bool.not_false, if_true, M_fail_apply]
    exact ⟨_, rfl⟩
  have hst : fi.storable = true := Classical.not_not.mp hst0
  have hh : ∀ k, k < fi.end → (fi.chunks.lookup k).isSome = true := by
    have h := hst
    unfold FImg.storable at h
    simp only [Bool.and_eq_true, List.all_eq_true, List.mem_range] at h
    intro k hk
    have := h.1 k hk
    cases hl : fi.chunks.lookup k with
    | none => rw [hl] at this; cases this
    | some _ => rfl
  simp only [hst, Bool.not_true, Bool.false_eq_true, if_false, M_bind_apply, prepareToWrite_root g a]
  by_cases hv0 : ¬ (isNameValid (upper fi.fullPath) = true)
  · left
    have : isNameValid (upper fi.fullPath) = false := by simpa using hv0
    simp only [this, Bool.not_false, if_true]
    exact ⟨_, rfl⟩
  have hv : isNameValid (upper fi.fullPath) = true := Classical.not_not.mp hv0
  simp only [hv, Bool.not_true, Bool.false_eq_true, if_false]
  obtain ⟨B, X, np⟩ := nameParts_of_valid hv
  cases hb : buildFiles d.labelFiles (dirOfBytes (rootBuf d)) with
  | error er => exact Or.inl ⟨er, rfl⟩
  | ok files =>
    simp only []
    cases hl : files.lookup (keyOf fi.fullPath) with
    | some x => exact Or.inl ⟨_, rfl⟩
    | none =>
      simp only []
      cases hf : firstFreeEntry (dirOfBytes (rootBuf d)) 0 with
      | none => exact Or.inl ⟨_, rfl⟩
      | some idx =>
        simp only []
        obtain ⟨E1, e0, E2, hE, hidx, hE1, he0⟩ := firstFreeEntry_spec _ _ _ hf
        have hidx' : idx = E1.length := by omega
        subst hidx'
        have hlen : E1.length < (dirOfBytes (rootBuf d)).length := by rw [hE]; simp
        by_cases hm0 : ¬ MetaOk fi
        · left
          have hm := hm0
          have : fi.eof.length < 4 ∨ fi.access.length < 1 ∨ fi.created.length < 5 ∨ fi.modified.length < 4 := by
            unfold MetaOk at hm; omega
          simp only [M.lift, fimgToMetadata, this, if_true]
          exact ⟨_, rfl⟩
        have hm : MetaOk fi := Classical.not_not.mp hm0
        have hn11 : (stringToFileName (upper fi.fullPath)).length = 11 := by
          rw [stringToFileName_parts np]
          simp [padTo_length]
        obtain ⟨c1, _, _, _, _⟩ := entryCreate_bytes hn11 0 hs
        obtain ⟨e1, hmeta, hl1, _, _, _⟩ := fimgToMetadata_spec c1 hm
        have hset : dirSet (dirOfBytes (rootBuf d)) E1.length e1 = .ok ((dirOfBytes (rootBuf d)).set E1.length e1) := by
          simp [dirSet, hlen]
        have hent : dirEntry ((dirOfBytes (rootBuf d)).set E1.length e1) E1.length = .ok e1 := by
          unfold dirEntry
          rw [List.getElem?_set_self hlen]
        simp only [M.lift, hmeta, hset]
        unfold writeFile
        simp only [M_bind_apply, M.lift, hent, numFreeBlocks_open w]
        by_cases hfree : freeCount d.bpb f < fi.end
        · left
          simp only [hfree, if_true, M_fail_apply]
          exact ⟨_, rfl⟩
        simp only [hfree, if_false, M_bind_apply]
        obtain ⟨entry1, d1, f1, cl, hrun, o⟩ := writeLoop_chain fi.chunks fi.end 0 d f e1 0 w g.ulen (hiOf_le g)
          (fun k _ hk => hh k (by omega)) (by omega) (Or.inl (by omega))
        rw [← List.range_eq_range'] at hrun
        obtain ⟨g1, hroot1, _⟩ := geo_of_wrOut g o
        have hlen1 : E1.length < (dirOfBytes (rootBuf d1)).length := by rw [hroot1]; exact hlen
        have hwb := writebackRoot_set g1 hlen1 e1 (Entry.setAttr entry1 ARCHIVE)
        rw [hroot1] at hwb
        right
        refine ⟨B, X, E1, e0, E2, files, e1, entry1, d1, f1, cl, np, hE, hE1, he0, rfl, hl, trivial, trivial, hm, hcl', rfl, hl1, o, ?_⟩
        simp only [hrun, hwb, M_pure_apply]

end A2Verif.FsFat
