import A2Verif.Model.Read.ProdosT
/-!
# The total ProDOS reader reads only what it reports

Congruence lemmas for `Read.ProdosT`: a successful reading of an image is also the reading of every image that agrees
with it on the units the reading names (directory chains and owned blocks).
-/
namespace A2Verif.FsProdos
open A2Verif.Read.Prodos (entryAt dirChain idxPtr indexEntries readData trimName bitmapFree)
open A2Verif.Read.ProdosT

/-- the two images hold the same unit at every index of `S` -/
def Agree (r r' : Raw) (S : List Nat) : Prop := ∀ j ∈ S, r'.units[j]? = r.units[j]?

theorem Agree.mono {r r' : Raw} {S T : List Nat} (h : Agree r r' S) (hs : ∀ j ∈ T, j ∈ S) : Agree r r' T :=
  fun j hj => h j (hs j hj)

theorem unit_congr (r r' : Raw) (i : Nat) (who : String) (h : r'.units[i]? = r.units[i]?) : r'.unit i who = r.unit i who := by
  unfold Raw.unit; rw [h]

/-- everything already seen is part of the chain returned -/
theorem dirChain_seen (r : Raw) (total : Nat) : ∀ (fuel b : Nat) (seen ch : List Nat),
    dirChain r total fuel b seen = .ok ch → ∀ x ∈ seen, x ∈ ch
  | 0, _, _, _, h => by simp [dirChain] at h
  | fuel + 1, b, seen, ch, h => by
    unfold dirChain at h
    split at h
    · intro x hx
      have : ch = seen.reverse := by injection h with h; exact h.symm
      rw [this]; exact List.mem_reverse.mpr hx
    · split at h
      · cases h
      · split at h
        · cases h
        · cases hu : r.unit b "directory-block" with
          | error e => rw [hu] at h; cases h
          | ok blk =>
            rw [hu] at h
            intro x hx
            exact dirChain_seen r total fuel _ _ ch h x (List.mem_cons_of_mem _ hx)

/-- the chain is determined by the `next` fields of its own blocks -/
theorem dirChain_congr (r r' : Raw) (total : Nat) : ∀ (fuel b : Nat) (seen ch : List Nat),
    dirChain r total fuel b seen = .ok ch →
    (∀ j ∈ ch, ∀ blk, r.unit j "directory-block" = .ok blk → ∃ blk', r'.unit j "directory-block" = .ok blk' ∧ le16 blk' 2 = le16 blk 2) →
    dirChain r' total fuel b seen = .ok ch
  | 0, _, _, _, h, _ => by simp [dirChain] at h
  | fuel + 1, b, seen, ch, h, hag => by
    unfold dirChain at h ⊢
    split
    · next hb => simp only [hb, ↓reduceIte] at h; exact h
    · next hb =>
      simp only [hb, ↓reduceIte] at h
      split
      · next hbt => simp only [hbt, ↓reduceIte] at h; cases h
      · next hbt =>
        simp only [hbt, ↓reduceIte] at h
        split
        · next hs => simp only [hs, ↓reduceIte] at h; cases h
        · next hs =>
          simp only [hs] at h
          cases hu : r.unit b "directory-block" with
          | error e => rw [hu] at h; cases h
          | ok blk =>
            rw [hu] at h
            have hrec : dirChain r total fuel (le16 blk 2) (b :: seen) = .ok ch := h
            have hbch : b ∈ ch := dirChain_seen r total fuel _ _ ch hrec b List.mem_cons_self
            obtain ⟨blk', hu', hn⟩ := hag b hbch blk hu
            rw [hu']
            show dirChain r' total fuel (le16 blk' 2) (b :: seen) = .ok ch
            rw [hn]
            exact dirChain_congr r r' total fuel _ _ ch hrec hag

/-! ## `mapM` in `Except` -/

theorem except_bind_eq_ok {ε α β : Type} (x : Except ε α) (f : α → Except ε β) (b : β) :
    (x >>= f) = .ok b ↔ ∃ a, x = .ok a ∧ f a = .ok b := by
  cases x with
  | error e => constructor
               · intro h; cases h
               · rintro ⟨a, h, _⟩; cases h
  | ok a => constructor
            · intro h; exact ⟨a, rfl, h⟩
            · rintro ⟨a', h, h'⟩; cases h; exact h'

/-- element-wise relation of two lists (core Lean has no `Forall₂`) -/
inductive All2 {α β : Type} (R : α → β → Prop) : List α → List β → Prop where
  | nil : All2 R [] []
  | cons {a : α} {b : β} {as : List α} {bs : List β} : R a b → All2 R as bs → All2 R (a :: as) (b :: bs)

/-- `mapM` succeeds with `ys` iff every element maps to the corresponding element of `ys` -/
theorem mapM_eq_ok {ε α β : Type} (f : α → Except ε β) : ∀ (l : List α) (ys : List β),
    l.mapM f = .ok ys ↔ All2 (fun x y => f x = .ok y) l ys
  | [], ys => by
    constructor
    · intro h; have : ys = [] := by injection h with h; exact h.symm
      rw [this]; exact All2.nil
    · intro h; cases h; rfl
  | x :: xs, ys => by
    rw [List.mapM_cons]
    constructor
    · intro h
      obtain ⟨y, hy, h2⟩ := (except_bind_eq_ok _ _ _).mp h
      obtain ⟨ys', hys', h3⟩ := (except_bind_eq_ok _ _ _).mp h2
      have : ys = y :: ys' := by injection h3 with h3; exact h3.symm
      rw [this]
      exact All2.cons hy ((mapM_eq_ok f xs ys').mp hys')
    · intro h
      cases h with
      | cons hy hrest =>
        rw [hy]
        show (do let ys' ← List.mapM f xs; pure (_ :: ys')) = _
        rw [(mapM_eq_ok f xs _).mpr hrest]; rfl

theorem mapM_congr_ok {ε α β : Type} (f g : α → Except ε β) (l : List α) (ys : List β)
    (h : l.mapM f = .ok ys) (hfg : ∀ x ∈ l, ∀ y, f x = .ok y → g x = .ok y) : l.mapM g = .ok ys := by
  rw [mapM_eq_ok] at h ⊢
  induction h with
  | nil => exact All2.nil
  | cons hy _ ih =>
    exact All2.cons (hfg _ List.mem_cons_self _ hy) (ih (fun x hx => hfg x (List.mem_cons_of_mem _ hx)))

theorem mapM_congr_ok2 {ε α β : Type} (f g : α → Except ε β) (l : List α) (ys : List β)
    (h : l.mapM f = .ok ys) (hfg : ∀ x y, x ∈ l → y ∈ ys → f x = .ok y → g x = .ok y) : l.mapM g = .ok ys := by
  rw [mapM_eq_ok] at h ⊢
  induction h with
  | nil => exact All2.nil
  | cons hy _ ih =>
    exact All2.cons (hfg _ _ List.mem_cons_self List.mem_cons_self hy)
      (ih (fun x y hx hyy => hfg x y (List.mem_cons_of_mem _ hx) (List.mem_cons_of_mem _ hyy)))

/-! ## data and index blocks -/

theorem readData_congr (r r' : Raw) (total : Nat) (ps : List (Nat × Nat)) (h : Agree r r' (ps.map (·.2))) :
    readData r' total ps = readData r total ps := by
  unfold readData
  induction ps with
  | nil => rfl
  | cons p ps ih =>
    rw [List.mapM_cons, List.mapM_cons, ih (fun j hj => h j (by simp at hj ⊢; exact Or.inr hj))]
    have hp : r'.units[p.2]? = r.units[p.2]? := h p.2 (by simp)
    obtain ⟨i, b⟩ := p
    simp only []
    rw [unit_congr r r' b _ hp]

theorem treeIndex_congr (r r' : Raw) (total : Nat) (kib : Nat × Nat) (part : List (Nat × Bytes) × List Nat)
    (h : treeIndex r total kib = .ok part) (hag : Agree r r' part.2) : treeIndex r' total kib = .ok part := by
  unfold treeIndex at h ⊢
  split at h
  · cases h
  · next hk =>
    rw [if_neg hk]
    cases hu : r.unit kib.2 "index-block" with
    | error x => rw [hu] at h; cases h
    | ok blk =>
      rw [hu] at h
      simp only at h
      cases hd : readData r total (indexEntries blk (256 * kib.1)) with
      | error x => rw [hd] at h; cases h
      | ok ds =>
        rw [hd] at h
        have hp : part = (ds, kib.2 :: (indexEntries blk (256 * kib.1)).map (·.2)) := by injection h with h; exact h.symm
        subst hp
        rw [unit_congr r r' kib.2 _ (hag kib.2 List.mem_cons_self), hu]
        simp only
        rw [readData_congr r r' total _ (fun j hj => hag j (List.mem_cons_of_mem _ hj)), hd]

/-- **a file entry's record depends only on the blocks it reports as owned** -/
theorem readFile_congr (r r' : Raw) (total : Nat) (e pfx : Bytes) (f : FileRec)
    (h : readFile r total e pfx = .ok f) (hag : Agree r r' f.owned) : readFile r' total e pfx = .ok f := by
  unfold readFile at h ⊢
  simp only at h ⊢
  split at h
  · next h1 =>
    rw [if_pos h1]
    cases hu : r.unit (le16 e 0x11) "data-block" with
    | error x => rw [hu] at h; cases h
    | ok d =>
      rw [hu] at h
      simp only at h
      split at h
      · cases h
      · next hused =>
        have hf : f = { baseRec e pfx with chunks := [(0, d)], owned := [le16 e 0x11] } := by injection h with h; exact h.symm
        subst hf
        rw [unit_congr r r' _ _ (hag _ List.mem_cons_self), hu]
        simp only [hused, ↓reduceIte]
  · next h1 =>
    rw [if_neg h1]
    split at h
    · next h2 =>
      rw [if_pos h2]
      cases hu : r.unit (le16 e 0x11) "index-block" with
      | error x => rw [hu] at h; cases h
      | ok ib =>
        rw [hu] at h
        simp only at h
        cases hd : readData r total (indexEntries ib 0) with
        | error x => rw [hd] at h; cases h
        | ok cs =>
          rw [hd] at h
          simp only at h
          split at h
          · cases h
          · next hused =>
            have hf : f = { baseRec e pfx with chunks := cs, owned := le16 e 0x11 :: (indexEntries ib 0).map (·.2) } := by
              injection h with h; exact h.symm
            subst hf
            rw [unit_congr r r' _ _ (hag _ List.mem_cons_self), hu]
            simp only
            rw [readData_congr r r' total _ (fun j hj => hag j (List.mem_cons_of_mem _ hj)), hd]
            simp only [hused, ↓reduceIte]
    · next h2 =>
      rw [if_neg h2]
      cases hu : r.unit (le16 e 0x11) "master-index-block" with
      | error x => rw [hu] at h; cases h
      | ok mb =>
        rw [hu] at h
        simp only at h
        cases hm : List.mapM (treeIndex r total)
            ((List.range 128).filterMap (fun k => if idxPtr mb k = 0 then none else some (k, idxPtr mb k))) with
        | error x => rw [hm] at h; cases h
        | ok parts =>
          rw [hm] at h
          simp only at h
          split at h
          · cases h
          · next hused =>
            have hf : f = { baseRec e pfx with
                chunks := (parts.map (·.1)).flatten, owned := le16 e 0x11 :: (parts.map (·.2)).flatten } := by
              injection h with h; exact h.symm
            subst hf
            rw [unit_congr r r' _ _ (hag _ List.mem_cons_self), hu]
            simp only
            have hm' := mapM_congr_ok2 (treeIndex r total) (treeIndex r' total) _ parts hm
              (fun x y _ hy hxy => treeIndex_congr r r' total x y hxy
                (fun j hj => hag j (List.mem_cons_of_mem _ (List.mem_flatten.mpr ⟨y.2, List.mem_map.mpr ⟨y, hy, rfl⟩, hj⟩))))
            rw [hm']
            simp only [hused, ↓reduceIte]

/-! ## directories -/

theorem mapM_congr_mem {ε α β : Type} (f g : α → Except ε β) : ∀ (l : List α), (∀ x ∈ l, f x = g x) → l.mapM f = l.mapM g
  | [], _ => rfl
  | x :: xs, h => by
    rw [List.mapM_cons, List.mapM_cons, h x List.mem_cons_self,
      mapM_congr_mem f g xs (fun y hy => h y (List.mem_cons_of_mem _ hy))]

/-- a non-zero start block is part of its chain -/
theorem dirChain_start_mem (r : Raw) (total fuel b : Nat) (ch : List Nat) (hb : b ≠ 0)
    (h : dirChain r total fuel b [] = .ok ch) : b ∈ ch := by
  cases fuel with
  | zero => simp [dirChain] at h
  | succ fuel =>
    unfold dirChain at h
    simp only [hb, ↓reduceIte] at h
    split at h
    · cases h
    · split at h
      · cases h
      · cases hu : r.unit b "directory-block" with
        | error e => rw [hu] at h; cases h
        | ok blk =>
          rw [hu] at h
          exact dirChain_seen r total fuel _ _ ch h b List.mem_cons_self

theorem blockEntries_congr (r r' : Raw) (key epb elen b : Nat) (h : r'.units[b]? = r.units[b]?) :
    blockEntries r' key epb elen b = blockEntries r key epb elen b := by
  unfold blockEntries; rw [unit_congr r r' b _ h]

/-- one entry: its records depend only on the blocks they report, provided the sub-directory reader does -/
theorem readEntryWith_congr (sub sub' : Nat → Bytes → Except String (List LRec × List Nat)) (r r' : Raw) (total : Nat)
    (pfx : Bytes) (ebk : Bytes × Nat × Nat) (recs : List LRec)
    (h : readEntryWith sub r total pfx ebk = .ok recs)
    (hag : Agree r r' (recs.flatMap (·.1.owned)))
    (hsub : ∀ k p res, k ≠ 0 → sub k p = .ok res → Agree r r' (res.2 ++ res.1.flatMap (·.1.owned)) → sub' k p = .ok res) :
    readEntryWith sub' r' total pfx ebk = .ok recs := by
  unfold readEntryWith at h ⊢
  simp only at h ⊢
  split at h
  · cases h
  · next hkey =>
    rw [if_neg hkey]
    split at h
    · next hst =>
      rw [if_pos hst]
      cases hf : readFile r total ebk.1 pfx with
      | error x => rw [hf] at h; cases h
      | ok f =>
        rw [hf] at h
        have hr : recs = [(f, ebk.2)] := by injection h with h; exact h.symm
        subst hr
        rw [readFile_congr r r' total _ _ f hf (fun j hj => hag j (by simp [List.flatMap]; exact hj))]
    · next hst =>
      rw [if_neg hst]
      split at h
      · next hd =>
        rw [if_pos hd]
        cases hs : sub (le16 ebk.1 0x11) (baseRec ebk.1 pfx).path with
        | error x => rw [hs] at h; cases h
        | ok res =>
          rw [hs] at h
          obtain ⟨fs, chain⟩ := res
          simp only at h
          split at h
          · cases h
          · next hused =>
            have hr : recs = ({ baseRec ebk.1 pfx with isDir := true, owned := chain, eof := 0, locked := false }, ebk.2) :: fs := by
              injection h with h; exact h.symm
            subst hr
            have hk0 : le16 ebk.1 0x11 ≠ 0 := fun h0 => hkey (Or.inl h0)
            rw [hsub _ _ (fs, chain) hk0 hs (fun j hj => hag j (by
              simp only [List.flatMap_cons, List.mem_append] at hj ⊢
              exact hj))]
            simp only [hused, ↓reduceIte]
      · cases h

/-- **a directory's located reading depends only on the blocks it names** (its chain and the owned blocks of its
records, sub-directories included) -/
theorem readDir_congr (r r' : Raw) (total : Nat) : ∀ (fuel key : Nat) (pfx : Bytes) (depth : Nat) (fs : List LRec) (ch : List Nat),
    key ≠ 0 → readDir fuel r total key pfx depth = .ok (fs, ch) →
    Agree r r' (ch ++ fs.flatMap (·.1.owned)) →
    readDir fuel r' total key pfx depth = .ok (fs, ch)
  | 0, _, _, _, _, _, _, h, _ => by simp [readDir] at h
  | fuel + 1, key, pfx, depth, fs, ch, hk, h, hag => by
    unfold readDir at h ⊢
    split at h
    · cases h
    · next hdep =>
      rw [if_neg hdep]
      cases hc : dirChain r total 1000 key [] with
      | error x => rw [hc] at h; cases h
      | ok chain =>
        rw [hc] at h
        simp only at h
        cases hu : r.unit key "directory-key-block" with
        | error x => rw [hu] at h; cases h
        | ok keyBlk =>
          rw [hu] at h
          simp only at h
          split at h
          · cases h
          · next hgeo =>
            cases he : List.mapM (blockEntries r key (keyBlk.getD (4 + 0x20) 0) (keyBlk.getD (4 + 0x1F) 0)) chain with
            | error x => rw [he] at h; cases h
            | ok ents =>
              rw [he] at h
              simp only at h
              split at h
              · cases h
              · next hcount =>
                cases hm : List.mapM (readEntryWith (fun k p => readDir fuel r total k p (depth + 1)) r total pfx)
                    (ents.flatten.filter (fun e => e.1.getD 0 0 / 16 ≠ 0)) with
                | error x => rw [hm] at h; cases h
                | ok recs =>
                  rw [hm] at h
                  have hres : fs = recs.flatten ∧ ch = chain := by
                    injection h with h; injection h with h1 h2; exact ⟨h1.symm, h2.symm⟩
                  obtain ⟨hfs, hch⟩ := hres
                  subst hfs; subst hch
                  have hagc : Agree r r' ch := hag.mono (fun j hj => List.mem_append_left _ hj)
                  have hc' : dirChain r' total 1000 key [] = .ok ch :=
                    dirChain_congr r r' total 1000 key [] ch hc (fun j hj blk hb =>
                      ⟨blk, by rw [unit_congr r r' j _ (hagc j hj)]; exact hb, rfl⟩)
                  rw [hc']
                  simp only
                  rw [unit_congr r r' key _ (hagc key (dirChain_start_mem r total 1000 key ch hk hc)), hu]
                  simp only
                  rw [if_neg hgeo]
                  rw [mapM_congr_mem _ _ ch (fun b hb => blockEntries_congr r r' key _ _ b (hagc b hb)), he]
                  simp only
                  rw [if_neg hcount]
                  have hm' := mapM_congr_ok2 _
                    (readEntryWith (fun k p => readDir fuel r' total k p (depth + 1)) r' total pfx) _ recs hm
                    (fun x y _ hy hxy => readEntryWith_congr _ _ r r' total pfx x y hxy
                      (fun j hj => hag j (List.mem_append_right _ (by
                        rw [List.mem_flatMap] at hj ⊢
                        obtain ⟨rec, hrec, hjr⟩ := hj
                        exact ⟨rec, List.mem_flatten.mpr ⟨y, hy, hrec⟩, hjr⟩)))
                      (fun k p res hk0 hs hagr => readDir_congr r r' total fuel k p (depth + 1) res.1 res.2 hk0 hs hagr))
                  rw [hm']

end A2Verif.FsProdos
