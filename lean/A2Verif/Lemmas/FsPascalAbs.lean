import A2Verif.Lemmas.VolSpec
/-!
# Sufficient conditions for `stepOk` on flat volumes (no directories, no locks)

Introduction rules for the per-step refinement condition in terms of how the *list of file records*
changes: an entry erased (delete), an entry replaced (rename, retype), an entry appended (put), nothing
changed (refusal).  Independent of any particular file system; used by the Pascal refinement proof.
Core Lean only.
-/
namespace A2Verif

theorem sameFiles_self {l : List FileRec} (nd : (l.map (·.path)).Nodup) : sameFiles l l = true := by
  rw [sameFiles_iff]
  refine ⟨fun f hf => ⟨f, find_path_of_mem nd hf, sameRec_refl f⟩, fun g hg => ?_⟩
  rw [find_path_of_mem nd hg]; rfl

/-- removing the paths `ps` removes exactly entry `idx` when it is the only one with a path in `ps` -/
theorem without_eq_eraseIdx : ∀ {l : List FileRec} {ps : List Bytes} {idx : Nat} (hi : idx < l.length),
    l[idx].path ∈ ps → (∀ j (hj : j < l.length), j ≠ idx → l[j].path ∉ ps) → without l ps = l.eraseIdx idx := by
  intro l
  induction l with
  | nil => intro ps idx hi; cases hi
  | cons x xs ih =>
    intro ps idx hi hin hout
    cases idx with
    | zero =>
      have hx : x.path ∈ ps := hin
      unfold without
      rw [List.filter_cons, List.eraseIdx_cons_zero]
      have : (!ps.contains x.path) = false := by simp [hx]
      rw [this]
      simp only [Bool.false_eq_true, if_false]
      apply List.filter_eq_self.2
      intro a ha
      obtain ⟨j, hj, rfl⟩ := List.mem_iff_getElem.1 ha
      have := hout (j + 1) (by simp; omega) (by omega)
      simpa using this
    | succ k =>
      have hx : x.path ∉ ps := hout 0 (by simp) (by omega)
      unfold without
      rw [List.filter_cons, List.eraseIdx_cons_succ]
      have : (!ps.contains x.path) = true := by simp [hx]
      rw [this]
      simp only [if_true]
      congr 1
      exact ih (by simpa using hi) hin (fun j hj hne => hout (j + 1) (by simp; omega) (by omega))

theorem lookup_of_getElem {v : Vol} (nd : v.paths.Nodup) {idx : Nat} (hi : idx < v.files.length) :
    v.lookup v.files[idx].path = some v.files[idx] :=
  find_path_of_mem nd (List.getElem_mem hi)

theorem lookup_none_of_not_mem {v : Vol} {p : Bytes} (h : p ∉ v.paths) : v.lookup p = none :=
  not_mem_paths_iff.1 h

theorem getElem_path_ne {l : List FileRec} (nd : (l.map (·.path)).Nodup) {i j : Nat} (hi : i < l.length) (hj : j < l.length)
    (hne : i ≠ j) : l[i].path ≠ l[j].path := by
  rw [List.nodup_iff_pairwise_ne, List.pairwise_map, List.pairwise_iff_getElem] at nd
  rcases Nat.lt_or_gt_of_ne hne with h | h
  · exact nd i j hi hj h
  · exact fun e => nd j i hj hi h e.symm

/-- a refused operation that left the volume as it was -/
theorem stepOk_refused_same {P : FsParams} {v : Vol} (hw : v.wfB = true) (op : FsOp) :
    stepOk P v op false v = true := by
  have hs := sameFiles_self (wfB_paths_nodup hw)
  cases op <;> simp [stepOk, stepConds, hw, hs]

/-- delete: the entry `idx` (path `p`, not locked) is erased, all other records are identical -/
theorem stepOk_delete_of {P : FsParams} {pre post : Vol} {p : Bytes} {idx : Nat}
    (hwpre : pre.wfB = true) (hw : post.wfB = true) (hi : idx < pre.files.length)
    (hp : pre.files[idx].path = p) (hl : pre.files[idx].locked = false)
    (hpost : post.files = pre.files.eraseIdx idx) :
    stepOk P pre (.delete p) true post = true := by
  have nd := wfB_paths_nodup hwpre
  have ndpost := wfB_paths_nodup hw
  have hlook : pre.lookup p = some pre.files[idx] := by rw [← hp]; exact lookup_of_getElem nd hi
  have hwo : without pre.files [p] = pre.files.eraseIdx idx := by
    apply without_eq_eraseIdx hi (by simp [hp])
    intro j hj hne
    have := getElem_path_ne nd hj hi hne
    simp only [List.mem_singleton]
    rw [← hp]; exact this
  have hgone : post.lookup p = none := by
    apply lookup_none_of_not_mem
    unfold Vol.paths
    rw [hpost, ← hwo]
    intro hm
    have := (without_paths.1 hm).2
    simp at this
  simp only [stepOk, stepConds, List.all_cons, List.all_nil, Bool.and_true, Bool.and_eq_true]
  refine ⟨hw, by rw [hlook]; rfl, by rw [hlook]; simp only [hl]; rfl, by rw [hgone]; rfl, ?_⟩
  rw [hwo, hpost]
  unfold Vol.paths at ndpost
  rw [hpost] at ndpost
  exact sameFiles_self ndpost

/-- rename: entry `idx` (path `p`) gets the fresh path `q`, content and blocks as before -/
theorem stepOk_rename_of {P : FsParams} {pre post : Vol} {p q : Bytes} {idx : Nat} {g : FileRec}
    (hwpre : pre.wfB = true) (hw : post.wfB = true) (hi : idx < pre.files.length)
    (hp : pre.files[idx].path = p) (hl : pre.files[idx].locked = false) (hq : q ∉ pre.paths)
    (hpost : post.files = pre.files.set idx g) (hgp : g.path = q)
    (hg : g.chunks = pre.files[idx].chunks ∧ g.eof = pre.files[idx].eof ∧ g.owned = pre.files[idx].owned ∧
      g.locked = pre.files[idx].locked ∧ g.isDir = pre.files[idx].isDir) :
    stepOk P pre (.rename p q) true post = true := by
  have nd := wfB_paths_nodup hwpre
  have ndpost := wfB_paths_nodup hw
  have hlook : pre.lookup p = some pre.files[idx] := by rw [← hp]; exact lookup_of_getElem nd hi
  have hpq : p ≠ q := by
    intro e; subst e
    exact hq (by rw [← hp]; exact List.mem_map_of_mem (List.getElem_mem hi))
  have hi' : idx < post.files.length := by rw [hpost]; simpa using hi
  have hpi : post.files[idx] = g := by simp [hpost]
  have hlookq : post.lookup q = some g := by
    have := lookup_of_getElem ndpost hi'
    rw [hpi, hgp] at this
    exact this
  have hqnone : pre.lookup q = none := lookup_none_of_not_mem hq
  have hwo : without pre.files [p, q] = pre.files.eraseIdx idx := by
    apply without_eq_eraseIdx hi (by simp [hp])
    intro j hj hne
    have h1 := getElem_path_ne nd hj hi hne
    rw [hp] at h1
    have h2 : pre.files[j].path ≠ q := fun e => hq (by rw [← e]; exact List.mem_map_of_mem (List.getElem_mem hj))
    simp [h1, h2]
  have hwo' : without post.files [p, q] = pre.files.eraseIdx idx := by
    have : without post.files [p, q] = post.files.eraseIdx idx := by
      apply without_eq_eraseIdx hi' (by rw [hpi, hgp]; simp)
      intro j hj hne
      have hj0 : j < pre.files.length := by rw [hpost] at hj; simpa using hj
      have hjj : post.files[j] = pre.files[j] := by simp [hpost, List.getElem_set, Ne.symm hne]
      rw [hjj]
      have h1 := getElem_path_ne nd hj0 hi hne
      rw [hp] at h1
      have h2 : pre.files[j].path ≠ q := fun e => hq (by rw [← e]; exact List.mem_map_of_mem (List.getElem_mem hj0))
      simp [h1, h2]
    rw [this, hpost, List.eraseIdx_set_eq]
  have hpgone : post.lookup p = none := by
    apply lookup_none_of_not_mem
    intro hm
    unfold Vol.paths at hm
    obtain ⟨f, hf, hfp⟩ := List.mem_map.1 hm
    obtain ⟨j, hj, rfl⟩ := List.mem_iff_getElem.1 hf
    by_cases hji : j = idx
    · subst hji; rw [hpi, hgp] at hfp; exact hpq hfp.symm
    · have hj0 : j < pre.files.length := by rw [hpost] at hj; simpa using hj
      have hjj : post.files[j] = pre.files[j] := by simp [hpost, List.getElem_set, Ne.symm hji]
      rw [hjj, ← hp] at hfp
      exact getElem_path_ne nd hj0 hi hji hfp
  simp only [stepOk, stepConds, List.all_cons, List.all_nil, Bool.and_true, Bool.and_eq_true]
  refine ⟨hw, by rw [hlook]; rfl, by rw [hlook]; simp only [hl]; rfl, by rw [hqnone]; simp, by rw [hpgone]; simp, ?_, ?_⟩
  · rw [hlook, hlookq]
    simp [hg.1, hg.2.1, hg.2.2.1, hg.2.2.2.1, hg.2.2.2.2]
  · rw [hwo, hwo']
    have : ((pre.files.eraseIdx idx).map (·.path)).Nodup := by
      unfold Vol.paths at nd
      exact nd.sublist ((List.eraseIdx_sublist _ _).map _)
    exact sameFiles_self this

/-- retype: entry `idx` (path `p`) keeps path, content and blocks -/
theorem stepOk_retype_of {P : FsParams} {pre post : Vol} {p : Bytes} {idx : Nat} {g : FileRec}
    (hwpre : pre.wfB = true) (hw : post.wfB = true) (hi : idx < pre.files.length)
    (hp : pre.files[idx].path = p)
    (hpost : post.files = pre.files.set idx g) (hgp : g.path = p)
    (hg : g.chunks = pre.files[idx].chunks ∧ g.eof = pre.files[idx].eof ∧ g.owned = pre.files[idx].owned ∧
      g.isDir = pre.files[idx].isDir) :
    stepOk P pre (.retype p) true post = true := by
  have nd := wfB_paths_nodup hwpre
  have ndpost := wfB_paths_nodup hw
  have hlook : pre.lookup p = some pre.files[idx] := by rw [← hp]; exact lookup_of_getElem nd hi
  have hi' : idx < post.files.length := by rw [hpost]; simpa using hi
  have hpi : post.files[idx] = g := by simp [hpost]
  have hlookq : post.lookup p = some g := by
    have := lookup_of_getElem ndpost hi'
    rw [hpi, hgp] at this
    exact this
  have hwo : without pre.files [p] = pre.files.eraseIdx idx := by
    apply without_eq_eraseIdx hi (by simp [hp])
    intro j hj hne
    have h1 := getElem_path_ne nd hj hi hne
    rw [hp] at h1
    simp [h1]
  have hwo' : without post.files [p] = pre.files.eraseIdx idx := by
    have : without post.files [p] = post.files.eraseIdx idx := by
      apply without_eq_eraseIdx hi' (by rw [hpi, hgp]; simp)
      intro j hj hne
      have hj0 : j < pre.files.length := by rw [hpost] at hj; simpa using hj
      have hjj : post.files[j] = pre.files[j] := by simp [hpost, List.getElem_set, Ne.symm hne]
      rw [hjj]
      have h1 := getElem_path_ne nd hj0 hi hne
      rw [hp] at h1
      simp [h1]
    rw [this, hpost, List.eraseIdx_set_eq]
  simp only [stepOk, stepConds, List.all_cons, List.all_nil, Bool.and_true, Bool.and_eq_true]
  refine ⟨hw, by rw [hlook]; rfl, ?_, ?_⟩
  · rw [hlook, hlookq]
    simp [hg.1, hg.2.1, hg.2.2.1, hg.2.2.2]
  · rw [hwo, hwo']
    have : ((pre.files.eraseIdx idx).map (·.path)).Nodup := by
      unfold Vol.paths at nd
      exact nd.sublist ((List.eraseIdx_sublist _ _).map _)
    exact sameFiles_self this

/-- put: a new file record is appended under a fresh path, all other records are identical -/
theorem stepOk_put_of {P : FsParams} {pre post : Vol} {p : Bytes} {cs : List (Nat × Bytes)} {eof ty aux : Nat} {f : FileRec}
    (hwpre : pre.wfB = true) (hw : post.wfB = true) (hp : p ∉ pre.paths)
    (hpost : post.files = pre.files ++ [f]) (hfp : f.path = p)
    (hc : chunksMatch cs f.chunks = true) (hd : f.isDir = false) (he : f.eof = P.eofRule eof)
    (ht : P.keepsType = true → f.ftype = ty) (ha : P.keepsAux = true → f.aux = aux)
    (hfree : ∀ u ∈ f.owned, u ∈ pre.freeUnits) :
    stepOk P pre (.put p cs eof ty aux) true post = true := by
  have nd := wfB_paths_nodup hwpre
  have ndpost := wfB_paths_nodup hw
  have hnone : pre.lookup p = none := lookup_none_of_not_mem hp
  have hi' : pre.files.length < post.files.length := by rw [hpost]; simp
  have hpi : post.files[pre.files.length] = f := by simp [hpost]
  have hlook : post.lookup p = some f := by
    have := lookup_of_getElem ndpost hi'
    rw [hpi, hfp] at this
    exact this
  have hwo : without post.files [p] = pre.files := by
    have : without post.files [p] = post.files.eraseIdx pre.files.length := by
      apply without_eq_eraseIdx hi' (by rw [hpi, hfp]; simp)
      intro j hj hne
      have hj0 : j < pre.files.length := by rw [hpost] at hj; simp at hj; omega
      have hjj : post.files[j] = pre.files[j] := by simp [hpost, List.getElem_append_left hj0]
      rw [hjj]
      have h2 : pre.files[j].path ≠ p := fun e => hp (by rw [← e]; exact List.mem_map_of_mem (List.getElem_mem hj0))
      simp [h2]
    rw [this, hpost, List.eraseIdx_append_of_length_le (Nat.le_refl _), Nat.sub_self, List.eraseIdx_cons_zero, List.append_nil]
  simp only [stepOk, stepConds, List.all_cons, List.all_nil, Bool.and_true, Bool.and_eq_true]
  refine ⟨hw, by rw [hnone]; rfl, by rw [hlook]; rfl, by rw [hlook]; simp [hc, hd], by rw [hlook]; simp [he], ?_, ?_, ?_⟩
  · rw [hlook]
    simp only [Bool.and_eq_true, Bool.or_eq_true, Bool.not_eq_true', beq_iff_eq]
    constructor
    · cases hk : P.keepsType with
      | false => exact Or.inl rfl
      | true => exact Or.inr (ht hk)
    · cases hk : P.keepsAux with
      | false => exact Or.inl rfl
      | true => exact Or.inr (ha hk)
  · rw [hlook]
    simp only [List.all_eq_true, List.contains_eq_mem, decide_eq_true_eq]
    exact hfree
  · rw [hwo]
    exact sameFiles_self nd

end A2Verif
