import A2Verif.Lemmas.FsProdosPutJ
import A2Verif.Lemmas.FsProdosPutE2
/-!
# `put`: the image after the writes, as a patch of the directory

`put_image`: the image `put` leaves (before the write-back of the buffer) in terms of the old one — the file count of the
volume key block raised, one slot rewritten, the blocks taken changed, nothing else.
-/
namespace A2Verif.FsProdos
open A2Verif.Fs.Prodos
open A2Verif.Read.Prodos (entryAt dirChain idxPtr indexEntries readData trimName)
open A2Verif.Read.ProdosT

theorem put_image {r dcr : Raw} {ch Al : List Nat} {B k : Nat} (e0 ef : Bytes)
    (hshape : ShapeOk r) (hch : ∀ b ∈ ch, b < r.units.size) (hB : B ∈ ch) (h2 : 2 ∈ ch) (hk13 : k < 13) (hkey : B = 2 → 1 ≤ k)
    (he0 : e0.length = 39) (hef : ef.length = 39) (hefb : ∀ x ∈ ef, x < 256)
    (hn : le16 (unitAt r 2) 37 + 1 < 65536)
    (hdcsz : dcr.units.size = r.units.size) (hdcshape : ShapeOk dcr)
    (hAlch : ∀ b ∈ ch, b ∉ Al)
    (hdc : ∀ j, j ∉ Al → dcr.units[j]? =
      (setUnit (setUnit r 2 (patched (unitAt r 2) 37 (u16le (le16 (unitAt r 2) 37 + 1)))) B
        (patched (if B = 2 then patched (unitAt r 2) 37 (u16le (le16 (unitAt r 2) 37 + 1)) else unitAt r B) (4 + k * 39) e0)).units[j]?) :
    let r3 := setUnit dcr B
      (patched (patched (if B = 2 then patched (unitAt r 2) 37 (u16le (le16 (unitAt r 2) 37 + 1)) else unitAt r B) (4 + k * 39) e0)
        (4 + k * 39) ef)
    DirPatch r r3 ch B k ∧ (∀ j, j ∉ ch → j ∉ Al → r3.units[j]? = r.units[j]?) ∧ ShapeOk r3 ∧
    le16 (unitAt r3 2) 37 = le16 (unitAt r 2) 37 + 1 ∧ entryAt (unitAt r3 B) k 39 = ef ∧
    (∀ j ∈ Al, r3.units[j]? = dcr.units[j]?) ∧ r3.units.size = r.units.size := by
  intro r3
  have hBsz := hch B hB
  have h2sz := hch 2 h2
  have hlen : ∀ b ∈ ch, (unitAt r b).length = 512 := fun b hb => (hshape.unit (hch b hb)).1
  have hlen2 := hlen 2 h2
  have hkb1 : (patched (unitAt r 2) 37 (u16le (le16 (unitAt r 2) 37 + 1))).length = 512 := patched_length _ _ _
  have hXl : (if B = 2 then patched (unitAt r 2) 37 (u16le (le16 (unitAt r 2) 37 + 1)) else unitAt r B).length = 512 := by
    split
    · exact hkb1
    · exact hlen B hB
  have hP1 : (patched (if B = 2 then patched (unitAt r 2) 37 (u16le (le16 (unitAt r 2) 37 + 1)) else unitAt r B) (4 + k * 39) e0).length = 512 :=
    patched_length _ _ _
  have hoff : 4 + k * 39 + 39 ≤ 511 := by omega
  have hun3 : ∀ b ∈ ch, unitAt r3 b =
      if b = B then patched (patched (if B = 2 then patched (unitAt r 2) 37 (u16le (le16 (unitAt r 2) 37 + 1)) else unitAt r B)
        (4 + k * 39) e0) (4 + k * 39) ef
      else if b = 2 then patched (unitAt r 2) 37 (u16le (le16 (unitAt r 2) 37 + 1)) else unitAt r b := by
    intro b hb
    by_cases hbB : b = B
    · subst hbB
      rw [if_pos rfl]
      show unitAt (setUnit dcr b _) b = _
      unfold unitAt; rw [setUnit_self _ _ _ (by rw [hdcsz]; exact hBsz)]; rfl
    · rw [if_neg hbB]
      show unitAt (setUnit dcr B _) b = _
      rw [unitAt_setUnit_other _ _ _ _ (Ne.symm hbB), unitAt_congr (hdc b (hAlch b hb)),
        unitAt_setUnit_other _ _ _ _ (Ne.symm hbB)]
      by_cases hb2 : b = 2
      · subst hb2; rw [if_pos rfl]; unfold unitAt; rw [setUnit_self _ _ _ h2sz]; rfl
      · rw [if_neg hb2, unitAt_setUnit_other _ _ _ _ (Ne.symm hb2)]
  have hshape3 : ShapeOk r3 := by
    apply shape_setUnit hdcshape B _ (patched_length _ _ _)
    apply patched_bytes _ _ _ hP1 (by rw [hef]; omega) _ hefb
    have hb3 := (hdcshape.unit (show B < dcr.units.size by rw [hdcsz]; exact hBsz)).2
    rw [unitAt_congr (hdc B (hAlch B hB))] at hb3
    have : unitAt (setUnit (setUnit r 2 (patched (unitAt r 2) 37 (u16le (le16 (unitAt r 2) 37 + 1)))) B
        (patched (if B = 2 then patched (unitAt r 2) 37 (u16le (le16 (unitAt r 2) 37 + 1)) else unitAt r B) (4 + k * 39) e0)) B =
        patched (if B = 2 then patched (unitAt r 2) 37 (u16le (le16 (unitAt r 2) 37 + 1)) else unitAt r B) (4 + k * 39) e0 := by
      unfold unitAt; rw [setUnit_self _ _ _ (by rw [setUnit_size]; exact hBsz)]; rfl
    rw [this] at hb3
    exact hb3
  have hsame : ∀ b ∈ ch, ∀ j, j < 511 → (b = B → j < 4 + k * 39 ∨ 4 + k * 39 + 39 ≤ j) → (b = 2 → j ≠ 37 ∧ j ≠ 38) →
      (unitAt r3 b).getD j 0 = (unitAt r b).getD j 0 := by
    intro b hb j hj hslot h37
    have hkb1g : b = 2 → (patched (unitAt r 2) 37 (u16le (le16 (unitAt r 2) 37 + 1))).getD j 0 = (unitAt r 2).getD j 0 := by
      intro hb2
      have := h37 hb2
      exact getD_patched_out _ _ _ j hlen2 (by unfold u16le; simp) (by unfold u16le; simp; omega) hj
    rw [hun3 b hb]
    by_cases hbB : b = B
    · rw [if_pos hbB]
      have hs := hslot hbB
      rw [getD_patched_out _ _ _ j hP1 (by rw [hef]; omega) (by rw [hef]; omega) hj,
        getD_patched_out _ _ _ j hXl (by rw [he0]; omega) (by rw [he0]; omega) hj]
      by_cases hb2 : B = 2
      · rw [if_pos hb2, hkb1g (hbB.trans hb2), hbB, hb2]
      · rw [if_neg hb2, hbB]
    · rw [if_neg hbB]
      by_cases hb2 : b = 2
      · rw [if_pos hb2, hkb1g hb2, hb2]
      · rw [if_neg hb2]
  have hshape' : ∀ b ∈ ch, (unitAt r3 b).length = 512 ∧ ∀ x ∈ unitAt r3 b, x < 256 := by
    intro b hb
    exact hshape3.unit (by show b < (setUnit dcr B _).units.size; rw [setUnit_size, hdcsz]; exact hch b hb)
  refine ⟨dirPatch_of_same (by show (setUnit dcr B _).units.size = _; rw [setUnit_size, hdcsz]) hlen hshape' h2 hkey hsame,
    ?_, hshape3, ?_, ?_, ?_, by show (setUnit dcr B _).units.size = _; rw [setUnit_size, hdcsz]⟩
  · intro j hjc hjA
    have hjB : B ≠ j := fun e => hjc (e ▸ hB)
    have hj2 : (2 : Nat) ≠ j := fun e => hjc (e ▸ h2)
    show (setUnit dcr B _).units[j]? = _
    rw [setUnit_other _ _ _ _ hjB, hdc j hjA, setUnit_other _ _ _ _ hjB, setUnit_other _ _ _ _ hj2]
  · rw [hun3 2 h2]
    have hself : le16 (patched (unitAt r 2) 37 (u16le (le16 (unitAt r 2) 37 + 1))) 37 = le16 (unitAt r 2) 37 + 1 :=
      le16_patched_self _ 37 _ hlen2 (by omega) hn
    by_cases hb2 : 2 = B
    · have hk1 := hkey hb2.symm
      rw [if_pos hb2, if_pos hb2.symm,
        le16_patched_out _ _ _ 37 (patched_length _ _ _) (by rw [hef]; omega) (Or.inl (by omega)) (by omega),
        le16_patched_out _ _ _ 37 (patched_length _ _ _) (by rw [he0]; omega) (Or.inl (by omega)) (by omega)]
      exact hself
    · rw [if_neg hb2, if_pos rfl]; exact hself
  · rw [hun3 B hB, if_pos rfl]
    exact entryAt_patched_self _ _ k hP1 hef hk13
  · intro j hj
    show (setUnit dcr B _).units[j]? = _
    exact setUnit_other _ _ _ _ (fun e => hAlch B hB (e ▸ hj))

theorem chunksQ_enum (f : FImg) (hk : (f.chunks.map (·.1)).Pairwise (· < ·)) :
    (List.range f.end_).filterMap (fun k => (f.chunks.lookup k).map (fun data => (k, quantize (data.take blockSize)))) = chunksQ f := by
  unfold chunksQ
  conv => rhs; rw [← chunks_enum f hk]
  rw [List.map_filterMap]
  apply filterMap_congr_mem
  intro k _
  cases f.chunks.lookup k <;> rfl

/-- a master index buffer with at most 128 pointers names index blocks only in the 128 slots the format has -/
theorem masterClean_of_idxIs {mb : Bytes} {Q : List Nat} (h : IdxIs mb Q) (hn : Q.length ≤ 128) : MasterClean mb := by
  intro k hk
  have hk' := List.mem_range.mp hk
  have := h.ptr (128 + k) (by omega)
  unfold idxPtr at this
  rw [show 256 + (128 + k) = 384 + k by omega] at this
  simp only [List.getD_eq_getElem?_getD] at this ⊢
  rw [List.getElem?_eq_none (show Q.length ≤ 128 + k by omega)] at this
  simp at this
  omega

/-- **the record the reader finds under the entry `put` wrote** -/
theorem put_file_rec' {f : FImg} {time : Bytes} {d2 : Disk} {bm cnt : Nat} {e0 nm : Bytes} {ft nb acc0 aux : Nat}
    {s : WS} {dc : Disk} {Al : List Nat} (ctx : LoopCtx d2 bm cnt) (pk : PutOk f time)
    (ne : NewEntry e0 nm ft nb acc0 aux) (hres : LoopRes f d2 bm cnt e0 nb s dc Al)
    (acc : Nat) (hacc : acc < 256) (r3 : Raw) (hr : ∀ j ∈ Al, r3.units[j]? = dc.raw.units[j]?) (pfx : Bytes) :
    ∃ g st, FinalEntry s.entry (Ent.setAccess (Ent.setEof s.entry f.eof) acc) nm st ft acc aux f.eof ∧ (st = 1 ∨ st = 2 ∨ st = 3) ∧
      Read.ProdosT.readFile r3 d2.total (Ent.setAccess (Ent.setEof s.entry f.eof) acc) pfx = .ok g ∧
      g.chunks = chunksQ f ∧ g.owned.Nodup ∧ (∀ u, u ∈ g.owned ↔ u ∈ Al) ∧ Al.length = blocksNeeded f ∧
      ¬ (le16 (Ent.setAccess (Ent.setEof s.entry f.eof) acc) 0x11 = 0 ∨
         le16 (Ent.setAccess (Ent.setEof s.entry f.eof) acc) 0x11 ≥ d2.total) ∧
      (st = 3 → MasterClean (unitAt r3 (le16 (Ent.setAccess (Ent.setEof s.entry f.eof) acc) 0x11))) ∧
      le16 (Ent.setAccess (Ent.setEof s.entry f.eof) acc) 0x11 ∈ Al := by
  have heof : f.eof < 16777216 := by have := pk.eof.2; omega
  have hnz : ∀ u ∈ Al, ∀ a : AState d2 bm cnt dc Al, u ≠ 0 ∧ u < d2.total := by
    intro u hu a
    obtain ⟨h1, h2⟩ := a.alfree u hu
    refine ⟨fun e => ?_, h2⟩
    rw [e, ctx.zero] at h1; cases h1
  rcases hres with ⟨he, inv⟩ | ⟨he, h256, P, inv⟩ | ⟨he, G, P, inv, hic⟩
  · have h256 : f.end_ ≤ 256 := by omega
    have fe := final_entry ne inv.ent (by decide) f.eof acc heof hacc
    have h0 := pk.first he
    unfold hasChunk at h0
    cases hl : f.chunks.lookup 0 with
    | none => rw [hl] at h0; cases h0
    | some data =>
      obtain ⟨hal, hu⟩ := inv.dat data hl
      have hrf := seed_read ctx inv data hl r3 hr _ fe.same d2.total pfx
      have hch : f.chunks = [(0, data)] := by
        have := chunks_enum f pk.keys
        rw [he, show List.range 1 = [0] from rfl, List.filterMap_cons, hl] at this
        simpa using this.symm
      refine ⟨_, 1, fe, Or.inl rfl, hrf, ?_, by simp, ?_, ?_, ?_, fun h => absurd h (by decide),
        by rw [fe.same.key, inv.ent.key, hal]; exact List.mem_singleton.mpr rfl⟩
      · show [(0, quantize (data.take blockSize))] = chunksQ f
        unfold chunksQ; rw [hch]; rfl
      · intro u; show u ∈ [nb] ↔ u ∈ Al; rw [hal]
      · rw [blocksNeeded_small f pk.keys h256, he, hal]
        have : dataCount f 1 = 1 := by
          rw [dataCount_succ, dataCount_zero]; unfold hasChunk; rw [hl]; rfl
        rw [this]; rfl
      · rw [fe.same.key, inv.ent.key]
        have := hnz nb (by rw [hal]; exact List.mem_singleton.mpr rfl) inv.a
        omega
  · have core := inv.core
    have fe := final_entry ne core.ent (by decide) f.eof acc heof hacc
    have hrf := sap_read ctx inv h256 r3 hr _ fe.same pfx
    rw [chunksQ_enum f pk.keys] at hrf
    refine ⟨_, 2, fe, Or.inr (Or.inl rfl), hrf, rfl, core.own, ?_, ?_, ?_, fun h => absurd h (by decide),
      by rw [fe.same.key, core.ent.key]; exact core.ip⟩
    · intro u
      show u ∈ s.indexPtr :: P.filter (· ≠ 0) ↔ u ∈ Al
      constructor
      · intro hu
        rcases List.mem_cons.mp hu with rfl | hu'
        · exact core.ip
        · obtain ⟨h1, h2⟩ := List.mem_filter.mp hu'
          exact (core.pal u h1 (by simpa using h2)).1
      · intro hu
        rcases core.alp u hu with rfl | h
        · exact List.mem_cons_self
        · exact List.mem_cons_of_mem _ (List.mem_filter.mpr ⟨h, by simpa using (hnz u hu core.a).1⟩)
    · rw [blocksNeeded_small f pk.keys h256, if_pos (by omega), core.acnt]
    · rw [fe.same.key, core.ent.key]
      have := hnz _ core.ip core.a
      omega
  · have fe := final_entry ne inv.ent (by decide) f.eof acc heof hacc
    have hmc : s.masterCount ≤ 127 := by have := inv.cc; have := pk.endle; omega
    have hrf := tree_read ctx inv hmc r3 hr _ fe.same pfx
    have hcq : (List.range f.end_).filterMap (chunkQ f) = chunksQ f := chunksQ_enum f pk.keys
    rw [hcq] at hrf
    have hMAl : s.masterPtr ∈ Al := (inv.ownAl _).mp List.mem_cons_self
    refine ⟨_, 3, fe, Or.inr (Or.inr rfl), hrf, rfl, inv.own, inv.ownAl, ?_, ?_, ?_,
      by rw [fe.same.key, inv.ent.key]; exact hMAl⟩
    · rw [blocksNeeded_eq f pk.keys, inv.acount]
    · rw [fe.same.key, inv.ent.key]
      have := hnz _ hMAl inv.a
      omega
    · intro _
      rw [fe.same.key, inv.ent.key]
      obtain ⟨_, _, hu, _⟩ := unit_of_al ctx inv.a r3 hr s.masterPtr hMAl
      rw [hu, inv.mblk]
      exact masterClean_of_idxIs inv.mbuf (by rw [List.length_append, List.length_map, inv.gl]; simp; omega)

theorem put_file_rec {f : FImg} {time : Bytes} {d2 : Disk} {bm cnt : Nat} {e0 nm : Bytes} {ft nb acc0 aux : Nat}
    {s : WS} {dc : Disk} {Al : List Nat} (ctx : LoopCtx d2 bm cnt) (pk : PutOk f time)
    (ne : NewEntry e0 nm ft nb acc0 aux) (hres : LoopRes f d2 bm cnt e0 nb s dc Al)
    (acc : Nat) (hacc : acc < 256) (r3 : Raw) (hr : ∀ j ∈ Al, r3.units[j]? = dc.raw.units[j]?) :
    ∃ g st, FinalEntry s.entry (Ent.setAccess (Ent.setEof s.entry f.eof) acc) nm st ft acc aux f.eof ∧ (st = 1 ∨ st = 2 ∨ st = 3) ∧
      Read.ProdosT.readFile r3 d2.total (Ent.setAccess (Ent.setEof s.entry f.eof) acc) [] = .ok g ∧
      g.chunks = chunksQ f ∧ g.owned.Nodup ∧ (∀ u, u ∈ g.owned ↔ u ∈ Al) ∧ Al.length = blocksNeeded f ∧
      ¬ (le16 (Ent.setAccess (Ent.setEof s.entry f.eof) acc) 0x11 = 0 ∨
         le16 (Ent.setAccess (Ent.setEof s.entry f.eof) acc) 0x11 ≥ d2.total) ∧
      (st = 3 → MasterClean (unitAt r3 (le16 (Ent.setAccess (Ent.setEof s.entry f.eof) acc) 0x11))) ∧
      le16 (Ent.setAccess (Ent.setEof s.entry f.eof) acc) 0x11 ∈ Al :=
  put_file_rec' ctx pk ne hres acc hacc r3 hr []

end A2Verif.FsProdos
