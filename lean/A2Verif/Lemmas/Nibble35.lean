import A2Verif.Model.Nibble35
import A2Verif.Lemmas.Nibble
/-!
Round trip of the 3.5 inch 524-byte codec for every sector content.  Induction over the byte triples;
the invariant is "the decoder's three running checksums equal the encoder's" — it holds because each
decoded byte equals the encoded one (XOR with the same low eight checksum bits) and every carry decision
depends only on the checksums and the bytes.
-/
namespace A2Verif.Model.Nibble35
open A2Verif.Gen A2Verif.Model.Nibble

/-! ## the 3.5 inch table is the 5.25 inch 6&2 table -/

theorem tbl35_eq : Disk35.DISK_BYTES_62 = Disk525.DISK_BYTES_62 := by decide +kernel

theorem encByte35_eq (n : Nat) : encByte35 n = encByte62 n := by
  simp only [encByte35, encByte62, tbl35_eq]

theorem decByte35_eq (b : Nat) : decByte35 b = decByte62 b := by
  simp only [decByte35, decByte62, INV35, INV62, tbl35_eq]

/-! ## XOR with the low eight bits of a checksum is undone by the decoder -/

theorem and_ff (x : Nat) : x &&& 0xff = x % 256 := Nat.and_two_pow_sub_one_eq_mod x 8

theorem xor_key (a x y : Nat) (ha : a < 256) (hxy : y % 256 = x % 256) :
    (((a ^^^ y) &&& 0xff) ^^^ x) % 256 = a := by
  have h8 : (256 : Nat) = 2 ^ 8 := rfl
  rw [and_ff]
  rw [h8, Nat.xor_mod_two_pow, Nat.mod_mod, Nat.xor_mod_two_pow, ← h8, hxy, Nat.xor_assoc, Nat.xor_self,
    Nat.xor_zero, Nat.mod_eq_of_lt ha]

theorem part_lt (x : Nat) : x &&& 0xff < 256 := Nat.lt_succ_of_le Nat.and_le_right

theorem decA_encA (c0 c2 a : Nat) (ha : a < 256) :
    decA c0 c2 (encA c0 c2 a).2.2 = ((encA c0 c2 a).1, (encA c0 c2 a).2.1, a) := by
  have key : (((a ^^^ (if rot0 c0 &&& 0x100 > 0 then rot0 c0 &&& 0xff else rot0 c0)) &&& 0xff) ^^^ rot0 c0) % 256 = a := by
    apply xor_key a _ _ ha
    split
    · rw [and_ff, Nat.mod_mod]
    · rfl
  simp only [decA, encA, key]

theorem decB_encB (c1 c2 b : Nat) (hb : b < 256) :
    decB c1 c2 (encB c1 c2 b).2.2 = ((encB c1 c2 b).1, (encB c1 c2 b).2.1, b) := by
  have key : (((b ^^^ (if c2 > 0xff then c2 &&& 0xff else c2)) &&& 0xff) ^^^ c2) % 256 = b := by
    apply xor_key b _ _ hb
    split
    · rw [and_ff, Nat.mod_mod]
    · rfl
  simp only [decB, encB, key]

theorem decC_encC (c0 c1 c : Nat) (hc : c < 256) :
    decC c0 c1 (encC c0 c1 c).2.2 = ((encC c0 c1 c).1, (encC c0 c1 c).2.1, c) := by
  have key : (((c ^^^ (if c1 > 0xff then c1 &&& 0xff else c1)) &&& 0xff) ^^^ c1) % 256 = c := by
    apply xor_key c _ _ hc
    split
    · rw [and_ff, Nat.mod_mod]
    · rfl
  simp only [decC, encC, key]

theorem encA_part_lt (c0 c2 a : Nat) : (encA c0 c2 a).2.2 < 256 := part_lt _
theorem encB_part_lt (c1 c2 b : Nat) : (encB c1 c2 b).2.2 < 256 := part_lt _
theorem encC_part_lt (c0 c1 c : Nat) : (encC c0 c1 c).2.2 < 256 := part_lt _

/-! ## splitting a byte into two high and six low bits -/

set_option maxRecDepth 100000 in
theorem hi_lo : ∀ p : Fin 256, (p.val &&& 0xc0) >>> 2 = (p.val >>> 6) <<< 4 ∧ (p.val &&& 0xc0) >>> 4 = (p.val >>> 6) <<< 2 ∧
    (p.val &&& 0xc0) >>> 6 = p.val >>> 6 ∧ p.val >>> 6 < 4 ∧ (p.val &&& 0x3f) ||| ((p.val >>> 6) <<< 6) = p.val ∧
    p.val &&& 0x3f < 64 := by decide +kernel

theorem join_data : ∀ h0 h1 h2 : Fin 4,
    (((((h0.val <<< 4) ||| (h1.val <<< 2) ||| h2.val) <<< 2) % 256) &&& 0xc0) = h0.val <<< 6 ∧
    (((((h0.val <<< 4) ||| (h1.val <<< 2) ||| h2.val) <<< 4) % 256) &&& 0xc0) = h1.val <<< 6 ∧
    (((((h0.val <<< 4) ||| (h1.val <<< 2) ||| h2.val) <<< 6) % 256) &&& 0xc0) = h2.val <<< 6 ∧
    ((h0.val <<< 4) ||| (h1.val <<< 2) ||| h2.val) < 64 := by decide +kernel

theorem join_chk : ∀ h0 h1 h2 : Fin 4,
    ((((h0.val ||| (h1.val <<< 2) ||| (h2.val <<< 4)) <<< 6) % 256) &&& 0xc0) = h0.val <<< 6 ∧
    ((((h0.val ||| (h1.val <<< 2) ||| (h2.val <<< 4)) <<< 4) % 256) &&& 0xc0) = h1.val <<< 6 ∧
    ((((h0.val ||| (h1.val <<< 2) ||| (h2.val <<< 4)) <<< 2) % 256) &&& 0xc0) = h2.val <<< 6 ∧
    (h0.val ||| (h1.val <<< 2) ||| (h2.val <<< 4)) < 64 := by decide +kernel

/-- the decoder's `nib | ((twos << k) & 0xc0)` gives back the three parts -/
theorem join_parts (p0 p1 p2 : Nat) (h0 : p0 < 256) (h1 : p1 < 256) (h2 : p2 < 256) :
    join35 (p0 &&& 0x3f) (twos35 p0 p1 p2) 2 = p0 ∧ join35 (p1 &&& 0x3f) (twos35 p0 p1 p2) 4 = p1 ∧
    join35 (p2 &&& 0x3f) (twos35 p0 p1 p2) 6 = p2 ∧ twos35 p0 p1 p2 < 64 ∧
    p0 &&& 0x3f < 64 ∧ p1 &&& 0x3f < 64 ∧ p2 &&& 0x3f < 64 := by
  obtain ⟨a1, _, _, a4, a5, a6⟩ := hi_lo ⟨p0, h0⟩
  obtain ⟨_, b2, _, b4, b5, b6⟩ := hi_lo ⟨p1, h1⟩
  obtain ⟨_, _, c3, c4, c5, c6⟩ := hi_lo ⟨p2, h2⟩
  simp only at a1 a4 a5 a6 b2 b4 b5 b6 c3 c4 c5 c6
  obtain ⟨j0, j1, j2, j3⟩ := join_data ⟨p0 >>> 6, a4⟩ ⟨p1 >>> 6, b4⟩ ⟨p2 >>> 6, c4⟩
  simp only at j0 j1 j2 j3
  simp only [join35, twos35, a1, b2, c3, j0, j1, j2]
  exact ⟨a5, b5, c5, j3, a6, b6, c6⟩

/-- likewise for the checksum nibbles (other bit order) -/
theorem join_chks (s : Chk) (h0 : s.c0 < 256) (h1 : s.c1 < 256) (h2 : s.c2 < 256) :
    ∃ ct k2 k1 k0, chkNibs s = [ct, k2, k1, k0] ∧ join35 k0 ct 6 = s.c0 ∧ join35 k1 ct 4 = s.c1 ∧ join35 k2 ct 2 = s.c2 ∧
      ct < 64 ∧ k2 < 64 ∧ k1 < 64 ∧ k0 < 64 := by
  obtain ⟨_, _, a3, a4, a5, a6⟩ := hi_lo ⟨s.c0, h0⟩
  obtain ⟨_, b2, _, b4, b5, b6⟩ := hi_lo ⟨s.c1, h1⟩
  obtain ⟨c1, _, _, c4, c5, c6⟩ := hi_lo ⟨s.c2, h2⟩
  simp only at a3 a4 a5 a6 b2 b4 b5 b6 c1 c4 c5 c6
  obtain ⟨j0, j1, j2, j3⟩ := join_chk ⟨s.c0 >>> 6, a4⟩ ⟨s.c1 >>> 6, b4⟩ ⟨s.c2 >>> 6, c4⟩
  simp only at j0 j1 j2 j3
  refine ⟨_, _, _, _, rfl, ?_, ?_, ?_, ?_, c6, b6, a6⟩
  · simp only [join35, a3, b2, c1, j0]; exact a5
  · simp only [join35, a3, b2, c1, j1]; exact b5
  · simp only [join35, a3, b2, c1, j2]; exact c5
  · simp only [a3, b2, c1]; exact j3

/-! ## the induction -/

/-- the loop invariant in one statement: for ANY checksum state `s`, the decoder started in `s` on
what the encoder started in `s` produced gives back the bytes (and accepts the checksum) -/
theorem dec35Loop_enc35Pre : ∀ (n : Nat) (dat : List Nat) (s : Chk) (pre : List Nat), dat.length ≤ n →
    (∀ x ∈ dat, x < 256) → enc35Pre s dat = some pre →
    dec35Loop s pre = .ok dat ∧ (∀ v ∈ pre, v < 64) ∧ pre.length = 4 * (dat.length / 3) + 7 := by
  intro n
  induction n with
  | zero =>
    intro dat s pre hl _ he
    have : dat = [] := List.eq_nil_of_length_eq_zero (by omega)
    subst this
    simp [enc35Pre] at he
  | succ n ih =>
    intro dat s pre hl hb he
    rcases dat with _ | ⟨a, _ | ⟨b, _ | ⟨c, rest⟩⟩⟩
    · simp [enc35Pre] at he
    · simp [enc35Pre] at he
    · -- the final two bytes and the checksum
      have ha : a < 256 := hb a (by simp)
      have hb' : b < 256 := hb b (by simp)
      simp only [enc35Pre, Option.some.injEq] at he
      obtain ⟨ct, k2, k1, k0, hck, j0, j1, j2, l0, l1, l2, l3⟩ :=
        join_chks ⟨(encA s.c0 s.c2 a).1 &&& 0xff, (encB s.c1 (encA s.c0 s.c2 a).2.1 b).1 &&& 0xff,
          (encB s.c1 (encA s.c0 s.c2 a).2.1 b).2.1 &&& 0xff⟩ (part_lt _) (part_lt _) (part_lt _)
      rw [hck] at he
      obtain ⟨p0, p1, _, pt, q0, q1, _⟩ := join_parts (encA s.c0 s.c2 a).2.2 (encB s.c1 (encA s.c0 s.c2 a).2.1 b).2.2 0
        (encA_part_lt _ _ _) (encB_part_lt _ _ _) (by decide)
      subst he
      refine ⟨?_, ?_, by simp⟩
      · simp only [List.cons_append, List.nil_append, dec35Loop, List.length_cons, List.length_nil, if_true,
          List.getD_cons_zero, List.getD_cons_succ, p0, p1, decA_encA _ _ _ ha, decB_encB _ _ _ hb', j0, j1, j2]
        simp
      · intro v hv
        simp only [List.cons_append, List.nil_append, List.mem_cons, List.not_mem_nil, or_false] at hv
        rcases hv with h | h | h | h | h | h | h <;> subst h <;> assumption
    · -- a full triple, then the rest
      have ha : a < 256 := hb a (by simp)
      have hb' : b < 256 := hb b (by simp)
      have hc : c < 256 := hb c (by simp)
      simp only [enc35Pre] at he
      split at he
      · exact absurd he (by simp)
      · rename_i r hr
        simp only [Option.some.injEq] at he
        have hlen : rest.length ≤ n := by simp at hl; omega
        obtain ⟨ihd, ihv, ihl⟩ := ih rest _ r hlen (fun x hx => hb x (by simp [hx])) hr
        obtain ⟨p0, p1, p2, pt, q0, q1, q2⟩ := join_parts (encA s.c0 s.c2 a).2.2 (encB s.c1 (encA s.c0 s.c2 a).2.1 b).2.2
          (encC (encA s.c0 s.c2 a).1 (encB s.c1 (encA s.c0 s.c2 a).2.1 b).1 c).2.2
          (encA_part_lt _ _ _) (encB_part_lt _ _ _) (encC_part_lt _ _ _)
        subst he
        have hr3 : ¬ (r.length = 3) := by omega
        refine ⟨?_, ?_, ?_⟩
        · simp only [List.cons_append, List.nil_append, dec35Loop, hr3, if_false, p0, p1, p2,
            decA_encA _ _ _ ha, decB_encB _ _ _ hb', decC_encC _ _ _ hc, ihd]
        · intro v hv
          simp only [List.cons_append, List.nil_append, List.mem_cons] at hv
          rcases hv with h | h | h | h | h
          · subst h; exact pt
          · subst h; exact q0
          · subst h; exact q1
          · subst h; exact q2
          · exact ihv v h
        · simp only [List.cons_append, List.nil_append, List.length_cons, ihl]
          omega


theorem enc35Pre_some : ∀ (k : Nat) (dat : List Nat) (s : Chk), dat.length = 3 * k + 2 →
    ∃ pre, enc35Pre s dat = some pre := by
  intro k
  induction k with
  | zero =>
    intro dat s hl
    rcases dat with _ | ⟨a, _ | ⟨b, _ | ⟨c, rest⟩⟩⟩ <;> simp at hl
    exact ⟨_, rfl⟩
  | succ k ih =>
    intro dat s hl
    rcases dat with _ | ⟨a, _ | ⟨b, _ | ⟨c, rest⟩⟩⟩ <;> simp at hl
    obtain ⟨r, hr⟩ := ih rest ⟨(encC (encA s.c0 s.c2 a).1 (encB s.c1 (encA s.c0 s.c2 a).2.1 b).1 c).1,
      (encC (encA s.c0 s.c2 a).1 (encB s.c1 (encA s.c0 s.c2 a).2.1 b).1 c).2.1,
      (encB s.c1 (encA s.c0 s.c2 a).2.1 b).2.1⟩ (by omega)
    simp only [enc35Pre, hr]
    exact ⟨_, rfl⟩

theorem dec35_enc35 (d : List Nat) (hlen : d.length = 524) (hb : ∀ x ∈ d, x < 256) :
    ∃ ns, enc35 d = some ns ∧ ns.length = 703 ∧ dec35 ns = .ok d := by
  obtain ⟨pre, hpre⟩ := enc35Pre_some 174 d ⟨0, 0, 0⟩ (by omega)
  obtain ⟨hd, hv, hl⟩ := dec35Loop_enc35Pre d.length d ⟨0, 0, 0⟩ pre (Nat.le_refl _) hb hpre
  have hl703 : pre.length = 703 := by rw [hl, hlen]
  refine ⟨pre.map encByte35, by simp [enc35, hpre], by simp [hl703], ?_⟩
  have hvals : (pre.map encByte35).map decByte35 = pre := by
    rw [List.map_map]
    conv => rhs; rw [← List.map_id pre]
    apply List.map_congr_left
    intro v hvm
    simp only [Function.comp, decByte35_eq, encByte35_eq, id]
    exact decByte62_encByte62 v (hv v hvm)
  unfold dec35
  rw [if_neg (by simp [hl703])]
  simp only [hvals]
  have hany : pre.any (· == Disk525.INVALID_NIB_BYTE) = false := by
    rw [List.any_eq_false]
    intro x hx
    have := hv x hx
    simp [Disk525.INVALID_NIB_BYTE]
    omega
  rw [hany]
  simpa using hd

/-- every disk byte of a 3.5 inch data field is a table entry -/
theorem enc35_bytes_clean (d ns : List Nat) (h : enc35 d = some ns) : ∀ y ∈ ns,
    0x96 ≤ y ∧ y < 256 ∧ y &&& 0x80 = 0x80 ∧ y ≠ 0xD5 ∧ y ≠ 0xAA := by
  intro y hy
  simp only [enc35, Option.map_eq_some_iff] at h
  obtain ⟨pre, _, rfl⟩ := h
  obtain ⟨x, _, rfl⟩ := List.mem_map.1 hy
  rw [encByte35_eq]
  have : x &&& 0x3f < 64 := Nat.lt_succ_of_le Nat.and_le_right
  exact tbl62_range ⟨x &&& 0x3f, this⟩

end A2Verif.Model.Nibble35
