import A2Verif.Lemmas.Track
/-!
The cell structure `format` lays down on a 5.25 inch track, and what `find_sector`, `decode_sector`,
`encode_sector` do on it.
-/
namespace A2Verif.Model.Track
open Head A2Verif.Model.Nibble

/-- one sector as laid down on the track -/
structure Sec where
  id : Nat
  /-- disk bytes of the data field between prolog and epilog -/
  nibs : List Nat
  /-- number of sync cells behind the data field (20; the track header is counted to the last sector) -/
  gap : Nat

/-- zero bits behind the eight ones of a sync byte -/
def Fmt.z (f : Fmt) : Nat := f.syncBits - 8

/-- a gap of `k` sync bytes: the first follows its predecessor directly, the others (and the cell
behind the gap) carry the `z` zero bits of the sync byte in front of them -/
def syncCells (f : Fmt) : Nat → List Cell
  | 0 => []
  | k + 1 => (0, 0xff) :: List.replicate k (f.z, 0xff)

def plain (bs : List Nat) : List Cell := bs.map (fun b => (0, b))

def addrBytes (vol trk id : Nat) : List Nat :=
  encode44 vol ++ encode44 trk ++ encode44 id ++ encode44 (0 ^^^ vol ^^^ trk ^^^ id)

def addrCells (f : Fmt) (vol trk id : Nat) : List Cell :=
  (f.z, 0xd5) :: plain ([0xaa, if f.six then 0x96 else 0xb5] ++ addrBytes vol trk id ++ epi)

def fieldCells (f : Fmt) (nibs : List Nat) : List Cell :=
  syncCells f 10 ++ (f.z, 0xd5) :: plain ([0xaa, 0xad] ++ nibs ++ epi)

def secCells (f : Fmt) (vol trk : Nat) (s : Sec) : List Cell :=
  addrCells f vol trk s.id ++ fieldCells f s.nibs ++ syncCells f s.gap

/-- a data nibble: a byte with the high bit set that is not `D5` -/
def CleanNib (v : Nat) : Prop := 128 ≤ v ∧ v < 256 ∧ v ≠ 0xd5

/-- cells that an address-prolog search passes without a match and ends in matcher state 0 -/
def Quiet (f : Fmt) (cs : List Cell) : Prop :=
  (∀ c ∈ cs, ValidCell c) ∧ runM f.adrPro proMask 0 (cs.map (·.2)) = some 0

theorem plain_valid (bs : List Nat) (h : ∀ b ∈ bs, 128 ≤ b ∧ b < 256) : ∀ c ∈ plain bs, ValidCell c := by
  intro c hc
  obtain ⟨b, hb, rfl⟩ := List.mem_map.1 hc
  exact h b hb

theorem plain_bytes (bs : List Nat) : (plain bs).map (·.2) = bs := by
  simp [plain, Function.comp_def]

theorem syncCells_valid (f : Fmt) (k : Nat) : ∀ c ∈ syncCells f k, ValidCell c := by
  intro c hc
  cases k with
  | zero => simp [syncCells] at hc
  | succ k =>
    simp only [syncCells, List.mem_cons] at hc
    rcases hc with h | h
    · subst h; simp [ValidCell]
    · rw [List.eq_of_mem_replicate h]; simp [ValidCell]

theorem syncCells_bytes (f : Fmt) (k : Nat) : ∀ v ∈ (syncCells f k).map (·.2), v < 256 ∧ v ≠ 0xd5 := by
  intro v hv
  obtain ⟨c, hc, rfl⟩ := List.mem_map.1 hv
  cases k with
  | zero => simp [syncCells] at hc
  | succ k =>
    simp only [syncCells, List.mem_cons] at hc
    rcases hc with h | h
    · subst h; simp
    · rw [List.eq_of_mem_replicate h]; simp

set_option maxRecDepth 100000 in
theorem enc44_cells : ∀ v : Fin 256, 128 ≤ ((v.val >>> 1) ||| 0xAA) ∧ ((v.val >>> 1) ||| 0xAA) < 256 ∧
    128 ≤ (v.val ||| 0xAA) ∧ (v.val ||| 0xAA) < 256 := by decide +kernel

theorem addrBytes_valid (vol trk id : Nat) (hv : vol < 256) (ht : trk < 256) (hi : id < 256) :
    ∀ b ∈ addrBytes vol trk id, 128 ≤ b ∧ b < 256 := by
  have hc : 0 ^^^ vol ^^^ trk ^^^ id < 256 := by
    have h8 : (256 : Nat) = 2 ^ 8 := rfl
    rw [Nat.zero_xor, h8]
    exact Nat.xor_lt_two_pow (Nat.xor_lt_two_pow hv ht) hi
  have a := enc44_cells ⟨vol, hv⟩
  have b := enc44_cells ⟨trk, ht⟩
  have c := enc44_cells ⟨id, hi⟩
  have d := enc44_cells ⟨_, hc⟩
  simp only at a b c d
  intro x hx
  simp only [addrBytes, encode44, List.cons_append, List.nil_append, List.mem_cons, List.not_mem_nil, or_false] at hx
  rcases hx with h | h | h | h | h | h | h | h <;> subst h
  · exact ⟨a.1, a.2.1⟩
  · exact ⟨a.2.2.1, a.2.2.2⟩
  · exact ⟨b.1, b.2.1⟩
  · exact ⟨b.2.2.1, b.2.2.2⟩
  · exact ⟨c.1, c.2.1⟩
  · exact ⟨c.2.2.1, c.2.2.2⟩
  · exact ⟨d.1, d.2.1⟩
  · exact ⟨d.2.2.1, d.2.2.2⟩

/-- the data field and the gap behind it are passed by an address prolog search: the data prolog
`D5 AA AD` resets the matcher at `AD`, nothing else in there is a `D5` -/
theorem quiet_field (f : Fmt) (nibs : List Nat) (g : Nat) (hn : ∀ v ∈ nibs, CleanNib v) :
    Quiet f (fieldCells f nibs ++ syncCells f g) := by
  constructor
  · intro c hc
    simp only [fieldCells, List.mem_append, List.mem_cons] at hc
    rcases hc with (h | h | h) | h
    · exact syncCells_valid f 10 c h
    · subst h; simp [ValidCell]
    · refine plain_valid _ ?_ c h
      intro b hb
      simp only [List.cons_append, List.nil_append, List.mem_cons, List.mem_append, epi, List.not_mem_nil, or_false] at hb
      rcases hb with h | h | h | h | h | h
      · subst h; decide
      · subst h; decide
      · exact ⟨(hn b h).1, (hn b h).2.1⟩
      · subst h; decide
      · subst h; decide
      · subst h; decide
    · exact syncCells_valid f g c h
  · simp only [fieldCells, List.map_append, List.map_cons, plain_bytes, List.append_assoc, Fmt.adrPro]
    rw [runM_append _ _ _ _ 0 0 (runM_quiet _ _ _ (syncCells_bytes f 10))]
    -- D5 AA AD: states 1, 2, 0
    have h3 : ∀ tl, runM [0xd5, 0xaa, if f.six then 0x96 else 0xb5] proMask 0 (0xd5 :: ([0xaa, 0xad] ++ tl)) =
        runM [0xd5, 0xaa, if f.six then 0x96 else 0xb5] proMask 0 tl := by
      intro tl
      have : ∀ six : Bool, runM [0xd5, 0xaa, if six then 0x96 else 0xb5] proMask 0 (0xd5 :: ([0xaa, 0xad] ++ tl)) =
          runM [0xd5, 0xaa, if six then 0x96 else 0xb5] proMask 0 tl := by
        intro six
        cases six <;> simp [runM, stepM, proMask]
      exact this f.six
    simp only [List.cons_append, List.nil_append, List.append_assoc] at h3 ⊢
    rw [h3]
    have hq : ∀ v ∈ nibs ++ (epi ++ (syncCells f g).map (·.2)), v < 256 ∧ v ≠ 0xd5 := by
      intro v hv
      simp only [List.mem_append] at hv
      rcases hv with h | h | h
      · exact ⟨(hn v h).2.1, (hn v h).2.2⟩
      · simp only [epi, List.mem_cons, List.not_mem_nil, or_false] at h
        rcases h with h | h | h <;> subst h <;> decide
      · exact syncCells_bytes f g v h
    have := runM_quiet 0xaa (if f.six then 0x96 else 0xb5) _ hq
    simpa using this


/-! ## one try of `find_sector` on an address field -/

theorem decodeAddr_cells (t : Trk) (vol trk id : Nat) (hv : vol < 256) (ht : trk < 256) (hi : id < 256)
    (cs : List Cell) (h : t.bits = stream (plain (addrBytes vol trk id) ++ cs)) :
    (decodeAddr t).1 = (vol, trk, id, 0 ^^^ vol ^^^ trk ^^^ id) ∧
    (decodeAddr t).2.bits = stream (cs ++ plain (addrBytes vol trk id)) := by
  have hlen : (plain (addrBytes vol trk id)).length = 8 := by simp [plain, addrBytes, encode44]
  obtain ⟨r1, r2⟩ := readLatchN_cells (plain (addrBytes vol trk id)) t cs
    (plain_valid _ (addrBytes_valid vol trk id hv ht hi)) h
  rw [hlen] at r1 r2
  have hc : 0 ^^^ vol ^^^ trk ^^^ id < 256 := by
    have h8 : (256 : Nat) = 2 ^ 8 := rfl
    rw [Nat.zero_xor, h8]
    exact Nat.xor_lt_two_pow (Nat.xor_lt_two_pow hv ht) hi
  refine ⟨?_, by simp only [decodeAddr]; exact r2⟩
  simp only [decodeAddr, r1, plain_bytes, addrBytes, encode44, List.cons_append, List.nil_append,
    List.getD_cons_zero, List.getD_cons_succ]
  rw [decode44_encode44_fin ⟨vol, hv⟩, decode44_encode44_fin ⟨trk, ht⟩, decode44_encode44_fin ⟨id, hi⟩,
    decode44_encode44_fin ⟨_, hc⟩]

/-- **One try of the sector search.** The cells ahead are a run `pre` that an address prolog search
passes, then an address field for `(vol, trk, id)`, then `after`.  The try ends with the head just
behind the address epilog; it succeeds iff `id` is the sector asked for, otherwise the loop goes on
from there. -/
theorem findSectorLoop_try (f : Fmt) (vol trk id sec fuel : Nat) (hv : vol < 256) (ht : trk < 256) (hi : id < 256)
    (t : Trk) (pre after : List Cell) (hq : Quiet f pre) (hf : pre.length + 3 ≤ f.maxTries)
    (h : t.bits = stream (pre ++ addrCells f vol trk id ++ after)) :
    ∃ t' : Trk, t'.bits = stream (after ++ pre ++ addrCells f vol trk id) ∧
      findSectorLoop f trk sec (fuel + 1) t =
        if sec = id then (.ok (), t') else findSectorLoop f trk sec fuel t' := by
  -- 1. the address prolog
  let p3 : Nat := if f.six then 0x96 else 0xb5
  have hp3 : ValidCell (0, p3) := by
    show 128 ≤ p3 ∧ p3 < 256
    simp only [p3]; split <;> decide
  have hcells : pre ++ addrCells f vol trk id ++ after =
      (pre ++ [(f.z, 0xd5), (0, 0xaa)]) ++ (0, p3) :: (plain (addrBytes vol trk id) ++ (plain epi ++ after)) := by
    simp [addrCells, plain, p3]
  have hrun : runM f.adrPro proMask 0 ((pre ++ [(f.z, 0xd5), (0, 0xaa)]).map (fun c : Cell => c.2)) = some 2 := by
    rw [List.map_append, runM_append _ _ _ _ 0 0 hq.2]
    have : ∀ six : Bool, runM [0xd5, 0xaa, if six then 0x96 else 0xb5] proMask 0 [0xd5, 0xaa] = some 2 := by
      intro six; cases six <;> simp [runM, stepM, proMask]
    exact this f.six
  have hstep : stepM f.adrPro proMask 2 p3 = f.adrPro.length := by
    simp only [Fmt.adrPro, p3, stepM, proMask]; simp
  obtain ⟨a1, a2⟩ := findPat_hit f f.adrPro proMask none t (pre ++ [(f.z, 0xd5), (0, 0xaa)]) (0, p3)
    (plain (addrBytes vol trk id) ++ (plain epi ++ after)) 2 (by simp [Fmt.adrPro])
    (by
      intro x hx
      simp only [List.mem_append, List.mem_cons, List.not_mem_nil, or_false] at hx
      rcases hx with (h | h | h) | h
      · exact hq.1 x h
      · subst h; simp [ValidCell]
      · subst h; simp [ValidCell]
      · subst h; exact hp3)
    (by rw [h, hcells]) hrun hstep (by simp; omega) (by intro c hc; cases hc)
  -- 2. the address
  obtain ⟨b1, b2⟩ := decodeAddr_cells (findPat f f.adrPro proMask none t).2 vol trk id hv ht hi
    ((plain epi ++ after) ++ (pre ++ [(f.z, 0xd5), (0, 0xaa)]) ++ [(0, p3)]) (by rw [a2]; simp)
  -- 3. the address epilog (third byte masked out)
  have hrun2 : runM epi epiMask 0 (([(0, 0xde), (0, 0xaa)] : List Cell).map (fun c : Cell => c.2)) = some 2 := by
    simp [runM, stepM, epi, epiMask]
  have hstep2 : stepM epi epiMask 2 ((0, 0xeb) : Cell).2 = epi.length := by
    simp [stepM, epi, epiMask]
  obtain ⟨c1, c2⟩ := findPat_hit f epi epiMask (some 10) (decodeAddr (findPat f f.adrPro proMask none t).2).2
    [(0, 0xde), (0, 0xaa)] (0, 0xeb)
    (after ++ (pre ++ [(f.z, 0xd5), (0, 0xaa)]) ++ [(0, p3)] ++ plain (addrBytes vol trk id)) 2 (by simp [epi])
    (by intro x hx; simp at hx; rcases hx with h | h | h <;> subst h <;> simp [ValidCell])
    (by rw [b2]; simp [plain, epi]) hrun2 hstep2 (by simp; omega)
    (by intro c hc; cases hc; simp)
  refine ⟨(findPat f epi epiMask (some 10) (decodeAddr (findPat f f.adrPro proMask none t).2).2).2, ?_, ?_⟩
  · rw [c2]; simp [addrCells, plain, p3, epi]
  · simp only [findSectorLoop, a1, b1, c1, Bool.not_true, Bool.false_eq_true, if_false, Nat.zero_xor,
      ne_eq, not_true_eq_false, Nat.xor_self]
    by_cases hs : sec = id
    · simp [hs]
    · simp [hs]


/-! ## the whole search, the data field read and the data field write -/

/-- what we need to know about a sector on the track -/
def GoodSec (f : Fmt) (s : Sec) : Prop :=
  s.id < 256 ∧ (∀ v ∈ s.nibs, CleanNib v) ∧ s.nibs.length = f.dataNibs ∧
  (fieldCells f s.nibs ++ syncCells f s.gap).length + 3 ≤ f.maxTries

def secsCells (f : Fmt) (vol trk : Nat) (l : List Sec) : List Cell := (l.map (secCells f vol trk)).flatten

theorem secsCells_cons (f : Fmt) (vol trk : Nat) (s : Sec) (l : List Sec) :
    secsCells f vol trk (s :: l) = secCells f vol trk s ++ secsCells f vol trk l := by
  simp [secsCells]

/-- **Sector search.** The cells ahead: a run the prolog search passes, then whole sectors none of
which has the wanted id, then the address field of the wanted sector.  `find_sector` succeeds (within
its 32 tries) with the head just behind that address field's epilog. -/
theorem findSectorLoop_skip (f : Fmt) (vol trk sec : Nat) (hv : vol < 256) (ht : trk < 256) (hsec : sec < 256) :
    ∀ (l1 : List Sec) (fuel : Nat) (t : Trk) (pre tail : List Cell),
    Quiet f pre → pre.length + 3 ≤ f.maxTries → (∀ s ∈ l1, GoodSec f s ∧ s.id ≠ sec) → l1.length < fuel →
    t.bits = stream (pre ++ secsCells f vol trk l1 ++ addrCells f vol trk sec ++ tail) →
    ∃ t' : Trk, findSectorLoop f trk sec fuel t = (.ok (), t') ∧
      t'.bits = stream (tail ++ pre ++ secsCells f vol trk l1 ++ addrCells f vol trk sec) := by
  intro l1
  induction l1 with
  | nil =>
    intro fuel t pre tail hq hf _ hfu h
    obtain ⟨k, rfl⟩ : ∃ k, fuel = k + 1 := ⟨fuel - 1, by simp at hfu; omega⟩
    obtain ⟨t', ht', heq⟩ := findSectorLoop_try f vol trk sec sec k hv ht hsec t pre tail hq hf
      (by simpa [secsCells] using h)
    exact ⟨t', by rw [heq]; simp, by rw [ht']; simp [secsCells]⟩
  | cons s l1 ih =>
    intro fuel t pre tail hq hf hl hfu h
    obtain ⟨k, rfl⟩ : ∃ k, fuel = k + 1 := ⟨fuel - 1, by simp at hfu; omega⟩
    obtain ⟨⟨hid, hclean, _, hmax⟩, hne⟩ := hl s (by simp)
    obtain ⟨t1, ht1, heq⟩ := findSectorLoop_try f vol trk s.id sec k hv ht hid t pre
      (fieldCells f s.nibs ++ syncCells f s.gap ++ secsCells f vol trk l1 ++ addrCells f vol trk sec ++ tail) hq hf
      (by rw [h, secsCells_cons]; simp [secCells])
    rw [if_neg (Ne.symm hne)] at heq
    obtain ⟨t', h1, h2⟩ := ih k t1 (fieldCells f s.nibs ++ syncCells f s.gap) (tail ++ pre ++ addrCells f vol trk s.id)
      (quiet_field f s.nibs s.gap hclean) hmax (fun x hx => hl x (by simp [hx])) (by simp at hfu; omega)
      (by rw [ht1]; simp)
    exact ⟨t', by rw [heq, h1], by rw [h2, secsCells_cons]; simp [secCells]⟩

/-- **Data field read.** With the head behind the address epilog, `decode_sector` finds the data prolog
behind the ten sync bytes, latches exactly the data nibbles and decodes them; the head stops behind the
last data nibble. -/
theorem decodeSector_cells (f : Fmt) (t : Trk) (nibs : List Nat) (rest : List Cell)
    (hn : ∀ v ∈ nibs, CleanNib v) (hl : nibs.length = f.dataNibs) (hm : 13 ≤ f.maxTries)
    (h : t.bits = stream (fieldCells f nibs ++ rest)) :
    (decodeSector f t).1 = (match (if f.six then dec62 nibs else dec53 nibs) with
      | .ok d => .ok d
      | .error .badChecksum => .error .badChecksum
      | .error _ => .error .invalidByte) ∧
    (decodeSector f t).2.bits =
      stream (plain epi ++ rest ++ syncCells f 10 ++ [(f.z, 0xd5), (0, 0xaa), (0, 0xad)] ++ plain nibs) := by
  have hcells : fieldCells f nibs ++ rest =
      (syncCells f 10 ++ [(f.z, 0xd5), (0, 0xaa)]) ++ (0, 0xad) :: (plain nibs ++ (plain epi ++ rest)) := by
    simp [fieldCells, plain]
  have hrun : runM datPro proMask 0 ((syncCells f 10 ++ [(f.z, 0xd5), (0, 0xaa)]).map (fun c : Cell => c.2)) = some 2 := by
    simp only [datPro]
    rw [List.map_append, runM_append _ _ _ _ 0 0 (runM_quiet _ _ _ (syncCells_bytes f 10))]
    simp [runM, stepM, proMask]
  have hlen : (syncCells f 10 ++ [(f.z, 0xd5), (0, 0xaa)]).length = 12 := by simp [syncCells]
  obtain ⟨a1, a2⟩ := findPat_hit f datPro proMask (some 40) t (syncCells f 10 ++ [(f.z, 0xd5), (0, 0xaa)]) (0, 0xad)
    (plain nibs ++ (plain epi ++ rest)) 2 (by simp [datPro])
    (by
      intro x hx
      simp only [List.mem_append, List.mem_cons, List.not_mem_nil, or_false] at hx
      rcases hx with (h | h | h) | h
      · exact syncCells_valid f 10 x h
      · subst h; simp [ValidCell]
      · subst h; simp [ValidCell]
      · subst h; simp [ValidCell])
    (by rw [h, hcells]) hrun (by simp [stepM, proMask, datPro]) (by rw [hlen]; omega)
    (by intro c hc; cases hc; rw [hlen]; decide)
  have hpl : (plain nibs).length = f.dataNibs := by simp [plain, hl]
  obtain ⟨r1, r2⟩ := readLatchN_cells (plain nibs) (findPat f datPro proMask (some 40) t).2
    ((plain epi ++ rest) ++ (syncCells f 10 ++ [(f.z, 0xd5), (0, 0xaa)]) ++ [(0, 0xad)])
    (plain_valid _ (fun b hb => ⟨(hn b hb).1, (hn b hb).2.1⟩)) (by rw [a2]; simp)
  rw [hpl, plain_bytes] at r1
  rw [hpl] at r2
  simp only [decodeSector, a1, Bool.not_true, Bool.false_eq_true, if_false, r1]
  have hb : (readLatchN f.dataNibs (findPat f datPro proMask (some 40) t).2).2.bits =
      stream (plain epi ++ rest ++ syncCells f 10 ++ [(f.z, 0xd5), (0, 0xaa), (0, 0xad)] ++ plain nibs) := by
    rw [r2]; simp
  generalize (if f.six = true then dec62 nibs else dec53 nibs) = res
  rcases res with e | d
  · cases e <;> exact ⟨rfl, hb⟩
  · exact ⟨rfl, hb⟩


/-! ## the data field write -/

theorem writeBits_append (a : List Bool) : ∀ (b : List Bool) (t : Trk), writeBits (a ++ b) t = writeBits b (writeBits a t) := by
  induction a with
  | nil => intro b t; rfl
  | cons x xs ih => intro b t; simp only [List.cons_append, writeBits]; exact ih b _

def bytesBits (bs : List Nat) : List Bool := (bs.map (fun b => bitsOf b 8)).flatten

theorem writeBytes_eq : ∀ (bs : List Nat) (t : Trk), writeBytes bs t = writeBits (bytesBits bs) t := by
  intro bs
  induction bs with
  | nil => intro t; rfl
  | cons b bs ih =>
    intro t
    simp only [writeBytes, writeByte, bytesBits, List.map_cons, List.flatten_cons]
    rw [writeBits_append, ih]; rfl

def syncOne (s : Nat) : List Bool := bitsOf 0xff (min s 8) ++ List.replicate (s - 8) false

theorem writeSync_eq (s : Nat) : ∀ (k : Nat) (t : Trk), writeSync s k t = writeBits ((List.replicate k (syncOne s)).flatten) t := by
  intro k
  induction k with
  | zero => intro t; rfl
  | succ k ih =>
    intro t
    show writeSync s k (writeBits (syncOne s) t) = _
    rw [ih, List.replicate_succ, List.flatten_cons, writeBits_append]

theorem bytesBits_append (a b : List Nat) : bytesBits (a ++ b) = bytesBits a ++ bytesBits b := by
  simp [bytesBits]

theorem bitsOf_length (b k : Nat) : (bitsOf b k).length = k := by simp [bitsOf]

theorem bytesBits_length (bs : List Nat) : (bytesBits bs).length = 8 * bs.length := by
  induction bs with
  | nil => rfl
  | cons b bs ih => simp only [bytesBits, List.map_cons, List.flatten_cons, List.length_append, bitsOf_length,
      List.length_cons] at ih ⊢; omega

theorem stream_plain (bs : List Nat) : stream (plain bs) = bytesBits bs := by
  induction bs with
  | nil => rfl
  | cons b bs ih =>
    have : plain (b :: bs) = (0, b) :: plain bs := rfl
    rw [this, stream_cons, ih]
    simp [cellBits, bytesBits]

theorem flatten_shift (a b : List Bool) : ∀ k, a ++ (List.replicate k (b ++ a)).flatten ++ b = (List.replicate (k + 1) (a ++ b)).flatten := by
  intro k
  induction k with
  | zero => simp
  | succ k ih =>
    have : (List.replicate (k + 1 + 1) (a ++ b)).flatten = (a ++ b) ++ (List.replicate (k + 1) (a ++ b)).flatten := by
      simp [List.replicate_succ]
    rw [this, ← ih]
    simp [List.replicate_succ]

/-- the bits `encode_sector` writes are exactly the cells of a data field -/
theorem stream_fieldCells (f : Fmt) (hs : 8 ≤ f.syncBits) (nibs : List Nat) :
    stream (fieldCells f nibs) = (List.replicate 10 (syncOne f.syncBits)).flatten ++ bytesBits (datPro ++ nibs ++ epi) := by
  have hone : syncOne f.syncBits = bitsOf 0xff 8 ++ List.replicate f.z false := by
    simp [syncOne, Fmt.z, Nat.min_eq_right hs]
  have hsync : stream (syncCells f 10) ++ List.replicate f.z false = (List.replicate 10 (syncOne f.syncBits)).flatten := by
    rw [hone, ← flatten_shift]
    simp [syncCells, stream, cellBits]
  have : fieldCells f nibs = syncCells f 10 ++ ((f.z, 0xd5) :: plain ([0xaa, 0xad] ++ nibs ++ epi)) := rfl
  rw [this, stream_append, stream_cons, stream_plain, ← hsync]
  simp [cellBits, bytesBits, datPro]

/-- **Data field write.** With the head behind the address epilog, `encode_sector` replaces exactly the
cells of the old data field (same number of nibbles) by those of the new one; every other cell is
untouched and the head stops behind the data epilog. -/
theorem encodeSector_cells (f : Fmt) (hs : 8 ≤ f.syncBits) (t : Trk) (old : List Nat) (dat : List Nat) (rest : List Cell)
    (hlen : old.length = (if f.six then enc62 dat else enc53 dat).length)
    (h : t.bits = stream (fieldCells f old ++ rest)) :
    (encodeSector f dat t).bits = stream (rest ++ fieldCells f (if f.six then enc62 dat else enc53 dat)) := by
  have hW : encodeSector f dat t = writeBits ((List.replicate 10 (syncOne f.syncBits)).flatten ++
      bytesBits (datPro ++ (if f.six then enc62 dat else enc53 dat) ++ epi)) t := by
    simp only [encodeSector, writeSync_eq, writeBytes_eq]
    rw [bytesBits_append, bytesBits_append, writeBits_append, writeBits_append, writeBits_append]
  rw [hW, ← stream_fieldCells f hs]
  rw [stream_append] at h
  rw [writeBits_bits _ t (stream (fieldCells f old)) (stream rest) h, stream_append]
  rw [stream_fieldCells f hs, stream_fieldCells f hs]
  simp only [List.length_append, bytesBits_length, hlen]

end A2Verif.Model.Track
