import A2Verif.Model.C12FsId
/-!
# C12 read paths of the concrete FAT model on arbitrary images: the FAT buffer, cluster reads, chain walks

`Good d`: what identification (`verify`) and `from_img` establish and nothing more — the BPB arithmetic does not
underflow (`Bpb.ok`), the BPB's sector size is the unit length of the image (512), FAT12 or FAT16, every unit has 512 bytes,
an open FAT buffer has `fat_secs · 512` bytes.  Nothing is assumed about the contents of any unit.

The read paths change the state in exactly one way: the first FAT access opens the FAT buffer (`maybe_fat`).
`Ext d d'`: `d' = d`, or `d` had no buffer and `d'` is `d` with the buffer `get_fat_buffer` opens.
`Safe m d Q`: at the state `d`, `m` ends in an `Ext`-successor of `d`, does not panic, and its value and final state satisfy `Q`.
Core Lean only.
-/
namespace A2Verif.C12FsId.Fat
open A2Verif.Fs.Fat

/-- every unit of the image is a 512-byte sector -/
def Units512 (r : Raw) : Prop := ∀ (i : Nat) (b : Bytes), r.units[i]? = some b → b.length = 512

/-- what identification and `from_img` establish; no hypothesis on the contents of any sector -/
structure Good (d : Disk) : Prop where
  ok : d.bpb.ok = true
  bps : d.bpb.bps = 512
  typ : d.typ = d.bpb.fatType
  t32 : d.bpb.fatType ≠ 32
  units : Units512 d.raw
  fat : ∀ f, d.fat = some f → f.size = d.bpb.fatSecs * 512

theorem bind_apply {α β : Type} (m : M α) (f : α → M β) (d : Disk) :
    (m >>= f) d = match m d with
      | (.ok a, d') => f a d'
      | (.error e, d') => (.error e, d') := rfl

theorem pure_apply {α : Type} (a : α) (d : Disk) : (pure a : M α) d = (.ok a, d) := rfl

/-- the only state change of a read path: the FAT buffer is opened -/
def Ext (d d' : Disk) : Prop := d' = d ∨ (d.fat = none ∧ ∃ f, getFatBuffer d = (.ok f, d'))

theorem Ext.refl (d : Disk) : Ext d d := Or.inl rfl

theorem getFat_fat {d d' : Disk} {f : Array Nat} (h : getFatBuffer d = (.ok f, d')) : d'.fat = some f := by
  unfold getFatBuffer at h
  split at h
  · rename_i f0 hf
    cases h
    exact hf
  · split at h
    · cases h
    · split at h
      · rename_i f1 hf1
        cases h
        exact hf1
      · cases h

theorem Ext.trans {d d' d'' : Disk} (h1 : Ext d d') (h2 : Ext d' d'') : Ext d d'' := by
  cases h1 with
  | inl h => subst h; exact h2
  | inr h =>
    obtain ⟨hn, f, hf⟩ := h
    cases h2 with
    | inl h' => subst h'; exact Or.inr ⟨hn, f, hf⟩
    | inr h' =>
      have := getFat_fat hf
      rw [this] at h'
      cases h'.1

theorem Ext.eq_of_open {d d' : Disk} {f : Array Nat} (h : Ext d d') (hf : d.fat = some f) : d' = d := by
  cases h with
  | inl h => exact h
  | inr h => rw [hf] at h; cases h.1

/-- at the state `d`: `m` ends in an `Ext`-successor, does not panic, value and final state satisfy `Q` -/
def Safe {α : Type} (m : M α) (d : Disk) (Q : α → Disk → Prop) : Prop :=
  Ext d (m d).2 ∧ (m d).1 ≠ .error .panic ∧ ∀ a, (m d).1 = .ok a → Q a (m d).2

theorem Safe.weaken {α : Type} {m : M α} {d : Disk} {P Q : α → Disk → Prop} (h : Safe m d P) (hpq : ∀ a d', P a d' → Q a d') :
    Safe m d Q := ⟨h.1, h.2.1, fun a ha => hpq a _ (h.2.2 a ha)⟩

theorem Safe.pure {α : Type} {a : α} {d : Disk} {Q : α → Disk → Prop} (h : Q a d) : Safe (Pure.pure a : M α) d Q := by
  unfold Safe
  rw [pure_apply]
  exact ⟨Ext.refl d, (by intro hh; cases hh), fun b hb => by cases hb; exact h⟩

theorem Safe.fail {α : Type} {e : Err} {d : Disk} {Q : α → Disk → Prop} (h : e ≠ .panic) : Safe (M.fail e : M α) d Q := by
  show Ext d ((Except.error e, d) : R α × Disk).2 ∧ _
  exact ⟨Ext.refl d, (by intro hh; cases hh; exact h rfl), fun b hb => by cases hb⟩

theorem Safe.lift {α : Type} {x : R α} {d : Disk} {Q : α → Disk → Prop} (h : x ≠ .error .panic) (hq : ∀ a, x = .ok a → Q a d) :
    Safe (M.lift x) d Q := by
  show Ext d ((x, d) : R α × Disk).2 ∧ _
  exact ⟨Ext.refl d, h, hq⟩

theorem Safe.get {d : Disk} : Safe M.get d (fun x d' => x = d ∧ d' = d) := by
  show Ext d ((Except.ok d, d) : R Disk × Disk).2 ∧ _
  exact ⟨Ext.refl d, (by intro hh; cases hh), fun a h => by cases h; exact ⟨rfl, rfl⟩⟩

/-! ## the FAT buffer -/

/-- entry `n` of a FAT of type `typ` lies inside a buffer of `S` bytes -/
def InBuf (typ S n : Nat) : Prop := (typ = 12 ∧ n + n / 2 + 1 < S) ∨ (typ = 16 ∧ 2 * n + 1 < S)

theorem good_typ {d : Disk} (g : Good d) : d.typ = 12 ∨ d.typ = 16 := by
  have h1 := g.typ
  have h2 := g.t32
  rw [h1]
  unfold Bpb.fatType at h2 ⊢
  split
  · exact Or.inl rfl
  · split
    · exact Or.inr rfl
    · rename_i h3 h4; simp [h3, h4] at h2

theorem good_spc {d : Disk} (g : Good d) : d.bpb.spc ≠ 0 := by
  have := g.ok
  unfold Bpb.ok at this
  simp only [Bool.and_eq_true, decide_eq_true_eq] at this
  exact this.1.1

/-- the range test with the usable count keeps a FAT entry inside the buffer (`cluster_count_usable` counts FAT entries with
the BPB's sector size, the buffer has the image's: equal by `Good.bps`) -/
theorem inBuf_of_lt {d : Disk} (g : Good d) {n : Nat} (hn : n < firstDataCluster + d.bpb.clusterCountUsable) :
    InBuf d.typ (d.bpb.fatSecs * 512) n := by
  have hok := g.ok
  unfold Bpb.ok at hok
  simp only [Bool.and_eq_true, decide_eq_true_eq] at hok
  have h2 := hok.2
  have hu : d.bpb.clusterCountUsable ≤ d.bpb.fatSecs * d.bpb.secSize * 8 / d.bpb.fatType - firstDataCluster := by
    unfold Bpb.clusterCountUsable; exact Nat.min_le_right _ _
  have hs : d.bpb.secSize = 512 := g.bps
  rw [hs] at hu h2
  have ht := g.typ
  rcases good_typ g with h12 | h16
  · left
    refine ⟨h12, ?_⟩
    rw [← ht, h12] at hu h2
    have := Nat.div_mul_le_self (d.bpb.fatSecs * 512 * 8) 12
    show n + n / 2 + 1 < d.bpb.fatSecs * 512
    simp only [firstDataCluster] at hn hu h2
    omega
  · right
    refine ⟨h16, ?_⟩
    rw [← ht, h16] at hu h2
    have := Nat.div_mul_le_self (d.bpb.fatSecs * 512 * 8) 16
    simp only [firstDataCluster] at hn hu h2
    omega

theorem getCluster_ok {typ : Nat} {f : Array Nat} {n : Nat} (h : InBuf typ f.size n) : ∃ v, getCluster typ f n = .ok v := by
  unfold getCluster
  rcases h with ⟨ht, hn⟩ | ⟨ht, hn⟩
  · subst ht
    have h0 : n + n / 2 < f.size := by omega
    simp [Array.getElem?_eq_getElem h0, Array.getElem?_eq_getElem hn]
  · subst ht
    have h0 : 2 * n < f.size := by omega
    simp [Array.getElem?_eq_getElem h0, Array.getElem?_eq_getElem hn]

theorem setCluster_ok {typ : Nat} {f : Array Nat} {n : Nat} (v : Nat) (h : InBuf typ f.size n) :
    ∃ f', setCluster typ f n v = .ok f' ∧ f'.size = f.size := by
  unfold setCluster
  rcases h with ⟨ht, hn⟩ | ⟨ht, hn⟩
  · subst ht
    have h0 : n + n / 2 < f.size := by omega
    simp [Array.getElem?_eq_getElem h0, Array.getElem?_eq_getElem hn]
  · subst ht
    simp [hn]

theorem isDamaged_ok {typ : Nat} {f : Array Nat} {n : Nat} (h : InBuf typ f.size n) : ∃ v, isDamaged typ f n = .ok v := by
  obtain ⟨v, hv⟩ := getCluster_ok h
  exact ⟨_, by unfold isDamaged; rw [hv]; rfl⟩

theorem isFree_ok {typ : Nat} {f : Array Nat} {n : Nat} (h : InBuf typ f.size n) : ∃ v, isFree typ f n = .ok v := by
  obtain ⟨v, hv⟩ := getCluster_ok h
  exact ⟨_, by unfold isFree; rw [hv]; rfl⟩

theorem isLast_ok {typ : Nat} {f : Array Nat} {n : Nat} (h : InBuf typ f.size n) : ∃ v, isLast typ f n = .ok v := by
  obtain ⟨v, hv⟩ := getCluster_ok h
  exact ⟨_, by unfold isLast; rw [hv]; rfl⟩

/-- `fat::repair` stays inside both buffers and keeps the length of the working copy -/
theorem repairLoop_ok {typ S : Nat} (bak : Array Nat) (ce : Nat) (hb : bak.size = S) :
    ∀ (l : List Nat) (w : Array Nat), w.size = S → (∀ n ∈ l, InBuf typ S n) →
      ∃ w', repairLoop typ bak ce l w = .ok w' ∧ w'.size = S := by
  intro l
  induction l with
  | nil => intro w hw _; exact ⟨w, rfl, hw⟩
  | cons n ns ih =>
    intro w hw hin
    have hn := hin n (List.mem_cons_self)
    obtain ⟨v1, h1⟩ := getCluster_ok (f := w) (by rw [hw]; exact hn)
    obtain ⟨v2, h2⟩ := getCluster_ok (f := bak) (by rw [hb]; exact hn)
    obtain ⟨d1, h3⟩ := isDamaged_ok (f := w) (by rw [hw]; exact hn)
    obtain ⟨d2, h4⟩ := isDamaged_ok (f := bak) (by rw [hb]; exact hn)
    obtain ⟨w', h5, h6⟩ := setCluster_ok (f := w)
      (if (!(decide (firstDataCluster ≤ v1) && decide (v1 < ce) && !d1) && (decide (firstDataCluster ≤ v2) && decide (v2 < ce) && !d2)) = true then v2 else v1)
      (by rw [hw]; exact hn)
    obtain ⟨w'', h7, h8⟩ := ih w' (by rw [h6, hw]) (fun m hm => hin m (List.mem_cons_of_mem _ hm))
    refine ⟨w'', ?_, h8⟩
    unfold repairLoop
    simp only [h1, h2, h3, h4, bind, Except.bind]
    rw [h5]
    exact h7

/-! ## sector and block reads -/

theorem readSector_apply (s : Nat) (d : Disk) :
    readSector s d = match getChs d s with
      | .ok s' => (imgReadSector d.raw s', d)
      | .error e => (.error e, d) := by
  unfold readSector
  simp only [bind_apply, M.get, M.lift]
  cases getChs d s <;> rfl

theorem readSector_spec {d : Disk} (hu : Units512 d.raw) (s : Nat) :
    (readSector s d).2 = d ∧ (readSector s d).1 ≠ .error .panic ∧ ∀ b, (readSector s d).1 = .ok b → b.length = 512 := by
  rw [readSector_apply]
  cases hc : getChs d s with
  | error e =>
    refine ⟨rfl, ?_, fun b hb => by cases hb⟩
    intro hh
    cases hh
    unfold getChs at hc
    split at hc
    · cases hc
    · split at hc <;> cases hc
  | ok s' =>
    simp only []
    unfold imgReadSector
    cases hx : d.raw.units[s']? with
    | none => exact ⟨trivial, (by intro hh; cases hh), fun b hb => by cases hb⟩
    | some b0 => exact ⟨trivial, (by intro hh; cases hh), fun b hb => by cases hb; exact hu _ _ hx⟩

theorem readSectors_spec {d : Disk} (hu : Units512 d.raw) : ∀ (l : List Nat),
    (readSectors l d).2 = d ∧ (readSectors l d).1 ≠ .error .panic ∧ ∀ b, (readSectors l d).1 = .ok b → b.length = l.length * 512 := by
  intro l
  induction l with
  | nil => exact ⟨rfl, (by intro hh; cases hh), fun b hb => by cases hb; rfl⟩
  | cons s ss ih =>
    obtain ⟨h1, h2, h3⟩ := readSector_spec hu s
    obtain ⟨i1, i2, i3⟩ := ih
    unfold readSectors
    simp only [bind_apply]
    cases hr : readSector s d with
    | mk res d1 =>
      rw [hr] at h1 h2 h3
      simp only [] at h1 h2 h3
      subst h1
      cases res with
      | error e => exact ⟨rfl, fun hh => h2 (by cases hh; rfl), fun b hb => by cases hb⟩
      | ok b0 =>
        simp only []
        cases hrs : readSectors ss d1 with
        | mk res2 d2 =>
          rw [hrs] at i1 i2 i3
          simp only [] at i1 i2 i3
          subst i1
          cases res2 with
          | error e => exact ⟨rfl, fun hh => i2 (by cases hh; rfl), fun b hb => by cases hb⟩
          | ok rest =>
            refine ⟨rfl, (by intro hh; cases hh), fun b hb => ?_⟩
            have : b = b0 ++ rest := by
              simp only [pure_apply] at hb
              cases hb; rfl
            subst this
            rw [List.length_append, h3 b0 rfl, i3 rest rfl, List.length_cons]
            omega

/-- `readSector(s)` does not look at the FAT buffer -/
theorem readSectors_fat (x : Option (Array Nat)) : ∀ (l : List Nat) (d : Disk),
    readSectors l { d with fat := x } = ((readSectors l d).1, { d with fat := x }) := by
  intro l
  induction l with
  | nil => intro d; rfl
  | cons s ss ih =>
    intro d
    unfold readSectors
    simp only [bind_apply]
    have e : readSector s { d with fat := x } = ((readSector s d).1, { d with fat := x }) := by
      rw [readSector_apply, readSector_apply]
      show (match getChs d s with | .ok s' => (imgReadSector d.raw s', ({ d with fat := x } : Disk)) | .error e => (.error e, { d with fat := x })) = _
      cases getChs d s <;> rfl
    have e0 : (readSector s d).2 = d := by
      rw [readSector_apply]; cases getChs d s <;> rfl
    rw [e]
    cases hr : readSector s d with
    | mk res d1 =>
      rw [hr] at e0
      simp only [] at e0
      subst e0
      cases res with
      | error e => rfl
      | ok b0 =>
        simp only []
        rw [ih d1]
        cases hrs : readSectors ss d1 with
        | mk res2 d2 =>
          cases res2 <;> rfl

theorem app_length (a b : Bytes) : (app a b).length = a.length + b.length := by
  unfold app
  split
  · rename_i h
    have : b = [] := by cases b <;> simp_all
    subst this; simp
  · simp

theorem imgReadBlock_spec {r : Raw} (hu : Units512 r) : ∀ (l : List Nat),
    imgReadBlock r l ≠ .error .panic ∧ ∀ b, imgReadBlock r l = .ok b → b.length = l.length * 512 := by
  intro l
  induction l with
  | nil => exact ⟨(by intro hh; cases hh), fun b hb => by cases hb; rfl⟩
  | cons s ss ih =>
    unfold imgReadBlock
    cases hx : r.units[s]? with
    | none => exact ⟨(by intro hh; cases hh), fun b hb => by cases hb⟩
    | some b0 =>
      simp only []
      cases hr : imgReadBlock r ss with
      | error e =>
        refine ⟨?_, fun b hb => by cases hb⟩
        intro hh
        cases hh
        exact ih.1 hr
      | ok rest =>
        refine ⟨(by intro hh; cases hh), fun b hb => ?_⟩
        cases hb
        rw [app_length, hu _ _ hx, ih.2 rest hr, List.length_cons]
        omega

theorem takeN_eq (xs : Bytes) (n : Nat) : takeN xs n = xs.take n := by
  unfold takeN
  split
  · rename_i h; exact (List.take_of_length_le h).symm
  · rfl

/-- `read_block` of a cluster ≥ 2: the state is untouched, no panic (the image returns `spc · 512` bytes = one block), one block -/
theorem readBlock_spec {d : Disk} (g : Good d) {c : Nat} (hc : 2 ≤ c) :
    (readBlock c d).2 = d ∧ (readBlock c d).1 ≠ .error .panic ∧ ∀ b, (readBlock c d).1 = .ok b → b.length = d.bpb.blockSize := by
  have hbs : d.bpb.blockSize = d.bpb.spc * 512 := by unfold Bpb.blockSize; rw [g.bps]
  unfold readBlock
  simp only [bind_apply, M.get, M.lift]
  have hs : clusSecs d.bpb c = .ok (List.range' (d.bpb.firstClusterSec c) d.bpb.spc) := by
    unfold clusSecs; rw [if_neg (by omega)]
  rw [hs]
  simp only []
  obtain ⟨h1, h2⟩ := imgReadBlock_spec g.units (List.range' (d.bpb.firstClusterSec c) d.bpb.spc)
  cases hr : imgReadBlock d.raw (List.range' (d.bpb.firstClusterSec c) d.bpb.spc) with
  | error e => exact ⟨rfl, fun hh => h1 (by rw [hr]; cases hh; rfl), fun b hb => by cases hb⟩
  | ok buf =>
    simp only []
    have hl := h2 buf hr
    rw [List.length_range'] at hl
    have : ¬ buf.length < d.bpb.blockSize := by omega
    rw [if_neg this]
    refine ⟨rfl, (by intro hh; cases hh), fun b hb => ?_⟩
    simp only [pure_apply] at hb
    cases hb
    rw [takeN_eq, List.length_take]
    omega

/-- `read_block` does not look at the FAT buffer -/
theorem readBlock_fat (x : Option (Array Nat)) (c : Nat) (d : Disk) :
    readBlock c { d with fat := x } = ((readBlock c d).1, { d with fat := x }) := by
  unfold readBlock
  simp only [bind_apply, M.get, M.lift]
  cases clusSecs d.bpb c with
  | error e => rfl
  | ok a =>
    simp only []
    cases imgReadBlock d.raw a with
    | error e => rfl
    | ok buf =>
      simp only []
      split <;> rfl

/-! ## opening the FAT buffer -/

theorem backupLoop_spec {d : Disk} (g : Good d) : ∀ (ks : List Nat) (ans : Array Nat), ans.size = d.bpb.fatSecs * 512 →
    (backupLoop ks ans d).2 = d ∧ (backupLoop ks ans d).1 ≠ .error .panic ∧
      ∀ a, (backupLoop ks ans d).1 = .ok a → a.size = d.bpb.fatSecs * 512 := by
  intro ks
  induction ks with
  | nil => intro ans ha; exact ⟨rfl, (by intro hh; cases hh), fun a h => by cases h; exact ha⟩
  | cons k ks ih =>
    intro ans ha
    unfold backupLoop
    simp only [bind_apply, M.get, M.lift]
    obtain ⟨h1, h2, h3⟩ := readSectors_spec g.units (List.range' (d.bpb.resSecs + k * d.bpb.fatSecs) d.bpb.fatSecs)
    cases hr : readSectors (List.range' (d.bpb.resSecs + k * d.bpb.fatSecs) d.bpb.fatSecs) d with
    | mk res d1 =>
      rw [hr] at h1 h2 h3
      simp only [] at h1 h2 h3
      subst h1
      cases res with
      | error e => exact ⟨rfl, fun hh => h2 (by cases hh; rfl), fun a h => by cases h⟩
      | ok bak =>
        simp only []
        have hbak : bak.toArray.size = d1.bpb.fatSecs * 512 := by
          rw [List.size_toArray, h3 bak rfl, List.length_range']
        obtain ⟨w', hw1, hw2⟩ := repairLoop_ok (typ := d1.typ) bak.toArray (firstDataCluster + d1.bpb.clusterCountUsable) hbak
          (List.range' firstDataCluster d1.bpb.clusterCountUsable) ans ha
          (by
            intro n hn
            rw [List.mem_range'_1] at hn
            exact inBuf_of_lt g hn.2)
        rw [hw1]
        exact ih w' hw2

/-- `get_fat_buffer` on a good state: either the buffer (of `fat_secs · 512` bytes; the state gains it and nothing else), or an
error that is not a panic and leaves the state as it was -/
theorem getFat_spec {d : Disk} (g : Good d) :
    (∃ f, getFatBuffer d = (.ok f, { d with fat := some f }) ∧ f.size = d.bpb.fatSecs * 512 ∧ (d.fat = none ∨ d.fat = some f)) ∨
    (∃ e, e ≠ Err.panic ∧ getFatBuffer d = (.error e, d) ∧ d.fat = none) := by
  cases hf : d.fat with
  | some f =>
    left
    refine ⟨f, ?_, g.fat f hf, Or.inr rfl⟩
    unfold getFatBuffer
    rw [hf]
    simp only []
    congr 1
    cases d
    simp_all
  | none =>
    obtain ⟨h1, h2, h3⟩ := readSectors_spec g.units (List.range' d.bpb.resSecs d.bpb.fatSecs)
    unfold getFatBuffer
    rw [hf]
    simp only []
    unfold openFatBuffer
    simp only [bind_apply, M.get, hf]
    cases hr : readSectors (List.range' d.bpb.resSecs d.bpb.fatSecs) d with
    | mk res d1 =>
      rw [hr] at h1 h2 h3
      simp only [] at h1 h2 h3
      subst h1
      cases res with
      | error e =>
        right
        exact ⟨e, fun hh => h2 (by rw [hh]), rfl, trivial⟩
      | ok ans =>
        simp only []
        have ha : ans.toArray.size = d1.bpb.fatSecs * 512 := by
          rw [List.size_toArray, h3 ans rfl, List.length_range']
        obtain ⟨b1, b2, b3⟩ := backupLoop_spec g (List.range' 1 (d1.bpb.nfat - 1)) ans.toArray ha
        cases hb : backupLoop (List.range' 1 (d1.bpb.nfat - 1)) ans.toArray d1 with
        | mk res2 d2 =>
          rw [hb] at b1 b2 b3
          simp only [] at b1 b2 b3
          subst b1
          cases res2 with
          | error e =>
            right
            exact ⟨e, fun hh => b2 (by rw [hh]), rfl, trivial⟩
          | ok a =>
            left
            exact ⟨a, rfl, b3 a rfl, Or.inl trivial⟩

theorem good_ext {d d' : Disk} (g : Good d) (h : Ext d d') : Good d' := by
  cases h with
  | inl h => subst h; exact g
  | inr h =>
    obtain ⟨hn, f, hf⟩ := h
    rcases getFat_spec g with ⟨f0, h0, hs, _⟩ | ⟨e, _, h0, _⟩
    · rw [h0] at hf
      cases hf
      exact ⟨g.ok, g.bps, g.typ, g.t32, g.units, fun f' hf' => by cases hf'; exact hs⟩
    · rw [h0] at hf
      cases hf

theorem Safe.bind {α β : Type} {m : M α} {f : α → M β} {d : Disk} {P : α → Disk → Prop} {Q : β → Disk → Prop}
    (hm : Safe m d P) (hf : ∀ a d', Ext d d' → P a d' → Safe (f a) d' Q) : Safe (m >>= f) d Q := by
  unfold Safe
  rw [bind_apply]
  obtain ⟨h1, h2, h3⟩ := hm
  cases hmd : m d with
  | mk res d' =>
    rw [hmd] at h1 h2 h3
    simp only [] at h1 h2 h3
    cases res with
    | error e => exact ⟨h1, fun hh => h2 (by cases hh; rfl), fun a h => by cases h⟩
    | ok a =>
      obtain ⟨k1, k2, k3⟩ := hf a d' h1 (h3 a rfl)
      exact ⟨h1.trans k1, k2, k3⟩

/-- `get_fat_buffer` as a `Safe` step -/
theorem getFat_safe {d : Disk} (g : Good d) :
    Safe getFatBuffer d (fun f d' => d'.fat = some f ∧ f.size = d.bpb.fatSecs * 512) := by
  unfold Safe
  rcases getFat_spec g with ⟨f, h0, hs, hcase⟩ | ⟨e, he, h0, _⟩
  · rw [h0]
    refine ⟨?_, (by intro hh; cases hh), fun a ha => by cases ha; exact ⟨rfl, hs⟩⟩
    cases hcase with
    | inl hn => exact Or.inr ⟨hn, f, h0⟩
    | inr hsome =>
      left
      show ({ d with fat := some f } : Disk) = d
      cases d
      simp_all
  · rw [h0]
    exact ⟨Ext.refl d, (by intro hh; cases hh; exact he rfl), fun a ha => by cases ha⟩

end A2Verif.C12FsId.Fat
