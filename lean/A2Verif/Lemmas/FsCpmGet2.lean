import A2Verif.Lemmas.FsCpmGet1
import A2Verif.Lemmas.FsCpmPutLoop1
/-!
# `read_file`: the pointer loop and the entry loop in closed form
-/
namespace A2Verif.FsCpm
open A2Verif.Fs.Cpm
open A2Verif.Read.Cpm (Dpb fileKey extNum entryPtrs pathOf slots)

/-! ## `readPtrs` -/

theorem zipIdx_shift {β : Type} (g : Nat → β) : ∀ (ps : List Nat) (n bc : Nat),
    ((ps.zipIdx (bc + n)).filter (fun pj => pj.1 ≠ 0)).map (fun pj => (pj.2, g pj.1)) =
      ((ps.zipIdx n).filter (fun pj => pj.1 ≠ 0)).map (fun pj => (bc + pj.2, g pj.1))
  | [], _, _ => rfl
  | p :: ps, n, bc => by
    rw [List.zipIdx_cons, List.zipIdx_cons]
    have ih := zipIdx_shift g ps (n + 1) bc
    rw [← Nat.add_assoc] at ih
    by_cases c : p ≠ 0
    · rw [List.filter_cons_of_pos (by simpa using c), List.filter_cons_of_pos (by simpa using c), List.map_cons, List.map_cons, ih]
    · rw [List.filter_cons_of_neg (by simpa using c), List.filter_cons_of_neg (by simpa using c), ih]

/-- the pointers of one entry, all inside the volume: every non-zero pointer yields the chunk with the running index -/
theorem readPtrs_spec {d : Dpb} {r : Raw} (hs : Shape d r) : ∀ (ps : List Nat) (bc : Nat) (cs : List (Nat × Bytes)),
    (∀ p ∈ ps, p < d.dsm + 1) →
    readPtrs d r ps bc cs = .ok (bc + ps.length,
      cs ++ ((ps.zipIdx bc).filter (fun pj => pj.1 ≠ 0)).map (fun pj => (pj.2, blkOf r pj.1)))
  | [], bc, cs, _ => by unfold readPtrs; simp
  | p :: ps, bc, cs, h => by
    have hp := h p List.mem_cons_self
    have ih := fun cs' => readPtrs_spec hs ps (bc + 1) cs' (fun q hq => h q (List.mem_cons_of_mem _ hq))
    unfold readPtrs
    rw [if_neg (by unfold userBlocks; omega)]
    by_cases c : p > 0
    · rw [if_pos c]
      have hlt : p < r.units.size := by rw [hs.size]; exact hp
      have hget : r.units[p]? = some r.units[p] := Array.getElem?_eq_getElem hlt
      have hrb : readBlock r p = .ok r.units[p] := by unfold readBlock; rw [hget]
      have hblk : blkOf r p = r.units[p] := by unfold blkOf; rw [hget]; rfl
      have hlen : (r.units[p]).length = blockSize d := hs.len p _ hget
      rw [hrb]
      simp only []
      rw [ih, List.zipIdx_cons, List.filter_cons_of_pos (by simp; omega), List.map_cons, List.take_of_length_le (by omega), hblk]
      simp only [List.length_cons, List.append_assoc, List.singleton_append]
      congr 2
      omega
    · rw [if_neg c, ih, List.zipIdx_cons, List.filter_cons_of_neg (by simp; omega)]
      simp only [List.length_cons]
      congr 2
      omega

/-- with the running index at the first slot of physical extent `x`, the chunks are those the reader assigns to the entry -/
theorem readPtrs_entry {d : Dpb} {r : Raw} (hs : Shape d r) {fx : Bytes} (hl : fx.length = 32) (hok : ptrsOkB d fx = true)
    (cs : List (Nat × Bytes)) :
    readPtrs d r (Ext.blockList d fx) (extNum fx / (d.exm + 1) * slots d) cs =
      .ok (extNum fx / (d.exm + 1) * slots d + slots d, cs ++ chunksE r d fx) := by
  rw [blockList_eq hl, readPtrs_spec hs _ _ _ (by
    intro p hp
    unfold ptrsOkB at hok
    rw [List.all_eq_true] at hok
    simpa using hok p hp), entryPtrs_length]
  unfold chunksE nzPtrs
  have := zipIdx_shift (blkOf r) (entryPtrs d fx) 0 (extNum fx / (d.exm + 1) * slots d)
  rw [Nat.add_zero] at this
  rw [this]

/-! ## `readLoop` -/

/-- the entry at a directory position (empty when outside) -/
def entAt (dir : Dir) (i : Nat) : Bytes := (dir[i]?).getD []

/-- the sequence of data pointers `read_file` walks over: ascending physical extents; for the code as written moreover every
entry but the last is numbered by the last logical extent of its physical extent -/
def GoodSeq (absIdx : Bool) (L : Nat) : List (Nat × Nat) → Prop
  | [] => True
  | [_] => True
  | a :: b :: rest => a.1 / L < b.1 / L ∧ (absIdx = false → a.1 + 1 = (a.1 / L + 1) * L) ∧ GoodSeq absIdx L (b :: rest)

theorem getEof_eq {e : Bytes} (h : Ext.dataPtr e = extNum e) : Ext.getEof e = eofOf e := by
  unfold Ext.getEof eofOf Ext.lastRecords Ext.lastBytes
  simp only []
  rw [h]
  unfold logicalExtentSize recordSize
  by_cases c : e.getD 15 0 = 0
  · rw [if_pos c, if_pos c]; omega
  · rw [if_neg c, if_neg c]
    by_cases c2 : e.getD 15 0 < 128
    · rw [if_pos c2, Nat.min_eq_left (by omega)]
      split <;> omega
    · rw [if_neg c2, Nat.min_eq_right (by omega)]
      split <;> omega

theorem lx_blocks {d : Dpb} (hd : DpbPut d) (n : Nat) : n * (d.exm + 1) * logicalExtentSize / blockSize d = n * slots d := by
  have hm := dpbPut_mul hd
  have hb := hd.1
  have hp := blockSize_pos d
  have : n * (d.exm + 1) * logicalExtentSize = n * slots d * blockSize d := by
    unfold logicalExtentSize
    rw [← hm, ← hb]
    rw [Nat.mul_assoc, Nat.mul_assoc, Nat.mul_assoc]
  rw [this, Nat.mul_div_cancel _ hp]

/-- **the entry loop of `read_file`**: over a sequence of file entries with ascending physical extents (and, for the code as
written, full extents in the middle) it does not fail; the chunks are the reader's chunks of the entries in that order, the
length is `get_eof` of the last entry -/
theorem readLoop_spec {d : Dpb} {r : Raw} {dir : Dir} {fi : FileInfo} {absIdx : Bool} (hs : Shape d r) (hd : DpbPut d) :
    ∀ (l : List (Nat × Nat)) (bc prev : Nat) (g : Got),
      (∀ p ∈ l, ∃ fx, dir[p.2]? = some fx ∧ isExtent fx = true ∧ Ext.dataPtr fx = p.1 ∧ extNum fx = p.1 ∧ fx.length = 32 ∧
        ptrsOkB d fx = true) →
      GoodSeq absIdx (d.exm + 1) l →
      (∀ a ∈ l.head?, prev ≤ a.1 / (d.exm + 1) * (d.exm + 1) ∧ prev ≠ a.1 + 1 ∧
        (absIdx = false → bc + (a.1 / (d.exm + 1) * (d.exm + 1) - prev) * logicalExtentSize / blockSize d = a.1 / (d.exm + 1) * slots d)) →
      ∃ g', readLoop absIdx d r dir fi l bc prev g = .ok g' ∧
        g'.chunks = g.chunks ++ l.flatMap (fun p => chunksE r d (entAt dir p.2)) ∧
        (∀ a ∈ l.getLast?, g'.eof = Ext.getEof (entAt dir a.2) % 4294967296) := by
  intro l
  induction l with
  | nil => intro bc prev g _ _ _; exact ⟨g, by unfold readLoop; rfl, by simp, fun a ha => by cases ha⟩
  | cons a rest ih =>
    intro bc prev g hall hseq hpre
    obtain ⟨dp, i⟩ := a
    obtain ⟨fx, hfx, hx, hdp, hen, hl, hok⟩ := hall (dp, i) List.mem_cons_self
    simp only [] at hfx hdp hen
    obtain ⟨p1, p2, p3⟩ := hpre (dp, i) (by simp)
    simp only [] at p1 p2 p3
    have hent : entAt dir i = fx := by unfold entAt; rw [hfx]; rfl
    have hL : 0 < d.exm + 1 := Nat.succ_pos _
    -- the running index at this entry
    have hbc1 : (if absIdx = true then (dp + 1 - 1) / (d.exm + 1) * (d.exm + 1) * logicalExtentSize / blockSize d
        else bc + ((dp + 1 - 1) / (d.exm + 1) * (d.exm + 1) - prev) * logicalExtentSize / blockSize d) = extNum fx / (d.exm + 1) * slots d := by
      rw [Nat.add_sub_cancel, hen]
      cases absIdx with
      | true => simp only [↓reduceIte]; exact lx_blocks hd _
      | false => simp only [Bool.false_eq_true, ↓reduceIte]; exact p3 rfl
    unfold readLoop
    rw [hfx]
    simp only [hx, Bool.not_true, Bool.false_eq_true, ↓reduceIte, hdp]
    rw [if_neg (fun e => p2 e.symm), if_neg (by rw [Nat.add_sub_cancel]; omega), hbc1, readPtrs_entry hs hl hok]
    simp only []
    -- the rest
    have hrest : ∀ p ∈ rest, ∃ fx, dir[p.2]? = some fx ∧ isExtent fx = true ∧ Ext.dataPtr fx = p.1 ∧ extNum fx = p.1 ∧ fx.length = 32 ∧
        ptrsOkB d fx = true := fun p hp => hall p (List.mem_cons_of_mem _ hp)
    cases rest with
    | nil =>
      refine ⟨_, by unfold readLoop; rfl, by simp [hent], fun a ha => ?_⟩
      simp only [List.getLast?_singleton, Option.mem_def, Option.some.injEq] at ha
      subst ha
      simp only [hent]
    | cons b rest' =>
      obtain ⟨q1, q2, q3⟩ := hseq
      simp only [] at q1 q2
      have hstep := ih (extNum fx / (d.exm + 1) * slots d + slots d) (dp + 1)
        { g with fsType := (Ext.nameAndFlags fx).drop 8, access := Ext.nameAndFlags fx, eof := Ext.getEof fx % 4294967296,
                 created := (match fi.createTime with
                   | some t => t
                   | none => match fi.accessTime with
                     | some t => t
                     | none => g.created),
                 modified := (match fi.updateTime with
                   | some t => t
                   | none => g.modified),
                 chunks := g.chunks ++ chunksE r d fx } hrest q3 (by
          intro a ha
          simp only [List.head?_cons, Option.mem_def, Option.some.injEq] at ha
          subst ha
          have hdiv : dp / (d.exm + 1) + 1 ≤ b.1 / (d.exm + 1) := q1
          have hle : dp + 1 ≤ (dp / (d.exm + 1) + 1) * (d.exm + 1) := by
            have := Nat.div_add_mod dp (d.exm + 1)
            have := Nat.mod_lt dp hL
            rw [Nat.add_mul, Nat.one_mul, Nat.mul_comm]
            omega
          have hmono : (dp / (d.exm + 1) + 1) * (d.exm + 1) ≤ b.1 / (d.exm + 1) * (d.exm + 1) := Nat.mul_le_mul_right _ hdiv
          have hb1 : b.1 / (d.exm + 1) * (d.exm + 1) ≤ b.1 := Nat.div_mul_le_self _ _
          refine ⟨by omega, by omega, fun hab => ?_⟩
          rw [hen, q2 hab]
          have e1 : b.1 / (d.exm + 1) * (d.exm + 1) - (dp / (d.exm + 1) + 1) * (d.exm + 1) =
              (b.1 / (d.exm + 1) - (dp / (d.exm + 1) + 1)) * (d.exm + 1) := by rw [Nat.sub_mul]
          rw [e1, lx_blocks hd, Nat.sub_mul]
          have : (dp / (d.exm + 1) + 1) * slots d ≤ b.1 / (d.exm + 1) * slots d := Nat.mul_le_mul_right _ hdiv
          rw [Nat.add_mul, Nat.one_mul] at this ⊢
          omega)
      obtain ⟨g', e1, e2, e3⟩ := hstep
      refine ⟨g', e1, ?_, ?_⟩
      · rw [e2]
        simp only [List.flatMap_cons, List.append_assoc, hent]
      · intro a ha
        apply e3 a
        simpa using ha

end A2Verif.FsCpm
