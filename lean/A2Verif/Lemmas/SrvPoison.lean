import A2Verif.Lemmas.SrvInv
/-!
The shared mutex: who can hold it, and what a poisoned mutex means for publications.
-/
namespace A2Verif.Srv

variable (an : Nat → Text → Option Diags)

theorem ids_unique {q : List Job} (hs : (q.map (·.id)).Pairwise (· < ·)) {a b : Job}
    (ha : a ∈ q) (hb : b ∈ q) (hid : a.id = b.id) : a = b := by
  induction q with
  | nil => cases ha
  | cons x q ih =>
    rw [List.map_cons, List.pairwise_cons] at hs
    rcases List.mem_cons.mp ha with ha1 | ha1
    · rcases List.mem_cons.mp hb with hb1 | hb1
      · rw [ha1, hb1]
      · have := hs.1 b.id (List.mem_map.mpr ⟨b, hb1, rfl⟩)
        rw [ha1] at hid
        omega
    · rcases List.mem_cons.mp hb with hb1 | hb1
      · have := hs.1 a.id (List.mem_map.mpr ⟨a, ha1, rfl⟩)
        rw [hb1] at hid
        omega
      · exact ih hs.2 ha1 hb1

/-- a shared-analyzer job that is analysing is the owner of the mutex -/
structure LockInv (s : State) : Prop where
  ids : IdsOk s
  owner : ∀ j ∈ s.queue, j.priv = false → j.st = .holding → s.lock = .held j.id

theorem LockInv.init : LockInv init := { ids := IdsOk.init, owner := by simp [Srv.init] }

theorem LockInv.step {s s' : State} {e : Event} (hi : LockInv s) (hs : step an s e = some s') :
    LockInv s' := by
  refine ⟨IdsOk.step an hi.ids hs, ?_⟩
  have hown := hi.owner
  cases step_trans an hs with
  | ext new h _ _ =>
    intro j hj hp hst
    rw [h.queue] at hj
    rw [h.lock]
    rcases List.mem_append.mp hj with hj | hj
    · exact hown j hj hp hst
    · have := (h.fresh j hj).1
      rw [this] at hst
      cases hst
  | acq id j he hj hst hu hl' =>
    have ⟨hjm, hjid⟩ := findJob_some hj
    intro j' hj' hp' hst'
    rw [hu.queue] at hj'
    obtain ⟨j0, hj0, hid0, _, hp0, hcase⟩ := mem_updSt hj'
    rcases hl' with ⟨hpriv, hlk⟩ | ⟨hpriv, hfree, hlk⟩
    · rcases hcase with ⟨h1, _⟩ | ⟨_, h2⟩
      · have : j0 = j := ids_unique hi.ids.sorted hj0 hjm (h1.trans hjid.symm)
        rw [hp0, this, hpriv] at hp'
        cases hp'
      · rw [hlk, hid0]
        exact hown j0 hj0 (hp0 ▸ hp') (h2 ▸ hst')
    · rcases hcase with ⟨h1, _⟩ | ⟨_, h2⟩
      · rw [hlk, hid0, h1]
      · have := hown j0 hj0 (hp0 ▸ hp') (h2 ▸ hst')
        rw [hfree] at this
        cases this
  | acqPoisoned id j he hj hst hp hu hl' =>
    intro j' hj' hp' hst'
    rw [hu.queue] at hj'
    obtain ⟨j0, hj0, hid0, _, hp0, hcase⟩ := mem_updSt hj'
    rcases hcase with ⟨_, h2⟩ | ⟨_, h2⟩
    · rw [h2] at hst'; cases hst'
    · have := hown j0 hj0 (hp0 ▸ hp') (h2 ▸ hst')
      rw [hl'.1] at this
      cases this
  | fin id j he hj hst hu hl' =>
    have ⟨hjm, hjid⟩ := findJob_some hj
    intro j' hj' hp' hst'
    rw [hu.queue] at hj'
    obtain ⟨j0, hj0, hid0, _, hp0, hcase⟩ := mem_updSt hj'
    rcases hcase with ⟨_, h2⟩ | ⟨hne, h2⟩
    · rw [h2] at hst'; cases hst'
    · have h0 := hown j0 hj0 (hp0 ▸ hp') (h2 ▸ hst')
      rcases hl' with ⟨_, hlk⟩ | ⟨hpriv, _⟩
      · rw [hlk, hid0]; exact h0
      · have h1 := hown j hjm hpriv hst
        rw [h0] at h1
        simp only [Lock.held.injEq] at h1
        exact absurd (h1.trans hjid) hne
  | die id j he hj hst hu hl' =>
    have ⟨hjm, hjid⟩ := findJob_some hj
    intro j' hj' hp' hst'
    rw [hu.queue] at hj'
    obtain ⟨j0, hj0, hid0, _, hp0, hcase⟩ := mem_updSt hj'
    rcases hcase with ⟨_, h2⟩ | ⟨hne, h2⟩
    · rw [h2] at hst'; cases hst'
    · have h0 := hown j0 hj0 (hp0 ▸ hp') (h2 ▸ hst')
      rcases hl' with ⟨_, hlk⟩ | ⟨hpriv, _⟩
      · rw [hlk, hid0]; exact h0
      · have h1 := hown j hjm hpriv hst
        rw [h0] at h1
        simp only [Lock.held.injEq] at h1
        exact absurd (h1.trans hjid) hne
  | harvest j he h =>
    intro j' hj' hp' hst'
    rw [h.lock]
    exact hown j' (by rw [h.queue]; exact List.mem_cons_of_mem _ hj') hp' hst'

theorem LockInv.run {s s' : State} {evs : List Event} (hi : LockInv s) (hr : run an s evs = some s') :
    LockInv s' :=
  run_induct an (ok := fun _ => True) (fun _ _ _ _ h hs => LockInv.step an h hs) (fun _ _ => trivial) hi hr

/-- poisoned is absorbing (one step) -/
theorem poisoned_step {s s' : State} {e : Event} (hi : LockInv s) (hp : s.lock = .poisoned)
    (hs : step an s e = some s') : s'.lock = .poisoned := by
  cases step_trans an hs with
  | ext new h _ _ => rw [h.lock]; exact hp
  | acq id j he hj hst hu hl' =>
    rcases hl' with ⟨_, hlk⟩ | ⟨_, hfree, _⟩
    · rw [hlk]; exact hp
    · rw [hp] at hfree; cases hfree
  | acqPoisoned id j he hj hst hp' hu hl' => exact hl'.2
  | fin id j he hj hst hu hl' =>
    rcases hl' with ⟨_, hlk⟩ | ⟨hpriv, _⟩
    · rw [hlk]; exact hp
    · have := hi.owner j (findJob_some hj).1 hpriv hst
      rw [hp] at this; cases this
  | die id j he hj hst hu hl' =>
    rcases hl' with ⟨_, hlk⟩ | ⟨_, hlk⟩
    · rw [hlk]; exact hp
    · exact hlk
  | harvest j he h => rw [h.lock]; exact hp

def notConfig : Event → Prop
  | .config _ _ _ => False
  | _ => True

instance : DecidablePred notConfig := fun e => by
  cases e <;> simp only [notConfig] <;> infer_instance

/-- After poisoning, the only things that can still be published are results that were already
computed (`done (some _)`) or that come from private-analyzer jobs existing at that moment: `R`. -/
structure Mute (P0 : List Pub) (R : List Nat) (s : State) : Prop where
  inv : LockInv s
  lock : s.lock = .poisoned
  pubs : ∀ p ∈ s.published, p ∈ P0 ∨ p.id ∈ R
  cand : ∀ j ∈ s.queue, (j.priv = true ∨ ∃ d, j.st = .done (some d)) → j.id ∈ R

theorem Mute.step {P0 : List Pub} {R : List Nat} {s s' : State} {e : Event} (hnc : notConfig e)
    (hi : Mute P0 R s) (hs : step an s e = some s') : Mute P0 R s' := by
  refine ⟨LockInv.step an hi.inv hs, poisoned_step an hi.inv hi.lock hs, ?_, ?_⟩
  · cases step_trans an hs with
    | ext new h _ _ => rw [h.published]; exact hi.pubs
    | acq id j he hj hst hu hl' => rw [hu.published]; exact hi.pubs
    | acqPoisoned id j he hj hst hp' hu hl' => rw [hu.published]; exact hi.pubs
    | fin id j he hj hst hu hl' => rw [hu.published]; exact hi.pubs
    | die id j he hj hst hu hl' => rw [hu.published]; exact hi.pubs
    | harvest j he h =>
      rw [h.published]
      intro p hp
      rcases List.mem_append.mp hp with hp | hp
      · exact hi.pubs p hp
      · right
        unfold pubsOf at hp
        split at hp
        · rename_i d hst
          simp only [List.mem_singleton] at hp
          subst hp
          exact hi.cand j (by rw [h.queue]; simp) (.inr ⟨d, hst⟩)
        · cases hp
  · have upd : ∀ id (j : Job) f, findJob s.queue id = some j → Upd s s' id f →
        (j.priv = true ∨ ∀ d, f j ≠ .done (some d)) →
        ∀ j' ∈ s'.queue, (j'.priv = true ∨ ∃ d, j'.st = .done (some d)) → j'.id ∈ R := by
      intro id j f hj hu hf j' hj' hc
      have ⟨hjm, hjid⟩ := findJob_some hj
      rw [hu.queue] at hj'
      obtain ⟨j0, hj0, hid0, _, hp0, hcase⟩ := mem_updSt hj'
      rw [hid0]
      rcases hcase with ⟨h1, h2⟩ | ⟨_, h2⟩
      · have hjj : j0 = j := ids_unique hi.inv.ids.sorted hj0 hjm (h1.trans hjid.symm)
        rcases hf with hf | hf
        · exact hi.cand j0 hj0 (.inl (hjj ▸ hf))
        · rcases hc with hc | ⟨d, hc⟩
          · exact hi.cand j0 hj0 (.inl (hp0 ▸ hc))
          · rw [h2, hjj] at hc
            exact absurd hc (hf d)
      · exact hi.cand j0 hj0 (by rw [← hp0, ← h2]; exact hc)
    cases step_trans an hs with
    | ext new h _ hpriv =>
      intro j hj hc
      rw [h.queue] at hj
      rcases List.mem_append.mp hj with hj | hj
      · exact hi.cand j hj hc
      · have hnp := hpriv (by intro c l o h; subst h; exact hnc) j hj
        have hsp := (h.fresh j hj).1
        rcases hc with hc | ⟨d, hc⟩
        · rw [hnp] at hc; cases hc
        · rw [hsp] at hc; cases hc
    | acq id j he hj hst hu hl' => exact upd id j _ hj hu (.inr (by intro d h; cases h))
    | acqPoisoned id j he hj hst hp' hu hl' => exact upd id j _ hj hu (.inr (by intro d h; cases h))
    | fin id j he hj hst hu hl' =>
      refine upd id j _ hj hu (.inl ?_)
      rcases hl' with ⟨hpriv, _⟩ | ⟨hpriv, _⟩
      · exact hpriv
      · have := hi.inv.owner j (findJob_some hj).1 hpriv hst
        rw [hi.lock] at this; cases this
    | die id j he hj hst hu hl' => exact upd id j _ hj hu (.inr (by intro d h; cases h))
    | harvest j he h =>
      intro j' hj' hc
      exact hi.cand j' (by rw [h.queue]; exact List.mem_cons_of_mem _ hj') hc

end A2Verif.Srv
