import A2Verif.Lemmas.SrvInv
/-!
The last job launched for a document is the last text/version the client sent for it.
-/
namespace A2Verif.Srv

variable (an : Nat → Text → Option Diags)

/-- document of the last job launched for `u` -/
def lastLaunched (l : List (Nat × Doc)) (u : Uri) : Option Doc :=
  ((l.filter (fun jd => jd.2.uri = u)).getLast?).map (·.2)

/-- specification side: the last `didOpen`/`didChange` per document -/
def sent (L : Uri → Option Doc) : Event → Uri → Option Doc
  | .opn u v t => fun x => if x = u then some { uri := u, ver := some v, text := t } else L x
  | .chg u v t => fun x => if x = u then some { uri := u, ver := some v, text := t } else L x
  | _ => L

def lastSent (evs : List Event) : Uri → Option Doc := evs.foldl sent (fun _ => none)

/-- histories of the property: open/change/close, configuration answers that leave live diagnostics
on (the default), no `didSave` re-analysis (Merlin only; it launches with version `None`) -/
def plain : Event → Prop
  | .save _ _ => False
  | .config _ live _ => live = true
  | _ => True

instance : DecidablePred plain := fun e => by
  cases e <;> simp only [plain] <;> infer_instance

theorem lastLaunched_append (l : List (Nat × Doc)) (i : Nat) (d : Doc) (x : Uri) :
    lastLaunched (l ++ [(i, d)]) x = if d.uri = x then some d else lastLaunched l x := by
  unfold lastLaunched
  rw [List.filter_append]
  by_cases h : d.uri = x
  · simp [List.filter, h]
  · simp [List.filter, h]

theorem lookup_insert (docs : List (Uri × Doc)) (u : Uri) (d : Doc) (x : Uri) :
    lookup (insert docs u d) x = if x = u then some d else lookup docs x := by
  have herase : ∀ docs : List (Uri × Doc), x ≠ u → lookup (erase docs u) x = lookup docs x := by
    intro docs hx
    induction docs with
    | nil => rfl
    | cons kd rest ih =>
      obtain ⟨k, d'⟩ := kd
      by_cases hk : k = u
      · subst hk
        have : lookup ((k, d') :: rest) x = lookup rest x := by
          simp only [lookup]
          rw [if_neg (fun h => hx h.symm)]
        rw [this, ← ih]
        simp [erase, List.filter]
      · have : erase ((k, d') :: rest) u = (k, d') :: erase rest u := by
          simp [erase, List.filter, hk]
        rw [this]
        simp only [lookup]
        rw [ih]
  by_cases hx : x = u
  · subst hx
    simp [insert, lookup]
  · simp only [insert, lookup, hx, if_false]
    rw [if_neg (fun h => hx h.symm)]
    exact herase docs hx

theorem lookup_erase_some {docs : List (Uri × Doc)} {u x : Uri} {d : Doc}
    (h : lookup (erase docs u) x = some d) : lookup docs x = some d ∧ x ≠ u := by
  induction docs with
  | nil => simp [erase, lookup] at h
  | cons kd rest ih =>
    obtain ⟨k, d'⟩ := kd
    by_cases hk : k = u
    · subst hk
      have he : erase ((k, d') :: rest) k = erase rest k := by simp [erase, List.filter]
      rw [he] at h
      have := ih h
      refine ⟨?_, this.2⟩
      simp only [lookup]
      rw [if_neg (fun h' => this.2 h'.symm)]
      exact this.1
    · have he : erase ((k, d') :: rest) u = (k, d') :: erase rest u := by
        simp [erase, List.filter, hk]
      rw [he] at h
      simp only [lookup] at h ⊢
      by_cases hkx : k = x
      · simp only [hkx, if_true] at h ⊢
        exact ⟨h, fun hxu => hk (hkx.trans hxu)⟩
      · simp only [hkx, if_false] at h ⊢
        exact ih h

structure SentInv (L : Uri → Option Doc) (s : State) : Prop where
  live : s.live = true
  last : ∀ u, lastLaunched s.launched u = L u
  chk : ∀ u d, lookup s.docs u = some d → L u = some d
  uri : ∀ u d, L u = some d → d.uri = u

theorem SentInv.init : SentInv (fun _ => none) init :=
  { live := rfl, last := by intro u; simp [Srv.init, lastLaunched], chk := by simp [Srv.init, lookup],
    uri := by simp }

theorem SentInv.relaunch {L : Uri → Option Doc} (order : List Uri) :
    ∀ s : State, SentInv L s → SentInv L (relaunch s order) := by
  induction order with
  | nil => intro s h; exact h
  | cons u rest ih =>
    intro s h
    simp only [Srv.relaunch]
    split
    · rename_i d hd
      apply ih
      have hL := h.chk u d hd
      have hu := h.uri u d hL
      refine ⟨h.live, ?_, h.chk, h.uri⟩
      intro x
      simp only [launch]
      rw [lastLaunched_append]
      by_cases hx : d.uri = x
      · simp only [hx, if_true]
        rw [← hx, hu]
        exact hL.symm
      · simp only [hx, if_false]
        exact h.last x
    · exact ih s h

theorem SentInv.step {L : Uri → Option Doc} {s s' : State} {e : Event} (hp : plain e)
    (hi : SentInv L s) (hs : Srv.step an s e = some s') : SentInv (sent L e) s' := by
  have frame : s'.launched = s.launched → s'.docs = s.docs → s'.live = s.live → SentInv L s' := by
    intro h1 h2 h3
    exact ⟨by rw [h3]; exact hi.live, by rw [h1]; exact hi.last, by rw [h2]; exact hi.chk, hi.uri⟩
  have newdoc : ∀ (u : Uri) (v : Nat) (t : Text) (docs' : List (Uri × Doc)) (lv : Bool), lv = true →
      (∀ x d, lookup docs' x = some d → (x = u ∧ d = { uri := u, ver := some v, text := t }) ∨ (x ≠ u ∧ lookup s.docs x = some d)) →
      SentInv (fun x => if x = u then some { uri := u, ver := some v, text := t } else L x)
        (launch { s with docs := docs', live := lv } { uri := u, ver := some v, text := t } false) := by
    intro u v t docs' lv hlv hdocs
    refine ⟨hlv, ?_, ?_, ?_⟩
    · intro x
      simp only [launch]
      rw [lastLaunched_append]
      by_cases hx : x = u
      · simp [hx]
      · have : ¬ u = x := fun h => hx h.symm
        simp only [this, hx, if_false]
        exact hi.last x
    · intro x d hd
      rcases hdocs x d hd with ⟨h1, h2⟩ | ⟨h1, h2⟩
      · simp [h1, h2]
      · simp only [h1, if_false]
        exact hi.chk x d h2
    · intro x d hd
      by_cases hx : x = u
      · simp only [hx, if_true, Option.some.injEq] at hd
        rw [← hd, hx]
      · simp only [hx, if_false] at hd
        exact hi.uri x d hd
  cases e with
  | opn u v t =>
    simp only [Srv.step, Option.some.injEq] at hs
    subst hs
    apply newdoc _ _ _ _ _ hi.live
    intro x d hd
    rw [lookup_insert] at hd
    by_cases hx : x = u
    · simp only [hx, if_true, Option.some.injEq] at hd
      exact .inl ⟨hx, hd.symm⟩
    · simp only [hx, if_false] at hd
      exact .inr ⟨hx, hd⟩
  | chg u v t =>
    simp only [Srv.step, hi.live, if_true, Option.some.injEq] at hs
    subst hs
    split
    · apply newdoc _ _ _ _ _ rfl
      intro x d hd
      rw [lookup_insert] at hd
      by_cases hx : x = u
      · simp only [hx, if_true, Option.some.injEq] at hd
        exact .inl ⟨hx, hd.symm⟩
      · simp only [hx, if_false] at hd
        exact .inr ⟨hx, hd⟩
    · rename_i hnone
      show SentInv _ (launch { s with docs := s.docs, live := s.live } _ false)
      apply newdoc _ _ _ _ _ hi.live
      intro x d hd
      by_cases hx : x = u
      · rw [hx, hnone] at hd; cases hd
      · exact .inr ⟨hx, hd⟩
  | save u t => exact absurd hp (by simp [plain])
  | close u =>
    simp only [Srv.step, Option.some.injEq] at hs
    subst hs
    refine ⟨hi.live, hi.last, ?_, hi.uri⟩
    intro x d hd
    exact hi.chk x d (lookup_erase_some hd).1
  | configLock c =>
    apply frame <;>
    · simp only [Srv.step] at hs
      repeat' (split at hs)
      all_goals first | (simp at hs; done) | (cases hs; rfl)
  | config c live order =>
    simp only [plain] at hp
    subst hp
    simp only [Srv.step] at hs
    split at hs
    · simp only [Option.some.injEq] at hs
      subst hs
      apply SentInv.relaunch
      exact ⟨rfl, hi.last, hi.chk, hi.uri⟩
    · simp at hs
  | acquire id =>
    apply frame <;>
    · simp only [Srv.step] at hs
      repeat' (split at hs)
      all_goals first | (simp at hs; done) | (cases hs; rfl)
  | finish id =>
    apply frame <;>
    · simp only [Srv.step] at hs
      repeat' (split at hs)
      all_goals first | (simp at hs; done) | (cases hs; rfl)
  | die id =>
    apply frame <;>
    · simp only [Srv.step] at hs
      repeat' (split at hs)
      all_goals first | (simp at hs; done) | (cases hs; rfl)
  | tick =>
    apply frame <;>
    · simp only [Srv.step] at hs
      repeat' (split at hs)
      all_goals first | (simp at hs; done) | (cases hs; rfl)
  | request =>
    simp only [Srv.step, Option.some.injEq] at hs
    subst hs
    exact frame rfl rfl rfl

theorem SentInv.run {evs : List Event} : ∀ {L : Uri → Option Doc} {s s' : State},
    (∀ e ∈ evs, plain e) → SentInv L s → Srv.run an s evs = some s' → SentInv (evs.foldl sent L) s' := by
  induction evs with
  | nil => intro L s s' _ hi hr; simp [Srv.run] at hr; subst hr; exact hi
  | cons e evs ih =>
    intro L s s' hp hi hr
    simp only [Srv.run] at hr
    cases hs : Srv.step an s e with
    | none => simp [hs] at hr
    | some s1 =>
      simp only [hs] at hr
      simp only [List.foldl_cons]
      exact ih (fun e' he' => hp e' (List.mem_cons_of_mem _ he')) (SentInv.step an (hp e (by simp)) hi hs) hr

end A2Verif.Srv
