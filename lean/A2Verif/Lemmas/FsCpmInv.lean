import A2Verif.Lemmas.FsCpmImg
import A2Verif.Lemmas.FsCpmFile
import A2Verif.Lemmas.FsCpmList
/-!
# The reading of a CP/M image in closed form, and the on-disk invariant

`volOf d r` is what the independent reader yields on an image of the right shape whose file entries pass the
reader's two checks (`GoodKeys`); `read_iff` says so.  `Inv` adds the structural conditions under which that
reading is well-formed.
-/
namespace A2Verif.FsCpm
open A2Verif.Read.Cpm (Dpb fileKey extNum entryPtrs slots pathOf trimR)

/-- the file entries of the stored directory -/
def fents (d : Dpb) (r : Raw) : List Bytes := fentsOf (dirOf d r)
/-- the entries of the file with key `k` -/
def esOf (d : Dpb) (r : Raw) (k : List Nat) : List Bytes := (fents d r).filter (fun e => fileKey e == k)
def keys (d : Dpb) (r : Raw) : List (List Nat) := keysOf (fents d r)
def filesOf (d : Dpb) (r : Raw) : List FileRec := (keys d r).map (fun k => recOf r d (dirOf d r) (esOf d r k))
/-- the reading of the image -/
def volOf (d : Dpb) (r : Raw) : Vol := mkVol d (filesOf d r)

/-- the reader's two per-file checks: no two entries of a file describe the same extent, every pointer is a block of the volume -/
def GoodKeys (d : Dpb) (r : Raw) : Prop :=
  ∀ k ∈ keys d r, dupFree d (esOf d r k) ∧ (esOf d r k).all (ptrsOkB d) = true

theorem fileOf_esOf {d : Dpb} {r : Raw} (hs : Shape d r) (k : List Nat) :
    fileOf r d (dirOf d r) (fentsOf (dirOf d r)) k =
      if ¬ dupFree d (esOf d r k) then .error "duplicate-extent-number"
      else if (esOf d r k).all (ptrsOkB d) then .ok (recOf r d (dirOf d r) (esOf d r k))
      else .error "block-pointer-out-of-range" := fileOf_closed hs.size _ _ k

theorem fileOf_good {d : Dpb} {r : Raw} (hs : Shape d r) {k : List Nat}
    (h : dupFree d (esOf d r k) ∧ (esOf d r k).all (ptrsOkB d) = true) :
    fileOf r d (dirOf d r) (fentsOf (dirOf d r)) k = .ok (recOf r d (dirOf d r) (esOf d r k)) := by
  rw [fileOf_esOf hs, if_neg (fun c => c h.1), if_pos h.2]

theorem fileOf_ok_good {d : Dpb} {r : Raw} (hs : Shape d r) {k : List Nat} {y : FileRec}
    (h : fileOf r d (dirOf d r) (fentsOf (dirOf d r)) k = .ok y) :
    dupFree d (esOf d r k) ∧ (esOf d r k).all (ptrsOkB d) = true := by
  rw [fileOf_esOf hs] at h
  by_cases c : dupFree d (esOf d r k)
  · refine ⟨c, ?_⟩
    rw [if_neg (fun c' => c' c)] at h
    by_cases c2 : (esOf d r k).all (ptrsOkB d) = true
    · exact c2
    · rw [if_neg c2] at h; cases h
  · rw [if_pos c] at h; cases h

theorem read_iff {d : Dpb} {r : Raw} (hs : Shape d r) (ho : DpbOk d) {v : Vol} :
    Read.Cpm.read r d = .ok v ↔ GoodKeys d r ∧ v = volOf d r := by
  rw [read_of_shape hs ho]
  constructor
  · intro h
    cases hm : (keysOf (fentsOf (dirOf d r))).mapM (fileOf r d (dirOf d r) (fentsOf (dirOf d r))) with
    | error e => rw [hm] at h; cases h
    | ok files =>
      rw [hm] at h
      have hall := mapM_ok_all hm
      have hg : GoodKeys d r := by
        intro k hk
        obtain ⟨y, hy⟩ := hall k hk
        exact fileOf_ok_good hs hy
      refine ⟨hg, ?_⟩
      have hm2 : (keysOf (fentsOf (dirOf d r))).mapM (fileOf r d (dirOf d r) (fentsOf (dirOf d r))) = .ok (filesOf d r) :=
        mapM_ok_of (fun k hk => fileOf_good hs (hg k hk))
      rw [hm] at hm2
      cases hm2
      exact (Except.ok.inj h).symm
  · rintro ⟨hg, rfl⟩
    have hm2 : (keysOf (fentsOf (dirOf d r))).mapM (fileOf r d (dirOf d r) (fentsOf (dirOf d r))) = .ok (filesOf d r) :=
      mapM_ok_of (fun k hk => fileOf_good hs (hg k hk))
    rw [hm2]
    rfl

/-! ## clean names: the reader's path determines the key -/

/-- a character a2kit stores in a name: valid, not lower case -/
def okChar (c : Nat) : Bool := Fs.Cpm.charOk c && !(decide (97 ≤ c) && decide (c ≤ 122))

/-- a 7-bit name field: stored characters followed by blanks only -/
def cleanField (f : Bytes) : Bool := (trimR f).all okChar && f == trimR f ++ List.replicate (f.length - (trimR f).length) 32

def name7 (e : Bytes) : Bytes := (slice e 1 8).map (· % 128)
def typ7 (e : Bytes) : Bytes := (slice e 9 3).map (· % 128)

/-- a file entry as a2kit writes it: clean name and type, extent counters within their bit fields -/
structure CleanEntry (e : Bytes) : Prop where
  name : cleanField (name7 e) = true
  typ : cleanField (typ7 e) = true
  ex : e.getD 12 0 < 32
  s2 : e.getD 14 0 < 64
  /-- the byte carrying the read-only flag is a byte -/
  b9 : e.getD 9 0 < 256

theorem split_unique (c : Nat) : ∀ {a a' b b' : Bytes}, c ∉ a → c ∉ a' → a ++ [c] ++ b = a' ++ [c] ++ b' → a = a' ∧ b = b'
  | [], [], _, _, _, _, h => by simpa using h
  | [], y :: a', _, _, _, h2, h => by
    simp only [List.nil_append, List.cons_append, List.cons.injEq] at h
    exact absurd (h.1 ▸ List.mem_cons_self) h2
  | x :: a, [], _, _, h1, _, h => by
    simp only [List.nil_append, List.cons_append, List.cons.injEq] at h
    exact absurd (h.1 ▸ List.mem_cons_self) h1
  | x :: a, y :: a', b, b', h1, h2, h => by
    simp only [List.cons_append, List.cons.injEq] at h
    obtain ⟨e1, e2⟩ := split_unique c (fun m => h1 (List.mem_cons_of_mem _ m)) (fun m => h2 (List.mem_cons_of_mem _ m))
      (by simpa using h.2)
    exact ⟨by rw [h.1, e1], e2⟩

theorem okChar_ne {c : Nat} (h : okChar c = true) : c ≠ 46 ∧ c ≠ 58 ∧ c ≠ 32 := by
  refine ⟨?_, ?_, ?_⟩ <;> (rintro rfl; revert h; decide)

theorem clean_trim_not_mem {f : Bytes} (h : cleanField f = true) : 46 ∉ trimR f ∧ 58 ∉ trimR f := by
  unfold cleanField at h
  rw [Bool.and_eq_true, List.all_eq_true] at h
  exact ⟨fun m => (okChar_ne (h.1 _ m)).1 rfl, fun m => (okChar_ne (h.1 _ m)).2.1 rfl⟩

theorem clean_eq {f : Bytes} (h : cleanField f = true) : f = trimR f ++ List.replicate (f.length - (trimR f).length) 32 := by
  unfold cleanField at h
  rw [Bool.and_eq_true] at h
  simpa using h.2

/-- two clean fields of the same length with the same trimmed text are equal -/
theorem clean_inj {f g : Bytes} (hf : cleanField f = true) (hg : cleanField g = true) (hl : f.length = g.length)
    (ht : trimR f = trimR g) : f = g := by
  rw [clean_eq hf, clean_eq hg, ht, hl]

theorem slice_add (b : Bytes) (off m n : Nat) : slice b off (m + n) = slice b off m ++ slice b (off + m) n := by
  unfold slice
  rw [List.take_add, List.drop_drop]

theorem key_split (e : Bytes) : fileKey e = e.getD 0 0 :: (name7 e ++ typ7 e) := by
  unfold Read.Cpm.fileKey name7 typ7
  rw [show (11 : Nat) = 8 + 3 from rfl, slice_add, List.map_append]

theorem toStr_eq : ∀ u : Fin 16, (toString u.val).toList.map (·.toNat) = Fs.Cpm.decDigits u.val := by decide

theorem decDigits_inj : ∀ u v : Fin 16, Fs.Cpm.decDigits u.val = Fs.Cpm.decDigits v.val → u = v := by decide
theorem decDigits_no58 : ∀ u : Fin 16, 58 ∉ Fs.Cpm.decDigits u.val := by decide

/-- the path the reader shows, in terms of the trimmed fields -/
theorem pathOf_eq {e : Bytes} (hu : e.getD 0 0 < 16) :
    pathOf e = if e.getD 0 0 = 0 then trimR (name7 e) ++ [46] ++ trimR (typ7 e)
      else Fs.Cpm.decDigits (e.getD 0 0) ++ [58] ++ (trimR (name7 e) ++ [46] ++ trimR (typ7 e)) := by
  unfold Read.Cpm.pathOf
  simp only []
  have := toStr_eq ⟨e.getD 0 0, hu⟩
  simp only at this
  rw [this]
  rfl

theorem pathOf_inj {e1 e2 : Bytes} (h1 : e1.getD 0 0 < 16) (h2 : e2.getD 0 0 < 16) (l1 : e1.length = 32) (l2 : e2.length = 32)
    (c1 : CleanEntry e1) (c2 : CleanEntry e2) (hp : pathOf e1 = pathOf e2) : fileKey e1 = fileKey e2 := by
  rw [pathOf_eq h1, pathOf_eq h2] at hp
  obtain ⟨n1a, n1b⟩ := clean_trim_not_mem c1.name
  obtain ⟨t1a, t1b⟩ := clean_trim_not_mem c1.typ
  obtain ⟨n2a, n2b⟩ := clean_trim_not_mem c2.name
  obtain ⟨t2a, t2b⟩ := clean_trim_not_mem c2.typ
  have hno1 : 58 ∉ trimR (name7 e1) ++ [46] ++ trimR (typ7 e1) := by
    simp only [List.mem_append, List.mem_singleton, not_or]; exact ⟨⟨n1b, by decide⟩, t1b⟩
  have hno2 : 58 ∉ trimR (name7 e2) ++ [46] ++ trimR (typ7 e2) := by
    simp only [List.mem_append, List.mem_singleton, not_or]; exact ⟨⟨n2b, by decide⟩, t2b⟩
  have hlen : ∀ e : Bytes, e.length = 32 → (name7 e).length = 8 ∧ (typ7 e).length = 3 := by
    intro e he
    unfold name7 typ7
    rw [List.length_map, List.length_map, slice_length (by omega), slice_length (by omega)]
    exact ⟨rfl, rfl⟩
  have finish : e1.getD 0 0 = e2.getD 0 0 → trimR (name7 e1) ++ [46] ++ trimR (typ7 e1) = trimR (name7 e2) ++ [46] ++ trimR (typ7 e2) →
      fileKey e1 = fileKey e2 := by
    intro hu hnm
    obtain ⟨a, b⟩ := split_unique 46 n1a n2a hnm
    rw [key_split, key_split, hu, clean_inj c1.name c2.name (by rw [(hlen e1 l1).1, (hlen e2 l2).1]) a,
      clean_inj c1.typ c2.typ (by rw [(hlen e1 l1).2, (hlen e2 l2).2]) b]
  by_cases u1 : e1.getD 0 0 = 0
  · by_cases u2 : e2.getD 0 0 = 0
    · rw [if_pos u1, if_pos u2] at hp
      exact finish (by rw [u1, u2]) hp
    · rw [if_pos u1, if_neg u2] at hp
      exfalso
      apply hno1
      rw [hp]
      simp
  · by_cases u2 : e2.getD 0 0 = 0
    · rw [if_neg u1, if_pos u2] at hp
      exfalso
      apply hno2
      rw [← hp]
      simp
    · rw [if_neg u1, if_neg u2] at hp
      obtain ⟨a, b⟩ := split_unique 58 (decDigits_no58 ⟨_, h1⟩) (decDigits_no58 ⟨_, h2⟩) hp
      have := decDigits_inj ⟨_, h1⟩ ⟨_, h2⟩ a
      exact finish (by simpa using this) b

/-! ## the invariant -/

/-- the on-disk invariant of the concrete CP/M model -/
structure Inv (d : Dpb) (r : Raw) : Prop where
  dpb : DpbOk d
  shape : Shape d r
  /-- per file: extents pairwise different, pointers inside the volume -/
  good : GoodKeys d r
  /-- names and extent counters as a2kit writes them -/
  clean : ∀ e ∈ fents d r, CleanEntry e
  /-- no block is referenced twice, none of the reserved directory blocks is referenced -/
  noShare : ((fents d r).flatMap (ownedE d) ++ Read.Cpm.dirBlocks d).Nodup

theorem mem_fents {d : Dpb} {r : Raw} {e : Bytes} : e ∈ fents d r ↔ e ∈ dirOf d r ∧ e.getD 0 0 < 16 := by
  unfold fents fentsOf
  simp only [List.mem_filter, decide_eq_true_eq]

theorem mem_esOf {d : Dpb} {r : Raw} {k : List Nat} {e : Bytes} : e ∈ esOf d r k ↔ e ∈ fents d r ∧ fileKey e = k := by
  unfold esOf
  simp only [List.mem_filter, beq_iff_eq]

theorem mem_keys {d : Dpb} {r : Raw} {k : List Nat} : k ∈ keys d r ↔ ∃ e ∈ fents d r, fileKey e = k := by
  unfold keys keysOf
  rw [List.mem_eraseDups, List.mem_map]

theorem keys_nodup (d : Dpb) (r : Raw) : (keys d r).Nodup := eraseDups_nodup _

/-- the first entry of a listed file -/
theorem esOf_head {d : Dpb} {r : Raw} {k : List Nat} (hk : k ∈ keys d r) :
    ∃ e rest, esOf d r k = e :: rest ∧ e ∈ fents d r ∧ fileKey e = k := by
  obtain ⟨e0, he0, hk0⟩ := mem_keys.1 hk
  have hm : e0 ∈ esOf d r k := mem_esOf.2 ⟨he0, hk0⟩
  cases hes : esOf d r k with
  | nil => rw [hes] at hm; cases hm
  | cons e rest =>
    have : e ∈ esOf d r k := by rw [hes]; exact List.mem_cons_self
    exact ⟨e, rest, rfl, (mem_esOf.1 this).1, (mem_esOf.1 this).2⟩

theorem mem_ownedE {d : Dpb} {e : Bytes} {u : Nat} (h : u ∈ ownedE d e) : u ∈ entryPtrs d e ∧ u ≠ 0 := by
  unfold ownedE nzPtrs at h
  simp only [List.mem_map, List.mem_filter] at h
  obtain ⟨⟨p, j⟩, ⟨hm, hnz⟩, rfl⟩ := h
  obtain ⟨_, h2, h3⟩ := List.mem_zipIdx hm
  refine ⟨?_, by simpa using hnz⟩
  simp only
  rw [h3]
  exact List.getElem_mem _

theorem owned_filesOf (d : Dpb) (r : Raw) :
    (filesOf d r).flatMap (·.owned) = ((keys d r).flatMap (esOf d r)).flatMap (ownedE d) := by
  unfold filesOf
  rw [List.flatMap_map, List.flatMap_assoc]
  rfl

theorem owned_perm (d : Dpb) (r : Raw) : ((filesOf d r).flatMap (·.owned)).Perm ((fents d r).flatMap (ownedE d)) := by
  rw [owned_filesOf]
  exact List.Perm.flatMap_right _ (group_perm' fileKey (fents d r))

theorem entryPtrs_length (d : Dpb) (e : Bytes) : (entryPtrs d e).length = slots d := by
  unfold Read.Cpm.entryPtrs Read.Cpm.slots
  split <;> simp

theorem slots_cases (d : Dpb) : slots d = 8 ∨ slots d = 16 := by
  unfold Read.Cpm.slots; split <;> simp

/-- chunk indices of the entries of one file are pairwise different -/
theorem chunk_idx_nodup {r : Raw} {d : Dpb} : ∀ {es : List Bytes}, (physOf d es).Nodup →
    ((es.flatMap (chunksE r d)).map (·.1)).Nodup
  | [], _ => by simp
  | e :: es, h => by
    unfold physOf at h
    rw [List.map_cons, List.nodup_cons] at h
    rw [List.flatMap_cons, List.map_append, List.nodup_append]
    have hidx : ∀ (e' : Bytes), (chunksE r d e').map (·.1) = (nzPtrs d e').map (fun pj => extNum e' / (d.exm + 1) * slots d + pj.2) := by
      intro e'; unfold chunksE; rw [List.map_map]; rfl
    have hsnd : ∀ (e' : Bytes) (pj : Nat × Nat), pj ∈ nzPtrs d e' → pj.2 < slots d := by
      intro e' pj hm
      unfold nzPtrs at hm
      obtain ⟨_, h2, _⟩ := List.mem_zipIdx (List.mem_filter.1 hm).1
      rw [entryPtrs_length] at h2; omega
    refine ⟨?_, chunk_idx_nodup h.2, ?_⟩
    · rw [hidx]
      have hs : ((nzPtrs d e).map (·.2)).Nodup := by
        have : ((nzPtrs d e).map (·.2)).Sublist (((entryPtrs d e).zipIdx).map (·.2)) := List.filter_sublist.map _
        exact this.nodup (by rw [List.zipIdx_map_snd]; exact List.nodup_range' 1)
      rw [List.nodup_iff_pairwise_ne, List.pairwise_map] at hs ⊢
      exact hs.imp (fun hne heq => hne (by omega))
    · intro a ha b hb
      rw [hidx] at ha
      simp only [List.mem_map] at ha
      obtain ⟨pj, hpj, rfl⟩ := ha
      rw [List.map_flatMap, List.mem_flatMap] at hb
      obtain ⟨e', he', hb⟩ := hb
      rw [hidx] at hb
      simp only [List.mem_map] at hb
      obtain ⟨pj', hpj', rfl⟩ := hb
      have hx : extNum e / (d.exm + 1) ≠ extNum e' / (d.exm + 1) := by
        intro heq
        exact h.1 (by rw [heq]; exact List.mem_map_of_mem he')
      have j1 := hsnd e pj hpj
      have j2 := hsnd e' pj' hpj'
      rcases slots_cases d with hs | hs <;> rw [hs] at j1 j2 ⊢ <;> omega

theorem dupFree_nodup {d : Dpb} {es : List Bytes} (h : dupFree d es) : (physOf d es).Nodup :=
  nodup_of_eraseDups_length _ _ (Nat.le_refl _) h

/-- under the invariant the reading is well-formed (C03) -/
theorem volOf_wf {d : Dpb} {r : Raw} (h : Inv d r) : (volOf d r).wfB = true := by
  unfold volOf
  rw [mkVol_wf_iff]
  refine ⟨?_, ?_, ?_, ?_⟩
  · intro u hu
    have hu' := (owned_perm d r).subset hu
    rw [List.mem_flatMap] at hu'
    obtain ⟨e, he, hue⟩ := hu'
    have hk : fileKey e ∈ keys d r := mem_keys.2 ⟨e, he, rfl⟩
    have hall := (h.good _ hk).2
    rw [List.all_eq_true] at hall
    have := hall e (mem_esOf.2 ⟨he, rfl⟩)
    unfold ptrsOkB at this
    rw [List.all_eq_true] at this
    simpa using this u (mem_ownedE hue).1
  · exact ((owned_perm d r).append_right _).nodup_iff.2 h.noShare
  · have hpaths : (filesOf d r).map (·.path) = (keys d r).map (fun k => pathOf ((esOf d r k).headD [])) := by
      unfold filesOf; rw [List.map_map]; rfl
    rw [hpaths, List.nodup_iff_pairwise_ne, List.pairwise_map]
    refine List.Pairwise.imp_of_mem ?_ (List.nodup_iff_pairwise_ne.1 (keys_nodup d r))
    intro k1 k2 hk1 hk2 hne hp
    obtain ⟨e1, r1, hes1, hm1, hkey1⟩ := esOf_head hk1
    obtain ⟨e2, r2, hes2, hm2, hkey2⟩ := esOf_head hk2
    rw [hes1, hes2] at hp
    simp only [List.headD_cons] at hp
    have hl := dirOf_entry_length h.shape h.dpb
    have := pathOf_inj (mem_fents.1 hm1).2 (mem_fents.1 hm2).2 (hl _ (mem_fents.1 hm1).1) (hl _ (mem_fents.1 hm2).1)
      (h.clean _ hm1) (h.clean _ hm2) hp
    exact hne (by rw [← hkey1, ← hkey2, this])
  · intro f hf
    unfold filesOf at hf
    rw [List.mem_map] at hf
    obtain ⟨k, hk, rfl⟩ := hf
    exact sorted_lt_of_nodup _ (chunk_idx_nodup (dupFree_nodup (h.good k hk).1))

/-- **the invariant implies**: the independent reader succeeds with `volOf`, the reading is well-formed and leak-free -/
theorem inv_reads {d : Dpb} {r : Raw} (h : Inv d r) :
    Read.Cpm.read r d = .ok (volOf d r) ∧ (volOf d r).wfB = true ∧ (volOf d r).noLeak = true :=
  ⟨(read_iff h.shape h.dpb).2 ⟨h.good, rfl⟩, volOf_wf h, mkVol_noLeak d _⟩

end A2Verif.FsCpm
