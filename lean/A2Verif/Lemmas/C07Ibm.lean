import A2Verif.Model.AddrMap
/-!
# C07, part 4: IBM / CP/M containers (IMG, IMD, TD0)

`get_lsecs` + `cpm_blocking` / `fat_blocking` are one shared function; what differs per container is
(a) the parameters it derives from its own track records and (b) the sector lookup.  IMD and TD0 are
shown to derive equal track records and equal skew tables for every layout `mkdsk` lets them hold,
hence equal pieces for *every* block; IMG is compared with IMD over every sector of every layout
`mkdsk` lets it hold.
-/
namespace A2Verif.C07
open A2Verif.Gen A2Verif.Model.AddrMap
open A2Verif.Gen.C07 (LayoutName)
open A2Verif.Model.AddrMap.Out (ok err panic)

/-- layouts `mkdsk` pairs with IMD and TD0 -/
def ibmLayouts : List LayoutName := C07.ibmPatterns ++ C07.cpmPatterns

/-- `get_skew` of imd.rs and of td0.rs select the same sector-id table for every layout and head -/
theorem imd_td0_same_skew : C07.imdSkew = C07.td0Skew := by decide +kernel

/-- `Imd::create` and `Td0::create` lay out the same track records (cylinder, head, sector count,
sector size, sector ids in the same order) for every layout they can be created with; TD0 never
runs out of sector ids while building a track -/
theorem imd_td0_same_geometry :
    ∀ ln ∈ ibmLayouts, geom .imd ln = geom .td0 ln ∧
      ((geom .td0 ln).all fun t => t.ids.length = t.nsec ∧ t.nsec * 2 ^ t.shift < 256) = true := by
  decide +kernel

theorem geomPieces_spt8 (g : List TrackRec) (h : (g.all fun t => t.nsec * 2 ^ t.shift < 256) = true)
    (heads : Nat) (arms) (ln : LayoutName) (blk : Block) :
    geomPieces g heads arms true ln blk = geomPieces g heads arms false ln blk := by
  unfold geomPieces
  cases blk with
  | cpm b bsh off =>
    simp only []
    cases hg : g[off]? with
    | none => rfl
    | some t0 =>
      have hm : t0 ∈ g := List.mem_of_getElem? hg
      have := (List.all_eq_true.mp h) t0 hm
      have h2 : t0.nsec * 2 ^ t0.shift < 256 := by simpa using this
      simp [Nat.mod_eq_of_lt h2]
  | _ => rfl

/-- C07 for IMD vs TD0: every block address (CP/M or FAT, in range or not) is resolved to the same
(cylinder, head, sector id, length) list, or refused alike, by an IMD and a TD0 image of the same
disk kind; same for physical sector lookup. -/
theorem imd_td0_same_pieces :
    ∀ ln ∈ ibmLayouts, ∀ blk : Block, ibmPieces .imd ln blk = ibmPieces .td0 ln blk := by
  intro ln hln blk
  have hg := imd_td0_same_geometry ln hln
  have hall : ((geom .td0 ln).all fun t => t.nsec * 2 ^ t.shift < 256) = true := by
    have := hg.2
    rw [List.all_eq_true] at this ⊢
    intro t ht
    have := this t ht
    simp at this ⊢
    exact this.2
  simp only [ibmPieces, skewArms, hg.1, imd_td0_same_skew]
  exact geomPieces_spt8 _ hall _ _ _ _

theorem imd_td0_same_sectors :
    ∀ ln ∈ ibmLayouts, ∀ cyl head sec : Nat, ibmSector .imd ln cyl head sec = ibmSector .td0 ln cyl head sec := by
  intro ln hln c h s
  simp only [ibmSector, (imd_td0_same_geometry ln hln).1]

example : ibmPieces .imd .KAYPRO4 (.cpm 5 4 1) = ok [(1, 1, 10, 512), (1, 1, 11, 512), (1, 1, 12, 512), (1, 1, 13, 512)] := by
  decide +kernel

/-- IMG vs IMD/TD0 for the FAT kinds: every `ibm_patterns` layout has a single zone (so `Img::create`
accepts it), the parameters handed to `get_lsecs`/`fat_blocking` (sectors per track, heads) are the
same, hence the CHS lists are the same lists; and track record `t` of the IMD/TD0 image is
cylinder `t / heads`, head `t % heads` with sector ids `1..=sectors` of the IMG sector size, which
is exactly the flat IMG arithmetic `offset = ((cyl*heads+head)*sectors + id-1)*size`. -/
theorem img_imd_same_layout :
    ∀ ln ∈ C07.ibmPatterns,
      ln.layout.zones = 1 ∧
      ((geom .imd ln)[0]?.map fun t0 => t0.nsec) = some (lat ln.layout.sectors 0) ∧
      (geom .imd ln).length = lat ln.layout.cylinders 0 * ln.layout.sidesMax ∧
      ((List.range (geom .imd ln).length).all fun t =>
        match (geom .imd ln)[t]? with
        | some r => decide (r.cyl = t / ln.layout.sidesMax ∧ r.head = t % ln.layout.sidesMax ∧
                    r.ids = (List.range (lat ln.layout.sectors 0)).map (· + 1) ∧
                    128 * 2 ^ r.shift = lat ln.layout.sectorSize 0)
        | none => false) = true := by
  decide +kernel

/-- the CHS list of a FAT cluster is the same whichever of IMG, IMD, TD0 computes it -/
theorem fat_chs_same (ln : LayoutName) (h : ln ∈ C07.ibmPatterns) (blk : Block) :
    (match (geom .imd ln)[0]? with
     | some t0 => getLsecs blk t0.nsec >>= fun ts => fatBlocking ts ln.layout.sidesMax
     | none => panic) =
    (getLsecs blk (lat ln.layout.sectors 0) >>= fun ts => fatBlocking ts ln.layout.sidesMax) := by
  have := (img_imd_same_layout ln h).2.1
  cases hg : (geom .imd ln)[0]? with
  | none => simp [hg] at this
  | some t0 => simp [hg] at this; simp [this]

/-- every block of every CP/M kind is addressable in an IMD/TD0 image created for it and yields
`128 << bsh` bytes (so the file systems see the same block size in both containers) -/
theorem cpm_blocks_addressable :
    ∀ d ∈ C07.cpmDpb, d.1 = .A2_DOS33 ∨
      ∀ k : Fin 4,
        let b := match k.val with
          | 0 => 0
          | 1 => 1
          | 2 => d.2.2.2.1 - 1
          | _ => d.2.2.2.1
        (match ibmPieces .td0 d.1 (.cpm b d.2.2.1 d.2.2.2.2) with
         | ok ps => decide ((ps.map fun p => p.2.2.2).sum = 128 * 2 ^ d.2.2.1)
         | _ => false) = true := by
  decide +kernel
