import A2Verif.Lemmas.C06Bytes
/-!
# C06, CP/M: every operation of the concrete model keeps the image shaped

The CP/M module has no in-memory buffer (the directory is read from and saved to the image inside every operation):
the file-system object is the image plus the disk parameter block, which is not stored on the disk.  A unit of the
model is one allocation block.  What the reload theorem needs is that all units have the DPB's block size
(`Shaped (blockSize d)`) and that every operation keeps it so.
-/
namespace A2Verif.Reload.Cpm
open A2Verif.Fs.Cpm
open A2Verif.Read.Cpm (Dpb)

theorem snd_ite {X Y : Type} {c : Prop} [Decidable c] {a b : X × Y} (P : Y → Prop) (ha : P a.2) (hb : P b.2) :
    P (if c then a else b).2 := by
  split <;> assumption

theorem blockSize_pos (d : Dpb) : 0 < blockSize d := by
  unfold blockSize
  exact Nat.mul_pos (by decide) (Nat.pow_pos (by decide))

theorem quantize_length (bs : Nat) (dat : Bytes) : (quantize bs dat).length = bs := by
  unfold quantize
  simp only [List.length_append, List.length_take, List.length_replicate]
  omega

variable {d : Dpb}

theorem imgWrite_shaped {r r' : Raw} {i : Nat} {dat : Bytes} (h : Shaped (blockSize d) r) (hw : imgWrite d r i dat = .ok r') :
    Shaped (blockSize d) r' := by
  unfold imgWrite at hw
  split at hw
  · cases hw
    exact h.setIfInBounds i (quantize_length _ dat)
  · cases hw

theorem writeBlock_shaped {r r' : Raw} {data : Bytes} {i off : Nat} (h : Shaped (blockSize d) r)
    (hw : writeBlock d r data i off = .ok r') : Shaped (blockSize d) r' := by
  unfold writeBlock at hw
  split at hw
  · cases hw
  · exact imgWrite_shaped h hw

theorem saveLoop_shaped (buf : Bytes) : ∀ (ks : List Nat) {r : Raw}, Shaped (blockSize d) r →
    Shaped (blockSize d) (saveLoop d buf r ks).2 := by
  intro ks
  induction ks with
  | nil => intro r h; exact h
  | cons k ks ih =>
    intro r h
    unfold saveLoop
    split
    · exact h
    · next r' hw => exact ih (writeBlock_shaped h hw)

theorem saveDirectory_shaped {r : Raw} (dir : Dir) (h : Shaped (blockSize d) r) : Shaped (blockSize d) (saveDirectory d r dir).2 :=
  saveLoop_shaped _ _ h

theorem fillLoop_shaped : ∀ (ks : List Nat) {r : Raw}, Shaped (blockSize d) r → Shaped (blockSize d) (fillLoop d r ks).2 := by
  intro ks
  induction ks with
  | nil => intro r h; exact h
  | cons k ks ih =>
    intro r h
    unfold fillLoop
    split
    · exact h
    · next r' hw => exact ih (writeBlock_shaped h hw)

theorem fillLoop_shaped' {r r' : Raw} {ks : List Nat} {x : R Unit} (h : Shaped (blockSize d) r) (hs : fillLoop d r ks = (x, r')) :
    Shaped (blockSize d) r' := by
  have := fillLoop_shaped (d := d) ks h; rw [hs] at this; exact this

/-- walk through the conditionals and matches of an operation whose value is a `(result, image)` pair -/
macro "shaped_cases " P:term : tactic => `(tactic| repeat' (first | (apply snd_ite $P) | split))

theorem format_shaped {r : Raw} (vol : Bytes) (time : Option Bytes) (h : Shaped (blockSize d) r) :
    Shaped (blockSize d) (format d r vol time).2 := by
  unfold format
  dsimp only
  shaped_cases (Shaped (blockSize d))
  all_goals first
    | exact h
    | exact fillLoop_shaped' h ‹_›
    | exact saveDirectory_shaped _ (fillLoop_shaped' h ‹_›)

theorem delete_shaped {r : Raw} (x : Bytes) (h : Shaped (blockSize d) r) : Shaped (blockSize d) (delete d r x).2 := by
  unfold delete
  shaped_cases (Shaped (blockSize d))
  all_goals first | exact h | exact saveDirectory_shaped _ h

theorem modify_shaped {r : Raw} (o : Bytes) (n : Option Bytes) (a : List Nat) (h : Shaped (blockSize d) r) :
    Shaped (blockSize d) (Fs.Cpm.modify d r o n a).2 := by
  unfold Fs.Cpm.modify
  shaped_cases (Shaped (blockSize d))
  all_goals first | exact h | exact saveDirectory_shaped _ h

theorem retype_shaped {r : Raw} (x t : Bytes) (h : Shaped (blockSize d) r) : Shaped (blockSize d) (retype d r x t).2 := by
  unfold retype
  apply snd_ite (Shaped (blockSize d)) (modify_shaped _ _ _ h)
  apply snd_ite (Shaped (blockSize d)) (modify_shaped _ _ _ h)
  exact h

theorem protect_shaped {r : Raw} (x p : Bytes) (rd wr del : Bool) (h : Shaped (blockSize d) r) :
    Shaped (blockSize d) (protect d r x p rd wr del).2 := by
  unfold protect
  dsimp only
  shaped_cases (Shaped (blockSize d))
  all_goals first | exact h | exact saveDirectory_shaped _ h

theorem unprotect_shaped {r : Raw} (x : Bytes) (h : Shaped (blockSize d) r) : Shaped (blockSize d) (unprotect d r x).2 := by
  unfold unprotect
  dsimp only
  shaped_cases (Shaped (blockSize d))
  all_goals first | exact h | exact saveDirectory_shaped _ h

theorem slotLoop_shaped (name : Bytes) (user : Nat) (f : FImg) (x spe spl : Nat) : ∀ (l : List (Nat × Nat)) {s : WState},
    Shaped (blockSize d) s.r → Shaped (blockSize d) (slotLoop d name user f x spe spl s l).2.r := by
  intro l
  induction l with
  | nil => intro s h; exact h
  | cons p rest ih =>
    intro s h
    obtain ⟨lx, loc⟩ := p
    unfold slotLoop
    dsimp only
    repeat' (first | (apply snd_ite (fun s : WState => Shaped (blockSize d) s.r)) | split)
    all_goals first
      | exact h
      | exact ih h
      | exact ih (writeBlock_shaped h ‹_›)

theorem extLoop_shaped (name : Bytes) (user : Nat) (f : FImg) (maxX spe spl : Nat) : ∀ (l : List Nat) {s : WState},
    Shaped (blockSize d) s.r → Shaped (blockSize d) (extLoop d name user f maxX spe spl s l).2.r := by
  intro l
  induction l with
  | nil => intro s h; exact h
  | cons x rest ih =>
    intro s h
    unfold extLoop
    dsimp only
    have hs := slotLoop_shaped (d := d) name user f x spe spl
      ((List.range (d.exm + 1)).flatMap (fun lx => (List.range spl).map (fun loc => (lx, loc)))) (s := { s with lxUsed := 0 }) h
    split
    · next heq => rw [heq] at hs; exact hs
    · next heq =>
      rw [heq] at hs
      split
      · exact ih hs
      · split
        · exact hs
        · exact ih hs

theorem extLoop_shaped' {name : Bytes} {user : Nat} {f : FImg} {maxX spe spl : Nat} {l : List Nat} {s s' : WState} {x : R Unit}
    (h : Shaped (blockSize d) s.r) (hs : extLoop d name user f maxX spe spl s l = (x, s')) : Shaped (blockSize d) s'.r := by
  have := extLoop_shaped (d := d) name user f maxX spe spl l h; rw [hs] at this; exact this

theorem put_shaped {r : Raw} (f : FImg) (now : Bytes) (h : Shaped (blockSize d) r) : Shaped (blockSize d) (put d r f now).2 := by
  unfold put
  dsimp only
  shaped_cases (Shaped (blockSize d))
  all_goals first
    | exact h
    | exact extLoop_shaped' (s := { r := r, dir := _ }) h ‹_›
    | exact saveDirectory_shaped _ (extLoop_shaped' (s := { r := r, dir := _ }) h ‹_›)

end A2Verif.Reload.Cpm
