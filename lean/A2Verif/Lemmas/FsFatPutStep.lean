import A2Verif.Lemmas.FsFatPutAbs
/-!
# Refinement of `put` of a root-level file in the concrete FAT model

`putEntry_facts`: the bytes of the finished entry that matter to both sides.  `put_step_core`: `put` as observed (run, then
flush) is refused without a change, or re-establishes the invariant and inserts exactly one record into the reading: a
file under `absPath p`, owning clusters that were free, holding the chunks, with the length of the file image.
-/
namespace A2Verif.FsFat
open A2Verif A2Verif.Fs.Fat A2Verif.Read.Fat A2Verif.Read.FatT
open A2Verif.FsDos (inserted wfB_insert)

theorem testBit_of_and24 {a : Nat} (h : a &&& 24 = 0) : a.testBit 3 = false ∧ a.testBit 4 = false := by
  have h3 : (a &&& 24).testBit 3 = false := by rw [h]; simp
  have h4 : (a &&& 24).testBit 4 = false := by rw [h]; simp
  rw [Nat.testBit_and] at h3 h4
  have c3 : (24 : Nat).testBit 3 = true := by decide
  have c4 : (24 : Nat).testBit 4 = true := by decide
  rw [c3, Bool.and_true] at h3
  rw [c4, Bool.and_true] at h4
  exact ⟨h3, h4⟩

/-- the attribute byte of a stored file: the access byte of the file image (without label or directory bit) with the
archive bit set -/
theorem fileAttr_bits {a : Nat} (h : a &&& 24 = 0) : ((a ||| 32) / 8) % 2 = 0 ∧ ((a ||| 32) / 16) % 2 = 0 := by
  obtain ⟨t3, t4⟩ := testBit_of_and24 h
  have b3 := bit_of_testBit (a ||| 32) 3
  have b4 := bit_of_testBit (a ||| 32) 4
  rw [Nat.testBit_or, t3] at b3
  rw [Nat.testBit_or, t4] at b4
  have c3 : (32 : Nat).testBit 3 = false := by decide
  have c4 : (32 : Nat).testBit 4 = false := by decide
  rw [c3] at b3
  rw [c4] at b4
  simpa using ⟨b3, b4⟩

theorem access_of_dirOrLabel {fi : FImg} (h : fi.dirOrLabel = false) (hl : 1 ≤ fi.access.length) : fi.access.getD 0 0 &&& 24 = 0 := by
  unfold FImg.dirOrLabel at h
  cases ha : fi.access with
  | nil => rw [ha] at hl; simp at hl
  | cons a0 t =>
    rw [ha] at h
    simp only [List.head?_cons, decide_eq_false_iff_not, ne_eq, Decidable.not_not] at h
    have : VOLUME_ID ||| DIRECTORY = 24 := by decide
    rw [this] at h
    simpa using h

/-- `set_cluster` when the loop took a first cluster -/
def setClusterOpt (e : Bytes) : Option Nat → Bytes
  | some c => Entry.setCluster e c
  | none => e

/-- the finished entry of a `put`: `fimg_to_metadata`, then `set_cluster` (if there is a first cluster), then `set_attr(ARCHIVE)` -/
theorem putEntry_facts {t : Bytes} {now : Stamp} {fi : FImg} {e1 entry1 : Bytes} (hs : StampOk now) (hn11 : (stringToFileName t).length = 11)
    (hm : MetaOk fi) (hacc : fi.dirOrLabel = false) (hmeta : fimgToMetadata (entryCreate (stringToFileName t) 0 now) fi = .ok e1)
    {c0 : Option Nat} (hc0 : ∀ c, c0 = some c → c < 65536)
    (hent : entry1 = setClusterOpt e1 c0) :
    (Entry.setAttr entry1 ARCHIVE).length = 32 ∧ (Entry.setAttr entry1 ARCHIVE).take 11 = stringToFileName t ∧
      (Entry.setAttr entry1 ARCHIVE).getD 11 0 = (fi.access.getD 0 0 ||| 32) ∧
      le16 (Entry.setAttr entry1 ARCHIVE) 26 = c0.getD 0 ∧ le32 (Entry.setAttr entry1 ARCHIVE) 28 = le32 fi.eof 0 := by
  obtain ⟨c1, c2, _, c4, c5⟩ := entryCreate_bytes hn11 0 hs
  obtain ⟨e1', hmeta', l1, k1, k2, k3⟩ := fimgToMetadata_spec c1 hm
  rw [hmeta] at hmeta'
  injection hmeta' with hmeta'
  subst hmeta'
  -- entry1
  have hE1 : entry1.length = 32 ∧ le16 entry1 26 = c0.getD 0 ∧ (∀ i, (i < 20 ∨ 28 ≤ i) → entry1.getD i 0 = e1.getD i 0) := by
    cases c0 with
    | none =>
      subst hent
      refine ⟨l1, ?_, fun _ _ => rfl⟩
      unfold le16
      rw [k1 26 (by omega), k1 (26 + 1) (by omega), c4, c5]
      rfl
    | some c =>
      subst hent
      obtain ⟨s1, s2, s3⟩ := entrySetCluster_spec l1 (hc0 c rfl)
      exact ⟨s1, s2, s3⟩
  obtain ⟨m1, m2, m3⟩ := hE1
  unfold Entry.setAttr Entry.attr ARCHIVE
  obtain ⟨a1, a2, a3, a4⟩ := setAttrField_spec m1 (entry1.getD 11 0 ||| 32)
  refine ⟨a1, ?_, ?_, ?_, ?_⟩
  · rw [a2, ← c2]
    apply take_eq_of_getD (by omega) (by omega)
    intro i hi
    rw [m3 i (by omega), k1 i (by omega)]
  · rw [a3, m3 11 (by omega), k2]
  · unfold le16 at m2 ⊢
    rw [a4 26 (by omega), a4 (26 + 1) (by omega)]
    exact m2
  · unfold le32 le16
    rw [a4 28 (by omega), a4 (28 + 1) (by omega), a4 (28 + 2) (by omega), a4 (28 + 2 + 1) (by omega),
      m3 28 (by omega), m3 (28 + 1) (by omega), m3 (28 + 2) (by omega), m3 (28 + 2 + 1) (by omega)]
    have q0 := k3 0 (by omega)
    have q1 := k3 1 (by omega)
    have q2 := k3 2 (by omega)
    have q3 := k3 3 (by omega)
    simp only [Nat.add_zero] at q0
    rw [q0, q1, q2, q3]

/-! ## what the file image must satisfy; the chunks as the specification sees them -/

/-- what `put`'s test of the file image (`FImg.storable`, with the metadata vectors long enough) gives: no chunk `0 ..< end`
is missing, none is longer than a cluster, and the length is not larger than what the chunks hold -/
structure PutArg (fi : FImg) : Prop where
  noHole : ∀ k, k < fi.end → (fi.chunks.lookup k).isSome = true
  fits : ∀ k, k < fi.end → (chunkAt fi.chunks k).length ≤ fi.chunkLen
  eofFits : le32 fi.eof 0 ≤ fi.end * fi.chunkLen

theorem putArg_of_storable {fi : FImg} (hst : fi.storable = true) (hm : MetaOk fi) : PutArg fi := by
  unfold FImg.storable at hst
  simp only [Bool.and_eq_true, List.all_eq_true, List.mem_range, Bool.or_eq_true, decide_eq_true_eq] at hst
  refine { noHole := ?_, fits := ?_, eofFits := ?_ }
  · intro k hk
    have := hst.1 k hk
    cases hl : fi.chunks.lookup k with
    | none => rw [hl] at this; cases this
    | some _ => rfl
  · intro k hk
    have := hst.1 k hk
    unfold chunkAt
    cases hl : fi.chunks.lookup k with
    | none => rw [hl] at this; cases this
    | some data => rw [hl] at this; simpa using this
  · rcases hst.2 with h4 | h4
    · unfold MetaOk at hm; omega
    · exact h4

/-- the chunks of the file image in ascending order -/
def chunksOf (fi : FImg) : List (Nat × Bytes) := (List.range fi.end).map (fun k => (k, chunkAt fi.chunks k))

theorem zipIdx_range (n : Nat) (G : Nat → Bytes) :
    ((List.range n).map G).zipIdx.map (fun (d, i) => (i, d)) = (List.range n).map (fun k => (k, G k)) := by
  apply List.ext_getElem?
  intro i
  simp only [List.getElem?_map, List.getElem?_zipIdx]
  by_cases h : i < n
  · simp [h]
  · simp [h]

theorem chunksMatch_blocks (n : Nat) (A G : Nat → Bytes) (h : ∀ k, k < n → (G k).take (A k).length = A k) :
    chunksMatch ((List.range n).map (fun k => (k, A k))) ((List.range n).map (fun k => (k, G k))) = true := by
  unfold chunksMatch
  rw [List.zip_map']
  simp only [List.map_map, Bool.and_eq_true, beq_iff_eq, List.all_eq_true, List.mem_map, List.mem_range]
  refine ⟨by apply List.map_congr_left; intro k _; rfl, ?_⟩
  rintro ⟨s, g⟩ ⟨k, hk, he⟩
  injection he with h1 h2
  subst h1 h2
  simpa using h k hk

theorem E5_of_free {e : Bytes} (h : entryType e = .free) : e.getD 0 0 = 0xE5 := by
  unfold entryType at h
  simp only at h
  split at h
  · assumption
  · split at h
    · cases h
    · split at h
      · cases h
      · split at h
        · cases h
        · split at h <;> cases h

theorem zero_of_end {e : Bytes} (h : entryType e = .freeAndNoMore) : e.getD 0 0 = 0 := by
  unfold entryType at h
  simp only at h
  split at h
  · cases h
  · split at h
    · assumption
    · split at h
      · cases h
      · split at h
        · cases h
        · split at h <;> cases h

/-- the free slot `get_available_entry` returns is an entry the reader passes over -/
theorem act_skip_slot {E1 E2 : List Bytes} {e0 : Bytes} (hl : e0.length = 32) (ht : TailZero (E1 ++ e0 :: E2))
    (he0 : entryType e0 = .free ∨ entryType e0 = .freeAndNoMore) : act (e0 :: E2) = act E2 := by
  rcases he0 with h | h
  · exact act_cons_free e0 E2 (E5_of_free h) hl
  · have h0 := zero_of_end h
    have hz : ∀ x ∈ E2, x.getD 0 0 = 0 := by
      intro x hx
      obtain ⟨j, hj⟩ := List.mem_iff_getElem?.mp hx
      apply ht E1.length (E1.length + 1 + j) e0 x (by omega) (by simp) ?_ h0
      rw [List.getElem?_append_right (by omega)]
      have : E1.length + 1 + j - E1.length = j + 1 := by omega
      rw [this, List.getElem?_cons_succ]
      exact hj
    rw [act_zero_tail hz, act, if_pos (Or.inl h0)]

/-- **`put` of a root-level file as observed (run, then flush)**: refused without a change, or the invariant is
re-established and the reading gains exactly one record: a file under `absPath p` that owns clusters which were free,
holds the chunks of the file image and has its length -/
theorem put_step_core {d : Disk} (inv : Inv d) {fi : FImg} {now : Stamp} (a : RootArg fi.fullPath) (hs : StampOk now)
    {res : R Nat} {d' : Disk} (h : runFlush (put fi now) d = (res, d')) :
    (∃ er, res = .error er ∧ d' = d) ∨
    ((∃ n, res = .ok n) ∧ Inv d' ∧ ∃ F1 F2 rec free', (volOf d).files = F1 ++ F2 ∧ rec.path = absPath fi.fullPath ∧
      rec.isDir = false ∧ rec.owned.Nodup ∧ (∀ x ∈ rec.owned, x ∈ (volOf d).freeUnits) ∧ free'.Nodup ∧
      (∀ x, x ∈ free' ↔ x ∈ (volOf d).freeUnits ∧ x ∉ rec.owned) ∧ rec.path ∉ (volOf d).paths ∧
      (rec.chunks.map (·.1)).Pairwise (· < ·) ∧ chunksMatch (chunksOf fi) rec.chunks = true ∧ rec.eof = le32 fi.eof 0 ∧
      volOf d' = inserted (volOf d) F1 F2 rec free') := by
  obtain ⟨f, c⟩ := inv.coh
  have g := inv.geo
  obtain ⟨hread, hwf, hnl⟩ := inv_reads_well_formed inv
  unfold runFlush at h
  rcases put_run g c a hs with ⟨er, hrun⟩ |
    ⟨B, X, E1, e0, E2, files, e1, entry1, d1, f1, cl, np, hE, hE1, he0, hb, hl, hacc, hsto, hm, hcl, hmeta, hl1, o, hrun⟩
  · rw [hrun] at h
    simp only [flush_noop g c] at h
    injection h with h1 h2
    exact Or.inl ⟨er, h1.symm, h2.symm⟩
  right
  have pa := putArg_of_storable hsto hm
  have pfits : ∀ k, k < fi.end → (chunkAt fi.chunks k).length ≤ d.bpb.blockSize := by rw [← hcl]; exact pa.fits
  have peof : le32 fi.eof 0 ≤ fi.end * d.bpb.blockSize := by rw [← hcl]; exact pa.eofFits
  rw [readT_eq g c, readFrom_iff] at hread
  obtain ⟨R, hR, hv⟩ := hread
  obtain ⟨hA, hlen, _⟩ := rootEntries_spec g
  -- the finished entry
  have hent : entry1 = setClusterOpt e1 cl.head? := by
    cases hcl0 : cl with
    | nil => exact (o.same hcl0).2.2
    | cons c0 rest =>
      have := (o.chain c0 rest hcl0).2.2
      rw [this]
      rfl
  have hc0lt : ∀ c, cl.head? = some c → c < 65536 := by
    intro c hc
    have hmem : c ∈ cl := List.mem_of_mem_head? (by rw [hc]; simp)
    have := (clusInRng_bounds (o.wasFree c hmem).1).2
    have := o.wok.small
    have hb1 := o.bpb
    rw [hb1] at this
    omega
  have hn11 : (stringToFileName (upper fi.fullPath)).length = 11 := by
    rw [stringToFileName_parts np]
    simp [padTo_length]
  obtain ⟨q1, q2, q3, q4, q5⟩ := putEntry_facts hs hn11 hm hacc hmeta hc0lt hent
  have ha24 := access_of_dirOrLabel hacc hm.2.1
  obtain ⟨b3, b4⟩ := fileAttr_bits ha24
  generalize he3 : Entry.setAttr entry1 ARCHIVE = e3 at q1 q2 q3 q4 q5 hrun
  obtain ⟨n1, n2, n3, n4, n5, n6, n7, n8⟩ := fresh_name np q2
  rw [upper_idem] at n3
  have hk : keyOf fi.fullPath = trimEnd B ++ [46] ++ trimEnd X := n3
  have hbit3 : (e3.getD 11 0 / 8) % 2 = 0 := by rw [q3]; exact b3
  have hbit4 : (e3.getD 11 0 / 16) % 2 = 0 := by rw [q3]; exact b4
  have hshown3 : shown e3 := ⟨⟨n6, q1⟩, n7, by omega, hbit3, n8⟩
  have hgood3 : NameGood e3 :=
    ⟨trimEnd B, trimEnd X, n1, n2, n4, n5, (fun hd => by rw [hbit4] at hd; cases hd), (fresh_noSlash np).1, (fresh_noSlash np).2⟩
  have hpath3 : entPath [] e3 = absPath fi.fullPath := by
    unfold entPath
    simp only [List.isEmpty_nil, if_true]
    exact entName_of_key n1 hgood3 hk
  -- the states
  obtain ⟨g1, hroot1, _⟩ := geo_of_wrOut g o
  have hidx : E1.length < (dirOfBytes (rootBuf d)).length := by rw [hE]; simp
  have hidx1 : E1.length < (dirOfBytes (rootBuf d1)).length := by rw [hroot1]; exact hidx
  have g2 := rootWrite_geo g1 hidx1 q1
  have hf2 : (rootWrite d1 E1.length e3).fat = some f1 := o.wok.fat
  have hsz1 : f1.size = (rootWrite d1 E1.length e3).bpb.fatSecs * 512 := by
    rw [o.fsz, c.size]
    show d.bpb.fatSecs * 512 = d1.bpb.fatSecs * 512
    rw [o.bpb]
  obtain ⟨r3, m1, g3, c3, m4⟩ := flush_spec g2 hf2 hsz1 o.wok.bytes
  rw [hrun] at h
  simp only [] at h
  rw [m1] at h
  injection h with h1 h2
  generalize hd3 : ({ rootWrite d1 E1.length e3 with raw := r3 } : Disk) = d3 at g3 c3 h2
  subst h2
  have hbpb3 : d3.bpb = d.bpb := by rw [← hd3]; exact o.bpb
  have hraw3 : d3.raw = r3 := by rw [← hd3]
  have hlf3 : d3.labelFiles = false := by rw [← hd3]; show d1.labelFiles = false; rw [o.lf]; exact inv.lf
  have hroot3 : rootBuf d3 = rootBuf (rootWrite d1 E1.length e3) :=
    rootBuf_congr (by rw [hbpb3]; exact o.bpb.symm) (fun u hu => by rw [hraw3]; exact m4 u (Or.inr hu))
  have hE3 : dirOfBytes (rootBuf d3) = E1 ++ e3 :: E2 := by
    rw [hroot3, rootWrite_entries g1 hidx1 q1, hroot1, hE, set_mid]
  have af : After d d1 d3 := by
    refine ⟨hbpb3, ?_⟩
    intro u hu
    have hrf : d.bpb.rootBeg ≤ d.bpb.firstDataSec := by unfold Bpb.rootBeg Bpb.firstDataSec; omega
    have hb1 : d1.bpb = d.bpb := o.bpb
    rw [hraw3, m4 u (Or.inr (by show d1.bpb.rootBeg ≤ u; rw [hb1]; omega))]
    apply rootWrite_units
    rw [hb1]
    unfold Bpb.firstDataSec at hu
    unfold Bpb.rootBeg
    omega
  -- the reading before, split at the slot
  have hE1live : ∀ x ∈ E1, live x := fun x hx => live_of_type (hA x (by rw [hE]; simp [hx])) (hE1 x hx).2
  have hE1end : ∀ x ∈ E1, entryType x ≠ .freeAndNoMore := fun x hx => (hE1 x hx).2
  have he0l : e0.length = 32 := hA e0 (by rw [hE]; simp)
  have htail := inv.tail
  rw [hE] at htail
  have hskip := act_skip_slot he0l htail he0
  rw [dirEnts_skip hE hE1live hskip] at hR
  obtain ⟨R1, R2, r1, r2, rR⟩ := mapM_append_inv _ _ _ _ hR
  subst rR
  have hfilesv : (volOf d).files = R1.flatten ++ R2.flatten := by rw [hv]; simp [mkVol]
  have hwf' : (mkVol d.bpb f (R1.flatten ++ R2.flatten)).wfB = true := by
    rw [hv] at hwf
    simpa using hwf
  have hkeep : ∀ (D : List Bytes) (RR : List (List FileRec)), D.mapM (rd d f) = .ok RR →
      (∀ y ∈ RR, ∀ x ∈ y.flatMap (·.owned), x ∈ (R1.flatten ++ R2.flatten).flatMap (·.owned)) → D.mapM (rd d3 f1) = .ok RR := by
    intro D RR hD hsub
    exact mapM_congr_ok _ _ _ _ hD (fun e y _ hy hye => old_entry_kept g o af hwf' hye (hsub y hy))
  have hR1' := hkeep _ _ r1 (by
    intro y hy x hx
    simp only [List.mem_flatMap] at hx ⊢
    obtain ⟨rec, hrec, hxr⟩ := hx
    exact ⟨rec, List.mem_append_left _ (List.mem_flatten.mpr ⟨y, hy, hrec⟩), hxr⟩)
  have hR2' := hkeep _ _ r2 (by
    intro y hy x hx
    simp only [List.mem_flatMap] at hx ⊢
    obtain ⟨rec, hrec, hxr⟩ := hx
    exact ⟨rec, List.mem_append_right _ (List.mem_flatten.mpr ⟨y, hy, hrec⟩), hxr⟩)
  -- the new entry
  have hc1 : (cl = [] ∧ le16 e3 26 = 0 ∧ le32 e3 28 = 0) ∨ (∃ c0 rest, cl = c0 :: rest ∧ le16 e3 26 = c0) := by
    cases hcl0 : cl with
    | nil =>
      left
      have hn0 : fi.end = 0 := by rw [← o.len, hcl0]; rfl
      have := peof
      rw [hn0] at this
      rw [hcl0] at q4
      exact ⟨rfl, by simpa using q4, by rw [q5]; omega⟩
    | cons c0 rest =>
      right
      rw [hcl0] at q4
      exact ⟨c0, rest, rfl, by simpa using q4⟩
  have hnew := new_file_rec g g3 o af (e := e3) hbit4 hc1 (by rw [q5]; exact peof)
  have hread3 : readT d3.raw = .ok (mkVol d.bpb f1 (R1.flatten ++ newRec d.bpb fi.chunks e3 cl :: R2.flatten)) := by
    rw [readT_eq g3 c3, readFrom_iff]
    refine ⟨R1 ++ [newRec d.bpb fi.chunks e3 cl] :: R2, ?_, by rw [hbpb3]; simp⟩
    rw [dirEnts_split hE3 hE1live hshown3]
    exact mapM_append_cons_ok _ _ _ _ _ _ _ hR1' hnew hR2'
  -- the abstract facts
  have hfreeU : (volOf d).freeUnits = freeUnitsOf d.bpb f := by rw [hv]; rfl
  have hgf : ∀ x ∈ cl, x ∈ (volOf d).freeUnits := by
    intro x hx
    rw [hfreeU, mem_freeUnitsOf]
    obtain ⟨hr, hfx⟩ := o.wasFree x hx
    have := clusInRng_bounds hr
    unfold firstDataCluster at this
    exact ⟨⟨this.1, this.2⟩, (isFree12_iff f x).mp hfx⟩
  have hnz : ∀ x ∈ cl, nxt f1 x ≠ 0 := by
    intro x hx
    cases hcl0 : cl with
    | nil => rw [hcl0] at hx; cases hx
    | cons c0 rest =>
      have := (o.chain c0 rest hcl0).1
      exact this.nonzero x hx
  have hfree' : ∀ x, x ∈ freeUnitsOf d.bpb f1 ↔ x ∈ (volOf d).freeUnits ∧ x ∉ cl := by
    intro x
    rw [hfreeU, mem_freeUnitsOf, mem_freeUnitsOf]
    constructor
    · rintro ⟨hr, h0⟩
      have hx : x ∉ cl := fun hx => hnz x hx h0
      exact ⟨⟨hr, by rw [← o.others x hx (by omega)]; exact h0⟩, hx⟩
    · rintro ⟨⟨hr, h0⟩, hx⟩
      exact ⟨hr, by rw [o.others x hx (by omega)]; exact h0⟩
  have hb' : buildFiles false (dirOfBytes (rootBuf d)) = .ok files := by rw [← inv.lf]; exact hb
  have hp : (newRec d.bpb fi.chunks e3 cl).path ∉ (volOf d).paths := by
    show entPath [] e3 ∉ (volOf d).paths
    rw [hpath3]
    exact not_mem_paths_iff.2 (not_listed inv a hk n4 n5 hb' hl)
  have hchunks : (newRec d.bpb fi.chunks e3 cl).chunks = (List.range fi.end).map (fun k => (k, blockOf d.bpb fi.chunks k)) := by
    show ((List.range cl.length).map (blockOf d.bpb fi.chunks)).zipIdx.map (fun (d, i) => (i, d)) = _
    rw [zipIdx_range, o.len]
  have hc : ((newRec d.bpb fi.chunks e3 cl).chunks.map (·.1)).Pairwise (· < ·) := by
    rw [hchunks, List.map_map]
    have : ((fun x : Nat × Bytes => x.1) ∘ fun k => (k, blockOf d.bpb fi.chunks k)) = id := by funext k; rfl
    rw [this, List.map_id]
    exact List.pairwise_lt_range
  have hcm : chunksMatch (chunksOf fi) (newRec d.bpb fi.chunks e3 cl).chunks = true := by
    rw [hchunks]
    unfold chunksOf
    apply chunksMatch_blocks
    intro k hk
    unfold blockOf
    have hfit := pfits k hk
    rw [takeN_of_le hfit]
    apply quantize_take
    have : d.bpb.blockSize = d.bpb.spc * 512 := by unfold Bpb.blockSize; rw [g.bps]
    omega
  have hvol3 : volOf d3 = inserted (volOf d) R1.flatten R2.flatten (newRec d.bpb fi.chunks e3 cl) (freeUnitsOf d.bpb f1) := by
    rw [volOf_of_read hread3, hv]
    rfl
  have hwf3 := wfB_insert hfilesv hwf o.nodup hgf (freeUnitsOf_nodup d.bpb f1) hfree' hp hc
  have hnl3 := noLeak_inserted (g := newRec d.bpb fi.chunks e3 cl) hfilesv hnl hfree'
  rw [← hvol3] at hwf3 hnl3
  refine ⟨⟨_, h1.symm⟩, ?_, R1.flatten, R2.flatten, newRec d.bpb fi.chunks e3 cl, freeUnitsOf d.bpb f1, hfilesv, hpath3, rfl,
    o.nodup, hgf, freeUnitsOf_nodup d.bpb f1, hfree', hp, hc, hcm, q5, hvol3⟩
  have hread3' : readT d3.raw = .ok (volOf d3) := by rw [volOf_of_read hread3]; exact hread3
  refine { lf := hlf3, geo := g3, coh := ⟨f1, c3⟩, root := ?_, tail := ?_, read := ⟨_, hread3', hwf3, hnl3⟩ }
  · intro x hx hx0 hx5 hxl
    rw [hE3] at hx
    have hxo : x ∈ dirOfBytes (rootBuf d) ∨ x = e3 := by
      rw [hE]
      simp only [List.mem_append, List.mem_cons] at hx ⊢
      rcases hx with h | h | h
      · exact Or.inl (Or.inl h)
      · exact Or.inr h
      · exact Or.inl (Or.inr (Or.inr h))
    cases hxo with
    | inl hx' => exact inv.root x hx' hx0 hx5 hxl
    | inr hx' =>
      subst hx'
      exact ⟨by omega, n8, hgood3⟩
  · rw [hE3]
    exact tailZero_replace htail hE1end n6

end A2Verif.FsFat
