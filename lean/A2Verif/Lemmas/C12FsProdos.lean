import A2Verif.Model.C12FsId
/-!
# C12, ProDOS: total work of the recursive directory walks (`tree_node`, `glob_node`)

With the visit budget of repair `c12fs-prodos-directory-visit-budget` the walk enters at most `total_blocks + 1`
directories and reads at most `100` blocks in each, whatever the image and whatever the nesting-cap branch does.
Proof: one invariant (`Inv`) carried through the three mutually nested loops; the recursive call is abstracted as a
function satisfying `RecOk`.  Core Lean only.
-/
namespace A2Verif.C12FsId.Prodos
open A2Verif.Fs.Prodos

/-- what every piece of the walk guarantees about its result `res` when started from `w` with `k` block reads of
slack: the visit counter stays within the budget (strictly within it on success), never decreases, and the
reads stay covered by `100 · visits` -/
def Post (total k : Nat) (w : Walk) (res : R Unit × Walk) : Prop :=
  res.2.visits ≤ total + 1 ∧ (∀ a, res.1 = .ok a → res.2.visits ≤ total) ∧
  res.2.reads + k ≤ 100 * res.2.visits ∧ w.visits ≤ res.2.visits

/-- the contract of the recursive call -/
def RecOk (total : Nat) (rec : Nat → Walk → R Unit × Walk) : Prop :=
  ∀ (b : Nat) (w : Walk) (k : Nat), w.visits ≤ total → w.reads + k ≤ 100 * w.visits → Post total k w (rec b w)

theorem Post.intro {total k : Nat} {w : Walk} {res : R Unit} {w' : Walk} (h1 : w'.visits ≤ total + 1)
    (h2 : ∀ a, res = .ok a → w'.visits ≤ total) (h3 : w'.reads + k ≤ 100 * w'.visits) (h4 : w.visits ≤ w'.visits) :
    Post total k w (res, w') := ⟨h1, h2, h3, h4⟩

theorem entryLoop_post {total : Nat} {rec : Nat → Walk → R Unit × Walk} (hrec : RecOk total rec) :
    ∀ (es : List Bytes) (w : Walk) (k : Nat), w.visits ≤ total → w.reads + k ≤ 100 * w.visits →
      Post total k w (entryLoop rec es w) := by
  intro es
  induction es with
  | nil =>
    intro w k hv hr
    unfold entryLoop
    exact Post.intro (by omega) (fun _ _ => hv) hr (Nat.le_refl _)
  | cons e es ih =>
    intro w k hv hr
    unfold entryLoop
    split
    · have hp := hrec (Ent.keyPtr e) w k hv hr
      cases hres : rec (Ent.keyPtr e) w with
      | mk res w' =>
        rw [hres] at hp
        obtain ⟨h1, h2, h3, h4⟩ := hp
        cases res with
        | error err => exact Post.intro h1 (fun a ha => by cases ha) h3 h4
        | ok u =>
          have hv' : w'.visits ≤ total := h2 u rfl
          obtain ⟨g1, g2, g3, g4⟩ := ih w' k hv' h3
          exact ⟨g1, g2, g3, Nat.le_trans h4 g4⟩
    · exact ih w k hv hr

theorem blockLoop_post {total : Nat} {r : Raw} {rec : Nat → Walk → R Unit × Walk} (hrec : RecOk total rec) :
    ∀ (fuel curr : Nat) (w : Walk) (k : Nat), w.visits ≤ total → w.reads + fuel + k ≤ 100 * w.visits →
      Post total k w (blockLoop r rec fuel curr w) := by
  intro fuel
  induction fuel with
  | zero =>
    intro curr w k hv hr
    cases curr with
    | zero => unfold blockLoop; exact Post.intro (by omega) (fun _ _ => hv) (by omega) (Nat.le_refl _)
    | succ c => unfold blockLoop; exact Post.intro (by omega) (fun a ha => by cases ha) (by omega) (Nat.le_refl _)
  | succ fuel ih =>
    intro curr w k hv hr
    cases curr with
    | zero => unfold blockLoop; exact Post.intro (by omega) (fun _ _ => hv) (by omega) (Nat.le_refl _)
    | succ c =>
      unfold blockLoop
      cases hd : dirAt r (c + 1) with
      | error e =>
        exact Post.intro (w' := { w with reads := w.reads + 1 }) (by show w.visits ≤ total + 1; omega) (fun a ha => by cases ha)
          (by show w.reads + 1 + k ≤ 100 * w.visits; omega) (Nat.le_refl _)
      | ok dir =>
        have hp := entryLoop_post hrec (dirEntries dir) { w with reads := w.reads + 1 } (fuel + k) hv
          (by show w.reads + 1 + (fuel + k) ≤ 100 * w.visits; omega)
        simp only []
        generalize entryLoop rec (dirEntries dir) { w with reads := w.reads + 1 } = x at hp ⊢
        match x, hp with
        | (res, w'), hp =>
          obtain ⟨h1, h2, h3, h4⟩ := hp
          have h3' : w'.reads + (fuel + k) ≤ 100 * w'.visits := h3
          have h4' : w.visits ≤ w'.visits := h4
          cases res with
          | error err => exact Post.intro h1 (fun a ha => by cases ha) (by omega) h4'
          | ok u =>
            have hv' : w'.visits ≤ total := h2 u rfl
            obtain ⟨g1, g2, g3, g4⟩ := ih dir.next w' k hv' (by omega)
            exact ⟨g1, g2, g3, Nat.le_trans h4' g4⟩

/-- **the walk with the visit budget**: from a state within the budget, whatever the image, whatever the nesting-cap
branch returns -/
theorem walkNode_post (capErr : Bool) (r : Raw) (total : Nat) : ∀ depth : Nat, RecOk total (walkNode true capErr r total depth) := by
  intro depth
  induction depth with
  | zero =>
    intro b w k hv hr
    unfold walkNode
    split
    · exact Post.intro (by omega) (fun a ha => by cases ha) hr (Nat.le_refl _)
    · exact Post.intro (by omega) (fun _ _ => hv) hr (Nat.le_refl _)
  | succ d ih =>
    intro b w k hv hr
    unfold walkNode
    simp only [true_and]
    split
    · exact Post.intro (w' := { w with visits := w.visits + 1 }) (by show w.visits + 1 ≤ total + 1; omega) (fun a ha => by cases ha)
        (by show w.reads + k ≤ 100 * (w.visits + 1); omega) (by show w.visits ≤ w.visits + 1; omega)
    · rename_i hb
      have hb' : w.visits + 1 ≤ total := by
        have : ¬ (w.visits + 1 > total) := hb
        omega
      obtain ⟨h1, h2, h3, h4⟩ := blockLoop_post (r := r) ih 100 b { w with visits := w.visits + 1 } k hb'
        (by show w.reads + 100 + k ≤ 100 * (w.visits + 1); omega)
      have h4' : w.visits + 1 ≤ (blockLoop r (walkNode true capErr r total d) 100 b { w with visits := w.visits + 1 }).2.visits := h4
      exact ⟨h1, h2, h3, by omega⟩

/-- the nesting level never exceeds the cap: the walk is a structural recursion on `depthLeft`, so the Rust recursion
is at most `depthLeft + 1` frames deep whatever the flags (33 + 1 for `tree`, 32 + 1 for `glob`) — recorded here as the
fact that with no levels left no block is read and no directory entered -/
theorem walkNode_zero (budget capErr : Bool) (r : Raw) (total b : Nat) (w : Walk) :
    (walkNode budget capErr r total 0 b w).2 = w := by
  unfold walkNode; split <;> rfl

end A2Verif.C12FsId.Prodos
