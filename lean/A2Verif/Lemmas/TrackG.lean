import A2Verif.Lemmas.TrackPos
/-!
Sectors as both formatters leave them — with a data field (`some nibs`) or, on a freshly formatted
13-sector track, without one (`none`: ten sync bytes and 417 `FF`) — and one try of the sector search on
them, with the bit pointer accounted for.
-/
namespace A2Verif.Model.Track
open Head A2Verif.Model.Nibble

structure GSec where
  id : Nat
  /-- disk bytes of the data field between prolog and epilog; `none` = never written -/
  fld : Option (List Nat)
  /-- number of sync cells behind the data area -/
  gap : Nat

/-- the data area the 13-sector formatter lays down: ten sync bytes, 417 `FF` -/
def blankCells (f : Fmt) : List Cell := syncCells f 10 ++ (f.z, 0xff) :: plain (List.replicate 416 0xff)

def gfield (f : Fmt) : Option (List Nat) → List Cell
  | some nibs => fieldCells f nibs
  | none => blankCells f

/-- data area and gap of a sector: everything between its address field and the next one -/
def FG (f : Fmt) (s : GSec) : List Cell := gfield f s.fld ++ syncCells f s.gap

def gsecCells (f : Fmt) (vol trk : Nat) (s : GSec) : List Cell := addrCells f vol trk s.id ++ FG f s

def gsecsCells (f : Fmt) (vol trk : Nat) (l : List GSec) : List Cell := (l.map (gsecCells f vol trk)).flatten

theorem gsecsCells_cons (f : Fmt) (vol trk : Nat) (s : GSec) (l : List GSec) :
    gsecsCells f vol trk (s :: l) = gsecCells f vol trk s ++ gsecsCells f vol trk l := by
  simp [gsecsCells]

theorem gsecsCells_append (f : Fmt) (vol trk : Nat) (a b : List GSec) :
    gsecsCells f vol trk (a ++ b) = gsecsCells f vol trk a ++ gsecsCells f vol trk b := by
  simp [gsecsCells]

theorem gsecsCells_nil (f : Fmt) (vol trk : Nat) : gsecsCells f vol trk [] = [] := rfl

def GoodFld (f : Fmt) : Option (List Nat) → Prop
  | some nibs => (∀ v ∈ nibs, CleanNib v) ∧ nibs.length = f.dataNibs
  | none => f.six = false

def GoodG (f : Fmt) (s : GSec) : Prop :=
  s.id < 256 ∧ GoodFld f s.fld ∧ (FG f s).length + 3 ≤ f.maxTries

/-! ## every suffix of a data area + gap is passed by the address prolog search -/

theorem mem_drop {α} {a : α} {l : List α} {c : Nat} (h : a ∈ l.drop c) : a ∈ l := List.mem_of_mem_drop h

theorem runM_d5_aa_ad (f : Fmt) (tl : List Nat) :
    runM f.adrPro proMask 0 (0xd5 :: 0xaa :: 0xad :: tl) = runM f.adrPro proMask 0 tl := by
  have : ∀ six : Bool, runM [0xd5, 0xaa, if six then 0x96 else 0xb5] proMask 0 (0xd5 :: 0xaa :: 0xad :: tl) =
      runM [0xd5, 0xaa, if six then 0x96 else 0xb5] proMask 0 tl := by
    intro six
    cases six <;> simp [runM, stepM, proMask]
  exact this f.six

theorem runM_suffix (f : Fmt) (s r : List Nat) (hs : ∀ v ∈ s, v < 256 ∧ v ≠ 0xd5) (hr : ∀ v ∈ r, v < 256 ∧ v ≠ 0xd5)
    (c : Nat) : runM f.adrPro proMask 0 ((s ++ 0xd5 :: 0xaa :: 0xad :: r).drop c) = some 0 := by
  by_cases hc : c ≤ s.length
  · rw [List.drop_append_of_le_length hc]
    have h1 : runM f.adrPro proMask 0 (s.drop c) = some 0 := by
      unfold Fmt.adrPro
      exact runM_quiet _ _ _ (fun v hv => hs v (mem_drop hv))
    rw [runM_append _ _ _ _ 0 0 h1, runM_d5_aa_ad]
    unfold Fmt.adrPro
    exact runM_quiet _ _ _ hr
  · have hc' : s.length < c := by omega
    obtain ⟨j, hj⟩ : ∃ j, c = s.length + (j + 1) := ⟨c - s.length - 1, by omega⟩
    rw [hj, ← List.drop_drop, List.drop_left]
    simp only [List.drop_succ_cons]
    unfold Fmt.adrPro
    apply runM_quiet
    intro v hv
    have := mem_drop hv
    simp only [List.mem_cons] at this
    rcases this with h | h | h
    · subst h; decide
    · subst h; decide
    · exact hr v h

theorem epi_bytes : ∀ v ∈ epi, v < 256 ∧ v ≠ 0xd5 := by
  intro v h
  simp only [epi, List.mem_cons, List.not_mem_nil, or_false] at h
  rcases h with h | h | h <;> subst h <;> decide

theorem gfield_valid (f : Fmt) (fld : Option (List Nat)) (hg : GoodFld f fld) : ∀ c ∈ gfield f fld, ValidCell c := by
  intro c hc
  cases fld with
  | none =>
    simp only [gfield, blankCells, List.mem_append, List.mem_cons] at hc
    rcases hc with h | h | h
    · exact syncCells_valid f 10 c h
    · subst h; simp [ValidCell]
    · exact plain_valid _ (by intro b hb; rw [List.eq_of_mem_replicate hb]; decide) c h
  | some nibs =>
    have hn := hg.1
    simp only [gfield, fieldCells, List.mem_append, List.mem_cons] at hc
    rcases hc with h | h | h
    · exact syncCells_valid f 10 c h
    · subst h; simp [ValidCell]
    · refine plain_valid _ ?_ c h
      intro b hb
      simp only [List.cons_append, List.nil_append, List.mem_cons, List.mem_append] at hb
      rcases hb with h | h | h | h
      · subst h; decide
      · subst h; decide
      · exact ⟨(hn b h).1, (hn b h).2.1⟩
      · have := epi_bytes b h
        simp only [epi, List.mem_cons, List.not_mem_nil, or_false] at h
        rcases h with h | h | h <;> subst h <;> decide

theorem FG_valid (f : Fmt) (s : GSec) (hg : GoodFld f s.fld) : ∀ c ∈ FG f s, ValidCell c := by
  intro c hc
  rcases List.mem_append.1 hc with h | h
  · exact gfield_valid f s.fld hg c h
  · exact syncCells_valid f s.gap c h

/-- **Every suffix of a data area and its gap is quiet**: wherever an operation leaves the head in there
(at a cell boundary), the next address prolog search passes the rest without a match and in matcher state 0. -/
theorem quiet_FG_drop (f : Fmt) (s : GSec) (hg : GoodFld f s.fld) (c : Nat) : Quiet f ((FG f s).drop c) := by
  refine ⟨fun x hx => FG_valid f s hg x (mem_drop hx), ?_⟩
  rw [List.map_drop]
  cases hfl : s.fld with
  | none =>
    unfold Fmt.adrPro
    apply runM_quiet
    intro v hv
    have hv := mem_drop hv
    simp only [FG, hfl, gfield, blankCells, List.map_append, List.map_cons, plain_bytes, List.mem_append, List.mem_cons] at hv
    rcases hv with (h | h | h) | h
    · exact syncCells_bytes f 10 v h
    · subst h; decide
    · rw [List.eq_of_mem_replicate h]; decide
    · exact syncCells_bytes f s.gap v h
  | some nibs =>
    rw [hfl] at hg
    have e : (FG f s).map (fun c : Cell => c.2) =
        (syncCells f 10).map (·.2) ++ 0xd5 :: 0xaa :: 0xad :: (nibs ++ epi ++ (syncCells f s.gap).map (·.2)) := by
      simp [FG, hfl, gfield, fieldCells, plain_bytes]
    rw [e]
    apply runM_suffix
    · exact syncCells_bytes f 10
    · intro v hv
      simp only [List.mem_append] at hv
      rcases hv with (h | h) | h
      · exact ⟨(hg.1 v h).2.1, (hg.1 v h).2.2⟩
      · exact epi_bytes v h
      · exact syncCells_bytes f s.gap v h

theorem quiet_FG (f : Fmt) (s : GSec) (hg : GoodFld f s.fld) : Quiet f (FG f s) := by
  simpa using quiet_FG_drop f s hg 0

/-! ## one try of `find_sector`, with the pointer -/

theorem St.cast {n : Nat} {t : Trk} {X X' : List Cell} {q q' : Nat} (h : St n t X q) (hx : X = X') (hq : q = q') :
    St n t X' q' := by subst hx; subst hq; exact h

theorem decodeAddr_st (n : Nat) (t : Trk) (vol trk id : Nat) (hv : vol < 256) (ht : trk < 256) (hi : id < 256)
    (cs : List Cell) (q : Nat) (h : St n t (plain (addrBytes vol trk id) ++ cs) q) :
    (decodeAddr t).1 = (vol, trk, id, 0 ^^^ vol ^^^ trk ^^^ id) ∧
    St n (decodeAddr t).2 (cs ++ plain (addrBytes vol trk id)) (q + blen (plain (addrBytes vol trk id))) := by
  have hlen : (plain (addrBytes vol trk id)).length = 8 := by simp [plain, addrBytes, encode44]
  obtain ⟨r1, r2⟩ := readLatchN_st n (plain (addrBytes vol trk id)) t cs q
    (plain_valid _ (addrBytes_valid vol trk id hv ht hi)) h
  rw [hlen] at r1 r2
  have hc : 0 ^^^ vol ^^^ trk ^^^ id < 256 := by
    have h8 : (256 : Nat) = 2 ^ 8 := rfl
    rw [Nat.zero_xor, h8]
    exact Nat.xor_lt_two_pow (Nat.xor_lt_two_pow hv ht) hi
  refine ⟨?_, by simp only [decodeAddr]; exact r2⟩
  simp only [decodeAddr, r1, plain_bytes, addrBytes, encode44, List.cons_append, List.nil_append,
    List.getD_cons_zero, List.getD_cons_succ]
  rw [decode44_encode44_fin ⟨vol, hv⟩, decode44_encode44_fin ⟨trk, ht⟩, decode44_encode44_fin ⟨id, hi⟩,
    decode44_encode44_fin ⟨_, hc⟩]

/-- **One try of the sector search** (as `findSectorLoop_try`), with the pointer and a start that may be
inside the leading zeros of the first cell. -/
theorem findSectorLoop_try_st (n : Nat) (f : Fmt) (vol trk id sec fuel : Nat) (hv : vol < 256) (ht : trk < 256) (hi : id < 256)
    (t : Trk) (pre after : List Cell) (q k : Nat) (hq : Quiet f pre) (hf : pre.length + 3 ≤ f.maxTries)
    (h : StK n t (pre ++ addrCells f vol trk id ++ after) q k)
    (hsl : SlackOk k (pre ++ addrCells f vol trk id ++ after)) :
    ∃ t' : Trk, St n t' (after ++ pre ++ addrCells f vol trk id) (q + blen (pre ++ addrCells f vol trk id)) ∧
      findSectorLoop f trk sec (fuel + 1) t =
        if sec = id then (.ok (), t') else findSectorLoop f trk sec fuel t' := by
  let p3 : Nat := if f.six then 0x96 else 0xb5
  have hp3 : ValidCell (0, p3) := by
    show 128 ≤ p3 ∧ p3 < 256
    simp only [p3]; split <;> decide
  have hcells : pre ++ addrCells f vol trk id ++ after =
      (pre ++ [(f.z, 0xd5), (0, 0xaa)]) ++ (0, p3) :: (plain (addrBytes vol trk id) ++ (plain epi ++ after)) := by
    simp [addrCells, plain, p3]
  have hrun : runM f.adrPro proMask 0 ((pre ++ [(f.z, 0xd5), (0, 0xaa)]).map (fun c : Cell => c.2)) = some 2 := by
    rw [List.map_append, runM_append _ _ _ _ 0 0 hq.2]
    have : ∀ six : Bool, runM [0xd5, 0xaa, if six then 0x96 else 0xb5] proMask 0 [0xd5, 0xaa] = some 2 := by
      intro six; cases six <;> simp [runM, stepM, proMask]
    exact this f.six
  have hstep : stepM f.adrPro proMask 2 p3 = f.adrPro.length := by
    simp only [Fmt.adrPro, p3, stepM, proMask]; simp
  obtain ⟨a1, a2⟩ := findPat_hit_st n f f.adrPro proMask none t (pre ++ [(f.z, 0xd5), (0, 0xaa)]) (0, p3)
    (plain (addrBytes vol trk id) ++ (plain epi ++ after)) 2 q k (by simp [Fmt.adrPro])
    (by
      intro x hx
      simp only [List.mem_append, List.mem_cons, List.not_mem_nil, or_false] at hx
      rcases hx with (h | h | h) | h
      · exact hq.1 x h
      · subst h; simp [ValidCell]
      · subst h; simp [ValidCell]
      · subst h; exact hp3)
    (by rw [← hcells]; exact h) (by rw [← hcells]; exact hsl) hrun hstep (by simp; omega) (by intro c hc; cases hc)
  obtain ⟨b1, b2⟩ := decodeAddr_st n (findPat f f.adrPro proMask none t).2 vol trk id hv ht hi
    ((plain epi ++ after) ++ (pre ++ [(f.z, 0xd5), (0, 0xaa)]) ++ [(0, p3)]) _ (a2.cast (by simp) rfl)
  have hrun2 : runM epi epiMask 0 (([(0, 0xde), (0, 0xaa)] : List Cell).map (fun c : Cell => c.2)) = some 2 := by
    simp [runM, stepM, epi, epiMask]
  have hstep2 : stepM epi epiMask 2 ((0, 0xeb) : Cell).2 = epi.length := by
    simp [stepM, epi, epiMask]
  obtain ⟨c1, c2⟩ := findPat_hit_st n f epi epiMask (some 10) (decodeAddr (findPat f f.adrPro proMask none t).2).2
    [(0, 0xde), (0, 0xaa)] (0, 0xeb)
    (after ++ (pre ++ [(f.z, 0xd5), (0, 0xaa)]) ++ [(0, p3)] ++ plain (addrBytes vol trk id)) 2 _ 0 (by simp [epi])
    (by intro x hx; simp at hx; rcases hx with h | h | h <;> subst h <;> simp [ValidCell])
    (b2.cast (by simp [plain, epi]) rfl) (slackOk_zero _) hrun2 hstep2 (by simp; omega)
    (by intro c hc; cases hc; simp)
  refine ⟨(findPat f epi epiMask (some 10) (decodeAddr (findPat f f.adrPro proMask none t).2).2).2, ?_, ?_⟩
  · refine c2.cast (by simp [addrCells, plain, p3, epi]) ?_
    have e : pre ++ addrCells f vol trk id = (pre ++ [(f.z, 0xd5), (0, 0xaa)] ++ [(0, p3)]) ++
        plain (addrBytes vol trk id) ++ ([(0, 0xde), (0, 0xaa)] ++ [(0, 0xeb)]) := by
      simp [addrCells, plain, p3, epi]
    rw [e]
    simp only [blen_append]
    omega
  · simp only [findSectorLoop, a1, b1, c1, Bool.not_true, Bool.false_eq_true, if_false, Nat.zero_xor,
      ne_eq, not_true_eq_false, Nat.xor_self]
    by_cases hs : sec = id
    · simp [hs]
    · simp [hs]

end A2Verif.Model.Track
