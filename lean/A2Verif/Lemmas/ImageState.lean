import A2Verif.Model.ImageState
/-!
Lemmas about the head-position model (`Model/ImageState.lean`).
-/
namespace A2Verif.ImageState

/-- address fields are pairwise different (no duplicated sector on the track) -/
def Distinct (t : Track) : Prop := (t.map (·.1)).Nodup

theorem find_append_comm (a b : Track) (s : Nat) (h : Distinct (a ++ b)) :
    (b ++ a).find? (fun x => x.1 == s) = (a ++ b).find? (fun x => x.1 == s) := by
  simp only [List.find?_append]
  cases ha : a.find? (fun x => x.1 == s) with
  | none => simp
  | some x =>
    cases hb : b.find? (fun x => x.1 == s) with
    | none => simp
    | some y =>
      exfalso
      have hx := List.find?_some ha
      have hy := List.find?_some hb
      have hxm := List.mem_of_find?_eq_some ha
      have hym := List.mem_of_find?_eq_some hb
      simp only [beq_iff_eq] at hx hy
      unfold Distinct at h
      rw [List.map_append, List.nodup_append] at h
      exact h.2.2 x.1 (List.mem_map_of_mem hxm) y.1 (List.mem_map_of_mem hym) (hx.trans hy.symm)

/-- **the data a sector read returns does not depend on where the head is** (distinct address fields) -/
theorem readSector_data_head_independent (t : Track) (hd : Distinct t) (h s : Nat) :
    ((fromHead t h).find? (fun x => x.1 == s)) = t.find? (fun x => x.1 == s) := by
  unfold fromHead
  have e : t.take h ++ t.drop h = t := List.take_append_drop h t
  have := find_append_comm (t.take h) (t.drop h) s (by rw [e]; exact hd)
  rw [this, e]

theorem indexOf_isSome_iff_find (s : Nat) (l : Track) :
    (indexOf s l).isSome = (l.find? (fun x => x.1 == s)).isSome := by
  induction l with
  | nil => rfl
  | cons x xs ih =>
    unfold indexOf
    by_cases hx : (x.1 == s) = true
    · simp [hx]
    · simp only [hx, Bool.false_eq_true, if_false, List.find?_cons]
      simp [ih]

theorem readSector_fst (t : Track) (hd : Distinct t) (h s : Nat) :
    (readSector t h s).1 = (t.find? (fun x => x.1 == s)).map (·.2) := by
  unfold readSector
  have e := readSector_data_head_independent t hd h s
  have hi := indexOf_isSome_iff_find s (fromHead t h)
  rw [e] at hi ⊢
  cases hf : t.find? (fun x => x.1 == s) with
  | none => simp
  | some x =>
    rw [hf] at hi
    cases hk : indexOf s (fromHead t h) with
    | none => rw [hk] at hi; simp at hi
    | some k => simp

end A2Verif.ImageState
