import A2Verif.Lemmas.FsFatCongr
import A2Verif.Lemmas.FsFatAttr
/-!
# Refinement of `delete` of a root-level file in the concrete FAT model
-/
namespace A2Verif.FsFat
open A2Verif A2Verif.Fs.Fat A2Verif.Read.Fat A2Verif.Read.FatT
open A2Verif.FsDos (removed stepOk_delete_removed wfB_remove)

theorem geo_setFat {d : Disk} (g : Geo d) (o : Option (Array Nat)) : Geo { d with fat := o } :=
  { boot := g.boot, ulen := g.ulen, usz := g.usz, bps := g.bps, spc := g.spc, nfat := g.nfat, fat16 := g.fat16, spt := g.spt,
    heads := g.heads, typ := g.typ, ftyp := g.ftyp, rsvd := g.rsvd, fits := g.fits, chs := g.chs }

theorem and1 (a : Nat) : (a &&& 1 > 0) ↔ a % 2 = 1 := by
  have := and_bit a 0
  simp only [Nat.pow_zero, Nat.div_one] at this
  rw [this]
  split <;> simp_all

theorem rootBuf_congr {d d' : Disk} (hb : d'.bpb = d.bpb) (h : ∀ u, d.bpb.rootBeg ≤ u → d'.raw.units[u]? = d.raw.units[u]?) :
    rootBuf d' = rootBuf d := by
  unfold rootBuf
  rw [hb]
  congr 1
  apply List.map_congr_left
  intro k _
  simp only [Array.getD_eq_getD_getElem?]
  rw [h _ (by omega)]

/-- the free units of the reading after some FAT entries were zeroed -/
theorem freeUnitsOf_zeroed {b : Fs.Fat.Bpb} {f f' : Array Nat} {cl : List Nat} (hin : ∀ x ∈ cl, 2 ≤ x ∧ x < 2 + b.clusterCountUsable)
    (h0 : ∀ x ∈ cl, nxt f' x = 0) (hs : ∀ x, x ∉ cl → nxt f' x = nxt f x) :
    (freeUnitsOf b f').Nodup ∧ ∀ x, x ∈ freeUnitsOf b f' ↔ x ∈ freeUnitsOf b f ∨ x ∈ cl := by
  have hmem : ∀ (g : Array Nat) x, x ∈ freeUnitsOf b g ↔ (2 ≤ x ∧ x < 2 + b.clusterCountUsable) ∧ nxt g x = 0 := by
    intro g x
    unfold freeUnitsOf
    simp only [List.mem_filter, List.mem_map, List.mem_range, fatEntry_eq, decide_eq_true_eq]
    constructor
    · rintro ⟨⟨k, hk, rfl⟩, h⟩; exact ⟨⟨by omega, by omega⟩, h⟩
    · rintro ⟨⟨h1, h2⟩, h⟩; exact ⟨⟨x - 2, by omega, by omega⟩, h⟩
  refine ⟨?_, ?_⟩
  · unfold freeUnitsOf
    apply List.Nodup.sublist List.filter_sublist
    have : (List.range b.clusterCountUsable).map (· + 2) = List.range' 2 b.clusterCountUsable := by
      rw [range'_eq_map]
      apply List.map_congr_left
      intro k _; omega
    rw [this]
    exact List.nodup_range' 1
  · intro x
    rw [hmem, hmem]
    by_cases hx : x ∈ cl
    · simp [hx, h0 x hx, hin x hx]
    · simp [hx, hs x hx]

theorem noLeak_removed {v : Vol} {F1 F2 : List FileRec} {rec : FileRec} {free' : List Nat} (hv : v.files = F1 ++ rec :: F2)
    (hn : v.noLeak = true) (hfree : ∀ x, x ∈ free' ↔ x ∈ v.freeUnits ∨ x ∈ rec.owned) : (removed v F1 F2 free').noLeak = true := by
  unfold Vol.noLeak at hn ⊢
  rw [List.all_eq_true] at hn ⊢
  intro u hu
  have := hn u hu
  have hao : v.allOwned = F1.flatMap (·.owned) ++ (rec.owned ++ F2.flatMap (·.owned)) := by
    unfold Vol.allOwned; rw [hv]; simp [List.flatMap_append, List.flatMap_cons]
  have hao' : (removed v F1 F2 free').allOwned = F1.flatMap (·.owned) ++ F2.flatMap (·.owned) := by
    unfold Vol.allOwned removed; simp [List.flatMap_append]
  simp only [Bool.or_eq_true, List.contains_iff_mem, hao, List.mem_append] at this
  simp only [Bool.or_eq_true, List.contains_iff_mem, hao', List.mem_append]
  show ((u ∈ F1.flatMap (·.owned) ∨ u ∈ F2.flatMap (·.owned)) ∨ u ∈ v.sys) ∨ u ∈ free'
  rw [hfree]
  rcases this with ((h | h | h) | h) | h
  · exact Or.inl (Or.inl (Or.inl h))
  · exact Or.inr (Or.inr h)
  · exact Or.inl (Or.inl (Or.inr h))
  · exact Or.inl (Or.inr h)
  · exact Or.inr (Or.inl h)

/-- the run of `delete` of a root-level name on a state with `Geo`: refused without a change (missing, unreadable
directory, read-only), or — for an entry without the directory attribute — the entry is erased and the chain from its
first cluster is de-allocated -/
theorem delete_run {d : Disk} (g : Geo d) {p : Bytes} (a : RootArg p) :
    (∃ er, delete p d = (.error er, d)) ∨
    ∃ E1 e E2 nm ty, dirOfBytes (rootBuf d) = E1 ++ e :: E2 ∧ (∀ x ∈ E1, entryType x ≠ .freeAndNoMore) ∧ inMap d.labelFiles e ∧
      fileNameToSplit e = some (nm, ty) ∧ keyOf p = nm ++ [46] ++ ty ∧ e.getD 11 0 % 2 = 0 ∧
      ((e.getD 11 0 / 16) % 2 = 0 → delete p d = deallocateChain (le16 e 26) (rootWrite d E1.length (Entry.erase e))) := by
  unfold delete
  rw [M_bind_apply, gotoPath_root g a]
  cases hb : buildFiles d.labelFiles (dirOfBytes (rootBuf d)) with
  | error er => exact Or.inl ⟨er, rfl⟩
  | ok files =>
    simp only []
    cases hl : files.lookup (keyOf p) with
    | none => exact Or.inl ⟨_, rfl⟩
    | some fi =>
      simp only []
      have hbl := buildLoop_lookup d.labelFiles _ 0 0 [] files hb (keyOf p) fi hl
      cases hbl with
      | inl h => simp [List.lookup] at h
      | inr h =>
        obtain ⟨E1, e, E2, nm, ty, hE, hidx, hE1, hin, hn, hk, hfi⟩ := h
        have hidx' : fi.idx = E1.length := by omega
        rw [hidx'] at hfi
        subst hfi
        have hw : (infoOf e E1.length).wildcard = false := rfl
        simp only [hw, Bool.false_eq_true, if_false]
        by_cases hro : (infoOf e E1.length).readOnly = true
        · left
          simp only [hro, if_true]
          exact ⟨_, rfl⟩
        · right
          have hro' : e.getD 11 0 % 2 = 0 := by
            have : ¬ (Entry.attr e &&& READ_ONLY > 0) := by simpa [infoOf] using hro
            unfold READ_ONLY Entry.attr at this
            rw [and1] at this
            omega
          refine ⟨E1, e, E2, nm, ty, hE, hE1, hin, hn, hk, hro', ?_⟩
          intro hb4
          have hdir : (infoOf e E1.length).directory = false := by
            have : ¬ (Entry.attr e &&& DIRECTORY > 0) := by
              unfold DIRECTORY Entry.attr
              rw [and16]; omega
            simpa [infoOf] using this
          have hlen : E1.length < (dirOfBytes (rootBuf d)).length := by rw [hE]; simp
          have hent : dirEntry (dirOfBytes (rootBuf d)) E1.length = .ok e := by
            unfold dirEntry
            rw [hE]
            simp
          have hi : (infoOf e E1.length).idx = E1.length := rfl
          have hc1 : (infoOf e E1.length).cluster1 = some (le16 e 26) := rfl
          simp only [hro, Bool.false_eq_true, if_false, hdir, M_bind_apply, M_pure_apply, FInfo.root, getDirectory,
            getRootDir_eq g, M.lift, hi, hent, hc1, writebackRoot_eq g hlen]

/-- the de-allocation of the chain the reader found for a file entry -/
theorem dealloc_of_reading {d1 : Disk} {f : Array Nat} (w : WOk d1 f) {c1 size : Nat} {cl : List Nat}
    (hch : fileChain f false (hiOf d1.bpb) c1 size = .ok cl) :
    ∃ f', deallocateChain c1 d1 = (.ok (), { d1 with fat := some f' }) ∧ f'.size = f.size ∧ BytesOk f' ∧
      (∀ x ∈ cl, nxt f' x = 0) ∧ (∀ x, x ∉ cl → nxt f' x = nxt f x) ∧ (∀ x ∈ cl, 2 ≤ x ∧ x < 2 + d1.bpb.clusterCountUsable) := by
  have hd : ({ d1 with fat := some f } : Disk) = d1 := by
    have := w.fat
    cases d1; simp_all
  unfold fileChain at hch
  by_cases hc0 : c1 = 0
  · rw [if_pos hc0] at hch
    split at hch
    · injection hch with hch
      subst hch
      refine ⟨f, ?_, rfl, w.bytes, by simp, fun _ _ => rfl, by simp⟩
      unfold deallocateChain
      simp only [hc0, if_true, M_pure_apply, hd]
    · cases hch
  · rw [if_neg hc0] at hch
    obtain ⟨cl', e1, e2, _, e4⟩ := chain_isChain f (hiOf d1.bpb) _ _ _ _ hch (by simp)
    have hcl : cl = cl' := by simpa using e1
    subst hcl
    have hb := e2.bounds
    have hhead := hb c1 e2.head_mem
    have hrng : clusInRng d1.bpb c1 = true := by
      unfold clusInRng hiOf firstDataCluster at *
      simp; omega
    have hlen := chain_length_le e2 e4
    obtain ⟨f', g1, g2, g3, g4, g5⟩ := deallocLoop_chain cl f c1 d1.bpb.clusterCountUsable d1 e2 w.fat w.typ w.bytes e4
      (fun x hx => w.inbuf x (by unfold hiOf at hx; unfold firstDataCluster; omega)) (by unfold hiOf at hlen; omega)
    refine ⟨f', ?_, g2, g3, g4, g5, fun x hx => by have := hb x hx; unfold hiOf at this; exact this⟩
    unfold deallocateChain
    simp only [hc0, if_false, M_bind_apply, M.get, hrng, Bool.not_true, Bool.false_eq_true]
    exact g1

/-- **`delete` of a root-level file as observed (run, then flush)**: refused without a change, or the invariant is
re-established and the reading loses exactly the record listed under `absPath p`, whose clusters become free -/
theorem delete_step_core {d : Disk} (inv : Inv d) {p : Bytes} (a : RootArg p)
    (hfile : ∀ rec, (volOf d).lookup (absPath p) = some rec → rec.isDir = false)
    {res : R Unit} {d' : Disk} (h : runFlush (delete p) d = (res, d')) :
    (∃ er, res = .error er ∧ d' = d) ∨
    (res = .ok () ∧ Inv d' ∧ ∃ F1 F2 rec free', (volOf d).files = F1 ++ rec :: F2 ∧ rec.path = absPath p ∧ rec.locked = false ∧
      free'.Nodup ∧ (∀ x, x ∈ free' ↔ x ∈ (volOf d).freeUnits ∨ x ∈ rec.owned) ∧ volOf d' = removed (volOf d) F1 F2 free') := by
  obtain ⟨f, c⟩ := inv.coh
  have g := inv.geo
  obtain ⟨hread, hwf, hnl⟩ := inv_reads_well_formed inv
  unfold runFlush at h
  rcases delete_run g a with ⟨er, hrun⟩ | ⟨E1, e, E2, nm, ty, hE, hE1, hin, hn, hk, hro, hrun⟩
  · rw [hrun] at h
    simp only [flush_noop g c] at h
    injection h with h1 h2
    exact Or.inl ⟨er, h1.symm, h2.symm⟩
  · right
    rw [inv.lf] at hin
    obtain ⟨hA, hlen, _⟩ := rootEntries_spec g
    have hmem : e ∈ dirOfBytes (rootBuf d) := by rw [hE]; simp
    have hel : e.length = 32 := hA e hmem
    have hidx : E1.length < (dirOfBytes (rootBuf d)).length := by rw [hE]; simp
    obtain ⟨hshown, hgood⟩ := shown_of_inMap inv.root hmem hel hin
    have hE1live : ∀ x ∈ E1, live x := fun x hx => live_of_type (hA x (by rw [hE]; simp [hx])) (hE1 x hx)
    -- the reading before
    rw [readT_eq g c] at hread
    obtain ⟨R1, y, R2, hy, hfiles, hlo, hhi, hsys, hfree, _, hers⟩ := readFrom_split hE hE1live hshown hread
    have hlabel : (volOf d).label = [] := by
      unfold readFrom at hread
      cases hr : readDirT d.raw (rbpb d.bpb) f false (hiOf d.bpb) 33 (rootBuf d) [] with
      | error er => rw [hr] at hread; cases hread
      | ok files =>
        rw [hr] at hread
        simp only [Except.map] at hread
        injection hread with hread
        rw [← hread]
    have hpath : entPath [] e = absPath p := by
      unfold entPath
      simp only [List.isEmpty_nil, if_true]
      exact entName_of_key hn hgood hk
    have nd := wfB_paths_nodup hwf
    have hbit4 : (e.getD 11 0 / 16) % 2 = 0 := by
      by_cases hd : (e.getD 11 0 / 16) % 2 = 1
      · obtain ⟨dr, sub, hy', hp', hdir⟩ := rdEnt_dir_head hd hy
        have hmemv : dr ∈ (volOf d).files := by rw [hfiles, hy']; simp
        have hl : (volOf d).lookup (absPath p) = some dr := by
          rw [← hpath, ← hp']
          exact find_path_of_mem nd hmemv
        have := hfile dr hl
        rw [hdir] at this
        cases this
      · omega
    rw [rdEnt_file hbit4] at hy
    cases hfr : fileRec d.raw (rbpb d.bpb) f false (hiOf d.bpb) (entPath [] e) e with
    | error er => rw [hfr] at hy; cases hy
    | ok rec =>
      rw [hfr] at hy
      injection hy with hy
      subst hy
      have hv : (volOf d).files = R1.flatten ++ rec :: R2.flatten := by rw [hfiles]; simp
      have hown := fileRec_owned hfr
      have hrec : rec.path = absPath p ∧ rec.locked = false := by
        unfold fileRec at hfr
        dsimp only at hfr
        split at hfr
        · cases hfr
        · split at hfr
          · cases hfr
          · split at hfr
            · cases hfr
            · injection hfr with hfr
              rw [← hfr]
              exact ⟨hpath, decide_eq_false (by omega)⟩
      -- the run
      have hE5 : (Entry.erase e).getD 0 0 = 0xe5 ∧ (Entry.erase e).length = 32 := by
        unfold Entry.erase splice
        cases e with
        | nil => simp at hel
        | cons x t => simp at hel ⊢; omega
      have g1 := rootWrite_geo g hidx hE5.2
      have c1 := rootWrite_coh c E1.length (Entry.erase e)
      have w1 := wok_of g1 c1
      have hbpb1 : (rootWrite d E1.length (Entry.erase e)).bpb = d.bpb := rfl
      obtain ⟨f', k1, k2, k3, k4, k5, k6⟩ := dealloc_of_reading w1 (by rw [hbpb1]; exact hown)
      rw [hrun hbit4, k1] at h
      simp only [] at h
      -- the flush
      have g2 : Geo { rootWrite d E1.length (Entry.erase e) with fat := some f' } := geo_setFat g1 _
      obtain ⟨r3, m1, g3, c3, m4⟩ := flush_spec g2 rfl (by rw [k2]; exact c1.size) k3
      rw [m1] at h
      injection h with h1 h2
      -- the state after
      generalize hd3 : ({ ({ rootWrite d E1.length (Entry.erase e) with fat := some f' } : Disk) with raw := r3 } : Disk) = d3 at g3 c3 h2
      subst h2
      have hbpb3 : d3.bpb = d.bpb := by rw [← hd3]; rfl
      have hraw3 : d3.raw = r3 := by rw [← hd3]
      have hroot3 : rootBuf d3 = rootBuf (rootWrite d E1.length (Entry.erase e)) :=
        rootBuf_congr (by rw [hbpb3]; rfl) (fun u hu => by rw [hraw3]; exact m4 u (Or.inr hu))
      have hE3 : dirOfBytes (rootBuf d3) = E1 ++ Entry.erase e :: E2 := by
        rw [hroot3, rootWrite_entries g hidx hE5.2, hE]
        simp
      -- the reading after: same directory walk, FAT changed only at the freed clusters
      have hcd : clusterData d3.raw (rbpb d.bpb) = clusterData d.raw (rbpb d.bpb) := by
        apply clusterData_congr
        intro i hi
        rw [firstData_eq g] at hi
        have hl2 := (rootEntries_spec g).2.1
        have : d.bpb.rootBeg ≤ i := by unfold Bpb.firstDataSec at hi; unfold Bpb.rootBeg; omega
        rw [hraw3, m4 i (Or.inr this)]
        apply rootWrite_units
        unfold Bpb.firstDataSec at hi
        unfold Bpb.rootBeg
        omega
      have herased := hers (rootBuf d3) (Entry.erase e) hE3 hE5.1 hE5.2
      -- `herased` reads the new root with the old FAT on the old image
      have hdisj : ∀ x ∈ (R1.flatten ++ R2.flatten).flatMap (·.owned), nxt f' x = nxt f x := by
        intro x hx
        apply k5
        intro hxc
        have hnd := (wfB_iff.1 hwf).2.1
        unfold Vol.allOwned at hnd
        rw [hv] at hnd
        have hnd' : ((R1.flatten ++ rec :: R2.flatten).flatMap (·.owned)).Nodup := (List.nodup_append.1 hnd).1
        simp only [List.flatMap_append, List.flatMap_cons] at hnd' hx
        rw [List.nodup_append] at hnd'
        obtain ⟨_, hn2, hn3⟩ := hnd'
        rw [List.nodup_append] at hn2
        rcases List.mem_append.1 hx with hx | hx
        · exact hn3 x hx x (by simp [hxc]) rfl
        · exact hn2.2.2 x hxc x hx rfl
      have hread3 : readT d3.raw = .ok (removed (volOf d) R1.flatten R2.flatten (freeUnitsOf d.bpb f')) := by
        rw [readT_eq g3 c3]
        unfold readFrom at herased ⊢
        rw [hbpb3, readDirT_congr hcd]
        cases hrd : readDirT d.raw (rbpb d.bpb) f false (hiOf d.bpb) 33 (rootBuf d3) [] with
        | error er => rw [hrd] at herased; cases herased
        | ok files =>
          rw [hrd] at herased
          simp only [Except.map] at herased
          injection herased with herased
          have hfiles3 : files = R1.flatten ++ R2.flatten := by
            have := congrArg Vol.files herased
            simpa using this
          subst hfiles3
          rw [readDirT_congr_fat _ _ f f' _ _ _ _ _ hrd hdisj]
          simp only [Except.map]
          unfold removed
          congr 1
          rw [Vol.mk.injEq]
          exact ⟨hlo.symm, hhi.symm, hsys.symm, rfl, rfl, hlabel.symm⟩
      have hvol3 := volOf_of_read hread3
      obtain ⟨fnd, ffree⟩ := freeUnitsOf_zeroed (b := d.bpb) (f := f) (f' := f') (cl := rec.owned) k6 k4 k5
      have ffree' : ∀ x, x ∈ freeUnitsOf d.bpb f' ↔ x ∈ (volOf d).freeUnits ∨ x ∈ rec.owned := by
        intro x; rw [ffree, hfree]
      have hwf3 := wfB_remove hv hwf fnd ffree'
      have hnl3 := noLeak_removed hv hnl ffree'
      refine ⟨h1.symm, ?_, R1.flatten, R2.flatten, rec, freeUnitsOf d.bpb f', hv, hrec.1, hrec.2, fnd, ffree', hvol3⟩
      have hlf3 : d3.labelFiles = false := by rw [← hd3]; exact inv.lf
      have htail : TailZero (dirOfBytes (rootBuf d3)) := by
        rw [hE3]
        have := inv.tail
        rw [hE] at this
        exact tailZero_replace this hE1 (by rw [hE5.1]; decide)
      refine { lf := hlf3, geo := g3, coh := ⟨f', c3⟩, root := ?_, tail := htail, read := ⟨_, hread3, hwf3, hnl3⟩ }
      intro x hx hx0 hx5 hxl
      rw [hE3] at hx
      have hxo : x ∈ dirOfBytes (rootBuf d) ∨ x = Entry.erase e := by
        rw [hE]
        simp only [List.mem_append, List.mem_cons] at hx ⊢
        rcases hx with h | h | h
        · exact Or.inl (Or.inl h)
        · exact Or.inr h
        · exact Or.inl (Or.inr (Or.inr h))
      cases hxo with
      | inl hx' => exact inv.root x hx' hx0 hx5 hxl
      | inr hx' => subst hx'; exact absurd hE5.1 hx5

end A2Verif.FsFat
