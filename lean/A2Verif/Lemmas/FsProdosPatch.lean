import A2Verif.Lemmas.FsProdosSub
/-!
# The volume directory after one of its slots has been rewritten

`DirPatch r r' ch B k`: the blocks of the chain `ch` keep their links, the volume header keeps its name, geometry, bitmap
pointer and block count, every slot other than slot `k + 1` of block `B` keeps its entry, the blocks stay blocks of
bytes.  What follows for the reader (chain, geometry, back links, slots, header fields) — shared by `delete`, `rename`,
`lock`, `unlock`, `retype`, `put`.
-/
namespace A2Verif.FsProdos
open A2Verif.Fs.Prodos
open A2Verif.Read.Prodos (entryAt dirChain idxPtr indexEntries readData trimName bitmapFree)
open A2Verif.Read.ProdosT

structure DirPatch (r r' : Raw) (ch : List Nat) (B k : Nat) : Prop where
  size : r'.units.size = r.units.size
  links : ∀ b ∈ ch, le16 (unitAt r' b) 0 = le16 (unitAt r b) 0 ∧ le16 (unitAt r' b) 2 = le16 (unitAt r b) 2
  hdr : ∀ j, (4 ≤ j ∧ j ≤ 36) ∨ (39 ≤ j ∧ j ≤ 42) → (unitAt r' 2).getD j 0 = (unitAt r 2).getD j 0
  ents : ∀ b ∈ ch, ∀ k', k' < 13 → (b = 2 → 1 ≤ k') → (b, k' + 1) ≠ (B, k + 1) →
    entryAt (unitAt r' b) k' 39 = entryAt (unitAt r b) k' 39
  shape : ∀ b ∈ ch, (unitAt r' b).length = 512 ∧ ∀ x ∈ unitAt r' b, x < 256

theorem DirPatch.chain {r r' : Raw} {ch : List Nat} {B k : Nat} (p : DirPatch r r' ch B k) (total : Nat)
    (hc : dirChain r total 1000 2 [] = .ok ch) : dirChain r' total 1000 2 [] = .ok ch := by
  obtain ⟨hic, _, _⟩ := dirChain_ok r total 1000 2 ch hc
  have hex := hic.exists
  apply dirChain_congr r r' total 1000 2 [] ch hc
  intro j hj blk hb
  have hj' : j < r'.units.size := by rw [p.size]; exact hex j hj
  refine ⟨unitAt r' j, raw_unit_ok r' j _ hj', ?_⟩
  rw [(p.links j hj).2, unitAt_of_get (get_of_unit r j _ blk hb)]

theorem DirPatch.geo {r r' : Raw} {ch : List Nat} {B k : Nat} (p : DirPatch r r' ch B k) (h : StdGeo r 2) : StdGeo r' 2 := by
  unfold StdGeo at h ⊢
  rw [p.hdr 35 (Or.inl (by omega)), p.hdr 36 (Or.inl (by omega))]
  exact h

theorem DirPatch.prev {r r' : Raw} {ch : List Nat} {B k : Nat} (p : DirPatch r r' ch B k) (h : PrevOk r 0 ch) : PrevOk r' 0 ch :=
  prevOk_congr r r' ch 0 (fun b hb => (p.links b hb).1) h

theorem DirPatch.hdrTotal {r r' : Raw} {ch : List Nat} {B k : Nat} (p : DirPatch r r' ch B k) : hdrTotal r' = hdrTotal r := by
  unfold FsProdos.hdrTotal le16
  rw [p.hdr 41 (Or.inr (by omega)), p.hdr 42 (Or.inr (by omega))]

theorem DirPatch.hdrBm {r r' : Raw} {ch : List Nat} {B k : Nat} (p : DirPatch r r' ch B k) : hdrBm r' = hdrBm r := by
  unfold FsProdos.hdrBm le16
  rw [p.hdr 39 (Or.inr (by omega)), p.hdr 40 (Or.inr (by omega))]

theorem DirPatch.label {r r' : Raw} {ch : List Nat} {B k : Nat} (p : DirPatch r r' ch B k) (h2 : 2 ∈ ch)
    (hlen : (unitAt r 2).length = 512) :
    (unitAt r' 2).getD 4 0 = (unitAt r 2).getD 4 0 ∧
    slice (unitAt r' 2) 5 ((unitAt r' 2).getD 4 0 % 16) = slice (unitAt r 2) 5 ((unitAt r 2).getD 4 0 % 16) := by
  have h4 := p.hdr 4 (Or.inl (by omega))
  refine ⟨h4, ?_⟩
  rw [h4]
  apply slice_congr _ _ _ _ (by rw [(p.shape 2 h2).1, hlen])
  intro j hj1 hj2
  have := Nat.mod_lt ((unitAt r 2).getD 4 0) (by decide : 16 > 0)
  exact p.hdr j (Or.inl (by omega))

/-- the slots of the patched directory -/
theorem DirPatch.slots {r r' : Raw} {ch : List Nat} {B k : Nat} (p : DirPatch r r' ch B k)
    (s1 s2 : List (Bytes × Nat × Nat)) (e : Bytes) (hsplit : dirSlots r 2 ch = s1 ++ (e, B, k + 1) :: s2)
    (h1 : ∀ y ∈ s1, y.2 ≠ (B, k + 1)) (h2 : ∀ y ∈ s2, y.2 ≠ (B, k + 1)) :
    dirSlots r' 2 ch = s1 ++ (entryAt (unitAt r' B) k 39, B, k + 1) :: s2 := by
  rw [dirSlots_change' r r' 2 ch B (k + 1) p.ents, hsplit, List.map_append, List.map_cons]
  have hmap1 : ∀ (l : List (Bytes × Nat × Nat)), (∀ y ∈ l, y.2 ≠ (B, k + 1)) →
      l.map (fun y => if y.2 = (B, k + 1) then (entryAt (unitAt r' B) (k + 1 - 1) 39, (B, k + 1)) else y) = l := by
    intro l hl
    induction l with
    | nil => rfl
    | cons a l ih =>
      rw [List.map_cons, ih (fun y hy => hl y (List.mem_cons_of_mem _ hy)), if_neg (hl a List.mem_cons_self)]
  rw [hmap1 s1 h1, hmap1 s2 h2]
  simp

theorem filter_length_mid {α : Type} (p : α → Bool) (s1 s2 : List α) (a : α) :
    ((s1 ++ a :: s2).filter p).length = (s1.filter p).length + (if p a then 1 else 0) + (s2.filter p).length := by
  rw [List.filter_append, List.filter_cons, List.length_append]
  by_cases h : p a = true
  · simp [h]; omega
  · simp [h]

/-- the units of an image after the write-back of a buffer of bytes are blocks of bytes -/
theorem wbRaw_shape (r : Raw) (bm cnt : Nat) (buf : Array Nat) (hs : ShapeOk r) (hex : ∀ i ∈ bmRange bm cnt, i < r.units.size)
    (hbs : buf.size = blockSize * cnt) (hbok : BytesOk buf) : ShapeOk (wbRaw r bm cnt buf) := by
  apply shapeOk_of_units
  intro j hj
  rw [wbRaw_size] at hj
  unfold unitAt
  rw [wbRaw_get r bm cnt buf hex j]
  by_cases hm : j ∈ bmRange bm cnt
  · rw [if_pos hm]
    simp only [Option.getD_some]
    rw [mem_bmRange] at hm
    have hl : (blockSlice buf.toList ((j - bm) * blockSize)).length = blockSize := by
      unfold blockSlice
      rw [List.length_take, List.length_drop, Array.length_toList, hbs]
      have : (j - bm + 1) * blockSize ≤ cnt * blockSize := Nat.mul_le_mul_right _ (by omega)
      rw [Nat.succ_mul] at this
      rw [Nat.mul_comm blockSize cnt]
      omega
    rw [quantize_full _ hl]
    refine ⟨hl, ?_⟩
    intro x hx
    unfold blockSlice at hx
    have hx' : x ∈ buf.toList := List.mem_of_mem_drop (List.mem_of_mem_take hx)
    obtain ⟨i, hi, rfl⟩ := List.getElem_of_mem hx'
    exact hbok i _ (by rw [← Array.getElem?_toList, List.getElem?_eq_getElem hi])
  · rw [if_neg hm]
    exact hs.unit hj

/-- **the reading after one slot of the volume directory has been rewritten** (and the blocks `Own`, which no other
record owns, may have changed), the buffer `buf3` written back: the records of the other slots are read as before, the
slot's records are read from the new image, the free list is the buffer's -/
theorem patched_reading {r r3 : Raw} (hinv : Inv r) (v : Vol) (fsL : List LRec) (ch : List Nat)
    (hread : Read.ProdosT.read r = .ok v) (htree : readTree r (hdrTotal r) = .ok (fsL, ch))
    (e : Bytes) (B k : Nat) (hxm : (e, B, k + 1) ∈ dirSlots r 2 ch)
    (Own : List Nat) (p : DirPatch r r3 ch B k)
    (hout : ∀ j, j ∉ ch → j ∉ Own → r3.units[j]? = r.units[j]?)
    (hOwn : ∀ u ∈ Own, u ∉ v.allOwned ∨
      u ∈ ((slotRecs 69 r (hdrTotal r) [] 0 (e, B, k + 1)).map (·.1)).flatMap (·.owned))
    (hshape : ShapeOk r3)
    (s1 s2 : List (Bytes × Nat × Nat)) (hs1 : s1 = sBefore (dirSlots r 2 ch) (B, k + 1)) (hs2 : s2 = sAfter (dirSlots r 2 ch) (B, k + 1))
    (e' : Bytes) (he' : e' = entryAt (unitAt r3 B) k 39)
    (hcnt : le16 (unitAt r3 2) 37 = ((s1 ++ (e', B, k + 1) :: s2).filter isAct).length)
    (hnew : isAct (e', B, k + 1) = true → ∃ z, RE 69 r3 (hdrTotal r) [] 0 (e', B, k + 1) = .ok z)
    (hnewbm : ∀ j ∈ bmRange (hdrBm r) (nbmOf (hdrTotal r)),
      j ∉ ((slotRecs 69 r3 (hdrTotal r) [] 0 (e', B, k + 1)).map (·.1)).flatMap (·.owned))
    (buf3 : Array Nat) (hbs : buf3.size = blockSize * nbmOf (hdrTotal r)) (hbok : BytesOk buf3)
    (fs' : List LRec)
    (hfs' : fs' = s1.flatMap (slotRecs 69 r (hdrTotal r) [] 0) ++ slotRecs 69 r3 (hdrTotal r) [] 0 (e', B, k + 1) ++
      s2.flatMap (slotRecs 69 r (hdrTotal r) [] 0))
    (r4 : Raw) (hr4 : r4 = wbRaw r3 (hdrBm r) (nbmOf (hdrTotal r)) buf3) :
    Read.ProdosT.read r4 = .ok {
      lo := 0, hi := hdrTotal r, sys := v.sys, files := fs'.map (·.1),
      freeUnits := (List.range (hdrTotal r)).filter (freeB buf3), label := v.label } ∧
    readTree r4 (hdrTotal r) = .ok (fs', ch) ∧ hdrTotal r4 = hdrTotal r ∧ hdrBm r4 = hdrBm r ∧
    r4.units.size = r.units.size ∧ ShapeOk r4 ∧ StdGeo r4 2 ∧ PrevOk r4 0 ch ∧
    dirSlots r4 2 ch = s1 ++ (e', B, k + 1) :: s2 ∧ (∀ y ∈ s1 ++ s2, SlotOk r4 (hdrTotal r4) y) ∧
    (∀ j, j ∉ bmRange (hdrBm r) (nbmOf (hdrTotal r)) → r4.units[j]? = r3.units[j]?) := by
  obtain ⟨hw, hn, hroot, hv, hc, hic, hnd, hchf, h2, h6, h3, hbt, hstv⟩ := root_chain_facts hinv v fsL ch hread htree
  obtain ⟨hsplit, h1, h2', hfs2, hfiles, hdisj, _, hxown, hall, hcnt0⟩ :=
    slot_split_facts hinv v fsL ch hread htree (e, B, k + 1) hxm
  simp only at hsplit h1 h2' hfs2 hfiles hdisj hxown
  simp only [← hs1, ← hs2] at hsplit h1 h2' hfs2 hfiles hdisj
  have hsz := hinv.size
  have hex3 : ∀ i ∈ bmRange (hdrBm r) (nbmOf (hdrTotal r)), i < r3.units.size := by
    intro i hi; rw [mem_bmRange] at hi; rw [p.size, ← hsz]; omega
  have htree' : readDir (69 + 1) r (hdrTotal r) 2 [] 0 = .ok (fsL, ch) := htree
  -- the slots and the tree of `r3`
  have hslots3 : dirSlots r3 2 ch = s1 ++ (e', B, k + 1) :: s2 := by
    rw [he']; exact p.slots s1 s2 e hsplit h1 h2'
  have hagree : ∀ y ∈ s1 ++ s2, isAct y = true → ∀ z, RE 69 r (hdrTotal r) [] 0 y = .ok z →
      Agree r r3 (z.flatMap (·.1.owned)) := by
    intro y hy hya z hz j hj
    have hgy : slotRecs 69 r (hdrTotal r) [] 0 y = z := by unfold slotRecs; rw [if_pos hya, hz]; rfl
    have hju : j ∈ ((slotRecs 69 r (hdrTotal r) [] 0 y).map (·.1)).flatMap (·.owned) := by
      rw [hgy, List.flatMap_map]; exact hj
    obtain ⟨ja, jx⟩ := hdisj y hy j hju
    apply hout j
    · intro hjc; exact (hchf j hjc).2.2.1 ja
    · intro hjo
      rcases hOwn j hjo with a | a
      · exact a ja
      · exact jx a
  have htree3 : readDir (69 + 1) r3 (hdrTotal r) 2 [] 0 = .ok (fs', ch) := by
    rw [hfs']
    exact readDir_change_at r r3 (hdrTotal r) 69 2 [] 0 fsL ch (by omega) hroot.geo (p.geo hroot.geo) htree'
      (p.chain (hdrTotal r) hc) (e, B, k + 1) s1 s2 hsplit h1 h2' e' hslots3 (by rw [hslots3]; exact hcnt) hagree hnew
  -- the header of `r3`
  have h2sz3 : 2 < r3.units.size := by rw [p.size, ← hsz]; omega
  have hlen2 : (unitAt r 2).length = 512 := (hinv.shape.unit (by rw [← hsz]; omega)).1
  obtain ⟨hl4, hlbl⟩ := p.label h2 hlen2
  have hnot : ∀ j ∈ bmRange (hdrBm r) (nbmOf (hdrTotal r)), j ∉ ch ++ fs'.flatMap (·.1.owned) := by
    intro j hj hm
    rcases List.mem_append.mp hm with a | a
    · exact (hchf j a).2.1 hj
    · rw [hfs', List.flatMap_append, List.flatMap_append] at a
      have hsysj : j ∈ v.sys := by
        rw [hv]; simp only
        rw [mem_bmRange] at hj
        apply List.mem_append_right
        rw [List.mem_map]; exact ⟨j - hdrBm r, List.mem_range.mpr (by omega), by omega⟩
      have hnao : j ∉ v.allOwned := by
        intro ho
        have hndw := (wfB_iff.1 hw).2.1
        rw [List.nodup_append] at hndw
        exact hndw.2.2 j ho j hsysj rfl
      have hother : ∀ (l : List (Bytes × Nat × Nat)), (∀ y ∈ l, y ∈ s1 ++ s2) →
          j ∉ (l.flatMap (slotRecs 69 r (hdrTotal r) [] 0)).flatMap (·.1.owned) := by
        intro l hl hmm
        rw [List.flatMap_assoc, List.mem_flatMap] at hmm
        obtain ⟨y, hy, hjy⟩ := hmm
        have : j ∈ ((slotRecs 69 r (hdrTotal r) [] 0 y).map (·.1)).flatMap (·.owned) := by
          rw [List.flatMap_map]; exact hjy
        exact hnao (hdisj y (hl y hy) j this).1
      rcases List.mem_append.mp a with a1 | a2
      · rcases List.mem_append.mp a1 with a11 | a12
        · exact hother s1 (fun y hy => List.mem_append_left _ hy) a11
        · apply hnewbm j hj
          rw [List.flatMap_map]; exact a12
      · exact hother s2 (fun y hy => List.mem_append_right _ hy) a2
  have hrd := read_wbRaw r3 (hdrBm r) (hdrTotal r) buf3 (unitAt r3 2) fs' ch (units_get_unitAt _ _ h2sz3)
    (by rw [hl4]; exact hstv) p.hdrTotal p.hdrBm (by rw [p.size]; exact hsz) h6 h3 hbt htree3 hnot hbs hbok
  have hget := wbRaw_get r3 (hdrBm r) (nbmOf (hdrTotal r)) buf3 hex3
  have hsame : ∀ j, j ∉ bmRange (hdrBm r) (nbmOf (hdrTotal r)) → r4.units[j]? = r3.units[j]? := by
    intro j hj; rw [hr4, hget j, if_neg hj]
  have hu4 : ∀ b ∈ ch, unitAt r4 b = unitAt r3 b := by
    intro b hb; unfold unitAt; rw [hsame b (hchf b hb).2.1]
  have hp4 : DirPatch r r4 ch B k := by
    refine ⟨by rw [hr4, wbRaw_size, p.size], ?_, ?_, ?_, ?_⟩
    · intro b hb; rw [hu4 b hb]; exact p.links b hb
    · intro j hj; rw [hu4 2 h2]; exact p.hdr j hj
    · intro b hb k' h13 hkey hne; rw [hu4 b hb]; exact p.ents b hb k' h13 hkey hne
    · intro b hb; rw [hu4 b hb]; exact p.shape b hb
  have htree4 : readTree r4 (hdrTotal r) = .ok (fs', ch) := by
    have hag : Agree r3 r4 (ch ++ fs'.flatMap (·.1.owned)) := by
      intro j hj; exact hsame j (fun hm => hnot j hm hj)
    exact readDir_congr r3 r4 (hdrTotal r) nestingFuel 2 [] 0 fs' ch (by omega) htree3 hag
  have hslots4 : dirSlots r4 2 ch = s1 ++ (e', B, k + 1) :: s2 := by
    have := hp4.slots s1 s2 e hsplit h1 h2'
    rw [hu4 B (by
      obtain ⟨b, hb, _, _, _, he⟩ := mem_dirSlots.mp hxm
      have : B = b := (Prod.mk.inj (Prod.mk.inj he).2).1
      rw [this]; exact hb), ← he'] at this
    exact this
  refine ⟨?_, htree4, hp4.hdrTotal, hp4.hdrBm, by rw [hr4, wbRaw_size, p.size], ?_, hp4.geo hroot.geo, hp4.prev hroot.prev,
    hslots4, ?_, hsame⟩
  · rw [hr4, hrd, hv]
    simp only [hlbl]
  · rw [hr4]; exact wbRaw_shape r3 _ _ buf3 hshape hex3 hbs hbok
  · -- the other slots keep `SlotOk`: their blocks are untouched
    rw [hp4.hdrTotal]
    intro y hy
    have hym : y ∈ dirSlots r 2 ch := by
      rw [hsplit]
      rcases List.mem_append.mp hy with a | a
      · exact List.mem_append_left _ a
      · exact List.mem_append_right _ (List.mem_cons_of_mem _ a)
    have hagy : ∀ j ∈ ((slotRecs 69 r (hdrTotal r) [] 0 y).map (·.1)).flatMap (·.owned), r4.units[j]? = r.units[j]? := by
      intro j hj
      obtain ⟨ja, jx⟩ := hdisj y hy j hj
      have hnb : j ∉ bmRange (hdrBm r) (nbmOf (hdrTotal r)) := by
        intro hm
        have hsysj : j ∈ v.sys := by
          rw [hv]; simp only
          rw [mem_bmRange] at hm
          apply List.mem_append_right
          rw [List.mem_map]; exact ⟨j - hdrBm r, List.mem_range.mpr (by omega), by omega⟩
        have hndw := (wfB_iff.1 hw).2.1
        rw [List.nodup_append] at hndw
        exact hndw.2.2 _ ja _ hsysj rfl
      rw [hsame _ hnb, hout _ (fun hjc => (hchf _ hjc).2.2.1 ja) (fun hjo => by
        rcases hOwn _ hjo with a | a
        · exact a ja
        · exact jx a)]
    rcases hroot.slots y hym with (h0 | ⟨hst, hua, hcl⟩) | ⟨hd, hsub⟩
    · exact Or.inl (Or.inl h0)
    · refine Or.inl (Or.inr ⟨hst, hua, ?_⟩)
      intro h3'
      obtain ⟨f, _, hgy, hown, _⟩ := slot_file_rec hinv v fsL ch hread htree y hym hst
      have hkeyown : le16 y.1 0x11 ∈ ((slotRecs 69 r (hdrTotal r) [] 0 y).map (·.1)).flatMap (·.owned) := by
        rw [hgy]; simp only [List.map_cons, List.map_nil, List.flatMap_cons, List.flatMap_nil, List.append_nil]
        rw [hown]; unfold ownedOfEntry
        simp only
        rw [if_neg (by omega), if_neg (by omega)]
        exact List.mem_cons_self
      rw [unitAt_congr (hagy _ hkeyown)]; exact hcl h3'
    · have hact : isAct y = true := by unfold isAct; simp only [ne_eq, decide_eq_true_eq]; omega
      obtain ⟨z, hz⟩ := hall y hym hact
      have hgy : slotRecs 69 r (hdrTotal r) [] 0 y = z := by unfold slotRecs; rw [if_pos hact, hz]; rfl
      refine Or.inr ⟨hd, subOk_congr hd hz hsub (fun j hj => hagy j (by rw [hgy, List.flatMap_map]; exact hj))⟩

/-- the names of the volume directory after one slot has been rewritten: the other slots hold what they held -/
theorem names_after {r r4 : Raw} {ch : List Nat} {s1 s2 : List (Bytes × Nat × Nat)} {x : Bytes × Nat × Nat} {e' : Bytes} {B k : Nat}
    (hroot : Root r ch) (hsplit : dirSlots r 2 ch = s1 ++ x :: s2) (hslots4 : dirSlots r4 2 ch = s1 ++ (e', B, k + 1) :: s2)
    (hnew : isAct (e', B, k + 1) = true → 47 ∉ trimName e') :
    ∀ y ∈ dirSlots r4 2 ch, isAct y = true → 47 ∉ trimName y.1 := by
  intro y hy hact
  rw [hslots4] at hy
  have hold : ∀ y ∈ s1 ++ s2, y ∈ dirSlots r 2 ch := by
    intro y hy
    rw [hsplit]
    rcases List.mem_append.mp hy with a | a
    · exact List.mem_append_left _ a
    · exact List.mem_append_right _ (List.mem_cons_of_mem _ a)
  rcases List.mem_append.mp hy with a | a
  · exact hroot.names y (hold y (List.mem_append_left _ a)) hact
  · rcases List.mem_cons.mp a with rfl | a'
    · exact hnew hact
    · exact hroot.names y (hold y (List.mem_append_right _ a')) hact

end A2Verif.FsProdos
