import A2Verif.Lemmas.FsFatOps
/-!
# Refinement of the attribute operations (`lock`, `unlock`, `retype`) of the concrete FAT model on root-level files
-/
namespace A2Verif.FsFat
open A2Verif A2Verif.Fs.Fat A2Verif.Read.Fat A2Verif.Read.FatT
open A2Verif.FsDos (replaced wfB_replace allOwned_replace)

theorem volOf_of_read {d : Disk} {v : Vol} (h : readT d.raw = .ok v) : volOf d = v := by
  unfold volOf; rw [h]

/-- the record of a file whose attribute byte became `a` -/
def recAttr (rec : FileRec) (a : Nat) : FileRec := { rec with access := a, locked := decide (a % 2 = 1) }

/-- **an attribute operation as observed (run, then flush)**: it is refused and changes nothing, or it re-establishes
the invariant and changes exactly the `access`/`locked` fields of the one record listed under `absPath p` -/
theorem attr_step {d : Disk} (inv : Inv d) {p : Bytes} (a : RootArg p) (set clear : Option Nat)
    (hs : ∀ m, set = some m → m.testBit 3 = false ∧ m.testBit 4 = false)
    (hc : ∀ m, clear = some m → (255 - m).testBit 3 = true ∧ (255 - m).testBit 4 = true)
    (hfile : ∀ rec, (volOf d).lookup (absPath p) = some rec → rec.isDir = false)
    {res : R Unit} {d' : Disk} (h : runFlush (attrOp p set clear) d = (res, d')) :
    (∃ er, res = .error er ∧ d' = d) ∨
    (res = .ok () ∧ Inv d' ∧ ∃ F1 F2 rec, (volOf d).files = F1 ++ rec :: F2 ∧ rec.path = absPath p ∧ rec.isDir = false ∧
      volOf d' = replaced (volOf d) F1 F2 (recAttr rec (newAttrO rec.access set clear))) := by
  obtain ⟨f, c⟩ := inv.coh
  have g := inv.geo
  obtain ⟨hread, hwf, hnl⟩ := inv_reads_well_formed inv
  unfold runFlush at h
  rcases attrOp_run g a set clear with ⟨er, hrun⟩ | ⟨E1, e, E2, nm, ty, hE, hE1, hin, hn, hk, hrun⟩
  · -- refused: nothing written, the flush of a coherent state is the identity
    rw [hrun] at h
    simp only [flush_noop g c] at h
    injection h with h1 h2
    exact Or.inl ⟨er, h1.symm, h2.symm⟩
  · right
    rw [inv.lf] at hin
    obtain ⟨hA, hlen, _⟩ := rootEntries_spec g
    have hmem : e ∈ dirOfBytes (rootBuf d) := by rw [hE]; simp
    have hel : e.length = 32 := hA e hmem
    have hidx : E1.length < (dirOfBytes (rootBuf d)).length := by rw [hE]; simp
    obtain ⟨hshown, hgood⟩ := shown_of_inMap inv.root hmem hel hin
    have hE1live : ∀ x ∈ E1, live x := fun x hx => live_of_type (hA x (by rw [hE]; simp [hx])) (hE1 x hx)
    -- the entry written
    obtain ⟨q1, q2, q3, q4⟩ := attrEntry_spec hel set clear
    -- the state after the operation
    have g' := rootWrite_geo g hidx q1
    have c' := rootWrite_coh c E1.length (attrEntry e set clear)
    rw [hrun] at h
    simp only [flush_noop g' c'] at h
    injection h with h1 h2
    subst h2
    have hE' : dirOfBytes (rootBuf (rootWrite d E1.length (attrEntry e set clear))) = E1 ++ attrEntry e set clear :: E2 := by
      rw [rootWrite_entries g hidx q1, hE]
      simp
    -- the reading before
    rw [readT_eq g c] at hread
    obtain ⟨R1, y, R2, hy, hfiles, hlo, hhi, hsys, hfree, hrep, _⟩ := readFrom_split hE hE1live hshown hread
    have hpath : entPath [] e = absPath p := by
      unfold entPath
      simp only [List.isEmpty_nil, if_true]
      exact entName_of_key hn hgood hk
    have nd := wfB_paths_nodup hwf
    -- the entry is a file
    have hbit4 : (e.getD 11 0 / 16) % 2 = 0 := by
      by_cases hd : (e.getD 11 0 / 16) % 2 = 1
      · obtain ⟨dr, sub, hy', hp', hdir⟩ := rdEnt_dir_head hd hy
        have hmemv : dr ∈ (volOf d).files := by rw [hfiles, hy']; simp
        have hl : (volOf d).lookup (absPath p) = some dr := by
          rw [← hpath, ← hp']
          exact find_path_of_mem nd hmemv
        have := hfile dr hl
        rw [hdir] at this
        cases this
      · omega
    rw [rdEnt_file hbit4] at hy
    cases hfr : fileRec d.raw (rbpb d.bpb) f false (hiOf d.bpb) (entPath [] e) e with
    | error er => rw [hfr] at hy; cases hy
    | ok rec =>
      rw [hfr] at hy
      injection hy with hy
      subst hy
      have hrp : rec.path = absPath p := by
        unfold fileRec at hfr
        dsimp only at hfr
        split at hfr
        · cases hfr
        · split at hfr
          · cases hfr
          · split at hfr
            · cases hfr
            · injection hfr with hfr
              rw [← hfr]; exact hpath
      have hracc : rec.access = e.getD 11 0 ∧ rec.isDir = false := by
        unfold fileRec at hfr
        dsimp only at hfr
        split at hfr
        · cases hfr
        · split at hfr
          · cases hfr
          · split at hfr
            · cases hfr
            · injection hfr with hfr
              rw [← hfr]; exact ⟨rfl, rfl⟩
      -- the entry after
      have hshown' : shown (attrEntry e set clear) := by
        obtain ⟨⟨h0, _⟩, h5, h15, h8, h46⟩ := hshown
        have hb3 : (newAttrO (e.getD 11 0) set clear / 2 ^ 3) % 2 = (e.getD 11 0 / 2 ^ 3) % 2 :=
          newAttrO_bit _ set clear 3 (Or.inl rfl) (fun m hm => (hs m hm).1) (fun m hm => (hc m hm).1)
        have e8 : (2 : Nat) ^ 3 = 8 := rfl
        rw [e8] at hb3
        refine ⟨⟨by rw [q4 0 (by omega)]; exact h0, q1⟩, by rw [q4 0 (by omega)]; exact h5, ?_, ?_, by rw [q4 0 (by omega)]; exact h46⟩
        · rw [q3]; omega
        · rw [q3, hb3]; exact h8
      have hbit4' : ((attrEntry e set clear).getD 11 0 / 16) % 2 = 0 := by
        have hb4 : (newAttrO (e.getD 11 0) set clear / 2 ^ 4) % 2 = (e.getD 11 0 / 2 ^ 4) % 2 :=
          newAttrO_bit _ set clear 4 (Or.inr rfl) (fun m hm => (hs m hm).2) (fun m hm => (hc m hm).2)
        have e16 : (2 : Nat) ^ 4 = 16 := rfl
        rw [e16] at hb4
        rw [q3, hb4]; exact hbit4
      have hpath' : entPath [] (attrEntry e set clear) = entPath [] e := by
        unfold entPath
        rw [entName_congr q2]
      have hle16 : le16 (attrEntry e set clear) 26 = le16 e 26 := by
        unfold le16; rw [q4 26 (by omega), q4 (26 + 1) (by omega)]
      have hle32 : le32 (attrEntry e set clear) 28 = le32 e 28 := by
        unfold le32 le16; rw [q4 28 (by omega), q4 (28 + 1) (by omega), q4 (28 + 2) (by omega), q4 (28 + 2 + 1) (by omega)]
      have hy' : rdEnt d.raw (rbpb d.bpb) f false (hiOf d.bpb) 32 [] (attrEntry e set clear) =
          .ok [recAttr rec (newAttrO rec.access set clear)] := by
        rw [rdEnt_file hbit4', hpath', fileRec_attr hle16 hle32 hfr, q3, hracc.1]
        rfl
      have hnew := hrep _ _ _ hE' hshown' hy'
      have hread' : readT (rootWrite d E1.length (attrEntry e set clear)).raw =
          .ok (replaced (volOf d) R1.flatten R2.flatten (recAttr rec (newAttrO rec.access set clear))) := by
        rw [readT_eq g' c', rootWrite_readFrom g hidx, hnew]
        unfold replaced
        simp
      have hvol' : volOf (rootWrite d E1.length (attrEntry e set clear)) =
          replaced (volOf d) R1.flatten R2.flatten (recAttr rec (newAttrO rec.access set clear)) := by
        exact volOf_of_read hread'
      have hv : (volOf d).files = R1.flatten ++ rec :: R2.flatten := by rw [hfiles]; simp
      have hwf' : (replaced (volOf d) R1.flatten R2.flatten (recAttr rec (newAttrO rec.access set clear))).wfB = true :=
        wfB_replace hv hwf rfl rfl (Or.inl rfl)
      have hnl' : (replaced (volOf d) R1.flatten R2.flatten (recAttr rec (newAttrO rec.access set clear))).noLeak = true := by
        have hao : (replaced (volOf d) R1.flatten R2.flatten (recAttr rec (newAttrO rec.access set clear))).allOwned = (volOf d).allOwned := by
          unfold Vol.allOwned replaced
          rw [hv]
          exact allOwned_replace rfl
        unfold Vol.noLeak at hnl ⊢
        rw [hao]
        exact hnl
      refine ⟨h1.symm, ?_, R1.flatten, R2.flatten, rec, hv, hrp, hracc.2, hvol'⟩
      have htail : TailZero (dirOfBytes (rootBuf (rootWrite d E1.length (attrEntry e set clear)))) := by
        rw [hE']
        have := inv.tail
        rw [hE] at this
        exact tailZero_replace this hE1 hshown'.1.1
      refine { lf := inv.lf, geo := g', coh := ⟨f, c'⟩, root := ?_, tail := htail, read := ⟨_, hread', hwf', hnl'⟩ }
      -- the root directory is still well named
      intro x hx hx0 hx5 hxl
      rw [hE'] at hx
      have hxo : x ∈ dirOfBytes (rootBuf d) ∨ x = attrEntry e set clear := by
        rw [hE]
        simp only [List.mem_append, List.mem_cons] at hx ⊢
        rcases hx with h | h | h
        · exact Or.inl (Or.inl h)
        · exact Or.inr h
        · exact Or.inl (Or.inr (Or.inr h))
      cases hxo with
      | inl hx' => exact inv.root x hx' hx0 hx5 hxl
      | inr hx' =>
        subst hx'
        have h46 := hshown'.2.2.2.2
        refine ⟨?_, h46, ?_⟩
        · -- not a long-name part: bit 8 is clear
          have := hshown'.2.2.2.1
          omega
        · obtain ⟨nm', ty', n1, n2, n3, n4, _, n6, n7⟩ := hgood
          exact ⟨nm', ty', by rw [fileNameToSplit_congr q2]; exact n1, by rw [entName_congr q2]; exact n2, n3, n4,
            (fun hd => by rw [hbit4'] at hd; cases hd), n6, n7⟩

end A2Verif.FsFat
