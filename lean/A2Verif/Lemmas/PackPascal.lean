import A2Verif.Model.PackText
import A2Verif.Lemmas.PackText
/-! Pascal text: decoder lemmas (tokens, zero padding, pagination) and the encoder invariant. -/
namespace A2Verif.Packing

/-! ### decoder state -/

/-- decoder state (`await_indent`) after one byte -/
def nextSt (s : Bool) (b : Nat) : Bool := if s then false else decide (b = 0x10)

/-- decoder state after a byte string -/
def pst : Bool → Bytes → Bool
  | s, [] => s
  | s, b :: r => pst (nextSt s b) r

/-- every byte that follows a DLE (decoder state `true`: "awaiting the indent count") is ≥ 32 -/
def wellCounted : Bool → Bytes → Prop
  | _, [] => True
  | true, b :: r => 32 ≤ b ∧ wellCounted false r
  | false, b :: r => wellCounted (decide (b = 0x10)) r

theorem pst_append : ∀ (xs ys : Bytes) (s : Bool), pst s (xs ++ ys) = pst (pst s xs) ys := by
  intro xs
  induction xs with
  | nil => intro ys s; rfl
  | cons b r ih => intro ys s; simp only [List.cons_append, pst, ih]

theorem wellCounted_append : ∀ (xs ys : Bytes) (s : Bool),
    wellCounted s (xs ++ ys) ↔ wellCounted s xs ∧ wellCounted (pst s xs) ys := by
  intro xs
  induction xs with
  | nil => intro ys s; cases s <;> simp [wellCounted, pst]
  | cons b r ih =>
    intro ys s
    cases s with
    | true => simp only [List.cons_append, wellCounted, pst, nextSt, if_true, ih, and_assoc]
    | false =>
      simp only [List.cons_append, wellCounted, pst, nextSt, ih]
      simp

/-- decoding a concatenation -/
theorem pasToLoop_append : ∀ (xs ys : Bytes) (s : Bool) (o : Bytes), pasToLoop s xs = some o →
    pasToLoop s (xs ++ ys) = (pasToLoop (pst s xs) ys).map (o ++ ·) := by
  intro xs
  induction xs with
  | nil =>
    intro ys s o h
    cases s <;> simp only [pasToLoop, Option.some.injEq] at h <;> subst h <;> simp [pst]
  | cons b r ih =>
    intro ys s o h
    cases s with
    | true =>
      simp only [List.cons_append, pasToLoop, pst, nextSt, if_true] at h ⊢
      by_cases hb : b < 32
      · simp [hb] at h
      · simp only [hb, if_false] at h ⊢
        cases hr : pasToLoop false r with
        | none => simp [hr] at h
        | some o' =>
          simp only [hr, Option.map_some, Option.some.injEq] at h
          subst h
          rw [ih ys false o' hr]
          simp only [Option.map_map, List.append_assoc]
          rfl
    | false =>
      simp only [List.cons_append, pasToLoop, pst, nextSt] at h ⊢
      by_cases h1 : b = 0x0d
      · subst h1
        simp only [if_true] at h ⊢
        cases hr : pasToLoop false r with
        | none => simp [hr] at h
        | some o' =>
          simp only [hr, Option.map_some, Option.some.injEq] at h
          subst h
          have : (decide ((13:Nat) = 16)) = false := by decide
          simp only [Bool.false_eq_true, if_false, this]
          rw [ih ys false o' hr]
          simp only [Option.map_map]
          rfl
      · by_cases h2 : b = 0x10
        · subst h2
          simp only [h1, if_false, if_true] at h ⊢
          simp only [Bool.false_eq_true, if_false, decide_true]
          exact ih ys true o h
        · simp only [h1, h2, if_false] at h ⊢
          simp only [Bool.false_eq_true, if_false, decide_false]
          by_cases h3 : b < 127 ∧ b > 0
          · simp only [h3, and_self, if_true] at h ⊢
            cases hr : pasToLoop false r with
            | none => simp [hr] at h
            | some o' =>
              simp only [hr, Option.map_some, Option.some.injEq] at h
              subst h
              rw [ih ys false o' hr]
              simp only [Option.map_map]
              rfl
          · simp only [h3, if_false] at h ⊢
            exact ih ys false o h

theorem pasToLoop_zeros (n : Nat) (ys : Bytes) :
    pasToLoop false (List.replicate n 0 ++ ys) = pasToLoop false ys := by
  induction n with
  | zero => rfl
  | succ n ih =>
    rw [List.replicate_succ, List.cons_append]
    simp only [pasToLoop]
    simpa using ih

theorem pst_zeros (n : Nat) (ys : Bytes) : pst false (List.replicate n 0 ++ ys) = pst false ys := by
  induction n with
  | zero => rfl
  | succ n ih => rw [List.replicate_succ, List.cons_append]; simpa [pst, nextSt] using ih

theorem wellCounted_zeros (n : Nat) (ys : Bytes) :
    wellCounted false (List.replicate n 0 ++ ys) ↔ wellCounted false ys := by
  induction n with
  | zero => rfl
  | succ n ih => rw [List.replicate_succ, List.cons_append]; simpa [wellCounted] using ih

/-- **Pagination is invisible to the decoder.**  In an encoded text whose DLE counts are all ≥ 32,
inserting NULs right after a CR byte changes neither the decoded text, nor the decoder state at the
end, nor the well-formedness. -/
theorem insert_zeros (n : Nat) : ∀ (A B : Bytes) (s : Bool), wellCounted s (A ++ 0x0d :: B) →
    pasToLoop s (A ++ 0x0d :: (List.replicate n 0 ++ B)) = pasToLoop s (A ++ 0x0d :: B) ∧
    pst s (A ++ 0x0d :: (List.replicate n 0 ++ B)) = pst s (A ++ 0x0d :: B) ∧
    wellCounted s (A ++ 0x0d :: (List.replicate n 0 ++ B)) := by
  intro A
  induction A with
  | nil =>
    intro B s h
    cases s with
    | true => simp [wellCounted] at h
    | false =>
      have hd : (decide ((13:Nat) = 16)) = false := by decide
      simp only [List.nil_append, wellCounted, hd] at h
      refine ⟨?_, ?_, ?_⟩
      · simp only [List.nil_append, pasToLoop, if_true]; rw [pasToLoop_zeros]
      · simp only [List.nil_append, pst, nextSt, hd, Bool.false_eq_true, if_false]; exact pst_zeros n B
      · simp only [List.nil_append, wellCounted, hd]; exact (wellCounted_zeros n B).mpr h
  | cons a A ih =>
    intro B s h
    cases s with
    | true =>
      simp only [List.cons_append, wellCounted] at h
      obtain ⟨i1, i2, i3⟩ := ih B false h.2
      refine ⟨?_, ?_, ?_⟩
      · simp only [List.cons_append, pasToLoop]; rw [i1]
      · simp only [List.cons_append, pst, nextSt, if_true]; exact i2
      · simp only [List.cons_append, wellCounted]; exact ⟨h.1, i3⟩
    | false =>
      simp only [List.cons_append, wellCounted] at h
      obtain ⟨i1, i2, i3⟩ := ih B (decide (a = 0x10)) h
      refine ⟨?_, ?_, ?_⟩
      · simp only [List.cons_append, pasToLoop]
        by_cases h1 : a = 0x0d
        · subst h1
          have hd : (decide ((13:Nat) = 16)) = false := by decide
          rw [hd] at i1
          simp only [if_true]; rw [i1]
        · by_cases h2 : a = 0x10
          · subst h2
            simp only [h1, if_false, if_true]
            simpa using i1
          · have hd : decide (a = 16) = false := by simp [h2]
            rw [hd] at i1
            simp only [h1, h2, if_false]; rw [i1]
      · simp only [List.cons_append, pst, nextSt, Bool.false_eq_true, if_false]; exact i2
      · simp only [List.cons_append, wellCounted]; exact i3

/-- trailing NULs can be shortened without changing the decoded text -/
theorem dec_zeros_le : ∀ (P : Bytes) (s : Bool) (z r : Nat) (t : Bytes), r ≤ z →
    pasToLoop s (P ++ List.replicate z 0) = some t → pasToLoop s (P ++ List.replicate r 0) = some t := by
  intro P
  induction P with
  | nil =>
    intro s z r t hr h
    cases s with
    | false =>
      have h1 := pasToLoop_zeros z []
      have h2 := pasToLoop_zeros r []
      simp only [List.append_nil, List.nil_append] at h1 h2 h ⊢
      rw [h2]; rw [h1] at h; exact h
    | true =>
      cases z with
      | zero =>
        have : r = 0 := by omega
        subst this; exact h
      | succ z => simp [List.replicate_succ, pasToLoop] at h
  | cons b p ih =>
    intro s z r t hr h
    cases s with
    | true =>
      simp only [List.cons_append, pasToLoop] at h ⊢
      by_cases hb : b < 32
      · simp [hb] at h
      · simp only [hb, if_false] at h ⊢
        cases hq : pasToLoop false (p ++ List.replicate z 0) with
        | none => simp [hq] at h
        | some t' =>
          rw [ih false z r t' hr hq]
          simpa [hq] using h
    | false =>
      simp only [List.cons_append, pasToLoop] at h ⊢
      by_cases h1 : b = 0x0d
      · simp only [h1, if_true] at h ⊢
        cases hq : pasToLoop false (p ++ List.replicate z 0) with
        | none => simp [hq] at h
        | some t' => rw [ih false z r t' hr hq]; simpa [hq] using h
      · by_cases h2 : b = 0x10
        · simp only [h1, h2, if_false, if_true] at h ⊢
          simp only [show ¬ ((16:Nat) = 13) by decide, if_false] at h ⊢
          exact ih true z r t hr h
        · simp only [h1, h2, if_false] at h ⊢
          by_cases h3 : b < 127 ∧ b > 0
          · simp only [h3, and_self, if_true] at h ⊢
            cases hq : pasToLoop false (p ++ List.replicate z 0) with
            | none => simp [hq] at h
            | some t' => rw [ih false z r t' hr hq]; simpa [hq] using h
          · simp only [h3, if_false] at h ⊢
            exact ih false z r t hr h

end A2Verif.Packing
