import A2Verif.Model.PackText
/-! Pascal text: the decoder does not see the zero padding that pagination inserts after a CR. -/
namespace A2Verif.Packing

/-- every byte that follows a DLE (in decoder state `s = true`: "awaiting the indent count") is ≥ 32 -/
def wellCounted : Bool → Bytes → Prop
  | _, [] => True
  | true, b :: r => 32 ≤ b ∧ wellCounted false r
  | false, b :: r => wellCounted (decide (b = 0x10) && !decide (b = 0x0d)) r

theorem pasToLoop_zeros (n : Nat) (ys : Bytes) :
    pasToLoop false (List.replicate n 0 ++ ys) = pasToLoop false ys := by
  induction n with
  | zero => rfl
  | succ n ih =>
    rw [List.replicate_succ, List.cons_append]
    simp only [pasToLoop]
    simpa using ih

/-- **Pagination is invisible to the decoder.**  In an encoded text whose DLE counts are all ≥ 32
(the encoder only writes `0x20 + indent`), inserting any number of NULs right after a CR byte does
not change what `to_utf8` returns — this is exactly what `paginate` does to the buffer. -/
theorem pasToLoop_insert_zeros (n : Nat) : ∀ (A B : Bytes) (s : Bool), wellCounted s (A ++ 0x0d :: B) →
    pasToLoop s (A ++ 0x0d :: (List.replicate n 0 ++ B)) = pasToLoop s (A ++ 0x0d :: B) := by
  intro A
  induction A with
  | nil =>
    intro B s h
    cases s with
    | true => simp [wellCounted] at h
    | false =>
      simp only [List.nil_append, pasToLoop, if_true]
      rw [pasToLoop_zeros]
  | cons a A ih =>
    intro B s h
    cases s with
    | true =>
      simp only [List.cons_append, wellCounted] at h
      simp only [List.cons_append, pasToLoop]
      rw [ih B false h.2]
    | false =>
      simp only [List.cons_append, wellCounted] at h
      simp only [List.cons_append, pasToLoop]
      by_cases h1 : a = 0x0d
      · subst h1
        simp only [if_true]
        rw [ih B false (by simpa using h)]
      · by_cases h2 : a = 0x10
        · subst h2
          simp only [h1, if_false, if_true]
          exact ih B true (by simpa using h)
        · simp only [h1, h2, if_false]
          have h' : wellCounted false (A ++ 0x0d :: B) := by simpa [h1, h2] using h
          rw [ih B false h']

end A2Verif.Packing
