import A2Verif.Model.PackFs
import A2Verif.Lemmas.Packing
import A2Verif.Lemmas.PackText
/-!
Lemmas about `decorate` (`Model/PackFs.lean`): what a file system lays over a packed image only *appends*
bytes to the sequence, keeps the eof (CP/M: rounds it), keeps the aux type, and changes the type byte(s) only
in the bits the unpackers mask.
-/
namespace A2Verif.Packing

/-! ## chunks -/

theorem seqChunks_padLast (n : Nat) (pad : Bytes) : ∀ cs : List (Nat × Bytes),
    ∃ p, seqChunks (padLast n pad cs) = seqChunks cs ++ p := by
  intro cs
  induction cs with
  | nil => exact ⟨[], by simp [padLast, seqChunks]⟩
  | cons a r ih =>
    cases r with
    | nil =>
      obtain ⟨k, c⟩ := a
      exact ⟨pad.take (n - c.length), by simp [padLast, seqChunks]⟩
    | cons b r' =>
      obtain ⟨p, hp⟩ := ih
      refine ⟨p, ?_⟩
      obtain ⟨k, c⟩ := a
      simp only [padLast, seqChunks]
      rw [hp]
      simp [seqChunks, List.append_assoc]

/-- the first chunk keeps its content (it may get longer) -/
theorem getChunk_padLast_zero (n : Nat) (pad : Bytes) : ∀ (cs : List (Nat × Bytes)) (c : Bytes),
    getChunk cs 0 = some c → ∃ p, getChunk (padLast n pad cs) 0 = some (c ++ p) := by
  intro cs
  induction cs with
  | nil => intro c h; simp [getChunk] at h
  | cons a r ih =>
    intro c h
    obtain ⟨k, c0⟩ := a
    cases r with
    | nil =>
      simp only [getChunk] at h
      by_cases hk : k = 0
      · simp only [hk, if_true, Option.some.injEq] at h
        subst h
        exact ⟨pad.take (n - c0.length), by simp [padLast, getChunk, hk]⟩
      · simp [hk] at h
    | cons b r' =>
      simp only [getChunk] at h
      by_cases hk : k = 0
      · simp only [hk, if_true, Option.some.injEq] at h
        subst h
        exact ⟨[], by simp [padLast, getChunk, hk]⟩
      · simp only [hk, if_false] at h
        obtain ⟨p, hp⟩ := ih c h
        exact ⟨p, by simp only [padLast, getChunk, hk, if_false]; exact hp⟩

theorem sequence_decorate (fs : Fs) (dc : Deco) (g : FImg) :
    ∃ p, sequence (decorate fs dc g) = sequence g ++ p := by
  unfold sequence decorate
  exact seqChunks_padLast g.chunkLen dc.pad g.chunks

theorem decorate_aux (fs : Fs) (dc : Deco) (g : FImg) : (decorate fs dc g).aux = g.aux := rfl

theorem decorate_eof (fs : Fs) (dc : Deco) (g : FImg) (h : fs ≠ .cpm) : (decorate fs dc g).eof = g.eof := by
  cases fs <;> first | rfl | exact absurd rfl h

theorem decorate_chunks (fs : Fs) (dc : Deco) (g : FImg) :
    (decorate fs dc g).chunks = padLast g.chunkLen dc.pad g.chunks := rfl

/-! ## type bytes -/

theorem or128_mod : ∀ t : Fin 128, (t.val ||| 128) % 128 = t.val := by decide +kernel

theorem orBits_zero : ∀ (ts bs : Bytes), (∀ b ∈ bs, b = 0) → orBits ts bs = ts := by
  intro ts
  induction ts with
  | nil => intro bs _; cases bs <;> rfl
  | cons t ts ih =>
    intro bs h
    cases bs with
    | nil => rfl
    | cons b bs =>
      have hb : b = 0 := h b (by simp)
      subst hb
      simp only [orBits, Nat.or_zero]
      rw [ih bs (fun x hx => h x (by simp [hx]))]

/-- DOS 3.x: a one-byte type below 128 comes back with at most the lock bit added -/
theorem decorate_type_dos (dc : Deco) (g : FImg) (t : Nat) (hok : Deco.ok .dos dc) (hg : g.fsType = [t])
    (ht : t < 128) : ∃ t', (decorate .dos dc g).fsType = [t'] ∧ t' % 128 = t := by
  obtain ⟨h1, _, h3⟩ := hok
  simp only at h1 h3
  have hft : (decorate .dos dc g).fsType = orBits [t] dc.typeBits := by
    show orBits (dc.typeSet.getD g.fsType) dc.typeBits = _
    rw [h3, hg]; rfl
  rw [hft]
  cases hb : dc.typeBits with
  | nil => exact ⟨t, rfl, Nat.mod_eq_of_lt ht⟩
  | cons b bs =>
    refine ⟨t ||| b, rfl, ?_⟩
    rcases h1 b (by rw [hb]; simp) with rfl | rfl
    · rw [Nat.or_zero]; exact Nat.mod_eq_of_lt ht
    · exact or128_mod ⟨t, ht⟩

/-- ProDOS, Pascal: the type comes back as it was put -/
theorem decorate_type_same (fs : Fs) (dc : Deco) (g : FImg) (hok : Deco.ok fs dc)
    (hfs : fs = .prodos ∨ fs = .pascal) : (decorate fs dc g).fsType = g.fsType := by
  obtain ⟨h1, _, h3⟩ := hok
  show orBits (dc.typeSet.getD g.fsType) dc.typeBits = _
  rcases hfs with rfl | rfl
  · simp only at h1 h3; rw [h3]; exact orBits_zero _ _ h1
  · simp only at h1 h3; rw [h3]; exact orBits_zero _ _ h1

theorem orBits_ne_nil (ts bs : Bytes) (h : ts ≠ []) : orBits ts bs ≠ [] := by
  cases ts with
  | nil => exact absurd rfl h
  | cons t ts => cases bs <;> simp [orBits]

/-! ## eof-limited reading -/

theorem take_append_le (x p : Bytes) (e : Nat) (h : e ≤ x.length) : (x ++ p).take e = x.take e :=
  List.take_append_of_le_length h

/-- reading up to the eof is unaffected by what follows the data, as long as the eof lies inside the data -/
theorem seqLimited_decorate (fs : Fs) (dc : Deco) (g : FImg) (hfs : fs ≠ .cpm)
    (he : getEof g ≤ (sequence g).length) :
    sequenceLimited (decorate fs dc g) (getEof (decorate fs dc g)) = sequenceLimited g (getEof g) := by
  obtain ⟨p, hp⟩ := sequence_decorate fs dc g
  have hE : getEof (decorate fs dc g) = getEof g := by unfold getEof; rw [decorate_eof fs dc g hfs]
  rw [sequenceLimited_eq_take, sequenceLimited_eq_take, hE, hp, take_append_le _ _ _ he]

theorem truncLe_leBytes (n v : Nat) : truncLe (leBytes n v) = v % 256 ^ (min 8 n) := by
  unfold truncLe
  rw [leBytes_take, leVal_leBytes]

theorem roundUp_one (v : Nat) : roundUp v 1 = v := by simp [roundUp]

theorem roundUp_bounds (v r : Nat) (hr : 0 < r) : v ≤ roundUp v r ∧ roundUp v r < v + r := by
  unfold roundUp
  have h1 := Nat.div_add_mod (v + r - 1) r
  have h2 := Nat.mod_lt (v + r - 1) hr
  have h3 : (v + r - 1) / r * r = r * ((v + r - 1) / r) := Nat.mul_comm _ _
  constructor <;> omega

/-- CP/M: the eof is rounded up to whole records, so the data is followed by less than one record -/
theorem seqLimited_decorate_cpm (dc : Deco) (g : FImg) (x : Bytes) (hs : sequence g = x)
    (he : getEof g = x.length) (hw : g.eof.length = 4) (hcap : x.length + 128 ≤ 2 ^ 32)
    (hr : dc.eofRound = 1 ∨ dc.eofRound = 128) :
    ∃ q, sequenceLimited (decorate .cpm dc g) (getEof (decorate .cpm dc g)) = x ++ q ∧ q.length < dc.eofRound ∧
      (dc.eofRound = 1 → q = []) := by
  obtain ⟨p, hp⟩ := sequence_decorate .cpm dc g
  have hr0 : 0 < dc.eofRound := by rcases hr with h | h <;> omega
  obtain ⟨b1, b2⟩ := roundUp_bounds x.length dc.eofRound hr0
  have hE : getEof (decorate .cpm dc g) = roundUp x.length dc.eofRound := by
    show truncLe (leBytes g.eof.length (roundUp (getEof g) dc.eofRound)) = _
    rw [truncLe_leBytes, hw, he]
    have e : (256 : Nat) ^ (min 8 4) = 2 ^ 32 := by decide
    rw [e]
    apply Nat.mod_eq_of_lt
    rcases hr with h | h <;> omega
  rw [sequenceLimited_eq_take, hE, hp, hs, List.take_append, List.take_of_length_le b1]
  refine ⟨p.take (roundUp x.length dc.eofRound - x.length), rfl, ?_, ?_⟩
  · have := List.length_take_le (roundUp x.length dc.eofRound - x.length) p
    omega
  · intro h1
    rw [h1, roundUp_one, Nat.sub_self, List.take_zero]

/-! ## self-terminating formats -/

theorem beforeFirst_mem_append (sep : Nat) : ∀ (xs ys : Bytes), sep ∈ xs →
    beforeFirst sep (xs ++ ys) = beforeFirst sep xs := by
  intro xs
  induction xs with
  | nil => intro ys h; cases h
  | cons b r ih =>
    intro ys h
    simp only [List.cons_append, beforeFirst]
    by_cases hb : b = sep
    · simp [hb]
    · simp only [hb, if_false]
      have : sep ∈ r := by
        rcases List.mem_cons.mp h with h | h
        · exact absurd h.symm hb
        · exact h
      rw [ih ys this]

/-! ## `deduce_address` looks only at the first line -/

theorem deduceScan_local : ∀ (xs : Bytes) (i k : Nat), deduceScan xs i = some k →
    i ≤ k ∧ k - i < xs.length ∧
    ∀ ys : Bytes, ys.take (k - i + 1) = xs.take (k - i + 1) → deduceScan ys i = some k := by
  intro xs
  induction xs with
  | nil => intro i k h; simp [deduceScan] at h
  | cons b r ih =>
    intro i k h
    simp only [deduceScan] at h
    by_cases hb : b > 0
    · simp only [hb, if_true] at h
      obtain ⟨h1, h2, h3⟩ := ih (i + 1) k h
      refine ⟨by omega, by simp only [List.length_cons]; omega, ?_⟩
      intro ys hy
      have e : k - i + 1 = (k - (i + 1) + 1) + 1 := by omega
      rw [e] at hy
      cases ys with
      | nil => simp at hy
      | cons y ys' =>
        simp only [List.take_succ_cons, List.cons.injEq] at hy
        obtain ⟨rfl, hy'⟩ := hy
        simp only [deduceScan, hb, if_true]
        exact h3 ys' hy'
    · simp only [hb, if_false, Option.some.injEq] at h
      subst h
      refine ⟨Nat.le_refl _, by simp, ?_⟩
      intro ys hy
      simp only [Nat.sub_self, Nat.zero_add, List.take_succ_cons, List.take_zero] at hy
      cases ys with
      | nil => simp at hy
      | cons y ys' =>
        simp only [List.take_succ_cons, List.take_zero, List.cons.injEq, and_true] at hy
        subst hy
        simp [deduceScan, hb]

/-- if the first line of `d` ends at index `rel` then any byte string that agrees with `d` up to and including
that index yields the same load address -/
theorem deduceAddressTotal_local (d y : Bytes) (rel : Nat) (hs : deduceScan (d.drop 4) 4 = some rel)
    (h4 : 4 ≤ d.length) (hy : y.take (rel + 1) = d.take (rel + 1)) :
    deduceAddressTotal y = deduceAddressTotal d := by
  obtain ⟨h1, h2, h3⟩ := deduceScan_local (d.drop 4) 4 rel hs
  match d, h4, hs, hy, h2, h3 with
  | t0 :: t1 :: t2 :: t3 :: rest, _, hs, hy, h2, h3 =>
    simp only [List.drop_succ_cons, List.drop_zero] at hs h2 h3
    have e : rel + 1 = (rel - 4 + 1) + 4 := by omega
    rw [e] at hy
    match y, hy with
    | y0 :: y1 :: y2 :: y3 :: yr, hy =>
      simp only [List.take_succ_cons, List.cons.injEq] at hy
      obtain ⟨rfl, rfl, rfl, rfl, hy'⟩ := hy
      have := h3 yr hy'
      simp only [deduceAddressTotal, this, hs]
    | [], hy => simp at hy
    | [_], hy => simp at hy
    | [_, _], hy => simp at hy
    | [_, _, _], hy => simp at hy

/-! ## the repaired Pascal decoder agrees with the original wherever that does not panic -/

theorem pasToLoop_sat : ∀ (s : Bytes) (b : Bool) (r : Bytes), pasToLoop b s = some r → pasToLoopSat b s = r := by
  intro s
  induction s with
  | nil => intro b r h; cases b <;> simp [pasToLoop] at h <;> simp [pasToLoopSat, h]
  | cons x xs ih =>
    intro b r h
    cases b with
    | true =>
      simp only [pasToLoop] at h
      split at h
      · cases h
      · cases hr : pasToLoop false xs with
        | none => rw [hr] at h; cases h
        | some r' =>
          rw [hr] at h
          simp only [Option.map_some, Option.some.injEq] at h
          simp only [pasToLoopSat, ih false r' hr, h]
    | false =>
      simp only [pasToLoop] at h
      simp only [pasToLoopSat]
      split at h
      · rename_i hx
        cases hr : pasToLoop false xs with
        | none => rw [hr] at h; cases h
        | some r' =>
          rw [hr] at h
          simp only [Option.map_some, Option.some.injEq] at h
          simp only [hx, if_true, ih false r' hr, h]
      · rename_i hx
        split at h
        · rename_i hx2
          simp only [hx, if_false, hx2, if_true]
          exact ih true r h
        · rename_i hx2
          split at h
          · rename_i hx3
            cases hr : pasToLoop false xs with
            | none => rw [hr] at h; cases h
            | some r' =>
              rw [hr] at h
              simp only [Option.map_some, Option.some.injEq] at h
              rw [if_neg hx, if_neg hx2, if_pos hx3, ih false r' hr, h]
          · rename_i hx3
            simp only [hx, if_false, hx2, hx3]
            exact ih false r h

theorem pascalUnpackTxtP_ok (pv : PasIndent) (f : FImg) (t : Bytes) (h : pascalUnpackTxt f = .ok t) :
    pascalUnpackTxtP pv f = .ok t := by
  cases pv with
  | panicking => exact h
  | saturating =>
    unfold pascalUnpackTxt at h
    unfold pascalUnpackTxtP
    simp only [] at h ⊢
    split at h
    · cases h
    · rename_i hl
      rw [if_neg hl]
      cases hp : pasToUtf8 (List.drop textPage (sequenceLimited f (getEof f))) with
      | none => rw [hp] at h; cases h
      | some s =>
        rw [hp] at h
        cases h
        rw [pasToLoop_sat _ false _ hp]

theorem unpackTxtP_ok (pv : PasIndent) (fs : Fs) (f : FImg) (t : Bytes) (h : unpackTxt fs f = .ok t) :
    unpackTxtP pv fs f = .ok t := by
  cases fs with
  | pascal => exact pascalUnpackTxtP_ok pv f t h
  | dos => exact h
  | prodos => exact h
  | cpm => exact h
  | fat => exact h

end A2Verif.Packing
