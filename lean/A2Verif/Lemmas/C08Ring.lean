import A2Verif.Model.C08Ring
/-!
The rotating head: a search that advances first and compares then, `n` times, finds the FIRST record with the
wanted id that passes under the head, wherever the head stood, and visits every record once.
-/
namespace A2Verif.Lemmas.C08Ring
open A2Verif.Model.C08Ring

/-- the search loop of `read_sector` / `write_sector` reduced to head positions: `(index found, final position)` -/
def ringSeek (ids : List Nat) (sec : Nat) : Nat → Nat → Option Nat × Nat
  | 0, p => (none, p)
  | k + 1, p =>
    let p' := nextPos ids.length p
    if ids[p']? = some sec then (some p', p') else ringSeek ids sec k p'

theorem nextPos_lt (n p : Nat) (hn : 0 < n) : nextPos n p < n := by
  unfold nextPos; split <;> omega

theorem dist_lt (n p i : Nat) (hp : p < n) (hi : i < n) : dist n p i < n := by
  unfold dist; split <;> omega

theorem dist_zero (n p i : Nat) (hp : p < n) (hi : i < n) : dist n p i = 0 ↔ i = nextPos n p := by
  unfold dist nextPos; split <;> split <;> omega

theorem dist_next (n p i : Nat) (hp : p < n) (hi : i < n) (hne : i ≠ nextPos n p) :
    dist n (nextPos n p) i + 1 = dist n p i := by
  unfold dist nextPos at *
  by_cases h1 : p + 1 ≥ n
  · simp only [h1, ↓reduceIte] at hne ⊢
    by_cases h2 : i > p <;> by_cases h3 : i > 0 <;> simp only [h2, h3, ↓reduceIte] <;> omega
  · simp only [h1, ↓reduceIte] at hne ⊢
    by_cases h2 : i > p <;> by_cases h3 : i > p + 1 <;> simp only [h2, h3, ↓reduceIte] <;> omega

/-- the position stays inside the track, found or not -/
theorem ringSeek_pos (ids : List Nat) (sec : Nat) (k p : Nat) (hp : p < ids.length) :
    (ringSeek ids sec k p).2 < ids.length := by
  induction k generalizing p with
  | zero => exact hp
  | succ k ih =>
    have hn : 0 < ids.length := by omega
    have hp' := nextPos_lt ids.length p hn
    simp only [ringSeek]
    split
    · exact hp'
    · exact ih _ hp'

/-- whatever is found carries the wanted id, and the head stands on it -/
theorem ringSeek_sound (ids : List Nat) (sec : Nat) (k p j : Nat) (h : (ringSeek ids sec k p).1 = some j) :
    ids[j]? = some sec ∧ (ringSeek ids sec k p).2 = j := by
  induction k generalizing p with
  | zero => simp [ringSeek] at h
  | succ k ih =>
    simp only [ringSeek] at h ⊢
    split
    · rename_i hq
      rw [if_pos hq] at h
      simp only [Option.some.injEq] at h
      subst h
      exact ⟨hq, rfl⟩
    · rename_i hq
      rw [if_neg hq] at h
      exact ih _ h

/-- **first match in rotation order**: record `i` carries the id, no record that passes under the head earlier does,
and there are enough tries — then the search stops on `i` -/
theorem ringSeek_first (ids : List Nat) (sec : Nat) (k p i : Nat) (hp : p < ids.length) (hi : i < ids.length)
    (hid : ids[i]? = some sec)
    (hfirst : ∀ j, j < ids.length → dist ids.length p j < dist ids.length p i → ids[j]? ≠ some sec)
    (hk : dist ids.length p i < k) :
    ringSeek ids sec k p = (some i, i) := by
  induction k generalizing p with
  | zero => omega
  | succ k ih =>
    have hn : 0 < ids.length := by omega
    have hp' := nextPos_lt ids.length p hn
    simp only [ringSeek]
    by_cases he : i = nextPos ids.length p
    · rw [← he, if_pos hid]
    · have hd := dist_next ids.length p i hp hi he
      have h0 : dist ids.length p (nextPos ids.length p) = 0 := (dist_zero _ _ _ hp hp').2 rfl
      have hne : ids[nextPos ids.length p]? ≠ some sec := hfirst _ hp' (by omega)
      rw [if_neg hne]
      apply ih _ hp'
      · intro j hj hlt
        by_cases hj' : j = nextPos ids.length p
        · subst hj'; exact hne
        · have hdj := dist_next ids.length p j hp hj hj'
          exact hfirst j hj (by omega)
      · omega

/-- with pairwise different ids the first match is the only one -/
theorem ringSeek_nodup (ids : List Nat) (sec : Nat) (p i : Nat) (hp : p < ids.length) (hi : i < ids.length)
    (hid : ids[i]? = some sec) (hnd : ids.Nodup) :
    ringSeek ids sec ids.length p = (some i, i) := by
  apply ringSeek_first ids sec ids.length p i hp hi hid
  · intro j hj hlt hjs
    have h1 : ids[j] = sec := by
      have := List.getElem?_eq_getElem hj; rw [this] at hjs; exact Option.some.inj hjs
    have h2 : ids[i] = sec := by
      have := List.getElem?_eq_getElem hi; rw [this] at hid; exact Option.some.inj hid
    have hpw := List.pairwise_iff_getElem.1 hnd
    have : j = i := by
      rcases Nat.lt_trichotomy j i with hlt' | heq | hgt
      · exact absurd (h1.trans h2.symm) (hpw j i hj hi hlt')
      · exact heq
      · exact absurd (h2.trans h1.symm) (hpw i j hi hj hgt)
    subst this; omega
  · exact dist_lt _ _ _ hp hi

/-- an id that is on no record is not found, however long the search -/
theorem ringSeek_absent (ids : List Nat) (sec : Nat) (k p : Nat) (h : ∀ j : Nat, ids[j]? ≠ some sec) :
    (ringSeek ids sec k p).1 = none := by
  induction k generalizing p with
  | zero => rfl
  | succ k ih => simp only [ringSeek, if_neg (h _)]; exact ih _

theorem quantize_length (src : List Nat) (q : Nat) : (quantize src q).length = q := by
  simp only [quantize, List.length_append, List.length_take, List.length_replicate]; omega

end A2Verif.Lemmas.C08Ring
