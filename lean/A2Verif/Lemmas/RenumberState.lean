import A2Verif.Model.RenumberState
/-!
Part 21 (C16): a gather pass that resets `row`, `info`, `primaries`, `secondaries` returns the same thing whatever the
object went through before; hence every entry point built from such passes does.
-/
namespace A2Verif.Lemmas.RenumberState
open A2Verif.Model.Renumber A2Verif.Model.RenumberState

/-- the part of the state the pass loop reads -/
def core (st : RState) : Nat × List (Nat × Label) × Bool × Bool := (st.row, st.info, st.primaries, st.secondaries)

theorem passLoop_core (w : Walk) (ls : List (List Nat)) (st st' : RState) (h : core st = core st') :
    core (passLoop w ls st).1 = core (passLoop w ls st').1 ∧ (passLoop w ls st).2 = (passLoop w ls st').2 := by
  induction ls generalizing st st' with
  | nil => exact ⟨h, rfl⟩
  | cons l ls ih =>
    simp only [core, Prod.mk.injEq] at h
    obtain ⟨h1, h2, h3, h4⟩ := h
    unfold passLoop
    split
    · exact ih _ _ (by simp [core, h1, h2, h3, h4])
    · rw [h1, h2, h3, h4]
      dsimp only
      split
      · exact ih _ _ (by simp [core])
      · exact ⟨by simp [core], rfl⟩

theorem passLoop_flags (w : Walk) (ls : List (List Nat)) (st : RState) : (passLoop w ls st).1.flags = st.flags := by
  induction ls generalizing st with
  | nil => rfl
  | cons l ls ih =>
    unfold passLoop
    split
    · rw [ih]
    · dsimp only
      split
      · rw [ih]
      · rfl

/-- the four fields a pass must assign before its loop: `row`, `info`, `primaries`, `secondaries` -/
def ResetsAll (v : Variant) : Prop := 2 ∈ v.resets ∧ 4 ∈ v.resets ∧ 5 ∈ v.resets ∧ 6 ∈ v.resets

instance (v : Variant) : Decidable (ResetsAll v) := by unfold ResetsAll; exact inferInstance

/-- **one pass**: with the four resets in place, what the pass returns (the map or `Err`) does not depend on the state
it starts from -/
theorem gatherPass_indep (v : Variant) (h : ResetsAll v) (w : Walk) (prim sec : Bool) (lines : List (List Nat))
    (row0 : Nat) (st st' : RState) :
    (gatherPass v w prim sec lines row0 st).2 = (gatherPass v w prim sec lines row0 st').2 := by
  obtain ⟨h2, h4, h5, h6⟩ := h
  unfold gatherPass
  simp only [h2, h4, h5, h6, ↓reduceIte]
  obtain ⟨hc, hb⟩ := passLoop_core w lines
    { st with primaries := prim, secondaries := sec, info := [], row := row0 }
    { st' with primaries := prim, secondaries := sec, info := [], row := row0 } rfl
  rw [hb]
  split
  · simp only [core, Prod.mk.injEq] at hc
    rw [hc.2.1]
  · rfl

theorem gatherPass_flags (v : Variant) (w : Walk) (prim sec : Bool) (lines : List (List Nat)) (row0 : Nat)
    (st : RState) : (gatherPass v w prim sec lines row0 st).1.flags = st.flags := by
  unfold gatherPass
  simp only []
  generalize hst0 : ({ st with
    primaries := if 5 ∈ v.resets then prim else st.primaries
    secondaries := if 6 ∈ v.resets then sec else st.secondaries
    info := if 4 ∈ v.resets then [] else st.info
    row := if 2 ∈ v.resets then row0 else st.row } : RState) = st0
  have hf : st0.flags = st.flags := by rw [← hst0]
  have hp := passLoop_flags w lines st0
  by_cases hb : (passLoop w lines st0).2 = true
  · rw [if_pos hb]
    by_cases ht : v.takes = true
    · rw [if_pos ht]; simp only []; rw [hp, hf]
    · rw [if_neg ht]; simp only []; rw [hp, hf]
  · rw [if_neg hb]; simp only []; rw [hp, hf]

/-- **any entry point**: the result of a program of passes does not depend on the state it starts from -/
theorem run_indep {α : Type} (vs : Variants) (hd : ResetsAll vs.defs) (hr : ResetsAll vs.refs) (w : Walk)
    (p : Prog α) (st st' : RState) : (run vs w p st).2 = (run vs w p st').2 := by
  induction p generalizing st st' with
  | done a => rfl
  | pass isDefs lines row0 k ih =>
    unfold run
    simp only []
    have hv : ResetsAll (if isDefs then vs.defs else vs.refs) := by cases isDefs <;> simpa
    rw [gatherPass_indep _ hv w isDefs (!isDefs) lines row0 st st']
    exact ih _ _ _

theorem run_flags {α : Type} (vs : Variants) (w : Walk) (p : Prog α) (st : RState) :
    (run vs w p st).1.flags = st.flags := by
  induction p generalizing st with
  | done a => rfl
  | pass isDefs lines row0 k ih =>
    unfold run
    simp only []
    rw [ih, gatherPass_flags]

/-- the flags an object has after a history: the last `set_flags`, or the initial ones -/
def lastFlags (f0 : Nat) : List Call → Nat
  | [] => f0
  | .setFlags f :: h => lastFlags f h
  | _ :: h => lastFlags f0 h

theorem runHist_flags (vs : Variants) (w : Walk) (st : RState) (h : List Call) :
    (runHist vs w st h).flags = lastFlags st.flags h := by
  induction h generalizing st with
  | nil => rfl
  | cons c h ih =>
    unfold runHist at ih ⊢
    rw [List.foldl_cons, ih]
    cases c with
    | setFlags f => rfl
    | renumber rq => simp only [step, renumberS, lastFlags]; rw [run_flags]
    | other p => simp only [step, lastFlags]; rw [run_flags]

/-- the rest of `renumber` is the model of `Model.Renumber` when the two whole-text passes for defining labels agree -/
theorem renumberFrom_eq (rq : Req) (flags : Nat) (d r : List (Nat × Label)) :
    renumberFrom rq flags d d r =
      renumber ⟨rq.src, d, r, rq.beg, rq.end_, rq.first, rq.step, flags, rq.maxNum⟩ := by
  unfold renumberFrom renumber renumberWith Input.params
  simp only [Bool.not_false, Bool.true_and]
  cases extSelOf d rq.beg rq.end_ with
  | none => rfl
  | some ext =>
    simp only []
    split
    · rfl
    · cases buildEdits rq.src d r ext _ with
      | ok edits => simp only []; cases applyEdits rq.src edits 0 <;> rfl
      | err => rfl
      | panic => rfl

end A2Verif.Lemmas.RenumberState
