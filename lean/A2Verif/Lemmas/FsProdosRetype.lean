import A2Verif.Lemmas.FsProdosReadMeta
import A2Verif.Lemmas.FsProdosLockPath
/-!
# `retype(path, type, aux)` for a file of the volume directory refines the abstract `retype`

Same chain as for `lock` / `unlock` (`Lemmas/FsProdosLock*.lean`), with the generalised reader lemma `readDir_meta`
(type, access and aux bytes of one entry may change).
-/
namespace A2Verif.FsProdos
open A2Verif.Fs.Prodos
open A2Verif.Read.Prodos (entryAt bitmapFree)
open A2Verif.Read.ProdosT

/-- the bytes of a directory block after entry `idx` has been replaced by the 39 bytes `e'` and the block written back -/
theorem blockWithEntry_bytes (blk e' : Bytes) (idx : Nat) (hlen : blk.length = 512) (h511 : blk.getD 511 0 = 0)
    (hidx : 1 ≤ idx ∧ idx ≤ 13) (he : e'.length = 39) :
    (blockWithEntry blk idx e').length = 512 ∧
      (∀ k, (k < entOff idx ∨ entOff idx + 39 ≤ k) → (blockWithEntry blk idx e').getD k 0 = blk.getD k 0) ∧
      (∀ j, j < 39 → (blockWithEntry blk idx e').getD (entOff idx + j) 0 = e'.getD j 0) := by
  have hoff : entOff idx + 39 ≤ 511 := by unfold entOff; omega
  have hb511 : (blk.take dirLen).length = 511 := by simp [hlen, dirLen]
  have hsp : (splice (blk.take dirLen) (entOff idx) (e'.take 39)).length = 511 := by
    unfold splice; simp only [List.length_append, List.length_take, List.length_drop, he, hb511]; omega
  have hbyte : ∀ k, k < 511 → (blockWithEntry blk idx e').getD k 0 = (splice (blk.take dirLen) (entOff idx) (e'.take 39)).getD k 0 := by
    intro k hk
    unfold blockWithEntry
    rw [entryOff_eq]
    exact getD_quantize_take _ k (by rw [hsp]; exact hk) (by unfold blockSize; omega)
  refine ⟨blockWithEntry_length _ _ _, ?_, ?_⟩
  · intro k hk
    by_cases hk511 : k < 511
    · rw [hbyte k hk511, getD_splice_outside _ _ _ k (by simp [he]; omega) (by rw [hb511]; omega)]
      simp only [List.getD_eq_getElem?_getD]
      rw [List.getElem?_take_of_lt (by unfold dirLen; omega)]
    · by_cases hk511' : k = 511
      · subst hk511'
        rw [h511]
        unfold blockWithEntry quantize
        simp only [List.getD_eq_getElem?_getD]
        rw [List.getElem?_append_right (by simp [hsp, entryOff_eq]; omega)]
        simp [hsp, entryOff_eq, blockSize]
      · simp only [List.getD_eq_getElem?_getD]
        rw [List.getElem?_eq_none (by rw [blockWithEntry_length]; omega), List.getElem?_eq_none (by omega)]
  · intro j hj
    rw [hbyte _ (by omega), getD_splice_inside _ _ _ _ (by omega) (by simp [he]; omega) (by rw [hb511]; omega)]
    simp only [List.getD_eq_getElem?_getD]
    rw [List.getElem?_take_of_lt (by omega)]
    congr 2; omega

/-- the image after the model has set type and aux of an entry -/
theorem metaMod_of_retype (r : Raw) (loc : Loc) (blk : Bytes) (t a : Nat)
    (hblk : r.units[loc.block]? = some blk) (hlen : blk.length = 512) (h511 : blk.getD 511 0 = 0) (hidx : IdxOkFor loc blk) :
    MetaMod r (setUnit r loc.block (blockWithEntry blk loc.idx (Ent.setAux (Ent.setFtype (slice (blk.take dirLen) (Dir.entryOff loc.idx) entryLen) t) a)))
      loc.block loc.idx blk (blockWithEntry blk loc.idx (Ent.setAux (Ent.setFtype (slice (blk.take dirLen) (Dir.entryOff loc.idx) entryLen) t) a)) := by
  show MetaMod r (setUnit r loc.block (blockWithEntry blk loc.idx (Ent.setAux (Ent.setFtype (slice (blk.take dirLen) (entOff loc.idx) 39) t) a)))
    loc.block loc.idx blk (blockWithEntry blk loc.idx (Ent.setAux (Ent.setFtype (slice (blk.take dirLen) (entOff loc.idx) 39) t) a))
  have hsz : loc.block < r.units.size := by
    rcases Nat.lt_or_ge loc.block r.units.size with h | h
    · exact h
    · rw [Array.getElem?_eq_none h] at hblk; cases hblk
  have hrng := idxOk_range loc blk hidx
  have hoff : entOff loc.idx + 39 ≤ 511 := by unfold entOff; omega
  have hb511 : (blk.take dirLen).length = 511 := by simp [hlen, dirLen]
  have he : (slice (blk.take dirLen) (entOff loc.idx) 39).length = 39 := by unfold slice; simp [hb511]; omega
  have he1 : (Ent.setFtype (slice (blk.take dirLen) (entOff loc.idx) 39) t).length = 39 := by
    unfold Ent.setFtype splice; simp only [List.length_append, List.length_take, List.length_drop, List.length_cons, List.length_nil, he]; omega
  have he2 : (Ent.setAux (Ent.setFtype (slice (blk.take dirLen) (entOff loc.idx) 39) t) a).length = 39 := by
    unfold Ent.setAux splice u16le; simp only [List.length_append, List.length_take, List.length_drop, List.length_cons, List.length_nil, he1]; omega
  obtain ⟨h1, h2, h3⟩ := blockWithEntry_bytes blk _ loc.idx hlen h511 hrng he2
  refine { size := setUnit_size _ _ _, other := fun j hj => setUnit_other _ _ _ _ (Ne.symm hj), old := hblk,
           new := setUnit_self _ _ _ hsz, len := by rw [h1, hlen], blen := hlen, same := ?_, idx := hrng }
  intro k hk16 hk30 hk31 hk32
  by_cases hreg : entOff loc.idx ≤ k ∧ k < entOff loc.idx + 39
  · have hk : k = entOff loc.idx + (k - entOff loc.idx) := by omega
    rw [hk, h3 _ (by omega)]
    unfold Ent.setAux Ent.setFtype
    rw [getD_splice_outside _ _ 31 _ (by simp [u16le]; omega) (by rw [show (splice (slice (blk.take dirLen) (entOff loc.idx) 39) 16 [t]).length = 39 from he1]; omega),
      getD_splice_outside _ _ 16 _ (by simp; omega) (by rw [he]; omega), getD_slice _ _ _ _ (by omega)]
    simp only [List.getD_eq_getElem?_getD]
    rw [List.getElem?_take_of_lt (by unfold dirLen; omega)]
  · exact h2 k (by omega)

/-- **the reading after type / access / aux bytes of one volume-directory entry have changed** -/
theorem read_meta (r r' : Raw) (B idx : Nat) (blk nb : Bytes) (hmod : MetaMod r r' B idx blk nb) (v : Vol)
    (hread : Read.ProdosT.read r = .ok v)
    (hgeo : ∀ kb, r.units[2]? = some kb → kb.getD 35 0 = 39 ∧ kb.getD 36 0 = 13)
    (hB2 : 2 = B → 2 ≤ idx) (hBown : B ∉ v.allOwned)
    (hfile : (entryAt blk (idx - 1) 39).getD 0 0 / 16 ≠ 0xD)
    (hbm : ∀ kb, r.units[2]? = some kb → B < le16 kb 39 ∨ le16 kb 39 + (le16 kb 41 + 4095) / 4096 ≤ B) :
    ∃ fsL ch, readTree r v.hi = .ok (fsL, ch) ∧ v.files = fsL.map (·.1) ∧
      Read.ProdosT.read r' = .ok { v with files := (fsL.map (updAtM (B, idx) (entryAt nb (idx - 1) 39))).map (·.1) } := by
  obtain ⟨keyBlk, fsL, ch, freeU, hk2, hst, htot, hbmr, htree, hfree, hv⟩ := read_inv r v hread
  subst hv
  refine ⟨fsL, ch, htree, rfl, ?_⟩
  -- the volume key block of the new image carries the same header fields
  have hkey' : ∃ kb', r'.units[2]? = some kb' ∧ kb'.getD 4 0 = keyBlk.getD 4 0 ∧ le16 kb' 39 = le16 keyBlk 39 ∧
      le16 kb' 41 = le16 keyBlk 41 ∧ slice kb' 5 (keyBlk.getD 4 0 % 16) = slice keyBlk 5 (keyBlk.getD 4 0 % 16) := by
    by_cases h2 : 2 = B
    · have hidx2 := hB2 h2
      have hoff2 : 43 ≤ entOff idx := by unfold entOff; omega
      subst h2
      have hbk : keyBlk = blk := by rw [hmod.old] at hk2; exact (Option.some.inj hk2).symm
      subst hbk
      refine ⟨nb, hmod.new, hmod.same _ (by omega) (by omega) (by omega) (by omega), le16_congr nb keyBlk _ (hmod.same _ (by omega) (by omega) (by omega) (by omega)) (hmod.same _ (by omega) (by omega) (by omega) (by omega)),
        le16_congr nb keyBlk _ (hmod.same _ (by omega) (by omega) (by omega) (by omega)) (hmod.same _ (by omega) (by omega) (by omega) (by omega)), ?_⟩
      apply slice_congr _ _ _ _ hmod.len
      intro k _ hk
      have := Nat.mod_lt (keyBlk.getD 4 0) (by decide : 16 > 0)
      exact hmod.same k (by omega) (by omega) (by omega) (by omega)
    · exact ⟨keyBlk, by rw [hmod.other 2 (fun hh => h2 hh)]; exact hk2, rfl, rfl, rfl, rfl⟩
  obtain ⟨kb', hk2', e4, e39, e41, elbl⟩ := hkey'
  have htree' : readTree r' (le16 keyBlk 41) = .ok (fsL.map (updAtM (B, idx) (entryAt nb (idx - 1) 39)), ch) :=
    readDir_meta r r' (le16 keyBlk 41) B idx blk nb hmod 69 2 [] 0 fsL ch (by omega) htree hgeo hB2
      (by unfold Vol.allOwned at hBown; simpa [List.flatMap_map] using hBown) hfile
  have hfree' : bitmapFree r' (le16 keyBlk 39) (le16 keyBlk 41) = .ok freeU := by
    rw [bitmapFree_congr r r' _ _ (fun k hk => hmod.other _ (by have := hbm keyBlk hk2; omega)), hfree]
  unfold Read.ProdosT.read
  rw [unit_of_get r' 2 _ kb' hk2']
  simp only
  have hcount : r'.count = r.count := by unfold Raw.count; exact hmod.size
  rw [e4, e39, e41, hcount, if_neg (by simpa using hst), if_neg htot, if_neg hbmr, htree']
  simp only
  rw [hfree', elbl]

/-- with distinct paths, the records of a located reading that sit at `loc` (all of path `p`) are one record: updating
"at `loc`" is updating one position -/
theorem map_updAtM_eq_set (fsL : List LRec) (loc : Nat × Nat) (a : Bytes) (p : Bytes) (i : Nat) (hi : i < fsL.length)
    (hnd : ((fsL.map (·.1)).map (·.path)).Nodup) (hiloc : fsL[i].2 = loc)
    (hpath : ∀ fl ∈ fsL, fl.2 = loc → fl.1.path = p) :
    (fsL.map (updAtM loc a)).map (·.1) = (fsL.map (·.1)).set i (updMeta a fsL[i].1) := by
  apply List.ext_getElem
  · simp
  · intro j h1 h2
    have hj : j < fsL.length := by simpa using h1
    simp only [List.getElem_map, List.getElem_set]
    by_cases hij : i = j
    · subst hij
      simp only [↓reduceIte]
      unfold updAtM; rw [if_pos hiloc]
    · simp only [hij, ↓reduceIte]
      have hne : fsL[j].2 ≠ loc := by
        intro hjl
        have hpi := hpath _ (List.getElem_mem hi) hiloc
        have hpj := hpath _ (List.getElem_mem hj) hjl
        have := getElem_path_ne hnd (by simpa using hi) (by simpa using hj) hij
        simp only [List.getElem_map] at this
        exact this (hpi.trans hpj.symm)
      unfold updAtM; rw [if_neg hne]


/-- **the reading after `retype`'s bytes have changed refines the abstract `retype`** (volume-directory files) -/
theorem meta_change_refines (r r' : Raw) (B idx : Nat) (blk nb : Bytes) (hmod : MetaMod r r' B idx blk nb) (v : Vol)
    (hread : Read.ProdosT.read r = .ok v) (hwf : v.wfB = true)
    (hgeo : ∀ kb, r.units[2]? = some kb → kb.getD 35 0 = 39 ∧ kb.getD 36 0 = 13)
    (hB2 : 2 = B → 2 ≤ idx) (hBown : B ∉ v.allOwned)
    (hfile : (entryAt blk (idx - 1) 39).getD 0 0 / 16 ≠ 0xD)
    (hbm : ∀ kb, r.units[2]? = some kb → B < le16 kb 39 ∨ le16 kb 39 + (le16 kb 41 + 4095) / 4096 ≤ B)
    (hreach : ∀ fsL ch, readTree r v.hi = .ok (fsL, ch) → ∃ fl ∈ fsL, fl.2 = (B, idx)) :
    ∃ v', Read.ProdosT.read r' = .ok v' ∧ v'.wfB = true ∧
      stepOk { eofRule := id, keepsType := true, keepsAux := true, hasLock := true } v
        (.retype (baseRec (entryAt blk (idx - 1) 39) []).path) true v' = true := by
  obtain ⟨fsL, ch, htree, hfiles, hread'⟩ := read_meta r r' B idx blk nb hmod v hread hgeo hB2 hBown hfile hbm
  obtain ⟨fl, hfl, hflloc⟩ := hreach fsL ch htree
  obtain ⟨i, hi, hfi⟩ := List.getElem_of_mem hfl
  have hBown' : B ∉ fsL.flatMap (·.1.owned) := by
    unfold Vol.allOwned at hBown; rw [hfiles] at hBown; simpa [List.flatMap_map] using hBown
  have hpath := readDir_loc_path r v.hi B idx blk hmod.old 69 2 [] 0 fsL ch htree hgeo hBown' hfile
  have hnd : ((fsL.map (·.1)).map (·.path)).Nodup := by rw [← hfiles]; exact wfB_paths_nodup hwf
  have hiloc : fsL[i].2 = (B, idx) := by rw [hfi]; exact hflloc
  have hset := map_updAtM_eq_set fsL (B, idx) (entryAt nb (idx - 1) 39) _ i hi hnd hiloc (fun g hg hgl => (hpath g hg hgl).1)
  rw [hset, ← hfiles] at hread'
  have hiv : i < v.files.length := by rw [hfiles]; simpa using hi
  have hfiv : v.files[i] = fsL[i].1 := by simp [hfiles]
  have hp : v.files[i].path = (baseRec (entryAt blk (idx - 1) 39) []).path := by
    rw [hfiv]; exact (hpath _ (List.getElem_mem hi) hiloc).1
  have hwf' : ({ v with files := v.files.set i (updMeta (entryAt nb (idx - 1) 39) fsL[i].1) } : Vol).wfB = true := by
    rw [wfB_set_same v i _ hiv (by rw [hfiv]; rfl) (by rw [hfiv]; rfl) (by rw [hfiv]; rfl)]; exact hwf
  refine ⟨_, hread', hwf', ?_⟩
  apply stepOk_retype_of hwf hwf' hiv hp rfl (by show (updMeta _ fsL[i].1).path = _; rw [← hp, hfiv]; rfl)
  rw [hfiv]
  exact ⟨rfl, rfl, rfl, rfl⟩

/-- **`retype(path, type, aux)` refines the abstract `retype`**, for the location the search returned (hypotheses as
`lock_refines`) -/
theorem retype_refines (d : Disk) (buf : Array Nat) (path : Bytes) (t a : Nat) (loc : Loc) (blk : Bytes) (v : Vol)
    (hfind : findFile path d = (.ok loc, d))
    (hnb : d.bitmapBlocks.contains loc.block = false) (hblk : d.raw.units[loc.block]? = some blk)
    (hlen : blk.length = 512) (h511 : blk.getD 511 0 = 0) (hidx : IdxOkFor loc blk)
    (hopen : d.bitmap = some buf) (hcov : loc.block / 8 < buf.size)
    (hread : Read.ProdosT.read d.raw = .ok v) (hwf : v.wfB = true)
    (hgeo : ∀ kb, d.raw.units[2]? = some kb → kb.getD 35 0 = 39 ∧ kb.getD 36 0 = 13)
    (hBown : loc.block ∉ v.allOwned)
    (hfile : (entryAt blk (loc.idx - 1) 39).getD 0 0 / 16 ≠ 0xD)
    (hbm : ∀ kb, d.raw.units[2]? = some kb → loc.block < le16 kb 39 ∨ le16 kb 39 + (le16 kb 41 + 4095) / 4096 ≤ loc.block)
    (hreach : ∀ fsL ch, Read.ProdosT.readTree d.raw v.hi = .ok (fsL, ch) → ∃ fl ∈ fsL, fl.2 = (loc.block, loc.idx)) :
    ∃ d' v', retype path (some t) (some a) d = (.ok (), d') ∧ Read.ProdosT.read d'.raw = .ok v' ∧ v'.wfB = true ∧
      stepOk { eofRule := id, keepsType := true, keepsAux := true, hasLock := true } v
        (.retype (Read.ProdosT.baseRec (entryAt blk (loc.idx - 1) 39) []).path) true v' = true := by
  have hspec := retype_spec d buf path t a loc blk hfind hnb hblk hidx hopen hcov
  rw [modEntry_retype] at hspec
  have hmod := metaMod_of_retype d.raw loc blk t a hblk hlen h511 hidx
  have hB2 : 2 = loc.block → 2 ≤ loc.idx := by
    intro h2
    have h := hidx
    unfold IdxOkFor Dir.idxOk kindOf at h
    rw [← h2] at h
    simp [volKeyBlock] at h
    exact h.1
  obtain ⟨v', hr', hwf', hstep⟩ := meta_change_refines d.raw _ loc.block loc.idx blk _ hmod v hread hwf hgeo hB2 hBown hfile hbm hreach
  exact ⟨_, v', hspec, hr', hwf', hstep⟩

/-- **`retype(path, type, aux)` of a file of the volume directory refines the abstract `retype` of its canonical name.** -/
theorem retype_path_refines (d d' : Disk) (buf : Array Nat) (path vn nm kb : Bytes) (t a : Nat) (v : Vol)
    (hkb : d.raw.units[2]? = some kb) (h2nb : d.bitmapBlocks.contains 2 = false)
    (hnodes : normalizePath (volName (slice kb 4 entryLen)) path = .ok [vn, nm])
    (hopen : d.bitmap = some buf)
    (hread : Read.ProdosT.read d.raw = .ok v) (hwf : v.wfB = true)
    (hgeo : kb.getD 35 0 = 39 ∧ kb.getD 36 0 = 13)
    (hch : ∀ fsL ch, readTree d.raw v.hi = .ok (fsL, ch) → ChainOk d buf ch)
    (hrun : retype path (some t) (some a) d = (.ok (), d')) :
    ∃ v', Read.ProdosT.read d'.raw = .ok v' ∧ v'.wfB = true ∧
      stepOk { eofRule := id, keepsType := true, keepsAux := true, hasLock := true } v (.retype (upper nm)) true v' = true := by
  obtain ⟨keyBlk, fsL, ch, freeU, hk2, _, _, hbmr, htree, _, hv⟩ := read_inv d.raw v hread
  have hkk : keyBlk = kb := by rw [hkb] at hk2; exact (Option.some.inj hk2).symm
  subst hkk
  have hhi : v.hi = le16 keyBlk 41 := by rw [hv]
  rw [← hhi] at htree
  have hcok := hch fsL ch htree
  -- the search
  unfold retype at hrun
  simp only [bind_def] at hrun
  obtain ⟨loc, d1, hfind, hmodify⟩ := bind_split _ _ d d' () hrun
  obtain ⟨hd1, blk, f, hblk, hidx, hmem, hst, hfl, _, hbase⟩ :=
    find_root_reaches d d1 path vn nm loc keyBlk v.hi fsL ch hkb h2nb hnodes hfind htree (fun b hb => (hcok b hb).1) hgeo
  rw [hd1] at hfind hmodify
  obtain ⟨hnb, hcov, hblkok⟩ := hcok loc.block hmem
  obtain ⟨hlen, h511, hbytes⟩ := hblkok blk hblk
  -- the block of the entry is a system block: no record owns it, it is no bitmap block
  have hsys : loc.block ∈ v.sys := by rw [hv]; simp [hmem]
  have hnd := (wfB_iff.1 hwf).2.1
  have hBown : loc.block ∉ v.allOwned := by
    intro ho
    rw [List.nodup_append] at hnd
    exact hnd.2.2 _ ho _ hsys rfl
  have hbm : ∀ kb', d.raw.units[2]? = some kb' → loc.block < le16 kb' 39 ∨ le16 kb' 39 + (le16 kb' 41 + 4095) / 4096 ≤ loc.block := by
    intro kb' hk'
    have : kb' = keyBlk := by rw [hkb] at hk'; exact (Option.some.inj hk').symm
    subst this
    rcases Nat.lt_or_ge loc.block (le16 kb' 39) with hlt | hge
    · exact Or.inl hlt
    · rcases Nat.lt_or_ge loc.block (le16 kb' 39 + (le16 kb' 41 + 4095) / 4096) with hlt2 | hge2
      · exfalso
        -- then it would occur twice in `sys`
        have hs : v.sys = [0, 1] ++ ch ++ (List.range ((le16 kb' 41 + 4095) / 4096)).map (· + le16 kb' 39) := by rw [hv]
        have hin : loc.block ∈ (List.range ((le16 kb' 41 + 4095) / 4096)).map (· + le16 kb' 39) := by
          rw [List.mem_map]; exact ⟨loc.block - le16 kb' 39, List.mem_range.mpr (by omega), by omega⟩
        have hsn : v.sys.Nodup := (List.nodup_append.mp hnd).2.1
        rw [hs, List.nodup_append] at hsn
        exact hsn.2.2 _ (by simp [hmem]) _ hin rfl
      · exact Or.inr hge2
  have hfile : (entryAt blk (loc.idx - 1) 39).getD 0 0 / 16 ≠ 0xD := by omega
  obtain ⟨d'', v', hlock, hr', hwf', hstep⟩ := retype_refines d buf path t a loc blk v hfind hnb hblk hlen h511 hidx hopen hcov
    hread hwf (fun kb' hk' => by rw [hkb] at hk'; rw [← Option.some.inj hk']; exact hgeo) hBown hfile hbm
    (fun fsL' ch' ht' => by
      rw [htree] at ht'
      have : fsL' = fsL := by injection ht' with h; injection h with h1 _; exact h1.symm
      subst this
      exact ⟨(f, (loc.block, loc.idx)), hfl, rfl⟩)
  have hdd : d'' = d' := by
    unfold retype at hlock
    simp only [bind_def] at hlock
    rw [bind_ok _ _ d d _ hfind] at hlock
    rw [hmodify] at hlock
    injection hlock with _ h2; exact h2.symm
  subst hdd
  rw [hbase] at hstep
  exact ⟨v', hr', hwf', hstep⟩

end A2Verif.FsProdos
