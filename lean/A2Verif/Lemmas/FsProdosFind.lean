import A2Verif.Lemmas.FsProdosLockModel
/-!
# What the model's search finds is what the reader lists (files of the volume directory)

`search_entries` walks the chain of the volume directory block by block and slot by slot; the total reader walks the
same chain (`dirChain`) and lists the same slots.  If the search returns a location, the located reading has a
record at that location whose path is the (upper-cased) name searched for.
-/
namespace A2Verif.FsProdos
open A2Verif.Fs.Prodos
open A2Verif.Read.Prodos (entryAt dirChain trimName)
open A2Verif.Read.ProdosT

/-- the step of `dirChain` at a block that is not the end -/
theorem dirChain_step (r : Raw) (total fuel b : Nat) (seen ch : List Nat) (hb : b ≠ 0)
    (h : dirChain r total (fuel + 1) b seen = .ok ch) :
    b < total ∧ ∃ blk, r.units[b]? = some blk ∧ dirChain r total fuel (le16 blk 2) (b :: seen) = .ok ch := by
  unfold dirChain at h
  simp only [hb, ↓reduceIte] at h
  split at h
  · cases h
  · next hbt =>
    split at h
    · cases h
    · cases hu : r.unit b "directory-block" with
      | error e => rw [hu] at h; cases h
      | ok blk =>
        rw [hu] at h
        exact ⟨by omega, blk, get_of_unit r b _ blk hu, h⟩

/-- the model's entry accessor and the reader's agree on a full block -/
theorem getEntry_eq_entryAt (blk : Bytes) (idx : Nat) (hidx : 1 ≤ idx ∧ idx ≤ 13) :
    slice (blk.take dirLen) (Dir.entryOff idx) entryLen = entryAt blk (idx - 1) 39 := by
  unfold entryAt
  have hoff : 4 + (idx - 1) * 39 = Dir.entryOff idx := by unfold Dir.entryOff entryLen; rw [Nat.mul_comm]
  rw [hoff]
  have hle : Dir.entryOff idx + 39 ≤ 511 := by unfold Dir.entryOff entryLen; omega
  show slice (blk.take 511) (Dir.entryOff idx) 39 = slice blk (Dir.entryOff idx) 39
  unfold slice
  apply List.ext_getElem?
  intro i
  by_cases hi : i < 39
  · rw [List.getElem?_take_of_lt hi, List.getElem?_take_of_lt hi, List.getElem?_drop, List.getElem?_drop,
      List.getElem?_take_of_lt (by omega)]
  · rw [List.getElem?_eq_none (by simp; omega), List.getElem?_eq_none (by simp; omega)]

theorem firstMatch_some (types : List Nat) (nm : Bytes) (dir : Dir) : ∀ (idxs : List Nat) (idx : Nat),
    firstMatch types nm dir idxs = some idx →
    idx ∈ idxs ∧ ∃ e, dir.getEntry idx = some e ∧ Ent.isActive e = true ∧ isFileMatch types nm e = true
  | [], idx, h => by simp [firstMatch] at h
  | i :: rest, idx, h => by
    unfold firstMatch at h
    cases hg : dir.getEntry i with
    | none =>
      rw [hg] at h
      obtain ⟨hm, he⟩ := firstMatch_some types nm dir rest idx h
      exact ⟨List.mem_cons_of_mem _ hm, he⟩
    | some e =>
      rw [hg] at h
      simp only at h
      split at h
      · next hc =>
        have : i = idx := by injection h
        subst this
        simp only [Bool.and_eq_true] at hc
        exact ⟨List.mem_cons_self, e, hg, hc.1, hc.2⟩
      · obtain ⟨hm, he⟩ := firstMatch_some types nm dir rest idx h
        exact ⟨List.mem_cons_of_mem _ hm, he⟩

theorem le16_take (b : Bytes) (n off : Nat) (h : off + 2 ≤ n) : le16 (b.take n) off = le16 b off := by
  unfold le16
  simp only [List.getD_eq_getElem?_getD]
  rw [List.getElem?_take_of_lt (by omega), List.getElem?_take_of_lt (by omega)]

/-- **the search along a directory chain**: if it finds something, it is in a block of the chain the reader computes,
the disk is unchanged, and the slot holds an active entry matching the name and the types -/
theorem searchLoop_found (r : Raw) (total : Nat) (ch : List Nat) (d : Disk) (hraw : d.raw = r) (types : List Nat) (nm : Bytes)
    (hbb : ∀ b ∈ ch, d.bitmapBlocks.contains b = false) :
    ∀ (fuel curr f' : Nat) (seen : List Nat) (loc : Loc) (d' : Disk),
      curr ≠ 0 → dirChain r total f' curr seen = .ok ch →
      searchLoop types nm fuel curr d = (.ok (some loc), d') →
      d' = d ∧ loc.block ∈ ch ∧ ∃ blk, r.units[loc.block]? = some blk ∧
        ∃ e, Dir.getEntry { kind := kindOf loc.block blk, bytes := blk.take dirLen } loc.idx = some e ∧
          Ent.isActive e = true ∧ isFileMatch types nm e = true
  | 0, _, _, _, _, _, _, _, h => by simp [searchLoop, M.fail] at h
  | fuel + 1, curr, f', seen, loc, d', hc, hch, h => by
    cases f' with
    | zero => simp [dirChain] at hch
    | succ f' =>
      obtain ⟨_, blk, hblk, hrest⟩ := dirChain_step r total f' curr seen ch hc hch
      have hcurr : curr ∈ ch := dirChain_seen r total f' _ _ ch hrest curr List.mem_cons_self
      have hblk' : d.raw.units[curr]? = some blk := by rw [hraw]; exact hblk
      unfold searchLoop at h
      simp only [bind_def] at h
      rw [bind_ok _ _ d d _ (getDirectory_plain d curr blk (hbb curr hcurr) hblk')] at h
      cases hfm : firstMatch types nm { kind := kindOf curr blk, bytes := blk.take dirLen }
          (Dir.entryIdxs { kind := kindOf curr blk, bytes := blk.take dirLen }) with
      | some idx =>
        rw [hfm] at h
        simp only [pure_def, M.pure] at h
        have hl : loc = { block := curr, idx := idx } := by injection h with h1 _; injection h1 with h1; injection h1 with h1; exact h1.symm
        have hd : d' = d := by injection h with _ h2; exact h2.symm
        subst hl
        obtain ⟨_, e, hge, hact, hmatch⟩ := firstMatch_some types nm _ _ idx hfm
        exact ⟨hd, hcurr, blk, hblk, e, hge, hact, hmatch⟩
      | none =>
        rw [hfm] at h
        simp only at h
        have hnext : Dir.next { kind := kindOf curr blk, bytes := blk.take dirLen } = le16 blk 2 := by
          unfold Dir.next; exact le16_take blk dirLen 2 (by unfold dirLen; omega)
        rw [hnext] at h
        by_cases hn : le16 blk 2 = 0
        · simp only [hn, ↓reduceIte, pure_def, M.pure] at h
          injection h with h1 _; injection h1 with h1; cases h1
        · simp only [hn, ↓reduceIte] at h
          exact searchLoop_found r total ch d hraw types nm hbb fuel (le16 blk 2) f' (curr :: seen) loc d' hn hrest h

theorem All2.mem_left {α β : Type} {R : α → β → Prop} {l : List α} {ys : List β} (h : All2 R l ys) {x : α} (hx : x ∈ l) :
    ∃ y, y ∈ ys ∧ R x y := by
  induction h with
  | nil => cases hx
  | cons hr _ ih =>
    rcases List.mem_cons.mp hx with rfl | hx'
    · exact ⟨_, List.mem_cons_self, hr⟩
    · obtain ⟨y, hy, hxy⟩ := ih hx'
      exact ⟨y, List.mem_cons_of_mem _ hy, hxy⟩

/-- **the reader lists every active file entry of the directory's chain**: a slot the reader looks at (slots 2‥13 of the
key block, 1‥13 of the other blocks of the chain) that holds an entry of storage type 1, 2 or 3 yields a record at that
location whose path is the entry's name under the directory's prefix -/
theorem readDir_has_entry (r : Raw) (total : Nat) (fuel key : Nat) (pfx : Bytes) (depth : Nat) (fs : List LRec) (ch : List Nat)
    (h : readDir (fuel + 1) r total key pfx depth = .ok (fs, ch))
    (hgeo : ∀ kb, r.units[key]? = some kb → kb.getD 35 0 = 39 ∧ kb.getD 36 0 = 13)
    (b idx : Nat) (blk : Bytes) (hb : b ∈ ch) (hblk : r.units[b]? = some blk)
    (hslot : (b = key → 2 ≤ idx) ∧ 1 ≤ idx ∧ idx ≤ 13)
    (hst : (entryAt blk (idx - 1) 39).getD 0 0 / 16 = 1 ∨ (entryAt blk (idx - 1) 39).getD 0 0 / 16 = 2 ∨
      (entryAt blk (idx - 1) 39).getD 0 0 / 16 = 3) :
    ∃ f, (f, (b, idx)) ∈ fs ∧ f.path = (baseRec (entryAt blk (idx - 1) 39) pfx).path := by
  unfold readDir at h
  split at h
  · cases h
  · cases hc : dirChain r total 1000 key [] with
    | error x => rw [hc] at h; cases h
    | ok chain =>
      rw [hc] at h
      simp only at h
      cases hu : r.unit key "directory-key-block" with
      | error x => rw [hu] at h; cases h
      | ok keyBlk =>
        rw [hu] at h
        simp only at h
        obtain ⟨hg1, hg2⟩ := hgeo keyBlk (get_of_unit r key _ keyBlk hu)
        have e1 : keyBlk.getD (4 + 0x1F) 0 = 39 := hg1
        have e2 : keyBlk.getD (4 + 0x20) 0 = 13 := hg2
        rw [e1, e2] at h
        split at h
        · cases h
        · cases he : List.mapM (blockEntries r key 13 39) chain with
          | error x => rw [he] at h; cases h
          | ok ents =>
            rw [he] at h
            simp only at h
            split at h
            · cases h
            · cases hm : List.mapM (readEntryWith (fun k p => readDir fuel r total k p (depth + 1)) r total pfx)
                  (ents.flatten.filter (fun e => e.1.getD 0 0 / 16 ≠ 0)) with
              | error x => rw [hm] at h; cases h
              | ok recs =>
                rw [hm] at h
                have hres : fs = recs.flatten ∧ ch = chain := by
                  injection h with h; injection h with h1 h2; exact ⟨h1.symm, h2.symm⟩
                obtain ⟨hfs, hch⟩ := hres
                subst hfs; subst hch
                -- the entry is among the entries of block `b`
                obtain ⟨l, hl, hbl⟩ := ((mapM_eq_ok _ _ _).mp he).mem_left hb
                obtain ⟨bk, hbk, hlform⟩ := blockEntries_form r key 13 39 b l hbl
                have hbkb : bk = blk := by rw [hblk] at hbk; exact (Option.some.inj hbk).symm
                subst hbkb
                have hxl : (entryAt bk (idx - 1) 39, b, idx) ∈ l := by
                  rw [hlform, List.mem_map]
                  refine ⟨idx - 1, ?_, by rw [show idx - 1 + 1 = idx by omega]⟩
                  split
                  · next hbk' =>
                    have := hslot.1 hbk'
                    rw [List.mem_drop_iff_getElem]
                    exact ⟨idx - 2, by simp; omega, by simp; omega⟩
                  · exact List.mem_range.mpr (by omega)
                have hact : (entryAt bk (idx - 1) 39, b, idx) ∈ ents.flatten.filter (fun e => e.1.getD 0 0 / 16 ≠ 0) := by
                  rw [List.mem_filter]
                  refine ⟨List.mem_flatten.mpr ⟨l, hl, hxl⟩, ?_⟩
                  simp only [ne_eq, decide_eq_true_eq]
                  omega
                obtain ⟨y, hy, hrun⟩ := ((mapM_eq_ok _ _ _).mp hm).mem_left hact
                unfold readEntryWith at hrun
                simp only at hrun
                split at hrun
                · cases hrun
                · cases hf : readFile r total (entryAt bk (idx - 1) 39) pfx with
                  | error x => rw [hf] at hrun; cases hrun
                  | ok f =>
                    rw [hf] at hrun
                    have hyy : y = [(f, (b, idx))] := by injection hrun with hrun; exact hrun.symm
                    subst hyy
                    exact ⟨f, List.mem_flatten.mpr ⟨_, hy, List.mem_singleton.mpr rfl⟩, (readFile_base r total _ pfx f hf).1⟩

theorem bind_split {α β : Type} (m : M α) (f : α → M β) (d d' : Disk) (b : β) (h : M.bind m f d = (.ok b, d')) :
    ∃ a d1, m d = (.ok a, d1) ∧ f a d1 = (.ok b, d') := by
  unfold M.bind at h
  cases hm : m d with
  | mk res d1 =>
    rw [hm] at h
    cases res with
    | error e => simp at h
    | ok a => exact ⟨a, d1, rfl, h⟩

/-- a search for a path of the form `NAME` / `/VOL/NAME` is one `search_entries` in the volume directory -/
theorem findFile_root (d d' : Disk) (path vn nm : Bytes) (loc : Loc) (kb : Bytes)
    (hkb : d.raw.units[2]? = some kb) (h2nb : d.bitmapBlocks.contains 2 = false)
    (hnodes : normalizePath (volName (slice kb 4 entryLen)) path = .ok [vn, nm])
    (hfind : findFile path d = (.ok loc, d')) :
    isNameValid nm = true ∧ searchLoop fileTypes nm 100 2 d = (.ok (some loc), d') := by
  unfold findFile searchVolume at hfind
  simp only [bind_def] at hfind
  have hvh : getVolHeader d = (.ok (slice kb 4 entryLen), d) := by
    unfold getVolHeader
    simp only [bind_def]
    rw [bind_ok _ _ d d _ (readBlock_plain d volKeyBlock kb h2nb hkb)]
    rfl
  rw [bind_ok _ _ d d _ hvh] at hfind
  have hlift : M.lift (normalizePath (volName (slice kb 4 entryLen)) path) d = (.ok [vn, nm], d) := by
    unfold M.lift; rw [hnodes]
  rw [bind_ok _ _ d d _ hlift] at hfind
  simp only [List.length_cons, List.length_nil] at hfind
  split at hfind
  · simp [M.fail] at hfind
  · split at hfind
    · simp [M.fail] at hfind
    · have hr : rng 1 (0 + 1 + 1) = [1] := rfl
      rw [hr] at hfind
      unfold walkLoop at hfind
      simp only [bind_def] at hfind
      obtain ⟨ol, d1, hse, hrest⟩ := bind_split _ _ d d' loc hfind
      have hnm : [vn, nm].getD 1 [] = nm := rfl
      rw [hnm] at hse
      simp only [↓reduceIte] at hse
      unfold searchEntries at hse
      by_cases hv : isNameValid nm = true
      · simp only [hv, Bool.not_true, Bool.false_eq_true, ↓reduceIte] at hse
        cases ol with
        | none => simp [M.fail] at hrest
        | some l =>
          simp only [true_or, ↓reduceIte, pure_def, M.pure] at hrest
          have hl : l = loc := by injection hrest with h1 _; injection h1
          have hd : d1 = d' := by injection hrest with _ h2
          subst hl; subst hd
          exact ⟨hv, hse⟩
      · have hv' : isNameValid nm = false := by simpa using hv
        simp [hv', M.fail] at hse

theorem isNameValid_len (nm : Bytes) (h : isNameValid nm = true) : 1 ≤ nm.length ∧ nm.length ≤ 15 := by
  unfold isNameValid at h
  have hl : (upper nm).length = nm.length := by unfold upper; simp
  cases hu : upper nm with
  | nil => rw [hu] at h; cases h
  | cons c rest =>
    rw [hu] at h
    simp only [Bool.and_eq_true, decide_eq_true_eq] at h
    rw [hu] at hl
    simp only [List.length_cons] at hl
    omega

/-- an entry matching a valid name among the file storage types is a file entry whose name (as the reader trims it) is
the upper-cased name -/
theorem isFileMatch_file (nm e : Bytes) (hv : isNameValid nm = true) (h : isFileMatch fileTypes nm e = true) :
    (e.getD 0 0 / 16 = 1 ∨ e.getD 0 0 / 16 = 2 ∨ e.getD 0 0 / 16 = 3) ∧ trimName e = upper nm := by
  obtain ⟨hl1, hl15⟩ := isNameValid_len nm hv
  unfold isFileMatch fileTypes at h
  simp only [List.any_cons, List.any_nil, Bool.or_false, Bool.or_eq_true, Bool.and_eq_true, beq_iff_eq] at h
  have key : ∀ t, (t = 1 ∨ t = 2 ∨ t = 3) → nibsOf t nm = Ent.storLen e →
      (nameField nm).take (nibsOf t nm % 16) = (Ent.name e).take (nibsOf t nm % 16) →
      (e.getD 0 0 / 16 = t) ∧ trimName e = upper nm := by
    intro t ht hn hname
    have hnibs : nibsOf t nm = t * 16 + nm.length := by unfold nibsOf; rw [Nat.mod_eq_of_lt (by omega)]
    have hs : e.getD 0 0 = t * 16 + nm.length := by rw [← hnibs, hn]; rfl
    have hmod : nibsOf t nm % 16 = nm.length := by rw [hnibs]; omega
    rw [hmod] at hname
    refine ⟨by rw [hs]; omega, ?_⟩
    unfold trimName
    have : e.getD 0 0 % 16 = nm.length := by rw [hs]; omega
    rw [this]
    have h1 : (nameField nm).take nm.length = upper nm := by
      unfold nameField
      have : (upper nm).length = nm.length := by unfold upper; simp
      rw [List.take_append_of_le_length (by omega), List.take_of_length_le (by omega)]
    have h2 : (Ent.name e).take nm.length = slice e 1 nm.length := by
      unfold Ent.name slice
      rw [List.take_take, Nat.min_eq_left hl15]
    rw [← h2, ← hname, h1]
  unfold stSeedling stSapling stTree at h
  rcases h with h | h | h
  · obtain ⟨ht, hn⟩ := key 1 (Or.inl rfl) h.1 h.2; exact ⟨Or.inl ht, hn⟩
  · obtain ⟨ht, hn⟩ := key 2 (Or.inr (Or.inl rfl)) h.1 h.2; exact ⟨Or.inr (Or.inl ht), hn⟩
  · obtain ⟨ht, hn⟩ := key 3 (Or.inr (Or.inr rfl)) h.1 h.2; exact ⟨Or.inr (Or.inr ht), hn⟩

theorem readDir_chain (r : Raw) (total fuel key : Nat) (pfx : Bytes) (depth : Nat) (fs : List LRec) (ch : List Nat)
    (h : readDir (fuel + 1) r total key pfx depth = .ok (fs, ch)) : dirChain r total 1000 key [] = .ok ch := by
  unfold readDir at h
  split at h
  · cases h
  · cases hc : dirChain r total 1000 key [] with
    | error x => rw [hc] at h; cases h
    | ok chain =>
      rw [hc] at h
      simp only at h
      cases hu : r.unit key "directory-key-block" with
      | error x => rw [hu] at h; cases h
      | ok keyBlk =>
        rw [hu] at h
        simp only at h
        split at h
        · cases h
        · cases he : List.mapM (blockEntries r key (keyBlk.getD (4 + 0x20) 0) (keyBlk.getD (4 + 0x1F) 0)) chain with
          | error x => rw [he] at h; cases h
          | ok ents =>
            rw [he] at h
            simp only at h
            split at h
            · cases h
            · cases hm : List.mapM (readEntryWith (fun k p => readDir fuel r total k p (depth + 1)) r total pfx)
                  (ents.flatten.filter (fun e => e.1.getD 0 0 / 16 ≠ 0)) with
              | error x => rw [hm] at h; cases h
              | ok recs =>
                rw [hm] at h
                injection h with h; injection h with _ h2; rw [h2]

/-- **what the search finds, the reader lists** (paths of one component, i.e. files of the volume directory): the search
leaves the disk alone, and the located reading has a record at the location found, a file record whose path is the
upper-cased name -/
theorem find_root_reaches (d d' : Disk) (path vn nm : Bytes) (loc : Loc) (kb : Bytes) (total : Nat) (fsL : List LRec) (ch : List Nat)
    (hkb : d.raw.units[2]? = some kb) (h2nb : d.bitmapBlocks.contains 2 = false)
    (hnodes : normalizePath (volName (slice kb 4 entryLen)) path = .ok [vn, nm])
    (hfind : findFile path d = (.ok loc, d'))
    (htree : readTree d.raw total = .ok (fsL, ch))
    (hbb : ∀ b ∈ ch, d.bitmapBlocks.contains b = false)
    (hgeo : kb.getD 35 0 = 39 ∧ kb.getD 36 0 = 13) :
    d' = d ∧ ∃ blk f, d.raw.units[loc.block]? = some blk ∧ IdxOkFor loc blk ∧ loc.block ∈ ch ∧
      ((entryAt blk (loc.idx - 1) 39).getD 0 0 / 16 = 1 ∨ (entryAt blk (loc.idx - 1) 39).getD 0 0 / 16 = 2 ∨
        (entryAt blk (loc.idx - 1) 39).getD 0 0 / 16 = 3) ∧
      (f, (loc.block, loc.idx)) ∈ fsL ∧ f.path = upper nm ∧
      (baseRec (entryAt blk (loc.idx - 1) 39) []).path = upper nm := by
  obtain ⟨hv, hsl⟩ := findFile_root d d' path vn nm loc kb hkb h2nb hnodes hfind
  have hchain := readDir_chain d.raw total 69 2 [] 0 fsL ch htree
  obtain ⟨hd, hmem, blk, hblk, e, hge, _, hmatch⟩ :=
    searchLoop_found d.raw total ch d rfl fileTypes nm hbb 100 2 1000 [] loc d' (by omega) hchain hsl
  refine ⟨hd, blk, ?_⟩
  have hidx : IdxOkFor loc blk := by
    unfold IdxOkFor
    unfold Dir.getEntry at hge
    split at hge
    · next h => exact h
    · cases hge
  have hrng := idxOk_range loc blk hidx
  have he : e = entryAt blk (loc.idx - 1) 39 := by
    have hidx' := hidx
    unfold IdxOkFor at hidx'
    unfold Dir.getEntry at hge
    rw [if_pos hidx'] at hge
    have := (Option.some.inj hge).symm
    rw [this]; exact getEntry_eq_entryAt blk loc.idx hrng
  subst he
  obtain ⟨hst, hname⟩ := isFileMatch_file nm _ hv hmatch
  have hslot : (loc.block = 2 → 2 ≤ loc.idx) ∧ 1 ≤ loc.idx ∧ loc.idx ≤ 13 := by
    refine ⟨?_, hrng.1, hrng.2⟩
    intro h2
    have h := hidx
    unfold IdxOkFor Dir.idxOk kindOf at h
    rw [h2] at h
    simp [volKeyBlock] at h
    exact h.1
  obtain ⟨f, hf, hfp⟩ := readDir_has_entry d.raw total 69 2 [] 0 fsL ch htree
    (fun kb' hk' => by rw [hkb] at hk'; rw [← Option.some.inj hk']; exact hgeo) loc.block loc.idx blk hmem hblk hslot hst
  have hbase : (baseRec (entryAt blk (loc.idx - 1) 39) []).path = upper nm := by
    unfold baseRec; simp only [List.isEmpty_nil, ↓reduceIte]; exact hname
  exact ⟨f, hblk, hidx, hmem, hst, hf, by rw [hfp, hbase], hbase⟩

end A2Verif.FsProdos
