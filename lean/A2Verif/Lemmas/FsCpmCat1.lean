import A2Verif.Lemmas.FsCpmBuild
/-!
# `build_files`: the fields of the records (`key`, `user`, `name`, `typ`, `blocks_allocated`) — for `catalog_to_vec`
-/
namespace A2Verif.FsCpm
open A2Verif.Fs.Cpm
open A2Verif.Read.Cpm (Dpb fileKey extNum)

/-- the blocks `build_files` counts for an entry: its non-zero pointers -/
def cntOf (d : Dpb) (e : Bytes) : Nat := ((Ext.blockList d e).filter (· > 0)).length

/-- the sum over the file entries with model key `k` among the first `n` entries -/
def blocksUpTo (d : Dpb) (dir : Dir) (n : Nat) (k : Bytes) : Nat :=
  (((dir.take n).filter (fun e => isExtent e && modelKey e == k)).map (cntOf d)).sum

theorem blocksUpTo_succ {d : Dpb} {dir : Dir} {n : Nat} {e : Bytes} (he : dir[n]? = some e) (k : Bytes) :
    blocksUpTo d dir (n + 1) k = blocksUpTo d dir n k + (if isExtent e && modelKey e == k then cntOf d e else 0) := by
  unfold blocksUpTo
  have hlt : n < dir.length := (List.getElem?_eq_some_iff.1 he).1
  have : dir.take (n + 1) = dir.take n ++ [e] := by
    rw [List.take_succ, he]; rfl
  rw [this, List.filter_append, List.map_append, List.sum_append]
  congr 1
  by_cases c : (isExtent e && modelKey e == k) = true
  · rw [if_pos c]; simp [List.filter, c]
  · rw [if_neg c]; simp [List.filter, c]

/-- what `upsert` does to the list: the first record with the key is stepped, or a new record is appended -/
theorem upsert_shape {key : Bytes} {mk : Unit → FileInfo} {step : FileInfo → R FileInfo} :
    ∀ {ans ans1 : List FileInfo}, upsert key mk step ans = .ok ans1 →
      (∃ pre post fi0 fi1, ans = pre ++ fi0 :: post ∧ (∀ g ∈ pre, g.key ≠ key) ∧ fi0.key = key ∧ step fi0 = .ok fi1 ∧
        ans1 = pre ++ fi1 :: post) ∨
      ((∀ g ∈ ans, g.key ≠ key) ∧ ∃ fi1, step (mk ()) = .ok fi1 ∧ ans1 = ans ++ [fi1])
  | [], ans1, h => by
    unfold upsert at h
    cases hs : step (mk ()) with
    | error e => rw [hs] at h; cases h
    | ok fi' =>
      rw [hs] at h
      cases h
      exact Or.inr ⟨fun g hg => (by cases hg), fi', rfl, rfl⟩
  | fi :: rest, ans1, h => by
    unfold upsert at h
    by_cases c0 : fi.key = key
    · rw [if_pos c0] at h
      cases hs : step fi with
      | error e => rw [hs] at h; cases h
      | ok fi' =>
        rw [hs] at h
        cases h
        exact Or.inl ⟨[], rest, fi, fi', rfl, fun g hg => (by cases hg), c0, hs, rfl⟩
    · rw [if_neg c0] at h
      cases hu : upsert key mk step rest with
      | error e => rw [hu] at h; cases h
      | ok rest1 =>
        rw [hu] at h
        cases h
        rcases upsert_shape hu with ⟨pre, post, fi0, fi1, e1, e2, e3, e4, e5⟩ | ⟨e1, fi1, e2, e3⟩
        · refine Or.inl ⟨fi :: pre, post, fi0, fi1, by rw [e1]; rfl, ?_, e3, e4, by rw [e5]; rfl⟩
          intro g hg
          rcases List.mem_cons.1 hg with rfl | hg
          · exact c0
          · exact e2 g hg
        · refine Or.inr ⟨?_, fi1, e2, by rw [e3]; rfl⟩
          intro g hg
          rcases List.mem_cons.1 hg with rfl | hg
          · exact c0
          · exact e1 g hg

theorem tsGet_all {dir : Dir} {lab : Bytes} {i : Nat} {fi fi' : FileInfo} (h : tsGet dir lab i fi = .ok fi') :
    fi'.key = fi.key ∧ fi'.user = fi.user ∧ fi'.name = fi.name ∧ fi'.typ = fi.typ ∧ fi'.blocksAllocated = fi.blocksAllocated := by
  unfold tsGet at h
  split at h
  · cases h; exact ⟨rfl, rfl, rfl, rfl, rfl⟩
  · simp only [] at h
    split at h
    · cases h
    · split at h
      · cases h
      · split at h
        · cases h
        · cases h; exact ⟨rfl, rfl, rfl, rfl, rfl⟩

/-- what a record says about the directory scanned so far -/
structure RecOk (d : Dpb) (dir : Dir) (n : Nat) (fi : FileInfo) : Prop where
  ex : ∃ (j : Nat) (e : Bytes), j < n ∧ dir[j]? = some e ∧ isExtent e = true ∧ modelKey e = fi.key ∧ fi.user = Ext.user e ∧
    fi.name = (fileNameToSplitString (Ext.name e) (Ext.typ e)).1 ∧ fi.typ = (fileNameToSplitString (Ext.name e) (Ext.typ e)).2
  blocks : fi.blocksAllocated = blocksUpTo d dir n fi.key

/-- loop invariant of `build_files` for the fields `catalog_to_vec` shows -/
structure CInv (d : Dpb) (dir : Dir) (n : Nat) (ans : List FileInfo) : Prop where
  nodup : (ans.map (·.key)).Nodup
  recs : ∀ fi ∈ ans, RecOk d dir n fi
  complete : ∀ (j : Nat) (e : Bytes), j < n → dir[j]? = some e → isExtent e = true → ∃ fi ∈ ans, fi.key = modelKey e

theorem recOk_next_other {d : Dpb} {dir : Dir} {n : Nat} {e : Bytes} {fi : FileInfo} (he : dir[n]? = some e)
    (hk : ¬ (isExtent e = true ∧ modelKey e = fi.key)) (h : RecOk d dir n fi) : RecOk d dir (n + 1) fi := by
  obtain ⟨j, e0, a1, a2, a3, a4, a5, a6, a7⟩ := h.ex
  refine ⟨⟨j, e0, by omega, a2, a3, a4, a5, a6, a7⟩, ?_⟩
  rw [blocksUpTo_succ he, if_neg (by simpa using hk), Nat.add_zero]
  exact h.blocks

theorem buildLoop_cinv (d : Dpb) (v3 : Bool) (dir : Dir) (lab : Option Bytes) : ∀ (es : List Bytes) (i bad : Nat) (ans ans' : List FileInfo),
    es = dir.drop i → CInv d dir i ans → buildLoop d v3 dir lab es i bad ans = .ok ans' → CInv d dir dir.length ans' := by
  intro es
  induction es with
  | nil =>
    intro i bad ans ans' hes hc h
    unfold buildLoop at h
    cases h
    have hi : dir.length ≤ i := by
      have := congrArg List.length hes
      simp at this; omega
    refine ⟨hc.nodup, fun fi hfi => ?_, fun j e hj he hx => hc.complete j e (by omega) he hx⟩
    obtain ⟨⟨j, e0, a1, a2, a3, a4, a5, a6, a7⟩, hb⟩ := hc.recs fi hfi
    refine ⟨⟨j, e0, (List.getElem?_eq_some_iff.1 a2).1, a2, a3, a4, a5, a6, a7⟩, ?_⟩
    rw [hb]
    unfold blocksUpTo
    rw [List.take_of_length_le hi, List.take_of_length_le (Nat.le_refl _)]
  | cons e rest ih =>
    intro i bad ans ans' hes hc h
    obtain ⟨hei, hrest⟩ := drop_cons_getElem? hes
    unfold buildLoop at h
    simp only [] at h
    generalize (if (!isNameValid (Ext.getString e)) = true then bad + 1 else bad) = bad' at h
    split at h
    · cases h
    · split at h
      · cases h
      · split at h
        next hext =>
          split at h
          · cases h
          · split at h
            · cases h
            · split at h
              · cases h
              next ans1 hup =>
                refine ih (i + 1) _ ans1 ans' hrest ?_ h
                have hkey : decDigits (Ext.user e) ++ [58] ++ Ext.getString e = modelKey e := rfl
                -- what the step does to a record
                have hstep : ∀ (fi fi' : FileInfo), (let fi1 : FileInfo := { fi with entries := insertEntry (Ext.dataPtr e) i fi.entries, blocksAllocated := fi.blocksAllocated + ((Ext.blockList d e).filter (· > 0)).length }
                    if Ext.dataPtr e ≤ d.exm then
                      match lab with
                      | some lab => if Lab.isTimestamped lab then tsGet dir lab i fi1 else .ok fi1
                      | none => .ok fi1
                    else .ok fi1) = Except.ok fi' →
                    fi'.key = fi.key ∧ fi'.user = fi.user ∧ fi'.name = fi.name ∧ fi'.typ = fi.typ ∧
                      fi'.blocksAllocated = fi.blocksAllocated + cntOf d e := by
                  intro fi fi' hs'
                  simp only [] at hs'
                  split at hs'
                  · split at hs'
                    · split at hs'
                      · obtain ⟨a, b, c, d', e'⟩ := tsGet_all hs'
                        exact ⟨a, b, c, d', e'⟩
                      · cases hs'; exact ⟨rfl, rfl, rfl, rfl, rfl⟩
                    · cases hs'; exact ⟨rfl, rfl, rfl, rfl, rfl⟩
                  · cases hs'; exact ⟨rfl, rfl, rfl, rfl, rfl⟩
                rcases upsert_shape hup with ⟨pre, post, fi0, fi1, e1, e2, e3, e4, e5⟩ | ⟨e1, fi1, e2, e3⟩
                · -- an existing record
                  obtain ⟨s1, s2, s3, s4, s5⟩ := hstep fi0 fi1 e4
                  have hmem0 : fi0 ∈ ans := by rw [e1]; simp
                  have hkeys : ans1.map (·.key) = ans.map (·.key) := by
                    rw [e5, e1]; simp [s1]
                  refine ⟨by rw [hkeys]; exact hc.nodup, ?_, ?_⟩
                  · intro g hg
                    rw [e5] at hg
                    rcases List.mem_append.1 hg with hg | hg
                    · have hga : g ∈ ans := by rw [e1]; exact List.mem_append_left _ hg
                      exact recOk_next_other hei (fun c => e2 g hg (by rw [← c.2, hkey])) (hc.recs g hga)
                    · rcases List.mem_cons.1 hg with rfl | hg
                      · obtain ⟨⟨j, e0, a1, a2, a3, a4, a5, a6, a7⟩, hb⟩ := hc.recs fi0 hmem0
                        refine ⟨⟨j, e0, by omega, a2, a3, by rw [s1]; exact a4, by rw [s2]; exact a5, by rw [s3]; exact a6,
                          by rw [s4]; exact a7⟩, ?_⟩
                        rw [s5, s1, blocksUpTo_succ hei, hb, if_pos (by simp [hext, e3, ← hkey])]
                      · have hga : g ∈ ans := by rw [e1]; exact List.mem_append_right _ (List.mem_cons_of_mem _ hg)
                        refine recOk_next_other hei ?_ (hc.recs g hga)
                        intro c
                        -- `g` and `fi0` would carry the same key
                        have hnd := hc.nodup
                        rw [e1, List.map_append, List.map_cons, List.nodup_append] at hnd
                        have := (List.nodup_cons.1 hnd.2.1).1
                        apply this
                        rw [e3, hkey, c.2]
                        exact List.mem_map_of_mem hg
                  · intro j e' hj he' hx'
                    by_cases cj : j = i
                    · subst cj
                      rw [hei] at he'; cases he'
                      exact ⟨fi1, by rw [e5]; simp, by rw [s1, e3, hkey]⟩
                    · obtain ⟨g, hg, hgk⟩ := hc.complete j e' (by omega) he' hx'
                      rw [e1] at hg
                      rcases List.mem_append.1 hg with hg | hg
                      · exact ⟨g, by rw [e5]; exact List.mem_append_left _ hg, hgk⟩
                      · rcases List.mem_cons.1 hg with rfl | hg
                        · exact ⟨fi1, by rw [e5]; simp, by rw [s1]; exact hgk⟩
                        · exact ⟨g, by rw [e5]; exact List.mem_append_right _ (List.mem_cons_of_mem _ hg), hgk⟩
                · -- a new record
                  obtain ⟨s1, s2, s3, s4, s5⟩ := hstep _ fi1 e2
                  simp only [] at s1 s2 s3 s4 s5
                  have hk1 : fi1.key = modelKey e := by rw [s1, hkey]
                  refine ⟨?_, ?_, ?_⟩
                  · rw [e3, List.map_append, List.nodup_append]
                    refine ⟨hc.nodup, by simp, ?_⟩
                    intro a ha b hb' hab
                    rw [List.mem_map] at ha
                    obtain ⟨g, hg, rfl⟩ := ha
                    simp only [List.map_cons, List.map_nil, List.mem_singleton] at hb'
                    apply e1 g hg
                    rw [hab, hb', hk1, hkey]
                  · intro g hg
                    rw [e3] at hg
                    rcases List.mem_append.1 hg with hg | hg
                    · exact recOk_next_other hei (fun c => e1 g hg (by rw [← c.2, hkey])) (hc.recs g hg)
                    · rw [List.mem_singleton] at hg
                      subst hg
                      refine ⟨⟨i, e, by omega, hei, hext, hk1.symm, s2, by rw [s3], by rw [s4]⟩, ?_⟩
                      rw [s5, blocksUpTo_succ hei, hk1, if_pos (by simp [hext])]
                      -- no earlier entry carries this key
                      have : blocksUpTo d dir i (modelKey e) = 0 := by
                        unfold blocksUpTo
                        have hnil : (dir.take i).filter (fun e' => isExtent e' && modelKey e' == modelKey e) = [] := by
                          rw [List.filter_eq_nil_iff]
                          intro e' he' hc'
                          simp only [Bool.and_eq_true, beq_iff_eq] at hc'
                          obtain ⟨j, hj⟩ := List.mem_iff_getElem?.1 he'
                          rw [List.getElem?_take] at hj
                          split at hj
                          next hji =>
                            obtain ⟨g, hg, hgk⟩ := hc.complete j e' hji hj hc'.1
                            exact e1 g hg (by rw [hgk, hc'.2, hkey])
                          · cases hj
                        rw [hnil]; rfl
                      rw [this]
                  · intro j e' hj he' hx'
                    by_cases cj : j = i
                    · subst cj
                      rw [hei] at he'; cases he'
                      exact ⟨fi1, by rw [e3]; simp, hk1⟩
                    · obtain ⟨g, hg, hgk⟩ := hc.complete j e' (by omega) he' hx'
                      exact ⟨g, by rw [e3]; exact List.mem_append_left _ hg, hgk⟩
        next hext =>
          refine ih (i + 1) _ ans ans' hrest ?_ h
          have hx : isExtent e = false := by simpa using hext
          refine ⟨hc.nodup, fun g hg => recOk_next_other hei (fun c => by rw [hx] at c; cases c.1) (hc.recs g hg), ?_⟩
          intro j e' hj he' hx'
          by_cases cj : j = i
          · subst cj; rw [hei] at he'; cases he'; rw [hx] at hx'; cases hx'
          · exact hc.complete j e' (by omega) he' hx'

theorem buildFiles_cinv {d : Dpb} {v3 : Bool} {dir : Dir} {files : List FileInfo} (h : buildFiles d v3 dir = .ok files) :
    CInv d dir dir.length files := by
  unfold buildFiles at h
  exact buildLoop_cinv d v3 dir (findLabel dir) dir 0 0 [] files rfl
    ⟨List.nodup_nil, fun fi hfi => (by cases hfi), fun j e hj => (by omega)⟩ h

end A2Verif.FsCpm
