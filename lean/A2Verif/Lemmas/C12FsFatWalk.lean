import A2Verif.Lemmas.C12FsFatRead
/-!
# C12, FAT `tree` / `glob` on arbitrary images: the recursive directory walk of the concrete model

`walkNode` (`Model/C12FsId.lean`, namespace `Fat`) is `tree_node` / `glob_node` over the concrete FAT model: `build_files` of the
directory at hand, `get_directory` of every sub-directory entry, the walk one level deeper, `get_cluster_chain_length` per entry.
`walkNode_safe`: from every good state, for every directory content, no step panics; the visit counter only grows and, with the
budget of c9d6197, never exceeds `cluster_count_usable + 1`.  Core Lean only.
-/
namespace A2Verif.C12FsId.Fat
open A2Verif.Fs.Fat

theorem chainLenLoop_safe : ∀ (fuel c : Nat) (d : Disk), Good d → Safe (chainLenLoop fuel c) d (fun _ _ => True) := by
  intro fuel
  induction fuel with
  | zero => intro c d _; unfold chainLenLoop; exact Safe.fail (by decide)
  | succ fuel ih =>
    intro c d g
    unfold chainLenLoop
    apply Safe.bind (nextCluster_safe g c)
    intro o d2 hext _
    cases o with
    | none => exact Safe.pure trivial
    | some nx => exact ih nx d2 (good_ext g hext)

/-- `get_cluster_chain_length`: no panic for any first cluster (≤ `cluster_count_usable` iterations: the fuel) -/
theorem chainLength_safe {d : Disk} (g : Good d) (c : Nat) : Safe (chainLength c) d (fun _ _ => True) := by
  unfold chainLength
  split
  · exact Safe.pure trivial
  · apply Safe.bind_get
    try dsimp only
    split
    · exact Safe.fail (by decide)
    · exact chainLenLoop_safe _ c d g

/-- with the budget the counter is at most `limit + 1` -/
def Bd (budget : Bool) (limit v : Nat) : Prop := budget = true → v ≤ limit + 1

/-- what a walk returns: the counter only grows and respects the budget -/
def WPost (budget : Bool) (limit v : Nat) (v' : Nat) (_ : Disk) : Prop := v ≤ v' ∧ Bd budget limit v'

theorem walkItems_safe (budget mt : Bool) (limit : Nat) (dir : Directory) (rec : Directory → Nat → M Nat)
    (hrec : ∀ (sub : Directory) (v : Nat) (d : Disk), Good d → d.bpb.clusterCountUsable = limit → Bd budget limit v →
      Safe (rec sub v) d (WPost budget limit v)) :
    ∀ (files : List (Bytes × FInfo)) (v : Nat) (d : Disk), Good d → d.bpb.clusterCountUsable = limit → Bd budget limit v →
      Safe (walkItems rec mt dir files v) d (WPost budget limit v) := by
  intro files
  induction files with
  | nil => intro v d _ _ hb; unfold walkItems; exact Safe.pure ⟨Nat.le_refl _, hb⟩
  | cons kv rest ih =>
    intro v d g hl hb
    unfold walkItems
    split
    · exact ih v d g hl hb
    · split
      · exact ih v d g hl hb
      · have hdesc : Safe (if kv.2.directory = true then
              match kv.2.cluster1 with
              | some ptr => do
                let sub ← getDirectory (some ptr)
                rec sub v
              | none => pure v
            else pure v) d (WPost budget limit v) := by
          split
          · split
            · rename_i ptr _
              apply Safe.bind (getDirectory_safe0 g (some ptr))
              intro sub d1 hext1 _
              exact hrec sub v d1 (good_ext g hext1) (by rw [(Ext.same g hext1).2.1]; exact hl) hb
            · exact Safe.pure ⟨Nat.le_refl _, hb⟩
          · exact Safe.pure ⟨Nat.le_refl _, hb⟩
        apply Safe.bind hdesc
        intro v1 d1 hext1 hp1
        have g1 := good_ext g hext1
        have hl1 : d1.bpb.clusterCountUsable = limit := by rw [(Ext.same g hext1).2.1]; exact hl
        have hmeta : Safe (if mt = true then
              match kv.2.cluster1 with
              | some c => chainLength c
              | none => pure ()
            else pure ()) d1 (fun _ _ => True) := by
          split
          · split
            · exact chainLength_safe g1 _
            · exact Safe.pure trivial
          · exact Safe.pure trivial
        apply Safe.bind hmeta
        intro _ d2 hext2 _
        have g2 := good_ext g1 hext2
        have hl2 : d2.bpb.clusterCountUsable = limit := by rw [(Ext.same g1 hext2).2.1]; exact hl1
        exact (ih v1 d2 g2 hl2 hp1.2).weaken (fun v' _ h => ⟨Nat.le_trans hp1.1 h.1, h.2⟩)

/-- **the FAT directory walk (`tree_node`, `glob_node`) on the concrete model**: from every good state, for every directory content
and every nesting cap, no panic; the visit counter only grows; with the budget it never exceeds `cluster_count_usable + 1` -/
theorem walkNode_safe (budget mt : Bool) (limit : Nat) : ∀ (depth : Nat) (dir : Directory) (v : Nat) (d : Disk), Good d →
    d.bpb.clusterCountUsable = limit → Bd budget limit v → Safe (walkNode budget mt depth dir v) d (WPost budget limit v) := by
  intro depth
  induction depth with
  | zero => intro dir v d _ _ _; unfold walkNode; exact Safe.fail (by decide)
  | succ n ih =>
    intro dir v d g hl hb
    by_cases hbud : (budget && decide (v + 1 > d.bpb.clusterCountUsable + 1)) = true
    · have e : walkNode budget mt (n + 1) dir v d = (.error .badFAT, d) := by
        unfold walkNode; simp only [hbud, if_true]
      unfold Safe
      rw [e]
      exact ⟨Ext.refl d, (by intro hh; cases hh), fun a h => by cases h⟩
    · have hv1 : Bd budget limit (v + 1) := by
        intro hb'
        subst hb'
        simp only [Bool.true_and, decide_eq_true_eq] at hbud
        omega
      cases hbf : buildFiles d.labelFiles dir with
      | error er =>
        have hne := (buildFiles_spec d.labelFiles dir).1
        by_cases hcase : er = .panic ∨ er = .unmodelled
        · have e : walkNode budget mt (n + 1) dir v d = (.error er, d) := by
            unfold walkNode; simp only [hbud, hbf, if_pos hcase]; rfl
          unfold Safe
          rw [e]
          refine ⟨Ext.refl d, ?_, fun a h => by cases h⟩
          intro hh
          cases hh
          exact hne hbf
        · have e : walkNode budget mt (n + 1) dir v d = (.ok (v + 1), d) := by
            unfold walkNode; simp only [hbud, hbf, if_neg hcase]; rfl
          unfold Safe
          rw [e]
          exact ⟨Ext.refl d, (by intro hh; cases hh), fun a h => by cases h; exact ⟨Nat.le_succ v, hv1⟩⟩
      | ok files =>
        have e : walkNode budget mt (n + 1) dir v d = walkItems (walkNode budget mt n) mt dir files (v + 1) d := by
          unfold walkNode; simp only [hbud, hbf]; rfl
        have := walkItems_safe budget mt limit dir (walkNode budget mt n) (fun sub v' d' g' hl' hb' => ih sub v' d' g' hl' hb')
          files (v + 1) d g hl hv1
        unfold Safe at this ⊢
        rw [e]
        exact ⟨this.1, this.2.1, fun a ha => ⟨Nat.le_trans (Nat.le_succ v) (this.2.2 a ha).1, (this.2.2 a ha).2⟩⟩

theorem treeV_safe {d : Disk} (g : Good d) (budget : Bool) :
    Safe (treeV budget) d (fun v' _ => budget = true → v' ≤ d.bpb.clusterCountUsable + 1) := by
  unfold treeV
  apply Safe.bind (getRootDir_safe g)
  intro root d1 hext1 _
  have hl : d1.bpb.clusterCountUsable = d.bpb.clusterCountUsable := by rw [(Ext.same g hext1).2.1]
  exact (walkNode_safe budget true _ 65 root 0 d1 (good_ext g hext1) hl (fun _ => Nat.zero_le _)).weaken (fun _ _ h => h.2)

theorem globV_safe {d : Disk} (g : Good d) (budget : Bool) :
    Safe (globV budget) d (fun v' _ => budget = true → v' ≤ d.bpb.clusterCountUsable + 1) := by
  unfold globV
  apply Safe.bind (getRootDir_safe g)
  intro root d1 hext1 _
  have hl : d1.bpb.clusterCountUsable = d.bpb.clusterCountUsable := by rw [(Ext.same g hext1).2.1]
  exact (walkNode_safe budget false _ 64 root 0 d1 (good_ext g hext1) hl (fun _ => Nat.zero_le _)).weaken (fun _ _ h => h.2)

end A2Verif.C12FsId.Fat
