import A2Verif.Lemmas.FsFatSubRead
/-!
# `create` (mkdir) of a root-level directory in the concrete FAT model

`createSubdir_spec`: the entry for the parent and the 32-byte entries of the new cluster (`.`, `..`, end marks).
`mkdir_run`: `create(p)` is refused without any change (invalid name, unreadable root, duplicate, root full, no free
cluster), or takes the first free cluster, writes the directory data into it, marks it as the end of a chain and writes
the entry into the first free slot of the root.
-/
namespace A2Verif.FsFat
open A2Verif A2Verif.Fs.Fat A2Verif.Read.Fat A2Verif.Read.FatT

/-- the `.` entry of a new directory at cluster `nc` -/
def dotEntry (nc : Nat) (now : Stamp) : Bytes := Entry.setCluster (entryCreate (stringToFileName [46]) DIRECTORY now) nc
/-- the `..` entry of a directory whose parent is the root -/
def dotdotEntry (now : Stamp) : Bytes := Entry.setCluster (entryCreate (stringToFileName [46, 46]) DIRECTORY now) 0

/-- the entries of the cluster of a new directory -/
def newDirEntries (b : Fs.Fat.Bpb) (nc : Nat) (now : Stamp) : List Bytes :=
  dotEntry nc now :: dotdotEntry now :: List.replicate (epcOf b - 2) (zeros 32)

theorem dot_spec {nm : Bytes} (hn : nm.length = 11) {c : Nat} (hc : c < 65536) {now : Stamp} (hs : StampOk now) :
    (Entry.setCluster (entryCreate nm DIRECTORY now) c).length = 32 ∧
      (Entry.setCluster (entryCreate nm DIRECTORY now) c).take 11 = nm ∧
      (Entry.setCluster (entryCreate nm DIRECTORY now) c).getD 11 0 = 16 ∧
      le16 (Entry.setCluster (entryCreate nm DIRECTORY now) c) 26 = c := by
  obtain ⟨c1, c2, c3, _, _⟩ := entryCreate_bytes hn DIRECTORY hs
  obtain ⟨s1, s2, s3⟩ := entrySetCluster_spec c1 hc
  exact ⟨s1, (take_eq_of_getD (by omega) (by omega) (fun i hi => s3 i (by omega))).trans c2, by rw [s3 11 (by omega), c3]; rfl, s2⟩

/-- `Entry::create_subdir(name, 0, nc, block_size, now)` -/
theorem createSubdir_spec {d : Disk} (g : Geo d) (name : Bytes) {nc : Nat} (hc : nc < 65536) {now : Stamp} (hs : StampOk now) :
    createSubdir name 0 nc d.bpb.blockSize now = .ok (Entry.rename (dotEntry nc now) name, (newDirEntries d.bpb nc now).flatten) ∧
      AllLen 32 (newDirEntries d.bpb nc now) ∧ (newDirEntries d.bpb nc now).length = epcOf d.bpb := by
  have hspc : 0 < d.bpb.spc := Nat.pos_of_ne_zero g.spc
  have hepc : d.bpb.blockSize / entrySize = epcOf d.bpb := by rw [blockSize_eq g]; unfold epcOf entrySize; omega
  have h2 : ¬ (epcOf d.bpb < 2) := by unfold epcOf; omega
  have hn1 : (stringToFileName [46]).length = 11 := by decide
  have hn2 : (stringToFileName [46, 46]).length = 11 := by decide
  obtain ⟨a1, _, _, _⟩ := dot_spec hn1 hc hs
  obtain ⟨b1, _, _, _⟩ := dot_spec hn2 (by omega : 0 < 65536) hs
  refine ⟨?_, ?_, ?_⟩
  · unfold createSubdir
    simp only [hepc, h2, if_false]
    unfold newDirEntries dotEntry dotdotEntry
    simp only [List.flatten_cons, zeros, List.flatten_replicate_replicate, List.append_assoc]
  · intro x hx
    unfold newDirEntries at hx
    simp only [List.mem_cons, List.mem_replicate] at hx
    rcases hx with h | h | h
    · rw [h]; exact a1
    · rw [h]; exact b1
    · rw [h.2]; simp [zeros]
  · unfold newDirEntries
    simp
    omega

/-- the reader passes over all entries of a new directory: two dot entries, then end marks -/
theorem newDir_ents {b : Fs.Fat.Bpb} {nc : Nat} (hc : nc < 65536) {now : Stamp} (hs : StampOk now) :
    (act (newDirEntries b nc now)).filter (fun e => !(e.getD 0 0 = 46)) = [] ∧
      DirEntsOk (newDirEntries b nc now) := by
  have hn1 : (stringToFileName [46]).length = 11 := by decide
  have hn2 : (stringToFileName [46, 46]).length = 11 := by decide
  obtain ⟨a1, a2, a3, _⟩ := dot_spec hn1 hc hs
  obtain ⟨b1, b2, b3, _⟩ := dot_spec hn2 (by omega : 0 < 65536) hs
  have hd0 : (dotEntry nc now).getD 0 0 = 46 := by
    have : (dotEntry nc now).getD 0 0 = ((dotEntry nc now).take 11).getD 0 0 := by
      simp [List.getD_eq_getElem?_getD, List.getElem?_take]
    unfold dotEntry at this ⊢
    rw [this, a2]; rfl
  have hdd0 : (dotdotEntry now).getD 0 0 = 46 := by
    have : (dotdotEntry now).getD 0 0 = ((dotdotEntry now).take 11).getD 0 0 := by
      simp [List.getD_eq_getElem?_getD, List.getElem?_take]
    unfold dotdotEntry at this ⊢
    rw [this, b2]; rfl
  have hz : ∀ x ∈ List.replicate (epcOf b - 2) (zeros 32), x.getD 0 0 = 0 := by
    intro x hx
    rw [(List.mem_replicate.mp hx).2]; rfl
  constructor
  · unfold newDirEntries
    have s1 : ¬ ((dotEntry nc now).getD 0 0 = 0 ∨ (dotEntry nc now).length < 32) := by
      unfold dotEntry at hd0 ⊢; rw [hd0, a1]; omega
    have s2 : ¬ ((dotEntry nc now).getD 0 0 = 0xE5 ∨ (dotEntry nc now).getD 11 0 = 0x0F ∨ ((dotEntry nc now).getD 11 0 / 8) % 2 = 1) := by
      unfold dotEntry at hd0 ⊢; rw [hd0, a3]; omega
    have t1 : ¬ ((dotdotEntry now).getD 0 0 = 0 ∨ (dotdotEntry now).length < 32) := by
      unfold dotdotEntry at hdd0 ⊢; rw [hdd0, b1]; omega
    have t2 : ¬ ((dotdotEntry now).getD 0 0 = 0xE5 ∨ (dotdotEntry now).getD 11 0 = 0x0F ∨ ((dotdotEntry now).getD 11 0 / 8) % 2 = 1) := by
      unfold dotdotEntry at hdd0 ⊢; rw [hdd0, b3]; omega
    rw [act, if_neg s1, if_neg s2, act, if_neg t1, if_neg t2, act_zero_tail hz]
    have f1 : (!decide ((dotEntry nc now).getD 0 0 = 46)) = false := by rw [hd0]; rfl
    have f2 : (!decide ((dotdotEntry now).getD 0 0 = 46)) = false := by rw [hdd0]; rfl
    simp only [List.filter_cons, f1, f2, Bool.false_eq_true, if_false, List.filter_nil]
  · refine { ents := ?_, tail := ?_ }
    · intro e he h0 _ _ h46
      unfold newDirEntries at he
      simp only [List.mem_cons] at he
      rcases he with h | h | h
      · rw [h] at h46; exact absurd hd0 h46
      · rw [h] at h46; exact absurd hdd0 h46
      · exact absurd (hz e h) h0
    · intro i j e1 e2 hij h1 h2 hz1
      unfold newDirEntries at h1 h2
      cases i with
      | zero =>
        simp only [List.getElem?_cons_zero, Option.some.injEq] at h1
        rw [← h1, hd0] at hz1; cases hz1
      | succ i =>
        cases i with
        | zero =>
          simp only [List.getElem?_cons_succ, List.getElem?_cons_zero, Option.some.injEq] at h1
          rw [← h1, hdd0] at hz1; cases hz1
        | succ i =>
          have hj : ∃ j', j = j' + 2 := ⟨j - 2, by omega⟩
          obtain ⟨j', rfl⟩ := hj
          simp only [List.getElem?_cons_succ] at h2
          exact hz e2 (List.mem_of_getElem? h2)

/-- a state in which one data cluster has been rewritten with a whole block keeps `Geo` -/
theorem geo_of_block_write {d : Disk} (g : Geo d) {r' : Raw} {c : Nat} {Q : Bytes} (o : Option (Array Nat))
    (hsz : r'.units.size = d.raw.units.size) (hul : r'.unitLen = d.raw.unitLen) (hQ : Q.length = d.bpb.spc * 512)
    (hfr : ∀ u, u ∉ List.range' (d.bpb.firstClusterSec c) d.bpb.spc → r'.units[u]? = d.raw.units[u]?)
    (hdat : ∀ i, i < d.bpb.spc → r'.units[d.bpb.firstClusterSec c + i]? = some ((Q.drop (i * 512)).take 512)) :
    Geo ({ d with raw := r', fat := o } : Disk) ∧ (∀ u, u < d.bpb.firstDataSec → r'.units[u]? = d.raw.units[u]?) := by
  obtain ⟨s0, hs0, hb0⟩ := g.boot
  have hlow : ∀ u, u < d.bpb.firstDataSec → r'.units[u]? = d.raw.units[u]? := by
    intro u hu
    apply hfr
    rw [List.mem_range'_1]
    unfold Bpb.firstClusterSec
    omega
  have hfits : d.bpb.firstDataSec < d.bpb.totSec ∧ d.bpb.totSec ≤ r'.units.size := by rw [hsz]; exact g.fits
  have hchs : ∀ s, s < d.bpb.totSec → s / d.bpb.spt < r'.units.size / d.bpb.spt := by rw [hsz]; exact g.chs
  have hulen : r'.unitLen = 512 := by rw [← g.ulen]; exact hul
  refine ⟨{ boot := ⟨s0, ?_, hb0⟩, ulen := hulen, usz := ?_, bps := g.bps, spc := g.spc, nfat := g.nfat,
            fat16 := g.fat16, spt := g.spt, heads := g.heads, typ := g.typ, ftyp := g.ftyp, rsvd := g.rsvd,
            fits := hfits, chs := hchs }, hlow⟩
  · show r'.units[0]? = some s0
    rw [hlow 0 (by have := g.rsvd; unfold Bpb.firstDataSec; omega)]; exact hs0
  · intro i hi
    have hi' : i < d.raw.units.size := by rw [← hsz]; exact hi
    have hget : r'.units[i]? = some (r'.units[i]) := Array.getElem?_eq_getElem hi
    show (r'.units[i]).length = 512
    by_cases hm : i ∈ List.range' (d.bpb.firstClusterSec c) d.bpb.spc
    · rw [List.mem_range'_1] at hm
      have := hdat (i - d.bpb.firstClusterSec c) (by omega)
      have e : d.bpb.firstClusterSec c + (i - d.bpb.firstClusterSec c) = i := by omega
      rw [e, hget] at this
      injection this with this
      rw [this]
      simp only [List.length_take, List.length_drop, hQ]
      have : (i - d.bpb.firstClusterSec c + 1) * 512 ≤ d.bpb.spc * 512 := Nat.mul_le_mul_right _ (by omega)
      rw [Nat.add_mul] at this
      omega
    · have := hfr i hm
      rw [hget, Array.getElem?_eq_getElem hi'] at this
      injection this with this
      rw [this]; exact g.usz i hi'

/-- **the run of `create` (mkdir) of a root-level directory** -/
theorem mkdir_run {d : Disk} {f : Array Nat} (g : Geo d) (c : Coh d f) {p : Bytes} {now : Stamp} (a : RootArg p) (hs : StampOk now) :
    (∃ er, mkdir p now d = (.error er, d)) ∨
    ∃ B X E1 e0 E2 files nc r1 f1,
      NameParts (upper p) B X ∧ dirOfBytes (rootBuf d) = E1 ++ e0 :: E2 ∧
      (∀ x ∈ E1, entryType x ≠ .free ∧ entryType x ≠ .freeAndNoMore) ∧ (entryType e0 = .free ∨ entryType e0 = .freeAndNoMore) ∧
      buildFiles d.labelFiles (dirOfBytes (rootBuf d)) = .ok files ∧ files.lookup (keyOf p) = none ∧
      clusInRng d.bpb nc = true ∧ isFree12 f nc = true ∧
      Geo ({ d with raw := r1, fat := some f1 } : Disk) ∧ WOk ({ d with raw := r1, fat := some f1 } : Disk) f1 ∧ f1.size = f.size ∧
      nxt f1 nc = 0xfff ∧ (∀ m, m ≠ nc → nxt f1 m = nxt f m) ∧
      (∀ u, u ∉ List.range' (d.bpb.firstClusterSec nc) d.bpb.spc → r1.units[u]? = d.raw.units[u]?) ∧
      (∀ i, i < d.bpb.spc → r1.units[d.bpb.firstClusterSec nc + i]? =
        some ((((newDirEntries d.bpb nc now).flatten).drop (i * 512)).take 512)) ∧
      mkdir p now d = (.ok (), rootWrite ({ d with raw := r1, fat := some f1 } : Disk) E1.length (Entry.rename (dotEntry nc now) (upper p))) := by
  have w := wok_of g c
  unfold mkdir
  simp only [M_bind_apply, prepareToWrite_root g a]
  by_cases hv0 : ¬ (isNameValid (upper p) = true)
  · left
    have : isNameValid (upper p) = false := by simpa using hv0
    simp only [this, Bool.not_false, if_true]
    exact ⟨_, rfl⟩
  have hv : isNameValid (upper p) = true := Classical.not_not.mp hv0
  simp only [hv, Bool.not_true, Bool.false_eq_true, if_false]
  obtain ⟨B, X, np⟩ := nameParts_of_valid hv
  cases hb : buildFiles d.labelFiles (dirOfBytes (rootBuf d)) with
  | error er => exact Or.inl ⟨er, rfl⟩
  | ok files =>
    simp only []
    cases hl : files.lookup (keyOf p) with
    | some x => exact Or.inl ⟨_, rfl⟩
    | none =>
      simp only []
      cases hf : firstFreeEntry (dirOfBytes (rootBuf d)) 0 with
      | none => exact Or.inl ⟨_, rfl⟩
      | some idx =>
        simp only []
        obtain ⟨E1, e0, E2, hE, hidx, hE1, he0⟩ := firstFreeEntry_spec _ _ _ hf
        have hidx' : idx = E1.length := by omega
        subst hidx'
        have hlen : E1.length < (dirOfBytes (rootBuf d)).length := by rw [hE]; simp
        rw [getAvailableBlock_open w]
        cases hav : (clusters d.bpb).find? (isFree12 f) with
        | none => exact Or.inl ⟨_, rfl⟩
        | some nc =>
          simp only []
          obtain ⟨hcr, hcf⟩ := avail_sound hav
          have ⟨hc2, hcu⟩ := clusInRng_bounds hcr
          have hnc : nc < 65536 := by have := w.small; omega
          obtain ⟨hcs, hAll, hLen⟩ := createSubdir_spec g (upper p) hnc hs
          have hQ : ((newDirEntries d.bpb nc now).flatten).length = d.bpb.spc * 512 := by
            rw [flatten_length_of hAll, hLen]; unfold epcOf; omega
          obtain ⟨r1, f1, hwb, w1, hsz1, hul1, hfs1, g1, _, g3, hfr1, hdat1⟩ :=
            writeBlock_full w g.ulen (newDirEntries d.bpb nc now).flatten (prev := 0) hcr (Or.inl (by omega))
          have hq : quantize (takeN (newDirEntries d.bpb nc now).flatten d.bpb.blockSize) (d.bpb.spc * 512) = (newDirEntries d.bpb nc now).flatten := by
            rw [takeN_of_le (by rw [blockSize_eq g]; omega)]
            unfold quantize
            rw [if_pos hQ]
          rw [hq] at hdat1
          obtain ⟨gd1, hlow1⟩ := geo_of_block_write g (some f1) hsz1 hul1 hQ hfr1 hdat1
          have hroot1 : rootBuf ({ d with raw := r1, fat := some f1 } : Disk) = rootBuf d :=
            rootBuf_congr_lt rfl (fun u _ hu => hlow1 u hu)
          have hlen1 : E1.length < (dirOfBytes (rootBuf ({ d with raw := r1, fat := some f1 } : Disk))).length := by rw [hroot1]; exact hlen
          have hwr := writebackRoot_eq gd1 hlen1 (Entry.rename (dotEntry nc now) (upper p))
          rw [hroot1] at hwr
          right
          refine ⟨B, X, E1, e0, E2, files, nc, r1, f1, np, hE, hE1, he0, rfl, hl, hcr, hcf, gd1, w1, hfs1, g1,
            fun m hm => g3 m hm (Or.inl (by omega)), hfr1, hdat1, ?_⟩
          simp only [M.get, M_bind_apply, M.lift, Option.getD_none, hcs, hwb, hwr]

end A2Verif.FsFat
