import A2Verif.Lemmas.FsPascalOps
import A2Verif.Lemmas.FsPascalAlloc
import A2Verif.Props.C01
/-!
# Refinement of `put` (`write_file`)

The new directory slot, the invariant after it is filled, the image after the directory and the data
blocks are written, and the abstract step: a new record is appended, it reads back what was stored, it
owns only blocks that were free, every other record is identical.  Core Lean only.
-/
namespace A2Verif.Fs.Pascal

/-! ## the slot `write_file` fills -/

theorem putEntry_props {e0 name date : Bytes} {beg n fsType rem : Nat} (hl : e0.length = 26)
    (hbn : beg + n < 65536) (hft : fsType < 65536) (h1 : 1 ≤ name.length) (h15 : name.length ≤ 15) (hrem : rem < 65536) :
    (putEntry e0 beg n fsType name rem date).length = 26 ∧ le16 (putEntry e0 beg n fsType name rem date) 0 = beg ∧
    le16 (putEntry e0 beg n fsType name rem date) 2 = beg + n ∧ le16 (putEntry e0 beg n fsType name rem date) 4 = fsType ∧
    (putEntry e0 beg n fsType name rem date).getD 6 0 = name.length ∧
    entryPath (putEntry e0 beg n fsType name rem date) = upper name ∧
    le16 (putEntry e0 beg n fsType name rem date) 22 = rem := by
  have hn := stringToFileName_length h15
  have hmod : name.length % 256 = name.length := Nat.mod_eq_of_lt (by omega)
  have hdl : (date.take 2).length ≤ 2 := by rw [List.length_take]; omega
  -- the chain of intermediate entries and their lengths
  have b1 : 0 + (u16le beg).length ≤ e0.length := by rw [hl]; show 0 + 2 ≤ 26; decide
  have l1 : (splice e0 0 (u16le beg)).length = 26 := by rw [splice_length b1, hl]
  have b2 : 2 + (u16le (beg + n)).length ≤ (splice e0 0 (u16le beg)).length := by rw [l1]; show 2 + 2 ≤ 26; decide
  have l2 := (splice_length b2).trans l1
  have b3 : 4 + (u16le fsType).length ≤ (splice (splice e0 0 (u16le beg)) 2 (u16le (beg + n))).length := by
    rw [l2]; show 4 + 2 ≤ 26; decide
  have l3 := (splice_length b3).trans l2
  have b4 : 6 + [name.length % 256].length ≤
      (splice (splice (splice e0 0 (u16le beg)) 2 (u16le (beg + n))) 4 (u16le fsType)).length := by
    rw [l3]; show 6 + 1 ≤ 26; decide
  have l4 := (splice_length b4).trans l3
  have b5 : 7 + (stringToFileName name).length ≤
      (splice (splice (splice (splice e0 0 (u16le beg)) 2 (u16le (beg + n))) 4 (u16le fsType)) 6 [name.length % 256]).length := by
    rw [l4, hn]; decide
  have l5 := (splice_length b5).trans l4
  have b6 : 22 + (u16le rem).length ≤
      (splice (splice (splice (splice (splice e0 0 (u16le beg)) 2 (u16le (beg + n))) 4 (u16le fsType)) 6 [name.length % 256])
        7 (stringToFileName name)).length := by
    rw [l5]; show 22 + 2 ≤ 26; decide
  have l6 := (splice_length b6).trans l5
  have b7 : 24 + (date.take 2).length ≤
      (splice (splice (splice (splice (splice (splice e0 0 (u16le beg)) 2 (u16le (beg + n))) 4 (u16le fsType)) 6 [name.length % 256])
        7 (stringToFileName name)) 22 (u16le rem)).length := by
    rw [l6]; omega
  have l7 := (splice_length b7).trans l6
  have g6 : (putEntry e0 beg n fsType name rem date).getD 6 0 = name.length := by
    unfold putEntry
    rw [getD_splice_other b7 (Or.inl (by decide)), getD_splice_other b6 (Or.inl (by decide)),
      getD_splice_other b5 (Or.inl (by decide)), getD_splice_same (by rw [l3]; decide), hmod]
  refine ⟨l7, ?_, ?_, ?_, g6, ?_, ?_⟩
  · unfold putEntry
    rw [le16_splice_other b7 (Or.inl (by decide)), le16_splice_other b6 (Or.inl (by decide)),
      le16_splice_other b5 (Or.inl (by decide)), le16_splice_other b4 (Or.inl (by decide)),
      le16_splice_other b3 (Or.inl (by decide)), le16_splice_other b2 (Or.inl (by decide)),
      le16_splice_same (by rw [hl]; decide) (by omega)]
  · unfold putEntry
    rw [le16_splice_other b7 (Or.inl (by decide)), le16_splice_other b6 (Or.inl (by decide)),
      le16_splice_other b5 (Or.inl (by decide)), le16_splice_other b4 (Or.inl (by decide)),
      le16_splice_other b3 (Or.inl (by decide)), le16_splice_same (by rw [l1]; decide) hbn]
  · unfold putEntry
    rw [le16_splice_other b7 (Or.inl (by decide)), le16_splice_other b6 (Or.inl (by decide)),
      le16_splice_other b5 (Or.inl (by decide)), le16_splice_other b4 (Or.inl (by decide)),
      le16_splice_same (by rw [l2]; decide) hft]
  · unfold entryPath
    rw [g6]
    unfold putEntry
    rw [slice_splice_other b7 (Or.inl (by omega)), slice_splice_other b6 (Or.inl (by omega)),
      slice_splice_prefix b5 (by rw [hn]; exact h15)]
    unfold stringToFileName
    rw [List.take_append_of_le_length (by rw [upper_length]; exact Nat.le_refl _),
      List.take_of_length_le (by rw [upper_length]; exact Nat.le_refl _)]
  · unfold putEntry
    rw [le16_splice_other b7 (Or.inl (by decide)), le16_splice_same (by rw [l5]; decide) hrem]

theorem putHeader_props {h date : Bytes} (hl : h.length = 26) (hv : le16 h 16 + 1 < 65536) :
    (putHeader h date).length = 26 ∧ le16 (putHeader h date) 0 = le16 h 0 ∧ le16 (putHeader h date) 2 = le16 h 2 ∧
    le16 (putHeader h date) 14 = le16 h 14 ∧ (putHeader h date).getD 6 0 = h.getD 6 0 ∧
    le16 (putHeader h date) 16 = le16 h 16 + 1 := by
  obtain ⟨a1, a2, a3, a4, a5, a6⟩ := hdr_setNumFiles hl hv
  have hdl : (date.take 2).length ≤ 2 := by rw [List.length_take]; omega
  have hb : 18 + (date.take 2).length ≤ (splice h 16 (u16le (le16 h 16 + 1))).length := by rw [a1]; omega
  unfold putHeader
  exact ⟨by rw [splice_length hb, a1], by rw [le16_splice_other hb (Or.inl (by decide)), a2],
    by rw [le16_splice_other hb (Or.inl (by decide)), a3], by rw [le16_splice_other hb (Or.inl (by decide)), a4],
    by rw [getD_splice_other hb (Or.inl (by decide)), a5], by rw [le16_splice_other hb (Or.inl (by decide)), a6]⟩

/-! ## the invariant after a slot is filled -/

theorem take_succ_set {α : Type} {l : List α} {n : Nat} {a : α} (h : n < l.length) :
    (l.set n a).take (n + 1) = l.take n ++ [a] := by
  have hl : n < (l.set n a).length := by rw [List.length_set]; exact h
  rw [List.take_succ_eq_append_getElem hl, List.take_set_of_le (Nat.le_refl _), List.getElem_set_self]

theorem InvD_put {size : Nat} {h : Bytes} {es : List Bytes} (d : InvD size h es) (hnf : le16 h 16 < es.length)
    {h' e' : Bytes}
    (hh : h'.length = 26 ∧ le16 h' 0 = le16 h 0 ∧ le16 h' 2 = le16 h 2 ∧ le16 h' 14 = le16 h 14 ∧
      h'.getD 6 0 = h.getD 6 0 ∧ le16 h' 16 = le16 h 16 + 1)
    (hlen : e'.length = 26) (hok : EntryOk (le16 h 2) (le16 h 14) e')
    (hap : ∀ e ∈ es.take (le16 h 16), Apart e e')
    (hfresh : entryPath e' ∉ (es.take (le16 h 16)).map entryPath) :
    InvD size h' (es.set (le16 h 16) e') := by
  obtain ⟨a1, a2, a3, a4, a5, a6⟩ := hh
  have htake : (es.set (le16 h 16) e').take (le16 h 16 + 1) = es.take (le16 h 16) ++ [e'] := take_succ_set hnf
  refine { hlen := a1, beg0 := by rw [a2]; exact d.beg0, dirEnd_gt := by rw [a3]; exact d.dirEnd_gt,
           dirEnd_le := by rw [a3]; exact d.dirEnd_le, dirEnd_total := by rw [a3, a4]; exact d.dirEnd_total,
           total_size := by rw [a4]; exact d.total_size, total_u16 := by rw [a4]; exact d.total_u16,
           volName := by rw [a5]; exact d.volName, count := by rw [a3, List.length_set]; exact d.count,
           elen := ?_, nf_le := by rw [a6, List.length_set]; omega, live := ?_, apart := ?_, names := ?_, dead := ?_ }
  · intro e he
    rcases List.mem_or_eq_of_mem_set he with he | rfl
    · exact d.elen e he
    · exact hlen
  · rw [a6, a3, a4, htake]
    intro e he
    rcases List.mem_append.1 he with he | he
    · exact d.live e he
    · simp only [List.mem_singleton] at he; subst he; exact hok
  · rw [a6, htake, List.pairwise_append]
    refine ⟨d.apart, List.pairwise_singleton _ _, ?_⟩
    intro a ha b hb
    simp only [List.mem_singleton] at hb; subst hb
    exact hap a ha
  · rw [a6, htake, List.map_append, List.nodup_append]
    refine ⟨d.names, by simp, ?_⟩
    intro a ha b hb
    simp only [List.map_cons, List.map_nil, List.mem_singleton] at hb; subst hb
    intro e; subst e; exact hfresh ha
  · rw [a6, List.drop_set_of_lt (by omega)]
    intro e he
    apply d.dead e
    have : List.drop (le16 h 16 + 1) es = List.drop 1 (List.drop (le16 h 16) es) := by rw [List.drop_drop, Nat.add_comm]
    rw [this] at he
    exact List.mem_of_mem_drop he

/-! ## `put` -/

/-- what the 16-bit directory fields can record: fewer than 65536 chunks, no chunk longer than a block, and a
logical length at most 65535 bytes short of the block total.  `write_file` refuses everything else before it
writes (since the repair `pascal-put-bounds`); an accepted `put` therefore satisfies it (`put_refines` derives it). -/
structure PutArgsOk (f : FImg) : Prop where
  count : f.chunks.length < 65536
  clen : ∀ c ∈ f.chunks, c.2.length ≤ 512
  rem : 512 * f.chunks.length - f.eof < 65536

theorem mem_of_lookup {l : List (Nat × Bytes)} {k : Nat} {d : Bytes} (h : l.lookup k = some d) : (k, d) ∈ l := by
  induction l with
  | nil => cases h
  | cons x xs ih =>
    obtain ⟨a, b⟩ := x
    rw [List.lookup_cons] at h
    by_cases hk : k == a
    · rw [hk] at h
      simp only [Option.some.injEq] at h
      have : k = a := by simpa using hk
      subst this; subst h
      exact List.mem_cons_self
    · have hk' : (k == a) = false := by simpa using hk
      rw [hk'] at h
      exact List.mem_cons_of_mem _ (ih h)

/-- the chunks of a file image in index order, as the abstract `put` sees them -/
def putChunks (f : FImg) : List (Nat × Bytes) := (List.range f.chunks.length).map (fun b => (b, (f.chunks.lookup b).getD []))

theorem fileOf_congr_range {r r' : Raw} {e : Bytes}
    (h : ∀ i, le16 e 0 ≤ i → i < le16 e 2 → r'.units[i]? = r.units[i]?) : fileOf r' e = fileOf r e := by
  unfold fileOf
  congr 1
  apply List.map_congr_left
  intro i hi
  simp only [List.mem_range] at hi
  rw [h _ (by omega) (by omega)]

theorem quantize_prefix {d : Bytes} (h : d.length ≤ 512) : d <+: quantize (d.take 512) := by
  unfold quantize
  rw [List.take_take, Nat.min_self, List.take_of_length_le h]
  exact List.prefix_append _ _

/-- the state after the directory and the data blocks are written -/
theorem put_success {r : Raw} (h : Inv r) {f : FImg} {date : Bytes} (ha : PutArgsOk f) {beg : Nat}
    (hn0 : f.chunks.length ≠ 0) (hv : isNameValid f.fullPath false = true) (hfresh : upper f.fullPath ∉ (volOf r).paths)
    (hty : f.fsType ≤ 8) (hnf : le16 (hdr r) 16 < (allEntries r).length)
    (hholes : ∀ b, b < f.chunks.length → (f.chunks.lookup b).isSome = true) (heof : f.eof ≤ 512 * f.chunks.length)
    (hrun : beg + f.chunks.length ≤ total r)
    (hfree : ∀ j, j < f.chunks.length → isBlockFree (beg + j) { header := hdr r, entries := allEntries r } = true) :
    ∃ r1 r2, saveDirectory r (Dir.mk (putHeader (hdr r) date)
        ((allEntries r).set (le16 (hdr r) 16) (putEntry ((allEntries r).getD (le16 (hdr r) 16) []) beg
          f.chunks.length f.fsType f.fullPath (512 * f.chunks.length - f.eof) date))) = (.ok (), r1) ∧
      dataLoop f.chunks beg r1 (List.range f.chunks.length) = (.ok (), r2) ∧ Inv r2 ∧
      stepOk pascalParams (volOf r) (.put (upper f.fullPath) (putChunks f) f.eof f.fsType 0) true (volOf r2) = true := by
  have d := h.d
  have hsmall := d.nf_small
  have n1 : 1 ≤ f.chunks.length := by omega
  have hfree' : ∀ j, j < f.chunks.length → dirEnd r ≤ beg + j ∧
      ∀ e ∈ liveEntries r, ¬ (le16 e 0 ≤ beg + j ∧ beg + j < le16 e 2) :=
    fun j hj => (isBlockFree_iff (beg + j)).1 (hfree j hj)
  have hbeg : dirEnd r ≤ beg := by have := (hfree' 0 (by omega)).1; omega
  have htot : total r ≤ 65535 := d.total_u16
  have htsz : total r ≤ r.units.size := d.total_size
  obtain ⟨hvalid, hl1, hl15⟩ := upper_valid hv
  -- the new slot
  have he0 : (allEntries r).getD (le16 (hdr r) 16) [] = (allEntries r)[le16 (hdr r) 16] := getD_of_lt hnf
  have hl0 : ((allEntries r).getD (le16 (hdr r) 16) []).length = 26 := by
    rw [he0]; exact d.elen _ (List.getElem_mem hnf)
  obtain ⟨p1, p2, p3, p4, p5, p6, p7⟩ := putEntry_props (e0 := (allEntries r).getD (le16 (hdr r) 16) []) (name := f.fullPath)
    (date := date) (beg := beg) (n := f.chunks.length) (fsType := f.fsType) (rem := 512 * f.chunks.length - f.eof)
    hl0 (by omega) (by omega) hl1 hl15 ha.rem
  generalize hE : putEntry ((allEntries r).getD (le16 (hdr r) 16) []) beg f.chunks.length f.fsType f.fullPath
    (512 * f.chunks.length - f.eof) date = e' at p1 p2 p3 p4 p5 p6 p7 ⊢
  have hok : EntryOk (le16 (hdr r) 2) (le16 (hdr r) 14) e' :=
    { beg_ge := by rw [p2]; exact hbeg, beg_lt := by rw [p2, p3]; omega, end_le := by rw [p3]; exact hrun,
      nl_pos := by rw [p5]; exact hl1, nl_le := by rw [p5]; exact hl15, chars := by rw [p6]; exact hvalid,
      rem_le := by rw [p7, p3, p2]; omega }
  have hap : ∀ e ∈ (allEntries r).take (le16 (hdr r) 16), Apart e e' := by
    intro e he
    have hoke := d.live e he
    unfold Apart
    rw [p2, p3]
    have hlt := hoke.beg_lt
    by_cases hc : le16 e 0 ≤ beg
    · have := (hfree' 0 (by omega)).2 e he
      omega
    · by_cases hx : le16 e 0 < beg + f.chunks.length
      · have := (hfree' (le16 e 0 - beg) (by omega)).2 e he
        rw [show beg + (le16 e 0 - beg) = le16 e 0 by omega] at this
        omega
      · omega
  have hfr : entryPath e' ∉ ((allEntries r).take (le16 (hdr r) 16)).map entryPath := by
    rw [p6]
    unfold Vol.paths at hfresh
    rw [paths_volOf] at hfresh
    exact hfresh
  have hhdr := putHeader_props (h := hdr r) (date := date) d.hlen (by have := d.nf_le; omega)
  have dinv := InvD_put d hnf hhdr p1 hok hap hfr
  obtain ⟨r1, hs1, hinv1, hh1, he1, hsz1, hfr1⟩ := save_result h dinv hhdr.2.2.1
  -- the data blocks
  obtain ⟨r2, hs2, hsz2, hu2⟩ := dataLoop_spec f.chunks beg (List.range f.chunks.length) r1 (by
    intro b hb
    simp only [List.mem_range] at hb
    exact ⟨hholes b hb, by rw [hsz1]; omega⟩)
  have hde1 : dirEnd r1 = dirEnd r := by unfold dirEnd; rw [hh1]; exact hhdr.2.2.1
  have hin : ∀ i, (beg ≤ i ∧ i - beg ∈ List.range f.chunks.length) ↔ (beg ≤ i ∧ i < beg + f.chunks.length) := by
    intro i; simp only [List.mem_range]; omega
  have hother : ∀ i, ¬ (beg ≤ i ∧ i < beg + f.chunks.length) → r2.units[i]? = r1.units[i]? := by
    intro i hi
    rw [hu2 i, if_neg (by rw [hin]; exact hi)]
  have hwritten : ∀ j, j < f.chunks.length →
      r2.units[beg + j]? = some (quantize (((f.chunks.lookup j).getD []).take 512)) := by
    intro j hj
    rw [hu2 (beg + j), if_pos (by rw [hin]; omega)]
    have : beg + j - beg = j := by omega
    rw [this]
  obtain ⟨f1, f2, f3, f4, f5, f6⟩ := dir_frame (r := r1) (r' := r2) (by rw [hde1]; exact d.dirEnd_gt)
    (fun i _ hi => hother i (by rw [hde1] at hi; omega))
  have hinv2 : Inv r2 := by
    refine ⟨blocks512B_iff.2 ?_, ?_⟩
    · intro i b hib
      by_cases hi : beg ≤ i ∧ i < beg + f.chunks.length
      · have := hwritten (i - beg) (by omega)
        rw [show beg + (i - beg) = i by omega] at this
        rw [this] at hib
        cases hib
        exact quantize_length _
      · rw [hother i hi] at hib
        exact hinv1.blocks i b hib
    · rw [hsz2, f1, f6]
      exact hinv1.d
  refine ⟨r1, r2, hs1, hs2, hinv2, ?_⟩
  -- the abstract step
  have hlive2 : liveEntries r2 = liveEntries r ++ [e'] := by
    unfold liveEntries numFiles
    rw [f1, f6, he1, hh1, hhdr.2.2.2.2.2]
    exact take_succ_set hnf
  have hold : (liveEntries r).map (fileOf r2) = (liveEntries r).map (fileOf r) := by
    apply List.map_congr_left
    intro e he
    apply fileOf_congr_range
    intro i hi1 hi2
    have hoke := d.live e he
    have hapart := hap e he
    unfold Apart at hapart
    rw [p2, p3] at hapart
    rw [hother i (by omega), hfr1 i (by have := hoke.beg_ge; unfold dirEnd; omega)]
  have hfiles2 : (volOf r2).files = (volOf r).files ++ [fileOf r2 e'] := by
    rw [volOf_files, volOf_files, hlive2, List.map_append, hold]
    rfl
  have hn : le16 e' 2 - le16 e' 0 = f.chunks.length := by rw [p2, p3]; omega
  apply stepOk_put_of (volOf_wf h) (volOf_wf hinv2) hfresh hfiles2 p6
  · -- content
    rw [C01.chunksMatch_iff]
    have hgot : (fileOf r2 e').chunks = (List.range f.chunks.length).map
        (fun i => (i, quantize (((f.chunks.lookup i).getD []).take 512))) := by
      show (List.range (le16 e' 2 - le16 e' 0)).map (fun i => (i, (r2.units[le16 e' 0 + i]?).getD [])) = _
      rw [hn, p2]
      apply List.map_congr_left
      intro i hi
      simp only [List.mem_range] at hi
      rw [hwritten i hi]
      rfl
    rw [hgot]
    unfold putChunks
    refine ⟨by simp only [List.map_map]; rfl, ?_⟩
    intro i s g hs hg
    rw [List.getElem?_map] at hs hg
    cases hr : (List.range f.chunks.length)[i]? with
    | none => rw [hr] at hs; cases hs
    | some k =>
      rw [hr] at hs hg
      simp only [Option.map_some, Option.some.injEq] at hs hg
      subst hs; subst hg
      have hk : k < f.chunks.length := by
        have := List.mem_of_getElem? hr
        simpa using this
      obtain ⟨dd, hdd⟩ := Option.isSome_iff_exists.1 (hholes k hk)
      show (f.chunks.lookup k).getD [] <+: quantize (((f.chunks.lookup k).getD []).take 512)
      rw [hdd]
      exact quantize_prefix (ha.clen (k, dd) (mem_of_lookup hdd))
  · rfl
  · show 512 * (le16 e' 2 - le16 e' 0) - le16 e' 22 = f.eof
    rw [hn, p7]; omega
  · intro _; exact p4
  · intro hk; cases hk
  · -- the new file takes free units only
    intro u hu
    have hu' : beg ≤ u ∧ u < beg + f.chunks.length := by
      have : u ∈ Vol.range (le16 e' 0) (le16 e' 2) := hu
      rw [p2, p3] at this
      exact mem_vrange.1 this
    show u ∈ (Vol.range 0 (total r)).filter (fun u => !((volOf r).allOwned ++ (volOf r).sys).contains u)
    rw [List.mem_filter]
    refine ⟨mem_vrange.2 ⟨Nat.zero_le _, by omega⟩, ?_⟩
    have hnot : u ∉ (volOf r).allOwned ++ (volOf r).sys := by
      rw [List.mem_append, allOwned_volOf]
      rintro (hm | hm)
      · obtain ⟨e, he, h1, h2⟩ := mem_ownedOf.1 hm
        have := (hfree' (u - beg) (by omega)).2 e he
        rw [show beg + (u - beg) = u by omega] at this
        exact this ⟨h1, h2⟩
      · have : u ∈ Vol.range 0 (dirEnd r) := hm
        have := mem_vrange.1 this
        omega
    simpa using hnot

/-- **put refines the abstract specification** (all arguments: what cannot be recorded is a refused step) -/
theorem put_refines {r : Raw} (h : Inv r) {f : FImg} {date : Bytes} {res : R Nat} {r' : Raw}
    (hop : put r f date = (res, r')) :
    Inv r' ∧ stepOk pascalParams (volOf r) (.put (upper f.fullPath) (putChunks f) f.eof f.fsType 0) (okB res) (volOf r') = true := by
  have hw := volOf_wf h
  have d := h.d
  have done : ∀ {e : Err}, ((.error e : R Nat), r) = (res, r') →
      Inv r' ∧ stepOk pascalParams (volOf r) (.put (upper f.fullPath) (putChunks f) f.eof f.fsType 0) (okB res) (volOf r') = true := by
    intro e he; cases he; exact ⟨h, stepOk_refused_same hw _⟩
  unfold put at hop
  by_cases c1 : f.fsOk = true
  case neg => rw [if_pos (by simp [c1])] at hop; exact done hop
  rw [if_neg (by simp [c1])] at hop
  by_cases c2 : f.chunkLen ≠ blockSize
  case pos => rw [if_pos c2] at hop; exact done hop
  rw [if_neg c2] at hop
  dsimp only at hop
  by_cases c3 : f.chunks.length = 0
  case pos => rw [if_pos c3] at hop; exact done hop
  rw [if_neg c3] at hop
  by_cases c4 : isNameValid f.fullPath false = true
  case neg => rw [if_pos (by simp [c4])] at hop; exact done hop
  rw [if_neg (by simp [c4])] at hop
  by_cases c5 : upper f.fullPath ∈ (volOf r).paths
  case pos =>
    obtain ⟨j, hj, hpj⟩ := mem_paths_iff_slot.1 c5
    rw [getFileEntry_some h hj hpj] at hop
    exact done hop
  rw [getFileEntry_none h c5] at hop
  dsimp only at hop
  by_cases b1 : f.chunks.length > 65535
  case pos => rw [if_pos b1] at hop; exact done hop
  rw [if_neg b1] at hop
  by_cases b2 : f.eof > blockSize * f.chunks.length ∨ blockSize * f.chunks.length - f.eof > 65535
  case pos => rw [if_pos b2] at hop; exact done hop
  rw [if_neg b2] at hop
  by_cases b3 : f.chunks.any (fun c => decide (c.2.length > blockSize)) = true
  case pos => rw [if_pos b3] at hop; exact done hop
  rw [if_neg b3] at hop
  have ha : PutArgsOk f :=
    { count := (by omega),
      clen := (by
        intro c hc
        have hb3 : f.chunks.any (fun c => decide (c.2.length > blockSize)) = false := by simpa using b3
        rw [List.any_eq_false] at hb3
        have := hb3 c hc
        have this' : ¬ (c.2.length > 512) := by simpa using this
        omega),
      rem := (by have : ¬ (f.eof > 512 * f.chunks.length ∨ 512 * f.chunks.length - f.eof > 65535) := b2; omega) }
  by_cases c6 : f.fsType > 8
  case pos => rw [if_pos c6] at hop; exact done hop
  rw [if_neg c6] at hop
  have hnum : f.chunks.length % 65536 = f.chunks.length := Nat.mod_eq_of_lt ha.count
  rw [hnum, getAvailableBlocks_inv h] at hop
  cases hav : availLoop { header := hdr r, entries := allEntries r } f.chunks.length (List.range' 0 (total r)) 0 0 with
  | none => rw [hav] at hop; exact done hop
  | some beg =>
    rw [hav] at hop
    dsimp only at hop
    obtain ⟨hrun, hfree⟩ := availLoop_sound _ _ _ _ _ _ _ (fun hc => absurd hc (by omega)) hav
    by_cases c7 : Dir.numFiles { header := hdr r, entries := allEntries r } < (allEntries r).length
    case neg => rw [if_pos c7] at hop; exact done hop
    rw [if_neg (by simpa using c7)] at hop
    by_cases c8 : (List.range f.chunks.length).all (fun b => (f.chunks.lookup b).isSome) = true
    case neg => rw [if_pos (by simp only [c8]; rfl)] at hop; exact done hop
    rw [if_neg (by simp only [c8]; decide)] at hop
    by_cases c9 : beg + f.chunks.length > 65535
    case pos => rw [if_pos c9] at hop; exact done hop
    rw [if_neg c9] at hop
    by_cases c10 : blockSize * f.chunks.length < f.eof
    case pos => rw [if_pos c10] at hop; exact done hop
    rw [if_neg c10] at hop
    by_cases c11 : Dir.numFiles { header := hdr r, entries := allEntries r } + 1 > 65535
    case pos => rw [if_pos c11] at hop; exact done hop
    rw [if_neg c11] at hop
    have hrem : (blockSize * f.chunks.length - f.eof) % 65536 = 512 * f.chunks.length - f.eof := Nat.mod_eq_of_lt ha.rem
    rw [hrem] at hop
    obtain ⟨r1, r2, hs1, hs2, hinv2, hstep⟩ := put_success h (date := date) ha (beg := beg) c3 c4 c5 (by omega) c7
      (fun b hb => by
        rw [List.all_eq_true] at c8
        exact c8 b (List.mem_range.2 hb))
      (by show f.eof ≤ 512 * f.chunks.length; have : ¬ (512 * f.chunks.length < f.eof) := c10; omega)
      (by omega) hfree
    have hs1' : saveDirectory r (Dir.mk (putHeader ({ header := hdr r, entries := allEntries r } : Dir).header date)
        (({ header := hdr r, entries := allEntries r } : Dir).entries.set
          (Dir.numFiles { header := hdr r, entries := allEntries r })
          (putEntry (({ header := hdr r, entries := allEntries r } : Dir).entries.getD
            (Dir.numFiles { header := hdr r, entries := allEntries r }) []) beg f.chunks.length f.fsType f.fullPath
            (512 * f.chunks.length - f.eof) date))) = (.ok (), r1) := hs1
    rw [hs1'] at hop
    dsimp only at hop
    rw [hs2] at hop
    dsimp only at hop
    cases hop
    exact ⟨hinv2, hstep⟩

/-- acceptance: with a valid fresh name, a known type, no hole, a free directory slot and a contiguous free
run of `n` blocks somewhere in the volume, `put` stores the file (first fit finds *a* run) -/
theorem put_accepts {r : Raw} (h : Inv r) {f : FImg} {date : Bytes} (ha : PutArgsOk f)
    (hfs : f.fsOk = true) (hcl : f.chunkLen = 512) (hn0 : f.chunks.length ≠ 0)
    (hv : isNameValid f.fullPath false = true) (hfresh : upper f.fullPath ∉ (volOf r).paths)
    (hty : f.fsType ≤ 8) (hslot : numFiles r < (allEntries r).length)
    (hholes : ∀ b, b < f.chunks.length → (f.chunks.lookup b).isSome = true) (heof : f.eof ≤ 512 * f.chunks.length)
    (hrun : ∃ s, s + f.chunks.length ≤ total r ∧
      ∀ j, j < f.chunks.length → isBlockFree (s + j) { header := hdr r, entries := allEntries r } = true) :
    ∃ r2, put r f date = (.ok f.chunks.length, r2) ∧ Inv r2 ∧
      stepOk pascalParams (volOf r) (.put (upper f.fullPath) (putChunks f) f.eof f.fsType 0) true (volOf r2) = true := by
  have d := h.d
  obtain ⟨s, hs1, hs2⟩ := hrun
  have hsome := availLoop_complete { header := hdr r, entries := allEntries r } f.chunks.length (by omega)
    (total r) 0 0 0 s (fun hc => absurd hc (by omega)) (by omega) (by simp) (by omega) hs2
  obtain ⟨beg, hav⟩ := Option.isSome_iff_exists.1 hsome
  obtain ⟨hrun', hfree⟩ := availLoop_sound _ _ _ _ _ _ _ (fun hc => absurd hc (by omega)) hav
  obtain ⟨r1, r2, hs1', hs2', hinv2, hstep⟩ := put_success h (date := date) ha (beg := beg) hn0 hv hfresh hty hslot hholes heof
    (by omega) hfree
  refine ⟨r2, ?_, hinv2, hstep⟩
  have hnum : f.chunks.length % 65536 = f.chunks.length := Nat.mod_eq_of_lt ha.count
  have hrem : (blockSize * f.chunks.length - f.eof) % 65536 = 512 * f.chunks.length - f.eof := Nat.mod_eq_of_lt ha.rem
  have htot : total r ≤ 65535 := d.total_u16
  have hsmall := d.nf_small
  unfold put
  rw [if_neg (by simp [hfs]), if_neg (by simp [hcl])]
  dsimp only
  rw [if_neg hn0, if_neg (by simp [hv]), getFileEntry_none h hfresh]
  dsimp only
  have hb3 : f.chunks.any (fun c => decide (c.2.length > blockSize)) = false := by
    rw [List.any_eq_false]
    intro c hc
    have := ha.clen c hc
    simp only [decide_eq_true_eq]
    show ¬ c.2.length > 512
    omega
  rw [if_neg (by have := ha.count; omega),
    if_neg (by have := ha.rem; show ¬ (f.eof > 512 * f.chunks.length ∨ 512 * f.chunks.length - f.eof > 65535); omega),
    if_neg (by rw [hb3]; decide)]
  rw [if_neg (by omega), hnum, getAvailableBlocks_inv h, hav]
  dsimp only
  have c7 : Dir.numFiles { header := hdr r, entries := allEntries r } < (allEntries r).length := hslot
  have c8 : (List.range f.chunks.length).all (fun b => (f.chunks.lookup b).isSome) = true := by
    rw [List.all_eq_true]
    intro b hb
    exact hholes b (List.mem_range.1 hb)
  rw [if_neg (by simpa using c7), if_neg (by simp only [c8]; decide), if_neg (by omega),
    if_neg (by show ¬ (512 * f.chunks.length < f.eof); omega),
    if_neg (by show ¬ (numFiles r + 1 > 65535); omega), hrem]
  have hs1'' : saveDirectory r (Dir.mk (putHeader ({ header := hdr r, entries := allEntries r } : Dir).header date)
      (({ header := hdr r, entries := allEntries r } : Dir).entries.set
        (Dir.numFiles { header := hdr r, entries := allEntries r })
        (putEntry (({ header := hdr r, entries := allEntries r } : Dir).entries.getD
          (Dir.numFiles { header := hdr r, entries := allEntries r }) []) beg f.chunks.length f.fsType f.fullPath
          (512 * f.chunks.length - f.eof) date))) = (.ok (), r1) := hs1'
  rw [hs1'']
  dsimp only
  rw [hs2']

end A2Verif.Fs.Pascal
