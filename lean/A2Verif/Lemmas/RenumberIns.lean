import A2Verif.Lemmas.RenumberFinal
/-!
Part 18 (C16): where `build_edits` puts the block (`insert_pos`): the loop over `all_primaries`, the blank-line
loop, the rows at both ends of the selection `renumber` passes.
-/
namespace A2Verif.Lemmas.Renumber
open A2Verif.Model.Renumber

/-! the blank-line loop -/

theorem pushBlank_lt (lines : List (List Nat)) (row ins : Nat) (h : ins < row) : pushBlank lines row ins = ins := by
  induction lines generalizing row with
  | nil => rfl
  | cons l ls ih =>
    unfold pushBlank
    have : ¬ ins = row := by omega
    simp only [this, decide_false, Bool.false_and, Bool.false_eq_true, ↓reduceIte]
    exact ih (row + 1) (by omega)

/-- the blank-line loop moves `ins` forward over a maximal run of blank rows -/
theorem pushBlank_spec (lines : List (List Nat)) (row ins : Nat) (h : row ≤ ins) :
    ins ≤ pushBlank lines row ins ∧
    (∀ j, ins ≤ j → j < pushBlank lines row ins → ∃ l, lines[j - row]? = some l ∧ isBlank l = true) ∧
    (∀ l, lines[pushBlank lines row ins - row]? = some l → isBlank l = false) ∧
    (pushBlank lines row ins ≤ ins ∨ pushBlank lines row ins ≤ row + lines.length) := by
  induction lines generalizing row ins with
  | nil =>
    simp only [pushBlank]
    exact ⟨Nat.le_refl _, fun j h1 h2 => by omega, fun l hl => by simp at hl, Or.inl (Nat.le_refl _)⟩
  | cons l ls ih =>
    unfold pushBlank
    by_cases heq : ins = row
    · subst heq
      cases hb : isBlank l with
      | true =>
        simp only [decide_true, Bool.and_self, ↓reduceIte]
        obtain ⟨i1, i2, i3, i4⟩ := ih (ins + 1) (ins + 1) (Nat.le_refl _)
        refine ⟨by omega, ?_, ?_, ?_⟩
        · intro j h1 h2
          by_cases hj : j = ins
          · subst hj; exact ⟨l, by simp, hb⟩
          · obtain ⟨l', hl', hb'⟩ := i2 j (by omega) h2
            refine ⟨l', ?_, hb'⟩
            have : j - ins = (j - (ins + 1)) + 1 := by omega
            rw [this]; simpa using hl'
        · intro l' hl'
          apply i3
          have : pushBlank ls (ins + 1) (ins + 1) - ins = (pushBlank ls (ins + 1) (ins + 1) - (ins + 1)) + 1 := by omega
          rw [this] at hl'; simpa using hl'
        · right
          rcases i4 with h' | h' <;> simp <;> omega
      | false =>
        simp only [decide_true, Bool.true_and, Bool.false_eq_true, ↓reduceIte]
        rw [pushBlank_lt ls (ins + 1) ins (by omega)]
        refine ⟨Nat.le_refl _, fun j h1 h2 => by omega, ?_, Or.inl (Nat.le_refl _)⟩
        intro l' hl'
        simp only [Nat.sub_self, List.getElem?_cons_zero, Option.some.injEq] at hl'
        rw [← hl']; exact hb
    · simp only [heq, decide_false, Bool.false_and, Bool.false_eq_true, ↓reduceIte]
      obtain ⟨i1, i2, i3, i4⟩ := ih (row + 1) ins (by omega)
      refine ⟨i1, ?_, ?_, ?_⟩
      · intro j h1 h2
        obtain ⟨l', hl', hb'⟩ := i2 j h1 h2
        refine ⟨l', ?_, hb'⟩
        have : j - row = (j - (row + 1)) + 1 := by omega
        rw [this]; simpa using hl'
      · intro l' hl'
        apply i3
        have : pushBlank ls (row + 1) ins - row = (pushBlank ls (row + 1) ins - (row + 1)) + 1 := by omega
        rw [this] at hl'; simpa using hl'
      · rcases i4 with h' | h'
        · left; exact h'
        · right; simp; omega

/-! the loop over `all_primaries` -/

/-- `insert_pos.line` after the loop: an upper bound of `row+1` over the unselected primaries below `l0`, and
attained (or still the initial value) -/
theorem checkLoop_ins {sel : Range} {l0 ln : Nat} {xs : List (Nat × List Label)} {ins ins' : Nat}
    (h : checkLoop sel l0 ln xs ins = some ins') :
    ins ≤ ins' ∧
    (∀ p i0, (p, [i0]) ∈ xs → ¬ onSelRows sel i0 → p < l0 → i0.rng.s.line + 1 ≤ ins') ∧
    (ins' = ins ∨ ∃ p i0, (p, [i0]) ∈ xs ∧ ¬ onSelRows sel i0 ∧ p < l0 ∧ ins' = i0.rng.s.line + 1) := by
  induction xs generalizing ins with
  | nil =>
    simp only [checkLoop, Option.some.injEq] at h
    subst h
    exact ⟨Nat.le_refl _, fun p i0 hm => (by cases hm), Or.inl rfl⟩
  | cons y ys ih =>
    obtain ⟨p, info⟩ := y
    unfold checkLoop at h
    split at h
    · rename_i i0
      split at h
      · rename_i hin
        simp only [Bool.and_eq_true, decide_eq_true_eq] at hin
        obtain ⟨i1, i2, i3⟩ := ih h
        refine ⟨i1, ?_, ?_⟩
        · intro p' i0' hm hout hp
          rcases List.mem_cons.mp hm with heq | hm
          · injection heq with h1 h2
            injection h2 with h2 _
            subst h1 h2
            exact absurd hin hout
          · exact i2 p' i0' hm hout hp
        · rcases i3 with h' | ⟨p', i0', hm, h1, h2, h3⟩
          · exact Or.inl h'
          · exact Or.inr ⟨p', i0', List.mem_cons_of_mem _ hm, h1, h2, h3⟩
      · rename_i hout
        simp only [Bool.and_eq_true, decide_eq_true_eq] at hout
        dsimp only at h
        split at h
        · cases h
        · obtain ⟨i1, i2, i3⟩ := ih h
          by_cases hc : (decide (p < l0) && decide (ins ≤ i0.rng.s.line)) = true
          · rw [if_pos hc] at i1 i3
            simp only [Bool.and_eq_true, decide_eq_true_eq] at hc
            refine ⟨by omega, ?_, ?_⟩
            · intro p' i0' hm hout' hp
              rcases List.mem_cons.mp hm with heq | hm
              · injection heq with h1 h2
                injection h2 with h2 _
                subst h1 h2
                exact i1
              · exact i2 p' i0' hm hout' hp
            · right
              rcases i3 with h' | ⟨p', i0', hm, h1, h2, h3⟩
              · exact ⟨p, i0, by simp, hout, hc.1, h'⟩
              · exact ⟨p', i0', List.mem_cons_of_mem _ hm, h1, h2, h3⟩
          · rw [if_neg hc] at i1 i3
            simp only [Bool.and_eq_true, decide_eq_true_eq, not_and, Nat.not_le] at hc
            refine ⟨i1, ?_, ?_⟩
            · intro p' i0' hm hout' hp
              rcases List.mem_cons.mp hm with heq | hm
              · injection heq with h1 h2
                injection h2 with h2 _
                subst h1 h2
                have := hc hp
                omega
              · exact i2 p' i0' hm hout' hp
            · rcases i3 with h' | ⟨p', i0', hm, h1, h2, h3⟩
              · exact Or.inl h'
              · exact Or.inr ⟨p', i0', List.mem_cons_of_mem _ hm, h1, h2, h3⟩
    · cases h

/-! a row that carries a label is not blank -/

theorem isBlank_false_of_mem {l : List Nat} {c : Nat} (hc : c ∈ l) (hd : isDigit c = true) : isBlank l = false := by
  unfold isBlank
  rw [List.all_eq_false]
  refine ⟨c, hc, ?_⟩
  simp only [isDigit, Bool.and_eq_true, decide_eq_true_eq] at hd
  simp only [isWs, Bool.or_eq_true, Bool.and_eq_true, decide_eq_true_eq]
  omega

theorem labelOK_nonblank {lines : List (List Nat)} {nl : Nat × Label} (h : labelOK lines nl = true) :
    ∃ l, lines[nl.2.rng.s.line]? = some l ∧ isBlank l = false := by
  unfold labelOK at h
  split at h
  · cases h
  · rename_i t hs
    unfold sliceOf at hs
    split at hs
    · cases hs
    · rename_i l hl
      split at hs
      · injection hs with hs
        refine ⟨l, hl, ?_⟩
        simp only [Bool.and_eq_true, Bool.not_eq_eq_eq_not, Bool.not_true] at h
        obtain ⟨⟨⟨⟨hne, hall⟩, _⟩, _⟩, _⟩ := h
        cases hb : t.filter (· != SP) with
        | nil => rw [hb] at hne; simp at hne
        | cons c cs =>
          have hcm : c ∈ t.filter (· != SP) := by rw [hb]; simp
          have hct : c ∈ t := (List.mem_filter.mp hcm).1
          have hcd : isDigit c = true := List.all_eq_true.mp hall c hcm
          have hcl : c ∈ l := by
            rw [← hs] at hct
            exact List.mem_of_mem_drop (List.mem_of_mem_take hct)
          exact isBlank_false_of_mem hcl hcd
      · cases hs

theorem isBlank_nil : isBlank [] = true := rfl

/-! both ends of the selection `renumber` passes carry a line number -/

theorem extSelOf_ends (defs : List (Nat × Label)) (beg end_ : Nat) (l0 ln : Nat)
    (hext : extSelOf defs beg end_ = some (some ⟨⟨l0, 0⟩, ⟨ln + 1, 0⟩⟩))
    (hrows : ∀ d ∈ defs, d.2.rng.s.line < 0x10000) :
    (∃ d ∈ defs, d.2.rng.s.line = l0) ∧ (∃ d ∈ defs, d.2.rng.s.line = ln) := by
  unfold extSelOf at hext
  cases hs : selRows beg end_ (group defs) 0x10000 0 with
  | none => simp [hs] at hext
  | some r =>
    obtain ⟨l0', ln'⟩ := r
    simp only [hs, Option.map_some, Option.some.injEq] at hext
    split at hext
    · rename_i hle
      injection hext with hext
      injection hext with h1 h2
      injection h1 with h1 _
      injection h2 with h2 _
      have h2' : ln' = ln := by omega
      subst h1 h2'
      obtain ⟨_, _, _, _, h5, h6⟩ := selRows_spec hs
      have hback : ∀ num lab, (num, [lab]) ∈ group defs → (num, lab) ∈ defs := by
        intro num lab hm
        exact (memG_group defs num lab).mp ⟨[lab], hm, by simp⟩
      have hfirst : ∃ d ∈ defs, d.2.rng.s.line = l0' := by
        rcases h6 with h6 | ⟨n, l, hm, _, hl⟩
        · -- ln = 0, hence l0 = 0 ≠ 0x10000
          rcases h5 with h5 | ⟨n, l, hm, _, hl⟩
          · omega
          · exact ⟨(n, l), hback n l hm, hl⟩
        · rcases h5 with h5 | ⟨n', l', hm', _, hl'⟩
          · have := hrows (n, l) (hback n l hm)
            dsimp only at this
            omega
          · exact ⟨(n', l'), hback n' l' hm', hl'⟩
      refine ⟨hfirst, ?_⟩
      rcases h6 with h6 | ⟨n, l, hm, _, hl⟩
      · obtain ⟨d, hd, hdl⟩ := hfirst
        exact ⟨d, hd, by omega⟩
      · exact ⟨(n, l), hback n l hm, hl⟩
    · cases hext

end A2Verif.Lemmas.Renumber
