import A2Verif.Model.Detok
/-! helper lemmas for C14 (framing of token streams, panic freedom of the detokenizers) -/
namespace A2Verif.Detok
open A2Verif.Gen.Tokens

/-! ### outcomes -/

/-- `Good P o`: `o` is not a panic, and if it is a value the value satisfies `P` -/
def Good {α : Type} (P : α → Prop) : Outcome α → Prop
  | .ok a => P a
  | .err => True
  | .panic => False

theorem Good.map {α β : Type} {P : α → Prop} {Q : β → Prop} {f : α → β} {o : Outcome α}
    (h : Good P o) (hf : ∀ a, P a → Q (f a)) : Good Q (o.map f) := by
  cases o <;> simp_all [Good, Outcome.map]

theorem Good.bind {α β : Type} {P : α → Prop} {Q : β → Prop} {f : α → Outcome β} {o : Outcome α}
    (h : Good P o) (hf : ∀ a, P a → Good Q (f a)) : Good Q (o.bind f) := by
  cases o <;> simp_all [Good, Outcome.bind]

theorem Good.not_panic {α : Type} {P : α → Prop} {o : Outcome α} (h : Good P o) : o ≠ .panic := by
  cases o <;> simp_all [Good]

/-! ### lists -/

theorem take_append_len (a b : List Nat) : (a ++ b).take a.length = a := by
  induction a with
  | nil => simp
  | cons x xs ih => simp [ih]

theorem drop_append_len (a b : List Nat) : (a ++ b).drop a.length = b := by
  induction a with
  | nil => simp
  | cons x xs ih => simp [ih]

/-- `splitZero` finds exactly the first `00` -/
theorem splitZero_append (body tl : List Nat) (h : ∀ b ∈ body, b ≠ 0) :
    splitZero (body ++ 0 :: tl) = some (body, tl) := by
  induction body with
  | nil => simp [splitZero]
  | cons x xs ih =>
    have hx : x ≠ 0 := h x (by simp)
    have hxs : ∀ b ∈ xs, b ≠ 0 := fun b hb => h b (by simp [hb])
    simp [splitZero, hx, ih hxs]

theorem splitZero_spec : ∀ (s body tl : List Nat), splitZero s = some (body, tl) →
    s = body ++ 0 :: tl ∧ ∀ b ∈ body, b ≠ 0 := by
  intro s
  induction s with
  | nil => intro body tl h; simp [splitZero] at h
  | cons x xs ih =>
    intro body tl h
    by_cases hx : x = 0
    · simp [splitZero, hx] at h
      obtain ⟨h1, h2⟩ := h
      subst h1; subst h2; simp [hx]
    · simp only [splitZero, hx, if_false] at h
      cases hs : splitZero xs with
      | none => simp [hs] at h
      | some p =>
        obtain ⟨b', t'⟩ := p
        simp [hs] at h
        obtain ⟨h1, h2⟩ := h
        subst h1; subst h2
        obtain ⟨e, nz⟩ := ih b' t' hs
        refine ⟨by rw [e]; simp, ?_⟩
        intro b hb
        simp at hb
        rcases hb with hb | hb
        · subst hb; exact hx
        · exact nz b hb

/-! ### Applesoft framing -/

/-- hypotheses on tokenized lines: bodies contain no `00`, line numbers are 16 bit -/
def LinesOK (ls : List Line) : Prop := ∀ l ∈ ls, (∀ b ∈ l.body, b ≠ 0) ∧ l.num < 65536

theorem scanA_assembleA : ∀ (ls : List Line) (addr : Nat) (out : List Nat), LinesOK ls →
    assembleA addr ls = .ok out → ∀ fuel, out.length < fuel → scanA fuel addr out = some ls := by
  intro ls
  induction ls with
  | nil =>
    intro addr out _ h fuel hf
    simp [assembleA] at h
    subst h
    cases fuel with
    | zero => simp at hf
    | succ f => simp [scanA]
  | cons l ls ih =>
    intro addr out hok h fuel hf
    have hl := hok l (by simp)
    have hls : LinesOK ls := fun x hx => hok x (by simp [hx])
    simp only [assembleA] at h
    split at h
    · simp at h
    · rename_i hnext
      cases hrec : assembleA (addr + (2 + l.body.length) + 3) ls with
      | err => simp [hrec, Outcome.map] at h
      | panic => simp [hrec, Outcome.map] at h
      | ok tl =>
        simp [hrec, Outcome.map] at h
        subst h
        cases fuel with
        | zero => simp at hf
        | succ f =>
          have hlen : tl.length < f := by simp at hf; omega
          have ih' := ih _ tl hls hrec f hlen
          have hsplit := splitZero_append l.body tl hl.1
          have hnum := hl.2
          simp only [List.cons_append, List.nil_append, List.append_assoc, scanA, hsplit]
          have e1 : addr + l.body.length + 5 = addr + (2 + l.body.length) + 3 := by omega
          rw [e1]
          have c1 : (addr + (2 + l.body.length) + 3) % 256 + 256 * ((addr + (2 + l.body.length) + 3) / 256)
              = addr + (2 + l.body.length) + 3 := by omega
          have c2 : l.num % 256 + 256 * (l.num / 256) = l.num := by omega
          have c3 : (addr + (2 + l.body.length) + 3) / 256 < 256 := by omega
          have c4 : l.num / 256 < 256 := by omega
          have c5 : (addr + (2 + l.body.length) + 3) % 256 < 256 := by omega
          have c6 : l.num % 256 < 256 := by omega
          have c7 : addr + (2 + l.body.length) + 3 ≤ 65535 := by omega
          simp [c1, c2, c3, c4, c5, c6, c7, ih']

/-- following the links visits exactly the lines found by scanning for terminators -/
theorem walkA_of_scanA : ∀ (fuel : Nat) (addr : Nat) (t : List Nat) (ls : List Line),
    scanA fuel addr t = some ls → ∀ fuel', t.length < fuel' → walkA fuel' addr t = some ls := by
  intro fuel
  induction fuel with
  | zero => intro addr t ls h; simp [scanA] at h
  | succ f ih =>
    intro addr t ls h fuel' hf
    cases fuel' with
    | zero => simp at hf
    | succ f' =>
      unfold scanA at h
      split at h
      · -- [0, 0]
        simp at h; subst h; simp [walkA]
      · rename_i lk0 lk1 n0 n1 rest
        cases hs : splitZero rest with
        | none => simp [hs] at h
        | some p =>
          obtain ⟨body, rest'⟩ := p
          simp only [hs] at h
          split at h
          · rename_i hc
            obtain ⟨hlk, hle, _, _, _, _⟩ := hc
            cases hr : scanA f (addr + body.length + 5) rest' with
            | none => simp [hr] at h
            | some ls' =>
              simp [hr] at h
              subst h
              obtain ⟨e, _⟩ := splitZero_spec rest body rest' hs
              have hlen : rest'.length < f' := by
                subst e; simp at hf; omega
              have ih' := ih _ _ _ hr f' hlen
              subst e
              simp only [walkA]
              have hne0 : lk0 + 256 * lk1 ≠ 0 := by omega
              have hge : ¬ (lk0 + 256 * lk1 < addr + 5) := by omega
              have hd : lk0 + 256 * lk1 - addr - 5 = body.length := by omega
              simp [hne0, hge, hd, take_append_len, drop_append_len]
              rw [hlk]; exact ⟨fun h0 => by omega, ih'⟩
          · simp at h
      · simp at h

/-! ### Integer BASIC framing -/

theorem walkI_assembleI : ∀ (ls : List Line) (out : List Nat), (∀ l ∈ ls, l.num < 65536) →
    assembleI ls = .ok out → ∀ fuel, out.length < fuel → walkI fuel out = some ls := by
  intro ls
  induction ls with
  | nil =>
    intro out _ h fuel hf
    simp [assembleI] at h
    subst h
    cases fuel with
    | zero => simp at hf
    | succ f => simp [walkI]
  | cons l ls ih =>
    intro out hok h fuel hf
    have hl := hok l (by simp)
    have hls : ∀ x ∈ ls, x.num < 65536 := fun x hx => hok x (by simp [hx])
    simp only [assembleI] at h
    split at h
    · simp at h
    · rename_i hlen
      cases hrec : assembleI ls with
      | err => simp [hrec, Outcome.map] at h
      | panic => simp [hrec, Outcome.map] at h
      | ok tl =>
        simp [hrec, Outcome.map] at h
        subst h
        cases fuel with
        | zero => simp at hf
        | succ f =>
          have hlen' : tl.length < f := by simp at hf; omega
          have ih' := ih tl hls hrec f hlen'
          simp only [List.cons_append, List.nil_append, walkI]
          have h4 : ¬ (2 + l.body.length + 2 < 4) := by omega
          have e : 2 + l.body.length + 2 - 1 = (l.num % 256 :: l.num / 256 :: (l.body ++ [1])).length := by
            simp; omega
          have e2 : (l.num % 256 :: l.num / 256 :: (l.body ++ 1 :: tl))
              = (l.num % 256 :: l.num / 256 :: (l.body ++ [1])) ++ tl := by simp
          rw [if_neg h4, e2, e, take_append_len, drop_append_len]
          have c2 : l.num % 256 + 256 * (l.num / 256) = l.num := by omega
          simp [iEol, c2, ih']
          omega

end A2Verif.Detok
