import A2Verif.Lemmas.FsProdosSubD2
/-!
# `delete` of a file of a first-level sub-directory refines the abstract `delete`

`sub_erase_reading`: the reading after an entry of the sub-directory has been erased.  `delete_sub_refines'`: every outcome
(directory or file not found, invalid name, write protected, deleted) for a path whose normal form is `[volume, dir, name]`.
-/
namespace A2Verif.FsProdos
open A2Verif.Fs.Prodos
open A2Verif.Read.Prodos (entryAt dirChain idxPtr indexEntries readData trimName bitmapFree)
open A2Verif.Read.ProdosT

/-- **the reading after a file entry of a first-level sub-directory has been erased** -/
theorem sub_erase_reading {d d3 : Disk} (hs : SInv d) (v : Vol) (fsL : List LRec) (ch : List Nat)
    (hr : Read.ProdosT.read d.raw = .ok v) (ht : readTree d.raw (hdrTotal d.raw) = .ok (fsL, ch))
    (dn : Bytes) (B k : Nat) (sch : List Nat) (sd : SubDir d v fsL ch dn B k sch)
    (B' k' : Nat) (hB' : B' ∈ sch) (hk13' : k' < 13) (hkey' : B' = le16 (entryAt (unitAt d.raw B) k 39) 0x11 → 1 ≤ k')
    (hact : isAct (entryAt (unitAt d.raw B') k' 39, B', k' + 1) = true)
    (f : FileRec)
    (hgy : slotRecs 68 d.raw (hdrTotal d.raw) (baseRec (entryAt (unitAt d.raw B) k 39) []).path 1
      (entryAt (unitAt d.raw B') k' 39, B', k' + 1) = [(f, B', k' + 1)])
    (hlocked : f.locked = false)
    (raw1 : Raw) (buf1 : Array Nat) (hsz1 : raw1.units.size = d.raw.units.size)
    (hoth1 : ∀ j, j ∉ f.owned → raw1.units[j]? = d.raw.units[j]?) (hshape1 : ShapeOk raw1)
    (hs1 : buf1.size = (bufOf d.raw (hdrBm d.raw) (nbmOf (hdrTotal d.raw))).size) (hok1 : BytesOk buf1)
    (hf1 : ∀ j, freeB buf1 j = (f.owned.contains j || freeB (bufOf d.raw (hdrBm d.raw) (nbmOf (hdrTotal d.raw))) j))
    (n3 : Next d d3 (hdrBm d.raw) (nbmOf (hdrTotal d.raw))
      (delImageK raw1 B' (k' + 1) (le16 (entryAt (unitAt d.raw B) k 39) 0x11))
      (clearBit (clearBit buf1 B') (le16 (entryAt (unitAt d.raw B) k 39) 0x11))) :
    ∃ d4 v4, d3.flush = (.ok (), d4) ∧ SInv d4 ∧ Read.ProdosT.read d4.raw = .ok v4 ∧
      stepOk { eofRule := id, keepsType := true, keepsAux := true, hasLock := true } v (.delete f.path) true v4 = true ∧
      v4.label = v.label := by
  obtain ⟨v', fsL', ch', hr', ht', c, hts, heff, hbsz, hbok⟩ := hs.ctx
  have e1 : v' = v := by rw [hr] at hr'; injection hr' with h; exact h.symm
  subst e1
  have e2 : fsL' = fsL ∧ ch' = ch := by
    rw [ht] at ht'; injection ht' with h; injection h with h1 h2; exact ⟨h1.symm, h2.symm⟩
  obtain ⟨rfl, rfl⟩ := e2
  obtain ⟨hw, hn, hroot, hvv, hcr, hic, hnd, hchf, h2, h6, h3, hbt, hstv⟩ := root_chain_facts hs.inv v' fsL' ch' hr ht
  have hsz := hs.inv.size
  obtain ⟨ex, hex⟩ : ∃ ex, ex = entryAt (unitAt d.raw B) k 39 := ⟨_, rfl⟩
  obtain ⟨ey, hey⟩ : ∃ ey, ey = entryAt (unitAt d.raw B') k' 39 := ⟨_, rfl⟩
  have hxm := sd.xm
  have hd := sd.hd
  have hc := sd.hc
  have hschf := sd.facts
  obtain ⟨hnl, hgeo, hprev, hlen, hhdr, hp1, hp2, hslots⟩ := sd.tail
  have sc := sd.sc
  rw [← hex] at hxm hd hc hgy hkey' n3 hgeo sc
  rw [← hey] at hgy hact
  simp only at hgeo
  have hym : (ey, B', k' + 1) ∈ dirSlots d.raw (le16 ex 0x11) sch := mem_dirSlots.mpr ⟨B', hB', k', hk13', hkey', by rw [hey]⟩
  obtain ⟨hsplit, h1, h2', hfs2, hfiles, hdisj, hxnd, hxown, hall, hcnt0⟩ :=
    slot_split_facts hs.inv v' fsL' ch' hr ht _ hxm
  simp only at hsplit h1 h2' hfs2 hfiles hdisj hxnd hxown
  obtain ⟨htsplit, g1, g2, hgx, hsdis, hyown, hschown, hynd, hsall, hscnt0⟩ :=
    sub_slot_facts hs.inv v' fsL' ch' hr ht (ex, B, k + 1) hxm hd sch hc hgeo (ey, B', k' + 1) hym
  simp only at htsplit g1 g2 hgx hsdis hyown hsall hscnt0
  rw [hgy] at hgx hyown hsdis
  simp only [List.map_cons, List.map_nil, List.flatMap_cons, List.flatMap_nil, List.append_nil] at hyown hsdis
  have hKm : le16 ex 0x11 ∈ sch := sc.mem
  have hndw := (wfB_iff.1 hw).2.1
  have hrange := (wfB_iff.1 hw).1
  have hownlt : ∀ u ∈ f.owned, u < hdrTotal d.raw := by
    intro u hu
    have := (hrange u (hyown u hu).1).2; rw [hvv] at this; exact this
  have hnotown : ∀ b ∈ sch, b ∉ f.owned := fun b hb hm => (hyown b hm).2 hb
  have hnotownch : ∀ b ∈ ch', b ∉ f.owned := fun b hb hm => (hchf b hb).2.2.1 (hyown b hm).1
  have hshapech : ∀ b ∈ sch, b < d.raw.units.size ∧ (unitAt d.raw b).length = 512 ∧ ∀ x ∈ unitAt d.raw b, x < 256 :=
    fun b hb' => ⟨(hschf b hb').2.2.2.1, (hschf b hb').2.2.2.2.1, (hschf b hb').2.2.2.2.2.1⟩
  have hu1 : ∀ b ∈ sch, unitAt raw1 b = unitAt d.raw b := by
    intro b hb; unfold unitAt; rw [hoth1 b (hnotown b hb)]
  have hpatch := delImageK_patch (K := le16 ex 0x11) hsz1 hu1 hshapech hB' hKm hk13' hkey'
  have hBsz1 : B' < raw1.units.size := by rw [hsz1]; exact (hshapech B' hB').1
  have hKsz1 : le16 ex 0x11 < raw1.units.size := by rw [hsz1]; exact (hshapech _ hKm).1
  -- the buffer after the operation marks exactly the file's blocks free
  have hused : ∀ b ∈ sch, freeB buf1 b = false := by
    intro b hb
    rw [hf1 b]
    have h1' : f.owned.contains b = false := by simpa using hnotown b hb
    rw [h1', (hschf b hb).2.2.2.2.2.2.2]; rfl
  have hcovB : B' / 8 < buf1.size := by rw [hs1]; exact (hschf B' hB').2.2.2.2.2.2.1
  have hcov2 : le16 ex 0x11 / 8 < (clearBit buf1 B').size := by rw [size_clearBit, hs1]; exact (hschf _ hKm).2.2.2.2.2.2.1
  have hf3 : ∀ j, freeB (clearBit (clearBit buf1 B') (le16 ex 0x11)) j =
      (f.owned.contains j || freeB (bufOf d.raw (hdrBm d.raw) (nbmOf (hdrTotal d.raw))) j) := by
    intro j
    rw [freeB_clearBit_used _ _ (bytesOk_clearBit _ _ hok1) hcov2
        (by rw [freeB_clearBit_used _ B' hok1 hcovB (hused B' hB')]; exact hused _ hKm),
      freeB_clearBit_used _ B' hok1 hcovB (hused B' hB'), hf1 j]
  have hbs3 : (clearBit (clearBit buf1 B') (le16 ex 0x11)).size = blockSize * nbmOf (hdrTotal d.raw) := by
    rw [size_clearBit, size_clearBit, hs1, hbsz]
  have hbok3 : BytesOk (clearBit (clearBit buf1 B') (le16 ex 0x11)) := bytesOk_clearBit _ _ (bytesOk_clearBit _ _ hok1)
  -- the shape of the image
  have hshape3 : ShapeOk (delImageK raw1 B' (k' + 1) (le16 ex 0x11)) := by
    apply shapeOk_of_units
    intro j hj
    rw [delImageK_size] at hj
    by_cases hjc : j ∈ sch
    · exact hpatch.shape j hjc
    · have hjB : j ≠ B' := fun e => hjc (e ▸ hB')
      have hj2 : j ≠ le16 ex 0x11 := fun e => hjc (e ▸ hKm)
      have : unitAt (delImageK raw1 B' (k' + 1) (le16 ex 0x11)) j = unitAt raw1 j := by
        unfold unitAt; rw [delImageK_other raw1 B' (k' + 1) _ j hjB hj2]
      rw [this]; exact hshape1.unit hj
  -- the new slot is inactive
  have he'0 : (entryAt (unitAt (delImageK raw1 B' (k' + 1) (le16 ex 0x11)) B') k' 39).getD 0 0 = 0 := by
    rw [entryAt_getD _ _ _ (by omega : 0 < 39), delImageK_unit raw1 B' (k' + 1) _ B' hBsz1 hKsz1]
    exact delUnitK_slot_zero raw1 B' k' _ (by rw [hu1 B' hB']; exact (hshapech B' hB').2.1) hk13' hkey'
  have hinact : isAct (entryAt (unitAt (delImageK raw1 B' (k' + 1) (le16 ex 0x11)) B') k' 39, B', k' + 1) = false := by
    unfold isAct; simp only [he'0]; decide
  have hsr3 : slotRecs 68 (delImageK raw1 B' (k' + 1) (le16 ex 0x11)) (hdrTotal d.raw) (baseRec ex []).path 1
      (entryAt (unitAt (delImageK raw1 B' (k' + 1) (le16 ex 0x11)) B') k' 39, B', k' + 1) = [] := by
    unfold slotRecs; rw [hinact]; rfl
  have hcnt3 : le16 (unitAt (delImageK raw1 B' (k' + 1) (le16 ex 0x11)) (le16 ex 0x11)) 37 =
      ((sBefore (dirSlots d.raw (le16 ex 0x11) sch) (B', k' + 1) ++
        (entryAt (unitAt (delImageK raw1 B' (k' + 1) (le16 ex 0x11)) B') k' 39, B', k' + 1) ::
          sAfter (dirSlots d.raw (le16 ex 0x11) sch) (B', k' + 1)).filter isAct).length := by
    rw [delImageK_unit raw1 B' (k' + 1) _ _ hBsz1 hKsz1,
      delUnitK_count raw1 B' k' _ (by rw [hu1 _ hKm]; exact (hshapech _ hKm).2.1) hk13' hkey'
        (by rw [hu1 _ hKm]; exact (hshapech _ hKm).2.2),
      hu1 _ hKm, ← hscnt0]
    conv => lhs; rw [htsplit]
    rw [filter_length_mid, filter_length_mid, hact, hinact]
    simp
  -- the reading of the written-back image
  obtain ⟨hrd4, htree4, htot4, hbm4, hsz4, hshape4, hgeo4, hprev4, hslotok4, hnames4, hsame4⟩ :=
    sub_patched_reading hs.inv v' fsL' ch' hr ht ex B k hxm hd sch hc ey B' k' hym f.owned hpatch
      (fun b hb' => by
        have hbs : b ∉ sch := fun hm => (hschf b hm).2.1 hb'
        rw [delImageK_other raw1 B' (k' + 1) _ b (fun e => hbs (e ▸ hB')) (fun e => hbs (e ▸ hKm)), hoth1 b (hnotownch b hb')])
      (fun j _ hjs hjo => by
        rw [delImageK_other raw1 B' (k' + 1) _ j (fun e => hjs (e ▸ hB')) (fun e => hjs (e ▸ hKm)), hoth1 j hjo])
      (fun u hu => Or.inr (by
        rw [hgy]; simp only [List.map_cons, List.map_nil, List.flatMap_cons, List.flatMap_nil, List.append_nil]; exact hu))
      hshape3 _ _ rfl rfl _ _ rfl rfl _ rfl hcnt3 (fun ha => by rw [hinact] at ha; cases ha)
      (fun j _ => by rw [hsr3]; simp) _ hbs3 hbok3 _ rfl _ rfl
  rw [hsr3, List.append_nil] at hrd4 htree4
  -- the abstract step
  obtain ⟨FA, hFA⟩ : ∃ FA, FA = ((sBefore (dirSlots d.raw 2 ch') (B, k + 1)).flatMap (slotRecs 69 d.raw (hdrTotal d.raw) [] 0)).map (·.1) ++
      dirRec ex [] sch :: ((sBefore (dirSlots d.raw (le16 ex 0x11) sch) (B', k' + 1)).flatMap
        (slotRecs 68 d.raw (hdrTotal d.raw) (baseRec ex []).path 1)).map (·.1) := ⟨_, rfl⟩
  obtain ⟨FB, hFB⟩ : ∃ FB, FB = ((sAfter (dirSlots d.raw (le16 ex 0x11) sch) (B', k' + 1)).flatMap
        (slotRecs 68 d.raw (hdrTotal d.raw) (baseRec ex []).path 1)).map (·.1) ++
      ((sAfter (dirSlots d.raw 2 ch') (B, k + 1)).flatMap (slotRecs 69 d.raw (hdrTotal d.raw) [] 0)).map (·.1) := ⟨_, rfl⟩
  have hfiles' : v'.files = FA ++ f :: FB := by
    rw [hfiles, hgx, hFA, hFB]
    simp only [List.map_cons, List.map_append, List.map_nil, List.append_assoc, List.cons_append, List.nil_append]
  obtain ⟨v4, hv4⟩ : ∃ v4 : Vol, v4 = {
      lo := 0
      hi := hdrTotal d.raw
      sys := v'.sys
      files := ((sBefore (dirSlots d.raw 2 ch') (B, k + 1)).flatMap (slotRecs 69 d.raw (hdrTotal d.raw) [] 0) ++
        ((dirRec ex [] sch, B, k + 1) :: ((sBefore (dirSlots d.raw (le16 ex 0x11) sch) (B', k' + 1)).flatMap
            (slotRecs 68 d.raw (hdrTotal d.raw) (baseRec ex []).path 1) ++
          (sAfter (dirSlots d.raw (le16 ex 0x11) sch) (B', k' + 1)).flatMap
            (slotRecs 68 d.raw (hdrTotal d.raw) (baseRec ex []).path 1))) ++
        (sAfter (dirSlots d.raw 2 ch') (B, k + 1)).flatMap (slotRecs 69 d.raw (hdrTotal d.raw) [] 0)).map (·.1)
      freeUnits := (List.range (hdrTotal d.raw)).filter (freeB (clearBit (clearBit buf1 B') (le16 ex 0x11)))
      label := v'.label } := ⟨_, rfl⟩
  rw [← hv4] at hrd4
  have hfiles4 : v4.files = FA ++ FB := by
    rw [hv4, hFA, hFB]
    simp only [List.map_cons, List.map_append, List.map_nil, List.append_assoc, List.cons_append, List.nil_append]
  obtain ⟨hw4, hn4, hstep⟩ := vol_erase (P := { eofRule := id, keepsType := true, keepsAux := true, hasLock := true })
    (v := v') (v' := v4) hw hn hfiles' hfiles4 (by rw [hv4, hvv]) (by rw [hv4, hvv]) (by rw [hv4])
    (by rw [hv4]; exact filter_range_nodup _ _)
    (fun u => by
      rw [hv4]
      simp only [List.mem_filter, List.mem_range, hf3 u, Bool.or_eq_true, List.contains_eq_mem, decide_eq_true_eq]
      rw [hvv]
      simp only [List.mem_filter, List.mem_range]
      constructor
      · rintro ⟨hlt, ho | hf⟩
        · exact Or.inr ho
        · exact Or.inl ⟨hlt, hf⟩
      · rintro (⟨hlt, hf⟩ | ho)
        · exact ⟨hlt, Or.inr hf⟩
        · exact ⟨hownlt u ho, Or.inl ho⟩)
    hlocked
  -- the invariant of the new image
  have hinv4 : Inv (wbRaw (delImageK raw1 B' (k' + 1) (le16 ex 0x11)) (hdrBm d.raw) (nbmOf (hdrTotal d.raw))
      (clearBit (clearBit buf1 B') (le16 ex 0x11))) :=
    ⟨hshape4, by rw [htot4, hsz4]; exact hsz, _, _, ch', hrd4, by rw [htot4]; exact htree4, hw4, hn4, hgeo4, hprev4, hroot.len,
      hslotok4 (Or.inl he'0), hnames4⟩
  have hlen3 : ∀ i ∈ bmRange (hdrBm d.raw) (nbmOf (hdrTotal d.raw)),
      (unitAt (delImageK raw1 B' (k' + 1) (le16 ex 0x11)) i).length = blockSize := by
    intro i hi
    have hisz : i < (delImageK raw1 B' (k' + 1) (le16 ex 0x11)).units.size := by rw [delImageK_size, hsz1]; exact c.st.exist i hi
    exact (hshape3.unit hisz).1
  obtain ⟨d4, hfl4, hraw4, hs4⟩ := close_op hs _ _ n3 hbs3 hlen3 hinv4 hbm4 hsz4
  exact ⟨d4, v4, hfl4, hs4, by rw [hraw4]; exact hrd4, hstep, by rw [hv4]⟩

/-- `find_dir_key_block` of a path (not the volume) on which the search for a directory fails answers `PATH NOT FOUND` -/
theorem findDirKeyBlock_err {d : Disk} {bm cnt : Nat} {ch : List Nat} (c : RootCtx d bm cnt ch) (path : Bytes)
    (hnv : NotVol (volName (hdrOf d.raw)) path) (e : Err) (hs : searchVolume [stSubDirEntry] path d = (.error e, d))
    (he : e ≠ .panic) : findDirKeyBlock path d = (.error .pathNotFound, d) := by
  unfold findDirKeyBlock
  simp only [bind_def]
  rw [bind_ok _ _ d d _ (getVolHeader_root c)]
  unfold NotVol at hnv
  simp only [hnv, ↓reduceIte]
  rw [bind_ok _ _ d d _ (attempt_err _ d d _ hs he)]
  rfl

/-- **`delete(path)` refines the abstract `delete`** (files of a first-level sub-directory): every outcome -/
theorem delete_sub_refines' {d : Disk} (hs : SInv d) (path dn nm : Bytes)
    (hnodes : normalizePath (volName (hdrOf d.raw)) path = .ok [volName (hdrOf d.raw), dn, nm]) (hnm : nm ≠ [])
    (hnv : NotVol (volName (hdrOf d.raw)) path) :
    Refines d (delete path repaired d) (.delete (upper dn ++ [47] ++ upper nm)) := by
  obtain ⟨v, fsL, ch, hr, ht, c, hts, heff, hbsz, hbok⟩ := hs.ctx
  obtain ⟨hw, hn, hroot, hvv, hcr, hic, hnd, hchf, h2, h6, h3, hbt, hstv⟩ := root_chain_facts hs.inv v fsL ch hr ht
  -- both searches fail: `PATH NOT FOUND`
  have hnotfound : ∀ e1 e2, findFile path d = (.error e1, d) → e1 ≠ .panic →
      searchVolume [stSubDirEntry] path d = (.error e2, d) → e2 ≠ .panic →
      Refines d (delete path repaired d) (.delete (upper dn ++ [47] ++ upper nm)) := by
    intro e1 e2 h1 hp1 h2' hp2
    have hdk := findDirKeyBlock_err c path hnv e2 h2' hp2
    have : delete path repaired d = (.error .pathNotFound, d) := by
      unfold delete
      simp only [bind_def]
      rw [bind_ok _ _ d d _ (attempt_err _ d d e1 h1 hp1)]
      try simp only []
      rw [bind_ok _ _ d d _ (attempt_err _ d d _ hdk (by decide))]
      rfl
    rw [this]; exact refines_refused hs _ _
  rcases sub_resolve hs v fsL ch hr ht path dn nm hnodes hnm with ⟨_, hfail⟩ | ⟨hv, B, k, sch, sd, hsearch⟩
  · obtain ⟨e1, h1, hp1⟩ := hfail fileTypes
    obtain ⟨e2, h2', hp2⟩ := hfail [stSubDirEntry]
    exact hnotfound e1 e2 h1 hp1 h2' hp2
  · have hfind : findFile path d = _ := hsearch fileTypes
    have hdir := hsearch [stSubDirEntry]
    unfold rootSearch at hfind hdir
    by_cases hvn : isNameValid nm = true
    · simp only [hvn, Bool.not_true, Bool.false_eq_true, ↓reduceIte] at hfind hdir
      rw [sd.no_dirs nm hvn] at hdir
      obtain ⟨o, hy⟩ : ∃ o, (dirSlots d.raw (le16 (entryAt (unitAt d.raw B) k 39) 17) sch).find? (isHit fileTypes nm) = o := ⟨_, rfl⟩
      cases o with
      | none => rw [hy] at hfind; exact hnotfound _ _ hfind (by decide) hdir (by decide)
      | some y =>
        rw [hy] at hfind
        obtain ⟨hym, hyhit⟩ := mem_find hy
        obtain ⟨B', hB', k', hk13', hkey', hye⟩ := mem_dirSlots.mp hym
        subst hye
        have hfind' : findFile path d = (.ok { block := B', idx := k' + 1 }, d) := hfind
        have hmatch : isFileMatch fileTypes nm (entryAt (unitAt d.raw B') k' 39) = true := by
          unfold isHit at hyhit; simp only [Bool.and_eq_true] at hyhit; exact hyhit.2
        obtain ⟨hst, hname⟩ := isFileMatch_file nm _ hvn hmatch
        have hread : readEntry { block := B', idx := k' + 1 } d = (.ok (entryAt (unitAt d.raw B') k' 39), d) :=
          readEntry_key sd.sc B' k' hB' hk13' hkey'
        by_cases hacc : Ent.access (entryAt (unitAt d.raw B') k' 39) &&& 0x80 = 0
        · have : delete path repaired d = (.error .writeProtected, d) := by
            unfold delete
            simp only [bind_def]
            rw [bind_ok _ _ d d _ (attempt_ok _ d d _ hfind')]
            try simp only []
            rw [bind_ok _ _ d d _ hread]
            try simp only []
            rw [if_pos hacc]
            rfl
          rw [this]; exact refines_refused hs _ _
        · -- deleted
          obtain ⟨f, hrf, hgy, hown, hkeyp, hua, hcl⟩ :=
            sub_file_rec hs.inv v fsL ch hr ht _ sd.xm sd.hd sch sd.hc _ hym hst
          simp only at hrf hgy hown hkeyp hua
          obtain ⟨_, _, _, _, _, hyown, _, hynd, _, hscnt0⟩ :=
            sub_slot_facts hs.inv v fsL ch hr ht _ sd.xm sd.hd sch sd.hc sd.tail.2.1 _ hym
          simp only at hyown hynd hscnt0
          rw [hgy] at hyown hynd
          simp only [List.map_cons, List.map_nil, List.flatMap_cons, List.flatMap_nil, List.append_nil] at hyown hynd
          have hndw := (wfB_iff.1 hw).2.1
          have hrange := (wfB_iff.1 hw).1
          have h2s : 2 ∉ sch := fun h => (sd.facts 2 h).2.1 h2
          have hownfacts : ∀ y ∈ ownedOfEntry d.raw (entryAt (unitAt d.raw B') k' 39),
              y ∉ bmRange (hdrBm d.raw) (nbmOf (hdrTotal d.raw)) ∧ y ≠ 2 ∧ y < d.raw.units.size ∧
              y / 8 < (effBuf d (hdrBm d.raw) (nbmOf (hdrTotal d.raw))).size ∧ y ∉ sch := by
            intro y hy'
            rw [← hown] at hy'
            have hya := (hyown y hy').1
            have hylt : y < hdrTotal d.raw := by have := (hrange y hya).2; rw [hvv] at this; exact this
            have hnsys : y ∉ v.sys := by
              intro hsys
              rw [List.nodup_append] at hndw
              exact hndw.2.2 y hya y hsys rfl
            refine ⟨?_, ?_, by rw [← hs.inv.size]; exact hylt, by rw [heff, hbsz]; exact cover_of_lt hylt, (hyown y hy').2⟩
            · intro hm
              apply hnsys
              rw [hvv]; simp only
              rw [mem_bmRange] at hm
              apply List.mem_append_right
              rw [List.mem_map]; exact ⟨y - hdrBm d.raw, List.mem_range.mpr (by omega), by omega⟩
            · intro e2; apply hnsys; rw [e2]; exact (hchf 2 h2).2.2.2
          have hcount : le16 (unitAt d.raw (le16 (entryAt (unitAt d.raw B) k 39) 17)) 37 ≠ 0 := by
            rw [← hscnt0]
            have hact : isAct (entryAt (unitAt d.raw B') k' 39, B', k' + 1) = true := by
              unfold isAct; simp only [ne_eq, decide_eq_true_eq]; omega
            have := List.length_pos_of_mem (List.mem_filter.mpr ⟨hym, hact⟩)
            omega
          obtain ⟨d3, raw1, buf1, hdel, hsz1, hoth1, hswap1, hs1, hok1, hf1, n3⟩ :=
            delete_trace_key sd.sc h2s path B' k' hB' hk13' hkey' hfind' hacc hst (by rw [← hown]; exact hynd) hownfacts
              (by rw [heff]; exact hbok) (fun b hb => by rw [heff]; exact (sd.facts b hb).2.2.2.2.2.2.1) hcount
              (fun b hb => (sd.facts b hb).2.2.2.2.1)
          rw [heff] at hs1 hf1
          obtain ⟨hfp, _, hfl, hfa, _, _, _⟩ := readFile_rec_fields d.raw (hdrTotal d.raw) _ _ f hrf
          have hfpath : f.path = upper dn ++ [47] ++ upper nm := by
            rw [hfp, sd.pfx]; unfold baseRec; simp only [upper_ne_nil hv, Bool.false_eq_true, ↓reduceIte, hname]
          have hlocked : f.locked = false := by
            rw [hfl]
            have hlt : (entryAt (unitAt d.raw B') k' 39).getD 30 0 < 256 :=
              getD_lt_of_bytes _ _ (entryAt_bytes _ _ (sd.facts B' hB').2.2.2.2.2.1)
            have := (uniform_locked ⟨_, hlt⟩ hua).1
            have hacc' : (entryAt (unitAt d.raw B') k' 39).getD 30 0 &&& 0x80 ≠ 0 := hacc
            have hrl := this.mpr hacc'
            unfold readerLocked at hrl
            unfold baseRec
            simp only
            exact hrl
          have hact : isAct (entryAt (unitAt d.raw B') k' 39, B', k' + 1) = true := by
            unfold isAct; simp only [ne_eq, decide_eq_true_eq]; omega
          obtain ⟨d4, v4, hfl4, hs4, hrd4, hstep, hlab⟩ := sub_erase_reading hs v fsL ch hr ht dn B k sch sd B' k' hB' hk13' hkey'
            hact f hgy hlocked raw1 buf1 hsz1 (fun j hj => hoth1 j (by rw [← hown]; exact hj))
            (shape_swapOnly hs.inv.shape hswap1) hs1 hok1 (fun j => by rw [hf1 j, hown]) n3
          rw [hfpath] at hstep
          rw [hdel]
          exact ⟨d4, v, v4, hfl4, hs4, hr, hrd4, hstep, hlab⟩
    · have hv' : isNameValid nm = false := by simpa using hvn
      simp only [hv', Bool.not_false, ↓reduceIte] at hfind hdir
      exact hnotfound _ _ hfind (by decide) hdir (by decide)

end A2Verif.FsProdos
