import A2Verif.Lemmas.FsPascalFind
/-!
# First-fit allocation (`get_available_blocks`) and the free-block test

Soundness: the run `get_available_blocks` returns consists of `num` blocks inside the volume on which
`is_block_free` holds.  Completeness: if such a run exists anywhere, a run is returned (first fit never
misses).  `is_block_free` under the invariant: behind the directory and outside every file.  Core Lean only.
-/
namespace A2Verif.Fs.Pascal

/-! ## the loop, for an arbitrary free-predicate -/

/-- soundness of the first-fit loop over the contiguous blocks `b0 ..< b0+len` -/
theorem availLoop_sound (d : Dir) (num : Nat) : ∀ (len b0 start count : Nat) (s : Nat),
    (0 < count → start + count = b0 ∧ ∀ j, j < count → isBlockFree (start + j) d = true) →
    availLoop d num (List.range' b0 len) start count = some s →
    s + num ≤ b0 + len ∧ ∀ j, j < num → isBlockFree (s + j) d = true := by
  intro len
  induction len with
  | zero => intro b0 start count s _ h; simp [availLoop] at h
  | succ len ih =>
    intro b0 start count s hinv h
    rw [List.range'_succ] at h
    unfold availLoop at h
    by_cases hf : isBlockFree b0 d = true
    · rw [if_pos hf] at h
      simp only [] at h
      -- the run after taking b0
      have hinv' : 0 < count + 1 → (if count = 0 then b0 else start) + (count + 1) = b0 + 1 ∧
          ∀ j, j < count + 1 → isBlockFree ((if count = 0 then b0 else start) + j) d = true := by
        intro _
        by_cases hc : count = 0
        · rw [if_pos hc]; subst hc
          refine ⟨by omega, fun j hj => ?_⟩
          have : j = 0 := by omega
          subst this; exact hf
        · rw [if_neg hc]
          obtain ⟨a, b⟩ := hinv (by omega)
          refine ⟨by omega, fun j hj => ?_⟩
          by_cases hj' : j < count
          · exact b j hj'
          · have : start + j = b0 := by omega
            rw [this]; exact hf
      by_cases hn : count + 1 = num
      · rw [if_pos hn] at h
        cases h
        obtain ⟨a, b⟩ := hinv' (by omega)
        exact ⟨by omega, fun j hj => b j (by omega)⟩
      · rw [if_neg hn] at h
        have := ih (b0 + 1) _ (count + 1) s hinv' h
        exact ⟨by omega, this.2⟩
    · rw [if_neg hf] at h
      have := ih (b0 + 1) 0 0 s (fun hc => absurd hc (by omega)) h
      exact ⟨by omega, this.2⟩

/-- completeness of the first-fit loop: a free run inside the remaining blocks (not before the current
partial run) is never missed -/
theorem availLoop_complete (d : Dir) (num : Nat) (hnum : 0 < num) : ∀ (len b0 start count : Nat) (s : Nat),
    (0 < count → start + count = b0 ∧ ∀ j, j < count → isBlockFree (start + j) d = true) → count < num →
    (if count = 0 then b0 else start) ≤ s → s + num ≤ b0 + len → (∀ j, j < num → isBlockFree (s + j) d = true) →
    (availLoop d num (List.range' b0 len) start count).isSome = true := by
  intro len
  induction len with
  | zero =>
    intro b0 start count s hinv hc hs hle _
    by_cases h0 : count = 0
    · rw [if_pos h0] at hs; omega
    · rw [if_neg h0] at hs
      obtain ⟨a, _⟩ := hinv (by omega)
      omega
  | succ len ih =>
    intro b0 start count s hinv hc hs hle hfree
    rw [List.range'_succ]
    unfold availLoop
    by_cases hf : isBlockFree b0 d = true
    · rw [if_pos hf]
      simp only []
      by_cases hn : count + 1 = num
      · rw [if_pos hn]; rfl
      · rw [if_neg hn]
        have hinv' : 0 < count + 1 → (if count = 0 then b0 else start) + (count + 1) = b0 + 1 ∧
            ∀ j, j < count + 1 → isBlockFree ((if count = 0 then b0 else start) + j) d = true := by
          intro _
          by_cases hc0 : count = 0
          · rw [if_pos hc0]; subst hc0
            refine ⟨by omega, fun j hj => ?_⟩
            have : j = 0 := by omega
            subst this; exact hf
          · rw [if_neg hc0]
            obtain ⟨a, b⟩ := hinv (by omega)
            refine ⟨by omega, fun j hj => ?_⟩
            by_cases hj' : j < count
            · exact b j hj'
            · have : start + j = b0 := by omega
              rw [this]; exact hf
        apply ih (b0 + 1) _ (count + 1) s hinv' (by omega) _ (by omega) hfree
        rw [if_neg (by omega)]
        exact hs
    · rw [if_neg hf]
      -- b0 is not free, so it is not in the run; the run cannot end before b0 (it would be shorter than `num`)
      have hb0 : ¬ (s ≤ b0 ∧ b0 < s + num) := by
        rintro ⟨a, b⟩
        have := hfree (b0 - s) (by omega)
        rw [show s + (b0 - s) = b0 by omega] at this
        exact hf this
      have hs' : b0 + 1 ≤ s := by
        by_cases h0 : count = 0
        · rw [if_pos h0] at hs; omega
        · rw [if_neg h0] at hs
          obtain ⟨a, _⟩ := hinv (by omega)
          omega
      apply ih (b0 + 1) 0 0 s (fun hc0 => absurd hc0 (by omega)) hnum _ (by omega) hfree
      rw [if_pos rfl]; exact hs'

/-! ## `is_block_free` under the invariant -/

theorem isBlockFree_iff {r : Raw} (b : Nat) :
    isBlockFree b { header := hdr r, entries := allEntries r } = true ↔
      dirEnd r ≤ b ∧ ∀ e ∈ liveEntries r, ¬ (le16 e 0 ≤ b ∧ b < le16 e 2) := by
  unfold isBlockFree
  have e1 : Hdr.endBlock ({ header := hdr r, entries := allEntries r } : Dir).header = dirEnd r := rfl
  by_cases hb : b < Hdr.endBlock ({ header := hdr r, entries := allEntries r } : Dir).header
  · rw [if_pos hb]
    rw [e1] at hb
    constructor
    · intro h; cases h
    · rintro ⟨a, _⟩; omega
  · rw [if_neg hb, List.all_eq_true]
    rw [e1] at hb
    constructor
    · intro h
      refine ⟨by omega, fun e he => ?_⟩
      have := h e he
      change (!(decide (b ≥ le16 e 0) && decide (b < le16 e 2))) = true at this
      simp only [Bool.not_eq_true', Bool.and_eq_false_iff, decide_eq_false_iff_not] at this
      omega
    · rintro ⟨_, h⟩ e he
      have := h e he
      change (!(decide (b ≥ le16 e 0) && decide (b < le16 e 2))) = true
      simp only [Bool.not_eq_true', Bool.and_eq_false_iff, decide_eq_false_iff_not]
      omega

/-- `get_available_blocks` under the invariant is the loop over all blocks of the volume -/
theorem getAvailableBlocks_inv {r : Raw} (h : Inv r) (num : Nat) :
    getAvailableBlocks r num =
      .ok (availLoop { header := hdr r, entries := allEntries r } num (List.range' 0 (total r)) 0 0) := by
  unfold getAvailableBlocks
  rw [getDirectory_inv h]
  simp only [Dir.totalBlocks, Hdr.totalBlocks, List.range_eq_range']
  rfl

end A2Verif.Fs.Pascal
