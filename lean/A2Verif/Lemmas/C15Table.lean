import A2Verif.Model.Dasm
import A2Verif.Model.Asm
/-!
Finite part of C15: one `decide +kernel` over the whole generated opcode table × processors × assembler
variants × MX × brk × the two value classes that influence control flow.
-/
namespace A2Verif.C15
open A2Verif.Gen.Opcodes A2Verif.Dasm A2Verif.Asm

def procOf : Fin 4 → Proc
  | 0 => .p6502 | 1 => .p65c02 | 2 => .p65802 | 3 => .p65816
def verOf : Fin 4 → Ver
  | 0 => .m8 | 1 => .m16 | 2 => .m16p | 3 => .m32

theorem procOf_surj (p : Proc) : ∃ i, procOf i = p := by
  cases p
  · exact ⟨0, rfl⟩
  · exact ⟨1, rfl⟩
  · exact ⟨2, rfl⟩
  · exact ⟨3, rfl⟩
theorem verOf_surj (v : Ver) : ∃ i, verOf i = v := by
  cases v
  · exact ⟨0, rfl⟩
  · exact ⟨1, rfl⟩
  · exact ⟨2, rfl⟩
  · exact ⟨3, rfl⟩

/-- the assembler prefix a rendered operand carries -/
def pfxFor (i : Info) : Pfx :=
  if snippetIsImm i.row.mode i.wide then .hash else if (i.n = 3 && abslPrefixable i.row.mnem) then .gt else .none

/-- What must hold of one table row in one configuration for the round trip of that instruction;
`b1nz`: byte 1 of the operand value (of the branch destination for relative modes) is non-zero,
`small`: the operand value is `< 0x100`. -/
def rowCheck (q : Quirks) (proc : Proc) (isM8 m8 x8 brk : Bool) (op : Nat) (b1nz small bank0 : Bool) : Bool :=
  match instrInfo ⟨proc, m8, x8, brk⟩ op with
  | none => true
  | some i =>
    let m := i.row.mnem
    let md := i.row.mode
    i.n ≤ 3 &&
    (if i.mov then
      i.n == 2 && (match opModes m with | r :: _ => r.code == op | [] => false)
    else if i.n == 0 then
      (match (opModes m).find? (fun r => r.mode == .accum || r.mode == .impl_ || r.mode == .s_) with
       | some r => r.code == op
       | none => false)
    else if modeIsRel md then
      (i.n == (if md == .rel then 1 else 2)) && !i.wide &&
      (match asmShapeB q proc isM8 m8 x8 m md.reduced .none .none b1nz with
       | .ok (r, _, _) => r.code == op && r.mode == md
       | .error _ => false)
    else
      -- value classes that cannot occur for this operand size
      if (i.n == 1 && (b1nz || !small)) || (i.n == 2 && (small == b1nz)) then true
      else
        (match asmShapeB q proc isM8 m8 x8 m md.reduced (sfxFor q m i.n small bank0) (pfxFor i) b1nz with
         | .ok (r, beg, end_) => r.code == op && beg == 0 && end_ == i.n && !(r.mode == .rel || r.mode == .rell)
         | .error _ => false))

end A2Verif.C15
