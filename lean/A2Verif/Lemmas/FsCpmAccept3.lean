import A2Verif.Lemmas.FsCpmAccept2
/-!
# `put` is accepted when it fits: the outer write loop (`extLoop`) does not fail
-/
namespace A2Verif.FsCpm
open A2Verif.Fs.Cpm
open A2Verif.Read.Cpm (Dpb fileKey extNum entryPtrs pathOf slots)

theorem extLoop_cons_none {d : Dpb} {name : Bytes} {user : Nat} {f : FImg} {maxX spe spl : Nat} {s s1 : WState} {x : Nat} {xs : List Nat}
    (hsl : slotLoop d name user f x spe spl { s with lxUsed := 0 }
      ((List.range (d.exm + 1)).flatMap (fun lx => (List.range spl).map (fun loc => (lx, loc)))) = (.ok (), s1))
    (hfx : s1.fx = none) :
    extLoop d name user f maxX spe spl s (x :: xs) = extLoop d name user f maxX spe spl s1 xs := by
  rw [extLoop]
  simp only [hsl, hfx]

theorem extLoop_cons_some {d : Dpb} {name : Bytes} {user : Nat} {f : FImg} {maxX spe spl : Nat} {s s1 : WState} {x : Nat} {xs : List Nat}
    {fx : Bytes} {dir' : Dir}
    (hsl : slotLoop d name user f x spe spl { s with lxUsed := 0 }
      ((List.range (d.exm + 1)).flatMap (fun lx => (List.range spl).map (fun loc => (lx, loc)))) = (.ok (), s1))
    (hfx : s1.fx = some fx)
    (hce : closeExtent d s1.ptr fx s1.dir (x * (d.exm + 1) + (if x + 1 < maxX then d.exm + 1 else s1.lxUsed)) (x + 1 == maxX) f = .ok dir') :
    extLoop d name user f maxX spe spl s (x :: xs) =
      extLoop d name user f maxX spe spl { s1 with dir := dir', fx := none, created := s1.created + 1 } xs := by
  rw [extLoop]
  simp only [hsl, hfx, hce]

theorem closeExtent_some {d : Dpb} {ptr : Nat} {fx : Bytes} {dir : Dir} {lxCount : Nat} {isLast : Bool} {f : FImg}
    (h1 : lxCount ≠ 0) (h2 : ptr < dir.length) : ∃ dir', closeExtent d ptr fx dir lxCount isLast f = .ok dir' := by
  unfold closeExtent
  rw [if_neg h1]
  simp only []
  rw [if_pos h2]
  exact ⟨_, rfl⟩

/-- **the outer loop does not fail** when the chunks fit the free blocks and the extents that hold chunks fit the free entries -/
theorem extLoop_progress {d : Dpb} {r : Raw} {f : FImg} {user : Nat} {name : Bytes}
    (h : Inv d r) (hd : DpbPut d) (hr : ResvOk d) (hu : user < 16) (ha : PutArgsOk d f) (hty : 3 ≤ f.fsType.length) :
    ∀ (n x : Nat) (s : WState), x + n = putMaxX d f →
      EInv d r f user (stringToFileName name).1 (stringToFileName name).2 x s → EOk d r s →
      need f (x * slots d) (n * slots d) ≤ (freeBlocks d s.dir).length →
      extNeed f (slots d) x n ≤ numFreeExtents s.dir →
      ∃ s', extLoop d name user f (putMaxX d f) (putSpe d) (putSpl d) s (List.range' x n) = (.ok (), s') ∧ EOk d r s' := by
  have ho := h.dpb
  intro n
  induction n with
  | zero =>
    intro x s _ _ hE _ _
    refine ⟨s, ?_, hE⟩
    simp only [List.range'_zero]
    rw [extLoop]
  | succ n ih =>
    intro x s hx hs hE hFB hFE
    obtain ⟨hs0, hfx0⟩ := hs
    have hs0' : SInv d r f user (stringToFileName name).1 (stringToFileName name).2 x 0 { s with lxUsed := 0 } :=
      { w := { frame := hs0.w.frame, keeps := hs0.w.keeps, len := hs0.w.len, opn := hs0.w.opn }, same := hs0.same,
        closed := hs0.closed, xinj := hs0.xinj, opn := fun fx hfx => (by rw [hfx0] at hfx; cases hfx),
        nopn := fun _ k hk => (by omega), dist := hs0.dist, cover := hs0.cover, crt := hs0.crt }
    have hE0 : EOk d r { s with lxUsed := 0 } := ⟨hE.e1, hE.nf, hE.op⟩
    have hsplit : need f (x * slots d) ((n + 1) * slots d) = need f (x * slots d) (slots d) + need f ((x + 1) * slots d) (n * slots d) := by
      rw [show (n + 1) * slots d = slots d + n * slots d by rw [Nat.succ_mul]; omega, need_add, Nat.succ_mul]
    rw [hsplit] at hFB
    have hFE0 : 0 < need f (x * slots d) (slots d) → 0 < numFreeExtents s.dir := by
      intro hp
      rw [extNeed_succ_pos hp] at hFE
      omega
    obtain ⟨s1, hsl, hE1, fb, fe1, fe0⟩ := slotLoop_progress h hd hr hu ha.2.2.1 hty (slots d) 0 { s with lxUsed := 0 } (by omega) hs0' hE0
      (by show need f (x * slots d + 0) (slots d) ≤ (freeBlocks d s.dir).length; rw [Nat.add_zero]; omega)
      (by intro _ hp; rw [Nat.add_zero] at hp; exact hFE0 hp)
    rw [Nat.add_zero] at fb fe0
    have fb' : (freeBlocks d s.dir).length ≤ (freeBlocks d s1.dir).length + need f (x * slots d) (slots d) := fb
    have fe1' : numFreeExtents s.dir ≤ numFreeExtents s1.dir + 1 := fe1
    have fe0' : need f (x * slots d) (slots d) = 0 → numFreeExtents s.dir ≤ numFreeExtents s1.dir := fun hz => fe0 (Or.inr hz)
    have hsl' : slotLoop d name user f x (putSpe d) (putSpl d) { s with lxUsed := 0 }
        ((List.range (d.exm + 1)).flatMap (fun lx => (List.range (putSpl d)).map (fun loc => (lx, loc)))) = (.ok (), s1) := by
      rw [pairs_eq _ (putSpl_pos hd), dpbPut_mul hd]; exact hsl
    have hs1 := slotLoop_sinv hd ho hr hu ha.2.2.1 (slots d) 0 _ _ (by omega) hs0' hsl
    -- the extents that remain fit the free entries
    have hrest : extNeed f (slots d) (x + 1) n ≤ numFreeExtents s1.dir := by
      by_cases hz : need f (x * slots d) (slots d) = 0
      · rw [extNeed_succ_zero hz] at hFE
        have := fe0' hz
        omega
      · rw [extNeed_succ_pos (by omega)] at hFE
        omega
    rw [List.range'_succ]
    cases hfx : s1.fx with
    | none =>
      obtain ⟨s', e1, e2⟩ := ih (x + 1) s1 (by omega) (einv_next hd hs1 hfx) hE1 (by omega) hrest
      refine ⟨s', ?_, e2⟩
      rw [extLoop_cons_none hsl' hfx]
      exact e1
    | some fx =>
      obtain ⟨o1, _, o3, _, _, k1, _, _, hlx, _⟩ := hs1.opn fx hfx
      have hpl : s1.ptr < s1.dir.length := (hs1.w.opn fx hfx).2.1
      have hl1 : 0 < s1.lxUsed := by rw [hlx]; exact Nat.succ_pos _
      obtain ⟨dir', hce⟩ := closeExtent_some (d := d) (fx := fx) (isLast := (x + 1 == putMaxX d f)) (f := f)
        (lxCount := x * (d.exm + 1) + (if x + 1 < putMaxX d f then d.exm + 1 else s1.lxUsed)) (by split <;> omega) hpl
      obtain ⟨_, _, hdir'⟩ := closeExtent_eq hce
      obtain ⟨cl, csame⟩ := closed_same o3.len
        (x * (d.exm + 1) + (if x + 1 < putMaxX d f then d.exm + 1 else s1.lxUsed) - 1)
        (if (!(x + 1 == putMaxX d f) && decide (f.eof > 0)) || (decide (f.eof % extentCapacity d = 0) && decide (f.eof > 0)) then extentCapacity d
          else f.eof % extentCapacity d) d.v3
      have hxfx : isExtent fx = true := hdr_isExtent hu o3
      have hfb2 : (freeBlocks d s1.dir).length ≤ (freeBlocks d dir').length := by
        apply freeBlocks_mono
        intro b' hb'
        rw [hdir'] at hb'
        exact Or.inl (usedPtrs_close o1 hxfx o3.len cl (fun i hi => csame i (Or.inr hi)) hb')
      have hfe2 : numFreeExtents s1.dir ≤ numFreeExtents dir' := by
        rw [hdir']
        unfold numFreeExtents
        exact filter_set_le0 _ _ _ _ _ o1 (extent_not_free hxfx)
      have hE2 : EOk d r { s1 with dir := dir', fx := none, created := s1.created + 1 } := by
        refine ⟨hE1.e1, ?_, fun fy hfy => by cases hfy⟩
        rw [hdir']
        exact eok_set hE1 (hE1.op fx hfx)
      obtain ⟨s', e1, e2⟩ := ih (x + 1) _ (by omega) (einv_close hd hu ha (by omega) hs1 hfx hce) hE2
        (by show need f ((x + 1) * slots d) (n * slots d) ≤ (freeBlocks d dir').length; omega)
        (by show extNeed f (slots d) (x + 1) n ≤ numFreeExtents dir'; omega)
      refine ⟨s', ?_, e2⟩
      rw [extLoop_cons_some hsl' hfx hce]
      exact e1

end A2Verif.FsCpm
