import A2Verif.Lemmas.FsProdosSubPut4
/-!
# `put` of a file into a first-level sub-directory that has an empty slot

`sub_put_ok`: from a state between two calls, with a listed directory, a valid fresh name, an empty slot in the
sub-directory and `blocks_needed ≤ free blocks`, `put` succeeds; after `get_img()` the state satisfies `SInv`, the reading is
the old one with the record of the new file inserted among the directory's files, the step is the abstract `put` of
`DIR/NAME`, the free list shrinks by exactly `blocks_needed`.
-/
namespace A2Verif.FsProdos
open A2Verif.Fs.Prodos
open A2Verif.Read.Prodos (entryAt dirChain idxPtr indexEntries readData trimName bitmapFree)
open A2Verif.Read.ProdosT

theorem KeyCtx.opened {d : Disk} {bm cnt K : Nat} {sch : List Nat} (c : KeyCtx d bm cnt K sch) :
    KeyCtx (openD d bm cnt) bm cnt K sch :=
  ⟨c.st.toOpen _, c.chain, c.k0, c.nb, c.kinds, c.len, c.prev⟩

/-- **`put(fimg)` into a sub-directory with an empty slot succeeds and refines the abstract `put`** -/
theorem sub_put_ok {d : Disk} (hs : SInv d) (v : Vol) (fsL : List LRec) (ch : List Nat)
    (hr : Read.ProdosT.read d.raw = .ok v) (ht : readTree d.raw (hdrTotal d.raw) = .ok (fsL, ch))
    (dn : Bytes) (B k : Nat) (sch : List Nat) (sd : SubDir d v fsL ch dn B k sch) (hv : isNameValid dn = true)
    (hp : ParentOk (volName (hdrOf d.raw)) dn)
    (f : FImg) (time nm : Bytes) (pk : PutOk f time)
    (hnodes : normalizePath (volName (hdrOf d.raw)) f.fullPath = .ok [volName (hdrOf d.raw), dn, nm]) (hnm : nm ≠ [])
    (hvn : isNameValid nm = true)
    (hnone : (dirSlots d.raw (le16 (entryAt (unitAt d.raw B) k 39) 17) sch).find? (isHit allTypes nm) = none)
    (x : Bytes × Nat × Nat) (hslot : (dirSlots d.raw (le16 (entryAt (unitAt d.raw B) k 39) 17) sch).find? isFreeSlot = some x)
    (hfit : blocksNeeded f ≤ v.freeUnits.length) :
    ∃ d3 d4 v4, put f time repaired d = (.ok f.eof, d3) ∧ d3.flush = (.ok (), d4) ∧ SInv d4 ∧
      Read.ProdosT.read d4.raw = .ok v4 ∧
      stepOk pdParams v (.put (upper dn ++ [47] ++ upper nm) f.chunks f.eof (f.fsType.getD 0 0)
        (f.aux.getD 0 0 + 256 * f.aux.getD 1 0)) true v4 = true ∧
      v4.label = v.label ∧ v4.freeUnits.length + blocksNeeded f = v.freeUnits.length := by
  obtain ⟨v', fsL', ch', hr', ht', c, hts, heff, hbsz, hbok⟩ := hs.ctx
  have e1 : v' = v := by rw [hr] at hr'; injection hr' with h; exact h.symm
  subst e1
  have e2 : fsL' = fsL ∧ ch' = ch := by
    rw [ht] at ht'; injection ht' with h; injection h with h1 h2; exact ⟨h1.symm, h2.symm⟩
  obtain ⟨rfl, rfl⟩ := e2
  obtain ⟨hw, hn, hroot, hvv, hcr, hic, hnd, hchf, h2, h6, h3, hbt, hstv⟩ := root_chain_facts hs.inv v' fsL' ch' hr ht
  obtain ⟨w1, w2, w3, w4, w5, w6, w7⟩ := wfB_iff.1 hw
  have hsz := hs.inv.size
  have hshape := hs.inv.shape
  obtain ⟨ex, hex⟩ : ∃ ex, ex = entryAt (unitAt d.raw B) k 39 := ⟨_, rfl⟩
  have hxm := sd.xm
  have hd := sd.hd
  have hc := sd.hc
  have hschf := sd.facts
  have sc := sd.sc
  have hpfx := sd.pfx
  obtain ⟨hnl, hgeo, hprev, hlen, hhdr, hp1, hp2, hslots⟩ := sd.tail
  rw [← hex] at hxm hd hc hnone hslot hgeo sc hpfx
  simp only at hgeo
  have hKm : le16 ex 0x11 ∈ sch := sc.mem
  have h2s : 2 ∉ sch := fun h => (hschf 2 h).2.1 h2
  -- the free list
  have hfreeU : v'.freeUnits = (List.range d.total).filter (freeB (effBuf d (hdrBm d.raw) (nbmOf (hdrTotal d.raw)))) := by
    rw [hvv, heff, hts]
  have hfree_iff : ∀ u, u ∈ v'.freeUnits ↔ u < d.total ∧ freeB (effBuf d (hdrBm d.raw) (nbmOf (hdrTotal d.raw))) u = true := by
    intro u; rw [hfreeU, List.mem_filter, List.mem_range]
  have hsys_ch : ∀ b ∈ ch', b ∈ v'.sys := fun b hb => (hchf b hb).2.2.2
  have hsys_bm : ∀ b ∈ bmRange (hdrBm d.raw) (nbmOf (hdrTotal d.raw)), b ∈ v'.sys := by
    intro b hb
    rw [hvv]; simp only
    rw [mem_bmRange] at hb
    apply List.mem_append_right
    rw [List.mem_map]; exact ⟨b - hdrBm d.raw, List.mem_range.mpr (by omega), by omega⟩
  have hsys0 : 0 ∈ v'.sys := by rw [hvv]; simp
  have hfreeOrd : ∀ b, b < d.total → freeB (effBuf d (hdrBm d.raw) (nbmOf (hdrTotal d.raw))) b = true →
      b ∉ bmRange (hdrBm d.raw) (nbmOf (hdrTotal d.raw)) ∧ b ∉ sch ∧ b ≠ 2 := by
    intro b hb hf
    have hbf : b ∈ v'.freeUnits := (hfree_iff b).mpr ⟨hb, hf⟩
    exact ⟨fun h => w4 b (hsys_bm b h) hbf, fun h => w3 b (hschf b h).1 hbf, fun e => w4 b (e ▸ hsys_ch 2 h2) hbf⟩
  have hzero : freeB (effBuf d (hdrBm d.raw) (nbmOf (hdrTotal d.raw))) 0 = false := by
    cases h0 : freeB (effBuf d (hdrBm d.raw) (nbmOf (hdrTotal d.raw))) 0 with
    | false => rfl
    | true => exact absurd ((hfree_iff 0).mpr ⟨by rw [← hts]; omega, h0⟩) (w4 0 hsys0)
  have htot16 : d.total ≤ 65535 := by
    rw [← hts]; unfold hdrTotal
    have := le16_lt (unitAt d.raw 2) 41 (hshape.unit c.two_lt).2
    omega
  -- the slot
  obtain ⟨hym, hxfree⟩ := mem_find hslot
  obtain ⟨B', hB', k', hk13', hkey', rfl⟩ := mem_dirSlots.mp hym
  obtain ⟨ey, hey⟩ : ∃ ey, ey = entryAt (unitAt d.raw B') k' 39 := ⟨_, rfl⟩
  rw [← hey] at hym hslot hxfree
  have hx0 : ey.getD 0 0 = 0 := by
    unfold isFreeSlot Ent.isActive Ent.storLen at hxfree
    simpa using hxfree
  have hinact : isAct (ey, B', k' + 1) = false := by
    unfold isAct; simp only [hx0]; decide
  obtain ⟨hsplit, hs1, hs2, hfs2, hfiles, hdisj, hxnd, hxown, hall, hcnt0⟩ :=
    slot_split_facts hs.inv v' fsL' ch' hr ht _ hxm
  simp only at hsplit hs1 hs2 hfs2 hfiles hdisj hxnd hxown
  obtain ⟨htsplit, g1, g2, hgx, hsdis, hyown, hschown, hynd, hsall, hscnt0⟩ :=
    sub_slot_facts hs.inv v' fsL' ch' hr ht (ex, B, k + 1) hxm hd sch hc hgeo (ey, B', k' + 1) hym
  simp only at htsplit g1 g2 hgx hsdis hyown hsall hscnt0
  have hgy : slotRecs 68 d.raw (hdrTotal d.raw) (baseRec ex []).path 1 (ey, B', k' + 1) = [] := by
    unfold slotRecs; rw [hinact]; rfl
  rw [hgy, List.append_nil] at hgx
  -- the count of files
  have hcount : le16 (unitAt d.raw (le16 ex 0x11)) 37 + 1 ≤ 65535 := by
    rw [← hscnt0]
    have h1 := List.length_filter_le isAct (dirSlots d.raw (le16 ex 0x11) sch)
    have h2' := dirSlots_length_le d.raw (le16 ex 0x11) sch
    omega
  -- a free block exists
  have hbn1 : 1 ≤ blocksNeeded f := by
    rw [blocksNeeded_eq f pk.keys]
    have h1 := pk.end_pos
    by_cases he : f.end_ = 1
    · have : dataCount f 1 = 1 := by rw [dataCount_succ, dataCount_zero, pk.first he]; rfl
      rw [he, allocCount_small f 1 (by omega), this]; omega
    · have := allocCount_mono f (show 2 ≤ f.end_ by omega)
      rw [allocCount_small f 2 (by omega), if_pos (by omega)] at this
      omega
  have hfitF : blocksNeeded f ≤ (freeBlocks (effBuf d (hdrBm d.raw) (nbmOf (hdrTotal d.raw))) d.total).length := by
    unfold freeBlocks; rw [← hfreeU]; exact hfit
  obtain ⟨nb, hfind⟩ : ∃ nb, (List.range d.total).find? (freeB (effBuf d (hdrBm d.raw) (nbmOf (hdrTotal d.raw)))) = some nb := by
    cases hf : (List.range d.total).find? (freeB (effBuf d (hdrBm d.raw) (nbmOf (hdrTotal d.raw)))) with
    | some nb => exact ⟨nb, rfl⟩
    | none =>
      exfalso
      have : freeBlocks (effBuf d (hdrBm d.raw) (nbmOf (hdrTotal d.raw))) d.total = [] := by
        unfold freeBlocks
        rw [List.filter_eq_nil_iff]
        intro a ha; exact List.find?_eq_none.mp hf a ha
      rw [this] at hfitF; simp at hfitF; omega
  obtain ⟨acc, hacc, hacc256, hua⟩ := pk.access
  have htot0 : d.total ≠ 0 := by rw [← hts]; omega
  have hcover : d.total ≤ 8 * (effBuf d (hdrBm d.raw) (nbmOf (hdrTotal d.raw))).size := by
    rw [heff, hbsz, ← hts]; unfold nbmOf blockSize; omega
  have hnbl : nb < d.total := List.mem_range.mp (List.mem_of_find?_eq_some hfind)
  -- `prepare_to_write`
  have hprep : prepareToWrite f.fullPath d =
      (.ok (nm, le16 ex 0x11, { block := B', idx := k' + 1 }, nb), openD d (hdrBm d.raw) (nbmOf (hdrTotal d.raw))) := by
    rw [prepare_sub c sd hv hp f.fullPath nm hnodes hnm]
    simp only [hvn, Bool.not_true, Bool.false_eq_true, ↓reduceIte]
    rw [← hex, hnone]
    simp only []
    have hav := availEntryLoop_key d _ _ c.st (le16 ex 0x11) sch 100 (le16 ex 0x11) sc.chain sc.k0 sc.nb sc.kinds sc.len
    rw [hslot] at hav
    unfold getAvailableEntry
    rw [bind_ok _ _ d d _ hav, bind_ok _ _ d _ _ (getAvailableBlock_st c.st htot0 hcover), hfind]
    simp only [Option.map_some]
    rw [Nat.mod_eq_of_lt (by omega)]
    rfl
  -- the model
  obtain ⟨d2, e0, s, dc, Al, d3, hput, ctx, hraw2, hf2, ne, hres, ha, hBAl, n3⟩ :=
    put_rest_key (d := d) (dp := openD d (hdrBm d.raw) (nbmOf (hdrTotal d.raw))) sc.opened h2s hs.src htot0 htot16 hs.total
      (by show (effBuf d _ _).size = _; rw [heff]; exact hbsz) hcover (by show BytesOk (effBuf d _ _); rw [heff]; exact hbok)
      hshape hfreeOrd hzero f time nm pk hvn B' k' hB' hk13' hkey' nb hfind hprep hfitF hcount acc hacc hacc256
  have hraw2' : d2.raw = setUnit (setUnit d.raw (le16 ex 0x11)
      (patched (unitAt d.raw (le16 ex 0x11)) 37 (u16le (le16 (unitAt d.raw (le16 ex 0x11)) 37 + 1)))) B'
        (patched (if B' = le16 ex 0x11 then patched (unitAt d.raw (le16 ex 0x11)) 37 (u16le (le16 (unitAt d.raw (le16 ex 0x11)) 37 + 1))
          else unitAt d.raw B') (4 + k' * 39) e0) := hraw2
  have hf2' : ∀ j, freeB (effBuf d2 (hdrBm d.raw) (nbmOf (hdrTotal d.raw))) j =
      freeB (effBuf d (hdrBm d.raw) (nbmOf (hdrTotal d.raw))) j := hf2
  have n3' : Next d d3 (hdrBm d.raw) (nbmOf (hdrTotal d.raw))
      (setUnit dc.raw B' (patched (unitAt d2.raw B') (4 + k' * 39) (Ent.setAccess (Ent.setEof s.entry f.eof) acc)))
      (clearBit (effBuf dc (hdrBm d.raw) (nbmOf (hdrTotal d.raw))) B') := ⟨n3.st, n3.raw, n3.eff, n3.total, n3.src⟩
  have htot2 : d2.total = d.total := by
    have := ctx.totsz; rw [hraw2', setUnit_size, setUnit_size, ← hs.total] at this; exact this
  -- the blocks taken were free, hence ordinary blocks outside the directories and outside every file
  have hAlfree : ∀ u ∈ Al, u ∈ v'.freeUnits := by
    intro u hu
    obtain ⟨h1, h2'⟩ := ha.alfree u hu
    rw [hf2'] at h1; rw [htot2] at h2'
    exact (hfree_iff u).mpr ⟨h2', h1⟩
  have hAlch : ∀ b ∈ ch', b ∉ Al := fun b hb hm => w4 b (hsys_ch b hb) (hAlfree b hm)
  have hAlsch : ∀ b ∈ sch, b ∉ Al := fun b hb hm => w3 b (hschf b hb).1 (hAlfree b hm)
  have hBsz' : B' < d.raw.units.size := (hschf B' hB').2.2.2.1
  have hu2B : unitAt d2.raw B' = patched (if B' = le16 ex 0x11 then
      patched (unitAt d.raw (le16 ex 0x11)) 37 (u16le (le16 (unitAt d.raw (le16 ex 0x11)) 37 + 1))
      else unitAt d.raw B') (4 + k' * 39) e0 := by
    rw [hraw2']; unfold unitAt
    rw [setUnit_self _ _ _ (by rw [setUnit_size]; exact hBsz')]; rfl
  rw [hu2B] at n3'
  -- the record
  obtain ⟨g, st, fe, hst12, hrf, hgch, hgnd, hgown, hAllen, hkeyok, hclean, hkeyAl⟩ :=
    put_file_rec' ctx pk ne hres acc hacc256
      (setUnit dc.raw B' (patched (patched (if B' = le16 ex 0x11 then
        patched (unitAt d.raw (le16 ex 0x11)) 37 (u16le (le16 (unitAt d.raw (le16 ex 0x11)) 37 + 1))
        else unitAt d.raw B') (4 + k' * 39) e0) (4 + k' * 39) (Ent.setAccess (Ent.setEof s.entry f.eof) acc)))
      (fun j hj => setUnit_other _ _ _ _ (fun e => hBAl (e ▸ hj))) (baseRec ex []).path
  rw [htot2, ← hts] at hrf hkeyok
  -- the image
  obtain ⟨hpatch, hout, hshape3, hcnt3, he3, _, hsz3⟩ :=
    put_image_key (r := d.raw) (dcr := dc.raw) (K := le16 ex 0x11) (ch := sch) (Al := Al) (B := B') (k := k') e0
      (Ent.setAccess (Ent.setEof s.entry f.eof) acc)
      hshape (fun b hb => (hschf b hb).2.2.2.1) hB' hKm hk13' hkey' ne.len fe.len fe.bytes (by omega)
      (by rw [ha.rawsz, hraw2', setUnit_size, setUnit_size]) ha.shape hAlsch
      (fun j hj => by rw [ha.rawoth j hj, hraw2'])
  obtain ⟨r3, hr3⟩ : ∃ r3, r3 = setUnit dc.raw B' (patched (patched (if B' = le16 ex 0x11 then
        patched (unitAt d.raw (le16 ex 0x11)) 37 (u16le (le16 (unitAt d.raw (le16 ex 0x11)) 37 + 1))
        else unitAt d.raw B') (4 + k' * 39) e0) (4 + k' * 39) (Ent.setAccess (Ent.setEof s.entry f.eof) acc)) := ⟨_, rfl⟩
  rw [← hr3] at hrf hclean n3'
  simp only [← hr3] at hpatch hout hshape3 hcnt3 he3 hsz3
  obtain ⟨ef, hef⟩ : ∃ ef, ef = Ent.setAccess (Ent.setEof s.entry f.eof) acc := ⟨_, rfl⟩
  rw [← hef] at fe hrf hkeyok hclean hkeyAl he3
  have hst' : ef.getD 0 0 / 16 = 1 ∨ ef.getD 0 0 / 16 = 2 ∨ ef.getD 0 0 / 16 = 3 := by
    rw [fe.st]; exact hst12
  have hact' : isAct (ef, B', k' + 1) = true := by
    unfold isAct; simp only [ne_eq, decide_eq_true_eq]; rw [fe.st]; rcases hst12 with h | h | h <;> omega
  have hRE3 := RE_file_of 68 r3 (hdrTotal d.raw) (baseRec ex []).path 1 (ef, B', k' + 1) g hst' hkeyok hrf
  have hsr3 : slotRecs 68 r3 (hdrTotal d.raw) (baseRec ex []).path 1 (ef, B', k' + 1) = [(g, B', k' + 1)] := by
    unfold slotRecs; rw [if_pos hact', hRE3]; rfl
  have hcnt3' : le16 (unitAt r3 (le16 ex 0x11)) 37 =
      ((sBefore (dirSlots d.raw (le16 ex 0x11) sch) (B', k' + 1) ++ (ef, B', k' + 1) ::
        sAfter (dirSlots d.raw (le16 ex 0x11) sch) (B', k' + 1)).filter isAct).length := by
    rw [hcnt3, ← hscnt0]
    conv => lhs; rw [htsplit]
    rw [filter_length_mid, filter_length_mid, hinact, hact']
    simp
    omega
  -- the buffer
  have hBused : freeB (effBuf dc (hdrBm d.raw) (nbmOf (hdrTotal d.raw))) B' = false := by
    rw [ha.bufeq B', hf2']
    rw [heff, (hschf B' hB').2.2.2.2.2.2.2]; rfl
  have hcovB : B' / 8 < (effBuf dc (hdrBm d.raw) (nbmOf (hdrTotal d.raw))).size := by
    rw [ha.bufsz, ctx.bsz]; exact cover_of_lt (hschf B' hB').2.2.1
  have hf3 : ∀ j, freeB (clearBit (effBuf dc (hdrBm d.raw) (nbmOf (hdrTotal d.raw))) B') j =
      (freeB (effBuf d (hdrBm d.raw) (nbmOf (hdrTotal d.raw))) j && !Al.contains j) := by
    intro j; rw [freeB_clearBit_used _ B' ha.bufok hcovB hBused j, ha.bufeq j, hf2' j]
  have hbs3 : (clearBit (effBuf dc (hdrBm d.raw) (nbmOf (hdrTotal d.raw))) B').size = blockSize * nbmOf (hdrTotal d.raw) := by
    rw [size_clearBit, ha.bufsz, ctx.bsz]
  have hbok3 := bytesOk_clearBit _ B' ha.bufok
  -- the reading
  obtain ⟨hrd4, htree4, htot4, hbm4, hsz4, hshape4, hgeo4, hprev4, hslotok4, hnames4, hsame4⟩ :=
    sub_patched_reading hs.inv v' fsL' ch' hr ht ex B k hxm hd sch hc ey B' k' hym Al hpatch
      (fun b hb' => hout b (fun hm => (hschf b hm).2.1 hb') (hAlch b hb'))
      (fun j _ hjs hjo => hout j hjs hjo)
      (fun u hu => Or.inl (fun h => w3 u h (hAlfree u hu))) hshape3 _ _ rfl rfl _ _ rfl rfl _ he3.symm hcnt3' (fun _ => ⟨_, hRE3⟩)
      (fun j hj => by
        rw [hsr3]
        simp only [List.map_cons, List.map_nil, List.flatMap_cons, List.flatMap_nil, List.append_nil]
        intro hjo
        exact w4 j (hsys_bm j hj) (hAlfree j ((hgown j).mp hjo)))
      _ hbs3 hbok3 _ rfl _ rfl
  rw [hsr3] at hrd4 htree4
  -- well-formedness of the new volume
  have hfree4 : ∀ u, u ∈ (List.range (hdrTotal d.raw)).filter (freeB (clearBit (effBuf dc (hdrBm d.raw) (nbmOf (hdrTotal d.raw))) B')) ↔
      (u ∈ v'.freeUnits ∧ u ∉ g.owned) := by
    intro u
    rw [List.mem_filter, List.mem_range, hf3 u, hfree_iff u, hts, hgown u]
    simp only [Bool.and_eq_true, Bool.not_eq_true', List.contains_eq_mem, decide_eq_false_iff_not]
    constructor
    · rintro ⟨a, b, c⟩; exact ⟨⟨a, b⟩, c⟩
    · rintro ⟨⟨a, b⟩, c⟩; exact ⟨a, b, c⟩
  have hgpath : g.path = upper dn ++ [47] ++ upper nm := by
    obtain ⟨hp', _⟩ := readFile_rec_fields _ _ _ _ _ hrf
    rw [hp', hpfx, baseRec_path_pfx _ _ (upper_ne_nil hv), fe.name]
  obtain ⟨FA, hFA⟩ : ∃ FA, FA = ((sBefore (dirSlots d.raw 2 ch') (B, k + 1)).flatMap (slotRecs 69 d.raw (hdrTotal d.raw) [] 0)).map (·.1) ++
      dirRec ex [] sch :: ((sBefore (dirSlots d.raw (le16 ex 0x11) sch) (B', k' + 1)).flatMap
        (slotRecs 68 d.raw (hdrTotal d.raw) (baseRec ex []).path 1)).map (·.1) := ⟨_, rfl⟩
  obtain ⟨FB, hFB⟩ : ∃ FB, FB = ((sAfter (dirSlots d.raw (le16 ex 0x11) sch) (B', k' + 1)).flatMap
        (slotRecs 68 d.raw (hdrTotal d.raw) (baseRec ex []).path 1)).map (·.1) ++
      ((sAfter (dirSlots d.raw 2 ch') (B, k + 1)).flatMap (slotRecs 69 d.raw (hdrTotal d.raw) [] 0)).map (·.1) := ⟨_, rfl⟩
  have hfiles' : v'.files = FA ++ FB := by
    rw [hfiles, hgx, hFA, hFB]
    simp only [List.map_cons, List.map_append, List.map_nil, List.append_assoc, List.cons_append, List.nil_append]
  obtain ⟨v4, hv4⟩ : ∃ v4 : Vol, v4 = {
      lo := 0
      hi := hdrTotal d.raw
      sys := v'.sys
      files := ((sBefore (dirSlots d.raw 2 ch') (B, k + 1)).flatMap (slotRecs 69 d.raw (hdrTotal d.raw) [] 0) ++
        ((dirRec ex [] sch, B, k + 1) :: ((sBefore (dirSlots d.raw (le16 ex 0x11) sch) (B', k' + 1)).flatMap
            (slotRecs 68 d.raw (hdrTotal d.raw) (baseRec ex []).path 1) ++
          [(g, B', k' + 1)] ++
          (sAfter (dirSlots d.raw (le16 ex 0x11) sch) (B', k' + 1)).flatMap
            (slotRecs 68 d.raw (hdrTotal d.raw) (baseRec ex []).path 1))) ++
        (sAfter (dirSlots d.raw 2 ch') (B, k + 1)).flatMap (slotRecs 69 d.raw (hdrTotal d.raw) [] 0)).map (·.1)
      freeUnits := (List.range (hdrTotal d.raw)).filter (freeB (clearBit (effBuf dc (hdrBm d.raw) (nbmOf (hdrTotal d.raw))) B'))
      label := v'.label } := ⟨_, rfl⟩
  rw [← hv4] at hrd4
  have hfiles4 : v4.files = FA ++ g :: FB := by
    rw [hv4, hFA, hFB]
    simp only [List.map_cons, List.map_append, List.map_nil, List.append_assoc, List.cons_append, List.nil_append]
  have hfree4' : v4.freeUnits = (List.range (hdrTotal d.raw)).filter (freeB (clearBit (effBuf dc (hdrBm d.raw) (nbmOf (hdrTotal d.raw))) B')) := by
    rw [hv4]
  have hfresh := sub_path_not_listed hs v' fsL' ch' hr ht dn B k sch sd hv nm hvn (by rw [← hex]; exact hnone)
  obtain ⟨hw4, hn4⟩ := vol_insert (v := v') (v' := v4) (g := g) hw hn hfiles' hfiles4
    (by rw [hv4, hvv]) (by rw [hv4, hvv]) (by rw [hv4])
    (by rw [hfree4']; exact List.Nodup.sublist List.filter_sublist List.nodup_range) (by rw [hfree4']; exact hfree4)
    (fun u hu => hAlfree u ((hgown u).mp hu)) hgnd
    (by rw [hgpath]; exact hfresh)
    (by rw [hgch]; unfold chunksQ; rw [List.map_map]; exact pk.keys)
  -- the invariant
  have hnewok : FileSlotOk (wbRaw r3 (hdrBm d.raw) (nbmOf (hdrTotal d.raw))
      (clearBit (effBuf dc (hdrBm d.raw) (nbmOf (hdrTotal d.raw))) B')) (ef, B', k' + 1) := by
    refine Or.inr ⟨hst', by rw [fe.access]; exact hua, ?_⟩
    intro h3'
    simp only at h3' ⊢
    rw [fe.st] at h3'
    have hcl := hclean h3'
    have hkb : le16 ef 0x11 ∉ bmRange (hdrBm d.raw) (nbmOf (hdrTotal d.raw)) := by
      intro hm
      exact w4 _ (hsys_bm _ hm) (hAlfree _ hkeyAl)
    rw [unitAt_congr (hsame4 _ hkb)]
    exact hcl
  have hinv4 : Inv (wbRaw r3 (hdrBm d.raw) (nbmOf (hdrTotal d.raw))
      (clearBit (effBuf dc (hdrBm d.raw) (nbmOf (hdrTotal d.raw))) B')) :=
    ⟨hshape4, by rw [htot4, hsz4]; exact hsz, v4, _, ch', hrd4, by rw [htot4]; exact htree4, hw4, hn4, hgeo4, hprev4, hroot.len,
      hslotok4 hnewok, hnames4⟩
  have hlen3 : ∀ i ∈ bmRange (hdrBm d.raw) (nbmOf (hdrTotal d.raw)), (unitAt r3 i).length = blockSize := by
    intro i hi
    exact (hshape3.unit (by rw [hsz3]; exact c.st.exist i hi)).1
  obtain ⟨d4, hfl4, hraw4, hs4⟩ := close_op hs _ _ n3' hbs3 hlen3 hinv4 hbm4 hsz4
  refine ⟨d3, d4, v4, hput, hfl4, hs4, by rw [hraw4]; exact hrd4, ?_, by rw [hv4], ?_⟩
  · obtain ⟨_, hgd, _, _, hgft, hgaux, hgeof⟩ := readFile_rec_fields _ _ _ _ _ hrf
    apply stepOk_put_mid (P := pdParams) (g := g)
      hw hw4 hfresh hfiles' hfiles4 hgpath
      (by rw [hgch]; exact chunksMatch_map f.chunks pk.clen) hgd (by rw [hgeof, fe.eof]; rfl)
      (fun _ => by rw [hgft, fe.ftype]) (fun _ => by rw [hgaux, fe.aux])
      (fun u hu => hAlfree u ((hgown u).mp hu))
  · -- the free list shrinks by the blocks taken
    rw [hfree4']
    have hfun : (List.range (hdrTotal d.raw)).filter (freeB (clearBit (effBuf dc (hdrBm d.raw) (nbmOf (hdrTotal d.raw))) B')) =
        (List.range (hdrTotal d.raw)).filter (fun j => freeB (effBuf d (hdrBm d.raw) (nbmOf (hdrTotal d.raw))) j && !Al.contains j) := by
      apply List.filter_congr; intro j _; exact hf3 j
    have hfreeU' : v'.freeUnits = (List.range (hdrTotal d.raw)).filter (freeB (effBuf d (hdrBm d.raw) (nbmOf (hdrTotal d.raw)))) := by
      rw [hvv, heff]
    rw [hfun, ← hAllen, hfreeU']
    exact filter_sub_length _ _ Al ha.alnd (fun b hb => by
      obtain ⟨h1, h2'⟩ := ha.alfree b hb
      rw [hf2'] at h1; rw [htot2, ← hts] at h2'
      exact ⟨h1, h2'⟩)

end A2Verif.FsProdos
