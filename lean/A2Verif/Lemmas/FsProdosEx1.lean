import A2Verif.Props.FsProdos
/-!
Kernel-evaluated instance for the ProDOS invariant: the volume `format` makes of a blank 10-block image satisfies `SInv`
(one evaluation, ≈ 1 min); the non-vacuity examples of the theorems that assume `SInv` instantiate it.
-/
namespace A2Verif.FsProdos
open A2Verif.Fs.Prodos

set_option maxRecDepth 100000 in
/-- `format` establishes the invariant: the disk object after `format("VERIF")` of a blank 10-block image and `get_img()`
satisfies `SInv` — `Inv` of the image, buffer closed (kernel evaluation; the harness ties `format` byte for byte on 280, 800,
1600 and 4096 blocks; a proof for every size is not done) -/
theorem formatted10_sinv : SInv (formatted 10) := by decide +kernel

/-- `format` establishes the invariant (the executable check `InvB` follows from `Inv`) -/
theorem format_establishes_inv_small : InvB (formatted 10).raw = true := inv_invB formatted10_sinv.inv

/-! non-vacuity of the theorems that assume `SInv` / `Inv` -/

example : ∃ v, Read.ProdosT.read (formatted 10).raw = .ok v ∧ v.wfB = true ∧ v.noLeak = true :=
  prodos_inv_reading formatted10_sinv.inv

example : ∃ d', (formatted 10).flush = (.ok (), d') ∧ d'.raw = (formatted 10).raw ∧ SInv d' :=
  prodos_get_img_keeps_image formatted10_sinv

example : ∃ v d', Read.ProdosT.read (formatted 10).raw = .ok v ∧ statFree (formatted 10) = (.ok v.free, d') ∧ SInv d' ∧
    d'.raw = (formatted 10).raw := prodos_stat_free_inv formatted10_sinv

example : getBitmap (formatted 10) = (.ok (bufOf (formatted 10).raw (hdrBm (formatted 10).raw) (nbmOf (formatted 10).total)),
    openD (formatted 10) (hdrBm (formatted 10).raw) (nbmOf (formatted 10).total)) := prodos_open_loads_image formatted10_sinv

/-- the hypotheses of `prodos_delete_refines_name` are met by the formatted volume and the name `a.b` -/
example : ∃ res d1 d4 v v4, delete (str "a.b") repaired (formatted 10) = (res, d1) ∧ d1.flush = (.ok (), d4) ∧ SInv d4 ∧
    Read.ProdosT.read (formatted 10).raw = .ok v ∧ Read.ProdosT.read d4.raw = .ok v4 ∧
    stepOk prodosParams v (.delete (upper (str "a.b"))) (match res with | .ok _ => true | .error _ => false) v4 = true ∧
    v4.label = v.label :=
  prodos_delete_refines_name formatted10_sinv (str "a.b") (by decide) (by decide) (by decide)

/-- a sparse file image of three chunk positions (a sapling with a hole) -/
def exF : FImg :=
  { fullPath := str "a", fsType := [6], aux := [0, 0x20], access := [0xC3], eof := 1100,
    chunks := [(0, chunkOf 1 512), (2, chunkOf 3 76)] }

theorem exF_args : PutArgs exF exTime :=
  ⟨by decide, by decide +kernel, by decide +kernel, by decide, by decide, by decide, by decide, by decide,
    by intro a h; have : a = 0xC3 := by simpa [exF] using h.symm
       subst this; decide,
    by decide⟩

/-- a history of volume-directory operations addressed by simple names on the formatted volume: the hypotheses of
`prodos_history_refines` and of its corollaries are satisfiable -/
def exOps : List VOp :=
  [.put exF exTime, .mkdir (str "d") exTime, .lock (str "a"), .delete (str "d"), .delete (str "b"), .unlock (str "c.d"),
   .retype (str "c.d") (some 4) (some 0), .retype (str "c.d") none (some 0)]

theorem exOps_root : ∀ op ∈ exOps, op.Ok (volName (hdrOf (formatted 10).raw)) := by
  intro op hop
  simp only [exOps, List.mem_cons, List.not_mem_nil, or_false] at hop
  rcases hop with rfl | rfl | rfl | rfl | rfl | rfl | rfl | rfl <;>
    exact ⟨Or.inl (rootPath_simple _ _ (by decide) (by decide) (by decide)),
      fun p t a h => (by cases h <;> omega),
      fun f t h => (by cases h <;> exact exF_args),
      fun p t h => (by cases h <;> exact ⟨by decide, by decide⟩)⟩

/-- no `rename` in the history -/
theorem exOps_ren : RenFiles (volName (hdrOf (formatted 10).raw)) (formatted 10) exOps :=
  renFiles_of_no_rename _ exOps _ (by
    intro op hop p n
    simp only [exOps, List.mem_cons, List.not_mem_nil, or_false] at hop
    rcases hop with rfl | rfl | rfl | rfl | rfl | rfl | rfl | rfl <;> intro h <;> cases h)

/-- the hypotheses of `prodos_mkdir_refines` are met -/
example : Refines (formatted 10) (mkdir (str "d") exTime (formatted 10)) (.mkdir (upper (upper (str "d")))) :=
  prodos_mkdir_refines formatted10_sinv (str "d") exTime (upper (str "d")) ⟨by decide, by decide⟩
    (normalizePath_simple _ _ (by decide) (by decide) (by decide) (volName_len _)) (by decide)

/-- the hypotheses of `put_refines'` are met -/
example : Refines (formatted 10) (put exF exTime repaired (formatted 10))
    (.put (upper (upper (str "a"))) exF.chunks exF.eof 6 (0 + 256 * 0x20)) :=
  put_refines' formatted10_sinv exF exTime (upper (str "a")) exF_args
    (normalizePath_simple _ _ (by decide) (by decide) (by decide) (volName_len _)) (by decide)

example : validFrom prodosParams (volOf (formatted 10).raw) (trace (volName (hdrOf (formatted 10).raw)) (formatted 10) exOps) ∧
    SInv (finalDisk (formatted 10) exOps) :=
  ⟨(prodos_history_refines exOps _ formatted10_sinv exOps_root exOps_ren).1, (prodos_history_refines exOps _ formatted10_sinv exOps_root exOps_ren).2.1⟩

example : Inv (finalDisk (formatted 10) exOps).raw := (prodos_states_well_formed exOps _ formatted10_sinv exOps_root exOps_ren).2

example (q : Bytes) : q ∈ (volOf (finalDisk (formatted 10) exOps).raw).paths ↔
    q ∈ foldPaths (volOf (formatted 10).raw).paths (trace (volName (hdrOf (formatted 10).raw)) (formatted 10) exOps) :=
  (prodos_listing_is_history_fold exOps _ formatted10_sinv exOps_root exOps_ren q).1

example : Refines (formatted 10) (Fs.Prodos.rename (str "a") (str "b") (formatted 10)) (.rename (upper (upper (str "a"))) (upper (str "b"))) :=
  prodos_rename_refines formatted10_sinv (str "a") (upper (str "a")) (str "b")
    (normalizePath_simple _ _ (by decide) (by decide) (by decide) (volName_len _)) (by decide)
    (notVol_simple _ _ (by decide) (by decide))
    (by
      have : (volOf (formatted 10).raw).lookup (upper (upper (str "a"))) = none := by decide +kernel
      intro f hf; rw [this] at hf; cases hf)

end A2Verif.FsProdos
