import A2Verif.Props.FsProdos
/-!
Kernel-evaluated instance for the ProDOS invariant: the volume `format` makes of a blank 10-block image satisfies `SInv`
(one evaluation, ≈ 1 min); the non-vacuity examples of the theorems that assume `SInv` instantiate it.
-/
namespace A2Verif.FsProdos
open A2Verif.Fs.Prodos

set_option maxRecDepth 100000 in
/-- `format` establishes the invariant: the disk object after `format("VERIF")` of a blank 10-block image and `get_img()`
satisfies `SInv` — `Inv` of the image, buffer closed (kernel evaluation; the harness ties `format` byte for byte on 280, 800,
1600 and 4096 blocks; a proof for every size is not done) -/
theorem formatted10_sinv : SInv (formatted 10) := by decide +kernel

/-- `format` establishes the invariant (the executable check `InvB` follows from `Inv`) -/
theorem format_establishes_inv_small : InvB (formatted 10).raw = true := inv_invB formatted10_sinv.inv

/-! non-vacuity of the theorems that assume `SInv` / `Inv` -/

example : ∃ v, Read.ProdosT.read (formatted 10).raw = .ok v ∧ v.wfB = true ∧ v.noLeak = true :=
  prodos_inv_reading formatted10_sinv.inv

example : ∃ d', (formatted 10).flush = (.ok (), d') ∧ d'.raw = (formatted 10).raw ∧ SInv d' :=
  prodos_get_img_keeps_image formatted10_sinv

example : ∃ v d', Read.ProdosT.read (formatted 10).raw = .ok v ∧ statFree (formatted 10) = (.ok v.free, d') ∧ SInv d' ∧
    d'.raw = (formatted 10).raw := prodos_stat_free_inv formatted10_sinv

example : getBitmap (formatted 10) = (.ok (bufOf (formatted 10).raw (hdrBm (formatted 10).raw) (nbmOf (formatted 10).total)),
    openD (formatted 10) (hdrBm (formatted 10).raw) (nbmOf (formatted 10).total)) := prodos_open_loads_image formatted10_sinv

/-- the hypotheses of `prodos_delete_refines_name` are met by the formatted volume and the name `a.b` -/
example : ∃ res d1 d4 v v4, delete (str "a.b") repaired (formatted 10) = (res, d1) ∧ d1.flush = (.ok (), d4) ∧ SInv d4 ∧
    Read.ProdosT.read (formatted 10).raw = .ok v ∧ Read.ProdosT.read d4.raw = .ok v4 ∧
    stepOk prodosParams v (.delete (upper (str "a.b"))) (match res with | .ok _ => true | .error _ => false) v4 = true :=
  prodos_delete_refines_name formatted10_sinv (str "a.b") (by decide) (by decide) (by decide)

end A2Verif.FsProdos
