import A2Verif.Lemmas.FsFatEntry
/-!
# Allocation in the concrete FAT model: free count, first fit, and the write loop of `write_file`

With the FAT buffer open (`d.fat = some f`, FAT12): `num_free_blocks` counts the zero entries of the data-cluster
range, `get_available_block` is `find?` of the first zero entry (sound and complete), and the cluster loop of
`write_file` — provided the free count covers the chunks and every chunk is present — **runs to completion without
panic, hands out only clusters that were free, changes no FAT entry of any other allocated cluster except the link
of `prev`, changes no unit outside the clusters it took, and lowers the free count by exactly the number of chunks**.
-/
namespace A2Verif.FsFat
open A2Verif A2Verif.Fs.Fat

theorem M_bind_apply {α β : Type} (m : M α) (k : α → M β) (d : Disk) :
    (m >>= k) d = match m d with
      | (.ok a, d') => k a d'
      | (.error e, d') => (.error e, d') := rfl

theorem M_pure_apply {α : Type} (a : α) (d : Disk) : (pure a : M α) d = (.ok a, d) := rfl

/-- entry `c` of the buffer is 0 (`fat::is_free`) -/
def isFree12 (f : Array Nat) (c : Nat) : Bool := rd12 (fn f) c == 0

theorem getFatBuffer_open {d : Disk} {f : Array Nat} (h : d.fat = some f) : getFatBuffer d = (.ok f, d) := by
  unfold getFatBuffer; simp [h]

theorem isBlockFree_open {d : Disk} {f : Array Nat} {c : Nat} (h : d.fat = some f) (ht : d.typ = 12) (hi : InBuf f c) :
    isBlockFree c d = (.ok (isFree12 f c), d) := by
  unfold isBlockFree
  rw [getFatBuffer_open h]
  simp [isFree, ht, getCluster12_eq hi, isFree12, Except.map]

theorem freeLoop_open {d : Disk} {f : Array Nat} (h : d.fat = some f) (ht : d.typ = 12) :
    ∀ (cs : List Nat) (acc : Nat), (∀ c ∈ cs, InBuf f c) → freeLoop cs acc d = (.ok (acc + cs.countP (isFree12 f)), d) := by
  intro cs
  induction cs with
  | nil => intro acc _; simp [freeLoop, M_pure_apply]
  | cons c cs ih =>
    intro acc hin
    unfold freeLoop
    rw [M_bind_apply, isBlockFree_open h ht (hin c (by simp))]
    simp only []
    rw [ih _ (fun x hx => hin x (by simp [hx]))]
    by_cases hf : isFree12 f c <;> simp [hf] <;> omega

theorem availLoop_open {d : Disk} {f : Array Nat} (h : d.fat = some f) (ht : d.typ = 12) :
    ∀ (cs : List Nat), (∀ c ∈ cs, InBuf f c) → availLoop cs d = (.ok (cs.find? (isFree12 f)), d) := by
  intro cs
  induction cs with
  | nil => intro _; simp [availLoop, M_pure_apply]
  | cons c cs ih =>
    intro hin
    unfold availLoop
    rw [M_bind_apply, isBlockFree_open h ht (hin c (by simp))]
    simp only []
    by_cases hf : isFree12 f c
    · simp [hf, M_pure_apply]
    · simp [hf, ih (fun x hx => hin x (by simp [hx]))]

/-- the data clusters of the volume -/
def clusters (b : Bpb) : List Nat := List.range' firstDataCluster b.clusterCountUsable

theorem mem_clusters {b : Bpb} {c : Nat} : c ∈ clusters b ↔ clusInRng b c = true := by
  simp [clusters, clusInRng, List.mem_range'_1]

/-- number of free clusters according to the buffer -/
def freeCount (b : Bpb) (f : Array Nat) : Nat := (clusters b).countP (isFree12 f)

/-- what the write phase needs of the state: the buffer is open, FAT12, consists of bytes, holds an entry for every
data cluster, and every data cluster lies inside the image -/
structure WOk (d : Disk) (f : Array Nat) : Prop where
  fat : d.fat = some f
  typ : d.typ = 12
  bytes : BytesOk f
  inbuf : ∀ c, c < firstDataCluster + d.bpb.clusterCountUsable → InBuf f c
  geom : ∀ c, clusInRng d.bpb c = true → ∀ s ∈ List.range' (d.bpb.firstClusterSec c) d.bpb.spc, s < d.raw.units.size
  small : firstDataCluster + d.bpb.clusterCountUsable ≤ 4096

theorem numFreeBlocks_open {d : Disk} {f : Array Nat} (w : WOk d f) : numFreeBlocks d = (.ok (freeCount d.bpb f), d) := by
  unfold numFreeBlocks
  rw [M_bind_apply]
  simp only [M.get]
  rw [freeLoop_open w.fat w.typ]
  · simp [freeCount, clusters]
  · intro c hc
    exact w.inbuf c (by simp [List.mem_range'_1] at hc; omega)

theorem getAvailableBlock_open {d : Disk} {f : Array Nat} (w : WOk d f) :
    getAvailableBlock d = (.ok ((clusters d.bpb).find? (isFree12 f)), d) := by
  unfold getAvailableBlock
  rw [M_bind_apply]
  simp only [M.get]
  rw [availLoop_open w.fat w.typ]
  · rfl
  · intro c hc
    exact w.inbuf c (by simp [List.mem_range'_1] at hc; omega)

/-- first fit is sound: the cluster returned is a data cluster and free -/
theorem avail_sound {b : Bpb} {f : Array Nat} {c : Nat} (h : (clusters b).find? (isFree12 f) = some c) :
    clusInRng b c = true ∧ isFree12 f c = true :=
  ⟨mem_clusters.mp (List.mem_of_find?_eq_some h), List.find?_some h⟩

/-- first fit is complete: a positive free count yields a cluster -/
theorem avail_complete {b : Bpb} {f : Array Nat} (h : 0 < freeCount b f) : ∃ c, (clusters b).find? (isFree12 f) = some c := by
  have := List.countP_pos_iff.mp h
  have h2 : ((clusters b).find? (isFree12 f)).isSome = true := List.find?_isSome.mpr this
  exact Option.isSome_iff_exists.mp h2

/-- `get_available_block` answers `None` exactly when `num_free_blocks` is 0 -/
theorem avail_none_iff {b : Bpb} {f : Array Nat} : (clusters b).find? (isFree12 f) = none ↔ freeCount b f = 0 := by
  constructor
  · intro h
    by_cases h0 : 0 < freeCount b f
    · obtain ⟨c, hc⟩ := avail_complete h0
      rw [hc] at h; cases h
    · omega
  · intro h
    cases hf : (clusters b).find? (isFree12 f) with
    | none => rfl
    | some c =>
      have := avail_sound hf
      have hp : 0 < freeCount b f := List.countP_pos_iff.mpr ⟨c, mem_clusters.mpr this.1, this.2⟩
      omega

/-! ## counting after one entry changes from free to used -/

theorem countP_flip {p q : Nat → Bool} : ∀ {l : List Nat} {c : Nat}, l.Nodup → c ∈ l → p c = true → q c = false →
    (∀ m ∈ l, m ≠ c → q m = p m) → l.countP q + 1 = l.countP p := by
  intro l
  induction l with
  | nil => intro c _ hc; cases hc
  | cons a t ih =>
    intro c hnd hc hp hq hsame
    have ⟨hat, hndt⟩ := List.nodup_cons.mp hnd
    rw [List.countP_cons, List.countP_cons]
    by_cases hac : a = c
    · subst hac
      have ht : t.countP q = t.countP p := by
        apply List.countP_congr
        intro m hm
        have : m ≠ a := fun e => hat (e ▸ hm)
        rw [hsame m (by simp [hm]) this]
      simp [hp, hq, ht]
    · have hct : c ∈ t := by
        cases hc with
        | head => exact absurd rfl hac
        | tail _ h => exact h
      have := ih hndt hct hp hq (fun m hm hne => hsame m (by simp [hm]) hne)
      rw [hsame a (by simp) hac]
      omega

theorem countP_same {p q : Nat → Bool} {l : List Nat} (h : ∀ m ∈ l, q m = p m) : l.countP q = l.countP p := by
  apply List.countP_congr
  intro m hm
  rw [h m hm]

/-! ## image writes -/

theorem writeSecs_size (r : Raw) : ∀ (secs : List Nat) (dat : Bytes), (writeSecs r secs dat).units.size = r.units.size ∧
    (writeSecs r secs dat).unitLen = r.unitLen := by
  intro secs
  induction secs generalizing r with
  | nil => intro _; simp [writeSecs]
  | cons s ss ih =>
    intro dat
    unfold writeSecs
    have := ih { r with units := r.units.setIfInBounds s (dat.take r.unitLen) } (dat.drop r.unitLen)
    simpa using this

theorem writeSecs_other (r : Raw) : ∀ (secs : List Nat) (dat : Bytes) (u : Nat), u ∉ secs →
    (writeSecs r secs dat).units[u]? = r.units[u]? := by
  intro secs
  induction secs generalizing r with
  | nil => intro _ _ _; simp [writeSecs]
  | cons s ss ih =>
    intro dat u hu
    unfold writeSecs
    have hs : s ≠ u := fun e => hu (by simp [e])
    rw [ih _ _ u (fun h => hu (by simp [h]))]
    simp [Array.getElem?_setIfInBounds, hs]

/-- `zap_block` of a data cluster that lies inside the image -/
theorem zapBlock_ok {d : Disk} {c : Nat} (data : Bytes) (h2 : 2 ≤ c)
    (hg : ∀ s ∈ List.range' (d.bpb.firstClusterSec c) d.bpb.spc, s < d.raw.units.size) :
    ∃ r', zapBlock data c d = (.ok (), { d with raw := r' }) ∧ r'.units.size = d.raw.units.size ∧ r'.unitLen = d.raw.unitLen ∧
      ∀ u, u ∉ List.range' (d.bpb.firstClusterSec c) d.bpb.spc → r'.units[u]? = d.raw.units[u]? := by
  have hc : clusSecs d.bpb c = .ok (List.range' (d.bpb.firstClusterSec c) d.bpb.spc) := by
    unfold clusSecs; simp; omega
  have hall : (List.range' (d.bpb.firstClusterSec c) d.bpb.spc).all (fun s => decide (s < d.raw.units.size)) = true := by
    rw [List.all_eq_true]; intro s hs; simpa using hg s hs
  refine ⟨writeSecs d.raw (List.range' (d.bpb.firstClusterSec c) d.bpb.spc)
      (quantize (takeN data d.bpb.blockSize) ((List.range' (d.bpb.firstClusterSec c) d.bpb.spc).length * d.raw.unitLen)), ?_, ?_, ?_, ?_⟩
  · unfold zapBlock
    simp only [M_bind_apply, M.get, M.lift, hc, imgWriteBlock, hall, if_true, M.setRaw]
  · exact (writeSecs_size _ _ _).1
  · exact (writeSecs_size _ _ _).2
  · intro u hu; exact writeSecs_other _ _ _ u hu

end A2Verif.FsFat

namespace A2Verif.FsFat
open A2Verif A2Verif.Fs.Fat

theorem clusInRng_bounds {b : Bpb} {c : Nat} (h : clusInRng b c = true) : 2 ≤ c ∧ c < firstDataCluster + b.clusterCountUsable := by
  simpa [clusInRng] using h

/-- `write_block(data, prev, curr, 0)` on a data cluster `curr`, with `prev` = 0 or a data cluster -/
theorem writeBlock_ok {d : Disk} {f : Array Nat} (w : WOk d f) (data : Bytes) {prev curr : Nat}
    (hc : clusInRng d.bpb curr = true) (hp : prev < 2 ∨ clusInRng d.bpb prev = true) :
    ∃ r' f', writeBlock data prev curr d = (.ok (), { d with raw := r', fat := some f' }) ∧
      WOk { d with raw := r', fat := some f' } f' ∧ r'.units.size = d.raw.units.size ∧ r'.unitLen = d.raw.unitLen ∧
      rd12 (fn f') curr = 0xfff ∧ (2 ≤ prev → prev ≠ curr → rd12 (fn f') prev = curr) ∧
      (∀ m, m ≠ curr → (prev < 2 ∨ m ≠ prev) → rd12 (fn f') m = rd12 (fn f) m) ∧
      (∀ u, u ∉ List.range' (d.bpb.firstClusterSec curr) d.bpb.spc → r'.units[u]? = d.raw.units[u]?) := by
  have ⟨hc2, hcu⟩ := clusInRng_bounds hc
  obtain ⟨r', hz, hsz, hul, hfr⟩ := zapBlock_ok (d := d) data hc2 (w.geom curr hc)
  have hic : InBuf f curr := w.inbuf curr hcu
  have hcs : curr < 4096 := by have := w.small; omega
  -- the FAT part, as a pure statement
  have key : ∃ f1 f', (if prev ≥ 2 then setCluster 12 f prev curr else .ok f) = .ok f1 ∧ markLast 12 f1 curr = .ok f' ∧
      f'.size = f.size ∧ BytesOk f' ∧ rd12 (fn f') curr = 0xfff ∧ (2 ≤ prev → prev ≠ curr → rd12 (fn f') prev = curr) ∧
      (∀ m, m ≠ curr → (prev < 2 ∨ m ≠ prev) → rd12 (fn f') m = rd12 (fn f) m) := by
    by_cases hp2 : prev ≥ 2
    · have hpr : clusInRng d.bpb prev = true := by
        cases hp with
        | inl h => omega
        | inr h => exact h
      have hip : InBuf f prev := w.inbuf prev (clusInRng_bounds hpr).2
      obtain ⟨f1, e1, s1, g1⟩ := setCluster12_spec (v := curr) hip
      have b1 : BytesOk f1 := bytesOk_setCluster w.bytes e1
      obtain ⟨f2, e2, s2, g2⟩ := setCluster12_spec (v := 0xfff) (inBuf_of_size s1 hic)
      refine ⟨f1, f2, by simp [hp2, e1], by simpa [markLast, eocSet] using e2, by omega, bytesOk_setCluster b1 e2, ?_, ?_, ?_⟩
      · rw [g2, rd_wr_same _ _ _ (b1 _) (b1 _)]
      · intro _ hne
        rw [g2, rd_wr_other _ _ _ _ hne b1, g1, rd_wr_same _ _ _ (w.bytes _) (w.bytes _)]
        omega
      · intro m hm hmp
        have hmp' : m ≠ prev := by
          cases hmp with
          | inl h => omega
          | inr h => exact h
        rw [g2, rd_wr_other _ _ _ _ hm b1, g1, rd_wr_other _ _ _ _ hmp' w.bytes]
    · obtain ⟨f2, e2, s2, g2⟩ := setCluster12_spec (v := 0xfff) hic
      refine ⟨f, f2, by simp [hp2], by simpa [markLast, eocSet] using e2, s2, bytesOk_setCluster w.bytes e2, ?_, ?_, ?_⟩
      · rw [g2, rd_wr_same _ _ _ (w.bytes _) (w.bytes _)]
      · intro h; omega
      · intro m hm _
        rw [g2, rd_wr_other _ _ _ _ hm w.bytes]
  obtain ⟨f1, f', hk1, hk2, hs', hb', h1, h2, h3⟩ := key
  refine ⟨r', f', ?_, ?_, hsz, hul, h1, h2, h3, hfr⟩
  · unfold writeBlock
    rw [M_bind_apply, hz]
    simp only []
    have hfat : ({ d with raw := r' } : Disk).fat = some f := w.fat
    rw [M_bind_apply, getFatBuffer_open hfat]
    simp only [M_bind_apply, M.get, w.typ]
    by_cases hp2 : prev ≥ 2
    · simp only [hp2, if_true] at hk1 ⊢
      simp only [M_bind_apply, M.lift, hk1, hk2, M.setFat]
    · simp only [hp2, if_false] at hk1 ⊢
      injection hk1 with hk1
      subst hk1
      simp only [M_bind_apply, M_pure_apply, M.lift, hk2, M.setFat]
  · exact { fat := rfl, typ := w.typ, bytes := hb', inbuf := fun c hc => inBuf_of_size hs' (w.inbuf c hc),
            geom := fun c hc s hs => by rw [hsz]; exact w.geom c hc s hs, small := w.small }

end A2Verif.FsFat

namespace A2Verif.FsFat
open A2Verif A2Verif.Fs.Fat

theorem clusters_nodup (b : Bpb) : (clusters b).Nodup := List.nodup_range' 1

/-- the sectors of the clusters that are free according to `f` -/
def inFreeCluster (b : Bpb) (f : Array Nat) (u : Nat) : Prop :=
  ∃ c, clusInRng b c = true ∧ isFree12 f c = true ∧ u ∈ List.range' (b.firstClusterSec c) b.spc

/-- **the cluster loop of `write_file`**: if every chunk is present and the free count covers them, the loop runs to
completion (no `DiskFull`, no "unexpectedly ran out of disk space" panic, no image error), the free count drops by
exactly the number of chunks, the FAT entry of every cluster that was in use — other than the link of `prev` — is
unchanged, and no unit outside the previously free clusters is written. -/
theorem writeLoop_ok (chunks : List (Nat × Bytes)) :
    ∀ (ks : List Nat) (d : Disk) (f : Array Nat) (entry : Bytes) (prev : Nat), WOk d f →
      (∀ k ∈ ks, (chunks.lookup k).isSome = true) → ks.length ≤ freeCount d.bpb f →
      (prev < 2 ∨ (clusInRng d.bpb prev = true ∧ isFree12 f prev = false)) →
      ∃ entry' d' f', writeLoop chunks ks entry prev d = (.ok entry', d') ∧ WOk d' f' ∧ d'.bpb = d.bpb ∧
        d'.raw.units.size = d.raw.units.size ∧ d'.raw.unitLen = d.raw.unitLen ∧ freeCount d.bpb f' + ks.length = freeCount d.bpb f ∧
        (∀ m, isFree12 f m = false → m ≠ prev → rd12 (fn f') m = rd12 (fn f) m) ∧
        (∀ u, ¬ inFreeCluster d.bpb f u → d'.raw.units[u]? = d.raw.units[u]?) := by
  intro ks
  induction ks with
  | nil =>
    intro d f entry prev w _ _ _
    exact ⟨entry, d, f, by simp [writeLoop, M_pure_apply], w, rfl, rfl, rfl, by simp, fun _ _ _ => rfl, fun _ _ => rfl⟩
  | cons k ks ih =>
    intro d f entry prev w hch hfree hprev
    have hk : (chunks.lookup k).isSome = true := hch k (by simp)
    obtain ⟨data, hdata⟩ := Option.isSome_iff_exists.mp hk
    have hpos : 0 < freeCount d.bpb f := by simp at hfree; omega
    obtain ⟨curr, hcurr⟩ := avail_complete hpos
    have ⟨hcr, hcf⟩ := avail_sound hcurr
    have hp' : prev < 2 ∨ clusInRng d.bpb prev = true := by
      cases hprev with
      | inl h => exact Or.inl h
      | inr h => exact Or.inr h.1
    obtain ⟨r1, f1, hwb, w1, hsz1, hul1, g1, g2, g3, hfr1⟩ := writeBlock_ok w data hcr hp'
    have ⟨hc2, hcu⟩ := clusInRng_bounds hcr
    have hcs : curr < 4096 := by have := w.small; omega
    -- prev ≠ curr
    have hpc : prev ≠ curr := by
      cases hprev with
      | inl h => omega
      | inr h => intro e; rw [e] at h; rw [hcf] at h; exact absurd h.2 (by simp)
    -- free sets
    have hfree1 : ∀ m, m ≠ curr → isFree12 f1 m = isFree12 f m := by
      intro m hm
      by_cases hmp : m = prev
      · subst hmp
        cases hprev with
        | inl h =>
          unfold isFree12; rw [g3 m hm (Or.inl h)]
        | inr h =>
          have h2 : 2 ≤ m := (clusInRng_bounds h.1).1
          have : rd12 (fn f1) m = curr := g2 h2 hm
          unfold isFree12 at h ⊢
          rw [this, h.2]
          simp; omega
      · unfold isFree12; rw [g3 m hm (Or.inr hmp)]
    have hcurr1 : isFree12 f1 curr = false := by unfold isFree12; rw [g1]; rfl
    have hcount : freeCount d.bpb f1 + 1 = freeCount d.bpb f :=
      countP_flip (clusters_nodup d.bpb) (mem_clusters.mpr hcr) hcf hcurr1 (fun m _ hm => hfree1 m hm)
    let d1 : Disk := { d with raw := r1, fat := some f1 }
    have ih' := ih d1 f1 (if k = 0 then Entry.setCluster entry curr else entry) curr w1
      (fun x hx => hch x (by simp [hx])) (by simp at hfree; show ks.length ≤ freeCount d.bpb f1; omega)
      (Or.inr ⟨hcr, hcurr1⟩)
    obtain ⟨entry', d', f', hrun, w', hb', hsz', hul', hcnt', hfat', hraw'⟩ := ih'
    refine ⟨entry', d', f', ?_, w', hb', by rw [hsz']; exact hsz1, by rw [hul']; exact hul1, ?_, ?_, ?_⟩
    · unfold writeLoop
      simp only [hdata]
      rw [M_bind_apply, getAvailableBlock_open w, hcurr]
      simp only []
      rw [M_bind_apply, hwb]
      exact hrun
    · have : freeCount d.bpb f' + ks.length = freeCount d.bpb f1 := hcnt'
      simp; omega
    · intro m hm hmp
      have hmc : m ≠ curr := fun e => by rw [e, hcf] at hm; exact absurd hm (by simp)
      have hm1 : isFree12 f1 m = false := by rw [hfree1 m hmc]; exact hm
      rw [hfat' m hm1 hmc, g3 m hmc (Or.inr hmp)]
    · intro u hu
      have hu1 : ¬ inFreeCluster d.bpb f1 u := by
        rintro ⟨c, hc1, hc2', hc3⟩
        apply hu
        by_cases hcc : c = curr
        · subst hcc; rw [hcurr1] at hc2'; exact absurd hc2' (by simp)
        · exact ⟨c, hc1, by rw [← hfree1 c hcc]; exact hc2', hc3⟩
      have hu2 : u ∉ List.range' (d.bpb.firstClusterSec curr) d.bpb.spc := fun h => hu ⟨curr, hcr, hcf, h⟩
      rw [hraw' u hu1]
      exact hfr1 u hu2

end A2Verif.FsFat
