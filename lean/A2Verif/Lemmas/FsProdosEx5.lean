import A2Verif.Lemmas.FsProdosEx1
/-!
Non-vacuity of the theorems about paths into a first-level sub-directory: on the formatted 10-block volume after
`create("d")` (an `SInv` state by `prodos_history_refines`) the path `d/a` has the normal form `[volume, D, A]`; the four
refinement theorems and the history theorem apply to it.
-/
namespace A2Verif.FsProdos
open A2Verif.Fs.Prodos

/-- the formatted volume after `create("d")` and `get_img()` -/
def dirDisk : Disk := finalDisk (formatted 10) [.mkdir (str "d") exTime]

theorem dirOps_ok : ∀ op ∈ [VOp.mkdir (str "d") exTime], op.Ok (volName (hdrOf (formatted 10).raw)) := by
  intro op hop
  simp only [List.mem_cons, List.not_mem_nil, or_false] at hop
  subst hop
  exact ⟨Or.inl (rootPath_simple _ _ (by decide) (by decide) (by decide)), fun p t a h => (by cases h),
    fun f t h => (by cases h), fun p t h => (by cases h; exact ⟨by decide, by decide⟩)⟩

theorem dirDisk_sinv : SInv dirDisk :=
  (prodos_history_refines _ _ formatted10_sinv dirOps_ok
    (renFiles_of_no_rename _ _ _ (by
      intro op hop p n
      simp only [List.mem_cons, List.not_mem_nil, or_false] at hop
      subst hop; intro h; cases h))).2.1

/-- the directory is there -/
example : ((volOf dirDisk.raw).lookup (str "D")).map (·.isDir) = some true := by decide +kernel

theorem dirPath : normalizePath (volName (hdrOf dirDisk.raw)) (str "d/a") = .ok [volName (hdrOf dirDisk.raw), str "D", str "A"] :=
  normalizePath_sub _ (str "d") (str "a") (by decide) (by decide) (by decide) (by decide) (by decide) (volName_len _)

example : Refines dirDisk (Fs.Prodos.lock (str "d/a") dirDisk) (.lock (upper (str "D") ++ [47] ++ upper (str "A"))) :=
  prodos_sub_lock_refines dirDisk_sinv _ _ _ dirPath (by decide)

example : Refines dirDisk (Fs.Prodos.unlock (str "d/a") dirDisk) (.unlock (upper (str "D") ++ [47] ++ upper (str "A"))) :=
  prodos_sub_unlock_refines dirDisk_sinv _ _ _ dirPath (by decide)

example : Refines dirDisk (Fs.Prodos.retype (str "d/a") (some 4) (some 0) dirDisk) (.retype (upper (str "D") ++ [47] ++ upper (str "A"))) :=
  prodos_sub_retype_refines dirDisk_sinv _ _ _ _ _ dirPath (by decide) (by intro t h; cases h; decide)

example : Refines dirDisk (delete (str "d/a") repaired dirDisk) (.delete (upper (str "D") ++ [47] ++ upper (str "A"))) :=
  prodos_sub_delete_refines dirDisk_sinv _ _ _ dirPath (by decide)
    (notVol_rel _ _ 100 (str "/a") (by decide) (by decide))

/-- a history that addresses the sub-directory and the volume directory -/
def subOps : List VOp :=
  [.lock (str "d/a"), .delete (str "d/a"), .unlock (str "d/b.c"), .retype (str "d/a") (some 4) (some 0), .delete (str "d")]

theorem subOps_ok : ∀ op ∈ subOps, op.Ok (volName (hdrOf dirDisk.raw)) := by
  intro op hop
  simp only [subOps, List.mem_cons, List.not_mem_nil, or_false] at hop
  rcases hop with rfl | rfl | rfl | rfl | rfl
  · exact ⟨Or.inr ⟨rfl, subPath_simple _ (str "d") (str "a") (by decide) (by decide) (by decide) (by decide) (by decide) (by decide)⟩,
      fun p t a h => (by cases h), fun f t h => (by cases h), fun p t h => (by cases h)⟩
  · exact ⟨Or.inr ⟨rfl, subPath_simple _ (str "d") (str "a") (by decide) (by decide) (by decide) (by decide) (by decide) (by decide)⟩,
      fun p t a h => (by cases h), fun f t h => (by cases h), fun p t h => (by cases h)⟩
  · exact ⟨Or.inr ⟨rfl, subPath_simple _ (str "d") (str "b.c") (by decide) (by decide) (by decide) (by decide) (by decide) (by decide)⟩,
      fun p t a h => (by cases h), fun f t h => (by cases h), fun p t h => (by cases h)⟩
  · exact ⟨Or.inr ⟨rfl, subPath_simple _ (str "d") (str "a") (by decide) (by decide) (by decide) (by decide) (by decide) (by decide)⟩,
      fun p t a h => (by cases h; omega), fun f t h => (by cases h), fun p t h => (by cases h)⟩
  · exact ⟨Or.inl (rootPath_simple _ _ (by decide) (by decide) (by decide)),
      fun p t a h => (by cases h), fun f t h => (by cases h), fun p t h => (by cases h)⟩

example : validFrom prodosParams (volOf dirDisk.raw) (trace (volName (hdrOf dirDisk.raw)) dirDisk subOps) ∧
    SInv (finalDisk dirDisk subOps) :=
  have h := prodos_history_refines subOps _ dirDisk_sinv subOps_ok (renFiles_of_no_rename _ _ _ (by
    intro op hop p n
    simp only [subOps, List.mem_cons, List.not_mem_nil, or_false] at hop
    rcases hop with rfl | rfl | rfl | rfl | rfl <;> intro h <;> cases h))
  ⟨h.1, h.2.1⟩

end A2Verif.FsProdos
