import A2Verif.Lemmas.FsCpmRename
/-!
# `rename` of the concrete CP/M model refines the abstract `rename`
-/
namespace A2Verif.FsCpm
open A2Verif.Fs.Cpm
open A2Verif.Read.Cpm (Dpb fileKey extNum entryPtrs pathOf slots)

/-- the `stepOk` of a successful rename, from the two listings -/
theorem rename_stepOk {P : FsParams} {pre post : Vol} {κ : Type} [BEq κ] [LawfulBEq κ] (ks : List κ) (F F' : κ → FileRec) (K0 : κ)
    (hK : K0 ∈ ks) (hpre : pre.files = ks.map F) (hpost : post.files = ks.map F')
    (hsame : ∀ k ∈ ks, k ≠ K0 → F' k = F k) (hfresh : (F' K0).path ∉ pre.paths)
    (hwpre : pre.wfB = true) (hwpost : post.wfB = true) (hl : (F K0).locked = false)
    (hc : (F' K0).chunks = (F K0).chunks ∧ (F' K0).eof = (F K0).eof ∧ (F' K0).owned = (F K0).owned ∧
      (F' K0).locked = (F K0).locked ∧ (F' K0).isDir = (F K0).isDir) :
    stepOk P pre (.rename (F K0).path (F' K0).path) true post = true := by
  have ndpre : (ks.map (fun k => (F k).path)).Nodup := by
    have := wfB_paths_nodup hwpre
    unfold Vol.paths at this
    rw [hpre, List.map_map] at this
    exact this
  have hinj : ∀ k ∈ ks, (F k).path = (F K0).path → k = K0 := fun k hk e => nodup_map_inj ndpre hk hK e
  have hpq : (F K0).path ≠ (F' K0).path := by
    intro e
    apply hfresh
    rw [← e]
    unfold Vol.paths
    rw [hpre, List.map_map]
    exact List.mem_map_of_mem (f := fun k => (F k).path) hK
  have hnq : ∀ k ∈ ks, (F k).path ≠ (F' K0).path := by
    intro k hk e
    apply hfresh
    rw [← e]
    unfold Vol.paths
    rw [hpre, List.map_map]
    exact List.mem_map_of_mem (f := fun k => (F k).path) hk
  have hl1 : pre.lookup (F K0).path = some (F K0) := by
    unfold Vol.lookup
    exact find_path_of_mem (wfB_paths_nodup hwpre) (by rw [hpre]; exact List.mem_map_of_mem hK)
  have hl2 : post.lookup (F' K0).path = some (F' K0) := by
    unfold Vol.lookup
    exact find_path_of_mem (wfB_paths_nodup hwpost) (by rw [hpost]; exact List.mem_map_of_mem hK)
  have hq0 : pre.lookup (F' K0).path = none := not_mem_paths_iff.1 hfresh
  have hgone : post.lookup (F K0).path = none := by
    unfold Vol.lookup
    rw [find_path_none, hpost, List.map_map]
    intro hm
    rw [List.mem_map] at hm
    obtain ⟨k, hk, e⟩ := hm
    simp only [Function.comp] at e
    by_cases c : k = K0
    · subst c; exact hpq e.symm
    · rw [hsame k hk c] at e; exact c (hinj k hk e)
  have hw1 : without pre.files [(F K0).path, (F' K0).path] = (ks.filter (· != K0)).map F := by
    unfold without
    rw [hpre, List.filter_map]
    congr 1
    apply List.filter_congr
    intro k hk
    show (![(F K0).path, (F' K0).path].contains (F k).path) = (k != K0)
    by_cases c : k = K0
    · subst c; simp
    · have a : (F k).path ≠ (F K0).path := fun e => c (hinj k hk e)
      have b := hnq k hk
      have h2 : (k != K0) = true := by simpa using c
      rw [h2]
      simp [a, b]
  have hw2 : without post.files [(F K0).path, (F' K0).path] = (ks.filter (· != K0)).map F := by
    unfold without
    rw [hpost, List.filter_map]
    have : (ks.filter ((fun f => !([(F K0).path, (F' K0).path].contains f.path)) ∘ F')) = ks.filter (· != K0) := by
      apply List.filter_congr
      intro k hk
      show (![(F K0).path, (F' K0).path].contains (F' k).path) = (k != K0)
      by_cases c : k = K0
      · subst c; simp
      · rw [hsame k hk c]
        have a : (F k).path ≠ (F K0).path := fun e => c (hinj k hk e)
        have b := hnq k hk
        have h2 : (k != K0) = true := by simpa using c
        rw [h2]
        simp [a, b]
    rw [this]
    apply List.map_congr_left
    intro k hk
    rw [List.mem_filter] at hk
    exact hsame k hk.1 (by simpa using hk.2)
  simp only [stepOk, stepConds, List.all_cons, List.all_nil, Bool.and_true, Bool.and_eq_true]
  refine ⟨hwpost, ?_, ?_, ?_, ?_, ?_, ?_⟩
  · rw [hl1]; rfl
  · rw [hl1]; simp [hl]
  · rw [hq0]; simp
  · rw [hgone]; simp
  · rw [hl1, hl2]
    obtain ⟨c1, c2, c3, c4, c5⟩ := hc
    simp [c1, c2, c3, c4, c5]
  · rw [hw1, hw2]
    apply sameFiles_refl
    have := wfB_paths_nodup hwpre
    unfold Vol.paths at this
    rw [hpre] at this
    exact ((List.filter_sublist.map F).map _).nodup this

theorem lastOf_mem : ∀ (es : List Bytes), es ≠ [] → lastOf es ∈ es := by
  intro es hne
  cases es with
  | nil => exact absurd rfl hne
  | cons e0 rest =>
    unfold lastOf
    simp only [List.headD_cons]
    have key : ∀ (l : List Bytes) (b : Bytes), List.foldl (fun best e => if extNum e ≥ extNum best then e else best) b l ∈ b :: l := by
      intro l
      induction l with
      | nil => intro b; simp
      | cons x xs ih =>
        intro b
        simp only [List.foldl_cons]
        split
        · have := ih x; simp only [List.mem_cons] at this ⊢; rcases this with h | h <;> simp [h]
        · have := ih b; simp only [List.mem_cons] at this ⊢; rcases this with h | h <;> simp [h]
    have := key (e0 :: rest) e0
    rcases List.mem_cons.1 this with h | h
    · rw [h]; exact List.mem_cons_self
    · exact h

/-- the record of a file whose entries were rewritten keeping everything from offset 12 on -/
theorem recOf_map_tail {r : Raw} {d : Dpb} {ents es : List Bytes} {φ : Bytes → Bytes}
    (hne : es ≠ []) (ht : ∀ e ∈ es, SameTail e (φ e)) :
    (recOf r d ents (es.map φ)).path = pathOf (φ (es.headD [])) ∧
    (recOf r d ents (es.map φ)).chunks = (recOf r d ents es).chunks ∧
    (recOf r d ents (es.map φ)).eof = (recOf r d ents es).eof ∧
    (recOf r d ents (es.map φ)).owned = (recOf r d ents es).owned ∧
    (recOf r d ents (es.map φ)).isDir = (recOf r d ents es).isDir ∧
    (recOf r d ents (es.map φ)).locked = decide ((φ (es.headD [])).getD 9 0 ≥ 128) := by
  have hc : (es.map φ).flatMap (chunksE r d) = es.flatMap (chunksE r d) := by
    rw [List.flatMap_map]
    exact flatMap_congr_mem (fun e he => (ht e he).chunksE r d)
  have ho : (es.map φ).flatMap (ownedE d) = es.flatMap (ownedE d) := by
    rw [List.flatMap_map]
    exact flatMap_congr_mem (fun e he => (ht e he).ownedE d)
  have hlast : lastOf (es.map φ) = φ (lastOf es) := lastOf_map _ (fun e he => (ht e he).extNum) hne
  have hlm := lastOf_mem es hne
  cases es with
  | nil => exact absurd rfl hne
  | cons e0 rest =>
    unfold recOf recWith
    rw [hc, ho]
    simp only [List.map_cons, List.headD_cons]
    refine ⟨trivial, trivial, ?_, trivial, trivial, ?_⟩
    · have : lastOf (φ e0 :: rest.map φ) = φ (lastOf (e0 :: rest)) := hlast
      rw [this, eofOf_tail (ht _ hlm)]
    · first | trivial | rfl

/-- the path of a file renamed to user `u`, name fields `base`, `typ` -/
def newPath (u : Nat) (base typ : Bytes) : Bytes := pathOf (renF u base typ (List.replicate 32 0))

theorem pathOf_renF {u : Nat} {base typ e : Bytes} (he : e.length = 32) (hb : base.length = 8) (ht : typ.length = 3) :
    pathOf (renF u base typ e) = newPath u base typ := by
  unfold newPath Read.Cpm.pathOf
  simp only []
  have z : (List.replicate 32 0 : Bytes).length = 32 := by simp
  have a1 : (slice (renF u base typ e) 1 8).map (· % 128) = base.map (· % 128) := renF_name7 he hb
  have a2 : (slice (renF u base typ (List.replicate 32 0)) 1 8).map (· % 128) = base.map (· % 128) := renF_name7 z hb
  have b1 : (slice (renF u base typ e) 9 3).map (· % 128) = typ.map (· % 128) := renF_typ7 he ht
  have b2 : (slice (renF u base typ (List.replicate 32 0)) 9 3).map (· % 128) = typ.map (· % 128) := renF_typ7 z ht
  rw [a1, a2, b1, b2, renF_getD he 0, renF_getD z 0, if_pos rfl, if_pos rfl]

theorem s2fn_lengths (s : Bytes) : (stringToFileName s).1.length = 8 ∧ (stringToFileName s).2.length = 3 := by
  unfold stringToFileName
  exact ⟨padTo_length _ _, padTo_length _ _⟩

/-- the two loops of a rename followed by `save_directory`, under the assumption that no file has the new key -/
theorem rename_core {d : Dpb} {r r' : Raw} {files : List FileInfo} {oldX : Bytes} {fi : FileInfo} {dir1 dir2 : Dir} {res : R Unit}
    (h : Inv d r) (hb : buildFiles d d.v3 (dirOf d r) = .ok files) (hg : getFile oldX files = some fi)
    {u : Nat} (hu : u < 16) {newName : Bytes}
    (hcn : cleanField ((stringToFileName newName).1.map (· % 128)) = true)
    (hct : cleanField ((stringToFileName newName).2.map (· % 128)) = true)
    (hfresh : newKey u (stringToFileName newName).1 (stringToFileName newName).2 ∉ keys d r)
    (hl1 : renameLoop (dirOf d r) u newName fi.entries = .ok dir1)
    (hl2 : accessLoop dir1 accessNone fi.entries = .ok dir2)
    (hsave : saveDirectory d r dir2 = (res, r')) :
    res = .ok () ∧ Inv d r' ∧
      stepOk (cpmParams d) (volOf d r) (.rename (canon oldX) (newPath u (stringToFileName newName).1 (stringToFileName newName).2))
        true (volOf d r') = true := by
  obtain ⟨hb8, ht3⟩ := s2fn_lengths newName
  rw [renameLoop_eq] at hl1
  rw [accessLoop_eq] at hl2
  generalize (stringToFileName newName).1 = base at *
  generalize (stringToFileName newName).2 = typ at *
  have hl := dirOf_entry_length h.shape h.dpb
  obtain ⟨K0, hK0, hidx, hpath⟩ := found_key h hb hg
  have hl1' : entryLoop (fun fx => if (Ext.flags fx).getD 8 0 > 0 then some .fileReadOnly else none) (renF u base typ) (dirOf d r) fi.entries = .ok dir1 := hl1
  have hext : ∀ e, e.length = 32 → isExtent (renF u base typ e) = true := by
    intro e he
    rw [isExtent_iff, renF_getD he 0, if_pos rfl]; exact hu
  -- first loop: a map over the directory
  obtain ⟨hget1, hchk⟩ := entryLoop_spec _ (renF u base typ) (by
    intro e he _
    refine ⟨?_, renF_length he⟩
    unfold visit
    rw [if_pos (hext e he), renF_idem he]) _ _ _ hl hl1'
  have hdir1 : dir1 = (dirOf d r).map (onKey K0 (renF u base typ)) := loop_as_map hidx hget1
  have hlen1 : ∀ e ∈ dir1, e.length = 32 := by
    intro e he
    rw [hdir1, List.mem_map] at he
    obtain ⟨e0, he0, rfl⟩ := he
    unfold onKey
    split
    · exact renF_length (hl e0 he0)
    · exact hl e0 he0
  -- second loop: nothing changes
  obtain ⟨hget2, _⟩ := entryLoop_spec (fun _ => none) (setAccess accessNone) (by
    intro e he hx
    have kb := keepsBody_setAccess accessNone
    have hs : isExtent (setAccess accessNone e) = true := by
      rw [isExtent_iff, kb.status e he]; exact (isExtent_iff e).1 hx
    refine ⟨?_, (kb.tail e he).len'⟩
    unfold visit
    rw [if_pos hs, setAccess_idem accessNone e he]) _ _ _ hlen1 hl2
  have hdir2 : dir2 = dir1 := by
    apply List.ext_getElem?
    intro j
    rw [hget2 j]
    by_cases c : ∃ p ∈ fi.entries, p.2 = j
    · rw [if_pos c]
      cases he1 : dir1[j]? with
      | none => rfl
      | some x =>
        simp only [Option.map_some]
        congr 1
        rw [hdir1, List.getElem?_map] at he1
        cases he0 : (dirOf d r)[j]? with
        | none => rw [he0] at he1; cases he1
        | some e =>
          rw [he0] at he1
          simp only [Option.map_some, Option.some.injEq] at he1
          obtain ⟨hu0, hk0⟩ := (hidx j e he0).2 c
          have hle := hl e (List.mem_of_getElem? he0)
          have : x = renF u base typ e := by rw [← he1]; unfold onKey; rw [if_pos ⟨hu0, hk0⟩]
          rw [this]
          unfold visit
          rw [if_pos (hext e hle), setAccess_none_fix (renF_length hle) (renF_bytes hle)]
    · rw [if_neg c]
  rw [hdir2] at hsave
  -- saving
  obtain ⟨r2, e1, e2, e3, e4⟩ := saveDirectory_spec (dir := dir1) h.shape h.dpb
    (by rw [hdir1, List.length_map, dirOf_length]) hlen1
  rw [e1] at hsave
  cases hsave
  -- the reading
  let K1 := newKey u base typ
  let ρ : List Nat → List Nat := fun k => if k = K0 then K1 else k
  have rk : Rekeys d r (onKey K0 (renF u base typ)) ρ := by
    refine ⟨?_, ?_, fun e he => onKey_nonfile K0 _ he, ?_, ?_, ?_⟩
    · intro e he
      unfold onKey
      split
      · exact renF_tail (hl e he)
      · exact ⟨hl e he, hl e he, fun _ _ => rfl⟩
    · intro e he hlt
      unfold onKey
      split
      · rw [renF_getD (hl e he) 0, if_pos rfl]; exact hu
      · exact hlt
    · intro e he
      have hle := hl e (mem_fents.1 he).1
      unfold onKey
      by_cases c : fileKey e = K0
      · rw [if_pos ⟨(mem_fents.1 he).2, c⟩, renF_fileKey hle hb8 ht3]
        show K1 = if fileKey e = K0 then K1 else fileKey e
        rw [if_pos c]
      · rw [if_neg (fun x => c x.2)]
        show fileKey e = if fileKey e = K0 then K1 else fileKey e
        rw [if_neg c]
    · intro a ha b hb' hab
      show a = b
      have hab' : (if a = K0 then K1 else a) = (if b = K0 then K1 else b) := hab
      by_cases ca : a = K0
      · by_cases cb : b = K0
        · rw [ca, cb]
        · rw [if_pos ca, if_neg cb] at hab'
          have e : newKey u base typ = b := hab'
          exact absurd (by rw [e]; exact hb') hfresh
      · by_cases cb : b = K0
        · rw [if_neg ca, if_pos cb] at hab'
          have e : a = newKey u base typ := hab'
          exact absurd (by rw [← e]; exact ha) hfresh
        · rw [if_neg ca, if_neg cb] at hab'
          exact hab'
    · intro e he
      have hle := hl e (mem_fents.1 he).1
      unfold onKey
      split
      · have c := h.clean e he
        refine ⟨by rw [renF_name7 hle hb8]; exact hcn, by rw [renF_typ7 hle ht3]; exact hct, ?_, ?_, renF_bytes hle 9 (by omega) (by omega)⟩
        · rw [(renF_tail hle).tail 12 (by omega)]; exact c.ex
        · rw [(renF_tail hle).tail 14 (by omega)]; exact c.s2
      · exact h.clean e he
  obtain ⟨hinv', hfiles'⟩ := rekey_spec h _ ρ rk e2 e3 (by rw [e4, hdir1])
  refine ⟨rfl, hinv', ?_⟩
  -- the file
  obtain ⟨eh, resth, hes, hmh, hkh⟩ := esOf_head hK0
  have hle : ∀ e ∈ esOf d r K0, e.length = 32 := fun e he => hl e (mem_fents.1 (mem_esOf.1 he).1).1
  have hne : esOf d r K0 ≠ [] := by rw [hes]; simp
  obtain ⟨p1, p2, p3, p4, p5, p6⟩ := recOf_map_tail (r := r) (d := d) (ents := dirOf d r) (φ := renF u base typ) hne
    (fun e he => renF_tail (hle e he))
  have hhl : eh.length = 32 := hl eh (mem_fents.1 hmh).1
  have hflag : (Ext.flags eh).getD 8 0 = 0 := by
    obtain ⟨j, hj, ej⟩ := List.mem_iff_getElem.1 (mem_fents.1 hmh).1
    have hgj : (dirOf d r)[j]? = some eh := by rw [List.getElem?_eq_getElem hj, ej]
    obtain ⟨p, hp, hpj⟩ := (hidx j eh hgj).1 ⟨(mem_fents.1 hmh).2, hkh⟩
    have := hchk p hp eh (by rw [hpj]; exact hgj) ((isExtent_iff eh).2 (mem_fents.1 hmh).2)
    by_cases c : (Ext.flags eh).getD 8 0 > 0
    · rw [if_pos c] at this; cases this
    · omega
  rw [flags8 eh hhl] at hflag
  have h9 := hi_zero (h.clean eh hmh).b9 hflag
  have hlocked : (recOf r d (dirOf d r) (esOf d r K0)).locked = false := by
    show decide (((esOf d r K0).headD []).getD 9 0 ≥ 128) = false
    rw [hes, List.headD_cons]
    simp only [decide_eq_false_iff_not]; omega
  have hstep := rename_stepOk (P := cpmParams d) (pre := volOf d r) (post := volOf d r') (keys d r)
    (fun k => recOf r d (dirOf d r) (esOf d r k))
    (fun k => recOf r d (dirOf d r) ((esOf d r k).map (onKey K0 (renF u base typ)))) K0 hK0 rfl hfiles'
    (fun k _ hk => by simp only [map_onKey_other _ hk])
    (by
      simp only [map_onKey_self]
      rw [p1, hes, List.headD_cons]
      intro hm
      -- a file with the new path would have the new key
      unfold volOf mkVol Vol.paths filesOf at hm
      simp only [List.map_map, List.mem_map, Function.comp] at hm
      obtain ⟨k, hk, hp⟩ := hm
      obtain ⟨ek, restk, hesk, hmk, hkk⟩ := esOf_head hk
      have hp' : pathOf ek = pathOf (renF u base typ eh) := by
        have : (recOf r d (dirOf d r) (esOf d r k)).path = pathOf ((esOf d r k).headD []) := rfl
        rw [this, hesk, List.headD_cons] at hp
        exact hp
      have hcl : CleanEntry (renF u base typ eh) := by
        have c := h.clean eh hmh
        refine ⟨by rw [renF_name7 hhl hb8]; exact hcn, by rw [renF_typ7 hhl ht3]; exact hct, ?_, ?_, renF_bytes hhl 9 (by omega) (by omega)⟩
        · rw [(renF_tail hhl).tail 12 (by omega)]; exact c.ex
        · rw [(renF_tail hhl).tail 14 (by omega)]; exact c.s2
      have := pathOf_inj (mem_fents.1 hmk).2 (by rw [renF_getD hhl 0, if_pos rfl]; exact hu) (hl ek (mem_fents.1 hmk).1)
        (renF_length hhl) (h.clean ek hmk) hcl hp'
      rw [renF_fileKey hhl hb8 ht3, hkk] at this
      exact hfresh (this ▸ hk))
    (volOf_wf h) (volOf_wf hinv') hlocked
    (by
      simp only [map_onKey_self]
      refine ⟨p2, p3, p4, ?_, p5⟩
      rw [p6, hlocked, hes, List.headD_cons, renF_getD hhl 9, if_neg (by omega), if_neg (by omega), if_pos (by omega)]
      simp only [decide_eq_false_iff_not]
      unfold hi lo; omega)
  simp only [map_onKey_self] at hstep
  rw [hpath, p1, hes, List.headD_cons, pathOf_renF hhl hb8 ht3] at hstep
  exact hstep

end A2Verif.FsCpm
