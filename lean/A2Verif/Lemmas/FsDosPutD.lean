import A2Verif.Lemmas.FsDosPutC
/-!
# `put`, part D: `write_file`, any number of T/S lists

Chunk matching, the loop invariant at the start of the loop, the evaluation of `writeFile` and the refinement
theorem `putM_refines` (all refusals included; a catalog-full refusal keeps the reserved sector marked, which the
invariant tolerates).  Also the acceptance clause.  Core Lean only.
-/
set_option linter.unusedSimpArgs false
namespace A2Verif.FsDos
open A2Verif.Fs.Dos3x

/-- the specification parameters of DOS 3.x (as `Drv/Fs.lean`: no stored length, type kept, lock flag) -/
def dosParams : FsParams := { eofRule := fun _ => 0, keepsType := true, keepsAux := false, hasLock := true }

/-- the stored chunks of a file image in index order -/
def putChunks (f : FImg) : List (Nat × Bytes) :=
  (List.range f.endIdx).filterMap (fun i => (f.chunks.lookup i).map (fun d => (i, d)))

end A2Verif.FsDos

namespace A2Verif.Fs.Dos3x
open A2Verif.FsDos A2Verif.Read.Dos3x

/-- the only condition on a file image in the `put` refinement: no chunk is longer than the chunk length the image
declares (256, checked by `put`).  a2kit does not check it: `write_sector` silently drops what exceeds the sector, so
an accepted `put` of a longer chunk does **not** read back (see `design/FsDos.md`). -/
def ChunksFit (f : FImg) : Prop := ∀ k d, f.chunks.lookup k = some d → d.length ≤ 256

/-- the test of the repaired `put` (`Repairs.chunkGuard`): some chunk is longer than a sector -/
def hasLongChunk (f : FImg) : Bool := f.chunks.any (fun c => decide (c.2.length > 256))

theorem mem_of_lookup' {l : List (Nat × Bytes)} {k : Nat} {d : Bytes} (h : l.lookup k = some d) : (k, d) ∈ l := by
  induction l with
  | nil => cases h
  | cons x xs ih =>
    obtain ⟨a, b⟩ := x
    rw [List.lookup_cons] at h
    by_cases hk : k == a
    · rw [hk] at h
      simp only [Option.some.injEq] at h
      have : k = a := by simpa using hk
      rw [this, h]; exact List.mem_cons_self
    · have hk' : (k == a) = false := by simpa using hk
      rw [hk'] at h
      exact List.mem_cons_of_mem _ (ih h)

/-- a file image that passes the test of the repaired `put` has no over-long chunk -/
theorem chunksFit_of_guard {f : FImg} (h : hasLongChunk f = false) : ChunksFit f := by
  intro k d hd
  unfold hasLongChunk at h
  rw [List.any_eq_false] at h
  have := h (k, d) (mem_of_lookup' hd)
  simpa using this

/-- sectors a file image needs: one per stored chunk and one T/S list per 122 chunk indices -/
def sectorsNeeded (f : FImg) : Nat := f.chunks.length + (1 + (f.endIdx - 1) / 122)

/-- the results of `write_file` after which the T/S list sector it had reserved stays marked used although no file
leads to it: DISK FULL although enough sectors were free (the catalog has no free entry), RANGE ERROR (the file image
has no type byte) -/
def leakRes (res : R Nat) (f : FImg) (nf : Nat) : Prop :=
  (res = .error .diskFull ∧ sectorsNeeded f ≤ nf) ∨ res = .error .range

/-- what a `write_file` does to the C04 accounting (`sf` = the source searches the directory slot first,
`Repairs.slotFirst`): in the repaired source, and in the source as written unless the result is one of the two
refusals of `leakRes`, a reading without lost units stays so; as written, in those two cases exactly one free unit is
lost and nothing else changes -/
structure PutL (pre post : Vol) (res : R Nat) (f : FImg) (nf : Nat) (sf : Bool) : Prop where
  tight : (sf = true ∨ ¬ leakRes res f nf) → pre.noLeak = true → post.noLeak = true
  leak : sf = false → leakRes res f nf →
    post.files = pre.files ∧ post.free + 1 = pre.free ∧ post.sys = pre.sys ∧ post.lo = pre.lo ∧ post.hi = pre.hi

theorem PutL.same {v : Vol} {res : R Nat} {f : FImg} {nf : Nat} {sf : Bool} (h : sf = true ∨ ¬ leakRes res f nf) : PutL v v res f nf sf :=
  ⟨fun _ h => h, fun hs hl => by
    rcases h with h | h
    · rw [hs] at h; cases h
    · exact absurd hl h⟩

/-! ## chunk matching -/

theorem chunksMatch_iff' {s g : List (Nat × Bytes)} : chunksMatch s g = true ↔
    s.map (·.1) = g.map (·.1) ∧ ∀ p ∈ s.zip g, p.2.2.take p.1.2.length = p.1.2 := by
  unfold chunksMatch
  simp only [Bool.and_eq_true, beq_iff_eq, List.all_eq_true]

theorem chunksMatch_filterMap (look : Nat → Option Bytes) : ∀ (l : List Nat), (∀ k d, look k = some d → d.length ≤ 256) →
    chunksMatch (l.filterMap (fun k => (look k).map (fun d => (k, d))))
      (l.filterMap (fun k => (look k).map (fun d => (k, quantize d)))) = true := by
  intro l hl
  rw [chunksMatch_iff']
  induction l with
  | nil => simp
  | cons k l ih =>
    rw [List.filterMap_cons, List.filterMap_cons]
    cases hk : look k with
    | none => simpa using ih
    | some d =>
      simp only [Option.map_some, List.map_cons, List.zip_cons_cons, List.mem_cons]
      refine ⟨by rw [ih.1], ?_⟩
      rintro p (rfl | hp)
      · have := quantize_take (hl k d hk)
        simpa using this
      · exact ih.2 p hp

theorem lookup_mem_keys {l : List (Nat × Bytes)} {k : Nat} {d : Bytes} (h : l.lookup k = some d) : k ∈ l.map (·.1) := by
  induction l with
  | nil => simp [List.lookup] at h
  | cons a l ih =>
    obtain ⟨a1, a2⟩ := a
    by_cases hka : k = a1
    · subst hka; simp
    · have : (k == a1) = false := by simpa using hka
      rw [List.lookup_cons, this] at h
      exact List.mem_cons_of_mem _ (ih h)

/-- the number of indices with a stored chunk is at most the number of entries of the map -/
theorem todo_le (K : PCtx) : K.todo 0 ≤ K.chunks.length := by
  unfold PCtx.todo
  have hnd : ((rng 0 K.endIdx).filter (fun k => (K.chunks.lookup k).isSome)).Nodup := by
    unfold rng
    exact (List.filter_sublist (l := List.range' 0 (K.endIdx - 0))).nodup (List.nodup_range' (step := 1) (by decide))
  have := List.Nodup.length_le_of_subset hnd (l₂ := K.chunks.map (·.1)) (by
    intro k hk
    have := (List.mem_filter.1 hk).2
    cases hl : K.chunks.lookup k with
    | none => rw [hl] at this; cases this
    | some d => exact lookup_mem_keys hl)
  simpa using this

theorem foldl_max_ge (l : List (Nat × Bytes)) (acc : Nat) : acc ≤ l.foldl (fun m c => max m (c.1 + 1)) acc := by
  induction l generalizing acc with
  | nil => exact Nat.le_refl _
  | cons a l ih => exact Nat.le_trans (Nat.le_max_left _ _) (ih _)

theorem endIdx_pos {f : FImg} (h : f.chunks.length ≠ 0) : 0 < f.endIdx := by
  unfold FImg.endIdx
  cases hc : f.chunks with
  | nil => rw [hc] at h; simp at h
  | cons a l =>
    simp only [List.foldl_cons]
    have := foldl_max_ge l (max 0 (a.1 + 1))
    omega


/-! ## the catalog sector `put` writes -/

def newSector (b : Bytes) (e tt tsec ty : Nat) (fname cnt : Bytes) : Bytes :=
  splice (splice (splice b (entryOff e) [tt, tsec, ty]) (entryOff e + 3) fname) (entryOff e + 33) cnt

section newsec
variable {b : Bytes} {e tt tsec ty : Nat} {fname cnt : Bytes} (hb : b.length = 256) (he : e < 7) (hn : fname.length = 30)
  (hcn : cnt.length = 2)
include hb he hn hcn

theorem newSector_lens : (splice b (entryOff e) [tt, tsec, ty]).length = 256 ∧
    (splice (splice b (entryOff e) [tt, tsec, ty]) (entryOff e + 3) fname).length = 256 ∧
    (newSector b e tt tsec ty fname cnt).length = 256 := by
  have h1 : (splice b (entryOff e) [tt, tsec, ty]).length = 256 := by
    rw [splice_length (by unfold entryOff; simp; omega), hb]
  have h2 : (splice (splice b (entryOff e) [tt, tsec, ty]) (entryOff e + 3) fname).length = 256 := by
    rw [splice_length (by unfold entryOff at *; omega), h1]
  refine ⟨h1, h2, ?_⟩
  unfold newSector
  rw [splice_length (by unfold entryOff at *; omega), h2]

theorem newSector_getD_out {i : Nat} (hi : i < entryOff e ∨ entryOff e + 35 ≤ i) :
    (newSector b e tt tsec ty fname cnt).getD i 0 = b.getD i 0 := by
  obtain ⟨h1, h2, _⟩ := newSector_lens (tt := tt) (tsec := tsec) (ty := ty) hb he hn hcn
  unfold newSector
  rw [getD_splice_other (by unfold entryOff at *; omega) (by omega), getD_splice_other (by unfold entryOff at *; omega) (by omega),
    getD_splice_other (by unfold entryOff at *; simp; omega) (by simp; omega)]

theorem newSector_entry_other {j : Nat} (hj : j < 7) (hne : j ≠ e) :
    entryAt (newSector b e tt tsec ty fname cnt) j = entryAt b j := by
  obtain ⟨h1, h2, _⟩ := newSector_lens (tt := tt) (tsec := tsec) (ty := ty) hb he hn hcn
  unfold entryAt newSector
  have hor : 11 + 35 * j + 35 ≤ entryOff e ∨ entryOff e + 35 ≤ 11 + 35 * j := by
    unfold entryOff; rcases Nat.lt_or_gt_of_ne hne with h | h <;> omega
  rw [slice_splice_other (by unfold entryOff at *; omega) (by omega), slice_splice_other (by unfold entryOff at *; omega) (by omega),
    slice_splice_other (by unfold entryOff at *; simp; omega) (by simp; omega)]

theorem newSector_entry :
    (entryAt (newSector b e tt tsec ty fname cnt) e).getD 0 0 = tt ∧ (entryAt (newSector b e tt tsec ty fname cnt) e).getD 1 0 = tsec ∧
    (entryAt (newSector b e tt tsec ty fname cnt) e).getD 2 0 = ty ∧ slice (entryAt (newSector b e tt tsec ty fname cnt) e) 3 30 = fname := by
  obtain ⟨h1, h2, _⟩ := newSector_lens (tt := tt) (tsec := tsec) (ty := ty) hb he hn hcn
  have hl3 : entryOff e + [tt, tsec, ty].length ≤ b.length := by unfold entryOff; simp; omega
  have g : ∀ j, j < 3 → (newSector b e tt tsec ty fname cnt).getD (entryOff e + j) 0 = [tt, tsec, ty].getD j 0 := by
    intro j hj
    unfold newSector
    rw [getD_splice_other (by unfold entryOff at *; omega) (by omega), getD_splice_other (by unfold entryOff at *; omega) (by omega),
      getD_splice_in hl3 (by simp; omega)]
  have eo : entryOff e = 0x0B + 35 * e := rfl
  refine ⟨?_, ?_, ?_, ?_⟩
  · unfold entryAt; rw [getD_slice (by omega), ← eo]; have := g 0 (by omega); simpa using this
  · unfold entryAt; rw [getD_slice (by omega), ← eo]; have := g 1 (by omega); simpa using this
  · unfold entryAt; rw [getD_slice (by omega), ← eo]; have := g 2 (by omega); simpa using this
  · unfold entryAt newSector
    rw [slice_slice (by omega), ← eo, slice_splice_other (by unfold entryOff at *; omega) (by omega)]
    have := slice_splice_same (e := splice b (entryOff e) [tt, tsec, ty]) (new := fname) (off := entryOff e + 3) (by unfold entryOff at *; omega)
    rw [hn] at this
    exact this

end newsec

theorem slotIn_congr {r r' : Raw} {c : Nat} : ∀ {cat : List Nat}, (∀ u ∈ cat, sec r' u = sec r u) → slotIn r' c cat = slotIn r c cat := by
  intro cat
  induction cat with
  | nil => intro _; rfl
  | cons u rest ih =>
    intro h
    simp only [slotIn]
    rw [h u List.mem_cons_self, ih (fun x hx => h x (List.mem_cons_of_mem _ hx))]

/-- `get_next_directory_slot` on a state satisfying the invariant: the first free entry of the catalog chain, or
DISK FULL when every entry of every catalog sector is in use; the state is not changed -/
theorem nextDirectorySlot_eval {w : W} {sb : List Nat} {L : Lay} (hi : WInv w sb L) :
    nextDirectorySlot w = (match slotIn w.img w.c L.cat with | some x => .ok x | none => .error .diskFull, w) := by
  unfold nextDirectorySlot
  simp only [M.bind_apply, M.getV_apply]
  have hch : CatChain w.img w.c (Vtoc.track1 w.v) (Vtoc.sector1 w.v) L.cat := by
    have h1 : Vtoc.track1 w.v = (vtocOf w.img w.c).getD 1 0 := by unfold Vtoc.track1; rw [getD_vtocOf hi.ok (by omega)]
    have h2 : Vtoc.sector1 w.v = (vtocOf w.img w.c).getD 2 0 := by unfold Vtoc.sector1; rw [getD_vtocOf hi.ok (by omega)]
    rw [h1, h2]; exact hi.desc.cat
  exact slotLoop_ok hi.ok L.cat maxDirectoryReps _ _ (zeros 256) hch hi.catNe (Nat.le_of_lt hi.desc.catLen) (zeros_length' 256)

/-- the successful `write_file` (either variant of the source: the order in which the T/S list sector is reserved and
the directory slot searched does not matter when both succeed) -/
theorem writeFile_ok {w : W} {sb : List Nat} {L : Lay} (hi : WInv w sb L) {f : FImg} (rp : Repairs) (hfit : ChunksFit f)
    {fname : Bytes} (hfn : stringToFileName f.fullPath = .ok fname) (hfl : fname.length = 30) (hfb : ∀ x ∈ fname, 128 ≤ x ∧ x < 256)
    (hch : f.chunks.length ≠ 0) (hnone : findIn w.img w.c fname L.cat = none)
    (hspace : sectorsNeeded f ≤ nfree w.v w.c)
    {dt ds e : Nat} (hslot : slotIn w.img w.c L.cat = some (dt, ds, e))
    {ty : Nat} {tyr : Bytes} (hty : f.fsType = ty :: tyr) :
    ∃ wf L', writeFile f rp w = (.ok (sectorsNeeded f), wf) ∧ WInv wf sb L' ∧ wf.c = w.c ∧
      stepOk dosParams (volOf w.img w.c sb L) (.put (pathOfName fname) (putChunks f) 0 (ty % 128) 0) true
        (volOf wf.img w.c sb L') = true ∧
      ((volOf w.img w.c sb L).noLeak = true → (volOf wf.img w.c sb L').noLeak = true) := by
  have hok := hi.ok
  have haok := winv_aok hi
  have hc0 : 0 < w.c := by rcases hok.hc with e | e <;> omega
  have hend0 := endIdx_pos hch
  have hmp : Vtoc.maxPairs w.v = 122 := hok.vPairs
  unfold sectorsNeeded at hspace
  -- the lookups
  obtain ⟨o, hgts, hoi⟩ := getTslistSector_eval hi hfn
  have ho : o = none := hoi.2 hnone
  subst ho
  have hnum := numFree_eq hok.vok
  -- the T/S list sector
  obtain ⟨tt, tsec, hnf, htt1, htt, htsec, hTfree⟩ := alloc_step haok (by omega) true
  have hal := allocM_apply hok htt htsec
  have htk1 := alloc_taken hok.vok htt htsec
  have htk2 := updateLastTrack_taken htk1.ok htt
  have hlt1 : Vtoc.lastTrack (alloc' w.v w.c tt tsec) = Vtoc.lastTrack w.v :=
    getD_saveTrackMap_low hok.vlen htt (by decide)
  have hlast := updateLastTrack_last htk1.ok htt1 (by rw [hlt1]; exact hi.lastTrack)
  generalize hvA : updateLastTrack (alloc' w.v w.c tt tsec) tt = vA at htk2 hlast
  have htkA : Taken w.v vA w.c [tt * w.c + tsec] := (htk1.trans htk2).congr (fun x => by simp)
  have hokA : WOk (w.withV vA) := hok.setV htkA.ok
  have haokA : AOk vA w.c := aok_taken haok htkA hlast
  have hup : updateLastTrackM tt (w.withV (alloc' w.v w.c tt tsec)) = (.ok (), w.withV vA) := by
    rw [updateLastTrackM_apply]; show (_, (w.withV _).withV _) = _; rw [← hvA]; rfl
  -- the catalog slot
  have hcat17 : ∀ x ∈ L.cat, x ≠ vtocTrack * w.c := fun x hx => (cat_unit_facts hi.wf hx).1
  have hslotA : slotIn (w.withV vA).img w.c L.cat = some (dt, ds, e) := by
    rw [slotIn_congr (fun u hu => withV_sec vA (hcat17 u hu))]; exact hslot
  have hszA : (w.withV vA).img.units.size = w.img.units.size := by rw [W.img_size, W.img_size]; rfl
  have hchA : CatChain (w.withV vA).img w.c (Vtoc.track1 vA) (Vtoc.sector1 vA) L.cat := by
    have h1 : Vtoc.track1 vA = (vtocOf w.img w.c).getD 1 0 := by
      unfold Vtoc.track1; rw [htkA.low 1 (by decide) (by decide) (by decide), getD_vtocOf hok (by omega)]
    have h2 : Vtoc.sector1 vA = (vtocOf w.img w.c).getD 2 0 := by
      unfold Vtoc.sector1; rw [htkA.low 2 (by decide) (by decide) (by decide), getD_vtocOf hok (by omega)]
    rw [h1, h2]
    apply CatChain.congr hszA _ hi.desc.cat
    intro x hx; rw [withV_sec vA (hcat17 x hx)]; exact ⟨rfl, rfl⟩
  have hsl : nextDirectorySlot (w.withV vA) = (.ok (dt, ds, e), w.withV vA) := by
    unfold nextDirectorySlot
    simp only [M.bind_apply, M.getV_apply]
    have := slotLoop_ok hokA L.cat maxDirectoryReps _ _ (zeros 256) hchA hi.catNe (Nat.le_of_lt hi.desc.catLen) (zeros_length' 256)
    rw [show (w.withV vA).c = w.c from rfl, hslotA] at this
    exact this
  obtain ⟨ud, hud, hdt, hds, hfe⟩ := slotIn_some hslot
  obtain ⟨he7, hdead⟩ := freeEntry_some hfe
  obtain ⟨t', s', ht', hs', hue, hult⟩ := catChain_mem hi.desc.cat ud hud
  rw [W.img_size] at hult
  have hdm := div_mod_unit (t := t') hs'
  rw [← hue] at hdm
  rw [hdm.1] at hdt; rw [hdm.2] at hds
  subst hdt; subst hds
  have hbl : (sec w.img ud).length = 256 := sec_img_length hok hult
  obtain ⟨hne17, hownud⟩ := cat_unit_facts hi.wf hud
  have hnev : ¬ (dt = vtocTrack ∧ ds = 0) := fun e' => hne17 (by rw [hue]; exact (unit_idx hs').2 e')
  have hrd : readSectorM (zeros 256) dt ds (w.withV vA) = (.ok (sec w.img ud), w.withV vA) := by
    rw [readSectorM_ok hokA ht' hs' (zeros_length' 256), show (w.withV vA).c = w.c from rfl, ← hue, withV_sec vA hne17]
  have hfs : fullSector (sec w.img ud) = .ok () := by unfold fullSector sectorSize; rw [if_neg (by omega)]
  -- the catalog sector
  generalize hcnt : u16le ((1 + (f.endIdx - 1) / Vtoc.maxPairs w.v + f.chunks.length) % 65536) = cnt
  have hcl : cnt.length = 2 := by rw [← hcnt]; rfl
  obtain ⟨_, _, hdl⟩ := newSector_lens (b := sec w.img ud) (tt := tt) (tsec := tsec) (ty := ty) (fname := fname) (cnt := cnt) hbl he7 hfl hcl
  have husedA : bitFree (w.withV vA).v (w.withV vA).c dt ds = false := by
    show bitFree vA w.c dt ds = false
    rw [htkA.bits dt ds ht' hs', cat_used hi ht' hs' (hue ▸ hud)]; rfl
  have hwr := writeSectorM_used hokA (t := dt) (s := ds) (data := newSector (sec w.img ud) e tt tsec ty fname cnt) ht' hs' hnev hdl husedA
  rw [show (w.withV vA).v = vA from rfl] at hwr
  generalize hwD : (w.withV vA).wrote dt ds (newSector (sec w.img ud) e tt tsec ty fname cnt) vA = wD at hwr
  -- the loop
  let K : PCtx := PCtx.mk w.c w.img w.v (tt * w.c + tsec) tt tsec ud (newSector (sec w.img ud) e tt tsec ty fname cnt) f.chunks f.endIdx
    0 ((f.endIdx - 1) / 122)
  have hvtU : isFreeU w.v w.c (vtocTrack * w.c) = false := by
    have h1 : vtocTrack * w.c ∈ (volOf w.img w.c sb L).sys := by simp [volOf, fixedOf, vt_eq]
    have := sys_not_free hi h1
    cases hb : isFreeU w.v w.c (vtocTrack * w.c) with
    | false => rfl
    | true => exact absurd ⟨by unfold vtocTrack; omega, hb⟩ this
  have hudU : isFreeU w.v w.c ud = false := by
    rw [hue, isFreeU_unit hs']; exact cat_used hi ht' hs' (hue ▸ hud)
  have hk : PCtxOk K := ⟨hok.hc, rfl, htt1, htt, htsec, hTfree, hudU, hvtU, hne17, hdl⟩
  have hpre0 : Pre w tt tsec [] K := by
    refine ⟨rfl, rfl, rfl, hudU, hvtU, by rw [← hok.size]; exact hult, ⟨rfl, rfl⟩, ?_⟩
    exact ⟨by rw [W.img_size]; exact hok.size, rfl, List.nodup_nil, fun x hx => (by cases hx), Taken.refl hok.vok, fun _ _ _ _ => rfl⟩
  have hokD : WOk wD := by rw [← hwD]; exact wrote_ok' hokA ht' hs' hdl htkA.ok
  have hsecD : ∀ y, y ≠ vtocTrack * w.c → sec wD.img y = if y = ud then newSector (sec w.img ud) e tt tsec ty fname cnt else sec w.img y := by
    intro y hy
    rw [← hwD, sec_wrote' hokA ht' hs' _ _ hy, show (w.withV vA).c = w.c from rfl, ← hue, withV_sec vA hy]
  have hpz : ∀ k, pairT (zeros 256) k = 0 := fun k => getD_zeros' _ _
  have hpuz : pairUnits w.c (zeros 256) (List.range 122) = [] := by
    unfold pairUnits
    rw [List.filterMap_eq_nil_iff]
    intro k _; simp [hpz k]
  have hli0 : LI K 0 { tsl := zeros 256, tt := tt, tsec := tsec, p := 0, secBase := 0 } wD := by
    refine ⟨hokD, by rw [← hwD]; rfl, by rw [← hwD]; exact haokA, ⟨rfl, rfl, rfl⟩, zeros_length' 256, ?_, ⟨getD_zeros' _ _, getD_zeros' _ _⟩,
      fun k d hk' _ => absurd hk' (Nat.not_lt_zero _), fun k _ _ => hpz k, fun k _ h0 => absurd (hpz k) h0,
      fun k k' _ _ h0 => absurd (hpz k) h0, ?_, ?_, fun h => absurd h (Nat.lt_irrefl _), ?_⟩
    · show Taken w.v wD.v w.c ((tt * w.c + tsec) :: pairUnits w.c (zeros 256) (List.range 122))
      rw [hpuz, ← hwD]; exact htkA
    · intro x x1 x2 x3 _
      rw [hsecD x x3, if_neg x2]
    · rw [hsecD ud hne17, if_pos rfl]
    · show K.todo 0 + (f.endIdx - 1) / 122 ≤ nfree wD.v w.c
      have h1 := todo_le K
      have h2 := nfree_taken htk1 (unit_lt htt htsec) hTfree
      have h3 := nfree_taken_nil htk2
      have h4 : wD.v = vA := by rw [← hwD]; rfl
      have h5 : K.chunks.length = f.chunks.length := rfl
      rw [h4, h3]; omega
  obtain ⟨Df, Kf, pf, stf, wf, hlp, hkf, hpref, hlif, hsr, hbf, hpf, hposf⟩ :=
    loop_all f.endIdx 0 [] K 0 _ wD (Nat.sub_zero _) rfl (Nat.zero_le _) (Or.inl (by decide)) (by decide) hk hpre0 hli0
  have hbuilt := built_of hpref hkf hlif hpf (hposf (Or.inl hend0)) (by rw [hbf, hsr.endIdx])
  rw [hsr.ud, hsr.dir3, hsr.chunks, hsr.endIdx] at hbuilt
  rw [← List.range_eq_range'] at hlp
  -- the record
  obtain ⟨hn0, hn1, hn2, hn3⟩ := newSector_entry (b := sec w.img ud) (tt := tt) (tsec := tsec) (ty := ty) (fname := fname) (cnt := cnt) hbl he7 hfl hcl
  have hfresh := not_listed_of_findIn_none hi hfl hfb hnone
  obtain ⟨T1, T2, F1, F2, hinv, hfiles, hvol, hchunks, hwf', hgn, hgf, hfnd, hfree, hcp⟩ := put_entry hi hbuilt hud he7 hdead
    (newSector_getD_out hbl he7 hfl hcl (Or.inl (by unfold entryOff; omega)))
    (newSector_getD_out hbl he7 hfl hcl (Or.inl (by unfold entryOff; omega)))
    (entsOfSec_update he7 (fun j hj hne => newSector_entry_other hbl he7 hfl hcl hj hne))
    hn0 hn1 (by rw [hn3]; exact hfb) (by rw [hn3]; exact hfresh) htt1
  have hcf : wf.c = w.c := hbuilt.hc
  refine ⟨wf, _, ?_, hinv, hcf, ?_, by rw [hvol]; exact noLeak_inserted hfiles hfree⟩
  · have hsl0 : nextDirectorySlot w = (.ok (dt, ds, e), w) := by rw [nextDirectorySlot_eval hi, hslot]
    unfold writeFile writeTail
    simp only [M.bind_apply, M.getV_apply, M.lift_apply, M.pure_apply, hch, if_false, hgts, hnum, hty, hfn]
    have hcond : ¬ (f.chunks.length + (1 + (f.endIdx - 1) / Vtoc.maxPairs w.v) > nfree w.v w.c) := by rw [hmp]; omega
    cases hsf : rp.slotFirst <;>
    simp only [hcond, if_false, if_true, Bool.false_eq_true, M.pure_apply, M.bind_apply, nextFreeM_apply, hnf, hal, hup, hsl, hsl0, hrd, hfs,
      M.lift_apply, hfn] <;>
    (
    have hdir3 : splice (splice (splice (sec w.img ud) (entryOff e) [tt, tsec, ty]) (entryOff e + 3) fname) (entryOff e + 33)
        (u16le ((1 + (f.endIdx - 1) / Vtoc.maxPairs w.v + f.chunks.length) % 65536)) =
        newSector (sec w.img ud) e tt tsec ty fname cnt := by rw [hcnt]; rfl
    have hlp' : putLoop f.chunks 122 f.endIdx (List.range f.endIdx)
        { tsl := zeros 256, tt := tt, tsec := tsec, p := 0, secBase := 0 } wD = (.ok (), wf) := hlp
    simp only [hdir3]
    simp only [hwr, hmp]
    simp only [hlp']
    rfl)
  · rw [hvol]
    have hp : (recOf wf.img w.c (entryAt (newSector (sec w.img ud) e tt tsec ty fname cnt) e) (Df ++ [Kf.uT])).path = pathOfName fname := by
      show pathOfName (slice _ 3 30) = _; rw [hn3]
    rw [← hp]
    apply stepOk_put_inserted hfiles hi.wf hgn hgf hfnd hfree (by rw [hp]; exact hfresh) hcp rfl
    · rw [hchunks]
      exact chunksMatch_filterMap (fun k => f.chunks.lookup k) (List.range f.endIdx) hfit
    · rfl
    · intro _
      show (entryAt (newSector (sec w.img ud) e tt tsec ty fname cnt) e).getD 2 0 % 128 = ty % 128
      rw [hn2]
    · intro h; cases h


/-- `write_file` refused after the T/S list sector has been reserved (catalog full: DISK FULL; no file type: RANGE
ERROR): the reserved sector stays marked used in the buffer, the files are untouched -/
theorem writeFile_reserved_fail {w : W} {sb : List Nat} {L : Lay} (hi : WInv w sb L) {f : FImg} {rp : Repairs}
    (hsf : rp.slotFirst = false) {fname : Bytes} (hfn : stringToFileName f.fullPath = .ok fname)
    (hch : f.chunks.length ≠ 0) (hnone : findIn w.img w.c fname L.cat = none)
    (hspace : ¬ (f.chunks.length + (1 + (f.endIdx - 1) / Vtoc.maxPairs w.v) > nfree w.v w.c))
    (hfail : slotIn w.img w.c L.cat = none ∨ f.fsType = []) (op : FsOp) :
    ∃ er w', writeFile f rp w = (.error er, w') ∧ WInv w' sb L ∧ w'.c = w.c ∧
      stepOk dosParams (volOf w.img w.c sb L) op false (volOf w'.img w.c sb L) = true ∧
      (er = .diskFull ∨ er = .range) ∧ (volOf w'.img w.c sb L).files = (volOf w.img w.c sb L).files ∧
      (volOf w'.img w.c sb L).free + 1 = (volOf w.img w.c sb L).free := by
  have hok := hi.ok
  have haok := winv_aok hi
  obtain ⟨o, hgts, hoi⟩ := getTslistSector_eval hi hfn
  have ho : o = none := hoi.2 hnone
  subst ho
  have hnum := numFree_eq hok.vok
  have hpos : 0 < nfree w.v w.c := by
    rcases Nat.eq_zero_or_pos (nfree w.v w.c) with h0 | h0
    · exfalso; apply hspace; rw [h0]; generalize (f.endIdx - 1) / Vtoc.maxPairs w.v = q; omega
    · exact h0
  obtain ⟨tt, tsec, hnf, htt1, htt, htsec, hTfree⟩ := alloc_step haok hpos true
  have hal := allocM_apply hok htt htsec
  have htk1 := alloc_taken hok.vok htt htsec
  have htk2 := updateLastTrack_taken htk1.ok htt
  have hlt1 : Vtoc.lastTrack (alloc' w.v w.c tt tsec) = Vtoc.lastTrack w.v :=
    getD_saveTrackMap_low hok.vlen htt (by decide)
  have hlast := updateLastTrack_last htk1.ok htt1 (by rw [hlt1]; exact hi.lastTrack)
  generalize hvA : updateLastTrack (alloc' w.v w.c tt tsec) tt = vA at htk2 hlast
  have htkA : Taken w.v vA w.c [tt * w.c + tsec] := (htk1.trans htk2).congr (fun x => by simp)
  have hokA : WOk (w.withV vA) := hok.setV htkA.ok
  have hup : updateLastTrackM tt (w.withV (alloc' w.v w.c tt tsec)) = (.ok (), w.withV vA) := by
    rw [updateLastTrackM_apply]; show (_, (w.withV _).withV _) = _; rw [← hvA]; rfl
  have hcat17 : ∀ x ∈ L.cat, x ≠ vtocTrack * w.c := fun x hx => (cat_unit_facts hi.wf hx).1
  have hszA : (w.withV vA).img.units.size = w.img.units.size := by rw [W.img_size, W.img_size]; rfl
  have hchA : CatChain (w.withV vA).img w.c (Vtoc.track1 vA) (Vtoc.sector1 vA) L.cat := by
    have h1 : Vtoc.track1 vA = (vtocOf w.img w.c).getD 1 0 := by
      unfold Vtoc.track1; rw [htkA.low 1 (by decide) (by decide) (by decide), getD_vtocOf hok (by omega)]
    have h2 : Vtoc.sector1 vA = (vtocOf w.img w.c).getD 2 0 := by
      unfold Vtoc.sector1; rw [htkA.low 2 (by decide) (by decide) (by decide), getD_vtocOf hok (by omega)]
    rw [h1, h2]
    apply CatChain.congr hszA _ hi.desc.cat
    intro x hx; rw [withV_sec vA (hcat17 x hx)]; exact ⟨rfl, rfl⟩
  have hslE : nextDirectorySlot (w.withV vA) =
      (match slotIn w.img w.c L.cat with | some x => .ok x | none => .error .diskFull, w.withV vA) := by
    unfold nextDirectorySlot
    simp only [M.bind_apply, M.getV_apply]
    have := slotLoop_ok hokA L.cat maxDirectoryReps _ _ (zeros 256) hchA hi.catNe (Nat.le_of_lt hi.desc.catLen) (zeros_length' 256)
    rw [show (w.withV vA).c = w.c from rfl, slotIn_congr (fun u hu => withV_sec vA (hcat17 u hu))] at this
    exact this
  obtain ⟨hinvA, hfilesA⟩ := winv_taken hi htkA hlast
  have hstep : stepOk dosParams (volOf w.img w.c sb L) op false (volOf (w.withV vA).img w.c sb L) = true :=
    stepOk_refused_files hi.wf hinvA.wf hfilesA op
  have hfreeA : (volOf (w.withV vA).img w.c sb L).free + 1 = (volOf w.img w.c sb L).free := by
    show (freeOf (w.withV vA).img w.c).length + 1 = (freeOf w.img w.c).length
    have e1 := freeOf_eq hokA
    rw [show (w.withV vA).c = w.c from rfl, show (w.withV vA).v = vA from rfl] at e1
    rw [e1, freeOf_eq hok]
    exact nfree_taken htkA (unit_lt htt htsec) hTfree
  cases hslot : slotIn w.img w.c L.cat with
  | none =>
    refine ⟨.diskFull, w.withV vA, ?_, hinvA, rfl, hstep, Or.inl rfl, hfilesA, hfreeA⟩
    unfold writeFile
    simp only [M.bind_apply, M.getV_apply, M.lift_apply, M.pure_apply, hch, if_false, hgts, hnum, hspace, nextFreeM_apply, hnf, hal,
      hup, hslE, hslot, hsf, Bool.false_eq_true]
  | some x =>
    obtain ⟨dt, ds, e⟩ := x
    have hty : f.fsType = [] := by
      rcases hfail with h | h
      · rw [hslot] at h; cases h
      · exact h
    obtain ⟨ud, hud, hdt, hds, hfe⟩ := slotIn_some hslot
    obtain ⟨t', s', ht', hs', hue, hult⟩ := catChain_mem hi.desc.cat ud hud
    rw [W.img_size] at hult
    have hdm := div_mod_unit (t := t') hs'
    rw [← hue] at hdm
    rw [hdm.1] at hdt; rw [hdm.2] at hds
    subst hdt; subst hds
    have hbl : (sec w.img ud).length = 256 := sec_img_length hok hult
    have hne17 := (cat_unit_facts hi.wf hud).1
    have hrd : readSectorM (zeros 256) dt ds (w.withV vA) = (.ok (sec w.img ud), w.withV vA) := by
      rw [readSectorM_ok hokA ht' hs' (zeros_length' 256), show (w.withV vA).c = w.c from rfl, ← hue, withV_sec vA hne17]
    have hfs : fullSector (sec w.img ud) = .ok () := by unfold fullSector sectorSize; rw [if_neg (by omega)]
    refine ⟨.range, w.withV vA, ?_, hinvA, rfl, hstep, Or.inr rfl, hfilesA, hfreeA⟩
    unfold writeFile
    simp only [M.bind_apply, M.getV_apply, M.lift_apply, M.pure_apply, hch, if_false, hgts, hnum, hspace, nextFreeM_apply, hnf, hal,
      hup, hslE, hslot, hrd, hfs, hty, M.fail_apply, hsf, Bool.false_eq_true]

/-- the repaired source (`slotFirst`): a full catalog (DISK FULL) or a missing type byte (RANGE ERROR) refuses the file
**before** anything is reserved — the state is returned as it was -/
theorem writeFile_early_fail {w : W} {sb : List Nat} {L : Lay} (hi : WInv w sb L) {f : FImg} {rp : Repairs}
    (hsf : rp.slotFirst = true) {fname : Bytes} (hfn : stringToFileName f.fullPath = .ok fname)
    (hch : f.chunks.length ≠ 0) (hnone : findIn w.img w.c fname L.cat = none)
    (hspace : ¬ (f.chunks.length + (1 + (f.endIdx - 1) / Vtoc.maxPairs w.v) > nfree w.v w.c))
    (hfail : slotIn w.img w.c L.cat = none ∨ f.fsType = []) :
    ∃ er, writeFile f rp w = (.error er, w) := by
  have hok := hi.ok
  have haok := winv_aok hi
  obtain ⟨o, hgts, hoi⟩ := getTslistSector_eval hi hfn
  have ho : o = none := hoi.2 hnone
  subst ho
  have hnum := numFree_eq hok.vok
  have hpos : 0 < nfree w.v w.c := by
    rcases Nat.eq_zero_or_pos (nfree w.v w.c) with h0 | h0
    · exfalso; apply hspace; rw [h0]; generalize (f.endIdx - 1) / Vtoc.maxPairs w.v = q; omega
    · exact h0
  obtain ⟨tt, tsec, hnf, _⟩ := alloc_step haok hpos true
  have hsl := nextDirectorySlot_eval hi
  cases hslot : slotIn w.img w.c L.cat with
  | none =>
    refine ⟨.diskFull, ?_⟩
    unfold writeFile
    simp only [M.bind_apply, M.getV_apply, M.lift_apply, M.pure_apply, hch, if_false, hgts, hnum, hspace, nextFreeM_apply, hnf,
      hsl, hslot, hsf, if_true]
  | some x =>
    obtain ⟨dt, ds, e⟩ := x
    have hty : f.fsType = [] := by
      rcases hfail with h | h
      · rw [hslot] at h; cases h
      · exact h
    refine ⟨.range, ?_⟩
    unfold writeFile
    simp only [M.bind_apply, M.getV_apply, M.lift_apply, M.pure_apply, hch, if_false, hgts, hnum, hspace, nextFreeM_apply, hnf,
      hsl, hslot, hsf, if_true, hty, M.fail_apply]


/-- **`put` refines the specification** (any number of T/S lists, holes, short chunks; either variant of the source):
accepted → exactly one record is inserted, on previously free sectors, reading back the stored chunks; refused (empty
image, name in use, not enough free sectors, catalog full, no type) → the files are untouched and the volume stays well
formed.  C04 (`PutL`): no unit is lost, except — in the source as written — by the two refusals that come after the T/S
list sector has been reserved; in the repaired source (`slotFirst`) every refusal returns the state as it was. -/
theorem putM_refines {w : W} {sb : List Nat} {L : Lay} (hi : WInv w sb L) {f : FImg} (rp : Repairs) (hfit : ChunksFit f)
    {fname : Bytes} (hfn : stringToFileName f.fullPath = .ok fname) (hfl : fname.length = 30) (hfb : ∀ x ∈ fname, 128 ≤ x ∧ x < 256) :
    ∃ res w' L', writeFile f rp w = (res, w') ∧ WInv w' sb L' ∧ w'.c = w.c ∧
      stepOk dosParams (volOf w.img w.c sb L) (.put (pathOfName fname) (putChunks f) 0 (f.fsType.getD 0 0 % 128) 0) (isOk res)
        (volOf w'.img w.c sb L') = true ∧
      PutL (volOf w.img w.c sb L) (volOf w'.img w.c sb L') res f (nfree w.v w.c) rp.slotFirst ∧
      (rp.slotFirst = true → isOk res = false → w' = w) := by
  by_cases hch : f.chunks.length = 0
  · refine ⟨.error .endOfData, w, L, ?_, hi, rfl, stepOk_refused_same hi.wf _, PutL.same (Or.inr (by unfold leakRes; simp)), fun _ _ => rfl⟩
    unfold writeFile
    simp only [M.bind_apply, M.getV_apply, hch, if_true, M.fail_apply]
  · obtain ⟨o, hgts, hoi⟩ := getTslistSector_eval hi hfn
    cases hf : findIn w.img w.c fname L.cat with
    | some x =>
      have ho : o ≠ none := fun e => by rw [hoi.1 e] at hf; cases hf
      refine ⟨.error .writeProtected, w, L, ?_, hi, rfl, stepOk_refused_same hi.wf _, PutL.same (Or.inr (by unfold leakRes; simp)), fun _ _ => rfl⟩
      unfold writeFile
      simp only [M.bind_apply, M.getV_apply, hch, if_false, M.pure_apply, hgts]
      cases o with
      | none => exact absurd rfl ho
      | some y => rfl
    | none =>
      have ho : o = none := hoi.2 hf
      subst ho
      have hnum := numFree_eq hi.ok.vok
      by_cases hsp : f.chunks.length + (1 + (f.endIdx - 1) / Vtoc.maxPairs w.v) > nfree w.v w.c
      · refine ⟨.error .diskFull, w, L, ?_, hi, rfl, stepOk_refused_same hi.wf _, PutL.same (Or.inr ?_), fun _ _ => rfl⟩
        · unfold writeFile
          simp only [M.bind_apply, M.getV_apply, M.lift_apply, hch, if_false, M.pure_apply, hgts, hnum, hsp, if_true, M.fail_apply]
        · rw [hi.ok.vPairs] at hsp
          unfold leakRes sectorsNeeded
          simp only [reduceCtorEq, or_false, Except.error.injEq, not_and, Nat.not_le]
          intro _; exact hsp
      · have hsp' : sectorsNeeded f ≤ nfree w.v w.c := by
          rw [hi.ok.vPairs] at hsp; unfold sectorsNeeded; omega
        have refusal : (slotIn w.img w.c L.cat = none ∨ f.fsType = []) →
            ∃ res w' L', writeFile f rp w = (res, w') ∧ WInv w' sb L' ∧ w'.c = w.c ∧
              stepOk dosParams (volOf w.img w.c sb L) (.put (pathOfName fname) (putChunks f) 0 (f.fsType.getD 0 0 % 128) 0) (isOk res)
                (volOf w'.img w.c sb L') = true ∧
              PutL (volOf w.img w.c sb L) (volOf w'.img w.c sb L') res f (nfree w.v w.c) rp.slotFirst ∧
              (rp.slotFirst = true → isOk res = false → w' = w) := by
          intro hfail
          cases hsf : rp.slotFirst with
          | true =>
            obtain ⟨er, he⟩ := writeFile_early_fail hi hsf hfn hch hf hsp hfail
            exact ⟨_, w, L, he, hi, rfl, stepOk_refused_same hi.wf _, PutL.same (Or.inl rfl), fun _ _ => rfl⟩
          | false =>
            obtain ⟨er, w', he, hinv, hc, hs, her, hfs, hfr⟩ := writeFile_reserved_fail hi hsf hfn hch hf hsp hfail
              (.put (pathOfName fname) (putChunks f) 0 (f.fsType.getD 0 0 % 128) 0)
            have hlk : leakRes (.error er : R Nat) f (nfree w.v w.c) := by
              rcases her with rfl | rfl
              · exact Or.inl ⟨rfl, hsp'⟩
              · exact Or.inr rfl
            refine ⟨_, w', L, he, hinv, hc, hs, ⟨fun hn => ?_, fun _ _ => ⟨hfs, hfr, rfl, rfl, rfl⟩⟩, fun h => by cases h⟩
            rcases hn with hn | hn
            · cases hn
            · exact absurd hlk hn
        cases hslot : slotIn w.img w.c L.cat with
        | none => exact refusal (Or.inl hslot)
        | some x =>
          obtain ⟨dt, ds, e⟩ := x
          cases hty : f.fsType with
          | nil => rw [← hty]; exact refusal (Or.inr hty)
          | cons ty tyr =>
            obtain ⟨wf, L', he, hinv, hc, hs, hnl⟩ := writeFile_ok hi rp hfit hfn hfl hfb hch hf hsp' hslot hty
            refine ⟨_, wf, L', he, hinv, hc, by simpa using hs, ⟨fun _ => hnl, fun _ hl => by unfold leakRes at hl; simp at hl⟩, fun _ h => by cases h⟩

/-- C04, acceptance clause for the concrete DOS model: a file image with at least one chunk, a type, a valid name
not yet in the catalog, for which the catalog has a free entry and `sectorsNeeded f` (data sectors + one T/S list
per 122 chunk indices) free sectors exist, **is accepted** — `write_file` returns `Ok(sectorsNeeded f)`.
(a2kit answers DISK FULL both for lack of space and for a full catalog.) -/
theorem writeFile_accepts {w : W} {sb : List Nat} {L : Lay} (hi : WInv w sb L) {f : FImg} (hfit : ChunksFit f)
    (hv : isNameValid f.fullPath = true) (hch : f.chunks.length ≠ 0) (hty : f.fsType ≠ [])
    (hfresh : pathOf f.fullPath ∉ (volOf w.img w.c sb L).paths)
    (hslot : (slotIn w.img w.c L.cat).isSome = true) (hspace : sectorsNeeded f ≤ nfree w.v w.c) (rp : Repairs := {}) :
    (writeFile f rp w).1 = .ok (sectorsNeeded f) := by
  obtain ⟨fname, hfn, hfl, hfb⟩ := stringToFileName_ok hv
  have hp : pathOf f.fullPath = pathOfName fname := by unfold pathOf; rw [hfn]
  have hnone : findIn w.img w.c fname L.cat = none := by
    cases hf : findIn w.img w.c fname L.cat with
    | none => rfl
    | some x =>
      exfalso
      obtain ⟨dt, ds, dir, k⟩ := x
      obtain ⟨u, hu, _, _, hdir, hm⟩ := findIn_some hf
      obtain ⟨hk, hname, hlive⟩ := matchEntry_some hm
      apply hfresh
      rw [hp]
      obtain ⟨t, _, hmem⟩ := filesOf_mem_left (r := w.img) (c := w.c) hi.desc.files (mem_liveOf.2 ⟨u, hu, k, hk, rfl, hlive⟩)
      unfold Vol.paths
      refine List.mem_map.2 ⟨_, hmem, ?_⟩
      show pathOfName (slice (entryAt (sec w.img u) k) 3 30) = _
      rw [hname]
  cases hs : slotIn w.img w.c L.cat with
  | none => rw [hs] at hslot; cases hslot
  | some x =>
    obtain ⟨dt, ds, e⟩ := x
    cases hty' : f.fsType with
    | nil => exact absurd hty' hty
    | cons ty tyr =>
      obtain ⟨wf, L', he, _⟩ := writeFile_ok hi rp hfit hfn hfl hfb hch hnone hspace hs hty'
      rw [he]

end A2Verif.Fs.Dos3x
