import A2Verif.Lemmas.FsCpmModify
import A2Verif.Lemmas.FsCpmPutAbs4
/-!
# `protect` / `unprotect` (CP/M 3 password entries): rewriting entries that are not file entries

Both operations replace directory entries that are not file entries (a password entry, an unused entry, the label) by entries
that are not file entries.  The reading of such an image: the same files from the same entries and blocks; the only field of a
record that depends on the other entries is the password bit of `access` (`pwOf`), and it can change for one key only.
-/
namespace A2Verif.FsCpm
open A2Verif.Fs.Cpm
open A2Verif.Read.Cpm (Dpb fileKey extNum entryPtrs pathOf slots trimR)

/-- the fields of a record that do not depend on the rest of the directory -/
theorem recOf_ents_fields (r : Raw) (d : Dpb) (ents ents' es : List Bytes) :
    (recOf r d ents' es).path = (recOf r d ents es).path ∧ (recOf r d ents' es).chunks = (recOf r d ents es).chunks ∧
    (recOf r d ents' es).eof = (recOf r d ents es).eof ∧ (recOf r d ents' es).owned = (recOf r d ents es).owned ∧
    (recOf r d ents' es).ftype = (recOf r d ents es).ftype ∧ (recOf r d ents' es).aux = (recOf r d ents es).aux ∧
    (recOf r d ents' es).isDir = (recOf r d ents es).isDir ∧ (recOf r d ents' es).locked = (recOf r d ents es).locked :=
  ⟨rfl, rfl, rfl, rfl, rfl, rfl, rfl, rfl⟩

/-- **a directory in which entries that are not file entries were replaced by such entries** reads as the same files; only the
directory the password bit is computed from is the new one -/
theorem nf_spec {d : Dpb} {r r' : Raw} {res : R Unit} {dir' : Dir} (h : Inv d r) (hlen : dir'.length = (dirOf d r).length)
    (hstep : ∀ (j : Nat) (a b : Bytes), dir'[j]? = some a → (dirOf d r)[j]? = some b →
      a = b ∨ (isExtent b = false ∧ isExtent a = false ∧ a.length = 32))
    (hsave : saveDirectory d r dir' = (res, r')) :
    res = .ok () ∧ Inv d r' ∧ filesOf d r' = (keys d r).map (fun k => recOf r d dir' (esOf d r k)) := by
  have hl := dirOf_entry_length h.shape h.dpb
  have hl' : ∀ e ∈ dir', e.length = 32 := by
    intro e he
    obtain ⟨j, hj⟩ := List.mem_iff_getElem?.1 he
    have hlt : j < (dirOf d r).length := by rw [← hlen]; exact (List.getElem?_eq_some_iff.1 hj).1
    rcases hstep j e _ hj (List.getElem?_eq_getElem hlt) with rfl | ⟨_, _, h3⟩
    · exact hl _ (List.getElem_mem hlt)
    · exact h3
  obtain ⟨r2, e1, hs', hother, hdir⟩ := saveDirectory_spec (dir := dir') h.shape h.dpb (by rw [hlen, dirOf_length]) hl'
  rw [e1] at hsave
  cases hsave
  have hfe : fents d r' = fents d r := by
    unfold fents fentsOf
    rw [hdir]
    apply filter_pos _ _ _ hlen
    intro j a b ha hb hq
    rcases hstep j a b ha hb with e | ⟨n1, n2, _⟩
    · exact e
    · exfalso
      simp only [decide_eq_true_eq] at hq
      rcases hq with hq | hq
      · rw [(isExtent_iff a).2 hq] at n2; cases n2
      · rw [(isExtent_iff b).2 hq] at n1; cases n1
  have hk : keys d r' = keys d r := by unfold keys; rw [hfe]
  have hes : ∀ k, esOf d r' k = esOf d r k := by intro k; unfold esOf; rw [hfe]
  refine ⟨rfl, ⟨h.dpb, hs', ?_, ?_, ?_⟩, ?_⟩
  · intro k hk'
    rw [hk] at hk'
    rw [hes k]
    exact h.good k hk'
  · rw [hfe]; exact h.clean
  · rw [hfe]; exact h.noShare
  · unfold filesOf
    rw [hk, hdir]
    apply List.map_congr_left
    intro k _
    rw [hes k]
    apply recOf_congr
    · intro e he p hp
      exact hother p (owned_not_dir h (mem_esOf.1 he).1 hp)
    · rfl

/-! ## whose password entry an entry can be -/

/-- `e` can be the password entry of the file with key `K` only -/
def PwNeutral (K : List Nat) (e : Bytes) : Prop :=
  ∀ first : Bytes, first.getD 0 0 < 16 → e.getD 0 0 = first.getD 0 0 + 16 →
    ((slice e 1 11).map (· % 128) == (slice first 1 11).map (· % 128)) = true → fileKey first = K

theorem pwNeutral_of_status {K : List Nat} {e : Bytes} (h : e.getD 0 0 < 16 ∨ 32 ≤ e.getD 0 0) : PwNeutral K e := by
  intro first h0 h1 _
  omega

theorem pwNeutral_of_fields {u : Nat} {K7 : List Nat} {e : Bytes} (hs : e.getD 0 0 = u + 16)
    (hn : (slice e 1 11).map (· % 128) = K7) : PwNeutral (u :: K7) e := by
  intro first _ h1 h2
  unfold Read.Cpm.fileKey
  have : first.getD 0 0 = u := by omega
  rw [this, ← hn]
  have h3 : (slice e 1 11).map (· % 128) = (slice first 1 11).map (· % 128) := by simpa using h2
  rw [h3]

/-- the password bit of a file other than `K` is unaffected -/
theorem pw_other {K : List Nat} {dir dir' : Dir} (hlen : dir'.length = dir.length)
    (hstep : ∀ (j : Nat) (a b : Bytes), dir'[j]? = some a → dir[j]? = some b → a = b ∨ (PwNeutral K a ∧ PwNeutral K b))
    {first : Bytes} (h0 : first.getD 0 0 < 16) (hk : fileKey first ≠ K) : pwOf dir' first = pwOf dir first := by
  unfold pwOf
  apply any_pos _ _ _ hlen
  intro j a b ha hb
  rcases hstep j a b ha hb with rfl | ⟨na, nb⟩
  · rfl
  · have fa : ¬ (a.getD 0 0 = first.getD 0 0 + 16 ∧
        ((slice a 1 11).map (· % 128) == (slice first 1 11).map (· % 128)) = true) := fun c => hk (na first h0 c.1 c.2)
    have fb : ¬ (b.getD 0 0 = first.getD 0 0 + 16 ∧
        ((slice b 1 11).map (· % 128) == (slice first 1 11).map (· % 128)) = true) := fun c => hk (nb first h0 c.1 c.2)
    simp only [fa, fb, decide_false]

/-! ## two listings over the same keys whose records have the same paths -/

theorem lookups_fieldwise {pre post : Vol} {κ : Type} (ks : List κ) (F F' : κ → FileRec)
    (hpre : pre.files = ks.map F) (hpost : post.files = ks.map F') (hpath : ∀ k ∈ ks, (F' k).path = (F k).path)
    (hwpost : post.wfB = true) {q : Bytes} {f : FileRec} (hf : pre.lookup q = some f) :
    ∃ k ∈ ks, f = F k ∧ post.lookup q = some (F' k) := by
  obtain ⟨hm, hq⟩ := lookup_some hf
  rw [hpre, List.mem_map] at hm
  obtain ⟨k, hk, rfl⟩ := hm
  refine ⟨k, hk, rfl, ?_⟩
  unfold Vol.lookup
  rw [← hq, ← hpath k hk]
  exact find_path_of_mem (wfB_paths_nodup hwpost) (by rw [hpost]; exact List.mem_map_of_mem hk)

/-- every file keeps its content, length, blocks and read-only flag (and its path) -/
def ContentKept (pre post : Vol) : Prop :=
  ∀ (q : Bytes) (f : FileRec), pre.lookup q = some f → ∃ g, post.lookup q = some g ∧ g.chunks = f.chunks ∧ g.eof = f.eof ∧
    g.owned = f.owned ∧ g.locked = f.locked ∧ g.isDir = f.isDir

end A2Verif.FsCpm
