import A2Verif.Model.Renumber
/-!
Helper lemmas for property C16.

Part 1: one-dimensional edits on a list: applying ascending, pairwise disjoint range edits bottom-up
(last one first) equals the simultaneous substitution.
-/
namespace A2Verif.Lemmas.Renumber
open A2Verif.Model.Renumber

/-- a one-dimensional edit: replace the characters `[s,e)` by `new` -/
structure E1 where
  s : Nat
  e : Nat
  new : List Nat
  deriving Repr, DecidableEq

/-- `String::replace_range(s..e,new)` -/
def replace1 (l : List Nat) (x : E1) : List Nat := l.take x.s ++ x.new ++ l.drop x.e

/-- sequential application of an ascending list, bottom-up: the last edit is applied first -/
def seqDesc (l : List Nat) : List E1 → List Nat
  | [] => l
  | x :: xs => replace1 (seqDesc l xs) x

/-- simultaneous substitution: `l` is the part of the original text from column `off` on -/
def substAsc (off : Nat) (l : List Nat) : List E1 → List Nat
  | [] => l
  | x :: xs => l.take (x.s - off) ++ x.new ++ substAsc x.e (l.drop (x.e - off)) xs

/-- ascending, pairwise disjoint (touching allowed), inside `[off,len]` -/
def Chain (off len : Nat) : List E1 → Prop
  | [] => True
  | x :: xs => off ≤ x.s ∧ x.s ≤ x.e ∧ x.e ≤ len ∧ Chain x.e len xs

def decChain (len : Nat) : (xs : List E1) → (off : Nat) → Decidable (Chain off len xs)
  | [], _ => isTrue trivial
  | x :: xs, off =>
    have := decChain len xs x.e
    by unfold Chain; exact inferInstance

instance (off len : Nat) (xs : List E1) : Decidable (Chain off len xs) := decChain len xs off

theorem seqDesc_eq_substAsc (l : List Nat) (xs : List E1) (off : Nat)
    (hoff : off ≤ l.length) (h : Chain off l.length xs) :
    seqDesc l xs = l.take off ++ substAsc off (l.drop off) xs := by
  induction xs generalizing off with
  | nil => simp [seqDesc, substAsc]
  | cons x xs ih =>
    obtain ⟨h1, h2, h3, h4⟩ := h
    have ih' := ih x.e h3 h4
    simp only [seqDesc, substAsc, replace1, ih']
    have e1 : List.take x.s (List.take x.e l ++ substAsc x.e (List.drop x.e l) xs) = List.take x.s l := by
      rw [List.take_append_of_le_length (by simp; omega)]
      rw [List.take_take]; congr 1; omega
    have e2 : List.drop x.e (List.take x.e l ++ substAsc x.e (List.drop x.e l) xs)
        = substAsc x.e (List.drop x.e l) xs := by
      have : (List.take x.e l).length = x.e := by simp; omega
      rw [List.drop_append_of_le_length (by omega)]
      simp
    rw [e1, e2]
    have e3 : List.take off l ++ List.take (x.s - off) (List.drop off l) = List.take x.s l := by
      have := List.take_add (l := l) (i := off) (j := x.s - off)
      rw [← this]; congr 1; omega
    have e4 : List.drop (x.e - off) (List.drop off l) = List.drop x.e l := by
      rw [List.drop_drop]; congr 1; omega
    rw [e4]
    simp only [← List.append_assoc]
    rw [e3]

/-- (iv) for one list: bottom-up application = simultaneous substitution -/
theorem seqDesc_eq_subst (l : List Nat) (xs : List E1) (h : Chain 0 l.length xs) :
    seqDesc l xs = substAsc 0 l xs := by
  simpa using seqDesc_eq_substAsc l xs 0 (Nat.zero_le _) h

/-! Part 2: inversion of `plan` / `renumber` -/

/-- the last new number `ln` of `build_edits` -/
def lastNum (p : Params) (sel : Range) (defs : List (Nat × Label)) : Nat :=
  p.l0 + p.dl * ((selGroup sel defs).length - 1)

/-- what a successful `plan` has established -/
structure PlanFacts (allTxt : List Nat) (defs refs : List (Nat × Label)) (extSel : Option Range) (p : Params)
    (pl : Plan) : Prop where
  l0_ok : p.minNum ≤ p.l0 ∧ p.l0 ≤ p.maxNum
  dl_ok : 1 ≤ p.dl ∧ p.dl ≤ p.maxNum
  selNorm : ∃ ep, normSel (splitLines allTxt) ep extSel = .ok pl.sel
  lineSepOk : pl.lineSep = [CR, LF] ∨ pl.lineSep = [LF]
  selTxtEq : pl.selTxt =
    (rangeList pl.sel.s.line pl.sel.e.line).flatMap fun l => (splitLines allTxt)[l]?.getD [] ++ pl.lineSep
  nsel : 1 ≤ (selGroup pl.sel defs).length
  bound : lastNum p pl.sel defs ≤ p.maxNum
  check : ∃ ins0, checkLoop pl.sel p.l0 (lastNum p pl.sel defs) (group defs) 0 = some ins0 ∧
    pl.ins = pushBlank (splitLines allTxt) 0 ins0
  move : p.allowMove = false → pl.ins = pl.sel.s.line
  mapping : pl.mapping = mkMapping p.l0 p.dl ((selGroup pl.sel defs).map (·.1))
  selEdits : pl.selEdits = primEdits pl.mapping (selGroup pl.sel defs) ++
    (if p.updateRefs then secEdits pl.mapping (selGroup pl.sel refs) (fun _ => true) else [])
  unselEdits : pl.unselEdits =
    if p.updateRefs then
      secEdits pl.mapping (group refs)
        (fun item => item.rng.s.line < pl.sel.s.line || item.rng.e.line > pl.sel.e.line)
    else []

theorem plan_ok_inv {allTxt : List Nat} {defs refs : List (Nat × Label)} {extSel : Option Range} {p : Params}
    {pl : Plan} (h : plan allTxt defs refs extSel p = .ok pl) : PlanFacts allTxt defs refs extSel p pl := by
  unfold plan at h
  simp only [] at h
  split at h
  · cases h
  split at h
  · cases h
  split at h
  · cases h
  rename_i last hlast
  cases hn : normSel (splitLines allTxt) ⟨(splitLines allTxt).length - 1, last.length⟩ extSel with
  | err => simp [hn, Res.bind] at h
  | panic => simp [hn, Res.bind] at h
  | ok sel =>
    simp only [hn, Res.bind] at h
    split at h
    · cases h
    split at h
    · cases h
    split at h
    · cases h
    split at h
    · cases h
    rename_i ins0 hck
    split at h
    · cases h
    rename_i h1 h2 hsel hn1 hbound hmove
    injection h with h
    subst h
    refine ⟨by omega, by omega, ⟨_, hn⟩, ?_, rfl, ?_, ?_, ⟨ins0, hck, rfl⟩, ?_, rfl, rfl, rfl⟩
    · dsimp only; split <;> simp
    · dsimp only; omega
    · dsimp only [lastNum]; omega
    intro ham
    simp [ham] at hmove
    exact hmove

/-- a label lies on the selected rows (the test of linenum.rs:136) -/
def onSelRows (sel : Range) (l : Label) : Prop := sel.s.line ≤ l.rng.s.line ∧ l.rng.e.line ≤ sel.e.line

theorem checkLoop_some {sel : Range} {l0 ln : Nat} {xs : List (Nat × List Label)} {ins ins' : Nat}
    (h : checkLoop sel l0 ln xs ins = some ins') :
    ∀ x ∈ xs, ∃ i0, x.2 = [i0] ∧ (onSelRows sel i0 ∨ ¬ (l0 ≤ x.1 ∧ x.1 ≤ ln)) := by
  induction xs generalizing ins with
  | nil => intro x hx; cases hx
  | cons y ys ih =>
    obtain ⟨p, info⟩ := y
    unfold checkLoop at h
    split at h
    · rename_i i0
      split at h
      · rename_i hin
        intro x hx
        rcases List.mem_cons.mp hx with rfl | hx
        · refine ⟨i0, rfl, Or.inl ?_⟩
          simp only [Bool.and_eq_true, decide_eq_true_eq] at hin
          exact hin
        · exact ih h x hx
      · dsimp only at h
        by_cases hr : (decide (l0 ≤ p) && decide (p ≤ ln)) = true
        · rw [if_pos hr] at h; cases h
        · rw [if_neg hr] at h
          intro x hx
          rcases List.mem_cons.mp hx with rfl | hx
          · refine ⟨i0, rfl, Or.inr ?_⟩
            simp only [Bool.and_eq_true, decide_eq_true_eq] at hr
            exact hr
          · exact ih h x hx
    · cases h

theorem selRows_some {beg end_ : Nat} {xs : List (Nat × List Label)} {a b : Nat} {r : Nat × Nat}
    (h : selRows beg end_ xs a b = some r) : ∀ x ∈ xs, ∃ lab, x.2 = [lab] := by
  induction xs generalizing a b with
  | nil => intro x hx; cases hx
  | cons y ys ih =>
    obtain ⟨num, label⟩ := y
    unfold selRows at h
    split at h
    · rename_i lab
      intro x hx
      rcases List.mem_cons.mp hx with rfl | hx
      · exact ⟨lab, rfl⟩
      · exact ih h x hx
    · cases h

/-! the mapping is the arithmetic sequence -/

theorem mkMapping_keys (l0 dl : Nat) (ks : List Nat) : (mkMapping l0 dl ks).map (·.1) = ks := by
  induction ks generalizing l0 with
  | nil => rfl
  | cons k ks ih => simp [mkMapping, ih]

theorem mkMapping_vals (l0 dl : Nat) (ks : List Nat) :
    (mkMapping l0 dl ks).map (·.2) = (List.range ks.length).map (fun i => l0 + i * dl) := by
  induction ks generalizing l0 with
  | nil => rfl
  | cons k ks ih =>
    simp only [mkMapping, List.map_cons, List.length_cons, List.range_succ_eq_map, List.map_map, ih]
    simp only [Nat.zero_mul, Nat.add_zero, List.cons.injEq, true_and]
    apply List.map_congr_left
    intro i _
    simp only [Function.comp]
    rw [Nat.succ_mul]; omega

theorem mkMapping_getElem (l0 dl : Nat) (ks : List Nat) (i : Nat) (hi : i < ks.length) :
    (mkMapping l0 dl ks)[i]? = some (ks[i], l0 + i * dl) := by
  induction ks generalizing l0 i with
  | nil => cases hi
  | cons k ks ih =>
    cases i with
    | zero => simp [mkMapping]
    | succ i =>
      simp only [mkMapping, List.getElem?_cons_succ, List.getElem_cons_succ]
      rw [ih (l0 + dl) i (by simpa using hi)]
      congr 2
      rw [Nat.succ_mul]; omega

/-- `lookup` finds the image of the `i`-th key when keys are pairwise distinct -/
theorem lookup_mkMapping (l0 dl : Nat) (ks : List Nat) (hnd : ks.Nodup) (i k : Nat) (hi : ks[i]? = some k) :
    lookup (mkMapping l0 dl ks) k = some (l0 + i * dl) := by
  induction ks generalizing l0 i with
  | nil => simp at hi
  | cons k0 ks ih =>
    cases i with
    | zero =>
      simp only [List.getElem?_cons_zero, Option.some.injEq] at hi
      subst hi
      simp [mkMapping, lookup]
    | succ i =>
      simp only [List.getElem?_cons_succ] at hi
      have hmem : k ∈ ks := List.mem_of_getElem? hi
      have hne : (k0 == k) = false := by
        simp only [beq_eq_false_iff_ne, ne_eq]
        intro heq
        exact (List.nodup_cons.mp hnd).1 (heq ▸ hmem)
      have := ih (l0 + dl) (List.nodup_cons.mp hnd).2 i hi
      simp only [lookup, mkMapping, List.find?_cons, hne] at this ⊢
      rw [this, Nat.succ_mul]; congr 1; omega

theorem lookup_none_of_not_mem (m : List (Nat × Nat)) (k : Nat) (h : k ∉ m.map (·.1)) : lookup m k = none := by
  induction m with
  | nil => rfl
  | cons x xs ih =>
    simp only [List.map_cons, List.mem_cons, not_or] at h
    have hne : (x.1 == k) = false := by simp only [beq_eq_false_iff_ne, ne_eq]; exact fun e => h.1 e.symm
    simp only [lookup, List.find?_cons, hne] at ih ⊢
    exact ih h.2

/-! Part 3: the `BTreeMap` a gather returns -/

/-- `(k,v)` is recorded in the grouped map -/
def MemG (m : List (Nat × List Label)) (k : Nat) (v : Label) : Prop := ∃ vs, (k, vs) ∈ m ∧ v ∈ vs

theorem memG_insertGrouped (k : Nat) (v : Label) (m : List (Nat × List Label)) (k' : Nat) (v' : Label) :
    MemG (insertGrouped k v m) k' v' ↔ (k' = k ∧ v' = v) ∨ MemG m k' v' := by
  induction m with
  | nil =>
    simp only [MemG, insertGrouped, List.mem_singleton, Prod.mk.injEq, List.not_mem_nil, false_and, exists_false,
      or_false]
    constructor
    · rintro ⟨vs, ⟨rfl, rfl⟩, hv⟩; exact ⟨rfl, by simpa using hv⟩
    · rintro ⟨rfl, rfl⟩; exact ⟨[v'], ⟨rfl, rfl⟩, by simp⟩
  | cons y ys ih =>
    obtain ⟨k0, vs0⟩ := y
    unfold insertGrouped
    split
    · simp only [MemG, List.mem_cons, Prod.mk.injEq]
      constructor
      · rintro ⟨vs, (⟨rfl, rfl⟩ | h), hv⟩
        · left; simpa using hv
        · right; exact ⟨vs, h, hv⟩
      · rintro (⟨rfl, rfl⟩ | ⟨vs, h, hv⟩)
        · exact ⟨[v'], Or.inl ⟨rfl, rfl⟩, by simp⟩
        · exact ⟨vs, Or.inr h, hv⟩
    · split
      · rename_i _ heq
        subst heq
        simp only [MemG, List.mem_cons, Prod.mk.injEq]
        constructor
        · rintro ⟨vs, (⟨rfl, rfl⟩ | h), hv⟩
          · rcases List.mem_append.mp hv with hv | hv
            · right; exact ⟨vs0, Or.inl ⟨rfl, rfl⟩, hv⟩
            · left; simpa using hv
          · right; exact ⟨vs, Or.inr h, hv⟩
        · rintro (⟨rfl, rfl⟩ | ⟨vs, (⟨rfl, rfl⟩ | h), hv⟩)
          · exact ⟨vs0 ++ [v'], Or.inl ⟨rfl, rfl⟩, by simp⟩
          · exact ⟨vs ++ [v], Or.inl ⟨rfl, rfl⟩, by simp [hv]⟩
          · exact ⟨vs, Or.inr h, hv⟩
      · have : ∀ k'' v'', MemG ((k0, vs0) :: insertGrouped k v ys) k'' v'' ↔
            (k'' = k0 ∧ v'' ∈ vs0) ∨ MemG (insertGrouped k v ys) k'' v'' := by
          intro k'' v''
          simp only [MemG, List.mem_cons, Prod.mk.injEq]
          constructor
          · rintro ⟨vs, (⟨rfl, rfl⟩ | h), hv⟩
            · left; exact ⟨rfl, hv⟩
            · right; exact ⟨vs, h, hv⟩
          · rintro (⟨rfl, hv⟩ | ⟨vs, h, hv⟩)
            · exact ⟨vs0, Or.inl ⟨rfl, rfl⟩, hv⟩
            · exact ⟨vs, Or.inr h, hv⟩
        rw [this, ih]
        have : MemG ((k0, vs0) :: ys) k' v' ↔ (k' = k0 ∧ v' ∈ vs0) ∨ MemG ys k' v' := by
          simp only [MemG, List.mem_cons, Prod.mk.injEq]
          constructor
          · rintro ⟨vs, (⟨rfl, rfl⟩ | h), hv⟩
            · left; exact ⟨rfl, hv⟩
            · right; exact ⟨vs, h, hv⟩
          · rintro (⟨rfl, hv⟩ | ⟨vs, h, hv⟩)
            · exact ⟨vs0, Or.inl ⟨rfl, rfl⟩, hv⟩
            · exact ⟨vs, Or.inr h, hv⟩
        rw [this]
        constructor
        · rintro (h | h | h)
          · exact Or.inr (Or.inl h)
          · exact Or.inl h
          · exact Or.inr (Or.inr h)
        · rintro (h | h | h)
          · exact Or.inr (Or.inl h)
          · exact Or.inl h
          · exact Or.inr (Or.inr h)

theorem memG_foldl (xs : List (Nat × Label)) (m : List (Nat × List Label)) (k : Nat) (v : Label) :
    MemG (xs.foldl (fun m kv => insertGrouped kv.1 kv.2 m) m) k v ↔ (k, v) ∈ xs ∨ MemG m k v := by
  induction xs generalizing m with
  | nil => simp
  | cons x xs ih =>
    simp only [List.foldl_cons, ih, memG_insertGrouped, List.mem_cons]
    constructor
    · rintro (h | ⟨rfl, rfl⟩ | h)
      · exact Or.inl (Or.inr h)
      · exact Or.inl (Or.inl rfl)
      · exact Or.inr h
    · rintro ((h | h) | h)
      · right; left; cases h; exact ⟨rfl, rfl⟩
      · exact Or.inl h
      · exact Or.inr (Or.inr h)

/-- the grouped map records exactly the gathered pairs -/
theorem memG_group (xs : List (Nat × Label)) (k : Nat) (v : Label) : MemG (group xs) k v ↔ (k, v) ∈ xs := by
  unfold group
  rw [memG_foldl]
  simp [MemG]

theorem keys_insertGrouped (k : Nat) (v : Label) (m : List (Nat × List Label)) :
    ∀ x ∈ insertGrouped k v m, x.1 = k ∨ x.1 ∈ m.map (·.1) := by
  induction m with
  | nil => intro x hx; simp [insertGrouped] at hx; left; rw [hx]
  | cons y ys ih =>
    obtain ⟨k0, vs0⟩ := y
    intro x hx
    unfold insertGrouped at hx
    split at hx
    · rcases List.mem_cons.mp hx with rfl | hx
      · left; rfl
      · right; exact List.mem_map_of_mem hx
    · split at hx
      · rcases List.mem_cons.mp hx with rfl | hx
        · right; simp
        · right; simp only [List.map_cons, List.mem_cons]; right; exact List.mem_map_of_mem hx
      · rcases List.mem_cons.mp hx with rfl | hx
        · right; simp
        · rcases ih x hx with h | h
          · left; exact h
          · right; simp only [List.map_cons, List.mem_cons]; right; exact h

def KeysSorted (m : List (Nat × List Label)) : Prop := (m.map (·.1)).Pairwise (· < ·)

theorem keysSorted_insertGrouped (k : Nat) (v : Label) (m : List (Nat × List Label)) (h : KeysSorted m) :
    KeysSorted (insertGrouped k v m) := by
  induction m with
  | nil => simp [KeysSorted, insertGrouped]
  | cons y ys ih =>
    obtain ⟨k0, vs0⟩ := y
    unfold KeysSorted at h ih ⊢
    simp only [List.map_cons, List.pairwise_cons] at h
    unfold insertGrouped
    split
    · rename_i hlt
      simp only [List.map_cons, List.pairwise_cons, List.mem_cons]
      refine ⟨?_, h⟩
      rintro a (rfl | ha)
      · exact hlt
      · exact Nat.lt_trans hlt (h.1 a ha)
    · split
      · simpa using h
      · rename_i hnlt hne
        simp only [List.map_cons, List.pairwise_cons]
        refine ⟨?_, ih h.2⟩
        intro a ha
        obtain ⟨x, hx, rfl⟩ := List.mem_map.mp ha
        rcases keys_insertGrouped k v ys x hx with h' | h'
        · rw [h']; omega
        · exact h.1 _ h'

theorem keysSorted_group (xs : List (Nat × Label)) : KeysSorted (group xs) := by
  unfold group
  suffices ∀ m, KeysSorted m → KeysSorted (xs.foldl (fun m kv => insertGrouped kv.1 kv.2 m) m) from
    this [] (by simp [KeysSorted])
  induction xs with
  | nil => intro m h; exact h
  | cons x xs ih => intro m h; exact ih _ (keysSorted_insertGrouped _ _ _ h)

theorem keys_nodup_group (xs : List (Nat × Label)) : ((group xs).map (·.1)).Nodup := by
  have := keysSorted_group xs
  unfold KeysSorted at this
  exact this.imp (fun h => Nat.ne_of_lt h)

/-! Part 4: which edits `build_edits` produces -/

theorem mem_secEdits (mapping : List (Nat × Nat)) (secs : List (Nat × List Label)) (keep : Label → Bool)
    (e : Edit) :
    e ∈ secEdits mapping secs keep ↔
      ∃ s item n, MemG secs s item ∧ lookup mapping s = some n ∧ keep item = true ∧ e = applyMapping n item := by
  unfold secEdits MemG
  simp only [List.mem_flatMap]
  constructor
  · rintro ⟨⟨s, info⟩, hmem, item, hitem, he⟩
    dsimp only at he hitem
    split at he
    · rename_i n hn
      split at he
      · rename_i hk
        simp only [List.mem_singleton] at he
        exact ⟨s, item, n, ⟨info, hmem, hitem⟩, hn, hk, he⟩
      · cases he
    · cases he
  · rintro ⟨s, item, n, ⟨info, hmem, hitem⟩, hn, hk, he⟩
    refine ⟨(s, info), hmem, item, hitem, ?_⟩
    simp [hn, hk, he]

theorem mem_primEdits (mapping : List (Nat × Nat)) (selPrim : List (Nat × List Label)) (e : Edit) :
    e ∈ primEdits mapping selPrim ↔
      ∃ p i0 rest n, (p, i0 :: rest) ∈ selPrim ∧ lookup mapping p = some n ∧ e = applyMapping n i0 := by
  unfold primEdits
  simp only [List.mem_flatMap]
  constructor
  · rintro ⟨⟨p, info⟩, hmem, he⟩
    dsimp only at he
    split at he
    · rename_i _ _ n i0 rest hn
      simp only [List.mem_singleton] at he
      exact ⟨p, i0, rest, n, hmem, hn, he⟩
    · cases he
  · rintro ⟨p, i0, rest, n, hmem, hn, he⟩
    refine ⟨(p, i0 :: rest), hmem, ?_⟩
    simp [hn, he]

end A2Verif.Lemmas.Renumber
