import A2Verif.Lemmas.FsPascalImg
import A2Verif.Lemmas.VolSpec
import A2Verif.Model.Read.Pascal
/-!
# The on-disk invariant of a Pascal volume and the abstract volume it denotes

`Inv r` (decidable): header sane, the first `numFiles` directory slots are files with block ranges inside
the volume behind the directory, pairwise disjoint, with valid and pairwise different names, all later
slots unused, every unit a 512-byte block.  `volOf r` is the abstract volume described by the directory;
`read_eq`: under `Inv`, the *independent reader* `Read.Pascal.read` succeeds and returns exactly `volOf r`;
`volOf_wf`: that volume is well-formed (`wfB`, property C03) and leak-free.  Core Lean only.
-/
namespace A2Verif.Fs.Pascal

/-- a character a2kit accepts in a file name (`is_name_valid`) -/
def validChar (c : Nat) : Bool := c < 128 && !invalidChars.contains c && !isAsciiControl c

/-- the name of an entry as the independent reader sees it -/
def entryPath (e : Bytes) : Bytes := slice e 7 (e.getD 6 0)

/-- a directory slot that holds a file -/
structure EntryOk (dEnd tot : Nat) (e : Bytes) : Prop where
  beg_ge : dEnd ≤ le16 e 0
  beg_lt : le16 e 0 < le16 e 2
  end_le : le16 e 2 ≤ tot
  nl_pos : 1 ≤ e.getD 6 0
  nl_le : e.getD 6 0 ≤ 15
  chars : (entryPath e).all validChar = true
  rem_le : le16 e 22 ≤ 512 * (le16 e 2 - le16 e 0)

instance (dEnd tot : Nat) (e : Bytes) : Decidable (EntryOk dEnd tot e) :=
  decidable_of_iff (dEnd ≤ le16 e 0 ∧ le16 e 0 < le16 e 2 ∧ le16 e 2 ≤ tot ∧ 1 ≤ e.getD 6 0 ∧ e.getD 6 0 ≤ 15 ∧
      (entryPath e).all validChar = true ∧ le16 e 22 ≤ 512 * (le16 e 2 - le16 e 0))
    ⟨fun ⟨a, b, c, d, e, f, g⟩ => ⟨a, b, c, d, e, f, g⟩, fun h => ⟨h.1, h.2, h.3, h.4, h.5, h.6, h.7⟩⟩

/-- the block ranges of two entries do not overlap -/
def Apart (e f : Bytes) : Prop := le16 e 2 ≤ le16 f 0 ∨ le16 f 2 ≤ le16 e 0
instance (e f : Bytes) : Decidable (Apart e f) := by unfold Apart; infer_instance

/-- the invariant as a predicate on (image size, header, directory slots) -/
structure InvD (size : Nat) (h : Bytes) (es : List Bytes) : Prop where
  hlen : h.length = 26
  beg0 : le16 h 0 = 0
  dirEnd_gt : 2 < le16 h 2
  /-- a2kit's own `test_img` accepts directories up to block 20; Apple's end at 6 -/
  dirEnd_le : le16 h 2 ≤ 20
  dirEnd_total : le16 h 2 ≤ le16 h 14
  total_size : le16 h 14 ≤ size
  total_u16 : le16 h 14 ≤ 65535
  volName : 1 ≤ h.getD 6 0 ∧ h.getD 6 0 ≤ 7
  count : es.length = 512 * (le16 h 2 - 2) / 26 - 1
  elen : ∀ e ∈ es, e.length = 26
  nf_le : le16 h 16 ≤ es.length
  live : ∀ e ∈ es.take (le16 h 16), EntryOk (le16 h 2) (le16 h 14) e
  apart : (es.take (le16 h 16)).Pairwise Apart
  names : ((es.take (le16 h 16)).map entryPath).Nodup
  dead : ∀ e ∈ es.drop (le16 h 16), le16 e 0 = 0

instance (size : Nat) (h : Bytes) (es : List Bytes) : Decidable (InvD size h es) :=
  decidable_of_iff (h.length = 26 ∧ le16 h 0 = 0 ∧ 2 < le16 h 2 ∧ le16 h 2 ≤ 20 ∧ le16 h 2 ≤ le16 h 14 ∧ le16 h 14 ≤ size ∧
      le16 h 14 ≤ 65535 ∧ (1 ≤ h.getD 6 0 ∧ h.getD 6 0 ≤ 7) ∧ es.length = 512 * (le16 h 2 - 2) / 26 - 1 ∧
      (∀ e ∈ es, e.length = 26) ∧ le16 h 16 ≤ es.length ∧
      (∀ e ∈ es.take (le16 h 16), EntryOk (le16 h 2) (le16 h 14) e) ∧ (es.take (le16 h 16)).Pairwise Apart ∧
      ((es.take (le16 h 16)).map entryPath).Nodup ∧ (∀ e ∈ es.drop (le16 h 16), le16 e 0 = 0))
    ⟨fun ⟨a, b, c, d, e, f, g, h, i, j, k, l, m, n, o⟩ => ⟨a, b, c, d, e, f, g, h, i, j, k, l, m, n, o⟩,
     fun x => ⟨x.1, x.2, x.3, x.4, x.5, x.6, x.7, x.8, x.9, x.10, x.11, x.12, x.13, x.14, x.15⟩⟩

def blocks512B (r : Raw) : Bool := r.units.all (fun b => b.length == 512)

theorem blocks512B_iff {r : Raw} : blocks512B r = true ↔ Blocks512 r := by
  unfold blocks512B Blocks512
  rw [Array.all_eq_true]
  constructor
  · intro h i b hib
    obtain ⟨hi, rfl⟩ := Array.getElem?_eq_some_iff.1 hib
    simpa using h i hi
  · intro h i hi
    have := h i r.units[i] (Array.getElem?_eq_getElem hi)
    simpa using this

/-- **the on-disk invariant** -/
def Inv (r : Raw) : Prop := blocks512B r = true ∧ InvD r.units.size (hdr r) (allEntries r)

instance (r : Raw) : Decidable (Inv r) := by unfold Inv; infer_instance

theorem Inv.blocks {r : Raw} (h : Inv r) : Blocks512 r := blocks512B_iff.1 h.1
theorem Inv.d {r : Raw} (h : Inv r) : InvD r.units.size (hdr r) (allEntries r) := h.2

/-! ## the abstract volume denoted by the directory -/

def liveEntries (r : Raw) : List Bytes := (allEntries r).take (numFiles r)

/-- the file an entry describes, with the content of its blocks -/
def fileOf (r : Raw) (e : Bytes) : FileRec :=
  { path := slice e 7 (e.getD 6 0), ftype := le16 e 4, eof := 512 * (le16 e 2 - le16 e 0) - le16 e 22,
    chunks := (List.range (le16 e 2 - le16 e 0)).map (fun i => (i, (r.units[le16 e 0 + i]?).getD [])),
    owned := Vol.range (le16 e 0) (le16 e 2) }

def volOf (r : Raw) : Vol :=
  let files := (liveEntries r).map (fileOf r)
  let sys := Vol.range 0 (dirEnd r)
  let used := (files.flatMap (·.owned) ++ sys)
  { lo := 0, hi := total r, sys := sys, files := files,
    freeUnits := (Vol.range 0 (total r)).filter (fun u => !used.contains u),
    label := slice ((r.units[2]?).getD []) 7 (((r.units[2]?).getD []).getD 6 0) }

theorem ok_bind {α β ε : Type} (a : α) (f : α → Except ε β) : (Except.ok a >>= f) = f a := rfl

theorem mapM_ok {α β ε : Type} {f : α → Except ε β} {g : α → β} :
    ∀ {l : List α}, (∀ x ∈ l, f x = .ok (g x)) → l.mapM f = .ok (l.map g) := by
  intro l
  induction l with
  | nil => intro _; rfl
  | cons x xs ih =>
    intro h
    rw [List.mapM_cons, h x List.mem_cons_self, ok_bind, ih (fun y hy => h y (List.mem_cons_of_mem _ hy)), ok_bind]
    rfl

theorem entries_eq (buf : Bytes) (n off : Nat) : Read.Pascal.entries buf n off = entriesFrom buf n off := by
  induction n generalizing off with
  | zero => rfl
  | succ n ih => simp only [Read.Pascal.entries, entriesFrom, ih]; rfl

theorem hdr_le16 {r : Raw} {off : Nat} (h : off + 2 ≤ 26) : le16 (hdr r) off = le16 ((r.units[2]?).getD []) off :=
  le16_take h

theorem hdr_getD {r : Raw} {i : Nat} (h : i < 26) : (hdr r).getD i 0 = ((r.units[2]?).getD []).getD i 0 :=
  getD_take h

/-- **Under the invariant the independent reader succeeds and reads exactly `volOf r`.** -/
theorem read_eq {r : Raw} (h : Inv r) : Read.Pascal.read r = .ok (volOf r) := by
  have hb := h.blocks
  have d := h.d
  have hsz : 2 < r.units.size := by have := d.dirEnd_gt; have := d.dirEnd_total; have := d.total_size; omega
  have h2 : r.units[2]? = some r.units[2] := Array.getElem?_eq_getElem hsz
  have e0 : le16 (r.units[2]) 0 = le16 (hdr r) 0 := by rw [hdr_le16 (by omega), h2]; rfl
  have e2 : le16 (r.units[2]) 2 = dirEnd r := by unfold dirEnd; rw [hdr_le16 (by omega), h2]; rfl
  have e14 : le16 (r.units[2]) 14 = total r := by unfold total; rw [hdr_le16 (by omega), h2]; rfl
  have e16 : le16 (r.units[2]) 16 = numFiles r := by unfold numFiles; rw [hdr_le16 (by omega), h2]; rfl
  have e6 : (r.units[2]).getD 6 0 = (hdr r).getD 6 0 := by rw [hdr_getD (by omega), h2]; rfl
  have dE : dirEnd r = le16 (hdr r) 2 := rfl
  have tT : total r = le16 (hdr r) 14 := rfl
  have nF : numFiles r = le16 (hdr r) 16 := rfl
  unfold Read.Pascal.read
  have hu : r.unit 2 "volume-header" = .ok r.units[2] := by simp [Raw.unit, h2]
  rw [hu]
  simp only [ok_bind]
  rw [e0, e2, e14, e16, e6]
  have c0 : (le16 (hdr r) 0 != 0) = false := by rw [d.beg0]; rfl
  have c1 : ¬ (dirEnd r ≤ 2 ∨ dirEnd r > total r) := by have := d.dirEnd_gt; have := d.dirEnd_total; omega
  have c2 : ¬ (total r > r.count) := by have := d.total_size; unfold Raw.count; omega
  have c3 : ¬ ((hdr r).getD 6 0 = 0 ∨ (hdr r).getD 6 0 > 7) := by have := d.volName; omega
  simp only [c0, Bool.false_eq_true, if_false, if_neg c1, if_neg c2, if_neg c3, pure_bind]
  -- the directory blocks
  have hblocks : (List.range (dirEnd r - 2)).mapM (fun i => r.unit (2 + i) "directory-block") = .ok (dirBlocks r) := by
    unfold dirBlocks
    apply mapM_ok
    intro i hi
    simp only [List.mem_range] at hi
    have hlt : 2 + i < r.units.size := by have := d.dirEnd_total; have := d.total_size; omega
    simp [Raw.unit, Array.getElem?_eq_getElem hlt]
  rw [hblocks]
  simp only [ok_bind]
  have hbuf : (dirBlocks r).flatten = dirBuf r := rfl
  rw [hbuf, entries_eq]
  have hae : entriesFrom (dirBuf r) ((dirBuf r).length / Read.Pascal.entrySize - 1) Read.Pascal.entrySize = allEntries r := rfl
  rw [hae]
  have c4 : ¬ (numFiles r > (dirBuf r).length / Read.Pascal.entrySize - 1) := by
    have := d.nf_le
    rw [allEntries_length] at this
    show ¬ (numFiles r > (dirBuf r).length / 26 - 1)
    omega
  have c5 : ((allEntries r).drop (numFiles r)).any (fun e => le16 e 0 != 0) = false := by
    rw [List.any_eq_false]
    intro e he
    have := d.dead e he
    simp [this]
  simp only [if_neg c4, c5, Bool.false_eq_true, if_false, pure_bind]
  -- the files
  have hfiles : ((allEntries r).take (numFiles r)).mapM (fun e => do
      let b := le16 e 0
      let en := le16 e 2
      let nl := e.getD 6 0
      if b < dirEnd r ∨ en ≤ b ∨ en > total r then throw "entry-blocks-out-of-range"
      if nl = 0 ∨ nl > 15 then throw "entry-name-length"
      let data ← (List.range (en - b)).mapM (fun i => do
        let d ← r.unit (b + i) "file-block"
        pure (i, d))
      pure ({ path := slice e 7 nl, ftype := le16 e 4, eof := 512 * (en - b) - le16 e 22,
              chunks := data, owned := Vol.range b en } : FileRec)) = .ok ((liveEntries r).map (fileOf r)) := by
    apply mapM_ok
    intro e he
    have ok := d.live e he
    rw [← dE, ← tT] at ok
    have k1 : ¬ (le16 e 0 < dirEnd r ∨ le16 e 2 ≤ le16 e 0 ∨ le16 e 2 > total r) := by
      have := ok.beg_ge; have := ok.beg_lt; have := ok.end_le; omega
    have k2 : ¬ (e.getD 6 0 = 0 ∨ e.getD 6 0 > 15) := by have := ok.nl_pos; have := ok.nl_le; omega
    simp only [if_neg k1, if_neg k2, pure_bind]
    have hdata : (List.range (le16 e 2 - le16 e 0)).mapM (fun i => do
        let d ← r.unit (le16 e 0 + i) "file-block"
        pure (i, d)) = .ok ((List.range (le16 e 2 - le16 e 0)).map (fun i => (i, (r.units[le16 e 0 + i]?).getD []))) := by
      apply mapM_ok
      intro i hi
      simp only [List.mem_range] at hi
      have hlt : le16 e 0 + i < r.units.size := by have := ok.end_le; have := d.total_size; rw [← tT] at this; omega
      simp [Raw.unit, Array.getElem?_eq_getElem hlt]
      rfl
    rw [hdata]
    rfl
  rw [hfiles, ok_bind]
  unfold volOf
  simp only [h2, Option.getD_some, ← e6]
  rfl

/-! ## the denoted volume is well-formed and leak-free -/

theorem mem_vrange {lo hi u : Nat} : u ∈ Vol.range lo hi ↔ lo ≤ u ∧ u < hi := by
  unfold Vol.range
  simp only [List.mem_map, List.mem_range]
  constructor
  · rintro ⟨k, hk, rfl⟩; omega
  · rintro ⟨h1, h2⟩; exact ⟨u - lo, by omega, by omega⟩

theorem vrange_nodup (lo hi : Nat) : (Vol.range lo hi).Nodup := by
  unfold Vol.range
  rw [List.nodup_iff_pairwise_ne, List.pairwise_map]
  exact (List.nodup_iff_pairwise_ne.1 List.nodup_range).imp (fun h e => h (by omega))

def ownedOf (l : List Bytes) : List Nat := l.flatMap (fun e => Vol.range (le16 e 0) (le16 e 2))

theorem mem_ownedOf {l : List Bytes} {u : Nat} : u ∈ ownedOf l ↔ ∃ e ∈ l, le16 e 0 ≤ u ∧ u < le16 e 2 := by
  unfold ownedOf
  simp only [List.mem_flatMap, mem_vrange]

theorem ownedOf_nodup {l : List Bytes} (h : l.Pairwise Apart) : (ownedOf l).Nodup := by
  induction l with
  | nil => exact List.nodup_nil
  | cons e l ih =>
    rw [List.pairwise_cons] at h
    show (Vol.range (le16 e 0) (le16 e 2) ++ ownedOf l).Nodup
    rw [List.nodup_append]
    refine ⟨vrange_nodup _ _, ih h.2, ?_⟩
    intro a ha b hb hab
    subst hab
    obtain ⟨f, hf, h1, h2⟩ := mem_ownedOf.1 hb
    have := h.1 f hf
    have := mem_vrange.1 ha
    unfold Apart at *
    omega

theorem allOwned_volOf (r : Raw) : (volOf r).allOwned = ownedOf (liveEntries r) := by
  unfold Vol.allOwned volOf ownedOf
  simp only [List.flatMap_map]
  rfl

theorem paths_volOf (r : Raw) : (volOf r).files.map (·.path) = (liveEntries r).map entryPath := by
  unfold volOf
  simp only [List.map_map]
  rfl

theorem volOf_wf {r : Raw} (h : Inv r) : (volOf r).wfB = true := by
  have d := h.d
  have hlive : ∀ e ∈ liveEntries r, EntryOk (dirEnd r) (total r) e := d.live
  have hfree : (volOf r).freeUnits = (Vol.range 0 (total r)).filter
      (fun u => !((volOf r).allOwned ++ (volOf r).sys).contains u) := rfl
  have hsys : (volOf r).sys = Vol.range 0 (dirEnd r) := rfl
  rw [wfB_iff]
  refine ⟨?_, ?_, ?_, ?_, ⟨?_, ?_⟩, ?_, ?_⟩
  · intro u hu
    rw [allOwned_volOf] at hu
    obtain ⟨e, he, h1, h2⟩ := mem_ownedOf.1 hu
    have := (hlive e he).end_le
    exact ⟨Nat.zero_le _, by show u < total r; omega⟩
  · rw [List.nodup_append]
    refine ⟨by rw [allOwned_volOf]; exact ownedOf_nodup d.apart, by rw [hsys]; exact vrange_nodup _ _, ?_⟩
    intro a ha b hb hab
    subst hab
    rw [allOwned_volOf] at ha
    obtain ⟨e, he, h1, h2⟩ := mem_ownedOf.1 ha
    have := (hlive e he).beg_ge
    rw [hsys] at hb
    have := mem_vrange.1 hb
    omega
  · intro u hu hf
    rw [hfree, List.mem_filter] at hf
    have : ((volOf r).allOwned ++ (volOf r).sys).contains u = true := by
      rw [List.contains_eq_mem]; simp [hu]
    rw [this] at hf
    exact absurd hf.2 (by decide)
  · intro u hu hf
    rw [hfree, List.mem_filter] at hf
    have : ((volOf r).allOwned ++ (volOf r).sys).contains u = true := by
      rw [List.contains_eq_mem]; simp [hu]
    rw [this] at hf
    exact absurd hf.2 (by decide)
  · rw [hfree]
    exact (vrange_nodup _ _).sublist List.filter_sublist
  · intro u hu
    rw [hfree, List.mem_filter] at hu
    exact mem_vrange.1 hu.1
  · rw [paths_volOf]
    exact d.names
  · intro f hf
    unfold volOf at hf
    simp only [List.mem_map] at hf
    obtain ⟨e, _, rfl⟩ := hf
    simp only [fileOf, List.map_map]
    have : ((fun (x : Nat × Bytes) => x.1) ∘ fun i => (i, (r.units[le16 e 0 + i]?).getD [])) = id := by
      funext i; rfl
    rw [this, List.map_id]
    exact List.pairwise_lt_range

/-- no unit of the volume is unaccounted for (C04): the free list is by definition the complement -/
theorem volOf_noLeak (r : Raw) : (volOf r).noLeak = true := by
  unfold Vol.noLeak
  rw [List.all_eq_true]
  intro u hu
  have hfree : (volOf r).freeUnits = (Vol.range (volOf r).lo (volOf r).hi).filter
      (fun u => !((volOf r).allOwned ++ (volOf r).sys).contains u) := rfl
  by_cases hc : ((volOf r).allOwned ++ (volOf r).sys).contains u = true
  · rw [List.contains_eq_mem, decide_eq_true_eq, List.mem_append] at hc
    rcases hc with hc | hc
    · simp [hc]
    · simp [hc]
  · have : u ∈ (volOf r).freeUnits := by
      rw [hfree, List.mem_filter]
      exact ⟨hu, by simpa using hc⟩
    simp [this]


end A2Verif.Fs.Pascal
