import A2Verif.Lemmas.TrackImgCreate
/-!
`Nib::create`, `Woz1::create`, `Woz2::create` (13 and 16 sectors) establish `ImgInv`.
-/
namespace A2Verif.Model.TrackImg
open A2Verif.Model.Track A2Verif.Model.Nibble

def capOf : ImgKind → Nat
  | .nib => nibCap
  | .woz1 => woz1Cap
  | .woz2 => woz2Blocks * 512

/-- the format the formatter of an image kind uses -/
def fOf (kind : ImgKind) (six : Bool) : Fmt :=
  ⟨six, (match kind with | .nib => 8 | _ => if six then 10 else 9), capOf kind⟩

/-- bits of the circular track: the whole buffer for NIB, `bit_count` for WOZ -/
def nOf (kind : ImgKind) (six : Bool) : Nat :=
  match kind with
  | .nib => nibCap * 8
  | _ => (fOf kind six).bitCount (secIds six).length

/-- `FF` bytes behind the formatted bits that belong to the track (NIB only) -/
def pOf (kind : ImgKind) (six : Bool) : Nat :=
  match kind with
  | .nib => (nibCap * 8 - (fOf kind six).bitCount (secIds six).length) / 8
  | _ => 0

def offsOf (kind : ImgKind) (t : Nat) : Nat :=
  match kind with
  | .nib => t * nibCap
  | .woz1 => t * woz1Cap
  | .woz2 => (3 + woz2Blocks * t) * 512 - 1536

theorem fmtOf_create (kind : ImgKind) (six : Bool) (vol : Nat) : fmtOf (create Trk kind six vol) (capOf kind) = fOf kind six := by
  cases kind <;> rfl

theorem facts (kind : ImgKind) (six : Bool) :
    8 ≤ (fOf kind six).syncBits ∧ (fOf kind six).bitCount (secIds six).length ≤ capOf kind * 8 ∧
    nOf kind six = (fOf kind six).bitCount (secIds six).length + 8 * pOf kind six ∧
    (pOf kind six = 0 ∨ (fOf kind six).z = 0) ∧ nOf kind six ≤ 8 * capOf kind ∧ 0 < nOf kind six ∧
    16 + (fOf kind six).dataNibs + (60 + pOf kind six) + 3 ≤ (fOf kind six).maxTries ∧
    (kind ≠ .nib → nOf kind six ≠ 0 ∧ nOf kind six ≤ capOf kind * 8) := by
  cases kind <;> cases six <;> decide

/-- the bytes `create` lays down: 35 formatted buffers of `capOf kind` bytes each -/
theorem bytes_create (kind : ImgKind) (six : Bool) (vol : Nat) :
    (create Trk kind six vol).bytes =
      ((List.range 35).map fun t => formatBuf Trk (fOf kind six) vol t (capOf kind * 8)).flatten := by
  cases kind <;> rfl

theorem chunk_len (kind : ImgKind) (six : Bool) (vol : Nat) (i : Nat) :
    (formatBuf Trk (fOf kind six) vol i (capOf kind * 8)).length = capOf kind :=
  (formatBuf_unpack (fOf kind six) (facts kind six).1 vol i (capOf kind) (facts kind six).2.1).2

theorem bytes_create_length (kind : ImgKind) (six : Bool) (vol : Nat) :
    (create Trk kind six vol).bytes.length = 35 * capOf kind := by
  rw [bytes_create]
  exact length_flatten_chunks _ _ 35 (fun i _ => chunk_len kind six vol i)

theorem offsOf_eq (kind : ImgKind) (t : Nat) : offsOf kind t = t * capOf kind := by
  cases kind
  · rfl
  · rfl
  · show (3 + 13 * t) * 512 - 1536 = t * (13 * 512); omega

theorem slice_create (kind : ImgKind) (six : Bool) (vol t : Nat) (ht : t < 35) :
    (((create Trk kind six vol).bytes.drop (offsOf kind t)).take (capOf kind)) =
      formatBuf Trk (fOf kind six) vol t (capOf kind * 8) := by
  rw [bytes_create, offsOf_eq]
  exact slice_flatten_chunks _ _ 35 (fun i _ => chunk_len kind six vol i) t ht

theorem kind_create (kind : ImgKind) (six : Bool) (vol : Nat) : (create Trk kind six vol).kind = kind := by
  cases kind <;> rfl

theorem tmap_woz1 (six : Bool) (vol : Nat) : (create Trk .woz1 six vol).tmap = tmapCreate := rfl
theorem tmap_woz2 (six : Bool) (vol : Nat) : (create Trk .woz2 six vol).tmap = tmapCreate := rfl
theorem offset_woz2 (six : Bool) (vol : Nat) : (create Trk .woz2 six vol).offset = 1536 := rfl

theorem ents_woz1 (six : Bool) (vol : Nat) :
    (create Trk .woz1 six vol).ents = (List.range 35).map fun _ => (⟨0, 0, nOf .woz1 six⟩ : Ent) := rfl

theorem ents_woz2 (six : Bool) (vol : Nat) :
    (create Trk .woz2 six vol).ents = ((List.range 35).map fun t => (⟨3 + woz2Blocks * t, woz2Blocks, nOf .woz2 six⟩ : Ent)) ++
      List.replicate 125 (⟨0, 0, 0⟩ : Ent) := rfl

theorem entry_woz1 (six : Bool) (vol t : Nat) (ht : t < 35) :
    (create Trk .woz1 six vol).ents[t]? = some ⟨0, 0, nOf .woz1 six⟩ := by
  rw [ents_woz1, List.getElem?_map, List.getElem?_range ht]; rfl

theorem entry_woz2 (six : Bool) (vol t : Nat) (ht : t < 35) :
    (create Trk .woz2 six vol).ents[t]? = some ⟨3 + woz2Blocks * t, woz2Blocks, nOf .woz2 six⟩ := by
  rw [ents_woz2, List.getElem?_append_left (by rw [List.length_map, List.length_range]; exact ht), List.getElem?_map,
    List.getElem?_range ht]; rfl

theorem numTracks_create (kind : ImgKind) (six : Bool) (vol : Nat) : numTracks (create Trk kind six vol) = .ok 35 := by
  cases kind
  · rfl
  · simp only [numTracks, kind_create, ents_woz1, List.length_map, List.length_range]
  · have hn : nOf .woz2 six ≠ 0 := ((facts .woz2 six).2.2.2.2.2.2.2 (by decide)).1
    have hl : (create Trk .woz2 six vol).ents.length = 160 := by
      rw [ents_woz2, List.length_append, List.length_map, List.length_range, List.length_replicate]
    simp only [numTracks, kind_create]
    rw [if_neg (by rw [hl]; omega), List.take_of_length_le (by rw [hl]; omega), ents_woz2, List.filter_append]
    have h1 : ((List.range 35).map fun t => (⟨3 + woz2Blocks * t, woz2Blocks, nOf .woz2 six⟩ : Ent)).filter
        (fun e => decide (e.bitCount ≠ 0)) = (List.range 35).map fun t => (⟨3 + woz2Blocks * t, woz2Blocks, nOf .woz2 six⟩ : Ent) := by
      apply List.filter_eq_self.2
      intro e he
      obtain ⟨i, _, rfl⟩ := List.mem_map.1 he
      simpa using hn
    have h2 : (List.replicate 125 (⟨0, 0, 0⟩ : Ent)).filter (fun e => decide (e.bitCount ≠ 0)) = [] := by
      apply List.filter_eq_nil_iff.2
      intro e he
      rw [List.eq_of_mem_replicate he]; simp
    rw [h1, h2, List.append_nil, List.length_map, List.length_range]

/-- where `create` puts the tracks: through the TMAP (WOZ) to pairwise disjoint buffers inside the image -/
theorem layout_create (kind : ImgKind) (six : Bool) (vol : Nat) :
    Layout (create Trk kind six vol) (offsOf kind) (capOf kind) (nOf kind six) := by
  have hlen := bytes_create_length kind six vol
  have hf := facts kind six
  refine ⟨numTracks_create kind six vol, ?_, ?_, ?_, hf.2.2.2.2.1, hf.2.2.2.2.2.1⟩
  · intro t ht
    have hin : (t + 1) * capOf kind ≤ 35 * capOf kind := Nat.mul_le_mul_right _ (by omega)
    have hidx : getTrkIdx tmapCreate t = .ok t := tmapCreate_lookup ⟨t, ht⟩
    cases kind
    · have hin' : (t + 1) * nibCap ≤ (create Trk .nib six vol).bytes.length := by rw [hlen]; exact hin
      unfold locate
      rw [kind_create]
      simp only []
      rw [if_pos hin']
      rfl
    · have hw := (hf.2.2.2.2.2.2.2 (by decide))
      have hin' : (t + 1) * woz1Cap ≤ (create Trk .woz1 six vol).bytes.length := by rw [hlen]; exact hin
      unfold locate
      rw [kind_create]
      simp only []
      rw [tmap_woz1, hidx]
      simp only []
      rw [entry_woz1 six vol t ht]
      simp only []
      rw [if_pos ⟨hw.1, hw.2⟩, if_pos hin']
      rfl
    · have hw := (hf.2.2.2.2.2.2.2 (by decide))
      have hw2 : nOf .woz2 six ≤ 13 * 512 * 8 := hw.2
      have hin' : (t + 1) * (13 * 512) ≤ 35 * (13 * 512) := hin
      have hlen' : (create Trk .woz2 six vol).bytes.length = 35 * (13 * 512) := hlen
      unfold locate
      rw [kind_create]
      simp only []
      rw [tmap_woz2, hidx]
      simp only []
      rw [entry_woz2 six vol t ht]
      simp only []
      rw [offset_woz2, hlen']
      rw [if_neg hw.1, if_neg (by show ¬ (3 + 13 * t) * 512 < 1536; omega),
        if_neg (by show ¬ ((3 + 13 * t) * 512 - 1536 + 13 * 512 > 35 * (13 * 512) ∨
          nOf .woz2 six > ((3 + 13 * t) * 512 - 1536 + 13 * 512 - ((3 + 13 * t) * 512 - 1536)) * 8); omega)]
      rfl
  · intro t ht
    rw [hlen, offsOf_eq]
    have : (t + 1) * capOf kind ≤ 35 * capOf kind := Nat.mul_le_mul_right _ (by omega)
    rw [Nat.succ_mul] at this; exact this
  · intro t u ht hu hne
    rw [offsOf_eq, offsOf_eq]
    rcases Nat.lt_or_gt_of_ne hne with h | h
    · left
      have : (t + 1) * capOf kind ≤ u * capOf kind := Nat.mul_le_mul_right _ (by omega)
      rw [Nat.succ_mul] at this; exact this
    · right
      have : (u + 1) * capOf kind ≤ t * capOf kind := Nat.mul_le_mul_right _ (by omega)
      rw [Nat.succ_mul] at this; exact this

theorem secIds_parts (six : Bool) :
    secIds six = (secIds six).take ((secIds six).length - 1) ++ [if six then 15 else 3] ∧
    (∀ i ∈ secIds six, i < 256) ∧ (secIds six).Nodup ∧ (secIds six).length = (if six then 16 else 13) := by
  cases six <;> decide

/-- the bits of every track of a created image: what `format` wrote, and for NIB the `FF` rest of the buffer -/
theorem trackBits_create (kind : ImgKind) (six : Bool) (vol t : Nat) (ht : t < 35) :
    trackBits (create Trk kind six vol).bytes (offsOf kind t) (capOf kind) (nOf kind six) =
      trackW (fOf kind six) vol t (secIds six) ++ List.replicate (8 * pOf kind six) true := by
  have hf := facts kind six
  unfold trackBits
  have hsix : (fOf kind six).six = six := rfl
  rw [slice_create kind six vol t ht, (formatBuf_unpack (fOf kind six) hf.1 vol t (capOf kind) hf.2.1).1, hsix]
  have hWl := trackW_length (fOf kind six) hf.1 vol t (secIds six)
  cases kind
  · -- NIB: the whole buffer
    have h8 : capOf .nib * 8 - (fOf .nib six).bitCount (secIds six).length = 8 * pOf .nib six := by
      cases six <;> decide
    have hfill : decide ((fOf .nib six).syncBits ≤ 8) = true := by cases six <;> rfl
    rw [h8, hfill]
    apply List.take_of_length_le
    rw [List.length_append, hWl, List.length_replicate]
    have := hf.2.2.1
    show _ ≤ nOf .nib six
    omega
  · have hp : pOf .woz1 six = 0 := rfl
    rw [hp, List.take_left' (by rw [hWl]; rfl)]; simp
  · have hp : pOf .woz2 six = 0 := rfl
    rw [hp, List.take_left' (by rw [hWl]; rfl)]; simp

/-- **`create` establishes the image invariant** — NIB, WOZ1, WOZ2; 16 sectors 6&2 and 13 sectors 5&3; every
volume number: all 35 tracks are canonically formatted tracks of the same shape holding the formatter's
contents (zeros / never written), the head position (`None`, i.e. bit 0) is inside the closing zeros of the
last sync byte. -/
theorem create_inv (kind : ImgKind) (six : Bool) (vol : Nat) (hv : vol < 256) :
    ∃ o gaps secs0 a c0 k,
      ImgInv (create Trk kind six vol) (offsOf kind) (capOf kind) (nOf kind six) vol o gaps (secIds six)
        (fun _ => secs0) a c0 k ∧
      secs0.map (·.id) = secIds six ∧ (∀ s ∈ secs0, s.fld = fld0 (fOf kind six)) := by
  obtain ⟨e, hid, hnd, hl⟩ := secIds_parts six
  have hf := facts kind six
  have hfm := fmtOf_create kind six vol
  have hlen1 : ((secIds six).take ((secIds six).length - 1)).length + 1 = (secIds six).length := by
    rw [List.length_take, hl]; cases six <;> simp
  have inv := fresh_inv (create Trk kind six vol) (offsOf kind) (capOf kind) (nOf kind six) vol (pOf kind six)
    ((secIds six).take ((secIds six).length - 1)) (if six then 15 else 3)
    (layout_create kind six vol) hv (by rw [hfm]; exact hf.1) (by cases kind <;> rfl)
    (by rw [hfm]; exact hf.2.2.2.2.2.2.1) (by rw [← e]; exact hid) (by rw [← e]; exact hnd)
    (by rw [List.length_take, hl]; cases six <;> simp) (by rw [hfm]; exact hf.2.2.2.1)
    (by rw [hfm, hlen1]; exact hf.2.2.1)
    (by intro t ht; rw [hfm, ← e]; exact trackBits_create kind six vol t ht)
  rw [← e] at inv
  refine ⟨_, _, _, _, _, _, inv, ?_, ?_⟩
  · conv => rhs; rw [e]
    simp [fmtSec, Function.comp_def]
  · intro s hs
    rw [hfm] at hs
    simp only [List.mem_append, List.mem_map, List.mem_cons, List.not_mem_nil, or_false] at hs
    rcases hs with ⟨i, _, h⟩ | h <;> subst h <;> rfl

end A2Verif.Model.TrackImg
