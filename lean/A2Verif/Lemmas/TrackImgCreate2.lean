import A2Verif.Lemmas.TrackImgCreate
/-!
`Nib::create`, `Woz1::create`, `Woz2::create` (13 and 16 sectors) and `Nib::from_bytes` of an NB2 file establish
`ImgInv`.
-/
namespace A2Verif.Model.TrackImg
open A2Verif.Model.Track A2Verif.Model.Nibble

/-- the containers: the three `create` makes, and NB2 (`Nib::from_bytes` of 35 × 6384 bytes; here a created NIB
with every track cut to 6384 bytes) -/
inductive Variant
  | nib
  | nb2
  | woz1
  | woz2
deriving DecidableEq, Repr

/-- the image of a variant as the Rust object holds it right after `create` / `from_bytes` -/
def createV (v : Variant) (six : Bool) (vol : Nat) : TrackImg :=
  match v with
  | .nib => create Trk .nib six vol
  | .woz1 => create Trk .woz1 six vol
  | .woz2 => create Trk .woz2 six vol
  | .nb2 =>
    { kind := .nib, six := six, tmap := [], ents := [], offset := 0, trkCap := nb2Cap, headPtr := none,
      bytes := nb2Bytes (create Trk .nib six vol).bytes }

def capOf : Variant → Nat
  | .nib => nibCap
  | .nb2 => nb2Cap
  | .woz1 => woz1Cap
  | .woz2 => woz2Blocks * 512

/-- the format `new_rw_obj` uses for the variant -/
def fOf (v : Variant) (six : Bool) : Fmt :=
  ⟨six, (match v with | .nib => 8 | .nb2 => 8 | _ => if six then 10 else 9), capOf v⟩

/-- bits of the circular track: the whole buffer for NIB / NB2, `bit_count` for WOZ -/
def nOf (v : Variant) (six : Bool) : Nat :=
  match v with
  | .nib => nibCap * 8
  | .nb2 => nb2Cap * 8
  | _ => (fOf v six).bitCount (secIds six).length

/-- `FF` bytes behind the formatted bits that belong to the track (NIB / NB2 only) -/
def pOf (v : Variant) (six : Bool) : Nat :=
  match v with
  | .nib => (nibCap * 8 - (fOf v six).bitCount (secIds six).length) / 8
  | .nb2 => (nb2Cap * 8 - (fOf v six).bitCount (secIds six).length) / 8
  | _ => 0

def offsOf (v : Variant) (t : Nat) : Nat :=
  match v with
  | .nib => t * nibCap
  | .nb2 => t * nb2Cap
  | .woz1 => t * woz1Cap
  | .woz2 => (3 + woz2Blocks * t) * 512 - 1536

theorem fmtOf_create (v : Variant) (six : Bool) (vol : Nat) : fmtOf (createV v six vol) (capOf v) = fOf v six := by
  cases v <;> rfl

theorem facts (v : Variant) (six : Bool) :
    8 ≤ (fOf v six).syncBits ∧ (fOf v six).bitCount (secIds six).length ≤ capOf v * 8 ∧
    nOf v six = (fOf v six).bitCount (secIds six).length + 8 * pOf v six ∧
    (pOf v six = 0 ∨ (fOf v six).z = 0) ∧ nOf v six ≤ 8 * capOf v ∧ 0 < nOf v six ∧
    16 + (fOf v six).dataNibs + (60 + pOf v six) + 3 ≤ (fOf v six).maxTries ∧
    (nOf v six ≠ 0 ∧ nOf v six ≤ capOf v * 8) := by
  cases v <;> cases six <;> decide

/-- the formatter does not look at the buffer size: the bits it writes depend on codec and sync width only -/
theorem trackW_congr (f f' : Fmt) (h6 : f.six = f'.six) (hs : f.syncBits = f'.syncBits) (vol trk : Nat) (ids : List Nat) :
    trackW f vol trk ids = trackW f' vol trk ids := by
  have hsec : ∀ id, secW f vol trk id = secW f' vol trk id := by
    intro id; simp only [secW, syncW, Fmt.adrPro, h6, hs]
  have hsecF : secW f vol trk = secW f' vol trk := funext hsec
  simp only [trackW, syncW, hs, hsecF]

theorem unpack_take (bs : List Nat) : ∀ k, unpack (bs.take k) = (unpack bs).take (8 * k) := by
  induction bs with
  | nil => intro k; simp [unpack]
  | cons b bs ih =>
    intro k
    cases k with
    | zero => simp [unpack]
    | succ k =>
      have h8 : (bitsOf b 8).length = 8 := bitsOf_length b 8
      simp only [List.take_succ_cons, unpack, List.map_cons, List.flatten_cons] at ih ⊢
      have e1 : (bitsOf b 8).take (8 + 8 * k) = bitsOf b 8 := List.take_of_length_le (by rw [h8]; omega)
      rw [ih k, show 8 * (k + 1) = 8 + 8 * k by omega, List.take_append, h8, e1, Nat.add_sub_cancel_left]

/-- track buffer number `t` of the variant's image -/
def chunkOf (v : Variant) (six : Bool) (vol t : Nat) : List Nat :=
  match v with
  | .nb2 => (formatBuf Trk (fOf .nib six) vol t (nibCap * 8)).take nb2Cap
  | _ => formatBuf Trk (fOf v six) vol t (capOf v * 8)

theorem chunk_facts (v : Variant) (six : Bool) (vol t : Nat) :
    (chunkOf v six vol t).length = capOf v ∧
    (unpack (chunkOf v six vol t)).take (nOf v six) =
      trackW (fOf v six) vol t (secIds six) ++ List.replicate (8 * pOf v six) true := by
  have hf := facts v six
  have hWl := trackW_length (fOf v six) hf.1 vol t (secIds six)
  have hsix : ∀ w, (fOf w six).six = six := fun w => rfl
  cases v
  · -- NIB: the whole buffer
    have hu := formatBuf_unpack (fOf .nib six) hf.1 vol t (capOf .nib) hf.2.1
    rw [hsix] at hu
    refine ⟨hu.2, ?_⟩
    show (unpack (formatBuf Trk (fOf .nib six) vol t (capOf .nib * 8))).take _ = _
    rw [hu.1]
    have h8 : capOf .nib * 8 - (fOf .nib six).bitCount (secIds six).length = 8 * pOf .nib six := by
      cases six <;> decide
    have hfill : decide ((fOf .nib six).syncBits ≤ 8) = true := by cases six <;> rfl
    rw [h8, hfill]
    apply List.take_of_length_le
    rw [List.length_append, hWl, List.length_replicate]
    have := hf.2.2.1
    omega
  · -- NB2: the first 6384 bytes of the NIB buffer
    have hfn := facts .nib six
    have hu := formatBuf_unpack (fOf .nib six) hfn.1 vol t (capOf .nib) hfn.2.1
    rw [hsix] at hu
    have hlen : (chunkOf .nb2 six vol t).length = nb2Cap := by
      show ((formatBuf Trk (fOf .nib six) vol t (capOf .nib * 8)).take nb2Cap).length = nb2Cap
      rw [List.length_take, hu.2]; decide
    refine ⟨hlen, ?_⟩
    show (unpack ((formatBuf Trk (fOf .nib six) vol t (capOf .nib * 8)).take nb2Cap)).take (nb2Cap * 8) = _
    rw [unpack_take, hu.1, List.take_take, Nat.min_eq_left (by decide : nb2Cap * 8 ≤ 8 * nb2Cap)]
    have hfill : decide ((fOf .nib six).syncBits ≤ 8) = true := by cases six <;> rfl
    have hWn := trackW_length (fOf .nib six) hfn.1 vol t (secIds six)
    rw [hfill, trackW_congr (fOf .nb2 six) (fOf .nib six) rfl rfl,
      List.take_append, hWn, List.take_of_length_le (by rw [hWn]; cases six <;> decide), List.take_replicate]
    congr 2
    cases six <;> decide
  · have hu := formatBuf_unpack (fOf .woz1 six) hf.1 vol t (capOf .woz1) hf.2.1
    rw [hsix] at hu
    refine ⟨hu.2, ?_⟩
    show (unpack (formatBuf Trk (fOf .woz1 six) vol t (capOf .woz1 * 8))).take _ = _
    have hp : pOf .woz1 six = 0 := rfl
    rw [hu.1, hp, List.take_left' (by rw [hWl]; rfl)]; simp
  · have hu := formatBuf_unpack (fOf .woz2 six) hf.1 vol t (capOf .woz2) hf.2.1
    rw [hsix] at hu
    refine ⟨hu.2, ?_⟩
    show (unpack (formatBuf Trk (fOf .woz2 six) vol t (capOf .woz2 * 8))).take _ = _
    have hp : pOf .woz2 six = 0 := rfl
    rw [hu.1, hp, List.take_left' (by rw [hWl]; rfl)]; simp

theorem bytes_nib (six : Bool) (vol : Nat) :
    (create Trk .nib six vol).bytes = ((List.range 35).map fun t => chunkOf .nib six vol t).flatten := rfl

/-- the bytes of the variant's image: 35 track buffers of `capOf v` bytes each -/
theorem bytes_create (v : Variant) (six : Bool) (vol : Nat) :
    (createV v six vol).bytes = ((List.range 35).map fun t => chunkOf v six vol t).flatten := by
  cases v
  · rfl
  · show nb2Bytes (create Trk .nib six vol).bytes = _
    unfold nb2Bytes
    congr 1
    apply List.map_congr_left
    intro t ht
    rw [bytes_nib]
    have := slice_flatten_chunks (fun t => chunkOf .nib six vol t) nibCap 35
      (fun i _ => (chunk_facts .nib six vol i).1) t (List.mem_range.1 ht)
    rw [this]; rfl
  · rfl
  · rfl

theorem bytes_create_length (v : Variant) (six : Bool) (vol : Nat) :
    (createV v six vol).bytes.length = 35 * capOf v := by
  rw [bytes_create]
  exact length_flatten_chunks _ _ 35 (fun i _ => (chunk_facts v six vol i).1)

theorem offsOf_eq (v : Variant) (t : Nat) : offsOf v t = t * capOf v := by
  cases v
  · rfl
  · rfl
  · rfl
  · show (3 + 13 * t) * 512 - 1536 = t * (13 * 512); omega

theorem slice_create (v : Variant) (six : Bool) (vol t : Nat) (ht : t < 35) :
    (((createV v six vol).bytes.drop (offsOf v t)).take (capOf v)) = chunkOf v six vol t := by
  rw [bytes_create, offsOf_eq]
  exact slice_flatten_chunks _ _ 35 (fun i _ => (chunk_facts v six vol i).1) t ht

theorem tmap_woz1 (six : Bool) (vol : Nat) : (createV .woz1 six vol).tmap = tmapCreate := rfl
theorem tmap_woz2 (six : Bool) (vol : Nat) : (createV .woz2 six vol).tmap = tmapCreate := rfl
theorem offset_woz2 (six : Bool) (vol : Nat) : (createV .woz2 six vol).offset = 1536 := rfl

theorem ents_woz1 (six : Bool) (vol : Nat) :
    (createV .woz1 six vol).ents = (List.range 35).map fun _ => (⟨0, 0, nOf .woz1 six⟩ : Ent) := rfl

theorem ents_woz2 (six : Bool) (vol : Nat) :
    (createV .woz2 six vol).ents = ((List.range 35).map fun t => (⟨3 + woz2Blocks * t, woz2Blocks, nOf .woz2 six⟩ : Ent)) ++
      List.replicate 125 (⟨0, 0, 0⟩ : Ent) := rfl

theorem entry_woz1 (six : Bool) (vol t : Nat) (ht : t < 35) :
    (createV .woz1 six vol).ents[t]? = some ⟨0, 0, nOf .woz1 six⟩ := by
  rw [ents_woz1, List.getElem?_map, List.getElem?_range ht]; rfl

theorem entry_woz2 (six : Bool) (vol t : Nat) (ht : t < 35) :
    (createV .woz2 six vol).ents[t]? = some ⟨3 + woz2Blocks * t, woz2Blocks, nOf .woz2 six⟩ := by
  rw [ents_woz2, List.getElem?_append_left (by rw [List.length_map, List.length_range]; exact ht), List.getElem?_map,
    List.getElem?_range ht]; rfl

theorem numTracks_create (v : Variant) (six : Bool) (vol : Nat) : numTracks (createV v six vol) = .ok 35 := by
  cases v
  · rfl
  · rfl
  · have hk : (createV .woz1 six vol).kind = .woz1 := rfl
    simp only [numTracks, hk, ents_woz1, List.length_map, List.length_range]
  · have hn : nOf .woz2 six ≠ 0 := (facts .woz2 six).2.2.2.2.2.2.2.1
    have hk : (createV .woz2 six vol).kind = .woz2 := rfl
    have hl : (createV .woz2 six vol).ents.length = 160 := by
      rw [ents_woz2, List.length_append, List.length_map, List.length_range, List.length_replicate]
    simp only [numTracks, hk]
    rw [if_neg (by rw [hl]; omega), List.take_of_length_le (by rw [hl]; omega), ents_woz2, List.filter_append]
    have h1 : ((List.range 35).map fun t => (⟨3 + woz2Blocks * t, woz2Blocks, nOf .woz2 six⟩ : Ent)).filter
        (fun e => decide (e.bitCount ≠ 0)) = (List.range 35).map fun t => (⟨3 + woz2Blocks * t, woz2Blocks, nOf .woz2 six⟩ : Ent) := by
      apply List.filter_eq_self.2
      intro e he
      obtain ⟨i, _, rfl⟩ := List.mem_map.1 he
      simpa using hn
    have h2 : (List.replicate 125 (⟨0, 0, 0⟩ : Ent)).filter (fun e => decide (e.bitCount ≠ 0)) = [] := by
      apply List.filter_eq_nil_iff.2
      intro e he
      rw [List.eq_of_mem_replicate he]; simp
    rw [h1, h2, List.append_nil, List.length_map, List.length_range]

/-- **NIB and NB2 layout, for any track capacity**: an image of the NIB family whose byte buffer holds 35
tracks of `trkCap` bytes locates track `t` at `t * trkCap`; the 35 buffers are inside and pairwise disjoint. -/
theorem nib_layout (img : TrackImg) (cap : Nat) (hk : img.kind = .nib) (hc : img.trkCap = cap) (hpos : 0 < cap)
    (hl : img.bytes.length = 35 * cap) : Layout img (fun t => t * cap) cap (cap * 8) := by
  refine ⟨by simp only [numTracks, hk], ?_, ?_, ?_, by omega, by omega⟩
  · intro t ht
    have hin : (t + 1) * cap ≤ 35 * cap := Nat.mul_le_mul_right _ (by omega)
    unfold locate
    rw [hk]
    simp only []
    rw [hc, hl, if_pos hin]
  · intro t ht
    rw [hl]
    have : (t + 1) * cap ≤ 35 * cap := Nat.mul_le_mul_right _ (by omega)
    rw [Nat.succ_mul] at this; exact this
  · intro t u _ _ hne
    rcases Nat.lt_or_gt_of_ne hne with h | h
    · left
      have : (t + 1) * cap ≤ u * cap := Nat.mul_le_mul_right _ (by omega)
      rw [Nat.succ_mul] at this; exact this
    · right
      have : (u + 1) * cap ≤ t * cap := Nat.mul_le_mul_right _ (by omega)
      rw [Nat.succ_mul] at this; exact this

/-- `Nib::from_bytes` accepts exactly the two sizes and yields an image with the layout of its capacity -/
theorem nibFromBytes_layout (six : Bool) (bytes : List Nat) (cap : Nat) (hcap : cap = nibCap ∨ cap = nb2Cap)
    (hl : bytes.length = 35 * cap) :
    ∃ img, nibFromBytes six bytes = some img ∧ img.bytes = bytes ∧ img.trkCap = cap ∧
      Layout img (fun t => t * cap) cap (cap * 8) := by
  rcases hcap with h | h <;> subst h
  · refine ⟨{ kind := .nib, six := six, tmap := [], ents := [], offset := 0, trkCap := nibCap, bytes := bytes, headPtr := none },
      ?_, rfl, rfl, nib_layout _ nibCap rfl rfl (by decide) hl⟩
    unfold nibFromBytes; rw [if_pos hl]
  · have hne : ¬ bytes.length = 35 * nibCap := by rw [hl]; decide
    refine ⟨{ kind := .nib, six := six, tmap := [], ents := [], offset := 0, trkCap := nb2Cap, bytes := bytes, headPtr := none },
      ?_, rfl, rfl, nib_layout _ nb2Cap rfl rfl (by decide) hl⟩
    unfold nibFromBytes; rw [if_neg hne, if_pos hl]

/-- the NB2 image of the theorems is what `Nib::from_bytes` makes of the cut-down NIB bytes -/
theorem createV_nb2_fromBytes (six : Bool) (vol : Nat) :
    nibFromBytes six (nb2Bytes (create Trk .nib six vol).bytes) = some (createV .nb2 six vol) := by
  have hl : (nb2Bytes (create Trk .nib six vol).bytes).length = 35 * nb2Cap := bytes_create_length .nb2 six vol
  have hne : ¬ (nb2Bytes (create Trk .nib six vol).bytes).length = 35 * nibCap := by rw [hl]; decide
  unfold nibFromBytes; rw [if_neg hne, if_pos hl]
  rfl

/-- where the tracks of the variant's image live: through the TMAP (WOZ) to pairwise disjoint buffers -/
theorem layout_create (v : Variant) (six : Bool) (vol : Nat) :
    Layout (createV v six vol) (offsOf v) (capOf v) (nOf v six) := by
  have hlen := bytes_create_length v six vol
  have hf := facts v six
  cases v
  · exact nib_layout _ nibCap rfl rfl (by decide) hlen
  · exact nib_layout _ nb2Cap rfl rfl (by decide) hlen
  all_goals
    refine ⟨numTracks_create _ six vol, ?_, ?_, ?_, hf.2.2.2.2.1, hf.2.2.2.2.2.1⟩
  · intro t ht
    have hin : (t + 1) * capOf .woz1 ≤ 35 * capOf .woz1 := Nat.mul_le_mul_right _ (by omega)
    have hidx : getTrkIdx tmapCreate t = .ok t := tmapCreate_lookup ⟨t, ht⟩
    have hw := hf.2.2.2.2.2.2.2
    have hin' : (t + 1) * woz1Cap ≤ (createV .woz1 six vol).bytes.length := by rw [hlen]; exact hin
    have hk : (createV .woz1 six vol).kind = .woz1 := rfl
    unfold locate
    rw [hk]
    simp only []
    rw [tmap_woz1, hidx]
    simp only []
    rw [entry_woz1 six vol t ht]
    simp only []
    rw [if_pos ⟨hw.1, hw.2⟩, if_pos hin']
    rfl
  · intro t ht
    rw [hlen, offsOf_eq]
    have : (t + 1) * capOf .woz1 ≤ 35 * capOf .woz1 := Nat.mul_le_mul_right _ (by omega)
    rw [Nat.succ_mul] at this; exact this
  · intro t u ht hu hne
    rw [offsOf_eq, offsOf_eq]
    rcases Nat.lt_or_gt_of_ne hne with h | h
    · left
      have : (t + 1) * capOf .woz1 ≤ u * capOf .woz1 := Nat.mul_le_mul_right _ (by omega)
      rw [Nat.succ_mul] at this; exact this
    · right
      have : (u + 1) * capOf .woz1 ≤ t * capOf .woz1 := Nat.mul_le_mul_right _ (by omega)
      rw [Nat.succ_mul] at this; exact this
  · intro t ht
    have hin : (t + 1) * capOf .woz2 ≤ 35 * capOf .woz2 := Nat.mul_le_mul_right _ (by omega)
    have hidx : getTrkIdx tmapCreate t = .ok t := tmapCreate_lookup ⟨t, ht⟩
    have hw := hf.2.2.2.2.2.2.2
    have hw2 : nOf .woz2 six ≤ 13 * 512 * 8 := hw.2
    have hin' : (t + 1) * (13 * 512) ≤ 35 * (13 * 512) := hin
    have hlen' : (createV .woz2 six vol).bytes.length = 35 * (13 * 512) := hlen
    have hk : (createV .woz2 six vol).kind = .woz2 := rfl
    unfold locate
    rw [hk]
    simp only []
    rw [tmap_woz2, hidx]
    simp only []
    rw [entry_woz2 six vol t ht]
    simp only []
    rw [offset_woz2, hlen']
    rw [if_neg hw.1, if_neg (by show ¬ (3 + 13 * t) * 512 < 1536; omega),
      if_neg (by show ¬ ((3 + 13 * t) * 512 - 1536 + 13 * 512 > 35 * (13 * 512) ∨
        nOf .woz2 six > ((3 + 13 * t) * 512 - 1536 + 13 * 512 - ((3 + 13 * t) * 512 - 1536)) * 8); omega)]
    rfl
  · intro t ht
    rw [hlen, offsOf_eq]
    have : (t + 1) * capOf .woz2 ≤ 35 * capOf .woz2 := Nat.mul_le_mul_right _ (by omega)
    rw [Nat.succ_mul] at this; exact this
  · intro t u ht hu hne
    rw [offsOf_eq, offsOf_eq]
    rcases Nat.lt_or_gt_of_ne hne with h | h
    · left
      have : (t + 1) * capOf .woz2 ≤ u * capOf .woz2 := Nat.mul_le_mul_right _ (by omega)
      rw [Nat.succ_mul] at this; exact this
    · right
      have : (u + 1) * capOf .woz2 ≤ t * capOf .woz2 := Nat.mul_le_mul_right _ (by omega)
      rw [Nat.succ_mul] at this; exact this

theorem secIds_parts (six : Bool) :
    secIds six = (secIds six).take ((secIds six).length - 1) ++ [if six then 15 else 3] ∧
    (∀ i ∈ secIds six, i < 256) ∧ (secIds six).Nodup ∧ (secIds six).length = (if six then 16 else 13) := by
  cases six <;> decide

/-- the bits of every track of the variant's image: what `format` wrote, and for NIB / NB2 the `FF` rest -/
theorem trackBits_create (v : Variant) (six : Bool) (vol t : Nat) (ht : t < 35) :
    trackBits (createV v six vol).bytes (offsOf v t) (capOf v) (nOf v six) =
      trackW (fOf v six) vol t (secIds six) ++ List.replicate (8 * pOf v six) true := by
  unfold trackBits
  rw [slice_create v six vol t ht]
  exact (chunk_facts v six vol t).2

/-- **`create` (and `from_bytes` of an NB2 file) establishes the image invariant** — NIB, NB2, WOZ1, WOZ2; 16
sectors 6&2 and 13 sectors 5&3; every volume number. -/
theorem create_inv (v : Variant) (six : Bool) (vol : Nat) (hv : vol < 256) :
    ∃ o gaps secs0 a c0 k,
      ImgInv (createV v six vol) (offsOf v) (capOf v) (nOf v six) vol o gaps (secIds six)
        (fun _ => secs0) a c0 k ∧
      secs0.map (·.id) = secIds six ∧ (∀ s ∈ secs0, s.fld = fld0 (fOf v six)) := by
  obtain ⟨e, hid, hnd, hl⟩ := secIds_parts six
  have hf := facts v six
  have hfm := fmtOf_create v six vol
  have hlen1 : ((secIds six).take ((secIds six).length - 1)).length + 1 = (secIds six).length := by
    rw [List.length_take, hl]; cases six <;> simp
  have inv := fresh_inv (createV v six vol) (offsOf v) (capOf v) (nOf v six) vol (pOf v six)
    ((secIds six).take ((secIds six).length - 1)) (if six then 15 else 3)
    (layout_create v six vol) hv (by rw [hfm]; exact hf.1) (by cases v <;> rfl)
    (by rw [hfm]; exact hf.2.2.2.2.2.2.1) (by rw [← e]; exact hid) (by rw [← e]; exact hnd)
    (by rw [List.length_take, hl]; cases six <;> simp) (by rw [hfm]; exact hf.2.2.2.1)
    (by rw [hfm, hlen1]; exact hf.2.2.1)
    (by intro t ht; rw [hfm, ← e]; exact trackBits_create v six vol t ht)
  rw [← e] at inv
  refine ⟨_, _, _, _, _, _, inv, ?_, ?_⟩
  · conv => rhs; rw [e]
    simp [fmtSec, Function.comp_def]
  · intro s hs
    rw [hfm] at hs
    simp only [List.mem_append, List.mem_map, List.mem_cons, List.not_mem_nil, or_false] at hs
    rcases hs with ⟨i, _, h⟩ | h <;> subst h <;> rfl

end A2Verif.Model.TrackImg
