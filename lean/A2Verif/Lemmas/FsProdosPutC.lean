import A2Verif.Lemmas.FsProdosPutB
/-!
# `write_file`: the rounds of the loop (seedling and sapling)

`Wrote`: what `write_data_block_or_not` did (a data block into the first free block, or nothing for a hole).  `SapInv`: the
loop invariant while the file is a sapling — the index block on disk is the index buffer, which holds the pointers `P` of the
chunks `0 … c-1` (0 for a hole), the data blocks hold the chunks, the entry counts the blocks taken.  `sap_round`: one round
keeps it; `sap_start`: the first two rounds (seedling, conversion to a sapling) establish it.
-/
namespace A2Verif.FsProdos
open A2Verif.Fs.Prodos
open A2Verif.Read.Prodos (entryAt dirChain idxPtr indexEntries readData trimName)

def hasChunk (f : FImg) (k : Nat) : Bool := (f.chunks.lookup k).isSome

/-- number of chunks of the file image with index below `c` -/
def dataCount (f : FImg) (c : Nat) : Nat := ((List.range c).filter (hasChunk f)).length

theorem dataCount_succ (f : FImg) (c : Nat) : dataCount f (c + 1) = dataCount f c + (if hasChunk f c then 1 else 0) := by
  unfold dataCount
  rw [List.range_succ, List.filter_append, List.length_append]
  by_cases h : hasChunk f c = true <;> simp [h]

theorem dataCount_mono (f : FImg) {a : Nat} : ∀ {b : Nat}, a ≤ b → dataCount f a ≤ dataCount f b
  | 0, h => by have : a = 0 := by omega
               subst this; exact Nat.le_refl _
  | b + 1, h => by
    by_cases hab : a = b + 1
    · subst hab; exact Nat.le_refl _
    · have := dataCount_mono f (show a ≤ b by omega)
      rw [dataCount_succ]; omega

theorem freeBlocks_le (buf : Array Nat) (n : Nat) : (freeBlocks buf n).length ≤ n := by
  unfold freeBlocks
  have := List.length_filter_le (freeB buf) (List.range n)
  rw [List.length_range] at this; exact this

theorem freeBlocks_lt (buf : Array Nat) (n : Nat) (hn : n ≠ 0) (h0 : freeB buf 0 = false) : (freeBlocks buf n).length < n := by
  unfold freeBlocks
  obtain ⟨m, rfl⟩ : ∃ m, n = m + 1 := ⟨n - 1, by omega⟩
  rw [List.range_eq_range', List.range'_succ, List.filter_cons, h0]
  have := List.length_filter_le (freeB buf) (List.range' (0 + 1) m)
  rw [List.length_range'] at this
  simp only [Bool.false_eq_true, ↓reduceIte]
  omega

/-- what `write_data_block_or_not` did -/
structure Wrote (d2 : Disk) (bm cnt : Nat) (dc d' : Disk) (Al : List Nat) (bufMaybe : Option Bytes) (p : Nat) (Al' : List Nat) : Prop where
  a : AState d2 bm cnt d' Al'
  al : Al' = Al ++ (if p = 0 then [] else [p])
  oth : ∀ j, (p = 0 ∨ j ≠ p) → d'.raw.units[j]? = dc.raw.units[j]?
  none : bufMaybe = none → p = 0
  some : ∀ data, bufMaybe = some data → p ≠ 0 ∧ p < d2.total ∧ freeB (effBuf d2 bm cnt) p = true ∧ p ∉ Al ∧
    unitAt d'.raw p = quantize (data.take blockSize) ∧ (List.range d2.total).find? (freeB (effBuf dc bm cnt)) = some p

theorem wdb_any {d2 dc : Disk} {bm cnt : Nat} {Al : List Nat} (c : LoopCtx d2 bm cnt) (a : AState d2 bm cnt dc Al)
    (bufMaybe : Option Bytes) (hpos : bufMaybe.isSome = true → Al.length < (freeBlocks (effBuf d2 bm cnt) d2.total).length)
    (hb : ∀ data, bufMaybe = some data → ∀ x ∈ data, x < 256) (count end_ : Nat) (ent : Bytes) :
    ∃ p e' d' Al', writeDataBlockOrNot count end_ ent bufMaybe dc = (.ok (p, e'), d') ∧ Wrote d2 bm cnt dc d' Al bufMaybe p Al' ∧
      (∀ e0 st key used, EFacts e0 ent st key used → used + 1 < 65536 →
        EFacts e0 e' st key (used + (if p = 0 then 0 else 1))) := by
  cases bufMaybe with
  | none =>
    refine ⟨0, Ent.setEof ent (Ent.eof ent + 512), dc, Al, rfl, ⟨a, by simp, fun _ _ => rfl, fun _ => rfl, ?_⟩, ?_⟩
    · intro data h; cases h
    · intro e0 st key used h _; exact h.setEof _
  | some data =>
    obtain ⟨p, d1, d', h1, h2, a', hpl, hpf, hpn, hu, ho, hf⟩ := astate_write_new c a (hpos rfl) data (hb data rfl)
    have hp0 : p ≠ 0 := by
      intro e; rw [e, c.zero] at hpf; cases hpf
    refine ⟨p, Ent.setEof (Ent.incBlocks ent) (Ent.eof ent + (if count + 1 < end_ then 512 else data.length)), d', Al ++ [p], ?_, ⟨a', by rw [if_neg hp0], ?_, ?_, ?_⟩, ?_⟩
    · unfold writeDataBlockOrNot
      simp only [bind_def, pure_def]
      rw [bind_ok _ _ dc d1 _ h1]
      simp only []
      rw [bind_ok _ _ d1 d' _ h2]
      rfl
    · intro j hj
      rcases hj with hj | hj
      · exact absurd hj hp0
      · exact ho j hj
    · intro h; cases h
    · intro data' h; injection h with h; subst h
      exact ⟨hp0, hpl, hpf, hpn, hu, hf⟩
    · intro e0 st key used h hu'
      rw [if_neg hp0]
      exact (h.incBlocks hu').setEof _

/-- the part of the sapling invariant about the index buffer `ibuf` (for the index block `I`), the entry `ent` and the data blocks -/
structure SapCore (f : FImg) (d2 : Disk) (bm cnt : Nat) (e0 : Bytes) (c I : Nat) (ibuf ent : Bytes) (dc : Disk) (Al P : List Nat) : Prop where
  a : AState d2 bm cnt dc Al
  acnt : Al.length = dataCount f c + 1
  ip : I ∈ Al
  ibuf : IdxIs ibuf P
  plen : P.length = c
  ent : EFacts e0 ent 2 I Al.length
  pal : ∀ x ∈ P, x ≠ 0 → x ∈ Al ∧ x ≠ I
  dat : ∀ k, k < c → ∀ data, f.chunks.lookup k = some data →
    P.getD k 0 ≠ 0 ∧ unitAt dc.raw (P.getD k 0) = quantize (data.take blockSize)
  hole : ∀ k, k < c → f.chunks.lookup k = none → P.getD k 0 = 0
  own : (I :: P.filter (· ≠ 0)).Nodup
  alp : ∀ x ∈ Al, x = I ∨ x ∈ P
  pcnt : (P.filter (· ≠ 0)).length = dataCount f c

/-- the loop invariant while the file is a sapling, before round `c` -/
structure SapInv (f : FImg) (d2 : Disk) (bm cnt : Nat) (e0 : Bytes) (c : Nat) (s : WS) (dc : Disk) (Al P : List Nat) : Prop where
  core : SapCore f d2 bm cnt e0 c s.indexPtr s.indexBuf s.entry dc Al P
  st : s.storage = stSapling
  ic : s.indexCount = c
  mc : s.masterCount = 0
  mb : s.masterBuf = zeros blockSize
  iblk : unitAt dc.raw s.indexPtr = s.indexBuf

theorem sap_ne_seed : (stSapling = stSeedling) = False := eq_false (by decide)
theorem tree_ne_seed : (stTree = stSeedling) = False := eq_false (by decide)
theorem tree_ne_sap : (stTree = stSapling) = False := eq_false (by decide)

/-- the tail of a sapling round: the data block (or hole) of chunk `c`, its pointer into the index buffer, the index block -/
theorem sap_tail {f : FImg} {d2 : Disk} {bm cnt : Nat} {e0 : Bytes} {c I : Nat} {ibuf ent : Bytes} {dn : Disk} {Al P : List Nat}
    (ctx : LoopCtx d2 bm cnt) (inv : SapCore f d2 bm cnt e0 c I ibuf ent dn Al P) (hc : c < 256) (end_ : Nat)
    (hfit : dataCount f (c + 1) + 1 ≤ (freeBlocks (effBuf d2 bm cnt) d2.total).length)
    (hbytes : ∀ k data, f.chunks.lookup k = some data → ∀ x ∈ data, x < 256) :
    ∃ p e1 d1 ib1 d' Al', writeDataBlockOrNot c end_ ent (f.chunks.lookup c) dn = (.ok (p, e1), d1) ∧
      packIndexPtr ibuf p c = some ib1 ∧ writeBlock ib1 I 0 d1 = (.ok (), d') ∧
      SapCore f d2 bm cnt e0 (c + 1) I ib1 e1 d' Al' (P ++ [p]) ∧ unitAt d'.raw I = ib1 := by
  have hF := freeBlocks_lt (effBuf d2 bm cnt) d2.total ctx.tot0 ctx.zero
  have hds := dataCount_succ f c
  have hlen := inv.acnt
  have h16 := ctx.tot16
  obtain ⟨p, e1, d1, Al1, hw, w, hef⟩ := wdb_any ctx inv.a (f.chunks.lookup c) (by
    intro h
    have : hasChunk f c = true := h
    rw [this] at hds; simp at hds; omega) (hbytes c) c end_ ent
  have ent1 := hef e0 2 I Al.length inv.ent (by omega)
  have hp16 : p < 65536 := by
    cases hl : f.chunks.lookup c with
    | none => rw [w.none hl]; decide
    | some data => have := (w.some data hl).2.1; omega
  obtain ⟨ib1, hpack, hib1⟩ := pack_append ibuf P p inv.ibuf (by rw [inv.plen]; exact hc) hp16
  rw [inv.plen] at hpack
  have hipAl1 : I ∈ Al1 := by rw [w.al]; exact List.mem_append_left _ inv.ip
  obtain ⟨d2', hwb, a2, hu2, ho2⟩ := astate_rewrite ctx w.a I hipAl1 ib1 hib1.bytes
  refine ⟨p, e1, d1, ib1, d2', Al1, hw, hpack, hwb, ?_, ?_⟩
  · have hmemAl : ∀ x ∈ Al, x ∈ Al1 := fun x hx => by rw [w.al]; exact List.mem_append_left _ hx
    have hpI : p ≠ 0 → p ≠ I ∧ p ∉ Al ∧ p ∈ Al1 := by
      intro hp0
      cases hl : f.chunks.lookup c with
      | none => exact absurd (w.none hl) hp0
      | some data =>
        obtain ⟨_, _, _, hpn, _, _⟩ := w.some data hl
        refine ⟨fun e => hpn (e ▸ inv.ip), hpn, ?_⟩
        rw [w.al, if_neg hp0]; exact List.mem_append_right _ (List.mem_singleton.mpr rfl)
    have hkeep : ∀ x ∈ Al, x ≠ I → unitAt d2'.raw x = unitAt dn.raw x := by
      intro x hx hxI
      rw [unitAt_congr (ho2 x hxI), unitAt_congr (w.oth x (by
        by_cases hp0 : p = 0
        · exact Or.inl hp0
        · exact Or.inr (fun e => (hpI hp0).2.1 (e ▸ hx))))]
    have hgetl : ∀ k, k < c → (P ++ [p]).getD k 0 = P.getD k 0 := by
      intro k hk
      simp only [List.getD_eq_getElem?_getD]
      rw [List.getElem?_append_left (by rw [inv.plen]; exact hk)]
    have hgetc : (P ++ [p]).getD c 0 = p := by
      simp only [List.getD_eq_getElem?_getD]
      rw [List.getElem?_append_right (by rw [inv.plen]; exact Nat.le_refl _), inv.plen]
      simp
    refine ⟨a2, ?_, hipAl1, hib1, by rw [List.length_append, inv.plen]; rfl, ?_, ?_, ?_, ?_, ?_, ?_, ?_⟩
    · rw [w.al, List.length_append, hds, hlen]
      unfold hasChunk
      cases hl : f.chunks.lookup c with
      | none => rw [w.none hl]; simp
      | some data => rw [if_neg (w.some data hl).1]; simp
    · have : Al1.length = Al.length + (if p = 0 then 0 else 1) := by
        rw [w.al, List.length_append]; by_cases hp0 : p = 0 <;> simp [hp0]
      rw [this]; exact ent1
    · intro x hx hx0
      rcases List.mem_append.mp hx with h | h
      · exact ⟨hmemAl x (inv.pal x h hx0).1, (inv.pal x h hx0).2⟩
      · rw [List.mem_singleton] at h; subst h
        exact ⟨(hpI hx0).2.2, (hpI hx0).1⟩
    · intro k hk data hl
      by_cases hkc : k = c
      · subst hkc
        rw [hgetc]
        obtain ⟨hp0, _, _, hpn, hu, _⟩ := w.some data hl
        refine ⟨hp0, ?_⟩
        rw [unitAt_congr (ho2 p (hpI hp0).1), hu]
      · have hk' : k < c := by omega
        rw [hgetl k hk']
        obtain ⟨h0, hu⟩ := inv.dat k hk' data hl
        refine ⟨h0, ?_⟩
        have hm : P.getD k 0 ∈ P := by
          simp only [List.getD_eq_getElem?_getD]
          rw [List.getElem?_eq_getElem (by rw [inv.plen]; exact hk')]
          exact List.getElem_mem _
        rw [hkeep _ (inv.pal _ hm h0).1 (inv.pal _ hm h0).2, hu]
    · intro k hk hl
      by_cases hkc : k = c
      · subst hkc; rw [hgetc]; exact w.none hl
      · rw [hgetl k (by omega)]; exact inv.hole k (by omega) hl
    · show (I :: (P ++ [p]).filter (· ≠ 0)).Nodup
      rw [List.filter_append]
      by_cases hp0 : p = 0
      · subst hp0; simp only [List.filter_cons, List.filter_nil, ne_eq, not_true_eq_false, decide_false, Bool.false_eq_true, ↓reduceIte, List.append_nil]
        exact inv.own
      · have : [p].filter (· ≠ 0) = [p] := by simp [hp0]
        rw [this, ← List.cons_append, List.nodup_append]
        refine ⟨inv.own, by simp, ?_⟩
        intro x hx y hy e
        rw [List.mem_singleton] at hy; subst hy; subst e
        rcases List.mem_cons.mp hx with h | h
        · exact (hpI hp0).1 h
        · have hxP := (List.mem_filter.mp h).1
          exact (hpI hp0).2.1 (inv.pal x hxP hp0).1
    · intro x hx
      rw [w.al] at hx
      rcases List.mem_append.mp hx with h | h
      · rcases inv.alp x h with h' | h'
        · exact Or.inl h'
        · exact Or.inr (List.mem_append_left _ h')
      · by_cases hp0 : p = 0
        · rw [if_pos hp0] at h; cases h
        · rw [if_neg hp0] at h; exact Or.inr (List.mem_append_right _ h)
    · rw [List.filter_append, List.length_append, inv.pcnt, hds]
      unfold hasChunk
      cases hl : f.chunks.lookup c with
      | none => rw [w.none hl]; simp
      | some data => have := (w.some data hl).1; simp [this]
  · rw [hu2, List.take_of_length_le (by rw [hib1.len]; decide), quantize_full _ hib1.len]

theorem SapCore.opened {f : FImg} {d2 : Disk} {bm cnt : Nat} {e0 : Bytes} {c I : Nat} {ibuf ent : Bytes} {dc dn : Disk} {Al P : List Nat}
    (h : SapCore f d2 bm cnt e0 c I ibuf ent dc Al P) (an : AState d2 bm cnt dn Al) (hraw : dn.raw = dc.raw) :
    SapCore f d2 bm cnt e0 c I ibuf ent dn Al P :=
  ⟨an, h.acnt, h.ip, h.ibuf, h.plen, h.ent, h.pal, fun k hk data hl => by rw [hraw]; exact h.dat k hk data hl, h.hole, h.own, h.alp, h.pcnt⟩

theorem need_sap (f : FImg) (c F A : Nat) (hds : dataCount f (c + 1) = dataCount f c + (if hasChunk f c then 1 else 0))
    (hA : A = dataCount f c + 1) (hfit : dataCount f (c + 1) + 1 ≤ F) :
    ¬ ((if (f.chunks.lookup c).isNone = true then 0 else 1) > F - A) := by
  unfold hasChunk at hds
  cases hl : f.chunks.lookup c with
  | none => simp
  | some data => rw [hl] at hds; simp at hds ⊢; omega

/-- **one round of the loop while the file is a sapling** -/
theorem sap_round {f : FImg} {d2 : Disk} {bm cnt : Nat} {e0 : Bytes} {c : Nat} {s : WS} {dc : Disk} {Al P : List Nat}
    (ctx : LoopCtx d2 bm cnt) (inv : SapInv f d2 bm cnt e0 c s dc Al P) (hc : c < 256) (end_ : Nat)
    (hfit : dataCount f (c + 1) + 1 ≤ (freeBlocks (effBuf d2 bm cnt) d2.total).length)
    (hbytes : ∀ k data, f.chunks.lookup k = some data → ∀ x ∈ data, x < 256) :
    ∃ s' d' Al' P', wfStep f end_ c s dc = (.ok s', d') ∧ SapInv f d2 bm cnt e0 (c + 1) s' d' Al' P' := by
  obtain ⟨dn, hnum, an, hrawn, heffn⟩ := numFree_astate ctx inv.core.a
  obtain ⟨p, e1, d1, ib1, d', Al', hw, hpack, hwb, core', hiblk⟩ :=
    sap_tail ctx (inv.core.opened an hrawn) hc end_ hfit hbytes
  refine ⟨{ s with entry := e1, indexBuf := ib1, indexCount := s.indexCount + 1 }, d', Al', P ++ [p], ?_,
    ⟨core', inv.st, by show s.indexCount + 1 = c + 1; rw [inv.ic], inv.mc, inv.mb, hiblk⟩⟩
  unfold wfStep
  simp only [bind_def, pure_def]
  rw [if_neg (by rw [inv.mc]; omega)]
  rw [bind_ok _ _ dc dn _ hnum]
  simp only [inv.st, sap_ne_seed, ↓reduceIte]
  rw [if_pos (show s.indexCount < 256 by rw [inv.ic]; exact hc)]
  rw [if_neg (need_sap f c _ _ (dataCount_succ f c) inv.core.acnt hfit), if_neg (by rw [inv.ic]; omega)]
  rw [bind_ok _ _ dn d1 _ hw]
  simp only []
  rw [inv.ic, hpack, bind_ok _ _ d1 d1 _ (ofOption_some _ d1), bind_ok _ _ d1 d' _ hwb]
  rfl

/-- the state after round 0 (the file is a seedling) -/
structure SeedInv (f : FImg) (d2 : Disk) (bm cnt : Nat) (e0 : Bytes) (nb : Nat) (s : WS) (dc : Disk) (Al : List Nat) : Prop where
  a : AState d2 bm cnt dc Al
  st : s.storage = stSeedling
  ic : s.indexCount = 0
  mc : s.masterCount = 0
  mb : s.masterBuf = zeros blockSize
  ib : s.indexBuf = zeros blockSize
  ent : EFacts e0 s.entry 1 nb Al.length
  dat : ∀ data, f.chunks.lookup 0 = some data → Al = [nb] ∧ unitAt dc.raw nb = quantize (data.take blockSize)
  hole : f.chunks.lookup 0 = none → Al = []

/-- **round 0**: the data of chunk 0, if the image has it, goes to the block the entry names -/
theorem seed_round0 {f : FImg} {d2 : Disk} {bm cnt : Nat} {e0 : Bytes} {nb : Nat} (ctx : LoopCtx d2 bm cnt) (s : WS)
    (hst : s.storage = stSeedling) (hic : s.indexCount = 0) (hmc : s.masterCount = 0) (hmb : s.masterBuf = zeros blockSize)
    (hib : s.indexBuf = zeros blockSize) (hent : EFacts e0 s.entry 1 nb 0)
    (hnb : ∀ p, (List.range d2.total).find? (freeB (effBuf d2 bm cnt)) = some p → p = nb)
    (hfit : 1 ≤ (freeBlocks (effBuf d2 bm cnt) d2.total).length)
    (hbytes : ∀ k data, f.chunks.lookup k = some data → ∀ x ∈ data, x < 256) (end_ : Nat) :
    ∃ s' d' Al', wfStep f end_ 0 s d2 = (.ok s', d') ∧ SeedInv f d2 bm cnt e0 nb s' d' Al' := by
  obtain ⟨dn, hnum, an, hrawn, heffn⟩ := numFree_astate ctx (AState.init ctx)
  obtain ⟨p, e1, d1, Al1, hw, w, hef⟩ := wdb_any ctx an (f.chunks.lookup 0) (fun _ => hfit) (hbytes 0) 0 end_ s.entry
  have ent1 := hef e0 1 nb 0 hent (by decide)
  refine ⟨{ s with entry := e1 }, d1, Al1, ?_, ⟨w.a, hst, hic, hmc, hmb, hib, ?_, ?_, ?_⟩⟩
  · unfold wfStep
    simp only [bind_def, pure_def]
    rw [if_neg (by rw [hmc]; omega)]
    rw [bind_ok _ _ d2 dn _ hnum]
    simp only [hst, ↓reduceIte, List.length_nil, Nat.sub_zero]
    rw [if_neg (by omega), if_neg (by omega)]
    rw [bind_ok _ _ dn d1 _ hw]
    rfl
  · have : Al1.length = 0 + (if p = 0 then 0 else 1) := by
      rw [w.al]; by_cases hp0 : p = 0 <;> simp [hp0]
    rw [this]; exact ent1
  · intro data hl
    obtain ⟨hp0, _, _, _, hu, hf⟩ := w.some data hl
    rw [heffn] at hf
    have := hnb p hf
    subst this
    refine ⟨by rw [w.al, if_neg hp0]; rfl, hu⟩
  · intro hl
    rw [w.al, w.none hl]; rfl

theorem dataCount_zero (f : FImg) : dataCount f 0 = 0 := rfl

/-- **round 1**: the seedling becomes a sapling — an index block is taken, slot 0 gets the block of chunk 0 (or 0 when the
image has no chunk 0, source as repaired), slot 1 the block of chunk 1 -/
theorem seed_round1 {f : FImg} {d2 : Disk} {bm cnt : Nat} {e0 : Bytes} {nb : Nat} {s : WS} {dc : Disk} {Al : List Nat}
    (ctx : LoopCtx d2 bm cnt) (inv : SeedInv f d2 bm cnt e0 nb s dc Al) (hfh : d2.src.firstHole = true)
    (hfit : dataCount f 2 + 1 ≤ (freeBlocks (effBuf d2 bm cnt) d2.total).length)
    (hbytes : ∀ k data, f.chunks.lookup k = some data → ∀ x ∈ data, x < 256) (end_ : Nat) :
    ∃ s' d' Al' P', wfStep f end_ 1 s dc = (.ok s', d') ∧ SapInv f d2 bm cnt e0 2 s' d' Al' P' := by
  have hF := freeBlocks_lt (effBuf d2 bm cnt) d2.total ctx.tot0 ctx.zero
  have h16 := ctx.tot16
  have hd1 : dataCount f 1 = if hasChunk f 0 then 1 else 0 := by rw [dataCount_succ, dataCount_zero]; omega
  have hd2 : dataCount f 2 = dataCount f 1 + (if hasChunk f 1 then 1 else 0) := dataCount_succ f 1
  have hAl : Al.length = dataCount f 1 := by
    rw [hd1]; unfold hasChunk
    cases hl : f.chunks.lookup 0 with
    | none => rw [inv.hole hl]; rfl
    | some data => rw [(inv.dat data hl).1]; rfl
  obtain ⟨dn, hnum, an, hrawn, heffn⟩ := numFree_astate ctx inv.a
  obtain ⟨I, d1, d1', hav, hal, a1, hraw1, hIl, hIf, hIn⟩ := astate_reserve ctx an (by omega)
  let first := if (f.chunks.lookup 0).isNone then 0 else nb
  have hfirst16 : first < 65536 := by
    show (if (f.chunks.lookup 0).isNone then 0 else nb) < 65536
    cases hl : f.chunks.lookup 0 with
    | none => simp
    | some data =>
      have := (inv.a.alfree nb (by rw [(inv.dat data hl).1]; exact List.mem_singleton.mpr rfl)).2
      simp; omega
  obtain ⟨ib1, hpack1, hib1⟩ := pack_append (zeros blockSize) [] first idxIs_zeros (by decide) hfirst16
  have e2f := (inv.ent.changeStorage 2 (by decide)).incBlocks (show Al.length + 1 < 65536 by omega)
  have e3f := e2f.setPtr I (by omega)
  have core1 : SapCore f d2 bm cnt e0 1 I ib1
      (Ent.setPtr (Ent.incBlocks (Ent.changeStorageType s.entry stSapling)) I) d1' (Al ++ [I]) [first] := by
    refine ⟨a1, by rw [List.length_append, hAl]; rfl, List.mem_append_right _ (List.mem_singleton.mpr rfl), hib1, rfl,
      by rw [List.length_append]; exact e3f, ?_, ?_, ?_, ?_, ?_, ?_⟩
    · intro x hx hx0
      rw [List.mem_singleton] at hx
      cases hl : f.chunks.lookup 0 with
      | none => exfalso; apply hx0; rw [hx]; show (if (f.chunks.lookup 0).isNone then 0 else nb) = 0; rw [hl]; rfl
      | some data =>
        have hxn : x = nb := by rw [hx]; show (if (f.chunks.lookup 0).isNone then 0 else nb) = nb; rw [hl]; rfl
        have hnbAl : nb ∈ Al := by rw [(inv.dat data hl).1]; exact List.mem_singleton.mpr rfl
        rw [hxn]
        exact ⟨List.mem_append_left _ hnbAl, fun e => hIn (e ▸ hnbAl)⟩
    · intro k hk data hl
      have hk0 : k = 0 := by omega
      subst hk0
      have hfn : first = nb := by show (if (f.chunks.lookup 0).isNone then 0 else nb) = nb; rw [hl]; rfl
      show first ≠ 0 ∧ unitAt d1'.raw first = _
      rw [hfn, hraw1, hrawn]
      refine ⟨?_, (inv.dat data hl).2⟩
      intro e
      have := (inv.a.alfree nb (by rw [(inv.dat data hl).1]; exact List.mem_singleton.mpr rfl)).1
      rw [e, ctx.zero] at this; cases this
    · intro k hk hl
      have hk0 : k = 0 := by omega
      subst hk0
      show (if (f.chunks.lookup 0).isNone then 0 else nb) = 0
      rw [hl]; rfl
    · show (I :: [first].filter (· ≠ 0)).Nodup
      cases hl : f.chunks.lookup 0 with
      | none =>
        have : first = 0 := by show (if (f.chunks.lookup 0).isNone then 0 else nb) = 0; rw [hl]; rfl
        rw [this]; simp
      | some data =>
        have hfn : first = nb := by show (if (f.chunks.lookup 0).isNone then 0 else nb) = nb; rw [hl]; rfl
        have hnbAl : nb ∈ Al := by rw [(inv.dat data hl).1]; exact List.mem_singleton.mpr rfl
        rw [hfn]
        have : I ≠ nb := fun e => hIn (e ▸ hnbAl)
        by_cases h0 : nb = 0 <;> simp [h0, this]
    · intro x hx
      rcases List.mem_append.mp hx with h | h
      · right
        cases hl : f.chunks.lookup 0 with
        | none => rw [inv.hole hl] at h; cases h
        | some data =>
          rw [(inv.dat data hl).1] at h
          have hfn : first = nb := by show (if (f.chunks.lookup 0).isNone then 0 else nb) = nb; rw [hl]; rfl
          rw [hfn]; exact h
      · left; exact List.mem_singleton.mp h
    · rw [hd1]; unfold hasChunk
      cases hl : f.chunks.lookup 0 with
      | none =>
        have : first = 0 := by show (if (f.chunks.lookup 0).isNone then 0 else nb) = 0; rw [hl]; rfl
        rw [this]; simp
      | some data =>
        have hfn : first = nb := by show (if (f.chunks.lookup 0).isNone then 0 else nb) = nb; rw [hl]; rfl
        have hnb0 : nb ≠ 0 := by
          intro e
          have := (inv.a.alfree nb (by rw [(inv.dat data hl).1]; exact List.mem_singleton.mpr rfl)).1
          rw [e, ctx.zero] at this; cases this
        rw [hfn]; simp [hnb0]
  obtain ⟨p, e1, d3, ib2, d', Al', hw, hpack2, hwb, core', hiblk⟩ := sap_tail ctx core1 (by decide) end_ hfit hbytes
  refine ⟨{ s with storage := stSapling, entry := e1, indexPtr := I, indexBuf := ib2, indexCount := s.indexCount + 2 }, d', Al',
    [first] ++ [p], ?_, ⟨core', rfl, by show s.indexCount + 2 = 2; rw [inv.ic], inv.mc, inv.mb, hiblk⟩⟩
  unfold wfStep
  simp only [bind_def, pure_def]
  rw [if_neg (by rw [inv.mc]; omega)]
  rw [bind_ok _ _ dc dn _ hnum]
  simp only [inv.st, ↓reduceIte]
  have hneed : ¬ ((if (1 : Nat) = 0 then 1 else if (f.chunks.lookup 1).isNone = true then 1 else 2) >
      (freeBlocks (effBuf d2 bm cnt) d2.total).length - Al.length) := by
    unfold hasChunk at hd2
    cases hl : f.chunks.lookup 1 with
    | none => simp; omega
    | some data => rw [hl] at hd2; simp at hd2 ⊢; omega
  rw [if_neg hneed, if_pos (by decide)]
  rw [bind_ok _ _ dn d1 _ hav, bind_ok _ _ d1 d1' _ hal]
  rw [bind_ok M.get _ d1' d1' d1' rfl]
  have hsrc : d1'.src.firstHole = true := by rw [a1.src]; exact hfh
  have hkp : Ent.keyPtr (Ent.incBlocks (Ent.changeStorageType s.entry stSapling)) = nb := e2f.key
  have hfeq : (if d1'.src.firstHole = true ∧ (f.chunks.lookup 0).isNone = true then 0
      else Ent.keyPtr (Ent.incBlocks (Ent.changeStorageType s.entry stSapling))) = first := by
    rw [hkp, hsrc]
    show _ = (if (f.chunks.lookup 0).isNone then 0 else nb)
    cases f.chunks.lookup 0 <;> simp
  rw [hfeq, inv.ib]
  rw [show packIndexPtr (zeros blockSize) first 0 = some ib1 from hpack1]
  rw [bind_ok _ _ d1' d1' _ (ofOption_some _ d1'), bind_ok _ _ d1' d3 _ hw]
  simp only [inv.ic, Nat.zero_add]
  rw [hpack2, bind_ok _ _ d3 d3 _ (ofOption_some _ d3), bind_ok _ _ d3 d' _ hwb]
  rfl

end A2Verif.FsProdos
