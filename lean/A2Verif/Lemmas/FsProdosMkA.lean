import A2Verif.Lemmas.FsProdosPutM
/-!
# `create(path)` (make a directory): the entry and the key block it writes

`SubEntry e nm nb hp`: the fields of the parent entry `Entry::create_subdir` builds (storage type `0xD`, key pointer, one
block, name).  `NewKey kb B idx`: the key block `create` writes for the new directory — no links, a sub-directory header
with the standard geometry naming slot `(B, idx)` as its parent entry, file count 0, every entry slot empty.
-/
namespace A2Verif.FsProdos
open A2Verif.Fs.Prodos
open A2Verif.Read.Prodos (entryAt dirChain idxPtr indexEntries readData trimName bitmapFree)
open A2Verif.Read.ProdosT

/-- the fields of the entry `Entry::create_subdir` (followed by `delta_blocks(1); set_eof(512)`) builds -/
structure SubEntry (e nm : Bytes) (nb : Nat) : Prop where
  len : e.length = 39
  bytes : ∀ x ∈ e, x < 256
  b0 : e.getD 0 0 = 0xD * 16 + nm.length
  nlen : 1 ≤ nm.length ∧ nm.length ≤ 15
  key : le16 e 17 = nb
  used : le16 e 19 = 1
  name : trimName e = upper nm

theorem createSubdir_facts (nm : Bytes) (nb hp : Nat) (time : Bytes) (hv : isNameValid nm = true)
    (ht : time.length = 4) (htb : ∀ x ∈ time, x < 256) (hnb : nb < 65536) :
    SubEntry (createSubdir nm nb hp time) nm nb := by
  obtain ⟨hn1, hn15⟩ := isNameValid_len nm hv
  obtain ⟨t0, t1, t2, t3, rfl⟩ : ∃ t0 t1 t2 t3, time = [t0, t1, t2, t3] := by
    match time, ht with
    | [a, b, c, d], _ => exact ⟨a, b, c, d, rfl⟩
  have hnf := nameField_length nm hn15
  have ht' : t0 < 256 ∧ t1 < 256 ∧ t2 < 256 ∧ t3 < 256 :=
    ⟨htb t0 (by simp), htb t1 (by simp), htb t2 (by simp), htb t3 (by simp)⟩
  -- the entry before `delta_blocks` and `set_eof`
  have hshape : ([nibsOf stSubDirEntry nm] ++ nameField nm ++ [0x0F] ++ u16le nb ++ [0, 0] ++ [0, 0, 0] ++ [t0, t1, t2, t3].take 4 ++
      [0, 0, stdAccess ||| didChange] ++ u16le 0 ++ [t0, t1, t2, t3].take 4 ++ u16le hp : Bytes) =
      ([nibsOf stSubDirEntry nm] ++ nameField nm) ++
        [0x0F, nb % 256, nb / 256 % 256, 0, 0, 0, 0, 0, t0, t1, t2, t3, 0, 0, stdAccess ||| didChange, 0, 0, t0, t1, t2, t3, hp % 256, hp / 256 % 256] := by
    unfold u16le; simp
  have hl0 : (([nibsOf stSubDirEntry nm] ++ nameField nm) ++
        [0x0F, nb % 256, nb / 256 % 256, 0, 0, 0, 0, 0, t0, t1, t2, t3, 0, 0, stdAccess ||| didChange, 0, 0, t0, t1, t2, t3, hp % 256, hp / 256 % 256] : Bytes).length = 39 := by
    simp [hnf]
  have hb0 : ∀ x ∈ (([nibsOf stSubDirEntry nm] ++ nameField nm) ++
        [0x0F, nb % 256, nb / 256 % 256, 0, 0, 0, 0, 0, t0, t1, t2, t3, 0, 0, stdAccess ||| didChange, 0, 0, t0, t1, t2, t3, hp % 256, hp / 256 % 256] : Bytes), x < 256 := by
    intro x hx
    rcases List.mem_append.mp hx with h | h
    · rcases List.mem_append.mp h with h | h
      · rw [List.mem_singleton] at h; rw [h]; unfold nibsOf; omega
      · exact nameField_bytes nm hv x h
    · have hsa : stdAccess ||| didChange < 256 := by decide
      simp only [List.mem_cons, List.mem_nil_iff, or_false] at h
      rcases h with h | h | h | h | h | h | h | h | h | h | h | h | h | h | h | h | h | h | h | h | h | h | h <;> omega
  have hg0 : ∀ j, (([nibsOf stSubDirEntry nm] ++ nameField nm) ++
        [0x0F, nb % 256, nb / 256 % 256, 0, 0, 0, 0, 0, t0, t1, t2, t3, 0, 0, stdAccess ||| didChange, 0, 0, t0, t1, t2, t3, hp % 256, hp / 256 % 256] : Bytes).getD j 0 =
      if j = 0 then nibsOf stSubDirEntry nm else if j ≤ 15 then (nameField nm).getD (j - 1) 0
      else [0x0F, nb % 256, nb / 256 % 256, 0, 0, 0, 0, 0, t0, t1, t2, t3, 0, 0, stdAccess ||| didChange, 0, 0, t0, t1, t2, t3, hp % 256, hp / 256 % 256].getD (j - 16) 0 := by
    intro j
    simp only [List.getD_eq_getElem?_getD]
    by_cases h0 : j = 0
    · subst h0; simp
    · rw [if_neg h0]
      by_cases h15 : j ≤ 15
      · rw [if_pos h15, List.getElem?_append_left (by simp [hnf]; omega), List.getElem?_append_right (by simp; omega)]
        simp
      · rw [if_neg h15, List.getElem?_append_right (by simp [hnf]; omega)]
        simp [hnf]
  unfold createSubdir
  rw [hshape]
  -- `delta_blocks(1)` on a block count of 0, then `set_eof(512)`
  have hf0 : EFacts _ _ 0xD nb 0 := (⟨hl0, hb0, by rw [hg0 0, if_pos rfl]; unfold nibsOf stSubDirEntry; omega,
    by unfold le16; rw [hg0 17, hg0 18]; simp; omega,
    by unfold le16; rw [hg0 19, hg0 20]; simp, fun _ _ _ => rfl⟩ :
      EFacts (([nibsOf stSubDirEntry nm] ++ nameField nm) ++
        [0x0F, nb % 256, nb / 256 % 256, 0, 0, 0, 0, 0, t0, t1, t2, t3, 0, 0, stdAccess ||| didChange, 0, 0, t0, t1, t2, t3, hp % 256, hp / 256 % 256])
        (([nibsOf stSubDirEntry nm] ++ nameField nm) ++
        [0x0F, nb % 256, nb / 256 % 256, 0, 0, 0, 0, 0, t0, t1, t2, t3, 0, 0, stdAccess ||| didChange, 0, 0, t0, t1, t2, t3, hp % 256, hp / 256 % 256]) 0xD nb 0)
  have hf := (hf0.incBlocks (by decide)).setEof 512
  have h0 : (Ent.setEof (Ent.incBlocks (([nibsOf stSubDirEntry nm] ++ nameField nm) ++
        [0x0F, nb % 256, nb / 256 % 256, 0, 0, 0, 0, 0, t0, t1, t2, t3, 0, 0, stdAccess ||| didChange, 0, 0, t0, t1, t2, t3, hp % 256, hp / 256 % 256])) 512).getD 0 0 =
      0xD * 16 + nm.length := by
    rw [hf.b0, hg0 0, if_pos rfl]; unfold nibsOf stSubDirEntry; omega
  refine ⟨hf.len, hf.bytes, h0, ⟨hn1, hn15⟩, hf.key, hf.used, ?_⟩
  unfold trimName
  rw [h0, show (0xD * 16 + nm.length) % 16 = nm.length by omega]
  have hul : (upper nm).length = nm.length := by unfold upper; simp
  apply list_eq_of_getD
  · unfold slice; rw [List.length_take, List.length_drop, hf.len, hul]; omega
  · intro j hj
    unfold slice at hj
    rw [List.length_take, List.length_drop, hf.len] at hj
    rw [getD_slice _ _ _ _ (by omega), hf.other (1 + j) (by omega) (Or.inl (by omega)), hg0 (1 + j), if_neg (by omega), if_pos (by omega)]
    unfold nameField
    simp only [List.getD_eq_getElem?_getD]
    rw [show 1 + j - 1 = j by omega, List.getElem?_append_left (by omega)]

/-- the key block `create` writes for the new directory -/
structure NewKey (kb : Bytes) (B idx : Nat) : Prop where
  len : kb.length = 512
  bytes : ∀ x ∈ kb, x < 256
  prev : le16 kb 0 = 0
  next : le16 kb 2 = 0
  hdr : kb.getD 4 0 / 16 = 0xE
  geo : kb.getD 35 0 = 39 ∧ kb.getD 36 0 = 13
  count : le16 kb 37 = 0
  parent : le16 kb 39 = B ∧ kb.getD 41 0 = idx
  empty : ∀ k, 1 ≤ k → k < 13 → (entryAt kb k 39).getD 0 0 = 0

theorem newKey_facts (nm : Bytes) (B idx : Nat) (time : Bytes) (hv : isNameValid nm = true)
    (ht : time.length = 4) (htb : ∀ x ∈ time, x < 256) (hB : B < 65536) (hidx : idx < 256) :
    NewKey (quantize ((u16le 0 ++ u16le 0 ++ subDirHeader nm B idx time ++ zeros (12 * entryLen)).take blockSize)) B idx := by
  obtain ⟨hn1, hn15⟩ := isNameValid_len nm hv
  obtain ⟨t0, t1, t2, t3, rfl⟩ : ∃ t0 t1 t2 t3, time = [t0, t1, t2, t3] := by
    match time, ht with
    | [a, b, c, d], _ => exact ⟨a, b, c, d, rfl⟩
  have hnf := nameField_length nm hn15
  have ht' : t0 < 256 ∧ t1 < 256 ∧ t2 < 256 ∧ t3 < 256 :=
    ⟨htb t0 (by simp), htb t1 (by simp), htb t2 (by simp), htb t3 (by simp)⟩
  -- the 43 bytes before the entry slots
  have hA : u16le 0 ++ u16le 0 ++ subDirHeader nm B idx [t0, t1, t2, t3] =
      ([0, 0, 0, 0, nibsOf stSubDirHeader nm] ++ nameField nm) ++
        [0x75, 0, 0, 0, 0, 0, 0, 0, t0, t1, t2, t3, 0, 0, stdAccess, 0x27, 13, 0, 0, B % 256, B / 256 % 256, idx % 256, 0x27] := by
    unfold subDirHeader u16le; simp
  have hAl : (u16le 0 ++ u16le 0 ++ subDirHeader nm B idx [t0, t1, t2, t3]).length = 43 := by
    rw [hA]; simp [hnf]
  have hgA : ∀ j, j < 43 → (u16le 0 ++ u16le 0 ++ subDirHeader nm B idx [t0, t1, t2, t3]).getD j 0 =
      if j < 4 then 0 else if j = 4 then nibsOf stSubDirHeader nm else if j ≤ 19 then (nameField nm).getD (j - 5) 0
      else [0x75, 0, 0, 0, 0, 0, 0, 0, t0, t1, t2, t3, 0, 0, stdAccess, 0x27, 13, 0, 0, B % 256, B / 256 % 256, idx % 256, 0x27].getD (j - 20) 0 := by
    intro j hj
    rw [hA]
    simp only [List.getD_eq_getElem?_getD]
    by_cases h4 : j < 4
    · rw [if_pos h4, List.getElem?_append_left (by simp [hnf]; omega), List.getElem?_append_left (by simp; omega)]
      have : j = 0 ∨ j = 1 ∨ j = 2 ∨ j = 3 := by omega
      rcases this with rfl | rfl | rfl | rfl <;> rfl
    · rw [if_neg h4]
      by_cases h4' : j = 4
      · subst h4'; rw [if_pos rfl, List.getElem?_append_left (by simp [hnf]), List.getElem?_append_left (by simp)]; rfl
      · rw [if_neg h4']
        by_cases h19 : j ≤ 19
        · rw [if_pos h19, List.getElem?_append_left (by simp [hnf]; omega), List.getElem?_append_right (by simp; omega)]
          simp
        · rw [if_neg h19, List.getElem?_append_right (by simp [hnf]; omega)]
          simp [hnf]
  have hL : (u16le 0 ++ u16le 0 ++ subDirHeader nm B idx [t0, t1, t2, t3] ++ zeros (12 * entryLen)).length = 511 := by
    rw [List.length_append, hAl]; unfold zeros entryLen; rw [List.length_replicate]
  have hLb : ∀ x ∈ u16le 0 ++ u16le 0 ++ subDirHeader nm B idx [t0, t1, t2, t3] ++ zeros (12 * entryLen), x < 256 := by
    intro x hx
    rcases List.mem_append.mp hx with h | h
    · rw [hA] at h
      rcases List.mem_append.mp h with h | h
      · rcases List.mem_append.mp h with h | h
        · simp only [List.mem_cons, List.mem_nil_iff, or_false] at h
          rcases h with h | h | h | h | h
          · omega
          · omega
          · omega
          · omega
          · rw [h]; unfold nibsOf; omega
        · exact nameField_bytes nm hv x h
      · have hsa : stdAccess < 256 := by decide
        simp only [List.mem_cons, List.mem_nil_iff, or_false] at h
        rcases h with h | h | h | h | h | h | h | h | h | h | h | h | h | h | h | h | h | h | h | h | h | h | h <;> omega
    · unfold zeros at h; rw [List.mem_replicate] at h; omega
  have hq := quantize_shape _ hLb
  have hg : ∀ j, (quantize ((u16le 0 ++ u16le 0 ++ subDirHeader nm B idx [t0, t1, t2, t3] ++ zeros (12 * entryLen)).take blockSize)).getD j 0 =
      if j < 43 then (u16le 0 ++ u16le 0 ++ subDirHeader nm B idx [t0, t1, t2, t3]).getD j 0 else 0 := by
    intro j
    by_cases h511 : j < 511
    · rw [getD_quantize_take _ j (by rw [hL]; exact h511) (by unfold blockSize; omega)]
      simp only [List.getD_eq_getElem?_getD]
      by_cases h43 : j < 43
      · rw [if_pos h43, List.getElem?_append_left (by rw [hAl]; exact h43)]
      · rw [if_neg h43, List.getElem?_append_right (by rw [hAl]; omega)]
        unfold zeros entryLen
        rw [List.getElem?_replicate, hAl]
        split <;> rfl
    · rw [if_neg (by omega)]
      unfold quantize
      simp only [List.getD_eq_getElem?_getD]
      have htk : (u16le 0 ++ u16le 0 ++ subDirHeader nm B idx [t0, t1, t2, t3] ++ zeros (12 * entryLen)).take blockSize =
          u16le 0 ++ u16le 0 ++ subDirHeader nm B idx [t0, t1, t2, t3] ++ zeros (12 * entryLen) :=
        List.take_of_length_le (by rw [hL]; decide)
      rw [htk, htk, hL]
      by_cases h512 : j < 512
      · rw [List.getElem?_append_right (by rw [hL]; omega), hL, List.getElem?_replicate]
        split <;> rfl
      · rw [List.getElem?_eq_none (by rw [List.length_append, hL, List.length_replicate]; unfold blockSize; omega)]
        rfl
  refine ⟨hq.1, hq.2, ?_, ?_, ?_, ?_, ?_, ?_, ?_⟩
  · unfold le16; rw [hg 0, hg 1, if_pos (by omega), if_pos (by omega), hgA 0 (by omega), hgA 1 (by omega)]; simp
  · unfold le16; rw [hg 2, hg 3, if_pos (by omega), if_pos (by omega), hgA 2 (by omega), hgA 3 (by omega)]; simp
  · rw [hg 4, if_pos (by omega), hgA 4 (by omega)]
    simp only [show ¬ (4 : Nat) < 4 by omega, ↓reduceIte]; unfold nibsOf stSubDirHeader; omega
  · rw [hg 35, hg 36, if_pos (by omega), if_pos (by omega), hgA 35 (by omega), hgA 36 (by omega)]; simp
  · unfold le16; rw [hg 37, hg 38, if_pos (by omega), if_pos (by omega), hgA 37 (by omega), hgA 38 (by omega)]; simp
  · unfold le16
    rw [hg 39, hg 40, hg 41, if_pos (by omega), if_pos (by omega), if_pos (by omega), hgA 39 (by omega), hgA 40 (by omega),
      hgA 41 (by omega)]
    simp; omega
  · intro k hk1 hk13
    rw [entryAt_getD _ _ _ (by omega), hg]
    have : 43 ≤ 4 + k * 39 + 0 := by have := Nat.mul_le_mul_right 39 hk1; omega
    rw [if_neg (by omega)]

end A2Verif.FsProdos
